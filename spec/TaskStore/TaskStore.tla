------------------------------ MODULE TaskStore ------------------------------
(* C14 - task definitions and their running state persist and stay in step.  *)
(*                                                                          *)
(* Impl layer: services/task_store.  The durable catalogue (T tasks,        *)
(* P templates, A template/task associations) lives in one storage          *)
(* namespace; every DAO call is its own transaction.  A request handler is  *)
(* a SEQUENCE of such transactions interleaved with volatile TaskMaster     *)
(* operations (start/stop; X = set of executing tasks).  Handlers are        *)
(* written as functions over a machine record m whose field tr collects the  *)
(* durable state after every committed transaction: the crash points of the  *)
(* request are exactly the elements of tr.                                  *)
(*                                                                          *)
(* Ref layer: the catalogue the property promises - acc (accepted task      *)
(* definitions), accP (accepted templates), mem (which task was created     *)
(* from which template) evolve by the documented meaning of each request,   *)
(* with no notion of transactions.                                          *)
EXTENDS Integers, Sequences, FiniteSets, TLC

CONSTANTS
    TaskOrder, TplOrder,    \* the task / template ids, as sequences in key order of the store
    MaxReq,                 \* requests (incl. restarts, environment changes) per history
    MaxCrash,               \* crashes per history
    Level,                  \* request alphabet of the exhaustive exploration: "quick" | "thorough"
    FixAssoc,               \* TRUE: associations follow accepted definitions (fix 1); FALSE: code as found
    FixTplLast,             \* TRUE: a template is saved after its tasks accepted it (fix 2); FALSE: code as found
    FixRollback,            \* TRUE: the rollback of a template update restores each task's own dbrps (fix 3)
    Known                   \* crash deviation classes tolerated (named known findings)

VARIABLES
    T, P, A,                \* durable: tasks, templates, associations
    X,                      \* volatile: executing tasks (TaskMaster.tasks)
    run,                    \* volatile: what an executing task was started with: the db.rp it is subscribed to
                            \* ("batch" for a batch task, "" when not executing) - a PATCH does not reload it
    up,                     \* environment: the InfluxDB cluster some tasks need at start is reachable
    att, lastOK,            \* ghost: ids with a start attempt since they are enabled, outcome of the last one
    acc, accP, mem,         \* Ref: accepted definitions, accepted templates, template membership
    last,                   \* what the last step was (for the invariants)
    taint,                  \* a crash has left a state that is neither before nor after its request (named deviation):
                            \* from then on there is no accepted catalogue to compare with, Ref just follows what is visible
    n, crashes

vars == <<T, P, A, X, run, up, att, lastOK, acc, accP, mem, last, taint, n, crashes>>

Range(s) == { s[i] : i \in DOMAIN s }
TaskIds == Range(TaskOrder)
TplIds == Range(TplOrder)

NoTask == [none |-> TRUE]

(* ---------- scripts ---------- *)
(* s1,s2 plain; sv needs var v; sx does not compile; sf needs the cluster at start;  *)
(* sb is a batch task querying db1.rp1: StartBatching fails unless its dbrps are d1;  *)
(* q1,q2 template scripts with defaulted vars; qv needs var v; qf needs the cluster.  *)
\* si, qi, qf declare their dbrp in the script (dbrp "db3"."rp3" = d3): the task's dbrps are DERIVED from it;
\* sb, qb are batch scripts: the task's type is derived from the script as well.
Type(s) == IF s \in {"sb", "qb"} THEN "batch" ELSE "stream"
Implicit(s) == IF s \in {"si", "qi", "qf"} THEN "d3" ELSE "none"
NeedsVar(s) == s \in {"sv", "qv"}
Compiles(s) == s \notin {"sx", ""}
\* r: a task record or definition (script, dbrps are read)
StartOK(r) == /\ r.dbrps # "none"                          \* tm.StartTask: "task does contain any dbrps"
              /\ (r.script \in {"sf", "qf"} => up)
              /\ (r.script \in {"sb", "qb"} => r.dbrps = "d1")
\* what an executing task started from r is subscribed to
SubOf(r) == IF r.type = "batch" THEN "batch" ELSE r.dbrps
ValidRec(r) == Compiles(r.script) /\ (NeedsVar(r.script) => r.vars # "none")

OrNone(s) == IF s = "" THEN "none" ELSE s
Status(s) == IF s = "enabled" THEN "enabled" ELSE "disabled"

(* ---------- the machine a handler runs on ---------- *)
Dur(m) == [T |-> m.T, P |-> m.P, A |-> m.A]
Commit(m) == [m EXCEPT !.tr = Append(@, Dur(m))]
Mach(d, x, rn, at, ok) == [T |-> d.T, P |-> d.P, A |-> d.A, X |-> x, run |-> rn, att |-> at, lastOK |-> ok,
                       tr |-> <<>>, sfail |-> FALSE]

TPut(m, t, r) == Commit([m EXCEPT !.T[t] = r])
TDel(m, t) == Commit([m EXCEPT !.T[t] = NoTask])
\* saveLastError = tasks.Get; tasks.Replace: no transaction when the task is gone
TErr(m, t, e) == IF m.T[t] = NoTask THEN m ELSE Commit([m EXCEPT !.T[t].err = e])
Assoc(m, p, t) == Commit([m EXCEPT !.A = @ \cup {<<p, t>>}])
Disassoc(m, p, t) == Commit([m EXCEPT !.A = @ \ {<<p, t>>}])
PPut(m, p, s) == Commit([m EXCEPT !.P[p] = s])
\* templates.Delete removes the template, its index entry and every association under it
PDel(m, p) == Commit([m EXCEPT !.P[p] = "none", !.A = { a \in @ : a[1] # p }])
NopTx(m) == Commit(m)      \* snapshots.Delete
Stop(m, t) == [m EXCEPT !.X = @ \ {t}, !.run[t] = ""]

\* Service.startTask: newKapacitorTask; saveLastError(""); tm.StartTask; on failure saveLastError(err)
StartTask(m, t, r) ==
    IF ~ValidRec(r)
    THEN [m EXCEPT !.att = @ \cup {t}, !.lastOK[t] = FALSE, !.sfail = TRUE]
    ELSE LET m1 == TErr(m, t, FALSE) IN
         IF StartOK(r)
         THEN [m1 EXCEPT !.X = @ \cup {t}, !.run[t] = SubOf(r), !.att = @ \cup {t}, !.lastOK[t] = TRUE]
         ELSE [TErr(m1, t, TRUE) EXCEPT !.att = @ \cup {t}, !.lastOK[t] = FALSE, !.sfail = TRUE]

Res(m, code) == [m |-> m, code |-> code]

(* ---------- POST /tasks ---------- *)
HCreateTask(m, q) ==
    LET t == q.id
        fromTpl == q.tpl # ""
    IN
    IF m.T[t] # NoTask THEN Res(m, 400)
    ELSE IF fromTpl /\ m.P[q.tpl] = "none" THEN Res(m, 400)
    ELSE
    LET script == IF fromTpl THEN m.P[q.tpl] ELSE q.script
        imp == Implicit(script)
        req == OrNone(q.dbrps)
        \* type and dbrps are derived from the script: a declared dbrp is the task's dbrp, and then
        \* none may be given in the request; without a declaration one must be given
        r == [script |-> script, type |-> Type(script), dbrps |-> IF imp # "none" THEN imp ELSE req,
              vars |-> OrNone(q.vars), status |-> Status(q.status),
              tpl |-> IF fromTpl THEN q.tpl ELSE "none", err |-> FALSE]
        m1 == IF fromTpl /\ ~FixAssoc THEN Assoc(m, q.tpl, t) ELSE m     \* as found: before validation
    IN
    IF ~ValidRec(r) \/ (imp = "none" /\ req = "none") \/ (imp # "none" /\ req # "none") THEN Res(m1, 400)
    ELSE
    LET m2 == IF fromTpl /\ FixAssoc THEN Assoc(m1, q.tpl, t) ELSE m1
        m3 == TPut(m2, t, r)
    IN IF r.status = "enabled"
       THEN LET m4 == StartTask(m3, t, r) IN Res(m4, IF m4.sfail THEN 500 ELSE 200)
       ELSE Res(m3, 200)

(* ---------- PATCH /tasks/id ---------- *)
HUpdateTask(m, q) ==
    LET t == q.id
        orig == m.T[t]
    IN
    IF orig = NoTask THEN Res(m, 404)
    ELSE
    LET newId == IF q.newid # "" THEN q.newid ELSE t
        templated == q.tpl # "" \/ orig.tpl # "none"
        p == IF q.tpl # "" THEN q.tpl ELSE orig.tpl
    IN
    IF templated /\ m.P[p] = "none" THEN Res(m, 400)
    ELSE
    LET script == IF templated THEN m.P[p] ELSE IF q.script # "" THEN q.script ELSE orig.script
        imp == Implicit(script)
        \* a plain task that gives up a script with a declared dbrp must be told its dbrps
        mustSpecify == ~templated /\ q.script # "" /\ Implicit(orig.script) # "none" /\ imp = "none" /\ q.dbrps = ""
        both == imp # "none" /\ q.dbrps # ""
        upd == [script |-> script, type |-> Type(script),
                dbrps |-> IF imp # "none" THEN imp ELSE IF q.dbrps # "" THEN q.dbrps ELSE orig.dbrps,
                vars |-> IF q.vars # "" THEN q.vars ELSE orig.vars,
                status |-> IF q.status # "" THEN q.status ELSE orig.status,
                tpl |-> IF templated THEN p ELSE "none",
                err |-> orig.err]
        rename == newId # t
        statusChanged == upd.status # orig.status
        \* as found: associations rewritten before validation, and only on an ID change
        \* (the template comparison reads updated.TemplateID before it is assigned)
        mOld == IF templated /\ rename /\ ~FixAssoc
                THEN Assoc(IF orig.tpl # "none" THEN Disassoc(m, orig.tpl, t) ELSE m, p, newId)
                ELSE m
    IN
    IF ~ValidRec(upd) \/ mustSpecify \/ both THEN Res(mOld, 400)
    ELSE IF FixAssoc /\ rename /\ m.T[newId] # NoTask THEN Res(m, 500)
    ELSE
    LET reassoc == FixAssoc /\ (rename \/ orig.tpl # upd.tpl)
        mA == IF reassoc /\ upd.tpl # "none" THEN Assoc(mOld, upd.tpl, newId) ELSE mOld
        Dis(mm) == IF reassoc /\ orig.tpl # "none" THEN Disassoc(mm, orig.tpl, t) ELSE mm
        AfterWrite(mB) ==
            IF statusChanged
            THEN IF upd.status = "enabled"
                 THEN LET mC == StartTask(mB, newId, upd) IN Res(mC, IF mC.sfail THEN 500 ELSE 200)
                 ELSE Res(Stop(mB, t), 200)
            ELSE Res(mB, 200)
    IN
    IF rename
    THEN IF mA.T[newId] # NoTask THEN Res(mA, 500)       \* tasks.Create fails, nothing committed
         ELSE LET mB == Dis(TDel(TPut(mA, newId, upd), t)) IN
              IF orig.status = "enabled" /\ upd.status = "enabled"
              THEN LET mC == StartTask(Stop(mB, t), newId, upd) IN
                   IF mC.sfail THEN Res(mC, 500) ELSE AfterWrite(mC)
              ELSE AfterWrite(mB)
    ELSE AfterWrite(Dis(TPut(mA, t, upd)))

(* ---------- DELETE /tasks/id ---------- *)
HDeleteTask(m, q) ==
    LET t == q.id
        m1 == NopTx(m)
        r == m.T[t]
    IN
    IF r = NoTask THEN Res(m1, 204)
    ELSE IF FixAssoc
    THEN LET m2 == IF r.status = "enabled" THEN Stop(m1, t) ELSE m1
             m3 == TDel(m2, t)
         IN Res(IF r.tpl # "none" THEN Disassoc(m3, r.tpl, t) ELSE m3, 204)
    ELSE LET m2 == IF r.tpl # "none" THEN Disassoc(m1, r.tpl, t) ELSE m1
             m3 == IF r.status = "enabled" THEN Stop(m2, t) ELSE m2
         IN Res(TDel(m3, t), 204)

(* ---------- templates ---------- *)
HCreateTpl(m, q) ==
    IF m.P[q.id] # "none" THEN Res(m, 400)
    ELSE IF ~Compiles(q.script) THEN Res(m, 400)
    ELSE Res(PPut(m, q.id, q.script), 200)

HDeleteTpl(m, q) == Res(PDel(m, q.id), 204)

\* the ids associated with template p, in key order (ListAssociatedTasks)
AssocSeq(m, p) == SelectSeq(TaskOrder, LAMBDA t : <<p, t>> \in m.A)

\* updateAllAssociatedTasks, forward loop.  Returns [m, failedAt] (failedAt = 0: all done).
RECURSIVE TplLoop(_, _, _, _, _, _, _)
TplLoop(m, ids, i, oldId, newId, oldS, newS) ==
    IF i > Len(ids) THEN [m |-> m, failedAt |-> 0]
    ELSE
    LET t == ids[i]
        r == m.T[t]
    IN
    IF r = NoTask THEN TplLoop(Disassoc(m, oldId, t), ids, i + 1, oldId, newId, oldS, newS)
    ELSE IF FixAssoc /\ r.tpl # oldId THEN TplLoop(Disassoc(m, oldId, t), ids, i + 1, oldId, newId, oldS, newS)
    ELSE
    LET m1 == IF oldId # newId THEN Assoc(m, newId, t) ELSE m
        \* when the old or the new template script declares a dbrp, the task's dbrps become the new
        \* script's declaration (possibly none at all)
        nr == [r EXCEPT !.tpl = newId, !.script = newS, !.type = Type(newS),
                        !.dbrps = IF Implicit(oldS) # "none" \/ Implicit(newS) # "none" THEN Implicit(newS) ELSE @]
        m2 == TPut(m1, t, nr)
    IN
    IF r.status = "enabled"
    THEN LET m3 == StartTask([Stop(m2, t) EXCEPT !.sfail = FALSE], t, nr) IN
         IF m3.sfail THEN [m |-> m3, failedAt |-> i]
         ELSE TplLoop(m3, ids, i + 1, oldId, newId, oldS, newS)
    ELSE TplLoop(m2, ids, i + 1, oldId, newId, oldS, newS)

\* the deferred rollback: tasks ids[1..upto] back to the old template (errors only logged)
RECURSIVE TplRollback(_, _, _, _, _, _, _, _)
TplRollback(m, ids, j, upto, oldId, newId, oldS, T0) ==
    IF j > upto THEN m
    ELSE
    LET t == ids[j]
        r == m.T[t]
    IN
    IF r = NoTask THEN TplRollback(m, ids, j + 1, upto, oldId, newId, oldS, T0)
    ELSE IF FixAssoc /\ r.tpl # newId THEN TplRollback(m, ids, j + 1, upto, oldId, newId, oldS, T0)
    ELSE
    LET m0 == IF FixTplLast /\ oldId # newId THEN Disassoc(m, newId, t) ELSE m
        \* as found: the dbrps are only put back when the OLD script declares them; a task with its own
        \* dbrps keeps the declaration of the rejected script.  Fixed: the dbrps it had before the loop (T0)
        orr == [r EXCEPT !.tpl = oldId, !.script = oldS, !.type = Type(oldS),
                         !.dbrps = IF FixRollback THEN (IF T0[t] # NoTask THEN T0[t].dbrps ELSE @)
                                   ELSE IF Implicit(oldS) # "none" THEN Implicit(oldS) ELSE @]
        m1 == TPut(m0, t, orr)
        m2 == IF r.status = "enabled" THEN StartTask(Stop(m1, t), t, orr) ELSE m1
    IN TplRollback(m2, ids, j + 1, upto, oldId, newId, oldS, T0)

HUpdateTpl(m, q) ==
    LET p == q.id IN
    IF m.P[p] = "none" THEN Res(m, 404)
    ELSE
    LET newId == IF q.newid # "" THEN q.newid ELSE p
        oldS == m.P[p]
        newS == IF q.script # "" THEN q.script ELSE oldS
        ids == AssocSeq(m, p)
        Save(mm) == IF newId # p THEN PDel(PPut(mm, newId, newS), p) ELSE PPut(mm, p, newS)
    IN
    \* the template keeps its type (the request carries none): a script of the other type does not compile in it
    IF ~Compiles(newS) \/ Type(newS) # Type(oldS) THEN Res(m, 400)
    ELSE IF newId # p /\ m.P[newId] # "none" THEN Res(m, 500)
    ELSE
    LET m1 == IF FixTplLast THEN m ELSE Save(m)
        lp == TplLoop(m1, ids, 1, p, newId, oldS, newS)
    IN
    IF lp.failedAt = 0
    THEN Res([(IF FixTplLast THEN Save(lp.m) ELSE lp.m) EXCEPT !.sfail = FALSE], 200)
    ELSE Res([TplRollback(lp.m, ids, 1, lp.failedAt, p, newId, oldS, m.T) EXCEPT !.sfail = TRUE], 500)

Handle(m, q) ==
    CASE q.op = "CreateTask" -> HCreateTask(m, q)
      [] q.op = "UpdateTask" -> HUpdateTask(m, q)
      [] q.op = "DeleteTask" -> HDeleteTask(m, q)
      [] q.op = "CreateTpl" -> HCreateTpl(m, q)
      [] q.op = "UpdateTpl" -> HUpdateTpl(m, q)
      [] q.op = "DeleteTpl" -> HDeleteTpl(m, q)

(* ---------- Open(): start every enabled task, in id order ---------- *)
RECURSIVE OpenLoop(_, _)
OpenLoop(m, i) ==
    IF i > Len(TaskOrder) THEN m
    ELSE LET t == TaskOrder[i]
             r == m.T[t]
         IN IF r # NoTask /\ r.status = "enabled" THEN OpenLoop(StartTask(m, t, r), i + 1)
            ELSE OpenLoop(m, i + 1)
NoneOK == [t \in TaskIds |-> FALSE]
NoRun == [t \in TaskIds |-> ""]
Reopen(d) == OpenLoop(Mach(d, {}, NoRun, {}, NoneOK), 1)

(* ================= Ref: what the property promises ================= *)
DefOf(r) == IF r = NoTask THEN NoTask
            ELSE [script |-> r.script, type |-> r.type, dbrps |-> r.dbrps, vars |-> r.vars, status |-> r.status, tpl |-> r.tpl]
ValidDef(d) == Compiles(d.script) /\ (NeedsVar(d.script) => d.vars # "none")
Cat(tt) == [t \in TaskIds |-> DefOf(tt[t])]

RefRes(a, ap, mm, ok) == [acc |-> a, accP |-> ap, mem |-> mm, accepted |-> ok]
Rejected(a, ap, mm) == RefRes(a, ap, mm, FALSE)

\* the definitions a template update aims at, whether or not it is accepted
TplTarget(a, mm, p, newId, newS, oldS) ==
    [t \in TaskIds |-> IF <<p, t>> \in mm /\ a[t] # NoTask
                       THEN [a[t] EXCEPT !.script = newS, !.tpl = newId, !.type = Type(newS),
                                         !.dbrps = IF Implicit(oldS) # "none" \/ Implicit(newS) # "none"
                                                   THEN Implicit(newS) ELSE @]
                       ELSE a[t]]

RefStep(a, ap, mm, q) ==
    CASE q.op = "CreateTask" ->
            LET fromTpl == q.tpl # ""
                sc == IF fromTpl THEN ap[q.tpl] ELSE q.script
                \* documented: the dbrps are given in the request or declared in the script, not both, not neither
                d == [script |-> sc, type |-> Type(sc),
                      dbrps |-> IF Implicit(sc) # "none" THEN Implicit(sc) ELSE OrNone(q.dbrps),
                      vars |-> OrNone(q.vars), status |-> Status(q.status), tpl |-> IF fromTpl THEN q.tpl ELSE "none"]
            IN IF a[q.id] # NoTask \/ (fromTpl /\ ap[q.tpl] = "none") \/ d.script = "none" THEN Rejected(a, ap, mm)
               ELSE IF ~ValidDef(d) \/ d.dbrps = "none" \/ (Implicit(sc) # "none" /\ q.dbrps # "") THEN Rejected(a, ap, mm)
               ELSE RefRes([a EXCEPT ![q.id] = d], ap, IF fromTpl THEN mm \cup {<<q.tpl, q.id>>} ELSE mm, TRUE)
      [] q.op = "UpdateTask" ->
            IF a[q.id] = NoTask THEN Rejected(a, ap, mm)
            ELSE
            LET o == a[q.id]
                newId == IF q.newid # "" THEN q.newid ELSE q.id
                templated == q.tpl # "" \/ o.tpl # "none"
                p == IF q.tpl # "" THEN q.tpl ELSE o.tpl
            IN
            IF templated /\ ap[p] = "none" THEN Rejected(a, ap, mm)
            ELSE
            LET sc == IF templated THEN ap[p] ELSE IF q.script # "" THEN q.script ELSE o.script
                d == [script |-> sc, type |-> Type(sc),
                      dbrps |-> IF Implicit(sc) # "none" THEN Implicit(sc) ELSE IF q.dbrps # "" THEN q.dbrps ELSE o.dbrps,
                      vars |-> IF q.vars # "" THEN q.vars ELSE o.vars,
                      status |-> IF q.status # "" THEN q.status ELSE o.status,
                      tpl |-> IF templated THEN p ELSE "none"]
            IN
            IF ~ValidDef(d) \/ (newId # q.id /\ a[newId] # NoTask)
               \/ (Implicit(sc) # "none" /\ q.dbrps # "")
               \/ (~templated /\ q.script # "" /\ Implicit(o.script) # "none" /\ Implicit(sc) = "none" /\ q.dbrps = "")
            THEN Rejected(a, ap, mm)
            ELSE RefRes([a EXCEPT ![q.id] = NoTask, ![newId] = d], ap,
                        \* membership follows the definition when the id or the template changes
                        IF newId # q.id \/ o.tpl # d.tpl
                        THEN (mm \ {<<o.tpl, q.id>>}) \cup (IF d.tpl # "none" THEN {<<d.tpl, newId>>} ELSE {})
                        ELSE mm,
                        TRUE)
      [] q.op = "DeleteTask" ->
            RefRes([a EXCEPT ![q.id] = NoTask], ap, { x \in mm : x[2] # q.id }, TRUE)
      [] q.op = "CreateTpl" ->
            IF ap[q.id] # "none" \/ ~Compiles(q.script) THEN Rejected(a, ap, mm)
            ELSE RefRes(a, [ap EXCEPT ![q.id] = q.script], mm, TRUE)
      [] q.op = "DeleteTpl" ->
            \* documented: the tasks of a deleted template become orphans, left unmodified
            RefRes(a, [ap EXCEPT ![q.id] = "none"], { x \in mm : x[1] # q.id }, TRUE)
      [] q.op = "UpdateTpl" ->
            IF ap[q.id] = "none" THEN Rejected(a, ap, mm)
            ELSE
            LET p == q.id
                newId == IF q.newid # "" THEN q.newid ELSE p
                newS == IF q.script # "" THEN q.script ELSE ap[p]
                tgt == TplTarget(a, mm, p, newId, newS, ap[p])
                members == { t \in TaskIds : <<p, t>> \in mm /\ a[t] # NoTask }
                \* every enabled task of the template is reloaded and must accept the new definition
                canAll == \A t \in members : tgt[t].status = "enabled" => (ValidDef(tgt[t]) /\ StartOK(tgt[t]))
            IN
            IF ~Compiles(newS) \/ Type(newS) # Type(ap[p]) \/ (newId # p /\ ap[newId] # "none") \/ ~canAll THEN Rejected(a, ap, mm)
            ELSE RefRes(tgt, [ap EXCEPT ![p] = "none", ![newId] = newS],
                        { x \in mm : x[1] # p } \cup { <<newId, t>> : t \in members }, TRUE)

(* ================= requests of the exhaustive exploration ================= *)
Q(op, id, newid, tpl, script, dbrps, vs, status) ==
    [op |-> op, id |-> id, newid |-> newid, tpl |-> tpl, script |-> script, dbrps |-> dbrps, vars |-> vs, status |-> status]

Pairs(S) == { x \in S \X S : x[1] # x[2] }
TaskScripts == IF Level = "quick" THEN {"s1", "sv", "sx", "si"} ELSE {"s1", "sv", "sx", "sf", "sb", "si"}
TplScripts == IF Level = "quick" THEN {"q1", "qv", "qi"} ELSE {"q1", "qv", "qf", "qi", "qb"}

CreateReqs ==
    { Q("CreateTask", t, "", "", s, "d1", v, st) :
        t \in TaskIds, s \in TaskScripts, v \in {"", "vx"}, st \in {"", "enabled"} }
    \cup { Q("CreateTask", t, "", p, "", "d1", v, st) :
        t \in TaskIds, p \in TplIds, v \in {"", "vx"}, st \in {"", "enabled"} }
    \cup { Q("CreateTask", t, "", p, "", "", "", "") : t \in TaskIds, p \in TplIds }     \* rejected: no dbrps
UpdateReqs ==
    { Q("UpdateTask", t, "", "", s, "", "", "") : t \in TaskIds, s \in TaskScripts }
    \cup { Q("UpdateTask", t, "", p, "", d, "", "") : t \in TaskIds, p \in TplIds, d \in {"", "d2"} }
    \cup { Q("UpdateTask", t, "", "", "", "d2", "", "") : t \in TaskIds }
    \cup { Q("UpdateTask", t, "", "", "", "", v, "") : t \in TaskIds, v \in {"vx", "vy"} }
    \cup { Q("UpdateTask", t, "", "", "", "", "", st) : t \in TaskIds, st \in {"enabled", "disabled"} }
    \cup { Q("UpdateTask", x[1], x[2], "", "", "", "", st) : x \in Pairs(TaskIds), st \in {"", "enabled", "disabled"} }
TplReqs ==
    { Q("CreateTpl", p, "", "", s, "", "", "") : p \in TplIds, s \in TplScripts \cup {"sx"} }
    \cup { Q("UpdateTpl", p, "", "", s, "", "", "") : p \in TplIds, s \in TplScripts }
    \cup { Q("UpdateTpl", x[1], x[2], "", s, "", "", "") : x \in Pairs(TplIds), s \in {"", "qv"} }
    \cup { Q("DeleteTpl", p, "", "", "", "", "", "") : p \in TplIds }
Reqs == CreateReqs \cup UpdateReqs \cup TplReqs
        \cup { Q("DeleteTask", t, "", "", "", "", "", "") : t \in TaskIds }

(* ================= behaviours ================= *)
Empty == [T |-> [t \in TaskIds |-> NoTask], P |-> [p \in TplIds |-> "none"], A |-> {}]

\* what the invariants need to know about the last step (kept small: it is part of the state)
L(kind, ok, accepted, sfail, tplid, class) ==
    [kind |-> kind, ok |-> ok, accepted |-> accepted, sfail |-> sfail, tplid |-> tplid, class |-> class, mems |-> {},
     changed |-> FALSE]

Init ==
    /\ T = Empty.T /\ P = Empty.P /\ A = {} /\ X = {} /\ run = NoRun
    /\ up = TRUE
    /\ att = {} /\ lastOK = NoneOK
    /\ acc = Empty.T /\ accP = Empty.P /\ mem = {}
    /\ last = L("init", TRUE, TRUE, FALSE, "", "")
    /\ taint = FALSE
    /\ n = 0 /\ crashes = 0

Cur == Mach([T |-> T, P |-> P, A |-> A], X, run, att, lastOK)

Install(m) ==
    /\ T' = m.T /\ P' = m.P /\ A' = m.A /\ X' = m.X /\ run' = m.run
    \* a start attempt is remembered for as long as the id stays enabled
    /\ att' = { t \in m.att : m.T[t] # NoTask /\ m.T[t].status = "enabled" }
    /\ lastOK' = m.lastOK

\* after a crash, whatever is visible is what later requests are judged against; the memberships
\* are the associations that are live (the task exists and names that template)
Rebase(o) ==
    /\ acc' = Cat(o.T) /\ accP' = o.P
    /\ mem' = { a \in o.A : o.T[a[2]] # NoTask /\ o.T[a[2]].tpl = a[1] }

\* a request that runs to completion and is answered
Complete(q) ==
    LET h == Handle(Cur, q)
        r == RefStep(acc, accP, mem, q)
    IN /\ Install(h.m)
       /\ IF taint THEN Rebase(h.m) ELSE acc' = r.acc /\ accP' = r.accP /\ mem' = r.mem
       /\ last' = [L("req", h.code < 300, r.accepted, h.m.sfail,
                     IF q.op = "UpdateTpl" THEN (IF q.newid # "" THEN q.newid ELSE q.id) ELSE "", "")
                   EXCEPT !.mems = IF q.op = "UpdateTpl" THEN { t \in TaskIds : <<q.id, t>> \in mem /\ acc[t] # NoTask } ELSE {},
                          \* did the request leave a trace: definitions, templates, associations
                          \* (an association left over by a crash - task gone or naming another template - may
                          \* be cleaned up by any request: that is no trace)
                          !.changed = (Cat(h.m.T) # Cat(T) \/ h.m.P # P
                                       \/ { a \in h.m.A : h.m.T[a[2]] # NoTask /\ h.m.T[a[2]].tpl = a[1] }
                                          # { a \in A : T[a[2]] # NoTask /\ T[a[2]].tpl = a[1] })]
       /\ UNCHANGED <<up, crashes, taint>>

\* how the catalogue visible after a crash relates to the request that was in flight
CrashClass(q, a0, ap0, mm0, o) ==
    LET r == RefStep(a0, ap0, mm0, q)
        dT == o.T
        dP == o.P
        cat == Cat(dT)
        newTplId == IF q.newid # "" THEN q.newid ELSE q.id
        tgtP == IF q.op = "UpdateTpl" /\ ap0[q.id] # "none"
                THEN [ap0 EXCEPT ![q.id] = "none", ![newTplId] = IF q.script # "" THEN q.script ELSE ap0[q.id]]
                ELSE ap0
        tgtT == IF q.op = "UpdateTpl" /\ ap0[q.id] # "none"
                THEN TplTarget(a0, mm0, q.id, newTplId, IF q.script # "" THEN q.script ELSE ap0[q.id], ap0[q.id])
                ELSE a0
    IN
    \* visible or not: but then the associations the visible tasks rely on must be there as well
    \* (a templated task its template does not know about misses the next template update)
    IF cat = a0 /\ dP = ap0 THEN (IF mm0 \subseteq o.A THEN "atomic" ELSE "assoc-missing")
    ELSE IF cat = r.acc /\ dP = r.accP THEN (IF r.mem \subseteq o.A THEN "atomic" ELSE "assoc-missing")
    \* rename: tasks.Create(new); tasks.Delete(old) are two transactions
    \* the named class is exactly "BOTH ids are there": the old one as before, the new one as after, nothing
    \* else touched.  The mirror image - neither id there, the definition lost - is no named class.
    ELSE IF q.op = "UpdateTask" /\ q.newid # "" /\ q.newid # q.id /\ dP = ap0
            /\ a0[q.id] # NoTask /\ cat[q.id] = a0[q.id]
            /\ r.acc[q.newid] # NoTask /\ cat[q.newid] = r.acc[q.newid]
            /\ \A t \in TaskIds \ {q.id, q.newid} : cat[t] = a0[t]
         THEN "rename-both-ids"
    \* template update: the template and each of its tasks are separate transactions
    ELSE IF q.op = "UpdateTpl"
            /\ \A t \in TaskIds : cat[t] \in {a0[t], tgtT[t]}
            /\ \A p \in TplIds : dP[p] \in {ap0[p], tgtP[p]}
         THEN "template-update-partial"
    ELSE "other"

\* a crash after the k-th transaction of request q, followed by a restart on the file
CrashIn(q) ==
    /\ crashes < MaxCrash
    /\ LET h == Handle(Cur, q) IN
       \E k \in 1..Len(h.m.tr) :
          LET d == h.m.tr[k]
              o == Reopen(d)
              c == IF taint THEN "tainted" ELSE CrashClass(q, acc, accP, mem, o)
          IN /\ Install(o)
             /\ last' = L("crash", FALSE, FALSE, FALSE, "", c)
             /\ taint' = (c # "atomic")
             /\ Rebase(o)
    /\ crashes' = crashes + 1
    /\ UNCHANGED up

\* clean restart: server.Close (stop all tasks, close services) then Open on the same file
Restart ==
    /\ Install(Reopen([T |-> T, P |-> P, A |-> A]))
    /\ last' = L("restart", TRUE, TRUE, FALSE, "", "")
    /\ UNCHANGED <<up, acc, accP, mem, crashes, taint>>

SetEnv(b) ==
    /\ up' = b
    /\ last' = L("env", TRUE, TRUE, FALSE, "", "")
    /\ UNCHANGED <<T, P, A, X, run, att, lastOK, acc, accP, mem, crashes, taint>>

Next ==
    /\ n < MaxReq
    /\ n' = n + 1
    /\ \/ \E q \in Reqs : Complete(q) \/ CrashIn(q)
       \/ Restart
       \/ (Level # "quick" /\ SetEnv(~up))

Spec == Init /\ [][Next]_vars

(* ================= properties ================= *)
TaskRecs == [script : STRING, type : {"stream", "batch"}, dbrps : STRING, vars : STRING, status : {"enabled", "disabled"}, tpl : STRING, err : BOOLEAN]
TypeOK ==
    /\ \A t \in TaskIds : T[t] = NoTask \/ T[t] \in TaskRecs
    /\ \A p \in TplIds : P[p] \in STRING
    /\ A \subseteq TplIds \X TaskIds
    /\ X \subseteq TaskIds /\ att \subseteq TaskIds

\* the listing is exactly the accepted definitions (tasks and templates); after a crash the
\* ghost is re-based on what is visible, so this constrains complete requests and restarts
CatalogueIsAccepted == Cat(T) = acc /\ P = accP

\* a request is answered with success iff its definition was accepted and every start it needed
\* succeeded (an accepted definition whose start failed is the only accepted request answered with an error)
AnswerMatches == last.kind = "req" => (last.ok <=> (last.accepted /\ ~last.sfail))

\* a request that is not accepted leaves no trace: no definition, template or association changes (the only
\* accepted requests answered with an error are those whose start failed, see AnswerMatches).  Once a crash
\* has left a named third state, a rejected template update may repair half-updated tasks (taint).
FailedRequestLeavesNoTrace ==
    last.kind = "req" /\ ~last.accepted /\ ~taint => ~last.changed
\* the template's task list is the set of tasks that name the template (and the template exists)
TemplateTaskList ==
    crashes = 0 => \A t \in TaskIds, p \in TplIds :
        <<p, t>> \in A <=> (T[t] # NoTask /\ T[t].tpl = p /\ <<p, t>> \in mem)

\* executing <=> enabled and its (last) start succeeded; every enabled task had its start attempted
Enabled(t) == T[t] # NoTask /\ T[t].status = "enabled"
ExecutingIffEnabledStarted ==
    /\ \A t \in X : Enabled(t)
    /\ \A t \in TaskIds : Enabled(t) => t \in att
    /\ \A t \in att : (t \in X) <=> lastOK[t]

\* after a restart (clean or after a crash) every enabled task whose start succeeds is executing,
\* and it executes the stored definition (type, subscription)
RestartRestoresExecuting ==
    last.kind \in {"restart", "crash"} =>
        /\ X = { t \in TaskIds : Enabled(t) /\ ValidRec(T[t]) /\ StartOK(T[t]) }
        /\ \A t \in X : run[t] = SubOf(T[t])

\* type and (where the script declares one) dbrps of a stored task are the ones derived from its script;
\* what is not executing is subscribed to nothing
DerivedFromScript ==
    /\ \A t \in TaskIds : T[t] # NoTask =>
          /\ T[t].type = Type(T[t].script)
          /\ (Implicit(T[t].script) # "none" /\ ~taint => T[t].dbrps = Implicit(T[t].script))
    /\ \A t \in TaskIds : (t \in X) <=> (run[t] # "")

\* the associations are exactly the memberships the accepted requests created; after a crash
\* none is missing and a left-over one is inert (it names a task that is gone or belongs elsewhere)
NoOrphanAssociation ==
    /\ crashes = 0 => A = mem
    /\ mem \subseteq A
    /\ \A a \in A \ mem : T[a[2]] = NoTask \/ T[a[2]].tpl # a[1]

\* a template's tasks carry the template's definition - all of them (follows from
\* CatalogueIsAccepted and RefStep, stated separately because it is the sentence of the property)
TemplateAllOrNone ==
    last.kind = "req" /\ last.tplid # "" /\ last.accepted =>
        \A t \in last.mems : T[t] # NoTask /\ T[t].script = P[last.tplid] /\ T[t].tpl = last.tplid

\* a request in flight at a crash is visible or not - no third state (except the named classes)
CrashAtomicOrKnown == last.kind = "crash" => last.class \in {"atomic", "tainted"} \cup Known
CrashAtomic == last.kind = "crash" => last.class = "atomic"
=============================================================================
