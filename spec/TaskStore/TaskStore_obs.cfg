\* Observation: without the named deviation classes a crash inside a rename or a template update
\* leaves a third state - TLC must find the counterexample (checks/c14.py expects it).
SPECIFICATION Spec
CONSTANTS
    TaskOrder <- MCTaskOrder
    TplOrder <- MCTplOrder
    MaxReq = 3
    MaxCrash = 1
    Level = "quick"
    FixAssoc = TRUE
    FixTplLast = TRUE
    FixRollback = TRUE
    Known = {}
INVARIANTS
    CrashAtomic
CHECK_DEADLOCK FALSE
