\* The handlers as they were before the two fix: commits (associations written before validation and
\* not moved on a template change; template saved before its tasks): TLC must find a counterexample.
SPECIFICATION Spec
CONSTANTS
    TaskOrder <- MCTaskOrder
    TplOrder <- MCTplOrder
    MaxReq = 4
    MaxCrash = 0
    Level = "quick"
    FixAssoc = FALSE
    FixTplLast = FALSE
    FixRollback = FALSE
    Known = {}
INVARIANTS
    CatalogueIsAccepted
    NoOrphanAssociation
    TemplateAllOrNone
CHECK_DEADLOCK FALSE
