-------------------------- MODULE TaskStoreTraceMC --------------------------
EXTENDS TaskStoreTrace
MCTaskOrder == <<"t", "t2">>
MCTplOrder == <<"p", "p2">>
=============================================================================
