-------------------------- MODULE TaskStoreTraceMC --------------------------
EXTENDS TaskStoreTrace
MCTaskOrder == <<"t1", "t2">>
MCTplOrder == <<"p1", "p2">>
=============================================================================
