SPECIFICATION TrSpec
CONSTANTS
    TaskOrder <- MCTaskOrder
    TplOrder <- MCTplOrder
    MaxReq = 1000000
    MaxCrash = 1000000
    Level = "thorough"
    FixAssoc = TRUE
    FixTplLast = TRUE
    FixRollback = TRUE
    Known = {"rename-both-ids", "template-update-partial"}
INVARIANTS
    CatalogueIsAccepted
    AnswerMatches
    ExecutingIffEnabledStarted
    RestartRestoresExecuting
    NoOrphanAssociation
    TemplateAllOrNone
    DerivedFromScript
    FailedRequestLeavesNoTrace
    TemplateTaskList
CONSTRAINT HW
POSTCONDITION Accepted
CHECK_DEADLOCK FALSE
