SPECIFICATION Spec
CONSTANTS
    TaskOrder <- MCTaskOrder
    TplOrder <- MCTplOrder
    MaxReq = 4
    MaxCrash = 2
    Level = "thorough"
    FixAssoc = TRUE
    FixTplLast = TRUE
    FixRollback = TRUE
    Known = {"rename-both-ids", "template-update-partial"}
INVARIANTS
    TypeOK
    CatalogueIsAccepted
    AnswerMatches
    ExecutingIffEnabledStarted
    RestartRestoresExecuting
    NoOrphanAssociation
    TemplateAllOrNone
    DerivedFromScript
    FailedRequestLeavesNoTrace
    TemplateTaskList
    CrashAtomicOrKnown
CHECK_DEADLOCK FALSE
