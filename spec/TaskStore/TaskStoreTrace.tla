--------------------------- MODULE TaskStoreTrace ---------------------------
(* Validates executions of the real task store service (driver c14) against  *)
(* TaskStore.  Every logged line is one step:                                *)
(*   Reset      fresh storage, fresh stack                                   *)
(*   Req        one API request with its HTTP status and the catalogue read  *)
(*              back through the API afterwards                              *)
(*   Restart    clean shutdown, Open on the same file, catalogue             *)
(*   Env        the cluster the sf/qf tasks need goes up / down              *)
(*   Crash      "had the last request been cut after its k-th transaction":  *)
(*              the catalogue a fresh stack shows on that copy of the file.  *)
(*              Judged against the state before the last Req; leaves the     *)
(*              model state alone                                            *)
(*   CrashGo    the same, and the history continues on that copy             *)
(*   Bulk       100+ tasks created, paged listing and executing set before   *)
(*              and after a clean restart                                    *)
(* Verdict level: success/failure of every answer, every listed task (id,    *)
(* type, script, dbrps, vars, status, template, executing, and the db.rp an  *)
(* executing task really receives points from) and template.  Drift          *)
(* level (printed, never a rejection): exact status code, stored error flag, *)
(* raw association keys, which transaction a crash state belongs to.         *)
EXTENDS TaskStore, TraceCommon

VARIABLES l, pre      \* pre: model state before the last Req, and that request
tvars == <<vars, l, pre>>

Ln == Trace[l]
IsEv(e) == l <= Len(Trace) /\ Ln.ev = e /\ l' = l + 1

NoPre == [set |-> FALSE]
TrInit == Init /\ l = 1 /\ pre = NoPre /\ HWInit

(* ---------- what the API shows of a machine state ---------- *)
TaskView(m, t) ==
    LET r == m.T[t] IN
    IF r = NoTask
    THEN [x |-> FALSE, type |-> "", sub |-> m.run[t], script |-> "", dbrps |-> "", vars |-> "", status |-> "", tpl |-> "",
          exec |-> t \in m.X, err |-> FALSE]
    ELSE [x |-> TRUE, type |-> r.type, sub |-> m.run[t], script |-> r.script, dbrps |-> r.dbrps, vars |-> r.vars,
          status |-> r.status, tpl |-> r.tpl, exec |-> t \in m.X, err |-> r.err]
NoErr(v) == [v EXCEPT !.err = FALSE]

Drift(what) == PrintT(<<"DRIFT", what, l>>)

\* paged and filtered list requests return the corresponding slice of the catalogue, in id order:
\*   o1  offset=1      l1  limit=1      po1  pattern=<first id>* (matches every id of the universe, the ids
\*   being prefix related), offset=1    pt2  pattern=<second id>      to1  templates, offset=1
Rest(s) == IF s = <<>> THEN <<>> ELSE Tail(s)
First(s) == IF s = <<>> THEN <<>> ELSE <<Head(s)>>
PagesOK(m) ==
    LET ids == SelectSeq(TaskOrder, LAMBDA t : m.T[t] # NoTask)
        pids == SelectSeq(TplOrder, LAMBDA p : m.P[p] # "none")
    IN /\ Ln.pages.o1 = Rest(ids)
       /\ Ln.pages.l1 = First(ids)
       /\ Ln.pages.po1 = Rest(ids)
       /\ Ln.pages.pt2 = SelectSeq(ids, LAMBDA t : t = TaskOrder[2])
       /\ Ln.pages.to1 = Rest(pids)

\* the logged catalogue is the one machine state m shows (verdict level)
ShowsV(m) ==
    /\ Ln.extra = <<>>
    /\ \A t \in TaskIds : NoErr(Ln.tasks[t]) = NoErr(TaskView(m, t))
    /\ \A p \in TplIds : Ln.tpls[p] = m.P[p]
    /\ PagesOK(m)
\* ... with the drift-level observables reported on the side
Shows(m) ==
    /\ ShowsV(m)
    /\ ((\E t \in TaskIds : Ln.tasks[t].err # TaskView(m, t).err) => Drift("stored error flag"))
    /\ (SeqToSet(Ln.assoc) # m.A => Drift("association keys"))

CurM == [T |-> T, P |-> P, A |-> A, X |-> X]

ReqOf(r) == [op |-> r.op, id |-> r.id, newid |-> r.newid, tpl |-> r.tpl, script |-> r.script,
             dbrps |-> r.dbrps, vars |-> r.vars, status |-> r.status]

TrReset ==
    /\ IsEv("Reset")
    /\ T' = Empty.T /\ P' = Empty.P /\ A' = {} /\ X' = {} /\ run' = NoRun
    /\ up' = Ln.up
    /\ att' = {} /\ lastOK' = NoneOK
    /\ acc' = Empty.T /\ accP' = Empty.P /\ mem' = {}
    /\ last' = L("init", TRUE, TRUE, FALSE, "", "")
    /\ taint' = FALSE
    /\ n' = 0 /\ crashes' = 0
    /\ pre' = NoPre

TrReq ==
    /\ IsEv("Req")
    /\ LET q == ReqOf(Ln)
           h == Handle(Cur, q)
       IN /\ Complete(q)
          /\ Ln.ok = (h.code < 300)
          /\ Shows(h.m)
          /\ (Ln.code # h.code => Drift("status code"))
          /\ pre' = [set |-> TRUE, q |-> q, T |-> T, P |-> P, A |-> A, X |-> X, run |-> run, att |-> att, lastOK |-> lastOK,
                     acc |-> acc, accP |-> accP, mem |-> mem, taint |-> taint]
    /\ n' = n + 1

TrRestart ==
    /\ IsEv("Restart")
    /\ Restart
    /\ Shows(Reopen([T |-> T, P |-> P, A |-> A]))
    /\ n' = n + 1
    /\ pre' = NoPre

TrEnv ==
    /\ IsEv("Env")
    /\ SetEnv(Ln.up)
    /\ n' = n + 1
    /\ pre' = NoPre

\* A crash inside the last request.  The model offers the durable state after each of the request's
\* transactions; the logged catalogue must be what a restart shows on one of them (TLC picks which:
\* the number and order of invisible transactions is not part of the verdict).  A state that is
\* neither "request not visible" nor "request visible" must belong to a named deviation class.
\* the durable state the logged catalogue itself describes
LoggedDur ==
    [T |-> [t \in TaskIds |->
              LET v == Ln.tasks[t] IN
              IF v.x THEN [script |-> v.script, type |-> v.type, dbrps |-> v.dbrps, vars |-> v.vars, status |-> v.status, tpl |-> v.tpl, err |-> v.err]
              ELSE NoTask],
     P |-> [p \in TplIds |-> Ln.tpls[p]],
     A |-> SeqToSet(Ln.assoc)]
\* durable state after the k-th transaction of the last request (0: before its first one; -1: as logged)
DurAt(k, h) == IF k = 0 THEN [T |-> pre.T, P |-> pre.P, A |-> pre.A]
               ELSE IF k = -1 THEN LoggedDur ELSE h.m.tr[k]
ClassOf(k, h) == CrashClass(pre.q, pre.acc, pre.accP, pre.mem, Reopen(DurAt(k, h)))
CrashMatch(k, h) ==
    LET c == ClassOf(k, h) IN
    \* what a restart shows on that file: every enabled task that can start is executing
    /\ Shows(Reopen(DurAt(k, h)))
    \* once tainted there is no accepted catalogue the crash state could be compared with
    /\ \/ c = "atomic" \/ pre.taint
       \/ c \in Known /\ PrintT(<<"KF-HIT", "crash-" \o c>>)
\* Which durable state the crash line is judged on: the model's state after the logged transaction
\* index; else the model's state at any other transaction boundary of the request; else (the code
\* issues its transactions in another order than the model) the state the line itself describes.
\* The verdict is the same in all three cases: visible or not, or a named class; restart starts
\* the enabled tasks.  Only the first is free of a DRIFT report.
CrashPoints(h) ==
    LET N == Len(h.m.tr)
        own == IF Ln.k \in 1..N /\ ShowsV(Reopen(h.m.tr[Ln.k])) THEN {Ln.k} ELSE {}
        any == { k \in 0..N : ShowsV(Reopen(DurAt(k, h))) }
    IN IF own # {} THEN own
       ELSE IF any # {} THEN { k \in any : Drift("crash point index") }
       ELSE { k \in {-1} : Drift("crash state is no transaction boundary of the model") }

PreM == Mach([T |-> pre.T, P |-> pre.P, A |-> pre.A], pre.X, pre.run, pre.att, pre.lastOK)

TrCrash ==
    /\ IsEv("Crash")
    /\ pre.set
    /\ LET h == Handle(PreM, pre.q) IN \E k \in CrashPoints(h) : CrashMatch(k, h)
    /\ UNCHANGED <<vars, pre>>

TrCrashGo ==
    /\ IsEv("CrashGo")
    /\ pre.set
    /\ LET h == Handle(PreM, pre.q) IN
       \E k \in CrashPoints(h) :
          /\ CrashMatch(k, h)
          /\ LET o == Reopen(DurAt(k, h)) IN
             /\ Install(o)
             /\ last' = L("crash", FALSE, FALSE, FALSE, "", "atomic")   \* the class was judged in CrashMatch
             /\ taint' = (taint \/ ClassOf(k, h) # "atomic")
             /\ Rebase(o)
    /\ crashes' = crashes + 1 /\ n' = n + 1
    /\ UNCHANGED up
    /\ pre' = NoPre

\* A catalogue larger than one page of Open() / of the default list limit (ids outside the small
\* universe, so judged directly by the property): n valid create requests, every one accepted; a
\* client paging through the list with offset/limit sees exactly the created ids, each once, in id
\* order, the same as one unpaged request; executing = the enabled ones - before and after a clean restart.
BulkObs(o) ==
    /\ o.err = ""
    /\ o.paged = Ln.created
    /\ o.all = Ln.created
    /\ o.exec = Ln.enabled
TrBulk ==
    /\ IsEv("Bulk")
    /\ Ln.rejected = 0 /\ Len(Ln.created) = Ln.n
    /\ BulkObs(Ln.before)
    /\ BulkObs(Ln.after)
    /\ UNCHANGED <<vars, pre>>

TrNext == TrReset \/ TrReq \/ TrRestart \/ TrEnv \/ TrCrash \/ TrCrashGo \/ TrBulk
TrSpec == TrInit /\ [][TrNext]_tvars

HW == HWMark(l)
Accepted == HWAccepted
=============================================================================
