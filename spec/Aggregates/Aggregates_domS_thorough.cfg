SPECIFICATION Spec
CONSTANTS
    Groups = {"a"}
    Kinds = {"int"}
    Values <- MCValues4
    Cfgs <- MCDomCfgs
    Modes = {"stream"}
    MaxBatches = 2
    MaxPts = 4
    MaxStream = 5
    BuggyCache = FALSE
INVARIANTS
    TypeOK
    NoStaleContext
    DefinitionsTotal
    Typing
    EmptyRule
CHECK_DEADLOCK FALSE
