SPECIFICATION Spec
CONSTANTS
    Groups = {"a", "b"}
    Kinds = {"int", "float", "str", "bool", "none"}
    Values = {2}
    Cfgs <- MCAllDefault
    Modes = {"batch"}
    MaxBatches = 5
    MaxPts = 3
    MaxStream = 0
    BuggyCache = FALSE
INVARIANTS
    TypeOK
    NoStaleContext
    DefinitionsTotal
    Typing
    EmptyRule
CHECK_DEADLOCK FALSE
