SPECIFICATION Spec
CONSTANTS
    Groups = {"a", "b"}
    Kinds = {"int", "float", "str", "none"}
    Values = {2}
    Cfgs <- MCLifeQuick
    Modes = {"batch"}
    MaxBatches = 4
    MaxPts = 2
    MaxStream = 0
    BuggyCache = FALSE
INVARIANTS
    TypeOK
    NoStaleContext
    DefinitionsTotal
    Typing
    EmptyRule
CHECK_DEADLOCK FALSE
