SPECIFICATION TrSpec
CONSTANTS
    Groups = {"a", "b", "c", "dd"}
    Kinds = {"int", "float", "str", "bool", "none"}
    Values <- MCNoValues
    Cfgs <- MCNoCfgs
    Modes = {"batch", "stream"}
    MaxBatches = 0
    MaxPts = 0
    MaxStream = 0
    BuggyCache = FALSE
INVARIANTS
    TrTypeOK
CONSTRAINT HW
POSTCONDITION Accepted
CHECK_DEADLOCK FALSE
