SPECIFICATION Spec
CONSTANTS
    Groups = {"a"}
    Kinds = {"int", "float", "str", "bool", "none"}
    Values = {2}
    Cfgs <- MCAllDefault
    Modes = {"stream"}
    MaxBatches = 5
    MaxPts = 3
    MaxStream = 7
    BuggyCache = FALSE
INVARIANTS
    TypeOK
    NoStaleContext
    DefinitionsTotal
    Typing
    EmptyRule
CHECK_DEADLOCK FALSE
