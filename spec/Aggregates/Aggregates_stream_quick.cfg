SPECIFICATION Spec
CONSTANTS
    Groups = {"a"}
    Kinds = {"int", "float", "str", "none"}
    Values = {2}
    Cfgs <- MCLifeQuick
    Modes = {"stream"}
    MaxBatches = 4
    MaxPts = 2
    MaxStream = 5
    BuggyCache = FALSE
INVARIANTS
    TypeOK
    NoStaleContext
    DefinitionsTotal
    Typing
    EmptyRule
CHECK_DEADLOCK FALSE
