SPECIFICATION Spec
CONSTANTS
    Groups = {"a", "b"}
    Kinds = {"int", "float", "str", "none"}
    Values = {2}
    Cfgs <- MCAllDefault
    Modes = {"stream"}
    MaxBatches = 3
    MaxPts = 2
    MaxStream = 3
    BuggyCache = FALSE
INVARIANTS
    TypeOK
    NoStaleContext
    DefinitionsTotal
    Typing
    EmptyRule
CHECK_DEADLOCK FALSE
