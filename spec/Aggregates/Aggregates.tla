----------------------------- MODULE Aggregates -----------------------------
(* C11 - aggregations over a window equal their mathematical definition.     *)
(*                                                                           *)
(* Two layers (DESIGN.md section 2.1):                                       *)
(*  Ref   what the property promises: for a batch (or a run of equal-time     *)
(*        stream points) of one group the node emits the InfluxQL value of    *)
(*        the function over exactly the usable field values of that batch,    *)
(*        typed, stamped, named and tagged as documented (RedOK/PickRed,      *)
(*        TransVal) - a pure function/relation of the raw batch contents.     *)
(*  Impl  the lifecycle of influxql.go: per group reduce context rc realised  *)
(*        from the first point's field kind through the node-level creator    *)
(*        cache (currentKind/createFn), batchSize, bc.time, BeginBatch /      *)
(*        BatchPoint / EndBatch with the IsEmptyOK rule, stream mode "emit    *)
(*        when time advances", streaming transforms emitting per point.       *)
(* NoStaleContext: what Impl emits = what Ref says about the current batch    *)
(* alone, whatever happened before (other batches, other groups, other field  *)
(* kinds, unsupported kinds, missing fields).                                 *)
(*                                                                           *)
(* Field kinds: int, float, str (value "s<n>", modelled by n), bool (0/1),    *)
(* none (the field is missing).                                              *)
(* Values: an int field value is the integer itself; a float field value x   *)
(* is represented by the integer S*x (S = 60), so that means, medians and     *)
(* moving averages of up to 6 integer-valued inputs stay integral; mean and   *)
(* stddev are specified through their defining equations (no division, no     *)
(* square root).                                                              *)
EXTENDS Integers, Sequences, FiniteSets, TLC, SequencesExt, Functions

CONSTANTS
    Groups,      \* group tag values
    Kinds,       \* kinds of field x the environment feeds: subset of {"int","float","str","bool","none"}
    Values,      \* model values
    Cfgs,        \* node configurations [fn, arg, as, upt]
    Modes,       \* subset of {"batch","stream"}
    MaxBatches,  \* batch mode: batches per behaviour; stream mode: time advances per group
    MaxPts,      \* points per batch / per run
    MaxStream,   \* stream mode: points per group
    BuggyCache   \* TRUE: creator cache as in the code before the fix (expected to violate NoStaleContext)

S == 60
Nil == [nil |-> TRUE]

Aggs  == {"count", "sum", "mean", "median", "mode", "spread", "stddev"}
Sels  == {"first", "last", "min", "max", "percentile"}
Multi == {"distinct", "top", "bottom"}
Trans == {"elapsed", "difference", "cumulativeSum", "movingAverage"}
AllFns == Aggs \cup Sels \cup Multi \cup Trans

EmptyOK(fn) == fn \in {"count", "sum"}
Supported(fn, k) ==
    IF fn \in {"count", "distinct", "first", "last", "elapsed"}
    THEN k \in {"int", "float", "str", "bool"}
    ELSE k \in {"int", "float"}

(* factor from a value of kind k to the scaled float representation *)
F(k) == IF k = "int" THEN S ELSE 1

StrOf(n) == "s" \o ToString(n)
ValRec(k, v) == IF k = "str" THEN [k |-> "str", v |-> StrOf(v)] ELSE [k |-> k, v |-> v]

-----------------------------------------------------------------------------
(* Arithmetic over a sequence of points ps (records [t, k, v, h, i]).        *)

RECURSIVE SumV(_)
SumV(ps) == IF ps = <<>> THEN 0 ELSE Head(ps).v + SumV(Tail(ps))
RECURSIVE SumSq(_)
SumSq(ps) == IF ps = <<>> THEN 0 ELSE Head(ps).v * Head(ps).v + SumSq(Tail(ps))

VS(ps) == { ps[j].v : j \in DOMAIN ps }
MinV(ps) == CHOOSE m \in VS(ps) : \A x \in VS(ps) : m <= x
MaxV(ps) == CHOOSE m \in VS(ps) : \A x \in VS(ps) : m >= x
Freq(ps, x) == Cardinality({ j \in DOMAIN ps : ps[j].v = x })
ModeSet(ps) == { x \in VS(ps) : \A y \in VS(ps) : Freq(ps, x) >= Freq(ps, y) }
(* r-th smallest value, 1 <= r <= Len(ps) *)
Kth(ps, r) == CHOOSE x \in VS(ps) :
                 /\ Cardinality({ j \in DOMAIN ps : ps[j].v < x }) < r
                 /\ r <= Cardinality({ j \in DOMAIN ps : ps[j].v <= x })
(* InfluxQL percentile rank: floor(N*p/100 + 0.5), no interpolation *)
Rank(n, p) == (2 * n * p + 100) \div 200
(* Go's integer division truncates towards zero *)
TruncDiv(a, b) == IF a >= 0 THEN a \div b ELSE -((-a) \div b)

-----------------------------------------------------------------------------
(* Ref: which points of a raw batch count.  The reduce context is typed by   *)
(* the first point whose field kind the function supports; points of another *)
(* kind (or without the field) are reported as errors and do not count.      *)

UKind(c, pts) ==
    IF \E j \in DOMAIN pts : Supported(c.fn, pts[j].k)
    THEN pts[CHOOSE j \in DOMAIN pts : Supported(c.fn, pts[j].k) /\ \A i \in 1..(j-1) : ~Supported(c.fn, pts[i].k)].k
    ELSE "nil"
Usable(c, pts) == LET k == UKind(c, pts) IN SelectSeq(pts, LAMBDA p : p.k = k)

-----------------------------------------------------------------------------
(* Ref: messages, in the shape the driver logs them (EncOut in exec.go).     *)
(* e = [g, t, k, acc]: group, stamp time, context kind, points that count.   *)

(* Tags.  A group is named by the value of its tag g; group "dd" has the two *)
(* group tags d=x,g=dd.  A point carries the group tags if p.pg, its own tag  *)
(* h unless "-", its own tag r unless "-".  EVERY emitted message carries the *)
(* group's tags (and belongs to the group: group ID, dimensions); a point     *)
(* that IS a selected input point (first/last/min/max/percentile, top/bottom) *)
(* carries its own tags in addition, whether or not it repeated the group's.  *)
TwoTag == {"dd"}
GTags(e) == IF e.g \in TwoTag THEN [d |-> "x", g |-> e.g] ELSE [g |-> e.g]
GroupStr(g) == IF g \in TwoTag THEN "d=x,g=" \o g ELSE "g=" \o g
DimsStr(g) == IF g \in TwoTag THEN "d,g" ELSE "g"
OwnTags(p) == (IF p.h # "-" THEN ("h" :> p.h) ELSE <<>>) @@ (IF p.r # "-" THEN ("r" :> p.r) ELSE <<>>)
PTags(e, p) == GTags(e) @@ OwnTags(p)

PointMsg(e, t, tags, fields) ==
    [kind |-> "p", name |-> "m", group |-> GroupStr(e.g), dims |-> DimsStr(e.g), t |-> t, tags |-> tags, fields |-> fields]
BatchMsg(e, pts) ==
    [kind |-> "b", name |-> "m", group |-> GroupStr(e.g), dims |-> DimsStr(e.g), t |-> e.t, tags |-> GTags(e), pts |-> pts]
BPt(c, t, tags, k, v) == [t |-> t, tags |-> tags, fields |-> (c.as :> ValRec(k, v))]
SelFields(c, p) == (c.as :> ValRec(p.k, p.v)) @@ ("i" :> [k |-> "int", v |-> p.i])

(* --- aggregates: one field named as(), group tags only, stamped e.t ------- *)
StdNum(e) == LET n == Len(e.acc) IN F(e.k) * (n * SumSq(e.acc) - SumV(e.acc) * SumV(e.acc))
StdDen(e) == LET n == Len(e.acc) IN n * (n - 1) * (IF e.k = "float" THEN S ELSE 1)

(* acceptable values of the result field f = [k, v] (plus sq for stddev) *)
AggOK(c, e, f) ==
    LET ps == e.acc  n == Len(e.acc) IN
    CASE c.fn = "count"  -> f = [k |-> "int", v |-> n]
      [] c.fn = "sum"    -> IF n = 0 THEN f = [k |-> "float", v |-> 0] ELSE f = [k |-> e.k, v |-> SumV(ps)]
      [] c.fn = "mean"   -> f.k = "float" /\ n * f.v = F(e.k) * SumV(ps)
      [] c.fn = "median" -> /\ f.k = "float"
                            /\ IF n % 2 = 1 THEN f.v = F(e.k) * Kth(ps, (n + 1) \div 2)
                               ELSE 2 * f.v = F(e.k) * (Kth(ps, n \div 2) + Kth(ps, n \div 2 + 1))
      [] c.fn = "mode"   -> f.k = e.k /\ f.v \in ModeSet(ps)
      [] c.fn = "spread" -> f = [k |-> e.k, v |-> MaxV(ps) - MinV(ps)]
      [] c.fn = "stddev" -> IF n < 2 THEN f.k = "nan"
                            ELSE /\ f.k \in {"float", "fx"}
                                 /\ "sq" \in DOMAIN f
                                 /\ f.sq * StdDen(e) = StdNum(e)     \* s^2 * n(n-1) = n*sum(x^2) - (sum x)^2

(* a canonical acceptable value (totality witness) *)
AggPick(c, e) ==
    LET ps == e.acc  n == Len(e.acc) IN
    CASE c.fn = "count"  -> [k |-> "int", v |-> n]
      [] c.fn = "sum"    -> IF n = 0 THEN [k |-> "float", v |-> 0] ELSE [k |-> e.k, v |-> SumV(ps)]
      [] c.fn = "mean"   -> [k |-> "float", v |-> (F(e.k) * SumV(ps)) \div n]
      [] c.fn = "median" -> [k |-> "float", v |-> IF n % 2 = 1 THEN F(e.k) * Kth(ps, (n + 1) \div 2)
                                                   ELSE (F(e.k) * (Kth(ps, n \div 2) + Kth(ps, n \div 2 + 1))) \div 2]
      [] c.fn = "mode"   -> [k |-> e.k, v |-> CHOOSE x \in ModeSet(ps) : \A y \in ModeSet(ps) : x <= y]
      [] c.fn = "spread" -> [k |-> e.k, v |-> MaxV(ps) - MinV(ps)]
      [] c.fn = "stddev" -> IF n < 2 THEN [k |-> "nan", v |-> 0]
                            ELSE [k |-> "float", v |-> 0, sq |-> StdNum(e) \div StdDen(e)]

(* --- simple selectors: the selected POINT (all its tags and fields) ------- *)
Cand(c, ps) ==
    LET n == Len(ps) IN
    CASE c.fn = "first" -> { j \in 1..n : \A i \in 1..n : ps[j].t <= ps[i].t }
      [] c.fn = "last"  -> { j \in 1..n : \A i \in 1..n : ps[j].t >= ps[i].t }
      [] c.fn = "min"   -> { j \in 1..n : ps[j].v = MinV(ps) }
      [] c.fn = "max"   -> { j \in 1..n : ps[j].v = MaxV(ps) }
      [] c.fn = "percentile" ->
            LET r == Rank(n, c.arg) IN
            IF r < 1 \/ r > n THEN {} ELSE { j \in 1..n : ps[j].v = Kth(ps, r) }
SelMsg(c, e, j) ==
    LET p == e.acc[j] IN PointMsg(e, IF c.upt THEN p.t ELSE e.t, PTags(e, p), SelFields(c, p))

(* --- distinct / top / bottom: a batch ------------------------------------- *)
Better(c, p, q) ==
    IF c.fn = "top" THEN p.v > q.v \/ (p.v = q.v /\ p.t <= q.t)
    ELSE p.v < q.v \/ (p.v = q.v /\ p.t <= q.t)
Min2(a, b) == IF a < b THEN a ELSE b

TopOK(c, e, o) ==
    LET ps == e.acc  n == Len(e.acc)  m == Min2(c.arg, n) IN
    /\ o = BatchMsg(e, o.pts)
    /\ Len(o.pts) = m
    /\ \E f \in Injection(1..m, 1..n) :
         /\ \A j \in 1..m : o.pts[j] = BPt(c, IF c.upt THEN ps[f[j]].t ELSE e.t, PTags(e, ps[f[j]]), e.k, ps[f[j]].v)
         /\ \A j \in 1..m : \A i \in (1..n) \ Range(f) : Better(c, ps[f[j]], ps[i])
DistinctOK(c, e, o) ==
    LET ps == e.acc  vs == VS(e.acc) IN
    /\ o = BatchMsg(e, o.pts)
    /\ Len(o.pts) = Cardinality(vs)
    /\ \A x \in vs : \E j \in DOMAIN o.pts : \E i \in { i \in DOMAIN ps : ps[i].v = x } :
          o.pts[j] = BPt(c, IF c.upt THEN ps[i].t ELSE e.t, GTags(e), e.k, x)

(* code order: distinct by (time of first occurrence, value); top/bottom best first *)
FirstIdx(ps, x) == CHOOSE i \in DOMAIN ps : ps[i].v = x /\ \A j \in 1..(i-1) : ps[j].v # x
DistinctPick(c, e) ==
    LET ps == e.acc
        ord == SetToSortSeq(VS(ps), LAMBDA x, y :
                  \/ ps[FirstIdx(ps, x)].t < ps[FirstIdx(ps, y)].t
                  \/ (ps[FirstIdx(ps, x)].t = ps[FirstIdx(ps, y)].t /\ x < y))
    IN BatchMsg(e, [j \in DOMAIN ord |->
            BPt(c, IF c.upt THEN ps[FirstIdx(ps, ord[j])].t ELSE e.t, GTags(e), e.k, ord[j])])
TopPick(c, e) ==
    LET ps == e.acc  n == Len(e.acc)  m == Min2(c.arg, n)
        ord == SetToSortSeq(1..n, LAMBDA a, b :
                  \/ (ps[a].v # ps[b].v /\ (IF c.fn = "top" THEN ps[a].v > ps[b].v ELSE ps[a].v < ps[b].v))
                  \/ (ps[a].v = ps[b].v /\ ps[a].t < ps[b].t)
                  \/ (ps[a].v = ps[b].v /\ ps[a].t = ps[b].t /\ a < b))
    IN BatchMsg(e, [j \in 1..m |-> BPt(c, IF c.upt THEN ps[ord[j]].t ELSE e.t, PTags(e, ps[ord[j]]), e.k, ps[ord[j]].v)])

(* --- one reduce emission --------------------------------------------------- *)
(* number of messages the emission produces *)
EmitN(c, e) == IF c.fn = "percentile" THEN (IF Cand(c, e.acc) = {} THEN 0 ELSE 1) ELSE 1

RedOK(c, e, o) ==
    CASE c.fn \in Aggs ->
            /\ o = PointMsg(e, e.t, GTags(e), o.fields)
            /\ DOMAIN o.fields = {c.as}
            /\ AggOK(c, e, o.fields[c.as])
      [] c.fn \in Sels -> \E j \in Cand(c, e.acc) : o = SelMsg(c, e, j)
      [] c.fn = "distinct" -> DistinctOK(c, e, o)
      [] c.fn \in {"top", "bottom"} -> TopOK(c, e, o)

PickRed(c, e) ==
    CASE c.fn \in Aggs -> <<PointMsg(e, e.t, GTags(e), (c.as :> AggPick(c, e)))>>
      [] c.fn \in Sels -> IF Cand(c, e.acc) = {} THEN <<>>
                          ELSE <<SelMsg(c, e, CHOOSE j \in Cand(c, e.acc) : \A i \in Cand(c, e.acc) : j <= i)>>
      [] c.fn = "distinct" -> <<DistinctPick(c, e)>>
      [] c.fn \in {"top", "bottom"} -> <<TopPick(c, e)>>

(* --- extreme magnitudes ---------------------------------------------------- *)
(* A field value is p.s * B + p.v for a large base B the model never needs to  *)
(* know (1e9, 1e12, 2^53, 4e12; s = 0 in the ordinary phases).  The definitions*)
(* are linear/translation covariant, so a result is Mult * B + (the definition *)
(* over the residuals v): the driver splits every observed result exactly (big *)
(* rationals) into m * B + r, logs m, round(60 r) as the value and the distance*)
(* of 60 r from that integer in ulps of the result (dev); the residual part is *)
(* checked by the ordinary definitions, the multiplier and the ulp bound here. *)
RECURSIVE SumS(_)
SumS(ps) == IF ps = <<>> THEN 0 ELSE Head(ps).s + SumS(Tail(ps))
UniformS(ps) == \A i, j \in DOMAIN ps : ps[i].s = ps[j].s
(* accuracy HEAD's algorithms achieve on the explored classes, measured (see notes): *)
(* fixed here so that it is not loosened later                                      *)
UlpTol(fn) == CASE fn \in {"sum", "spread", "difference", "cumulativeSum", "count", "elapsed"} -> 0
                [] fn \in {"mean", "movingAverage"} -> 2
                [] fn = "stddev" -> 2      \* unit: one ulp of the result + ulp(B)^2 on the variance, see mag.go
                [] OTHER -> 0
AggMult(c, acc) ==
    CASE c.fn = "sum" -> SumS(acc)
      [] c.fn = "mean" -> IF acc = <<>> THEN 0 ELSE acc[1].s
      [] OTHER -> 0
(* which inputs the magnitude phase may contain: mixed multipliers only where the definition stays linear *)
MagEnvOK(c, acc) ==
    \/ \A j \in DOMAIN acc : acc[j].s = 0
    \/ c.fn \in {"sum", "cumulativeSum", "difference", "count", "elapsed"}
    \/ (c.fn \in {"mean", "stddev", "spread", "movingAverage"} /\ UniformS(acc))

(* --- streaming transforms: value emitted after the last point of acc ------- *)
RECURSIVE Dedup(_)
Dedup(ps) ==      \* difference() ignores a point that does not advance time
    IF ps = <<>> THEN <<>>
    ELSE LET d == Dedup(Front(ps))  x == Last(ps) IN
         IF d # <<>> /\ Last(d).t = x.t THEN d ELSE Append(d, x)

TransVal(c, k, acc) ==     \* <<>> or <<[t, k, v, m]>>  (m: multiplier of the magnitude base)
    LET n == Len(acc) IN
    IF n = 0 THEN <<>> ELSE
    CASE c.fn = "elapsed" ->
            IF n < 2 THEN <<>> ELSE <<[t |-> acc[n].t, k |-> "int", v |-> TruncDiv(acc[n].t - acc[n-1].t, c.arg), m |-> 0]>>
      [] c.fn = "difference" ->
            LET d == Dedup(acc)  m == Len(Dedup(acc)) IN
            IF m >= 2 /\ m > Len(Dedup(Front(acc)))
            THEN <<[t |-> d[m].t, k |-> k, v |-> d[m].v - d[m-1].v, m |-> d[m].s - d[m-1].s]>> ELSE <<>>
      [] c.fn = "cumulativeSum" -> <<[t |-> acc[n].t, k |-> k, v |-> SumV(acc), m |-> SumS(acc)]>>
      [] c.fn = "movingAverage" ->
            IF n < c.arg THEN <<>>
            ELSE <<[t |-> acc[n].t, k |-> "float", v |-> (F(k) * SumV(SubSeq(acc, n - c.arg + 1, n))) \div c.arg,
                    m |-> acc[n].s]>>

RECURSIVE TransAll(_, _, _)
TransAll(c, k, acc) == IF acc = <<>> THEN <<>> ELSE TransAll(c, k, Front(acc)) \o TransVal(c, k, acc)

(* expectation records -> messages *)
TransBatchMsg(c, x) == BatchMsg(x, [j \in DOMAIN x.pts |-> BPt(c, x.pts[j].t, GTags(x), x.pts[j].k, x.pts[j].v)])
TransPointMsg(c, x) == PointMsg(x, x.t, GTags(x), (c.as :> ValRec(x.k, x.v)))

(* messages an expectation record stands for / acceptance of a logged message *)
ExpN(c, x) == IF x.typ = "red" THEN EmitN(c, x) ELSE 1
ExpOK(c, x, o) ==
    CASE x.typ = "red" -> RedOK(c, x, o)
      [] x.typ = "tb"  -> o = TransBatchMsg(c, x)
      [] x.typ = "tp"  -> o = TransPointMsg(c, x)
ExpPick(c, x) ==
    CASE x.typ = "red" -> PickRed(c, x)
      [] x.typ = "tb"  -> <<TransBatchMsg(c, x)>>
      [] x.typ = "tp"  -> <<TransPointMsg(c, x)>>

(* magnitude part of a logged message: g = [m, dev] (point) or [pts |-> <<[m, dev], ..>>] (batch) *)
MagOK(c, x, g) ==
    CASE x.typ = "red" ->
            IF c.fn \in Aggs THEN g.m = AggMult(c, x.acc) /\ g.dev <= UlpTol(c.fn)
            ELSE TRUE                      \* selectors and batches of selected points: not in the magnitude phase
      [] x.typ = "tb" -> /\ Len(g.pts) = Len(x.pts)
                         /\ \A j \in DOMAIN x.pts : g.pts[j].m = x.pts[j].m /\ g.pts[j].dev <= UlpTol(c.fn)
      [] x.typ = "tp" -> g.m = x.m /\ g.dev <= UlpTol(c.fn)

-----------------------------------------------------------------------------
(* Ref: what a whole batch / run / stream point must produce.                *)

Red(g, t, k, acc) == [typ |-> "red", g |-> g, t |-> t, k |-> k, acc |-> acc]

RefBatch(c, g, tmax, pts) ==
    LET us == Usable(c, pts)  k == UKind(c, pts) IN
    IF c.fn \in Trans
    THEN <<[typ |-> "tb", g |-> g, t |-> tmax, pts |-> TransAll(c, k, us)]>>
    ELSE IF us = <<>> THEN (IF EmptyOK(c.fn) THEN <<Red(g, tmax, "float", <<>>)>> ELSE <<>>)
         ELSE <<Red(g, tmax, k, us)>>

(* a run of equal-time stream points, emitted when time advances *)
RefRun(c, g, t, pts) ==
    LET us == Usable(c, pts) IN IF us = <<>> THEN <<>> ELSE <<Red(g, t, UKind(c, pts), us)>>

(* a stream point into a streaming transform; all = every point of the group so far *)
RefTransPoint(c, g, all) ==
    LET k == UKind(c, all)  us == Usable(c, all) IN
    IF k = "nil" \/ Last(all).k # k THEN <<>>
    ELSE LET v == TransVal(c, k, us) IN
         IF v = <<>> THEN <<>> ELSE <<[typ |-> "tp", g |-> g, t |-> v[1].t, k |-> v[1].k, v |-> v[1].v, m |-> v[1].m]>>

-----------------------------------------------------------------------------
(* Impl: the lifecycle of influxql.go as state transformers.                  *)
(* st = [cur, crt, grp]: InfluxQLNode.currentKind, kind of the context the    *)
(* cached createFn builds ("nil" = no createFn), per group                    *)
(* [rc, bsize, btime, tb, started].  Each returns [st, outs].                 *)

G0 == [rc |-> Nil, bsize |-> 0, btime |-> 0, tb |-> <<>>, started |-> FALSE]
St0 == [cur |-> "invalid", crt |-> "nil", grp |-> [g \in Groups |-> G0]]

(* InfluxQLNode.getCreateFn(kind) -> [ok, ck, cur, crt] *)
GetCreate(c, st, kind) ==
    IF st.cur = kind /\ st.crt # "nil"
    THEN [ok |-> TRUE, ck |-> st.crt, cur |-> st.cur, crt |-> st.crt]
    ELSE IF Supported(c.fn, kind)
         THEN [ok |-> TRUE, ck |-> kind, cur |-> kind, crt |-> kind]
         ELSE [ok |-> FALSE, ck |-> "nil",
               cur |-> IF BuggyCache THEN kind ELSE st.cur,   \* before the fix currentKind was set before the lookup failed
               crt |-> st.crt]

(* realizeReduceContextFromFields + AggregatePoint for one point; agg says whether the point counted *)
Realize(c, st, g, p) ==
    LET gs == st.grp[g] IN
    IF gs.rc # Nil THEN [st |-> st, ok |-> TRUE]
    ELSE IF p.k = "none" THEN [st |-> st, ok |-> FALSE]              \* field missing: getFieldKind fails
    ELSE LET gc == GetCreate(c, st, p.k)
             st1 == [st EXCEPT !.cur = gc.cur, !.crt = gc.crt] IN
         IF gc.ok THEN [st |-> [st1 EXCEPT !.grp[g].rc = [k |-> gc.ck, acc |-> <<>>]], ok |-> TRUE]
         ELSE [st |-> st1, ok |-> FALSE]
Aggregate(st, g, p) ==
    IF p.k = st.grp[g].rc.k THEN [st EXCEPT !.grp[g].rc.acc = Append(@, p)] ELSE st

BeginB(c, st, g, tmax) ==
    [st |-> [st EXCEPT !.grp[g] = [G0 EXCEPT !.btime = tmax, !.started = TRUE]], outs |-> <<>>]

PointB(c, st, g, p) ==
    LET r == Realize(c, st, g, p) IN
    IF ~r.ok THEN [st |-> r.st, outs |-> <<>>]
    ELSE LET s2 == Aggregate(r.st, g, p)
             s3 == [s2 EXCEPT !.grp[g].bsize = @ + 1] IN
         IF c.fn \in Trans
         THEN [st |-> [s3 EXCEPT !.grp[g].tb = @ \o TransVal(c, s3.grp[g].rc.k, s3.grp[g].rc.acc)], outs |-> <<>>]
         ELSE [st |-> s3, outs |-> <<>>]

EndB(c, st, g) ==
    LET gs == st.grp[g] IN
    IF c.fn \in Trans THEN [st |-> st, outs |-> <<[typ |-> "tb", g |-> g, t |-> gs.btime, pts |-> gs.tb]>>]
    ELSE IF gs.bsize = 0 /\ ~EmptyOK(c.fn) THEN [st |-> st, outs |-> <<>>]
    ELSE IF gs.rc = Nil
         THEN LET gc == GetCreate(c, st, "float") IN        \* "assume float64 since we do not have any data"
              [st |-> [st EXCEPT !.cur = gc.cur, !.crt = gc.crt, !.grp[g].rc = [k |-> gc.ck, acc |-> <<>>]],
               outs |-> <<Red(g, gs.btime, gc.ck, <<>>)>>]
         ELSE [st |-> st, outs |-> <<Red(g, gs.btime, gs.rc.k, gs.rc.acc)>>]

(* stream mode, reducing functions: accumulate while time stands still, emit when it changes *)
(* (p.Time().Equal(bc.time): a point OLDER than the run being collected closes it as well)    *)
AggPointS(c, st, g, p) ==
    LET r == Realize(c, st, g, p) IN IF r.ok THEN Aggregate(r.st, g, p) ELSE r.st
PointS(c, st, g, p) ==
    LET s0 == IF st.grp[g].started THEN st ELSE [st EXCEPT !.grp[g].started = TRUE, !.grp[g].btime = p.t]
        gs == s0.grp[g] IN
    IF c.fn \in Trans
    THEN LET r == Realize(c, s0, g, p) IN
         IF ~r.ok THEN [st |-> r.st, outs |-> <<>>]
         ELSE LET s2 == Aggregate(r.st, g, p)
                  v == TransVal(c, s2.grp[g].rc.k, s2.grp[g].rc.acc) IN
              [st |-> s2, outs |-> IF v = <<>> THEN <<>>
                                   ELSE <<[typ |-> "tp", g |-> g, t |-> v[1].t, k |-> v[1].k, v |-> v[1].v, m |-> v[1].m]>>]
    ELSE IF p.t = gs.btime THEN [st |-> AggPointS(c, s0, g, p), outs |-> <<>>]
    ELSE LET outs == IF gs.rc # Nil THEN <<Red(g, gs.btime, gs.rc.k, gs.rc.acc)>> ELSE <<>>
             s1 == [s0 EXCEPT !.grp[g].btime = p.t, !.grp[g].rc = Nil] IN
         [st |-> AggPointS(c, s1, g, p), outs |-> outs]

(* environment restriction for streaming transforms (see notes): once the    *)
(* context exists only points of its kind arrive (a failing AggregatePoint   *)
(* makes the code re-emit the previous value, which the property does not    *)
(* speak about)                                                               *)
TransEnvOK(c, st, g, p) == c.fn \in Trans /\ st.grp[g].rc # Nil => p.k = st.grp[g].rc.k

-----------------------------------------------------------------------------
(* Exhaustive model: all short input histories.                               *)

VARIABLES cfg, mode, st, open, cur, emitted, refEmitted, nb
vars == <<cfg, mode, st, open, cur, emitted, refEmitted, nb>>

(* history variables (Ref level): t/pts = the current batch or run; all = every point of the group so far  *)
(* (kept only for streaming transforms, whose context lives as long as the group); n, adv = counters       *)
Cur0 == [g \in Groups |-> [t |-> 0, pts |-> <<>>, all |-> <<>>, adv |-> 0, n |-> 0]]

Init ==
    /\ cfg \in Cfgs /\ mode \in Modes
    /\ st = St0 /\ open = "-" /\ cur = Cur0
    /\ emitted = <<>> /\ refEmitted = <<>> /\ nb = 0

(* the n-th point of a batch/run: value, tag shape by position (own tag h p/q; every third point does not  *)
(* repeat the group tags; every fourth has a second own tag)                                                  *)
MkPt(t, k, v, n) == [t |-> t, k |-> k, v |-> IF k = "float" THEN S * v ELSE IF k = "bool" THEN (IF v > 0 THEN 1 ELSE 0) ELSE v,
                     h |-> IF n % 5 = 0 THEN "-" ELSE IF n % 2 = 1 THEN "p" ELSE "q", i |-> n,
                     r |-> IF n % 4 = 0 THEN "z" ELSE "-", pg |-> n % 3 # 0, s |-> 0]

Begin(g) ==
    /\ mode = "batch" /\ open = "-" /\ nb < MaxBatches
    /\ LET r == BeginB(cfg, st, g, 10 * (nb + 1)) IN st' = r.st /\ emitted' = r.outs
    /\ refEmitted' = <<>>
    /\ cur' = [cur EXCEPT ![g] = [@ EXCEPT !.t = 10 * (nb + 1), !.pts = <<>>]]
    /\ open' = g /\ nb' = nb + 1
    /\ UNCHANGED <<cfg, mode>>

BPoint(k, v) ==
    /\ mode = "batch" /\ open # "-" /\ Len(cur[open].pts) < MaxPts
    /\ LET g == open
           p == MkPt(Len(cur[g].pts) + 1, k, v, Len(cur[g].pts) + 1)
           r == PointB(cfg, st, g, p) IN
       /\ TransEnvOK(cfg, st, g, p)
       /\ st' = r.st /\ emitted' = r.outs
       /\ cur' = [cur EXCEPT ![g].pts = Append(@, p)]
    /\ refEmitted' = <<>>
    /\ UNCHANGED <<cfg, mode, open, nb>>

End ==
    /\ mode = "batch" /\ open # "-"
    /\ LET r == EndB(cfg, st, open) IN st' = r.st /\ emitted' = r.outs
    /\ refEmitted' = RefBatch(cfg, open, cur[open].t, cur[open].pts)
    /\ open' = "-"
    /\ cur' = [cur EXCEPT ![open].pts = <<>>]      \* history of a finished batch is not needed any more
    /\ UNCHANGED <<cfg, mode, nb>>

SPoint(g, k, v, dt) ==
    /\ mode = "stream"
    /\ LET c == cur[g]
           first == c.n = 0
           newrun == first \/ dt # 0              \* a run ends whenever the time CHANGES (older points too)
           t == IF first THEN 2 ELSE c.t + dt
           run == IF newrun THEN <<>> ELSE c.pts
           p == MkPt(t, k, v, Len(run) + 1)
           r == PointS(cfg, st, g, p) IN
       /\ (newrun /\ ~first) => c.adv < MaxBatches
       /\ Len(run) < MaxPts /\ c.n < MaxStream
       /\ TransEnvOK(cfg, st, g, p)
       /\ st' = r.st /\ emitted' = r.outs
       /\ refEmitted' = IF cfg.fn \in Trans THEN RefTransPoint(cfg, g, Append(c.all, p))
                        ELSE IF newrun /\ ~first THEN RefRun(cfg, g, c.t, c.pts) ELSE <<>>
       /\ cur' = [cur EXCEPT ![g] = [t |-> t, pts |-> Append(run, p),
                                     all |-> IF cfg.fn \in Trans THEN Append(c.all, p) ELSE <<>>,
                                     adv |-> IF newrun /\ ~first THEN c.adv + 1 ELSE c.adv, n |-> c.n + 1]]
    /\ UNCHANGED <<cfg, mode, open, nb>>

Next ==
    \/ \E g \in Groups : Begin(g)
    \/ \E k \in Kinds, v \in Values : BPoint(k, v)
    \/ End
    \/ \E g \in Groups, k \in Kinds, v \in Values, dt \in {-1, 0, 1} : SPoint(g, k, v, dt)

Spec == Init /\ [][Next]_vars

(* --- properties ------------------------------------------------------------ *)

(* what the lifecycle emits is exactly what the current batch/run alone determines *)
NoStaleContext == emitted = refEmitted

(* the definitions are total: every emission has a witness message, in the number promised, and it is acceptable *)
DefinitionsTotal ==
    \A j \in DOMAIN emitted :
        LET x == emitted[j]  P == ExpPick(cfg, emitted[j]) IN
        /\ Len(P) = ExpN(cfg, x)
        /\ \A i \in DOMAIN P : ExpOK(cfg, x, P[i])

(* typing: "int stays int where defined" *)
Typing ==
    \A j \in DOMAIN emitted :
        LET x == emitted[j]  P == ExpPick(cfg, emitted[j]) IN
        x.typ = "red" /\ P # <<>> /\ x.k = "int" /\ cfg.fn \in {"sum", "mode", "spread", "min", "max", "first", "last", "percentile"}
            => P[1].fields[cfg.as].k = "int"

(* only count and sum speak about an empty batch *)
EmptyRule ==
    \A j \in DOMAIN emitted :
        emitted[j].typ = "red" /\ emitted[j].acc = <<>> => EmptyOK(cfg.fn) /\ emitted[j].k = "float"

TypeOK ==
    /\ st.cur \in {"invalid", "int", "float", "str", "bool"} /\ st.crt \in {"nil", "int", "float", "str", "bool"}
    /\ \A g \in Groups : st.grp[g].rc # Nil => st.grp[g].rc.k \in {"int", "float", "str", "bool"}
=============================================================================
