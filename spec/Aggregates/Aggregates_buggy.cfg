SPECIFICATION Spec
CONSTANTS
    Groups = {"a"}
    Kinds = {"float", "str"}
    Values = {2}
    Cfgs <- MCLifeQuick
    Modes = {"batch"}
    MaxBatches = 3
    MaxPts = 2
    MaxStream = 4
    BuggyCache = TRUE
INVARIANTS
    NoStaleContext
CHECK_DEADLOCK FALSE
