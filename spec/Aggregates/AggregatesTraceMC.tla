------------------------- MODULE AggregatesTraceMC -------------------------
EXTENDS AggregatesTrace
MCNoCfgs == {}
MCNoValues == {}
=============================================================================
