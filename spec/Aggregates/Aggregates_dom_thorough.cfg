SPECIFICATION Spec
CONSTANTS
    Groups = {"a"}
    Kinds = {"int", "float"}
    Values <- MCValues4
    Cfgs <- MCDomCfgs
    Modes = {"batch"}
    MaxBatches = 1
    MaxPts = 5
    MaxStream = 0
    BuggyCache = FALSE
INVARIANTS
    TypeOK
    NoStaleContext
    DefinitionsTotal
    Typing
    EmptyRule
CHECK_DEADLOCK FALSE
