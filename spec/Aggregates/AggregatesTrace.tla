-------------------------- MODULE AggregatesTrace --------------------------
(* Trace specification for Aggregates: validates executions of the real      *)
(* InfluxQL node (driver c11).  One trace = one real task:                    *)
(*   Reset{fn,arg,as,upt}  the node configuration                             *)
(*   Batch{g,tmax,pts}     a batch handed to the node (fed through the batch  *)
(*                         collectors, or observed at the output of the real  *)
(*                         window node)                                       *)
(*   Point{g,t,k,v,h,i}    a stream point written to a stream task            *)
(*   Drain{outs,stop}      the task was stopped (drained); everything that    *)
(*                         arrived at the sink below the node, in order       *)
(* Batch/Point run Aggregates' lifecycle operators and append what must be    *)
(* emitted to exp; Drain compares the logged messages with exp, message by    *)
(* message, through the acceptance relation ExpOK (TLC recomputes every       *)
(* aggregate from the logged input).                                          *)
EXTENDS Aggregates, TraceCommon

VARIABLES exp, written, l
tvars == <<vars, exp, written, l>>

Ln == Trace[l]
IsEv(e) == l <= Len(Trace) /\ Ln.ev = e /\ l' = l + 1

Cfg0 == [fn |-> "count", arg |-> 0, as |-> "count", upt |-> FALSE]
TrInit ==
    /\ cfg = Cfg0 /\ mode = "trace" /\ st = St0 /\ open = "-" /\ cur = Cur0
    /\ emitted = <<>> /\ refEmitted = <<>> /\ nb = 0
    /\ exp = <<>> /\ written = {} /\ l = 1 /\ HWInit

TrReset ==
    /\ IsEv("Reset")
    /\ cfg' = [fn |-> Ln.fn, arg |-> Ln.narg, as |-> Ln.out, upt |-> Ln.upt]
    /\ st' = St0 /\ cur' = Cur0 /\ exp' = <<>> /\ emitted' = <<>> /\ refEmitted' = <<>>
    /\ written' = {}
    /\ UNCHANGED <<mode, open, nb>>

(* window mode: the points the driver wrote to the stream task *)
TrWritten ==
    /\ IsEv("Written")
    /\ written' = SeqToSet(Ln.pts)
    /\ UNCHANGED <<vars, exp>>

(* The node must not modify its input: the messages it received (sink 'in' / 'win' hold references to them) are  *)
(* decoded after the run (field seen) and must still be what was fed; a window batch consists of written points. *)
InputIntact(fed, what) ==
    IF "seen" \in DOMAIN Ln /\ Ln.seen # fed
    THEN PrintT(<<"MISMATCH", "the node modified its input", what, "fed", fed, "after the run", Ln.seen>>) /\ FALSE
    ELSE TRUE
FromWritten ==
    IF written = {} THEN TRUE
    ELSE \A j \in DOMAIN Ln.pts :
            IF [t |-> Ln.pts[j].t, k |-> Ln.pts[j].k, v |-> Ln.pts[j].v, h |-> Ln.pts[j].h, i |-> Ln.pts[j].i,
                r |-> Ln.pts[j].r, pg |-> Ln.pts[j].pg, s |-> Ln.pts[j].s, g |-> Ln.g] \in written
            THEN TRUE
            ELSE PrintT(<<"MISMATCH", "a point of the window batch is not a written point (input modified)", Ln.pts[j]>>) /\ FALSE

RECURSIVE FoldPts(_, _, _, _)
FoldPts(c, s, g, pts) == IF pts = <<>> THEN s ELSE FoldPts(c, PointB(c, s, g, Head(pts)).st, g, Tail(pts))

(* the model must agree with itself on every input the driver produces; if   *)
(* it does not, the check is broken (TLC error), never a verdict              *)
Consistent(implOuts, refOuts, what) ==
    Assert(implOuts = refOuts, <<"MODEL-INCONSISTENT: lifecycle and reference disagree", what, implOuts, refOuts>>)

TrBatch ==
    /\ IsEv("Batch")
    /\ LET g == Ln.g
           s1 == BeginB(cfg, st, g, Ln.tmax).st
           s2 == FoldPts(cfg, s1, g, Ln.pts)
           r == EndB(cfg, s2, g)
           ref == RefBatch(cfg, g, Ln.tmax, Ln.pts) IN
       /\ Consistent(r.outs, ref, Ln)
       /\ Assert(MagEnvOK(cfg, Ln.pts), <<"DRIVER-ERROR: multipliers of the magnitude base where the definition is not linear", Ln>>)
       /\ st' = r.st /\ emitted' = r.outs /\ refEmitted' = ref
       /\ exp' = exp \o r.outs
    /\ InputIntact(Ln.pts, "batch") /\ FromWritten
    /\ UNCHANGED <<cfg, mode, open, cur, nb, written>>

(* stream mode: cur keeps the current run and the group history exactly as   *)
(* in the exhaustive model (SPoint)                                           *)
TrPoint ==
    /\ IsEv("Point")
    /\ LET g == Ln.g
           c == cur[g]
           p == [t |-> Ln.t, k |-> Ln.k, v |-> Ln.v, h |-> Ln.h, i |-> Ln.i, r |-> Ln.r, pg |-> Ln.pg, s |-> Ln.s]
           first == c.n = 0
           newrun == first \/ p.t # c.t
           run == IF newrun THEN <<>> ELSE c.pts
           r == PointS(cfg, st, g, p)
           ref == IF cfg.fn \in Trans THEN RefTransPoint(cfg, g, Append(c.all, p))
                  ELSE IF newrun /\ ~first THEN RefRun(cfg, g, c.t, c.pts) ELSE <<>> IN
       /\ Consistent(r.outs, ref, Ln)
       /\ st' = r.st /\ emitted' = r.outs /\ refEmitted' = ref
       /\ exp' = exp \o r.outs
       /\ cur' = [cur EXCEPT ![g] = [t |-> p.t, pts |-> Append(run, p),
                                     all |-> IF cfg.fn \in Trans THEN Append(c.all, p) ELSE <<>>, adv |-> 0, n |-> c.n + 1]]
    /\ InputIntact([t |-> Ln.t, k |-> Ln.k, v |-> Ln.v, h |-> Ln.h, i |-> Ln.i, r |-> Ln.r, pg |-> Ln.pg, s |-> Ln.s, g |-> Ln.g], "point")
    /\ UNCHANGED <<cfg, mode, open, nb, written>>

Expected == SelectSeq(exp, LAMBDA x : ExpN(cfg, x) = 1)

DrainOK ==
    LET X == Expected  O == Ln.outs IN
    IF Ln.stop # "" THEN PrintT(<<"MISMATCH", "the task died", Ln.stop>>) /\ FALSE
    ELSE IF Len(O) # Len(X) THEN PrintT(<<"MISMATCH", "number of messages: expected", Len(X), "observed", Len(O), X, O>>) /\ FALSE
    ELSE \A j \in DOMAIN X :
            IF ~ExpOK(cfg, X[j], O[j])
            THEN PrintT(<<"MISMATCH", "message", j, "expected from", X[j], "observed", O[j]>>) /\ FALSE
            ELSE IF "mag" \in DOMAIN Ln /\ ~MagOK(cfg, X[j], Ln.mag[j])
            THEN PrintT(<<"MISMATCH", "magnitude: multiplier of the base or accuracy (ulps, tolerance)", j, UlpTol(cfg.fn),
                          "expected from", X[j], "observed", O[j], Ln.mag[j]>>) /\ FALSE
            ELSE TRUE

(* order of the points inside distinct/top/bottom batches is not promised by *)
(* the property: reported, never a verdict                                    *)
DriftNote ==
    \A j \in DOMAIN Expected :
        (cfg.fn \in Multi /\ Ln.outs[j] # ExpPick(cfg, Expected[j])[1]) => PrintT(<<"DRIFT", "order-" \o cfg.fn>>)

TrDrain ==
    /\ IsEv("Drain")
    /\ DrainOK
    /\ DriftNote
    /\ UNCHANGED <<vars, exp, written>>

TrNext == TrReset \/ TrWritten \/ TrBatch \/ TrPoint \/ TrDrain
TrSpec == TrInit /\ [][TrNext]_tvars

TrTypeOK ==
    /\ st.cur \in {"invalid", "int", "float", "str", "bool"} /\ st.crt \in {"nil", "int", "float", "str", "bool"}

HW == HWMark(l)
Accepted == HWAccepted
=============================================================================
