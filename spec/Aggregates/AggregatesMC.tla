---------------------------- MODULE AggregatesMC ----------------------------
EXTENDS Aggregates

DefArg(fn) == CASE fn = "percentile" -> 50 [] fn \in {"top", "bottom"} -> 2 [] fn = "elapsed" -> 1
                [] fn = "movingAverage" -> 2 [] OTHER -> 0
C(fn, arg, as, upt) == [fn |-> fn, arg |-> arg, as |-> as, upt |-> upt]
D(fn) == C(fn, DefArg(fn), fn, FALSE)

(* every function with its default options *)
MCAllDefault == { D(fn) : fn \in AllFns }

(* one representative per lifecycle class: EmptyOK / supports strings / numeric only / *)
(* may emit nothing (percentile) / batch output / streaming transforms                *)
MCLifeQuick == { D(fn) : fn \in {"count", "sum", "first", "mean", "min", "percentile", "top", "distinct",
                                 "elapsed", "cumulativeSum", "movingAverage"} }

(* options: usePointTimes, as(), arguments *)
MCOptions ==
    { C(fn, DefArg(fn), fn, TRUE) : fn \in Aggs \cup Sels \cup Multi }
    \cup { C(fn, DefArg(fn), "y", FALSE) : fn \in {"sum", "mean", "min", "last", "top", "distinct", "difference", "stddev"} }
    \cup { C(fn, DefArg(fn), "x", FALSE) : fn \in {"max", "count", "cumulativeSum"} }
    \cup { C("percentile", p, "percentile", u) : p \in {0, 25, 75, 100}, u \in {FALSE} }
    \cup { C("percentile", 100, "y", TRUE) }
    \cup { C(fn, n, fn, u) : fn \in {"top", "bottom"}, n \in {1, 3}, u \in BOOLEAN }
    \cup { C("elapsed", 2, "elapsed", FALSE), C("movingAverage", 1, "movingAverage", FALSE),
           C("movingAverage", 3, "y", FALSE) }

MCDomCfgs == MCAllDefault \cup MCOptions
MCValues4 == {-1, 0, 2, 3}
=============================================================================
