SPECIFICATION TrSpec
CONSTANTS
    Feed <- TrNoFeed
    Calls <- TrNoFeed
    PipeCap = 100000
    MaxTicks = 0
    TimeoutOK = FALSE
    Faults <- AllTraceFaults
    OwnerAborts = FALSE
    Fixed = TRUE
    HangFix = TRUE
INVARIANTS
    NoProcessCrash
    ClosedIsFinal
CONSTRAINT HW
POSTCONDITION TraceAccepted
CHECK_DEADLOCK FALSE
