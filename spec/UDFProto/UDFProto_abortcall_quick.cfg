SPECIFICATION Spec
CONSTANTS
    Feed <- FeedOne
    Calls <- CallsS
    PipeCap = 8
    MaxTicks = 0
    TimeoutOK = FALSE
    Faults <- CloseOnly
    OwnerAborts = TRUE
    Fixed = TRUE
    HangFix = TRUE
INVARIANTS
    TypeOK
    NoProcessCrash
    EchoIdentity
    WireIdentity
    StopDrains
    BacklogSurvivesClose
    ClosedIsFinal
    ResponsesMatchRequests
    SnapshotPosition
    SnapshotRoundTrip
    PeerFaultContained
    CallsReturn
CHECK_DEADLOCK TRUE
