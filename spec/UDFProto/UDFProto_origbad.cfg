SPECIFICATION Spec
CONSTANTS
    Feed <- FeedBad
    Calls <- CallsNone
    PipeCap = 2
    MaxTicks = 0
    TimeoutOK = FALSE
    Faults <- NoFaults
    OwnerAborts = FALSE
    Fixed = FALSE
    HangFix = TRUE
INVARIANTS
    NoProcessCrash
CHECK_DEADLOCK TRUE
