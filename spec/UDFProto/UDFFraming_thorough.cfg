SPECIFICATION FSpec
CONSTANTS
    Base = 2
    MaxHdr = 3
    MaxSize = 5
    MaxMsgs = 3
    MaxPayload = 3
    PayloadBytes = {1, 2}
    MaxHostile = 5
    Written0 <- MCWritten0
INVARIANTS
    FTypeOK
    FramingSplitInvariant
    NoEarlyMessage
CHECK_DEADLOCK TRUE
