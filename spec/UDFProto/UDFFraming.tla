---------------------------- MODULE UDFFraming ----------------------------
(* Byte level of the UDF protocol (udf/agent/io.go).                       *)
(*                                                                         *)
(* WriteMessage puts  varint(len(payload)) ++ payload  on the wire;        *)
(* ReadMessage reads the header one byte at a time (binary.ReadUvarint on  *)
(* an io.ByteReader) and then loops  r.Read(b[read:])  until the announced *)
(* number of bytes has arrived.  The bytes reach the reader in arbitrary   *)
(* fragments (pipe / socket reads, bufio refills).  The reader below is    *)
(* that loop as a state machine; Deliver cuts the stream wherever it       *)
(* likes, Read* consume what has been delivered in pieces of any size.     *)
(*                                                                         *)
(* FramingSplitInvariant: whatever the cuts, the reader returns exactly    *)
(* Parse(written) - the messages and the end condition of a reference      *)
(* parser that sees the whole byte string at once.  WriteReadIdentity:     *)
(* Parse(Stream(ms)) = ms, clean end.                                      *)
(*                                                                         *)
(* A byte is a number in 0..2*Base-1: Base = 128 in the code (and in the   *)
(* trace specification), Base = 2 in the exhaustive instances, which makes *)
(* two- and three-byte headers appear with payloads of 2..7 bytes.         *)
EXTENDS Integers, Sequences, FiniteSets, TLC

CONSTANTS
    Base,      \* varint radix
    MaxHdr,    \* ReadUvarint fails with "overflow" at the MaxHdr-th continuation byte (binary.MaxVarintLen64 = 10)
    MaxSize,   \* ReadMessage refuses a larger announced size (math.MaxInt32 since fix 3025274; before: make() panicked)
    Written0   \* the set of byte strings a behaviour may start with (what the peer has written before it closed)

Bytes == 0 .. (2 * Base - 1)
Cont(b) == b >= Base
Digit(b) == b % Base

(* Saturating arithmetic: everything above MaxSize is "too large" whatever its exact value (the code computes in  *)
(* uint64 and compares afterwards; TLC has 32-bit integers and a hostile header announces up to 2^63).           *)
Big == MaxSize + 1
MulSat(d, m) == IF d = 0 THEN 0 ELSE IF m > MaxSize \div d THEN Big ELSE d * m
AddSat(a, x) == IF a > MaxSize \/ x > MaxSize THEN Big ELSE IF a > MaxSize - x THEN Big ELSE a + x
NextMult(m) == MulSat(Base, m)

(* ---- writer: agent.WriteMessage ---- *)
RECURSIVE Varint(_)
Varint(n) == IF n < Base THEN <<n>> ELSE <<Base + (n % Base)>> \o Varint(n \div Base)
Frame(p) == Varint(Len(p)) \o p
RECURSIVE Stream(_)
Stream(ms) == IF ms = <<>> THEN <<>> ELSE Frame(Head(ms)) \o Stream(Tail(ms))

(* ---- reference parser: the whole byte string at once ---- *)
\* end: "eof" clean end at a frame boundary (io.EOF -> readData returns nil), "trunc" the stream ends inside
\* a header or a payload (io.ErrUnexpectedEOF / "unexpected EOF, expected N more bytes"), "overflow" header of
\* MaxHdr continuation bytes, "toolarge" announced size > MaxSize.
RECURSIVE ParseHdr(_, _, _, _)
\* returns <<kind, size, rest>> : kind "ok" | "eof" | "trunc" | "overflow"
ParseHdr(bs, acc, mult, n) ==
    IF bs = <<>> THEN <<(IF n = 0 THEN "eof" ELSE "trunc"), 0, <<>> >>
    ELSE LET b == Head(bs) IN
         IF Cont(b)
         THEN IF n + 1 = MaxHdr THEN <<"overflow", 0, <<>> >>
              ELSE ParseHdr(Tail(bs), AddSat(acc, MulSat(Digit(b), mult)), NextMult(mult), n + 1)
         ELSE <<"ok", AddSat(acc, MulSat(Digit(b), mult)), Tail(bs)>>

RECURSIVE Parse(_)
Parse(bs) ==
    LET h == ParseHdr(bs, 0, 1, 0) IN
    IF h[1] # "ok" THEN [msgs |-> <<>>, end |-> h[1]]
    ELSE IF h[2] > MaxSize THEN [msgs |-> <<>>, end |-> "toolarge"]
    ELSE IF Len(h[3]) < h[2] THEN [msgs |-> <<>>, end |-> "trunc"]
    ELSE LET r == Parse(SubSeq(h[3], h[2] + 1, Len(h[3])))
         IN [msgs |-> <<SubSeq(h[3], 1, h[2])>> \o r.msgs, end |-> r.end]

IsPrefix(s, t) == Len(s) <= Len(t) /\ SubSeq(t, 1, Len(s)) = s

(* ---- the reader under fragmentation ---- *)
VARIABLES
    written,  \* what the peer wrote before closing (fixed per behaviour)
    pending,  \* written but not yet delivered to the reader's side of the pipe
    avail,    \* delivered, not yet consumed (pipe buffer + bufio buffer)
    st,       \* "hdr" | "body" | "eof" | "trunc" | "overflow" | "toolarge"
    acc, mult, nh,  \* header accumulator (ReadUvarint's x, 1<<s, i)
    size, body,     \* announced size; payload bytes read so far (b[:read])
    out       \* messages returned so far
fvars == <<written, pending, avail, st, acc, mult, nh, size, body, out>>

FInit ==
    /\ written \in Written0
    /\ pending = written /\ avail = <<>>
    /\ st = "hdr" /\ acc = 0 /\ mult = 1 /\ nh = 0 /\ size = 0 /\ body = <<>> /\ out = <<>>

\* the next n bytes arrive (a fragment boundary after them)
Deliver(n) ==
    /\ n \in 1 .. Len(pending)
    /\ avail' = avail \o SubSeq(pending, 1, n)
    /\ pending' = SubSeq(pending, n + 1, Len(pending))
    /\ UNCHANGED <<written, st, acc, mult, nh, size, body, out>>

Emit(m) == out' = Append(out, m) /\ st' = "hdr" /\ acc' = 0 /\ mult' = 1 /\ nh' = 0 /\ size' = 0 /\ body' = <<>>

\* binary.ReadUvarint: one ReadByte
ReadHdrByte ==
    /\ st = "hdr" /\ avail # <<>>
    /\ LET b == Head(avail) IN
       /\ avail' = Tail(avail)
       /\ IF Cont(b)
          THEN IF nh + 1 = MaxHdr
               THEN st' = "overflow" /\ UNCHANGED <<acc, mult, nh, size, body, out>>
               ELSE acc' = AddSat(acc, MulSat(Digit(b), mult)) /\ mult' = NextMult(mult) /\ nh' = nh + 1 /\ UNCHANGED <<st, size, body, out>>
          ELSE LET sz == AddSat(acc, MulSat(Digit(b), mult)) IN
               IF sz > MaxSize THEN st' = "toolarge" /\ UNCHANGED <<acc, mult, nh, size, body, out>>
               ELSE IF sz = 0 THEN Emit(<<>>)      \* `for read != size` is not entered: an empty message
               ELSE st' = "body" /\ size' = sz /\ body' = <<>> /\ UNCHANGED <<acc, mult, nh, out>>
    /\ UNCHANGED <<written, pending>>

\* one r.Read(b[read:]) returning n bytes: any n between 1 and what is there / what is missing
ReadBody(n) ==
    /\ st = "body"
    /\ n \in 1 .. (IF Len(avail) < size - Len(body) THEN Len(avail) ELSE size - Len(body))
    /\ avail' = SubSeq(avail, n + 1, Len(avail))
    /\ LET b2 == body \o SubSeq(avail, 1, n) IN
       IF Len(b2) = size THEN Emit(b2)
       ELSE body' = b2 /\ UNCHANGED <<st, acc, mult, nh, size, out>>
    /\ UNCHANGED <<written, pending>>

\* the peer has closed and everything was consumed
ReadEOF ==
    /\ st \in {"hdr", "body"} /\ avail = <<>> /\ pending = <<>>
    /\ st' = IF st = "hdr" /\ nh = 0 THEN "eof" ELSE "trunc"
    /\ UNCHANGED <<written, pending, avail, acc, mult, nh, size, body, out>>

FDone == st \notin {"hdr", "body"} /\ UNCHANGED fvars

FNext == (\E n \in 1 .. Len(pending) : Deliver(n)) \/ ReadHdrByte \/ (\E n \in 1 .. Len(avail) : ReadBody(n)) \/ ReadEOF \/ FDone
FSpec == FInit /\ [][FNext]_fvars

(* ---- properties ---- *)
ConsumedLen == Len(written) - Len(avail) - Len(pending)

FTypeOK ==
    /\ st \in {"hdr", "body", "eof", "trunc", "overflow", "toolarge"}
    /\ Len(body) <= size /\ ConsumedLen >= 0
    /\ SubSeq(written, ConsumedLen + 1, Len(written)) = avail \o pending

FramingSplitInvariant ==
    LET ref == Parse(written) IN
    /\ IsPrefix(out, ref.msgs)
    /\ st \notin {"hdr", "body"} => out = ref.msgs /\ st = ref.end

\* the reader never returns a message early: every message returned lies completely inside the consumed bytes
NoEarlyMessage == Len(Stream(out)) <= ConsumedLen

\* WriteMessage then ReadMessage is the identity (evaluated on the streams of Written0 that are whole streams)
WriteReadIdentity(msgs) == Parse(Stream(msgs)) = [msgs |-> msgs, end |-> "eof"]
=============================================================================
