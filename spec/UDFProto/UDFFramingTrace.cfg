SPECIFICATION TrSpec
CONSTANTS
    Base = 128
    MaxHdr = 10
    MaxSize = 1073741823
    Written0 = {}
CONSTRAINT HW
POSTCONDITION Accepted
CHECK_DEADLOCK FALSE
