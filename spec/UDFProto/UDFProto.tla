----------------------------- MODULE UDFProto -----------------------------
(* Message level of the UDF boundary (udf/server.go, udf/agent/agent.go,  *)
(* udf.go).  The byte level (frames, fragmentation) is UDFFraming.tla;     *)
(* here a pipe is a FIFO of whole messages.                                *)
(*                                                                         *)
(* Goroutines, one group of actions each, one action per select / channel  *)
(* operation / critical section of the code:                               *)
(*   pump      the owner handing edge messages to Server.In() (UDFNode's   *)
(*             input goroutine: select on In() and the abort callback)     *)
(*   caller    a second goroutine of the owner calling Snapshot / Restore /*)
(*             Init / Info (doRequestResponse)                             *)
(*   writer    Server.writeData: select over inMsg, requests, aborting     *)
(*   agent     the peer: echoes data, answers requests; optionally commits *)
(*             one fault of the misbehaving-peer alphabet                  *)
(*   reader    Server.readData / handleResponse: keepalive feed, response  *)
(*             dispatch, batch reassembly, outMsg                          *)
(*   consumer  the owner taking messages from Server.Out()                 *)
(*   ticker    Server.runKeepalive, watcher  Server.watchKeepalive         *)
(*   lock      whoever holds s.mu inside Stop() / abort(): the stages of   *)
(*             abort (flag, callback) and stop (flag, requestsGroup.Wait,  *)
(*             close channels, ioGroup.Wait)                               *)
(*                                                                         *)
(* Data keeps the code's layout where the layout is what can go wrong:     *)
(* a point's fields are split into four typed maps and merged again; a     *)
(* batch travels as Begin / Point* / End and is rebuilt from End's name,   *)
(* tags and tmax, Begin's byName and the points in between.                *)
EXTENDS Integers, Sequences, FiniteSets, TLC

CONSTANTS
    Feed,        \* edge messages the pump hands over, in order
    Calls,       \* calls the caller makes, in order: records [kind, data]
    PipeCap,     \* messages a pipe holds before its writer blocks
    MaxTicks,    \* keepalive ticks; 0 = keepalive disabled (timeout <= 0)
    TimeoutOK,   \* the keepalive watchdog may fire (in reality always possible: it is a matter of load)
    Faults,      \* faults the peer may commit (at most one per behaviour); {} = well-behaved echo agent
    OwnerAborts, \* the owner may call Abort at any moment
    Fixed,       \* TRUE: the code after fix: 3025274 / 8d97ccf (errors); FALSE: before (panics)
    HangFix      \* TRUE: the code after the third fix: abort() closes s.aborting before it waits for s.mu, and a call waiting
                 \* for its response gives up once the reader goroutine has ended; FALSE: before (Stop can hang for ever)

NIL == "nil"
FieldTypes == {"string", "int", "float", "bool"}

(* ---------------- data layout ---------------- *)
\* fields: a function  name -> <<type, value>>
Partition(fields) ==
    [ty \in FieldTypes |-> [n \in {m \in DOMAIN fields : fields[m][1] = ty} |-> fields[n][2]]]
\* typeMapsToFields: strs, then ints, then floats, then bools (a later map overwrites an earlier one)
Merge(tm) ==
    [n \in UNION {DOMAIN tm[ty] : ty \in FieldTypes} |->
        IF n \in DOMAIN tm["bool"] THEN <<"bool", tm["bool"][n]>>
        ELSE IF n \in DOMAIN tm["float"] THEN <<"float", tm["float"][n]>>
        ELSE IF n \in DOMAIN tm["int"] THEN <<"int", tm["int"][n]>>
        ELSE <<"string", tm["string"][n]>>]
Encodable(fields) == \A n \in DOMAIN fields : fields[n][1] \in FieldTypes

\* point payload: [name, dims, tags, fields, time]; batch header: [name, tags, byName, tmax]; batch point: [tags, fields, time]
WirePoint(p) == [t |-> "point", name |-> p.name, dims |-> p.dims, tags |-> p.tags, typed |-> Partition(p.fields), time |-> p.time]
WireBP(p) == [t |-> "point", name |-> "", dims |-> <<>>, tags |-> p.tags, typed |-> Partition(p.fields), time |-> p.time]
WireBegin(h, n) == [t |-> "begin", name |-> h.name, tags |-> h.tags, byName |-> h.byName, size |-> n]
WireEnd(h) == [t |-> "end", name |-> h.name, tags |-> h.tags, tmax |-> h.tmax]
UnwirePoint(w) == [name |-> w.name, dims |-> w.dims, tags |-> w.tags, fields |-> Merge(w.typed), time |-> w.time]
UnwireBP(w) == [tags |-> w.tags, fields |-> Merge(w.typed), time |-> w.time]

IsData(w) == w.t \in {"point", "begin", "end"}
ReqKinds == {"info", "init", "snapshot", "restore"}

\* what the writer puts on the wire for one edge message (begin = header of the running unbuffered batch)
WireOf(m, begin) ==
    CASE m.k = "point" -> IF Encodable(m.pl.fields) THEN <<WirePoint(m.pl)>> ELSE <<>>
      [] m.k = "batch" -> <<WireBegin(m.hdr, Len(m.pls))>>
                          \o [i \in 1 .. Len(SelectSeq(m.pls, LAMBDA p : Encodable(p.fields))) |->
                                WireBP(SelectSeq(m.pls, LAMBDA p : Encodable(p.fields))[i])]
                          \o <<WireEnd(m.hdr)>>
      [] m.k = "begin" -> <<WireBegin(m.hdr, m.size)>>
      [] m.k = "bp"    -> IF Encodable(m.pl.fields) THEN <<WireBP(m.pl)>> ELSE <<>>
      [] m.k = "end"   -> <<WireEnd(begin)>>
HasBadField(m) ==
    CASE m.k \in {"point", "bp"} -> ~Encodable(m.pl.fields)
      [] m.k = "batch" -> \E i \in 1 .. Len(m.pls) : ~Encodable(m.pls[i].fields)
      [] OTHER -> FALSE

\* what the consumer must see for a sequence of edge messages: points as they are, a batch for every completed
\* Begin..End (buffered or not); points the protocol cannot carry are dropped (fix 8d97ccf)
RECURSIVE Expect(_, _, _)
Expect(ms, hdr, pts) ==
    IF ms = <<>> THEN <<>>
    ELSE LET m == Head(ms) IN
      CASE m.k = "point" -> (IF Encodable(m.pl.fields) THEN <<[k |-> "point", pl |-> m.pl]>> ELSE <<>>) \o Expect(Tail(ms), hdr, pts)
        [] m.k = "batch" -> <<[k |-> "batch", hdr |-> m.hdr,
                               pts |-> SelectSeq(m.pls, LAMBDA p : Encodable(p.fields))]>> \o Expect(Tail(ms), hdr, pts)
        [] m.k = "begin" -> Expect(Tail(ms), m.hdr, <<>>)
        [] m.k = "bp"    -> Expect(Tail(ms), hdr, IF Encodable(m.pl.fields) THEN Append(pts, m.pl) ELSE pts)
        [] m.k = "end"   -> <<[k |-> "batch", hdr |-> hdr, pts |-> pts]>> \o Expect(Tail(ms), NIL, <<>>)
Expected(ms) == Expect(ms, NIL, <<>>)

IsPrefix(s, t) == Len(s) <= Len(t) /\ SubSeq(t, 1, Len(s)) = s

(* ---------------- state ---------------- *)
VARIABLES
    pump,       \* [pc : idle | offer | done, i : messages handed over so far, cur]
    caller,     \* [pc : idle | enter | pending | waiting, i : calls completed, lo]
    results,    \* results of completed calls, in order: [kind, rid, err, val, lo, hi]
    stopper,    \* idle | want | done      the goroutine calling Stop()
    stopRet,    \* NIL until Stop returned, then "ok" or the error
    outs, outClosed,
    owner,      \* [aborted : the abort callback ran (UDFNode.aborted closed), abortCalled]
    mu,         \* [who, stage] of the goroutine inside Stop()/abort(), who = NIL if s.mu is free
    want,       \* goroutines that still have to run abort(): subset of {"R", "W", "K", "O"}
    flags,      \* [stopped, stopping, aborted, aborting, inClosed, reqClosed]
    err,        \* s.err: the first error, NIL if none
    writer,     \* [pc : select | write | done, buf, inNil, reqNil, begin]
    toAgent,    \* [q, closed, stray : requests in it that udf.Server did not write]
    agent,      \* [seen : data messages, reqs : requests handled, restored, faulted, fkind, alive]
    fromAgent,  \* [q, closed]
    reader,     \* [pc : read | got | out | done, msg, hasBegin/begin (s.begin), inBatch/points (s.points), pend]
    kaBuf,      \* entries in s.keepalive (capacity 1)
    respC,      \* kind -> buffered responses (capacity 1 each)
    ticker,     \* [pc : idle | pending | done, n]
    watcher,    \* watch | done
    crashed,    \* a panic in a server goroutine: the process is gone
    diag,       \* errors reported through diag.Error
    wireSeen    \* ghost: data messages the peer received, in order
vars == <<pump, caller, results, stopper, stopRet, outs, outClosed, owner, mu, want, flags, err, writer, toAgent,
          agent, fromAgent, reader, kaBuf, respC, ticker, watcher, crashed, diag, wireSeen>>

Init ==
    /\ pump = [pc |-> "idle", i |-> 0, cur |-> NIL]
    /\ caller = [pc |-> "idle", i |-> 0, lo |-> 0]
    /\ results = <<>> /\ stopper = "idle" /\ stopRet = NIL /\ outs = <<>> /\ outClosed = FALSE
    /\ owner = [aborted |-> FALSE, abortCalled |-> FALSE]
    /\ mu = [who |-> NIL, stage |-> NIL] /\ want = {}
    /\ flags = [stopped |-> FALSE, stopping |-> FALSE, aborted |-> FALSE, aborting |-> FALSE, inClosed |-> FALSE, reqClosed |-> FALSE]
    /\ err = NIL
    /\ writer = [pc |-> "select", buf |-> <<>>, inNil |-> FALSE, reqNil |-> FALSE, begin |-> NIL]
    /\ toAgent = [q |-> <<>>, closed |-> FALSE, stray |-> 0]
    /\ agent = [seen |-> 0, reqs |-> 0, restored |-> NIL, faulted |-> FALSE, fkind |-> NIL, alive |-> TRUE]
    /\ fromAgent = [q |-> <<>>, closed |-> FALSE]
    /\ reader = [pc |-> "read", msg |-> NIL, hasBegin |-> FALSE, begin |-> NIL, inBatch |-> FALSE, points |-> <<>>, pend |-> NIL]
    /\ kaBuf = 0 /\ respC = [k \in ReqKinds |-> <<>>]
    /\ ticker = [pc |-> IF MaxTicks > 0 THEN "idle" ELSE "done", n |-> 0]
    /\ watcher = "watch" /\ crashed = FALSE /\ diag = {} /\ wireSeen = <<>>

SetErr(e) == err' = IF err = NIL THEN e ELSE err
\* data messages of wire messages
DataCount(q) == Len(SelectSeq(q, IsData))

(* ---------------- pump (owner -> In()) ---------------- *)
PumpOffer(m) ==
    /\ pump.pc = "idle" /\ ~owner.aborted /\ stopper = "idle"
    /\ pump' = [pump EXCEPT !.pc = "offer", !.cur = m]
    /\ UNCHANGED <<caller, results, stopper, stopRet, outs, outClosed, owner, mu, want, flags, err, writer, toAgent,
                   agent, fromAgent, reader, kaBuf, respC, ticker, watcher, crashed, diag, wireSeen>>
\* `case <-n.aborted: return`
PumpSeesAbort ==
    /\ pump.pc \in {"idle", "offer"} /\ owner.aborted
    /\ pump' = [pump EXCEPT !.pc = "done", !.cur = NIL]
    /\ UNCHANGED <<caller, results, stopper, stopRet, outs, outClosed, owner, mu, want, flags, err, writer, toAgent,
                   agent, fromAgent, reader, kaBuf, respC, ticker, watcher, crashed, diag, wireSeen>>
\* the input edge is closed: the pump returns and the owner closes the UDF (Stop)
PumpFinish ==
    /\ pump.pc = "idle"
    /\ pump' = [pump EXCEPT !.pc = "done"]
    /\ UNCHANGED <<caller, results, stopper, stopRet, outs, outClosed, owner, mu, want, flags, err, writer, toAgent,
                   agent, fromAgent, reader, kaBuf, respC, ticker, watcher, crashed, diag, wireSeen>>

(* ---------------- caller (doRequestResponse) ---------------- *)
\* data messages the writer has accepted so far (on the wire or still in its hands): they precede any later request
AcceptedData == DataCount(wireSeen) + DataCount(toAgent.q) + DataCount(writer.buf)
CallStart(c) ==
    /\ caller.pc = "idle"
    /\ caller' = [caller EXCEPT !.pc = "enter", !.lo = AcceptedData]
    /\ UNCHANGED <<pump, results, stopper, stopRet, outs, outClosed, owner, mu, want, flags, err, writer, toAgent,
                   agent, fromAgent, reader, kaBuf, respC, ticker, watcher, crashed, diag, wireSeen>>
Rid == caller.i + 1
Finish(c, e, v) ==
    /\ results' = Append(results, [kind |-> c.kind, rid |-> Rid, err |-> e, val |-> v, data |-> c.data, lo |-> caller.lo, hi |-> AcceptedData])
    /\ caller' = [caller EXCEPT !.pc = "idle", !.i = caller.i + 1]
\* the locked prologue: stopped -> error, else requestsGroup.Add(1)
CallEnter(c) ==
    /\ caller.pc = "enter" /\ mu.who = NIL
    /\ IF flags.stopped
       THEN Finish(c, IF err # NIL THEN err ELSE "stopped", NIL)
       ELSE caller' = [caller EXCEPT !.pc = "pending"] /\ UNCHANGED results
    /\ UNCHANGED <<pump, stopper, stopRet, outs, outClosed, owner, mu, want, flags, err, writer, toAgent,
                   agent, fromAgent, reader, kaBuf, respC, ticker, watcher, crashed, diag, wireSeen>>
\* `case <-s.aborting: return nil, s.err` in either select
CallAborted(c) ==
    /\ caller.pc \in {"pending", "waiting"} /\ flags.aborting
    /\ Finish(c, IF err # NIL THEN err ELSE "aborted", NIL)
    /\ UNCHANGED <<pump, stopper, stopRet, outs, outClosed, owner, mu, want, flags, err, writer, toAgent,
                   agent, fromAgent, reader, kaBuf, respC, ticker, watcher, crashed, diag, wireSeen>>
CallReturn(c) ==
    /\ caller.pc = "waiting" /\ respC[c.kind] # <<>>
    /\ Finish(c, NIL, Head(respC[c.kind]))
    /\ respC' = [respC EXCEPT ![c.kind] = Tail(@)]
    /\ UNCHANGED <<pump, stopper, stopRet, outs, outClosed, owner, mu, want, flags, err, writer, toAgent,
                   agent, fromAgent, reader, kaBuf, ticker, watcher, crashed, diag, wireSeen>>

\* case <-s.readDone: the reader goroutine has ended, no response will arrive any more
CallReaderGone(c) ==
    /\ HangFix /\ caller.pc = "waiting" /\ reader.pc = "done"
    /\ IF respC[c.kind] # <<>>
       THEN Finish(c, NIL, Head(respC[c.kind])) /\ respC' = [respC EXCEPT ![c.kind] = Tail(@)]
       ELSE Finish(c, "closed", NIL) /\ UNCHANGED respC
    /\ UNCHANGED <<pump, stopper, stopRet, outs, outClosed, owner, mu, want, flags, err, writer, toAgent,
                   agent, fromAgent, reader, kaBuf, ticker, watcher, crashed, diag, wireSeen>>

\* case <-s.stopping (fix: a call in flight when Stop is requested does not make Stop wait for a UDF that never takes or
\* answers the request - or answers with a response of another kind): a response that is already there is taken
CallStopped(c) ==
    /\ HangFix /\ caller.pc \in {"pending", "waiting"} /\ flags.stopping
    /\ IF caller.pc = "waiting" /\ respC[c.kind] # <<>>
       THEN Finish(c, NIL, Head(respC[c.kind])) /\ respC' = [respC EXCEPT ![c.kind] = Tail(@)]
       ELSE Finish(c, "stopped", NIL) /\ UNCHANGED respC
    /\ UNCHANGED <<pump, stopper, stopRet, outs, outClosed, owner, mu, want, flags, err, writer, toAgent,
                   agent, fromAgent, reader, kaBuf, ticker, watcher, crashed, diag, wireSeen>>

(* ---------------- writer (writeData) ---------------- *)
\* case m := <-s.inMsg  (rendezvous with the pump)
WTakeIn ==
    /\ writer.pc = "select" /\ ~writer.inNil /\ pump.pc = "offer"
    /\ LET m == pump.cur
           beg == IF m.k = "begin" THEN m.hdr ELSE writer.begin
           ws == WireOf(m, writer.begin) IN
       /\ pump' = [pump EXCEPT !.pc = "idle", !.i = pump.i + 1, !.cur = NIL]
       /\ IF HasBadField(m) /\ ~Fixed
          THEN crashed' = TRUE /\ UNCHANGED <<writer, diag>>      \* panic("unsupported field value type") in the writer goroutine
          ELSE /\ writer' = [writer EXCEPT !.buf = ws, !.begin = beg, !.pc = IF ws = <<>> THEN "select" ELSE "write"]
               /\ diag' = IF HasBadField(m) THEN diag \cup {"dropped point"} ELSE diag
               /\ UNCHANGED crashed
    /\ UNCHANGED <<caller, results, stopper, stopRet, outs, outClosed, owner, mu, want, flags, err, toAgent,
                   agent, fromAgent, reader, kaBuf, respC, ticker, watcher, wireSeen>>
\* inMsg was closed: s.inMsg = nil
WInClosed ==
    /\ writer.pc = "select" /\ ~writer.inNil /\ flags.inClosed
    /\ writer' = [writer EXCEPT !.inNil = TRUE]
    /\ UNCHANGED <<pump, caller, results, stopper, stopRet, outs, outClosed, owner, mu, want, flags, err, toAgent,
                   agent, fromAgent, reader, kaBuf, respC, ticker, watcher, crashed, diag, wireSeen>>
\* case req := <-s.requests from the caller
WTakeCall(c) ==
    /\ writer.pc = "select" /\ ~writer.reqNil /\ caller.pc = "pending"
    /\ writer' = [writer EXCEPT !.buf = <<[t |-> c.kind, rid |-> Rid, data |-> c.data]>>, !.pc = "write"]
    /\ caller' = [caller EXCEPT !.pc = "waiting"]
    /\ UNCHANGED <<pump, results, stopper, stopRet, outs, outClosed, owner, mu, want, flags, err, toAgent,
                   agent, fromAgent, reader, kaBuf, respC, ticker, watcher, crashed, diag, wireSeen>>
\* ... from the keepalive ticker
WTakeTick ==
    /\ writer.pc = "select" /\ ~writer.reqNil /\ ticker.pc = "pending"
    /\ writer' = [writer EXCEPT !.buf = <<[t |-> "keepalive"]>>, !.pc = "write"]
    /\ ticker' = [ticker EXCEPT !.pc = "idle"]
    /\ UNCHANGED <<pump, caller, results, stopper, stopRet, outs, outClosed, owner, mu, want, flags, err, toAgent,
                   agent, fromAgent, reader, kaBuf, respC, watcher, crashed, diag, wireSeen>>
WReqClosed ==
    /\ writer.pc = "select" /\ ~writer.reqNil /\ flags.reqClosed
    /\ writer' = [writer EXCEPT !.reqNil = TRUE]
    /\ UNCHANGED <<pump, caller, results, stopper, stopRet, outs, outClosed, owner, mu, want, flags, err, toAgent,
                   agent, fromAgent, reader, kaBuf, respC, ticker, watcher, crashed, diag, wireSeen>>
\* both channels nil: return nil; deferred s.out.Close(); ioGroup.Done()
WExit ==
    /\ writer.pc = "select" /\ writer.inNil /\ writer.reqNil
    /\ writer' = [writer EXCEPT !.pc = "done"]
    /\ toAgent' = [toAgent EXCEPT !.closed = TRUE]
    /\ UNCHANGED <<pump, caller, results, stopper, stopRet, outs, outClosed, owner, mu, want, flags, err,
                   agent, fromAgent, reader, kaBuf, respC, ticker, watcher, crashed, diag, wireSeen>>
\* case <-s.aborting: return s.err  (-> setError, s.out.Close(), ioGroup.Done(), then abort() which finds aborted set)
WAborting ==
    /\ writer.pc = "select" /\ flags.aborting
    /\ writer' = [writer EXCEPT !.pc = "done"]
    /\ toAgent' = [toAgent EXCEPT !.closed = TRUE]
    /\ want' = want \cup {"W"}
    /\ UNCHANGED <<pump, caller, results, stopper, stopRet, outs, outClosed, owner, mu, flags, err,
                   agent, fromAgent, reader, kaBuf, respC, ticker, watcher, crashed, diag, wireSeen>>
\* agent.WriteMessage: blocks while the pipe is full; fails once the peer is gone
WWrite ==
    /\ writer.pc = "write"
    /\ IF ~agent.alive
       THEN /\ writer' = [writer EXCEPT !.pc = "done", !.buf = <<>>]
            /\ toAgent' = [toAgent EXCEPT !.closed = TRUE]
            /\ SetErr("write error") /\ want' = want \cup {"W"}
       ELSE /\ Len(toAgent.q) < PipeCap
            /\ toAgent' = [toAgent EXCEPT !.q = Append(@, Head(writer.buf))]
            /\ writer' = [writer EXCEPT !.buf = Tail(@), !.pc = IF Len(writer.buf) = 1 THEN "select" ELSE "write"]
            /\ UNCHANGED <<err, want>>
    /\ UNCHANGED <<pump, caller, results, stopper, stopRet, outs, outClosed, owner, mu, flags,
                   agent, fromAgent, reader, kaBuf, respC, ticker, watcher, crashed, diag, wireSeen>>

(* ---------------- agent (the peer) ---------------- *)
Echo(w) == w
\* what a faulty peer sends instead of the echo of a data message
FaultMsgs(f, w) ==
    CASE f = "endNoBegin"    -> <<[t |-> "end", name |-> "junk", tags |-> <<>>, tmax |-> 0]>>
      [] f = "beginNeg"      -> <<[t |-> "begin", name |-> "junk", tags |-> <<>>, byName |-> FALSE, size |-> -1],
                                  [t |-> "end", name |-> "junk", tags |-> <<>>, tmax |-> 0], w>>
      [] f = "pointGap"      -> <<[t |-> "begin", name |-> "junk", tags |-> <<>>, byName |-> FALSE, size |-> 1],
                                  [t |-> "end", name |-> "junk", tags |-> <<>>, tmax |-> 0], w>>
      [] f = "unknown"       -> <<[t |-> "none"]>>      \* empty frame: a Response without a message
      [] f = "readerr"       -> <<[t |-> "garbage"]>>   \* bytes ReadMessage refuses: oversized header, no protobuf, truncated frame
      [] f = "errorResp"     -> <<[t |-> "error"]>>
      [] f = "unsolInfo"     -> <<[t |-> "info", rid |-> 0, val |-> [stale |-> TRUE]], [t |-> "info", rid |-> 0, val |-> [stale |-> TRUE]], w>>
      [] f = "unsolInit"     -> <<[t |-> "init", rid |-> 0, val |-> [stale |-> TRUE]], [t |-> "init", rid |-> 0, val |-> [stale |-> TRUE]], w>>
      [] f = "unsolSnapshot" -> <<[t |-> "snapshot", rid |-> 0, val |-> [stale |-> TRUE]], [t |-> "snapshot", rid |-> 0, val |-> [stale |-> TRUE]], w>>
      [] f = "unsolRestore"  -> <<[t |-> "restore", rid |-> 0, val |-> [stale |-> TRUE]], [t |-> "restore", rid |-> 0, val |-> [stale |-> TRUE]], w>>
      [] f = "unsolKeepalive" -> <<[t |-> "keepalive"], [t |-> "keepalive"], w>>
\* A peer that answers a REQUEST wrongly.  The protocol has no request ids: udf.Server routes a response by its KIND into the
\* 1-slot buffer of that kind (doResponse), so a response that does not answer the outstanding request of its kind
\* is either parked in the buffer of its own kind (where the next call of that kind finds it: "stale") or, when that
\* buffer is occupied, reported ("received message without requesting it") and dropped; the outstanding request stays
\* outstanding until the peer answers it, the UDF stops/aborts or the connection ends.  An error for that peer at
\* most: never a panic (the caller asserts the kind it asked for - it must only ever be handed that kind).
OtherKinds == {"info", "init", "snapshot", "restore", "keepalive"}
ReqFaultNames == {"wrong", "wrongThenRight", "rightThenWrong", "twice"}
ReqFaults == {n \o ":" \o k : n \in ReqFaultNames \ {"twice"}, k \in OtherKinds} \cup {"twice:same"}
NameOf(f) == CHOOSE n \in ReqFaultNames : \E k \in OtherKinds \cup {"same"} : f = n \o ":" \o k
OtherOf(f) == CHOOSE k \in OtherKinds \cup {"same"} : f = NameOf(f) \o ":" \o k
Wrong(k) == IF k = "keepalive" THEN [t |-> "keepalive"] ELSE [t |-> k, rid |-> 0, val |-> [stale |-> TRUE]]
ReqFaultMsgs(f, right) ==
    CASE NameOf(f) = "wrong"          -> <<Wrong(OtherOf(f))>>
      [] NameOf(f) = "wrongThenRight" -> <<Wrong(OtherOf(f)), right>>
      [] NameOf(f) = "rightThenWrong" -> <<right, Wrong(OtherOf(f))>>
      [] NameOf(f) = "twice"          -> <<right, [right EXCEPT !.rid = 0]>>
AResp(w) ==
    CASE w.t \in {"info", "init"} -> [t |-> w.t, rid |-> w.rid, val |-> [ok |-> TRUE]]
      [] w.t = "snapshot" -> [t |-> "snapshot", rid |-> w.rid, val |-> [seen |-> agent.seen, restored |-> agent.restored]]
      [] w.t = "restore"  -> [t |-> "restore", rid |-> w.rid, val |-> [ok |-> TRUE]]
      [] w.t = "keepalive" -> [t |-> "keepalive"]
AStep ==
    /\ agent.alive /\ toAgent.q # <<>>
    /\ LET w == Head(toAgent.q) IN
       /\ toAgent' = [toAgent EXCEPT !.q = Tail(@)]
       /\ IF IsData(w)
          THEN /\ wireSeen' = Append(wireSeen, w)
               /\ \/ /\ Len(fromAgent.q) < PipeCap
                     /\ fromAgent' = [fromAgent EXCEPT !.q = Append(@, Echo(w))]
                     /\ agent' = [agent EXCEPT !.seen = @ + 1]
                  \/ \E f \in (Faults \ {"close", "die", "emptyReq", "extraKeepalive"}) \ ReqFaults :
                     /\ ~agent.faulted /\ Len(fromAgent.q) + 2 < PipeCap
                     /\ fromAgent' = [fromAgent EXCEPT !.q = @ \o FaultMsgs(f, w)]
                     /\ agent' = [agent EXCEPT !.seen = @ + 1, !.faulted = TRUE, !.fkind = f]
                  \/ /\ "close" \in Faults /\ ~agent.faulted     \* the peer goes away at a frame boundary
                     /\ fromAgent' = [fromAgent EXCEPT !.closed = TRUE]
                     /\ agent' = [agent EXCEPT !.seen = @ + 1, !.faulted = TRUE, !.fkind = "close", !.alive = FALSE]
          ELSE IF w.t = "empty"
               \* a frame without a body decodes to a Request without a message: readLoop's switch has no case for
               \* it - nothing is handed to the handler, nothing is answered (in particular NOT the previous request
               \* again: ReadMessage decodes into one reused Request value and must reset it)
               THEN UNCHANGED <<fromAgent, agent, wireSeen>>
               ELSE /\ UNCHANGED wireSeen
                    /\ \/ /\ Len(fromAgent.q) < PipeCap
                          /\ fromAgent' = [fromAgent EXCEPT !.q = Append(@, AResp(w))]
                          /\ agent' = [agent EXCEPT !.reqs = IF w.t = "keepalive" THEN @ ELSE @ + 1,
                                                    !.restored = IF w.t = "restore" THEN w.data ELSE @]
                       \/ \E f \in Faults \cap ReqFaults :      \* the answer to a (non-keepalive) request goes wrong
                          /\ ~agent.faulted /\ w.t # "keepalive" /\ OtherOf(f) # w.t
                          /\ Len(fromAgent.q) + 1 < PipeCap
                          /\ fromAgent' = [fromAgent EXCEPT !.q = @ \o ReqFaultMsgs(f, AResp(w))]
                          /\ agent' = [agent EXCEPT !.reqs = @ + 1, !.faulted = TRUE, !.fkind = f,
                                                    !.restored = IF w.t = "restore" THEN w.data ELSE @]
    /\ UNCHANGED <<pump, caller, results, stopper, stopRet, outs, outClosed, owner, mu, want, flags, err, writer,
                   reader, kaBuf, respC, ticker, watcher, crashed, diag>>
\* a request udf.Server itself never writes shows up in the agent's input between two frames: an empty one
\* ("emptyReq") or one more keepalive request ("extraKeepalive").  The agent has ONE writer goroutine: whatever it
\* answers is queued behind the responses already handed to that writer, frames never interleave (fromAgent is a
\* FIFO of whole messages; the byte level of that direction is checked against UDFFraming by the Wire lines).
Stray(kind) ==
    /\ agent.alive /\ ~toAgent.closed /\ Len(toAgent.q) < PipeCap
    /\ toAgent' = [toAgent EXCEPT !.q = Append(@, [t |-> kind]), !.stray = @ + 1]
    /\ UNCHANGED <<pump, caller, results, stopper, stopRet, outs, outClosed, owner, mu, want, flags, err, writer,
                   agent, fromAgent, reader, kaBuf, respC, ticker, watcher, crashed, diag, wireSeen>>
StrayMC ==
    /\ toAgent.stray < 1
    /\ \/ "emptyReq" \in Faults /\ Stray("empty")
       \/ "extraKeepalive" \in Faults /\ Stray("keepalive")
\* the peer dies (process killed, connection reset) at an arbitrary moment: both directions are gone
AgentDies ==
    /\ "die" \in Faults /\ agent.alive
    /\ agent' = [agent EXCEPT !.alive = FALSE, !.faulted = TRUE, !.fkind = "die"]
    /\ fromAgent' = [fromAgent EXCEPT !.closed = TRUE]
    /\ UNCHANGED <<pump, caller, results, stopper, stopRet, outs, outClosed, owner, mu, want, flags, err, writer, toAgent,
                   reader, kaBuf, respC, ticker, watcher, crashed, diag, wireSeen>>
\* EOF on its input: Handler.Stop closes Responses, the write loop ends and closes the output
AEOF ==
    /\ agent.alive /\ toAgent.q = <<>> /\ toAgent.closed
    /\ agent' = [agent EXCEPT !.alive = FALSE]
    /\ fromAgent' = [fromAgent EXCEPT !.closed = TRUE]
    /\ UNCHANGED <<pump, caller, results, stopper, stopRet, outs, outClosed, owner, mu, want, flags, err, writer, toAgent,
                   reader, kaBuf, respC, ticker, watcher, crashed, diag, wireSeen>>

(* ---------------- reader (readData / handleResponse) ---------------- *)
\* return with an error: setError, deferred close(outMsg), ioGroup.Done(), then abort()
RFail(e) ==
    /\ reader' = [reader EXCEPT !.pc = "done", !.msg = NIL, !.pend = NIL]
    /\ SetErr(e) /\ outClosed' = TRUE /\ want' = want \cup {"R"}
RRead ==
    /\ reader.pc = "read"
    /\ \/ /\ fromAgent.q # <<>> /\ Head(fromAgent.q).t # "garbage"
          /\ reader' = [reader EXCEPT !.pc = "got", !.msg = Head(fromAgent.q)]
          /\ fromAgent' = [fromAgent EXCEPT !.q = Tail(@)]
          /\ UNCHANGED <<outClosed, err, want>>
       \/ /\ fromAgent.q # <<>> /\ Head(fromAgent.q).t = "garbage"   \* ReadMessage returns an error: "read error: ..."
          /\ RFail("read error")
          /\ fromAgent' = [fromAgent EXCEPT !.q = Tail(@)]
       \/ /\ fromAgent.q = <<>> /\ fromAgent.closed          \* io.EOF: return nil - no error, no abort
          /\ reader' = [reader EXCEPT !.pc = "done"]
          /\ outClosed' = TRUE
          /\ UNCHANGED <<fromAgent, err, want>>
    /\ UNCHANGED <<pump, caller, results, stopper, stopRet, outs, owner, mu, flags, writer, toAgent,
                   agent, kaBuf, respC, ticker, watcher, crashed, diag, wireSeen>>
\* the select that feeds the keepalive watchdog, then the dispatch
RHandle ==
    /\ reader.pc = "got"
    /\ LET w == reader.msg IN
       \/ /\ flags.aborting                                   \* case <-s.aborting: return s.err
          /\ RFail(IF err # NIL THEN err ELSE "aborted")
          /\ UNCHANGED <<kaBuf, respC, diag, crashed>>
       \/ /\ kaBuf = 0 \/ flags.stopping
          /\ kaBuf' = IF kaBuf = 0 THEN 1 ELSE kaBuf
          /\ CASE w.t = "keepalive" ->
                    /\ reader' = [reader EXCEPT !.pc = "read", !.msg = NIL]
                    /\ UNCHANGED <<respC, diag, crashed, err, outClosed, want>>
               [] w.t \in ReqKinds ->                          \* doResponse: non-blocking send into a 1-slot buffer
                    /\ reader' = [reader EXCEPT !.pc = "read", !.msg = NIL]
                    /\ IF respC[w.t] = <<>>
                       THEN respC' = [respC EXCEPT ![w.t] = <<[rid |-> w.rid, val |-> w.val]>>] /\ UNCHANGED diag
                       ELSE diag' = diag \cup {"unexpected " \o w.t} /\ UNCHANGED respC
                    /\ UNCHANGED <<crashed, err, outClosed, want>>
               [] w.t = "error" ->
                    /\ RFail("peer error") /\ diag' = diag \cup {"peer error"} /\ UNCHANGED <<respC, crashed>>
               [] w.t = "begin" ->
                    IF w.size < 0 /\ ~Fixed
                    THEN crashed' = TRUE /\ UNCHANGED <<reader, respC, diag, err, outClosed, want>>   \* makeslice: cap out of range
                    ELSE /\ reader' = [reader EXCEPT !.pc = "read", !.msg = NIL, !.hasBegin = TRUE, !.begin = w, !.inBatch = TRUE, !.points = <<>>]
                         /\ UNCHANGED <<respC, diag, crashed, err, outClosed, want>>
               [] w.t = "point" ->
                    /\ IF reader.inBatch                     \* s.points != nil
                       THEN reader' = [reader EXCEPT !.pc = "read", !.msg = NIL, !.points = Append(@, UnwireBP(w))]
                       ELSE reader' = [reader EXCEPT !.pc = "out", !.msg = NIL, !.pend = [k |-> "point", pl |-> UnwirePoint(w)]]
                    /\ UNCHANGED <<respC, diag, crashed, err, outClosed, want>>
               [] w.t = "end" ->
                    IF ~reader.hasBegin
                    THEN IF Fixed
                         THEN RFail("end without begin") /\ diag' = diag \cup {"unexpected message"} /\ UNCHANGED <<respC, crashed>>
                         ELSE crashed' = TRUE /\ UNCHANGED <<reader, respC, diag, err, outClosed, want>>  \* nil dereference of s.begin
                    ELSE /\ reader' = [reader EXCEPT !.pc = "out", !.msg = NIL, !.hasBegin = FALSE, !.begin = NIL, !.inBatch = FALSE, !.points = <<>>,
                               !.pend = [k |-> "batch", pts |-> reader.points,
                                         hdr |-> [name |-> w.name, tags |-> w.tags, byName |-> reader.begin.byName, tmax |-> w.tmax]]]
                         /\ UNCHANGED <<respC, diag, crashed, err, outClosed, want>>
               [] OTHER ->                                     \* default branch
                    IF Fixed
                    THEN RFail("unexpected message") /\ diag' = diag \cup {"unexpected message"} /\ UNCHANGED <<respC, crashed>>
                    ELSE crashed' = TRUE /\ UNCHANGED <<reader, respC, diag, err, outClosed, want>>
    /\ UNCHANGED <<pump, caller, results, stopper, stopRet, outs, owner, mu, flags, writer, toAgent,
                   agent, fromAgent, ticker, watcher, wireSeen>>
\* case s.outMsg <- m  (rendezvous with the consumer)
ROut ==
    /\ reader.pc = "out"
    /\ outs' = Append(outs, reader.pend)
    /\ reader' = [reader EXCEPT !.pc = "read", !.pend = NIL]
    /\ UNCHANGED <<pump, caller, results, stopper, stopRet, outClosed, owner, mu, want, flags, err, writer, toAgent,
                   agent, fromAgent, kaBuf, respC, ticker, watcher, crashed, diag, wireSeen>>
ROutAborted ==
    /\ reader.pc = "out" /\ flags.aborting
    /\ RFail(IF err # NIL THEN err ELSE "aborted")
    /\ UNCHANGED <<pump, caller, results, stopper, stopRet, outs, owner, mu, flags, writer, toAgent,
                   agent, fromAgent, kaBuf, respC, ticker, watcher, crashed, diag, wireSeen>>

(* ---------------- keepalive ---------------- *)
Tick ==
    /\ ticker.pc = "idle" /\ ticker.n < MaxTicks /\ ~flags.stopping
    /\ ticker' = [ticker EXCEPT !.pc = "pending", !.n = @ + 1]
    /\ UNCHANGED <<pump, caller, results, stopper, stopRet, outs, outClosed, owner, mu, want, flags, err, writer, toAgent,
                   agent, fromAgent, reader, kaBuf, respC, watcher, crashed, diag, wireSeen>>
\* inner select: case <-s.aborting  (back to the outer select)
TickAborted ==
    /\ ticker.pc = "pending" /\ flags.aborting
    /\ ticker' = [ticker EXCEPT !.pc = "idle"]
    /\ UNCHANGED <<pump, caller, results, stopper, stopRet, outs, outClosed, owner, mu, want, flags, err, writer, toAgent,
                   agent, fromAgent, reader, kaBuf, respC, watcher, crashed, diag, wireSeen>>
TickStop ==
    /\ ticker.pc = "idle" /\ flags.stopping
    /\ ticker' = [ticker EXCEPT !.pc = "done"]
    /\ UNCHANGED <<pump, caller, results, stopper, stopRet, outs, outClosed, owner, mu, want, flags, err, writer, toAgent,
                   agent, fromAgent, reader, kaBuf, respC, watcher, crashed, diag, wireSeen>>
WatchFeed ==
    /\ watcher = "watch" /\ kaBuf = 1
    /\ kaBuf' = 0
    /\ UNCHANGED <<pump, caller, results, stopper, stopRet, outs, outClosed, owner, mu, want, flags, err, writer, toAgent,
                   agent, fromAgent, reader, respC, ticker, watcher, crashed, diag, wireSeen>>
WatchStop ==
    /\ watcher = "watch" /\ flags.stopping
    /\ watcher' = "done"
    /\ UNCHANGED <<pump, caller, results, stopper, stopRet, outs, outClosed, owner, mu, want, flags, err, writer, toAgent,
                   agent, fromAgent, reader, kaBuf, respC, ticker, crashed, diag, wireSeen>>
\* time.After(timeout): requestsGroup.Done() first, then setError and abort()
WatchTimeout ==
    /\ watcher = "watch" /\ TimeoutOK /\ MaxTicks > 0
    /\ watcher' = "done"
    /\ SetErr("keepalive timedout") /\ diag' = diag \cup {"keepalive timedout"} /\ want' = want \cup {"K"}
    /\ UNCHANGED <<pump, caller, results, stopper, stopRet, outs, outClosed, owner, mu, flags, writer, toAgent,
                   agent, fromAgent, reader, kaBuf, respC, ticker, crashed, wireSeen>>

(* ---------------- Stop / Abort (everything under s.mu) ---------------- *)
OwnerAbort ==
    /\ OwnerAborts /\ ~owner.abortCalled /\ stopper = "idle"
    /\ owner' = [owner EXCEPT !.abortCalled = TRUE]
    /\ SetErr("owner abort") /\ want' = want \cup {"O"}
    /\ UNCHANGED <<pump, caller, results, stopper, stopRet, outs, outClosed, mu, flags, writer, toAgent,
                   agent, fromAgent, reader, kaBuf, respC, ticker, watcher, crashed, diag, wireSeen>>
\* the owner closes the UDF once its pump is done (UDFNode.runUDF: n.wg.Wait(); n.udf.Close())
StopCall ==
    /\ stopper = "idle" /\ pump.pc = "done"
    /\ stopper' = "want"
    /\ UNCHANGED <<pump, caller, results, stopRet, outs, outClosed, owner, mu, want, flags, err, writer, toAgent,
                   agent, fromAgent, reader, kaBuf, respC, ticker, watcher, crashed, diag, wireSeen>>
LockStop ==
    /\ stopper = "want" /\ mu.who = NIL
    /\ mu' = [who |-> "S", stage |-> "s1"]
    /\ UNCHANGED <<pump, caller, results, stopper, stopRet, outs, outClosed, owner, want, flags, err, writer, toAgent,
                   agent, fromAgent, reader, kaBuf, respC, ticker, watcher, crashed, diag, wireSeen>>
\* s.abortingOnce.Do(close(s.aborting)) - before the lock, so that whoever Stop() is waiting for (while holding
\* the lock) gets released
SignalAbort(g) ==
    /\ HangFix /\ g \in want /\ ~flags.aborting
    /\ flags' = [flags EXCEPT !.aborting = TRUE]
    /\ UNCHANGED <<pump, caller, results, stopper, stopRet, outs, outClosed, owner, mu, want, err, writer, toAgent,
                   agent, fromAgent, reader, kaBuf, respC, ticker, watcher, crashed, diag, wireSeen>>
LockAbort(g) ==
    /\ g \in want /\ mu.who = NIL /\ (HangFix => flags.aborting)
    /\ mu' = [who |-> g, stage |-> "a1"]
    /\ want' = want \ {g}
    /\ UNCHANGED <<pump, caller, results, stopper, stopRet, outs, outClosed, owner, flags, err, writer, toAgent,
                   agent, fromAgent, reader, kaBuf, respC, ticker, watcher, crashed, diag, wireSeen>>
Unlock == mu' = [who |-> NIL, stage |-> NIL]
Ret == /\ stopper' = IF mu.who = "S" THEN "done" ELSE stopper
       /\ stopRet' = IF mu.who = "S" THEN (IF err = NIL THEN "ok" ELSE err) ELSE stopRet
\* abort(): if s.aborted return; s.aborted = true; close(s.aborting)
A1 ==
    /\ mu.stage = "a1"
    /\ IF flags.aborted
       THEN Unlock /\ UNCHANGED flags
       ELSE mu' = [mu EXCEPT !.stage = "a2"] /\ flags' = [flags EXCEPT !.aborted = TRUE, !.aborting = TRUE]
    /\ UNCHANGED <<pump, caller, results, stopper, stopRet, outs, outClosed, owner, want, err, writer, toAgent,
                   agent, fromAgent, reader, kaBuf, respC, ticker, watcher, crashed, diag, wireSeen>>
\* abortCallback: UDFNode.abortedCallback closes n.aborted ...
A2 ==
    /\ mu.stage = "a2"
    /\ owner' = [owner EXCEPT !.aborted = TRUE]
    /\ mu' = [mu EXCEPT !.stage = "a3"]
    /\ UNCHANGED <<pump, caller, results, stopper, stopRet, outs, outClosed, want, flags, err, writer, toAgent,
                   agent, fromAgent, reader, kaBuf, respC, ticker, watcher, crashed, diag, wireSeen>>
\* ... and waits for the pump to return (n.wg.Wait())
A3 ==
    /\ mu.stage = "a3" /\ pump.pc = "done"
    /\ mu' = [mu EXCEPT !.stage = "s1"]
    /\ UNCHANGED <<pump, caller, results, stopper, stopRet, outs, outClosed, owner, want, flags, err, writer, toAgent,
                   agent, fromAgent, reader, kaBuf, respC, ticker, watcher, crashed, diag, wireSeen>>
\* stop(): if s.stopped return s.err; s.stopped = true; close(s.stopping)
S1 ==
    /\ mu.stage = "s1"
    /\ IF flags.stopped
       THEN Unlock /\ Ret /\ UNCHANGED flags
       ELSE mu' = [mu EXCEPT !.stage = "s2"] /\ flags' = [flags EXCEPT !.stopped = TRUE, !.stopping = TRUE] /\ UNCHANGED <<stopper, stopRet>>
    /\ UNCHANGED <<pump, caller, results, outs, outClosed, owner, want, err, writer, toAgent,
                   agent, fromAgent, reader, kaBuf, respC, ticker, watcher, crashed, diag, wireSeen>>
\* s.requestsGroup.Wait(); close(s.requests); close(s.inMsg)
S2 ==
    /\ mu.stage = "s2"
    /\ ticker.pc = "done" /\ watcher = "done" /\ caller.pc \notin {"pending", "waiting"}
    /\ mu' = [mu EXCEPT !.stage = "s3"]
    /\ flags' = [flags EXCEPT !.inClosed = TRUE, !.reqClosed = TRUE]
    \* closing inMsg while the pump is still sending would be "send on closed channel": the owner's contract
    /\ UNCHANGED <<pump, caller, results, stopper, stopRet, outs, outClosed, owner, want, err, writer, toAgent,
                   agent, fromAgent, reader, kaBuf, respC, ticker, watcher, crashed, diag, wireSeen>>
\* s.ioGroup.Wait(); return s.err
S3 ==
    /\ mu.stage = "s3" /\ writer.pc = "done" /\ reader.pc = "done"
    /\ Unlock /\ Ret
    /\ UNCHANGED <<pump, caller, results, outs, outClosed, owner, want, flags, err, writer, toAgent,
                   agent, fromAgent, reader, kaBuf, respC, ticker, watcher, crashed, diag, wireSeen>>

(* ---------------- composition ---------------- *)
MoreCalls == caller.i < Len(Calls)
NoCall == [kind |-> "none", data |-> NIL]
CurCall == IF MoreCalls THEN Calls[caller.i + 1] ELSE NoCall
\* everything the server, the peer and the consumer do on their own; c = the call in progress (if active)
Internal(c, active) ==
    \/ PumpSeesAbort
    \/ (active /\ (CallEnter(c) \/ CallAborted(c) \/ CallReturn(c) \/ CallReaderGone(c) \/ CallStopped(c) \/ WTakeCall(c)))
    \/ WTakeIn \/ WInClosed \/ WTakeTick \/ WReqClosed \/ WExit \/ WAborting \/ WWrite
    \/ AStep \/ AEOF \/ AgentDies \/ StrayMC
    \/ RRead \/ RHandle \/ ROut \/ ROutAborted
    \/ Tick \/ TickAborted \/ TickStop \/ WatchFeed \/ WatchStop \/ WatchTimeout
    \/ LockStop \/ (\E g \in want : LockAbort(g) \/ SignalAbort(g)) \/ A1 \/ A2 \/ A3 \/ S1 \/ S2 \/ S3

Terminated ==
    /\ stopper = "done" /\ mu.who = NIL /\ want = {}
    /\ writer.pc = "done" /\ reader.pc = "done" /\ ticker.pc = "done" /\ watcher = "done" /\ pump.pc = "done"
    /\ ~agent.alive
    /\ caller.pc = "idle" /\ ~MoreCalls

Next ==
    \/ /\ ~crashed
       /\ \/ Internal(CurCall, MoreCalls)
          \/ (pump.i < Len(Feed) /\ PumpOffer(Feed[pump.i + 1]))
          \/ (pump.i = Len(Feed) /\ PumpFinish)
          \/ (MoreCalls /\ CallStart(CurCall))
          \/ OwnerAbort \/ StopCall
    \/ ((crashed \/ Terminated) /\ UNCHANGED vars)

Spec == Init /\ [][Next]_vars
FairSpec == Spec /\ WF_vars(Next)

(* ---------------- properties ---------------- *)
TypeOK ==
    /\ pump.pc \in {"idle", "offer", "done"} /\ pump.i \in 0 .. Len(Feed)
    /\ caller.pc \in {"idle", "enter", "pending", "waiting"}
    /\ writer.pc \in {"select", "write", "done"} /\ reader.pc \in {"read", "got", "out", "done"}
    /\ kaBuf \in 0 .. 1 /\ \A k \in ReqKinds : Len(respC[k]) <= 1
    /\ Len(toAgent.q) <= PipeCap /\ Len(fromAgent.q) <= PipeCap + 2
    /\ mu.who \in {NIL, "S", "R", "W", "K", "O"}

NoProcessCrash == ~crashed

\* messages out = messages in: order, batch boundaries, every header field and every typed field
Benign == {"emptyReq", "extraKeepalive"}     \* requests the agent must ignore / answer without any effect on the data
EchoIdentity == Faults \subseteq Benign => IsPrefix(outs, Expected(SubSeq(Feed, 1, pump.i)))

\* the peer receives the data in order, each field in the map of its type (what WireOf says), nothing else
WireIdentity ==
    LET RECURSIVE W(_, _)
        W(ms, beg) == IF ms = <<>> THEN <<>>
                      ELSE WireOf(Head(ms), beg) \o W(Tail(ms), IF Head(ms).k = "begin" THEN Head(ms).hdr ELSE beg)
    IN IsPrefix(wireSeen, W(SubSeq(Feed, 1, pump.i), NIL))

\* a graceful Stop (no error) delivers everything that was handed over, then closes Out()
StopDrains ==
    (stopRet = "ok" /\ Faults \subseteq Benign) => outClosed /\ outs = Expected(SubSeq(Feed, 1, pump.i)) /\ reader.pc = "done"

\* the byte pipe from the peer is a queue of its own: what the peer WROTE before it closed / exited (fromAgent.q at the
\* moment fromAgent.closed is set) and what the server has READ are different things.  The reader may see the end of the
\* stream only after the backlog: it never ends cleanly with responses still unread in the pipe (a UDFProcess whose
\* child has exited with its answers unread must still deliver them: nothing - e.g. reaping the process, which closes
\* the parent's end of its stdout - may discard the backlog)
BacklogSurvivesClose == (reader.pc = "done" /\ err = NIL) => fromAgent.q = <<>>
\* Out() is closed only after the last message
ClosedIsFinal == outClosed => reader.pc = "done"

\* the response handed to a call is the peer's answer to exactly that request
Unsol == {"unsolInfo", "unsolInit", "unsolSnapshot", "unsolRestore"} \cup ReqFaults
ResponsesMatchRequests ==
    (Faults \cap Unsol = {}) =>
        \A i \in 1 .. Len(results) : results[i].err = NIL => results[i].val.rid = results[i].rid
\* ... and the snapshot reflects the data that went to the peer before the request, none that went after the call returned
SnapshotPosition ==
    (Faults \cap Unsol = {}) =>
        \A i \in 1 .. Len(results) : (results[i].err = NIL /\ results[i].kind = "snapshot") =>
            results[i].lo <= results[i].val.val.seen /\ results[i].val.val.seen <= results[i].hi
\* snapshot/restore carries the bytes through: a snapshot taken after a successful restore of d reports d
SnapshotRoundTrip ==
    (Faults \cap Unsol = {}) =>
        \A i, j \in 1 .. Len(results) :
            (i < j /\ results[i].kind = "restore" /\ results[i].err = NIL /\ results[j].kind = "snapshot" /\ results[j].err = NIL
             /\ \A k \in (i + 1) .. (j - 1) : results[k].kind # "restore")
            => results[j].val.val.restored = results[i].data

\* a peer fault is an error of this UDF at most: Stop still returns, with the error, and Out() gets closed
PeerFaultContained == stopper = "done" => outClosed /\ (err # NIL => stopRet = err)

\* every call returns once the server has stopped
CallsReturn == Terminated => Len(results) = Len(Calls)

Termination == <>(crashed \/ Terminated)
=============================================================================
