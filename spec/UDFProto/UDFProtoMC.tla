---------------------------- MODULE UDFProtoMC ----------------------------
(* Model-checking instances of UDFProto: small feeds that contain every    *)
(* message shape (point, buffered batch of 0..2 points, unbuffered batch,  *)
(* every field type, a field the protocol cannot carry).                   *)
EXTENDS UDFProto

F1 == ("a" :> <<"int", "9007199254740993">>)
F2 == ("a" :> <<"float", "1.5">> @@ "b" :> <<"string", "x y">> @@ "c" :> <<"bool", "true">>)
F3 == ("a" :> <<"string", "1">> @@ "d" :> <<"int", "1">>)
FBad == ("a" :> <<"int", "1">> @@ "z" :> <<"duration", "1s">>)
T0 == <<>>
T1 == << <<"h", "x">> >>
P1 == [name |-> "m", dims |-> <<>>, tags |-> T0, fields |-> F1, time |-> 1]
P2 == [name |-> "m", dims |-> <<"h">>, tags |-> T1, fields |-> F2, time |-> 2]
P3 == [name |-> "n", dims |-> <<>>, tags |-> T1, fields |-> F3, time |-> 3]
PBad == [name |-> "m", dims |-> <<>>, tags |-> T0, fields |-> FBad, time |-> 4]
B1 == [tags |-> T1, fields |-> F2, time |-> 1]
B2 == [tags |-> T0, fields |-> F1, time |-> 2]
BBad == [tags |-> T0, fields |-> FBad, time |-> 3]
H1 == [name |-> "m", tags |-> T0, byName |-> FALSE, tmax |-> 5]
H2 == [name |-> "n", tags |-> T1, byName |-> TRUE, tmax |-> 6]

Pt(p) == [k |-> "point", pl |-> p]
Ba(h, ps) == [k |-> "batch", hdr |-> h, pls |-> ps]
Bg(h, n) == [k |-> "begin", hdr |-> h, size |-> n]
Bp(p) == [k |-> "bp", pl |-> p]
En == [k |-> "end"]

\* stream of points, a buffered batch in between (batch UDFs and stream UDFs share the server)
FeedMixed == <<Pt(P1), Ba(H2, <<B1, B2>>), Pt(P2)>>
\* batches only: empty, one point, unbuffered with two points
FeedBatches == <<Ba(H1, <<>>), Bg(H2, 2), Bp(B1), Bp(B2), En, Ba(H2, <<B2>>)>>
FeedShort == <<Pt(P1), Ba(H2, <<B1>>)>>
FeedBad == <<Pt(P1), Pt(PBad), Ba(H1, <<B1, BBad>>), Pt(P3)>>
FeedPoints == <<Pt(P1), Pt(P2), Pt(P3)>>
FeedTwo == <<Pt(P1), Pt(P2)>>
FeedOne == <<Pt(P2)>>
FeedUnbuf == <<Bg(H2, 1), Bp(B1), En>>

Snap == [kind |-> "snapshot", data |-> NIL]
Rest(d) == [kind |-> "restore", data |-> d]
CallsSRS == <<Snap, Rest("blob"), Snap>>
CallsS == <<Snap>>
CallsSR == <<Snap, Rest("blob")>>
WrongInit == {"wrong:init"}
CallsInit == <<[kind |-> "init", data |-> NIL], Snap>>
CallsNone == <<>>

AllFaults == {"endNoBegin", "beginNeg", "pointGap", "unknown", "readerr", "errorResp", "unsolSnapshot", "unsolRestore", "unsolKeepalive", "close"}
CrashFaults == {"endNoBegin", "beginNeg", "unknown"}
NoFaults == {}
CloseOnly == {"close", "die"}
StrayOnly == {"emptyReq", "extraKeepalive"}
AllReqFaults == ReqFaults

\* layout law on its own: split into typed maps and merged again = identity (all field maps over 2 names x 4 types x 2 values)
Vals == {"0", "1"}
FieldMaps == UNION { [ns -> (FieldTypes \X Vals)] : ns \in SUBSET {"a", "b"} }
ASSUME PartitionMergeLossless == \A f \in FieldMaps : Merge(Partition(f)) = f
=============================================================================
