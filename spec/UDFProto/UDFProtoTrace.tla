--------------------------- MODULE UDFProtoTrace ---------------------------
(* Trace specification for the message level: validates recorded sessions  *)
(* of the real udf.Server (driver c19: server over fragmenting pipes to an *)
(* echo agent built on udf/agent; driver c19task: the same below a real    *)
(* UDFNode in a task) against UDFProto's actions.                          *)
(*                                                                         *)
(* Log lines are of two kinds.  Invocations (Send, Call, PumpDone,         *)
(* StopCall, Abort) are written BEFORE the driver performs the operation   *)
(* and fire the corresponding owner action of UDFProto.  Observations      *)
(* (Sent, Ret, Out, OutClosed, StopRet, AgentSaw, Diag) are written AFTER  *)
(* the driver saw the effect and only assert that the model - which gets   *)
(* there by silent Internal steps - has produced it.  So the order of      *)
(* lines written by different goroutines never matters beyond what is      *)
(* causally forced.                                                        *)
(*                                                                         *)
(* The model runs on identities: the payload of the message sent at line n *)
(* is the number n (name / tags / time slots of the model records); what   *)
(* comes out is looked up in the trace and compared field by field with    *)
(* the canonical form the driver logged (EchoIdentity), and what the peer  *)
(* saw on the wire with the wire form of what was sent (WireIdentity).     *)
EXTENDS UDFProto, TraceCommon

VARIABLES l, outObs, resObs, curCall, callActive,
          plan,   \* the fault the peer was told to commit: [kind, at] (at = 0: none)
          inq     \* task level: lines of the messages queued in front of the UDF node, not yet offered by its pump
tvars == <<vars, l, outObs, resObs, curCall, callActive, plan, inq>>

Ln == Trace[l]
IsEv(e) == l <= Len(Trace) /\ Ln.ev = e /\ l' = l + 1
Same == UNCHANGED <<outObs, resObs, curCall, callActive, plan, inq>>
NoPlan == [kind |-> NIL, at |-> 0, on |-> "data"]

TrInit == Init /\ l = 1 /\ outObs = 0 /\ resObs = 0 /\ curCall = NoCall /\ callActive = FALSE /\ plan = NoPlan /\ inq = <<>> /\ HWInit

TrReset ==
    /\ IsEv("Reset")
    /\ pump' = [pc |-> "idle", i |-> 0, cur |-> NIL]
    /\ caller' = [pc |-> "idle", i |-> 0, lo |-> 0]
    /\ results' = <<>> /\ stopper' = "idle" /\ stopRet' = NIL /\ outs' = <<>> /\ outClosed' = FALSE
    /\ owner' = [aborted |-> FALSE, abortCalled |-> FALSE]
    /\ mu' = [who |-> NIL, stage |-> NIL] /\ want' = {}
    /\ flags' = [stopped |-> FALSE, stopping |-> FALSE, aborted |-> FALSE, aborting |-> FALSE, inClosed |-> FALSE, reqClosed |-> FALSE]
    /\ err' = NIL
    /\ writer' = [pc |-> "select", buf |-> <<>>, inNil |-> FALSE, reqNil |-> FALSE, begin |-> NIL]
    /\ toAgent' = [q |-> <<>>, closed |-> FALSE, stray |-> 0]
    /\ agent' = [seen |-> 0, reqs |-> 0, restored |-> NIL, faulted |-> FALSE, fkind |-> NIL, alive |-> TRUE]
    /\ fromAgent' = [q |-> <<>>, closed |-> FALSE]
    /\ reader' = [pc |-> "read", msg |-> NIL, hasBegin |-> FALSE, begin |-> NIL, inBatch |-> FALSE, points |-> <<>>, pend |-> NIL]
    /\ kaBuf' = 0 /\ respC' = [k \in ReqKinds |-> <<>>]
    /\ ticker' = [pc |-> "done", n |-> 0]
    /\ watcher' = "watch" /\ crashed' = FALSE /\ diag' = {} /\ wireSeen' = <<>>
    /\ outObs' = 0 /\ resObs' = 0 /\ curCall' = NoCall /\ callActive' = FALSE /\ plan' = NoPlan /\ inq' = <<>>

(* ---- from logged items to model messages (identities only) ---- *)
BadFields(fs) == \E i \in 1 .. Len(fs) : fs[i][2] \notin FieldTypes
Utf8Fields(fs) == \E i \in 1 .. Len(fs) : fs[i][2] = "string/invalid-utf8"
FOf(fs) == IF Utf8Fields(fs) THEN [z |-> <<"string/invalid-utf8", "">>]
           ELSE IF BadFields(fs) THEN [z |-> <<"unsupported", "">>] ELSE <<>>
Pl(n, j, fs) == [name |-> ToString(n), dims |-> <<>>, tags |-> <<n>>, fields |-> FOf(fs), time |-> <<n, j>>]
BPl(n, j, fs) == [tags |-> <<n>>, fields |-> FOf(fs), time |-> <<n, j>>]
Hdr(n) == [name |-> ToString(n), tags |-> <<n>>, byName |-> FALSE, tmax |-> n]
MsgOf(n) ==
    LET it == Trace[n].item IN
    CASE it.k = "point" -> [k |-> "point", pl |-> Pl(n, 0, it.fields)]
      [] it.k = "batch" -> [k |-> "batch", hdr |-> Hdr(n), pls |-> [j \in 1 .. Len(it.pts) |-> BPl(n, j, it.pts[j].fields)]]
      [] it.k = "begin" -> [k |-> "begin", hdr |-> Hdr(n), size |-> 0]
      [] it.k = "bp"    -> [k |-> "bp", pl |-> BPl(n, 0, it.fields)]
      [] it.k = "end"   -> [k |-> "end"]

(* ---- from model results back to logged canonical forms ---- *)
\* the batch point a model batch point stands for: the j-th point of the buffered batch sent at line n, or the
\* point sent on its own at line n
SrcBP(tm) == IF tm[2] > 0 THEN Trace[tm[1]].item.pts[tm[2]]
             ELSE [tags |-> Trace[tm[1]].item.tags, fields |-> Trace[tm[1]].item.fields, t |-> Trace[tm[1]].item.t]
BatchCanon(b) == [k |-> "batch", name |-> b.name, group |-> b.group, byName |-> b.byName, dims |-> b.dims,
                  tags |-> b.tags, tmax |-> b.tmax, pts |-> b.pts]
\* what the consumer must see for a model output
ExpectOut(o) ==
    IF o.k = "point" /\ o.pl.name # "" THEN Trace[o.pl.time[1]].item
    ELSE IF o.k = "point" THEN      \* a batch point the (misbehaving) peer sent back outside any batch: it surfaces as a bare point
         LET src == SrcBP(o.pl.time) IN
         [k |-> "point", name |-> "", db |-> "", rp |-> "", group |-> "", byName |-> FALSE, dims |-> <<>>,
          tags |-> src.tags, fields |-> src.fields, t |-> src.t]
    ELSE IF o.hdr.name = "junk" THEN [k |-> "junk", n |-> Len(o.pts)]     \* a batch the misbehaving peer made up
    ELSE LET h == Trace[o.hdr.tags[1]].item IN
         [k |-> "batch", name |-> h.name, group |-> h.group, byName |-> h.byName, dims |-> h.dims, tags |-> h.tags,
          tmax |-> h.tmax, pts |-> [i \in 1 .. Len(o.pts) |-> SrcBP(o.pts[i].time)]]
LoggedOut(it) == IF it.k = "batch" /\ it.name = "c19-junk" THEN [k |-> "junk", n |-> Len(it.pts)]
                 ELSE IF it.k = "batch" THEN BatchCanon(it) ELSE it

\* what the peer must have seen on the wire for the k-th data message of ws
RECURSIVE LastBegin(_, _)
LastBegin(ws, k) == IF k = 0 THEN 0 ELSE IF ws[k].t = "begin" THEN k ELSE LastBegin(ws, k - 1)
ExpectWire(ws, k) ==
    LET w == ws[k] IN
    CASE w.t = "point" /\ w.name # "" -> Trace[w.time[1]].item
      [] w.t = "point" /\ w.name = "" /\ LastBegin(ws, k) = 0 -> [k |-> "batch point outside a batch"]
      [] w.t = "point" /\ w.name = "" /\ LastBegin(ws, k) > 0 ->
            LET src == SrcBP(w.time)
                b == Trace[ws[LastBegin(ws, k)].tags[1]].item IN
            [k |-> "point", name |-> "", db |-> "", rp |-> "", group |-> b.group, byName |-> FALSE, dims |-> <<>>,
             tags |-> src.tags, fields |-> src.fields, t |-> src.t]
      [] w.t = "begin" ->
            LET b == Trace[w.tags[1]].item IN
            [k |-> "begin", name |-> b.name, group |-> b.group, byName |-> b.byName, tags |-> b.tags, size |-> b.size]
      [] w.t = "end" ->
            LET b == Trace[w.tags[1]].item IN
            [k |-> "end", name |-> b.name, group |-> b.group, tags |-> b.tags, tmax |-> b.tmax]

(* ---- invocations ---- *)
TrSend == IsEv("Send") /\ PumpOffer(MsgOf(l)) /\ Same
TrPumpDone ==
    /\ IsEv("PumpDone")
    /\ (inq = <<>> /\ PumpFinish) \/ (pump.pc = "done" /\ UNCHANGED vars)
    /\ Same
\* task level: a message has passed the sink in front of the UDF node (it sits in the node's input edge)
TrQueue ==
    /\ IsEv("Queue")
    /\ inq' = Append(inq, l)
    /\ UNCHANGED vars /\ UNCHANGED <<outObs, resObs, curCall, callActive, plan>>
\* the peer was told to misbehave at its at-th data message
ModelKind(k) == CASE k \in {"hugeLen", "garbage", "truncFrame"} -> "readerr"
                  [] k = "emptyFrame" -> "unknown"
                  [] k = "earlyClose" -> "close"
                  [] OTHER -> k
\* the driver put a frame of its own into the server->agent byte stream, at a frame boundary: an empty request
\* (one byte 0x00) or a keepalive request
TrInject == IsEv("Inject") /\ Stray(Ln.kind) /\ Same
\* the driver killed the peer (both pipes broken) at this point of the script
TrPeerDies == IsEv("PeerDies") /\ AgentDies /\ Same
TrBystander == IsEv("Bystander") /\ Ln.ok /\ UNCHANGED vars /\ Same
TrFault ==
    /\ IsEv("Fault")
    /\ plan' = [kind |-> ModelKind(Ln.kind), at |-> Ln.at, on |-> Get(Ln, "on", "data")]   \* on: at-th data message / at-th request
    /\ UNCHANGED vars /\ UNCHANGED <<outObs, resObs, curCall, callActive, inq>>
TrCall ==
    /\ IsEv("Call") /\ ~callActive
    /\ LET c == [kind |-> Ln.kind, data |-> Ln.data] IN
       /\ curCall' = c /\ callActive' = TRUE
       /\ CallStart(c)
    /\ UNCHANGED <<outObs, resObs, plan, inq>>
TrStopCall == IsEv("StopCall") /\ StopCall /\ Same
TrAbort == IsEv("Abort") /\ OwnerAbort /\ Same

(* ---- observations ---- *)
\* the send returned: taken by the server (ok) or given up because the abort callback ran
TrSent ==
    /\ IsEv("Sent")
    /\ IF Ln.ok THEN pump.pc = "idle" ELSE pump.pc = "done"
    /\ UNCHANGED vars /\ Same
TrRet ==
    /\ IsEv("Ret") /\ callActive
    /\ Len(results) = resObs + 1
    /\ LET r == results[resObs + 1] IN
       /\ r.kind = Ln.kind
       /\ (Ln.err = "") <=> (r.err = NIL)
       \* a response the (misbehaving) peer sent for no request of that kind and that was parked in the buffer of its
       \* kind: the next call of that kind is handed it.  Marked by the driver where it can tell (made-up content)
       \* (a made-up snapshot; a parked init/restore/info response looks like any other)
       /\ (r.err = NIL /\ r.kind = "snapshot" /\ "stale" \in DOMAIN r.val.val) => Get(Ln, "stale", FALSE)
       \* SnapshotRoundTrip / ResponsesMatchRequests, observed: the bytes are the peer's state at the request
       /\ (r.err = NIL /\ r.kind = "snapshot" /\ "stale" \notin DOMAIN r.val.val) =>
              \* ResponsesMatchRequests - unless the peer was told to misbehave: after a parked response every later
              \* call of that kind is handed the answer to the call before it (the content is still the model's)
              /\ plan.at = 0 => r.val.rid = r.rid
              /\ ~Get(Ln, "stale", FALSE)
              /\ Ln.seen = r.val.val.seen
              /\ Ln.restored = r.val.val.restored
              /\ Ln.padok
       /\ (r.err = NIL /\ r.kind # "snapshot" /\ plan.at = 0) => r.val.rid = r.rid
    /\ resObs' = resObs + 1 /\ callActive' = FALSE
    /\ UNCHANGED vars /\ UNCHANGED <<outObs, curCall, plan, inq>>
\* EchoIdentity, observed
TrOut ==
    /\ IsEv("Out")
    /\ outObs < Len(outs)
    /\ ExpectOut(outs[outObs + 1]) = LoggedOut(Ln.item)
    /\ outObs' = outObs + 1
    /\ UNCHANGED vars /\ UNCHANGED <<resObs, curCall, callActive, plan, inq>>
TrOutClosed == IsEv("OutClosed") /\ outClosed /\ outObs = Len(outs) /\ UNCHANGED vars /\ Same
TrStopRet ==
    /\ IsEv("StopRet")
    /\ stopper = "done" /\ ((Ln.err = "") <=> (stopRet = "ok"))
    /\ UNCHANGED vars /\ Same
\* WireIdentity, observed at the end of the session
TrAgentSaw ==
    /\ IsEv("AgentSaw")
    /\ Len(Ln.msgs) = Len(wireSeen)
    /\ \A k \in 1 .. Len(wireSeen) : ExpectWire(wireSeen, k) = Ln.msgs[k]
    /\ UNCHANGED vars /\ Same
TrDiag ==
    /\ IsEv("Diag")
    /\ Ln.dropped <=> ("dropped point" \in diag)
    /\ ("KF:invalid-utf8-aborts-udf" \in diag) => PrintT(<<"KF-HIT", "invalid-utf8-aborts-udf">>)
    /\ ~crashed
    /\ UNCHANGED vars /\ Same
TrNote == IsEv("Note") /\ UNCHANGED vars /\ Same

(* Known finding invalid-utf8-aborts-udf (named deviation, guarded by exactly that input class): a point whose     *)
(* string field is not valid UTF-8 cannot be marshalled (proto3 strings); WriteMessage fails before writing        *)
(* anything, writeData returns "write error: string field contains invalid UTF-8" and the whole UDF is aborted -   *)
(* where the property (C05/C19) allows an error for that point at most.  The conforming behaviour (the point is    *)
(* reported and dropped, like any field the protocol cannot carry) is what UDFProto does with it.                  *)
KFUtf8 ==
    /\ writer.pc = "select" /\ ~writer.inNil /\ pump.pc = "offer"
    /\ pump.cur.k = "point" /\ "z" \in DOMAIN pump.cur.pl.fields /\ pump.cur.pl.fields["z"][1] = "string/invalid-utf8"
    /\ pump' = [pump EXCEPT !.pc = "idle", !.i = pump.i + 1, !.cur = NIL]
    /\ writer' = [writer EXCEPT !.pc = "done"]
    /\ toAgent' = [toAgent EXCEPT !.closed = TRUE]
    /\ SetErr("write error") /\ want' = want \cup {"W"}
    /\ diag' = diag \cup {"KF:invalid-utf8-aborts-udf"}
    /\ UNCHANGED <<caller, results, stopper, stopRet, outs, outClosed, owner, mu, flags,
                   agent, fromAgent, reader, kaBuf, respC, ticker, watcher, crashed, wireSeen>>

\* task level: the UDF node has not opened its UDF yet (no data can have reached the server): the snapshot of the
\* node fails with "UDF is not open yet" instead of being asked of a server that does not exist
CallNotOpen(c) ==
    /\ caller.pc = "enter" /\ pump.i = 0 /\ pump.pc = "idle" /\ outs = <<>> /\ wireSeen = <<>>
    /\ Finish(c, "not open", NIL)
    /\ UNCHANGED <<pump, stopper, stopRet, outs, outClosed, owner, mu, want, flags, err, writer, toAgent,
                   agent, fromAgent, reader, kaBuf, respC, ticker, watcher, crashed, diag, wireSeen>>

\* the peer commits exactly the planned fault, exactly at the planned message
PeerAsPlanned ==
    /\ (agent'.faulted /\ ~agent.faulted) =>
            /\ plan.kind = agent'.fkind /\ agent'.fkind # "die"
            /\ plan.at = (IF plan.on = "req" THEN agent'.reqs ELSE agent'.seen)
    /\ (plan.on = "data" /\ agent'.seen = plan.at /\ agent.seen < plan.at) => agent'.faulted
    /\ (plan.on = "req" /\ agent'.reqs = plan.at /\ agent.reqs < plan.at) => agent'.faulted
TrSilent ==
    /\ ~crashed
    /\ \/ Internal(curCall, callActive) /\ PeerAsPlanned /\ UNCHANGED inq
       \/ KFUtf8 /\ UNCHANGED inq
       \/ callActive /\ CallNotOpen(curCall) /\ UNCHANGED inq
       \/ inq # <<>> /\ PumpOffer(MsgOf(Head(inq))) /\ inq' = Tail(inq)
    /\ UNCHANGED <<l, outObs, resObs, curCall, callActive, plan>>

TrNext == TrReset \/ TrSend \/ TrQueue \/ TrFault \/ TrInject \/ TrPeerDies \/ TrBystander \/ TrPumpDone \/ TrCall \/ TrStopCall \/ TrAbort
          \/ TrSent \/ TrRet \/ TrOut \/ TrOutClosed \/ TrStopRet \/ TrAgentSaw \/ TrDiag \/ TrNote \/ TrSilent
TrSpec == TrInit /\ [][TrNext]_tvars

HW == HWMark(l)
TraceAccepted == HWAccepted
=============================================================================
