------------------------- MODULE UDFFramingTrace -------------------------
(* Trace specification for the byte level: validates what the real         *)
(* agent.ReadMessage returned for a logged byte stream under logged cuts   *)
(* (driver c19frame) against UDFFraming.Parse - the reader that sees the   *)
(* whole stream at once.  Base = 128 here.                                 *)
EXTENDS UDFFraming, TraceCommon

VARIABLES l, ref
tvars == <<fvars, l, ref>>

NoRef == [msgs |-> <<>>, end |-> "eof"]
TrInit ==
    /\ written = <<>> /\ pending = <<>> /\ avail = <<>>
    /\ st = "hdr" /\ acc = 0 /\ mult = 1 /\ nh = 0 /\ size = 0 /\ body = <<>> /\ out = <<>>
    /\ l = 1 /\ ref = NoRef /\ HWInit

Ln == Trace[l]
IsEv(e) == l <= Len(Trace) /\ Ln.ev = e /\ l' = l + 1
Rest == UNCHANGED <<pending, avail, st, acc, mult, nh, size, body, out>>

TrReset == IsEv("Reset") /\ written' = <<>> /\ ref' = NoRef /\ Rest

Lens(ms) == [i \in 1 .. Len(ms) |-> Len(ms[i])]
\* a stream written by WriteMessage: the reference parser recovers exactly the payload sizes proto.Size reports,
\* and nothing else (no stray bytes); a prefix of it (early close) yields a prefix
TrStream ==
    /\ IsEv("Stream")
    /\ written' = Ln.bytes
    /\ LET p == Parse(Ln.bytes) IN
       /\ ref' = p
       /\ (~Ln.hostile /\ Ln.whole) => Lens(p.msgs) = Ln.lens /\ p.end = "eof"
       /\ (~Ln.hostile /\ ~Ln.whole) => IsPrefix(Lens(p.msgs), Ln.lens) /\ p.end \in {"eof", "trunc"}
    /\ Rest

\* FramingSplitInvariant on the real reader: whatever the cuts and the wiring, it returned what Parse returns
TrSplit ==
    /\ IsEv("Split")
    /\ Ln.n = Len(ref.msgs)
    /\ Ln.end = ref.end
    /\ Ln.eq
    /\ "panic" \notin DOMAIN Ln
    /\ UNCHANGED <<written, ref>> /\ Rest

\* the complete byte stream an agent wrote during a session (agent -> server direction): whatever was answered
\* concurrently (data echoes, request responses, keepalive responses) it is a sequence of whole frames - the agent has
\* one writer - and, where the driver knows it, of exactly the number of responses handed to that writer
TrWire ==
    /\ IsEv("Wire")
    /\ LET p == Parse(Ln.bytes) IN
       /\ p.end = "eof"
       /\ Ln.n >= 0 => Len(p.msgs) = Ln.n
    /\ UNCHANGED <<written, ref>> /\ Rest

TrNext == TrReset \/ TrStream \/ TrSplit \/ TrWire
TrSpec == TrInit /\ [][TrNext]_tvars
HW == HWMark(l)
Accepted == HWAccepted
=============================================================================
