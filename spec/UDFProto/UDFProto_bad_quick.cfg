SPECIFICATION Spec
CONSTANTS
    Feed <- FeedBad
    Calls <- CallsNone
    PipeCap = 2
    MaxTicks = 0
    TimeoutOK = FALSE
    Faults <- NoFaults
    OwnerAborts = FALSE
    Fixed = TRUE
    HangFix = TRUE
INVARIANTS
    TypeOK
    NoProcessCrash
    EchoIdentity
    WireIdentity
    StopDrains
    BacklogSurvivesClose
    ClosedIsFinal
    ResponsesMatchRequests
    SnapshotPosition
    SnapshotRoundTrip
    PeerFaultContained
    CallsReturn
CHECK_DEADLOCK TRUE
