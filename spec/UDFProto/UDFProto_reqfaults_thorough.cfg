SPECIFICATION Spec
CONSTANTS
    Feed <- FeedTwo
    Calls <- CallsSRS
    PipeCap = 8
    MaxTicks = 0
    TimeoutOK = FALSE
    Faults <- AllReqFaults
    OwnerAborts = FALSE
    Fixed = TRUE
    HangFix = TRUE
INVARIANTS
    TypeOK
    NoProcessCrash
    EchoIdentity
    WireIdentity
    StopDrains
    BacklogSurvivesClose
    ClosedIsFinal
    ResponsesMatchRequests
    SnapshotPosition
    SnapshotRoundTrip
    PeerFaultContained
    CallsReturn
CHECK_DEADLOCK TRUE
