--------------------------- MODULE UDFFramingMC ---------------------------
(* Exhaustive instances of UDFFraming: every stream of up to MaxMsgs       *)
(* messages with payloads of up to MaxPayload bytes, every prefix of it    *)
(* (the peer closes early), and every hostile byte string of up to         *)
(* MaxHostile bytes; every way of cutting and reading them.                *)
EXTENDS UDFFraming
CONSTANTS MaxMsgs, MaxPayload, PayloadBytes, MaxHostile

Payloads == UNION { [1 .. n -> PayloadBytes] : n \in 0 .. MaxPayload }
MsgSeqs == UNION { [1 .. k -> Payloads] : k \in 0 .. MaxMsgs }
Prefixes(s) == { SubSeq(s, 1, n) : n \in 0 .. Len(s) }
WholeStreams == { Stream(ms) : ms \in MsgSeqs }
Hostile == UNION { [1 .. n -> Bytes] : n \in 0 .. MaxHostile }
MCWritten0 == (UNION { Prefixes(s) : s \in WholeStreams }) \cup Hostile

ASSUME WriteReadIdentityAll == \A ms \in MsgSeqs : MaxSize >= MaxPayload => WriteReadIdentity(ms)
=============================================================================
