SPECIFICATION Spec
CONSTANTS
    Feed <- FeedShort
    Calls <- CallsSRS
    PipeCap = 1
    MaxTicks = 1
    TimeoutOK = FALSE
    Faults <- NoFaults
    OwnerAborts = FALSE
    Fixed = TRUE
    HangFix = TRUE
INVARIANTS
    TypeOK
    NoProcessCrash
    EchoIdentity
    WireIdentity
    StopDrains
    BacklogSurvivesClose
    ClosedIsFinal
    ResponsesMatchRequests
    SnapshotPosition
    SnapshotRoundTrip
    PeerFaultContained
    CallsReturn
CHECK_DEADLOCK TRUE
