SPECIFICATION Spec
CONSTANTS
    Feed <- FeedOne
    Calls <- CallsNone
    PipeCap = 8
    MaxTicks = 1
    TimeoutOK = TRUE
    Faults <- NoFaults
    OwnerAborts = TRUE
    Fixed = TRUE
    HangFix = TRUE
INVARIANTS
    TypeOK
    NoProcessCrash
    EchoIdentity
    WireIdentity
    StopDrains
    BacklogSurvivesClose
    ClosedIsFinal
    ResponsesMatchRequests
    SnapshotPosition
    SnapshotRoundTrip
    PeerFaultContained
    CallsReturn
CHECK_DEADLOCK TRUE
