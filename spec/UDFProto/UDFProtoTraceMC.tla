-------------------------- MODULE UDFProtoTraceMC --------------------------
EXTENDS UDFProtoTrace
TrNoFeed == <<>>
TrNoFaults == {}
AllTraceFaults == {"endNoBegin", "beginNeg", "pointGap", "unknown", "readerr", "errorResp", "unsolInfo", "unsolInit",
                   "unsolSnapshot", "unsolRestore", "unsolKeepalive", "close", "die"} \cup ReqFaults
=============================================================================
