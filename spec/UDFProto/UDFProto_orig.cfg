SPECIFICATION Spec
CONSTANTS
    Feed <- FeedTwo
    Calls <- CallsNone
    PipeCap = 8
    MaxTicks = 0
    TimeoutOK = FALSE
    Faults <- CrashFaults
    OwnerAborts = FALSE
    Fixed = FALSE
    HangFix = TRUE
INVARIANTS
    NoProcessCrash
CHECK_DEADLOCK TRUE
