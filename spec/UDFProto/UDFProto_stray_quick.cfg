SPECIFICATION Spec
CONSTANTS
    Feed <- FeedShort
    Calls <- CallsS
    PipeCap = 2
    MaxTicks = 0
    TimeoutOK = FALSE
    Faults <- StrayOnly
    OwnerAborts = FALSE
    Fixed = TRUE
    HangFix = TRUE
INVARIANTS
    TypeOK
    NoProcessCrash
    EchoIdentity
    WireIdentity
    StopDrains
    BacklogSurvivesClose
    ClosedIsFinal
    ResponsesMatchRequests
    SnapshotPosition
    SnapshotRoundTrip
    PeerFaultContained
    CallsReturn
CHECK_DEADLOCK TRUE
