SPECIFICATION FSpec
CONSTANTS
    Base = 2
    MaxHdr = 3
    MaxSize = 5
    MaxMsgs = 2
    MaxPayload = 3
    PayloadBytes = {1, 2}
    MaxHostile = 4
    Written0 <- MCWritten0
INVARIANTS
    FTypeOK
    FramingSplitInvariant
    NoEarlyMessage
CHECK_DEADLOCK TRUE
