SPECIFICATION TrSpec
CONSTANTS
    Feed <- TrNoFeed
    Calls <- TrNoFeed
    PipeCap = 100000
    MaxTicks = 0
    TimeoutOK = FALSE
    Faults <- TrNoFaults
    OwnerAborts = TRUE
    Fixed = TRUE
    HangFix = TRUE
INVARIANTS
    NoProcessCrash
    ClosedIsFinal
CONSTRAINT HW
POSTCONDITION TraceAccepted
CHECK_DEADLOCK FALSE
