SPECIFICATION Spec
CONSTANTS
    Feed <- FeedTwo
    Calls <- CallsS
    PipeCap = 8
    MaxTicks = 1
    TimeoutOK = TRUE
    Faults <- NoFaults
    OwnerAborts = FALSE
    Fixed = TRUE
    HangFix = TRUE
INVARIANTS
    TypeOK
    NoProcessCrash
    EchoIdentity
    WireIdentity
    StopDrains
    BacklogSurvivesClose
    ClosedIsFinal
    ResponsesMatchRequests
    SnapshotPosition
    SnapshotRoundTrip
    PeerFaultContained
    CallsReturn
CHECK_DEADLOCK TRUE
