SPECIFICATION Spec
CONSTANTS
    Feed <- FeedTwo
    Calls <- CallsS
    PipeCap = 8
    MaxTicks = 1
    TimeoutOK = FALSE
    Faults <- WrongInit
    OwnerAborts = FALSE
    Fixed = TRUE
    HangFix = FALSE
INVARIANTS
    TypeOK
CHECK_DEADLOCK TRUE
