SPECIFICATION Spec
CONSTANTS
    Configs <- MCBatchFlapObs
    MaxAge = 3
    MaxDt = 2
    MaxBDt = 1
    BatchGaps = {1}
    MaxBatch = 2
    QCap = 2
    Variant = {"batch-uses-stream-trigger"}
INVARIANTS
    TypeOK
    LevelRule
    EventCarries
    EmitIff
CHECK_DEADLOCK FALSE
