SPECIFICATION Spec
CONSTANTS
    Configs <- MCStatefulObs
    MaxAge = 3
    MaxDt = 2
    MaxBDt = 1
    BatchGaps = {1}
    MaxBatch = 2
    QCap = 2
    Variant = {"shared-reset-state"}
INVARIANTS
    TypeOK
    EmitIff
    EventCarries
    LevelRule
CHECK_DEADLOCK FALSE
