------------------------- MODULE AlertNodeTraceMC -------------------------
EXTENDS AlertNodeTrace
MCConfigs == { DefaultCfg }
=============================================================================
