SPECIFICATION Spec
CONSTANTS
    Configs <- MCQuickFlap
    MaxAge = 3
    MaxDt = 2
    MaxBDt = 1
    LeaveOKStartsDuration = FALSE
    MaxBatch = 2
INVARIANTS
    TypeOK
    LevelRule
    EmitIff
    EventCarries
CHECK_DEADLOCK FALSE
