SPECIFICATION Spec
CONSTANTS
    Configs <- MCQuickFlap
    MaxAge = 3
    MaxDt = 2
    MaxBDt = 1
    BatchGaps = {1}
    MaxBatch = 2
    QCap = 2
    Variant = {"first-triggered-only-when-triggered"}
INVARIANTS
    TypeOK
    LevelRule
    EmitIff
    EventCarries
CHECK_DEADLOCK FALSE
