SPECIFICATION Spec
CONSTANTS
    Configs <- MCQuickFlap
    MaxAge = 3
    MaxDt = 2
    MaxBDt = 1
    RestoreKeepsEpisodeStart = TRUE
    LeaveOKStartsDuration = FALSE
    BatchGaps = {1}
    MaxBatch = 2
INVARIANTS
    TypeOK
    LevelRule
    EmitIff
    EventCarries
CHECK_DEADLOCK FALSE
