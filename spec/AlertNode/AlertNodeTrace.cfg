SPECIFICATION TrSpec
CONSTANTS
    Configs <- MCConfigs
    MaxAge = 100000000
    MaxDt = 2
    MaxBatch = 3
INVARIANTS
    Verdict
CONSTRAINT HW
POSTCONDITION Accepted
CHECK_DEADLOCK FALSE
