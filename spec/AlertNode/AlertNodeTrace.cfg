SPECIFICATION TrSpec
CONSTANTS
    Configs <- MCConfigs
    MaxAge = 100000000
    MaxDt = 2
    MaxBDt = 2
    BatchGaps = {0, 1}
    MaxBatch = 3
    QCap = 2
    Variant = {}
INVARIANTS
    Verdict
CONSTRAINT HW
POSTCONDITION Accepted
CHECK_DEADLOCK FALSE
