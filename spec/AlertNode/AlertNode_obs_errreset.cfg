SPECIFICATION Spec
CONSTANTS
    Configs <- MCErrsObs
    MaxAge = 3
    MaxDt = 2
    MaxBDt = 1
    BatchGaps = {1}
    MaxBatch = 2
    QCap = 2
    Variant = {"erroring-reset-holds"}
INVARIANTS
    TypeOK
    EmitIff
    EventCarries
    LevelRule
CHECK_DEADLOCK FALSE
