SPECIFICATION Spec
CONSTANTS
    Configs <- MCInlineObs
    MaxAge = 3
    MaxDt = 2
    MaxBDt = 1
    BatchGaps = {1}
    MaxBatch = 2
    QCap = 2
    Variant = {"stop-at-first-collect-error"}
INVARIANTS
    TypeOK
    LevelRule
    EmitIff
    EventCarries
    NamedDelivery
CHECK_DEADLOCK FALSE
