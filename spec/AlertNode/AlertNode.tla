----------------------------- MODULE AlertNode -----------------------------
(***************************************************************************)
(* C01 - alert level / recovery state machine of kapacitor's AlertNode      *)
(* (alert.go: determineLevel, alertState.Point / BufferedBatch, addEvent,    *)
(* triggered, updateFlapping, updateExpired; documentation in               *)
(* pipeline/alert.go).                                                       *)
(*                                                                           *)
(* Two machines run in lockstep on the same input, for ONE alert ID:         *)
(*   Impl  - the algorithm as the code runs it: history ring + index,        *)
(*           changed / expired / flapping flags, firstTriggered /            *)
(*           lastTriggered, the stream and the batch emission tests.         *)
(*   Ref   - what the property and the documentation promise: the level      *)
(*           rule, "event iff not OK or just recovered", the                 *)
(*           state-changes-only / interval and no-recoveries filters, and    *)
(*           duration = time since the ID last left OK.  Ref is a JUDGE: it  *)
(*           is given the observed output and says whether the documented    *)
(*           machine allows it (RefJudge).  Without flapping exactly one     *)
(*           output is allowed; with flapping() the documentation does not   *)
(*           fix the weighting, so suppression of an event is allowed        *)
(*           whenever the recorded history contains a state change.          *)
(*                                                                           *)
(* Time.  `clock` is the time of the last processed point (stream) or the    *)
(* last batch's tmax.  All remembered timestamps are kept as AGES relative   *)
(* to clock, capped at MaxAge, so the state space is finite for unbounded    *)
(* input sequences; trace validation uses a huge MaxAge.                     *)
(***************************************************************************)
EXTENDS Integers, Sequences, FiniteSets, TLC

CONSTANTS
    Configs,    \* set of configuration records explored (MkCfg)
    MaxAge,     \* cap for ages and durations
    MaxDt,      \* stream: time advance per point 0..MaxDt
    MaxBDt,     \* batch: gap between the previous tmax and the first point 0..MaxBDt
    BatchGaps,  \* batch: time between consecutive points of a batch, and from the last point to tmax
    MaxBatch,   \* batch: 1..MaxBatch points
    RestoreKeepsEpisodeStart,
                \* TRUE: a restored alertState starts its episode at (last event time - last event
                \* duration), i.e. where the ID left OK.  FALSE: at the last event's time (the code
                \* before the second C01 fix) - durations restart from the last event after a restart.
    LeaveOKStartsDuration
                \* TRUE: Impl as the code is since fix c143191 (addEvent records the start of
                \* the episode when the level leaves OK).  FALSE: Impl as it was before (only
                \* triggered() set firstTriggered) - kept so that a run can show the
                \* EventCarries counterexample, i.e. that the invariant is not vacuous.

VARIABLES
    cfg,        \* the configuration (chosen in Init, constant afterwards)
    im,         \* Impl state of the ID (mirrors alertState)
    rf,         \* Ref state of the ID
    out,        \* output of the last step: None or <<level, eage, duration>>
    chk         \* verdict of RefJudge on the last step

vars == <<cfg, im, rf, out, chk>>

None   == <<>>
NoTime == -1    \* Go's zero time.Time: "never set"
SatDur == -1    \* a duration measured from the zero time (saturates in Go)

SetMax(S) == CHOOSE x \in S : \A y \in S : y <= x
SetMin(S) == CHOOSE x \in S : \A y \in S : x <= y
Range(s)  == { s[i] : i \in DOMAIN s }

CapAge(x)  == IF x > MaxAge THEN MaxAge ELSE x
Adv(a, d)  == IF a = NoTime THEN NoTime ELSE CapAge(a + d)

(***************************************************************************)
(* Configuration.  has[l] / rst[l]: level l (1 INFO, 2 WARNING, 3 CRITICAL)  *)
(* has a condition / a reset condition.  sco: stateChangesOnly, scod its     *)
(* interval (0 = none).  flo/fhi: flapping thresholds in percent.            *)
(***************************************************************************)
MkCfg(has, rst, sco, scod, norec, all, flap, flo, fhi, H, batch) ==
    [has |-> has, rst |-> rst, sco |-> sco, scod |-> scod, norec |-> norec, all |-> all,
     flap |-> flap, flo |-> flo, fhi |-> fhi, H |-> H, batch |-> batch]

HasReset(c, l) == l > 0 /\ c.has[l] /\ c.rst[l]

(* A point class: truth of the three level lambdas and the three reset     *)
(* lambdas on that point.  Only lambdas that exist in the configuration      *)
(* vary (the others are never evaluated).                                    *)
Classes(c) ==
    { [c |-> cc, r |-> rr] :
        cc \in { x \in [1..3 -> BOOLEAN] : \A l \in 1..3 : ~c.has[l] => ~x[l] },
        rr \in { x \in [1..3 -> BOOLEAN] : \A l \in 1..3 : ~HasReset(c, l) => ~x[l] } }

(***************************************************************************)
(* The level rule.                                                           *)
(***************************************************************************)
(* Documented: highest satisfied level at or above the current one; else    *)
(* stay if the current level's reset condition is configured and false;     *)
(* else the highest satisfied level below; else OK.                          *)
DocLevel(c, cur, p) ==
    LET sat  == { l \in 1..3 : c.has[l] /\ p.c[l] }
        up   == { l \in sat : l >= cur }
        down == { l \in sat : l < cur }
    IN  IF up # {} THEN SetMax(up)
        ELSE IF HasReset(c, cur) /\ ~p.r[cur] THEN cur
        ELSE IF down # {} THEN SetMax(down)
        ELSE 0

(* As coded: findFirstMatchLevel(start, stop) scans start, start-1, ...,    *)
(* stop+1 with stop clamped to OK; determineLevel = upward search over       *)
(* Critical..current, reset gate, downward search from current.              *)
FindFirst(c, start, stop, p) ==
    LET s == IF stop < 0 THEN 0 ELSE stop
        m == { l \in (s + 1)..start : c.has[l] /\ p.c[l] }
    IN  IF m = {} THEN <<0, FALSE>> ELSE <<SetMax(m), TRUE>>

CodeLevel(c, cur, p) ==
    LET a == FindFirst(c, 3, cur - 1, p)
    IN  IF a[2] THEN a[1]
        ELSE IF HasReset(c, cur) /\ ~p.r[cur] THEN cur
        ELSE LET b == FindFirst(c, cur, 0, p) IN IF b[2] THEN b[1] ELSE 0

(***************************************************************************)
(* Impl: alertState.                                                         *)
(***************************************************************************)
ImplInit(c) ==
    [hist |-> [i \in 1..c.H |-> 0], idx |-> 1, changed |-> FALSE, expired |-> FALSE,
     flapping |-> FALSE, first |-> NoTime, last |-> NoTime]

ImplLevel(s) == s.hist[s.idx]

(* percentChange(), in integers.  The code walks i = 0..H-2 over ring        *)
(* positions idx+i (so the second comparison is "oldest against newest"),    *)
(* weight_i = 0.8 + i*0.4/(H-1), result = sum/(H-1).  Scaled by 10*(H-1)^2:  *)
(* P = sum of 8(H-1)+4i over changed positions;  p > x% <=> 10 P > x (H-1)^2 *)
PrevIdx(H, i) == IF i = 1 THEN H ELSE i - 1
PctScaled(H, hist, idx) ==
    LET pos(i) == ((idx - 1 + i) % H) + 1
        w(i)   == IF hist[pos(i)] # hist[PrevIdx(H, pos(i))] THEN 8 * (H - 1) + 4 * i ELSE 0
        sum[i \in 0..(H - 2)] == IF i = 0 THEN w(0) ELSE sum[i - 1] + w(i)
    IN  10 * sum[H - 2]

UpdateFlapping(c, hist, idx, was) ==
    IF ~c.flap THEN was
    ELSE LET P == PctScaled(c.H, hist, idx)
             q == (c.H - 1) * (c.H - 1)
         IN  IF was /\ P < c.flo * q THEN FALSE
             ELSE IF ~was /\ P > c.fhi * q THEN TRUE
             ELSE was

(* One evaluated level lv at event time t, with d1 = t - clock and           *)
(* d2 = clock' - t: addEvent; emission test (stream or batch form);          *)
(* triggered; duration.                                                      *)
ImplEvent(c, s, lv, d1, d2) ==
    LET first1  == Adv(s.first, d1)
        last1   == Adv(s.last, d1)
        changed == s.hist[s.idx] # lv
        idx2    == (s.idx % c.H) + 1
        hist2   == [s.hist EXCEPT ![idx2] = lv]
        flap2   == UpdateFlapping(c, hist2, idx2, s.flapping)
        expired == ~changed /\ c.scod # 0 /\ (last1 = NoTime \/ last1 >= c.scod)
        supp    == (c.flap /\ flap2) \/ (c.sco /\ ~changed /\ ~expired)
        trig    == IF c.batch
                   THEN (changed /\ lv = 0) \/ (lv # 0 /\ ~supp)
                   ELSE ~supp /\ (lv # 0 \/ changed)
        \* addEvent(t): leaving OK starts the duration, whether or not the event is triggered
        \* (before the fix recorded in KNOWN_FINDINGS.txt only triggered() set firstTriggered, so
        \* an entry into non-OK suppressed by flapping left a stale / zero start time behind)
        firstA  == IF LeaveOKStartsDuration /\ s.hist[s.idx] = 0 /\ lv # 0 THEN 0 ELSE first1
        \* triggered(t): firstTriggered is (re)set if the previous history entry is OK
        first2  == IF trig /\ hist2[PrevIdx(c.H, idx2)] = 0 THEN 0 ELSE firstA
        last2   == IF trig THEN 0 ELSE last1
        emit    == trig /\ ~(c.norec /\ lv = 0)
        dur     == IF first2 = NoTime THEN SatDur ELSE first2
    IN  [st  |-> [hist |-> hist2, idx |-> idx2, changed |-> changed, expired |-> expired,
                  flapping |-> flap2, first |-> Adv(first2, d2), last |-> Adv(last2, d2)],
         out |-> IF emit THEN <<lv, d2, dur>> ELSE None]

(* Task restart while the daemon keeps running (restoreEventState): the new   *)
(* alertState starts from what the topic remembers for the ID - the level   *)
(* and time of the last delivered event - as addEvent(level) followed by     *)
(* triggered(event time); the start of the episode is the event's time       *)
(* minus its duration.  Modelled where the topic's memory is the true state: *)
(* no flapping and recoveries delivered (then the last delivered level is    *)
(* the current level and lastTriggered is the last event's time).            *)
CanRestart(c) == ~c.flap /\ ~c.norec
ImplRestore(c, s) ==
    LET cur == ImplLevel(s)
    IN  IF cur = 0 THEN ImplInit(c)
        ELSE [hist |-> [i \in 1..c.H |-> IF i = 2 THEN cur ELSE 0], idx |-> 2, changed |-> TRUE,
              expired |-> FALSE, flapping |-> FALSE,
              first |-> IF RestoreKeepsEpisodeStart THEN s.first ELSE s.last,
              last |-> s.last]

(* A batch is a non-empty sequence of [c, r, off] (off = time - clock,      *)
(* non-decreasing) and tmx = tmax - clock.  A stream point is the batch      *)
(* <<p>> with tmx = p.off.                                                   *)
ImplStream(c, s, p) == ImplEvent(c, s, CodeLevel(c, ImplLevel(s), p), p.off, 0)

ImplBatch(c, s, pts, tmx) ==
    LET cur   == ImplLevel(s)
        plv   == [i \in DOMAIN pts |-> CodeLevel(c, cur, pts[i])]
        hi    == SetMax(Range(plv))
        lo    == SetMin(Range(plv))
        hiIdx == SetMin({ i \in DOMAIN pts : plv[i] = hi })   \* first point at the highest level
        lv    == IF c.all THEN lo ELSE hi
        toff  == IF c.all \/ lv = 0 THEN tmx ELSE pts[hiIdx].off
    IN  ImplEvent(c, s, lv, toff, tmx - toff)

(***************************************************************************)
(* Ref: the documented machine as a judge of an observed output.             *)
(*   lvl      current level of the ID                                        *)
(*   win      the last H levels (recorded history, initially all OK)         *)
(*   left     SET of possible ages of the time the ID last left OK: one      *)
(*            element, except after a batch whose event was suppressed       *)
(*            (flapping) - then every admissible event time of that batch    *)
(*            is a candidate until an observed duration narrows it down      *)
(*   lastOld/lastNew  oldest / newest possible age of "the last alert" (they *)
(*            differ only after a withheld recovery that flapping may or     *)
(*            may not have suppressed)                                       *)
(***************************************************************************)
RefInit(c) ==
    [lvl |-> 0, win |-> [i \in 1..c.H |-> 0], left |-> {NoTime}, lastOld |-> NoTime, lastNew |-> NoTime]

RefJudge(c, r, pts, tmx, obs) ==
    LET plv      == [i \in DOMAIN pts |-> DocLevel(c, r.lvl, pts[i])]
        useAll   == c.batch /\ c.all
        lv       == IF useAll THEN SetMin(Range(plv)) ELSE SetMax(Range(plv))
        changed  == lv # r.lvl
        win2     == [i \in 1..c.H |-> IF i < c.H THEN r.win[i + 1] ELSE lv]
        steady   == \A i \in 1..c.H : win2[i] = lv
        \* admissible event times: a point that has the event's level; the batch time
        \* as well for all() and for OK events (no single triggering point)
        trigOffs == { pts[i].off : i \in { j \in DOMAIN pts : plv[j] = lv } }
        cands    == IF lv # 0 /\ ~useAll THEN trigOffs ELSE trigOffs \cup {tmx}
        \* not OK, or just returned to OK
        base     == lv # 0 \/ changed
        withheld == c.norec /\ lv = 0
        elMay(e)  == r.lastOld = NoTime \/ Adv(r.lastOld, e) >= c.scod
        elMust(e) == r.lastNew = NoTime \/ Adv(r.lastNew, e) >= c.scod
        mayEmit(e)  == base /\ ~withheld /\ (~c.sco \/ changed \/ (c.scod > 0 /\ elMay(e)))
        mustEmit(e) == base /\ ~withheld /\ (~c.sco \/ changed \/ (c.scod > 0 /\ elMust(e)))
                       /\ (~c.flap \/ steady)
        leaving  == r.lvl = 0 /\ lv # 0
        \* event time used when nothing was observed: the code's choice
        defOff   == IF useAll \/ lv = 0 THEN tmx ELSE SetMin(trigOffs)
        e        == IF obs = None THEN defOff ELSE tmx - obs[2]
        DurOf(a) == IF a = NoTime THEN SatDur ELSE a
        expDurs  == IF leaving THEN {0} ELSE { DurOf(Adv(a, e)) : a \in r.left }
        emitOK   == IF obs = None THEN \E x \in cands : ~mustEmit(x) ELSE mayEmit(e)
        levelOK  == obs # None => obs[1] = lv
        carryOK  == obs # None => (e \in cands /\ obs[3] \in expDurs)
        maybeTrig == obs = None /\ withheld /\ changed
        left2    == IF leaving
                    THEN IF obs # None THEN { CapAge(tmx - e) } ELSE { CapAge(tmx - x) : x \in cands }
                    ELSE LET keep == IF obs # None /\ obs[3] \in expDurs
                                     THEN { a \in r.left : DurOf(Adv(a, e)) = obs[3] }
                                     ELSE r.left
                         IN  { Adv(a, tmx) : a \in keep }
    IN  [st  |-> [lvl |-> lv, win |-> win2,
                  left    |-> left2,
                  lastOld |-> IF obs # None THEN CapAge(tmx - e) ELSE Adv(r.lastOld, tmx),
                  lastNew |-> IF obs # None THEN CapAge(tmx - e)
                              ELSE IF maybeTrig THEN 0 ELSE Adv(r.lastNew, tmx)],
         chk |-> [level |-> levelOK, emit |-> emitOK, carries |-> carryOK,
                  \* exactly one output allowed?
                  det |-> (\A x \in cands : mayEmit(x) = mustEmit(x))]]

ChkInit == [level |-> TRUE, emit |-> TRUE, carries |-> TRUE, det |-> TRUE]

(***************************************************************************)
(* The lockstep specification.                                               *)
(***************************************************************************)
Init ==
    /\ cfg \in Configs
    /\ im = ImplInit(cfg)
    /\ rf = RefInit(cfg)
    /\ out = None
    /\ chk = ChkInit

Step(pts, tmx) ==
    LET i == IF cfg.batch THEN ImplBatch(cfg, im, pts, tmx) ELSE ImplStream(cfg, im, pts[1])
        j == RefJudge(cfg, rf, pts, tmx, i.out)
    IN  /\ im' = i.st
        /\ out' = i.out
        /\ rf' = j.st
        /\ chk' = j.chk
        /\ UNCHANGED cfg

Point(p, dt) ==
    /\ ~cfg.batch
    /\ Step(<<[c |-> p.c, r |-> p.r, off |-> dt]>>, dt)

(* offsets: first point at dt, the following ones a gap later, tmax a gap     *)
(* after the last point.                                                     *)
Batch(ps, dt, gaps, g) ==
    /\ cfg.batch
    /\ LET n   == Len(ps)
           off[i \in 1..n] == IF i = 1 THEN dt ELSE off[i - 1] + gaps[i]
           pts == [i \in 1..n |-> [c |-> ps[i].c, r |-> ps[i].r, off |-> off[i]]]
       IN  Step(pts, off[n] + g)

(* The documented machine knows nothing of task restarts: Ref continues.      *)
Restart ==
    /\ CanRestart(cfg)
    /\ im' = ImplRestore(cfg, im)
    /\ out' = None /\ chk' = ChkInit
    /\ UNCHANGED <<cfg, rf>>

(* an empty batch is ignored entirely *)
EmptyBatch == cfg.batch /\ UNCHANGED vars

Next ==
    \/ \E p \in Classes(cfg), dt \in 0..MaxDt : Point(p, dt)
    \/ \E n \in 1..MaxBatch :
         \E ps \in [1..n -> Classes(cfg)], gaps \in [2..n -> BatchGaps], dt \in 0..MaxBDt, g \in BatchGaps :
            Batch(ps, dt, gaps, g)
    \/ EmptyBatch
    \/ Restart

Spec == Init /\ [][Next]_vars

(***************************************************************************)
(* Properties.                                                               *)
(***************************************************************************)
TypeOK ==
    /\ cfg \in Configs
    /\ im.idx \in 1..cfg.H
    /\ \A i \in 1..cfg.H : im.hist[i] \in 0..3
    /\ im.first \in -1..MaxAge /\ im.last \in -1..MaxAge
    /\ rf.lvl \in 0..3
    /\ out = None \/ (out[1] \in 0..3 /\ out[2] \in 0..MaxAge /\ out[3] \in -1..MaxAge)

(* The level the code keeps for the ID is the documented one, and every     *)
(* event carries it.                                                         *)
LevelRule == ImplLevel(im) = rf.lvl /\ chk.level
(* An event is emitted exactly when the documented machine says so.          *)
EmitIff == chk.emit
(* Every event carries the trigger time and duration = time since the ID     *)
(* last left OK.                                                             *)
EventCarries == chk.carries
(* Impl => Ref for non-flapping configurations: Ref allows exactly one       *)
(* output there and Impl produces it.                                        *)
ImplRefinesRef ==
    ~cfg.flap => (chk.det /\ chk.level /\ chk.emit /\ chk.carries /\ ImplLevel(im) = rf.lvl /\ Cardinality(rf.left) = 1)

(* Weaker forms used where a deviation is under triage.                      *)
EventCarriesNoFlap == ~cfg.flap => chk.carries

(* The two formulations of the level rule agree on every input.              *)
LevelRuleStatic ==
    \A c \in Configs : \A cur \in { l \in 0..3 : l = 0 \/ c.has[l] } : \A p \in Classes(c) :
        CodeLevel(c, cur, p) = DocLevel(c, cur, p)

(* The documented worked example (pipeline/alert.go): thresholds            *)
(* info>60 reset<50, warn>70 reset<60, crit>80 reset<70 on                   *)
(* 61 73 64 85 62 56 47 give INFO WARNING WARNING CRITICAL INFO INFO OK.     *)
DocExampleCfg ==
    MkCfg(<<TRUE, TRUE, TRUE>>, <<TRUE, TRUE, TRUE>>, FALSE, 0, FALSE, FALSE, FALSE, 0, 0, 2, FALSE)
DocClass(v) == [c |-> <<v > 60, v > 70, v > 80>>, r |-> <<v < 50, v < 60, v < 70>>]
DocExampleValues == <<61, 73, 64, 85, 62, 56, 47>>
LevelsOf(L(_, _, _), vals) ==
    LET f[i \in 0..Len(vals)] ==
            IF i = 0 THEN <<>>
            ELSE Append(f[i - 1], L(DocExampleCfg, IF i = 1 THEN 0 ELSE f[i - 1][i - 1], DocClass(vals[i])))
    IN  f[Len(vals)]
ASSUME LevelsOf(DocLevel, DocExampleValues) = <<1, 2, 2, 3, 1, 1, 0>>
ASSUME LevelsOf(CodeLevel, DocExampleValues) = <<1, 2, 2, 3, 1, 1, 0>>

(* Flapping thresholds of the explored configurations never sit exactly on  *)
(* a reachable value of the weighted percentage (the code uses floats).      *)
FlapNoBoundary ==
    \A c \in { x \in Configs : x.flap } :
        LET q == (c.H - 1) * (c.H - 1)
            SumW(S) == LET f[k \in 0..(c.H - 1)] ==
                               IF k = 0 THEN 0
                               ELSE f[k - 1] + (IF (k - 1) \in S THEN 8 * (c.H - 1) + 4 * (k - 1) ELSE 0)
                       IN f[c.H - 1]
            vals == { 10 * SumW(S) : S \in SUBSET (0..(c.H - 2)) }
        IN  /\ c.flo > 0
            /\ \A v \in vals : v # c.flo * q /\ v # c.fhi * q
=============================================================================
