----------------------------- MODULE AlertNode -----------------------------
(***************************************************************************)
(* C01 - alert level / recovery state machine of kapacitor's AlertNode      *)
(* (alert.go: determineLevel, alertState.Point / BufferedBatch, addEvent,    *)
(* triggered, updateFlapping, updateExpired; documentation in               *)
(* pipeline/alert.go).                                                       *)
(*                                                                           *)
(* Two machines run in lockstep on the same input, for ONE alert ID (the     *)
(* other IDs of the node appear only as the environment action Other):       *)
(*   Impl  - the algorithm as the code runs it: history ring + index,        *)
(*           changed / expired / flapping flags, firstTriggered /            *)
(*           lastTriggered, the stream emission test (action Point) and the  *)
(*           batch emission test (action Batch), the per-group copies of     *)
(*           the reset expressions (a stateful reset "count() >= k"), and    *)
(*           the two deliveries of an event: to the anonymous topic of the   *)
(*           inline handlers and to the named topic.                         *)
(*   Ref   - what the property and the documentation promise: the level      *)
(*           rule, "event iff not OK or just recovered", the                 *)
(*           state-changes-only / interval and no-recoveries filters, and    *)
(*           duration = time since the ID last left OK.  Ref is a JUDGE: it  *)
(*           is given the observed output and says whether the documented    *)
(*           machine allows it (RefJudge).  Without flapping exactly one     *)
(*           output is allowed; with flapping() the documentation does not   *)
(*           fix the weighting, so suppression of a NON-OK event is allowed  *)
(*           whenever the recorded history contains a state change.  A       *)
(*           return to OK is always due: a withheld recovery is never made   *)
(*           up for (the following OK points are unchanged and silent).      *)
(*                                                                           *)
(* Time.  `clock` is the time of the last processed point (stream) or the    *)
(* last batch's tmax.  All remembered timestamps are kept as AGES relative   *)
(* to clock, capped at MaxAge, so the state space is finite for unbounded    *)
(* input sequences; trace validation uses a huge MaxAge.                     *)
(***************************************************************************)
EXTENDS Integers, Sequences, FiniteSets, TLC

CONSTANTS
    Configs,    \* set of configuration records explored (MkCfg)
    MaxAge,     \* cap for ages and durations
    MaxDt,      \* stream: time advance per point 0..MaxDt
    MaxBDt,     \* batch: gap between the previous tmax and the first point 0..MaxBDt
    BatchGaps,  \* batch: time between consecutive points of a batch, and from the last point to tmax
    MaxBatch,   \* batch: 1..MaxBatch points
    QCap,       \* capacity of the inline handlers' event queue (anonymous topic)
    Variant     \* {} = Impl as the code is.  Named deviations, each kept so that a run can show
                \* the counterexample of the invariant it breaks (the invariant is not vacuous):
                \*  "first-triggered-only-when-triggered"  code before fix c143191: only triggered()
                \*        set firstTriggered (stale start after a flapping-suppressed entry)
                \*  "restore-from-event-time"  code before fix 06befa5: a restored alertState starts
                \*        its episode at the last event's time instead of time - duration
                \*  "batch-uses-stream-trigger"  the batch form shares the stream's emission test
                \*        (a recovery during flapping is withheld in batch form too)
                \*  "shared-reset-state"  the reset expressions are evaluated on the node's shared
                \*        copy: their state is shared by all alert IDs of the node
                \*  "stop-at-first-collect-error"  an error collecting for the anonymous topic
                \*        keeps the event from the named topic
                \*  "erroring-reset-holds"  a reset condition that fails to evaluate holds the level

Is(v) == v \in Variant
RestoreKeepsEpisodeStart == ~Is("restore-from-event-time")
LeaveOKStartsDuration == ~Is("first-triggered-only-when-triggered")

VARIABLES
    cfg,        \* the configuration (chosen in Init, constant afterwards)
    im,         \* Impl state of the ID (mirrors alertState)
    rf,         \* Ref state of the ID
    out,        \* output of the last step: None or <<level, eage, duration>>
    chk,        \* verdict of RefJudge on the last step
    aq,         \* backlog of the inline handlers' queue (events collected, not yet handled)
    dl          \* deliveries of the last step's event: [anon, named]

vars == <<cfg, im, rf, out, chk, aq, dl>>

None   == <<>>
NoTime == -1    \* Go's zero time.Time: "never set"
SatDur == -1    \* a duration measured from the zero time (saturates in Go)

SetMax(S) == CHOOSE x \in S : \A y \in S : y <= x
SetMin(S) == CHOOSE x \in S : \A y \in S : x <= y
Range(s)  == { s[i] : i \in DOMAIN s }
Min2(a, b) == IF a < b THEN a ELSE b

CapAge(x)  == IF x > MaxAge THEN MaxAge ELSE x
Adv(a, d)  == IF a = NoTime THEN NoTime ELSE CapAge(a + d)

(***************************************************************************)
(* Configuration.  has[l] / rst[l]: level l (1 INFO, 2 WARNING, 3 CRITICAL)  *)
(* has a condition / a reset condition.  rk[l] > 0: the reset condition of   *)
(* level l is the STATEFUL lambda "count() >= rk[l]" (count() counts the     *)
(* evaluations of that expression); rk[l] = 0: it is a stateless predicate   *)
(* of the point.  sco: stateChangesOnly, scod its interval (0 = none).       *)
(* flo/fhi: flapping thresholds in percent.  inline: the node has inline     *)
(* handlers (anonymous topic) besides its named topic.  errs: points on      *)
(* which a level or reset lambda FAILS to evaluate (missing field, wrong     *)
(* type) are part of the input alphabet.                                     *)
(***************************************************************************)
MkCfg(has, rst, sco, scod, norec, all, flap, flo, fhi, H, batch) ==
    [has |-> has, rst |-> rst, sco |-> sco, scod |-> scod, norec |-> norec, all |-> all,
     flap |-> flap, flo |-> flo, fhi |-> fhi, H |-> H, batch |-> batch,
     rk |-> <<0, 0, 0>>, inline |-> FALSE, errs |-> FALSE]
WithRK(c, rk) == [c EXCEPT !.rk = rk]
WithErrs(c) == [c EXCEPT !.errs = TRUE]
WithInline(c) == [c EXCEPT !.inline = TRUE]

HasReset(c, l) == l > 0 /\ c.has[l] /\ c.rst[l]
Stateful(c, l) == HasReset(c, l) /\ c.rk[l] > 0
AnyStateful(c) == \E l \in 1..3 : Stateful(c, l)

(* Stateful resets are explored where every step at a non-OK level emits an *)
(* event (then the judge can follow the observed level where the documented *)
(* evaluation policy leaves the count open): stream, no filters.             *)
ConfigOK(c) ==
    /\ \A l \in 1..3 : (c.rst[l] => c.has[l]) /\ (c.rk[l] > 0 => c.rst[l])
    /\ AnyStateful(c) => (~c.batch /\ ~c.sco /\ ~c.norec /\ ~c.flap)
    /\ c.all => c.batch

(* A point class: truth of the three level lambdas and the three reset     *)
(* lambdas on that point.  Only stateless lambdas that exist in the          *)
(* configuration vary (the others are never evaluated / do not read the      *)
(* point).                                                                   *)
(* ce[l] / re[l]: evaluating the level / reset lambda of level l on the     *)
(* point is an ERROR (c[l] / r[l] are then FALSE).  As the code has it: an   *)
(* erroring level condition "does not hold" (the error is reported, the      *)
(* search continues), an erroring reset condition does not hold the level    *)
(* (the error is reported, the level comes from the level conditions alone). *)
NoErr == [l \in 1..3 |-> FALSE]
Classes(c) ==
    { [c |-> cc, r |-> rr, ce |-> ee, re |-> ff] :
        cc \in { x \in [1..3 -> BOOLEAN] : \A l \in 1..3 : ~c.has[l] => ~x[l] },
        rr \in { x \in [1..3 -> BOOLEAN] : \A l \in 1..3 : (~HasReset(c, l) \/ Stateful(c, l)) => ~x[l] },
        ee \in { x \in [1..3 -> BOOLEAN] : \A l \in 1..3 : x[l] => (c.errs /\ c.has[l]) },
        ff \in { x \in [1..3 -> BOOLEAN] : \A l \in 1..3 : x[l] => (c.errs /\ HasReset(c, l) /\ ~Stateful(c, l)) } }
    \ { q \in [c : [1..3 -> BOOLEAN], r : [1..3 -> BOOLEAN], ce : [1..3 -> BOOLEAN], re : [1..3 -> BOOLEAN]] :
            \E l \in 1..3 : (q.ce[l] /\ q.c[l]) \/ (q.re[l] /\ q.r[l]) }
Holds(p, l)  == p.c[l] /\ ~p.ce[l]          \* the level condition of l holds on p
Passes(p, l) == p.r[l] \/ p.re[l]           \* the (stateless) reset condition of l lets the level drop

ZeroCnt == [l \in 1..3 |-> 0]
(***************************************************************************)
(* The level rule.                                                           *)
(***************************************************************************)
Sat(c, p)      == { l \in 1..3 : c.has[l] /\ Holds(p, l) }
Up(c, cur, p)  == { l \in Sat(c, p) : l >= cur }
Lower(c, cur, p) == LET d == { l \in Sat(c, p) : l < cur } IN IF d = {} THEN 0 ELSE SetMax(d)
(* the reset condition of the current level is consulted: nothing at or     *)
(* above the current level is satisfied and the level has a reset condition  *)
Gate(c, cur, p) == Up(c, cur, p) = {} /\ HasReset(c, cur)

(* Documented, stateless resets: highest satisfied level at or above the    *)
(* current one; else stay if the current level's reset condition is          *)
(* configured and false; else the highest satisfied level below; else OK.    *)
DocLevel(c, cur, p) ==
    IF Up(c, cur, p) # {} THEN SetMax(Up(c, cur, p))
    ELSE IF HasReset(c, cur) /\ ~Passes(p, cur) THEN cur
    ELSE Lower(c, cur, p)

(* Documented, with a stateful reset: the SET of admissible levels.  "Each  *)
(* expression maintains its own state ... For each point an expression may   *)
(* or may not be evaluated": the count of the ID's own reset expression is   *)
(* at least the number of times it had to be consulted (lo) and at most the  *)
(* number of the ID's own points (hi) - never anything of another ID.        *)
DocLevelSet(c, cur, p, lo, hi) ==
    IF Up(c, cur, p) # {} THEN { SetMax(Up(c, cur, p)) }
    ELSE IF ~HasReset(c, cur) THEN { Lower(c, cur, p) }
    ELSE LET mayHold == IF Stateful(c, cur) THEN lo[cur] + 1 < c.rk[cur] ELSE ~Passes(p, cur)
             mayPass == IF Stateful(c, cur) THEN hi[cur] + 1 >= c.rk[cur] ELSE Passes(p, cur)
         IN  (IF mayHold THEN {cur} ELSE {}) \cup (IF mayPass THEN { Lower(c, cur, p) } ELSE {})

(* As coded: findFirstMatchLevel(start, stop) scans start, start-1, ...,    *)
(* stop+1 with stop clamped to OK; determineLevel = upward search over       *)
(* Critical..current, reset gate, downward search from current.  cnt is the  *)
(* state of the reset expressions this alertState evaluates (count()).       *)
FindFirst(c, start, stop, p) ==
    LET s == IF stop < 0 THEN 0 ELSE stop
        m == { l \in (s + 1)..start : c.has[l] /\ Holds(p, l) }
    IN  IF m = {} THEN <<0, FALSE>> ELSE <<SetMax(m), TRUE>>

CodeLevelS(c, cur, p, cnt) ==
    LET a == FindFirst(c, 3, cur - 1, p)
        b == FindFirst(c, cur, 0, p)
        down == IF b[2] THEN b[1] ELSE 0
    IN  IF a[2] THEN <<a[1], cnt>>
        ELSE IF ~HasReset(c, cur) THEN <<down, cnt>>
        ELSE LET n    == cnt[cur] + 1
                 pass == IF Stateful(c, cur) THEN n >= c.rk[cur]
                         ELSE IF Is("erroring-reset-holds") THEN p.r[cur] ELSE Passes(p, cur)
                 cnt2 == IF Stateful(c, cur) THEN [cnt EXCEPT ![cur] = Min2(n, c.rk[cur])] ELSE cnt
             IN  IF pass THEN <<down, cnt2>> ELSE <<cur, cnt2>>

CodeLevel(c, cur, p) == CodeLevelS(c, cur, p, ZeroCnt)[1]

(***************************************************************************)
(* Impl: alertState.                                                         *)
(***************************************************************************)
ImplInit(c) ==
    [hist |-> [i \in 1..c.H |-> 0], idx |-> 1, changed |-> FALSE, expired |-> FALSE,
     flapping |-> FALSE, first |-> NoTime, last |-> NoTime, rcnt |-> ZeroCnt]

ImplLevel(s) == s.hist[s.idx]

(* percentChange(), in integers.  The code walks i = 0..H-2 over ring        *)
(* positions idx+i (so the second comparison is "oldest against newest"),    *)
(* weight_i = 0.8 + i*0.4/(H-1), result = sum/(H-1).  Scaled by 10*(H-1)^2:  *)
(* P = sum of 8(H-1)+4i over changed positions;  p > x% <=> 10 P > x (H-1)^2 *)
PrevIdx(H, i) == IF i = 1 THEN H ELSE i - 1
PctScaled(H, hist, idx) ==
    LET pos(i) == ((idx - 1 + i) % H) + 1
        w(i)   == IF hist[pos(i)] # hist[PrevIdx(H, pos(i))] THEN 8 * (H - 1) + 4 * i ELSE 0
        sum[i \in 0..(H - 2)] == IF i = 0 THEN w(0) ELSE sum[i - 1] + w(i)
    IN  10 * sum[H - 2]

UpdateFlapping(c, hist, idx, was) ==
    IF ~c.flap THEN was
    ELSE LET P == PctScaled(c.H, hist, idx)
             q == (c.H - 1) * (c.H - 1)
         IN  IF was /\ P < c.flo * q THEN FALSE
             ELSE IF ~was /\ P > c.fhi * q THEN TRUE
             ELSE was

(* The two emission tests.  supp = held back by flapping or by              *)
(* stateChangesOnly (unchanged and interval not elapsed).                    *)
(* alertState.Point: everything is held back while suppressed.               *)
StreamTrigger(lv, changed, supp) == ~supp /\ (lv # 0 \/ changed)
(* alertState.BufferedBatch: a recovery is sent unconditionally, a non-OK    *)
(* event unless suppressed.                                                  *)
BatchTrigger(lv, changed, supp)  == (changed /\ lv = 0) \/ (lv # 0 /\ ~supp)

(* One evaluated level lv at event time t, with d1 = t - clock and           *)
(* d2 = clock' - t: addEvent; emission test; triggered; duration.            *)
ImplEvent(c, s, lv, d1, d2, batchForm, cnt2) ==
    LET first1  == Adv(s.first, d1)
        last1   == Adv(s.last, d1)
        changed == s.hist[s.idx] # lv
        idx2    == (s.idx % c.H) + 1
        hist2   == [s.hist EXCEPT ![idx2] = lv]
        flap2   == UpdateFlapping(c, hist2, idx2, s.flapping)
        expired == ~changed /\ c.scod # 0 /\ (last1 = NoTime \/ last1 >= c.scod)
        supp    == (c.flap /\ flap2) \/ (c.sco /\ ~changed /\ ~expired)
        trig    == IF batchForm /\ ~Is("batch-uses-stream-trigger")
                   THEN BatchTrigger(lv, changed, supp)
                   ELSE StreamTrigger(lv, changed, supp)
        \* addEvent(t): leaving OK starts the duration, whether or not the event is triggered
        \* (before fix c143191 only triggered() set firstTriggered, so an entry into non-OK
        \* suppressed by flapping left a stale / zero start time behind)
        firstA  == IF LeaveOKStartsDuration /\ s.hist[s.idx] = 0 /\ lv # 0 THEN 0 ELSE first1
        \* triggered(t): firstTriggered is (re)set if the previous history entry is OK
        first2  == IF trig /\ hist2[PrevIdx(c.H, idx2)] = 0 THEN 0 ELSE firstA
        last2   == IF trig THEN 0 ELSE last1
        emit    == trig /\ ~(c.norec /\ lv = 0)
        dur     == IF first2 = NoTime THEN SatDur ELSE first2
    IN  [st  |-> [hist |-> hist2, idx |-> idx2, changed |-> changed, expired |-> expired,
                  flapping |-> flap2, first |-> Adv(first2, d2), last |-> Adv(last2, d2), rcnt |-> cnt2],
         out |-> IF emit THEN <<lv, d2, dur>> ELSE None]

(* Task restart while the daemon keeps running (restoreEventState): the new   *)
(* alertState starts from what the topic remembers for the ID - the level   *)
(* and time of the last delivered event - as addEvent(level) followed by     *)
(* triggered(event time); the start of the episode is the event's time       *)
(* minus its duration.  Modelled where the topic's memory is the true state: *)
(* no flapping and recoveries delivered (then the last delivered level is    *)
(* the current level and lastTriggered is the last event's time), and no     *)
(* stateful reset (a new alertState gets fresh expression copies).           *)
CanRestart(c) == ~c.flap /\ ~c.norec /\ ~AnyStateful(c)
ImplRestore(c, s) ==
    LET cur == ImplLevel(s)
    IN  IF cur = 0 THEN ImplInit(c)
        ELSE [hist |-> [i \in 1..c.H |-> IF i = 2 THEN cur ELSE 0], idx |-> 2, changed |-> TRUE,
              expired |-> FALSE, flapping |-> FALSE,
              first |-> IF RestoreKeepsEpisodeStart THEN s.first ELSE s.last,
              last |-> s.last, rcnt |-> ZeroCnt]

(* A batch is a non-empty sequence of [c, r, off] (off = time - clock,      *)
(* non-decreasing) and tmx = tmax - clock.  A stream point is the batch      *)
(* <<p>> with tmx = p.off.                                                   *)
ImplStream(c, s, p) ==
    LET lc == CodeLevelS(c, ImplLevel(s), p, s.rcnt)
    IN  ImplEvent(c, s, lc[1], p.off, 0, FALSE, lc[2])

(* BufferedBatch: every point's level against the level at batch start      *)
(* (stateful resets are not explored in batch form: ConfigOK).               *)
ImplBatch(c, s, pts, tmx) ==
    LET cur   == ImplLevel(s)
        plv   == [i \in DOMAIN pts |-> CodeLevelS(c, cur, pts[i], s.rcnt)[1]]
        hi    == SetMax(Range(plv))
        lo    == SetMin(Range(plv))
        hiIdx == SetMin({ i \in DOMAIN pts : plv[i] = hi })   \* first point at the highest level
        lv    == IF c.all THEN lo ELSE hi
        toff  == IF c.all \/ lv = 0 THEN tmx ELSE pts[hiIdx].off
    IN  ImplEvent(c, s, lv, toff, tmx - toff, TRUE, s.rcnt)

(***************************************************************************)
(* Ref: the documented machine as a judge of an observed output.             *)
(*   lvl      current level of the ID                                        *)
(*   win      the last H levels (recorded history, initially all OK)         *)
(*   left     SET of possible ages of the time the ID last left OK: one      *)
(*            element, except after a batch whose event was suppressed       *)
(*            (flapping) - then every admissible event time of that batch    *)
(*            is a candidate until an observed duration narrows it down      *)
(*   lastOld/lastNew  oldest / newest possible age of "the last alert" (they *)
(*            differ only after a withheld recovery that flapping may or     *)
(*            may not have suppressed)                                       *)
(*   rlo/rhi  bounds of count() of the ID's own stateful reset expressions   *)
(***************************************************************************)
RefInit(c) ==
    [lvl |-> 0, win |-> [i \in 1..c.H |-> 0], left |-> {NoTime}, lastOld |-> NoTime, lastNew |-> NoTime,
     rlo |-> ZeroCnt, rhi |-> ZeroCnt]

RefJudge(c, r, pts, tmx, obs) ==
    LET useAll   == c.batch /\ c.all
        \* admissible levels of every point (singletons unless a stateful reset is consulted)
        S        == [i \in DOMAIN pts |-> DocLevelSet(c, r.lvl, pts[i], r.rlo, r.rhi)]
        Agg(f)   == IF useAll THEN SetMin(Range(f)) ELSE SetMax(Range(f))
        lvs      == IF \A i \in DOMAIN pts : Cardinality(S[i]) = 1
                    THEN { Agg([i \in DOMAIN pts |-> CHOOSE x \in S[i] : TRUE]) }
                    ELSE { Agg(f) : f \in { g \in [DOMAIN pts -> 0..3] : \A i \in DOMAIN pts : g[i] \in S[i] } }
        \* where the count leaves the level open the judge follows the observed level
        lv       == IF obs # None /\ obs[1] \in lvs THEN obs[1] ELSE SetMax(lvs)
        changed  == lv # r.lvl
        win2     == [i \in 1..c.H |-> IF i < c.H THEN r.win[i + 1] ELSE lv]
        steady   == \A i \in 1..c.H : win2[i] = lv
        \* admissible event times: a point that has the event's level; the batch time
        \* as well for all() and for OK events (no single triggering point)
        trigOffs == { pts[i].off : i \in { j \in DOMAIN pts : lv \in S[j] } }
        cands    == IF lv # 0 /\ ~useAll THEN trigOffs ELSE trigOffs \cup {tmx}
        \* not OK, or just returned to OK
        base     == lv # 0 \/ changed
        withheld == c.norec /\ lv = 0
        recovery == changed /\ lv = 0 /\ ~withheld
        elMay(e)  == r.lastOld = NoTime \/ Adv(r.lastOld, e) >= c.scod
        elMust(e) == r.lastNew = NoTime \/ Adv(r.lastNew, e) >= c.scod
        mayEmit(e)  == base /\ ~withheld /\ (~c.sco \/ changed \/ (c.scod > 0 /\ elMay(e)))
        \* flapping may hold back a non-OK event while the recorded history contains a state
        \* change; a return to OK is always due
        mustEmit(e) == base /\ ~withheld /\ (~c.sco \/ changed \/ (c.scod > 0 /\ elMust(e)))
                       /\ (~c.flap \/ steady \/ recovery)
        leaving  == r.lvl = 0 /\ lv # 0
        \* event time used when nothing was observed: the code's choice
        defOff   == IF useAll \/ lv = 0 \/ trigOffs = {} THEN tmx ELSE SetMin(trigOffs)
        e        == IF obs = None THEN defOff ELSE tmx - obs[2]
        DurOf(a) == IF a = NoTime THEN SatDur ELSE a
        expDurs  == IF leaving THEN {0} ELSE { DurOf(Adv(a, e)) : a \in r.left }
        emitOK   == IF obs = None THEN \E x \in cands : ~mustEmit(x) ELSE mayEmit(e)
        levelOK  == obs # None => obs[1] \in lvs
        carryOK  == obs # None => (e \in cands /\ obs[3] \in expDurs)
        maybeTrig == obs = None /\ withheld /\ changed
        left2    == IF leaving
                    THEN IF obs # None THEN { CapAge(tmx - e) } ELSE { CapAge(tmx - x) : x \in cands }
                    ELSE LET keep == IF obs # None /\ obs[3] \in expDurs
                                     THEN { a \in r.left : DurOf(Adv(a, e)) = obs[3] }
                                     ELSE r.left
                         IN  { Adv(a, tmx) : a \in keep }
        \* count() bounds: every point of the ID may evaluate any of its expressions once,
        \* a point at the gate must evaluate the current level's reset
        nGate    == Cardinality({ i \in DOMAIN pts : Gate(c, r.lvl, pts[i]) })
        rhi2     == [k \in 1..3 |-> IF Stateful(c, k) THEN Min2(r.rhi[k] + Len(pts), c.rk[k]) ELSE 0]
        rlo2     == [k \in 1..3 |-> IF Stateful(c, k) /\ k = r.lvl THEN Min2(r.rlo[k] + nGate, c.rk[k]) ELSE r.rlo[k]]
    IN  [st  |-> [lvl |-> lv, win |-> win2,
                  left    |-> left2,
                  lastOld |-> IF obs # None THEN CapAge(tmx - e) ELSE Adv(r.lastOld, tmx),
                  lastNew |-> IF obs # None THEN CapAge(tmx - e)
                              ELSE IF maybeTrig THEN 0 ELSE Adv(r.lastNew, tmx),
                  rlo |-> rlo2, rhi |-> rhi2],
         chk |-> [level |-> levelOK, emit |-> emitOK, carries |-> carryOK,
                  \* exactly one output allowed?
                  det |-> (Cardinality(lvs) = 1 /\ \A x \in cands : mayEmit(x) = mustEmit(x)),
                  \* a return to OK that has to be reported is not: the stream form's known
                  \* deviation when the code-shaped flapping flag is set (decided by the caller)
                  kf |-> FALSE],
         recovery |-> recovery]

ChkInit == [level |-> TRUE, emit |-> TRUE, carries |-> TRUE, det |-> TRUE, kf |-> FALSE]

(* KNOWN FINDING stream-flapping-recovery-withheld: alertState.Point holds  *)
(* back everything while flapping, also the return to OK, and never makes up *)
(* for it.  Exactly that class: stream form, flapping configured, the        *)
(* code-shaped flapping flag set at this step, a due recovery, no event.     *)
StreamFlappingRecoveryWithheld(c, implSt, obs, recoveryDue) ==
    ~c.batch /\ c.flap /\ implSt.flapping /\ obs = None /\ recoveryDue

(***************************************************************************)
(* Delivery of an event: handleEvent collects it for the anonymous topic of  *)
(* the inline handlers (a bounded queue per handler: a full queue is an      *)
(* error for the collector, the event is dropped for that handler) and,      *)
(* independently, for the named topic.                                       *)
(***************************************************************************)
NoDl == [anon |-> "none", named |-> FALSE]
Deliver(c, q, emitted) ==
    IF ~emitted THEN [aq |-> q, dl |-> NoDl]
    ELSE IF ~c.inline THEN [aq |-> q, dl |-> [anon |-> "none", named |-> TRUE]]
    ELSE IF q < QCap THEN [aq |-> q + 1, dl |-> [anon |-> "queued", named |-> TRUE]]
    ELSE [aq |-> q, dl |-> [anon |-> "dropped", named |-> ~Is("stop-at-first-collect-error")]]

(***************************************************************************)
(* The lockstep specification.                                               *)
(***************************************************************************)
Init ==
    /\ cfg \in Configs
    /\ im = ImplInit(cfg)
    /\ rf = RefInit(cfg)
    /\ out = None
    /\ chk = ChkInit
    /\ aq = 0
    /\ dl = NoDl

Step(i, pts, tmx) ==
    LET j == RefJudge(cfg, rf, pts, tmx, i.out)
        d == Deliver(cfg, aq, i.out # None)
    IN  /\ im' = i.st
        /\ out' = i.out
        /\ rf' = j.st
        /\ chk' = [j.chk EXCEPT !.kf = StreamFlappingRecoveryWithheld(cfg, i.st, i.out, j.recovery)]
        /\ aq' = d.aq /\ dl' = d.dl
        /\ UNCHANGED cfg

(* alertState.Point *)
Point(p, dt) ==
    /\ ~cfg.batch
    /\ LET pt == [c |-> p.c, r |-> p.r, ce |-> p.ce, re |-> p.re, off |-> dt]
       IN  Step(ImplStream(cfg, im, pt), <<pt>>, dt)

(* alertState.BufferedBatch.  Offsets: first point at dt, the following     *)
(* ones a gap later, tmax a gap after the last point.                        *)
Batch(ps, dt, gaps, g) ==
    /\ cfg.batch
    /\ LET n   == Len(ps)
           off[i \in 1..n] == IF i = 1 THEN dt ELSE off[i - 1] + gaps[i]
           pts == [i \in 1..n |-> [c |-> ps[i].c, r |-> ps[i].r, ce |-> ps[i].ce, re |-> ps[i].re, off |-> off[i]]]
           tmx == off[n] + g
       IN  Step(ImplBatch(cfg, im, pts, tmx), pts, tmx)

(* The documented machine knows nothing of task restarts: Ref continues.      *)
Restart ==
    /\ CanRestart(cfg)
    /\ im' = ImplRestore(cfg, im)
    /\ out' = None /\ chk' = ChkInit /\ dl' = NoDl
    /\ UNCHANGED <<cfg, rf, aq>>

(* an empty batch is ignored entirely *)
EmptyBatch == cfg.batch /\ UNCHANGED vars

(* ANOTHER alert ID of the same node consults its reset condition of level   *)
(* l.  Every alertState has its own copies of the expressions, so nothing of *)
(* this ID changes - unless the state of the expression is shared.           *)
Other(l) ==
    /\ Stateful(cfg, l)
    /\ im' = IF Is("shared-reset-state")
             THEN [im EXCEPT !.rcnt[l] = Min2(@ + 1, cfg.rk[l])]
             ELSE im
    /\ UNCHANGED <<cfg, rf, out, chk, aq, dl>>

(* an inline handler finishes an event (a slow or stuck one rarely/never does) *)
AnonHandlerStep ==
    /\ cfg.inline /\ aq > 0
    /\ aq' = aq - 1
    /\ UNCHANGED <<cfg, im, rf, out, chk, dl>>

Next ==
    \/ \E p \in Classes(cfg), dt \in 0..MaxDt : Point(p, dt)
    \/ \E n \in 1..MaxBatch :
         \E ps \in [1..n -> Classes(cfg)], gaps \in [2..n -> BatchGaps], dt \in 0..MaxBDt, g \in BatchGaps :
            Batch(ps, dt, gaps, g)
    \/ EmptyBatch
    \/ Restart
    \/ \E l \in 1..3 : Other(l)
    \/ AnonHandlerStep

Spec == Init /\ [][Next]_vars

(***************************************************************************)
(* Properties.                                                               *)
(***************************************************************************)
TypeOK ==
    /\ cfg \in Configs
    /\ im.idx \in 1..cfg.H
    /\ \A i \in 1..cfg.H : im.hist[i] \in 0..3
    /\ im.first \in -1..MaxAge /\ im.last \in -1..MaxAge
    /\ \A k \in 1..3 : im.rcnt[k] \in 0..cfg.rk[k] /\ rf.rlo[k] <= rf.rhi[k] /\ rf.rhi[k] \in 0..cfg.rk[k]
    /\ rf.lvl \in 0..3
    /\ out = None \/ (out[1] \in 0..3 /\ out[2] \in 0..MaxAge /\ out[3] \in -1..MaxAge)
    /\ aq \in 0..QCap

(* The level the code keeps for the ID is the documented one - a function   *)
(* of the ID's own points only - and every event carries it.                 *)
LevelRule == ImplLevel(im) = rf.lvl /\ chk.level
(* An event is emitted exactly when the documented machine says so (but for  *)
(* the named known finding).                                                 *)
EmitIff == chk.emit \/ chk.kf
EmitIffStrict == chk.emit
(* Every event carries the trigger time and duration = time since the ID     *)
(* last left OK.                                                             *)
EventCarries == chk.carries
(* Every emitted event reaches the handlers of the named topic, whatever     *)
(* happens to the inline handlers' queue.                                    *)
NamedDelivery == out # None => dl.named
(* Impl => Ref for non-flapping configurations: Ref allows exactly one       *)
(* output there and Impl produces it.                                        *)
ImplRefinesRef ==
    (~cfg.flap /\ ~AnyStateful(cfg)) =>
        (chk.det /\ chk.level /\ chk.emit /\ chk.carries /\ ImplLevel(im) = rf.lvl /\ Cardinality(rf.left) = 1)
(* the code's count() of a reset expression stays within the documented bounds *)
CountWithinBounds == \A k \in 1..3 : Stateful(cfg, k) => (rf.rlo[k] <= im.rcnt[k] /\ im.rcnt[k] <= rf.rhi[k])

ConfigsOK == \A c \in Configs : ConfigOK(c)

(* The two formulations of the level rule agree on every input (stateless resets). *)
LevelRuleStatic ==
    \A c \in { x \in Configs : ~AnyStateful(x) } : \A cur \in { l \in 0..3 : l = 0 \/ c.has[l] } : \A p \in Classes(c) :
        /\ CodeLevel(c, cur, p) = DocLevel(c, cur, p)
        /\ DocLevelSet(c, cur, p, ZeroCnt, ZeroCnt) = { DocLevel(c, cur, p) }

(* The documented worked example (pipeline/alert.go): thresholds            *)
(* info>60 reset<50, warn>70 reset<60, crit>80 reset<70 on                   *)
(* 61 73 64 85 62 56 47 give INFO WARNING WARNING CRITICAL INFO INFO OK.     *)
DocExampleCfg ==
    MkCfg(<<TRUE, TRUE, TRUE>>, <<TRUE, TRUE, TRUE>>, FALSE, 0, FALSE, FALSE, FALSE, 0, 0, 2, FALSE)
DocClass(v) == [c |-> <<v > 60, v > 70, v > 80>>, r |-> <<v < 50, v < 60, v < 70>>, ce |-> NoErr, re |-> NoErr]
DocExampleValues == <<61, 73, 64, 85, 62, 56, 47>>
LevelsOf(L(_, _, _), vals) ==
    LET f[i \in 0..Len(vals)] ==
            IF i = 0 THEN <<>>
            ELSE Append(f[i - 1], L(DocExampleCfg, IF i = 1 THEN 0 ELSE f[i - 1][i - 1], DocClass(vals[i])))
    IN  f[Len(vals)]
ASSUME LevelsOf(DocLevel, DocExampleValues) = <<1, 2, 2, 3, 1, 1, 0>>
ASSUME LevelsOf(CodeLevel, DocExampleValues) = <<1, 2, 2, 3, 1, 1, 0>>

(* Flapping thresholds of the explored configurations never sit exactly on  *)
(* a reachable value of the weighted percentage (the code uses floats).      *)
FlapNoBoundary ==
    \A c \in { x \in Configs : x.flap } :
        LET q == (c.H - 1) * (c.H - 1)
            SumW(S) == LET f[k \in 0..(c.H - 1)] ==
                               IF k = 0 THEN 0
                               ELSE f[k - 1] + (IF (k - 1) \in S THEN 8 * (c.H - 1) + 4 * (k - 1) ELSE 0)
                       IN f[c.H - 1]
            vals == { 10 * SumW(S) : S \in SUBSET (0..(c.H - 2)) }
        IN  /\ c.flo > 0
            /\ \A v \in vals : v # c.flo * q /\ v # c.fhi * q
=============================================================================
