---------------------------- MODULE AlertNodeMC ----------------------------
(* Configuration families for the exhaustive runs of AlertNode (TLC cfg    *)
(* files cannot contain tuples/records).                                    *)
EXTENDS AlertNode

T == TRUE
F == FALSE
B3 == { <<a, b, c>> : a \in BOOLEAN, b \in BOOLEAN, c \in BOOLEAN }
AllHas == B3 \ { <<F, F, F>> }
RstFor(h) == { r \in B3 : \A l \in 1..3 : r[l] => h[l] }
NoRst == <<F, F, F>>

(* sco variants: off, on, on with interval 2 / 3 *)
Sco2 == { <<F, 0>>, <<T, 0>>, <<T, 2>> }
Sco3 == { <<F, 0>>, <<T, 0>>, <<T, 2>>, <<T, 3>> }
(* flapping variants <<low%, high%, H>> - thresholds off the reachable values (FlapNoBoundary) *)
Flap2 == { <<25, 50, 2>>, <<30, 45, 3>> }
Flap3 == { <<25, 50, 2>>, <<30, 45, 3>>, <<30, 45, 4>>, <<25, 50, 4>> }

(* 1. level / reset family: every subset of levels, every subset of resets, stream *)
FamLevels ==
    UNION { { MkCfg(h, r, F, 0, F, F, F, 0, 0, 2, F) : r \in RstFor(h) } : h \in AllHas }

(* 2. emission filters: stateChangesOnly [interval], noRecoveries, history length, stream *)
FamEmit(hs, scos, Hs) ==
    { MkCfg(h, r, s[1], s[2], nr, F, F, 0, 0, H, F) :
        h \in hs, r \in { NoRst, <<F, F, T>> }, s \in scos, nr \in BOOLEAN, H \in Hs }

(* 3. flapping, stream and batch *)
FamFlap(hs, scos, flaps, forms) ==
    { MkCfg(h, NoRst, s[1], s[2], nr, F, T, f[1], f[2], f[3], b) :
        h \in hs, s \in scos, nr \in BOOLEAN, f \in flaps, b \in forms }

(* 4. batch form with and without all() *)
FamBatch(hs, rs, scos) ==
    { MkCfg(h, r, s[1], s[2], nr, a, F, 0, 0, 2, T) :
        h \in hs, r \in rs, s \in scos, nr \in BOOLEAN, a \in BOOLEAN }

WC == <<F, T, T>>
C  == <<F, F, T>>

MCQuick ==
    FamLevels
    \cup FamEmit({C, WC}, Sco2, {2, 3})
    \cup FamBatch({C}, { NoRst, <<F, F, T>> }, Sco2)
    \cup FamBatch({WC}, { NoRst }, Sco2)

MCQuickFlap == FamFlap({C, WC}, Sco2, Flap2, {F}) \cup FamFlap({C}, Sco2, Flap2, {T})

(* 5. stateful reset conditions "count() >= k" (stream, no filters: ConfigOK) *)
Plain(h, r) == MkCfg(h, r, F, 0, F, F, F, 0, 0, 2, F)
FamStateful ==
    { WithRK(Plain(C, <<F, F, T>>), <<0, 0, 2>>),
      WithRK(Plain(C, <<F, F, T>>), <<0, 0, 3>>),
      WithRK(Plain(WC, <<F, T, T>>), <<0, 2, 0>>),       \* warn stateful, crit stateless
      WithRK(Plain(WC, <<F, T, T>>), <<0, 2, 2>>) }

(* 6. inline handlers (anonymous topic) besides the named topic, stream and batch *)
FamInline ==
    { WithInline(MkCfg(C, NoRst, s[1], s[2], nr, F, F, 0, 0, 2, b)) :
        s \in { <<F, 0>>, <<T, 0>> }, nr \in BOOLEAN, b \in BOOLEAN }

(* 7. points on which a level / reset lambda fails to evaluate, stream and batch *)
FamErrs ==
    { WithErrs(MkCfg(h, r, F, 0, F, F, F, 0, 0, 2, b)) :
        h \in { C, WC }, r \in { <<F, F, T>> }, b \in BOOLEAN }
MCErrsObs == FamErrs                             \* "erroring-reset-holds"     -> LevelRule

(* observations: named deviations of Impl (constant Variant) must break "their" invariant *)
MCRestoreObs == FamEmit({C}, Sco2, {2})         \* "restore-from-event-time"  -> EventCarries
MCBatchFlapObs == FamFlap({C}, Sco2, Flap2, {T}) \* "batch-uses-stream-trigger" -> EmitIff
MCStatefulObs == FamStateful                     \* "shared-reset-state"        -> LevelRule
MCInlineObs == FamInline                         \* "stop-at-first-collect-error" -> NamedDelivery

MCQuickAll == MCQuick \cup MCQuickFlap \cup FamStateful \cup FamInline \cup FamErrs
ASSUME QuickStatic == (Variant = {} => LevelRuleStatic) /\ FlapNoBoundary /\ ConfigsOK

ALL == <<T, T, T>>
FlapS == { <<25, 50, 2>>, <<30, 45, 3>> }
(* Without flapping the ring contents beyond previous/current do not influence behaviour but   *)
(* multiply the state count (4^H * H ring states), so long histories go with small level sets. *)
MCThorough ==
    FamLevels
    \cup FamEmit({C, WC}, Sco3, {2, 3}) \cup FamEmit({ALL}, Sco3, {2})
    \cup FamBatch({C}, { NoRst, <<F, F, T>> }, Sco3) \cup FamBatch({WC}, { NoRst }, Sco3)
    \cup FamBatch({ALL}, { NoRst }, { <<F, 0>> })

MCThoroughFlap ==
    FamFlap({C}, Sco3, Flap3, BOOLEAN)
    \cup FamFlap({WC}, Sco3, FlapS, {F}) \cup FamFlap({ALL}, Sco2, { <<25, 50, 2>> }, {F})
    \cup FamFlap({WC}, Sco2, { <<25, 50, 2>> }, {T})
MCThoroughAll == MCThorough \cup MCThoroughFlap \cup FamStateful \cup FamInline \cup FamErrs
=============================================================================
