-------------------------- MODULE AlertNodeTrace --------------------------
(***************************************************************************)
(* Trace specification for AlertNode (driver c01).  One trace = one alert   *)
(* ID of one real task:                                                      *)
(*   {"ev":"Reset","id":..,"setup":{..cfg..}}                                      *)
(*   {"ev":"S","pts":[{"c":[b,b,b],"r":[b,b,b],"t":k}..],"tmax":k,          *)
(*    "o":[[level,time,duration,pointIdx,previousLevel,msgOK,recoverable]..] *)
(*                      events a handler on the topic saw for this step,     *)
(*    "oid":[id..], "nf":n, "f":[[levelField,durationField,levelTag]..],     *)
(*    "fid":[idField..], "ftid":[idTag..],     data forwarded downstream      *)
(*    "an":0|1}   (inline configurations) an inline handler got the event    *)
(*                                                                           *)
(* VERDICT level: every step is judged by RefJudge - the documented machine  *)
(* (level rule, emit-iff, filters, level/time/duration of every event);      *)
(* with flapping() the suppression of a non-OK event stays nondeterministic  *)
(* except where the documentation fixes it (no state change in the recorded  *)
(* history => no suppression); a return to OK is always due.  A line Ref     *)
(* cannot explain ends the trace (TRACE-REJECTED).  The one listed deviation *)
(* (KNOWN_FINDINGS.txt: stream-flapping-recovery-withheld) is a named        *)
(* disjunct guarded by exactly its input class; it prints KF-HIT.            *)
(* DRIFT level: the code-shaped machine Impl runs along; the first line      *)
(* whose output differs from Impl's prints IMPL-DRIFT (reported, never an    *)
(* alarm).                                                                   *)
(***************************************************************************)
EXTENDS AlertNode, TraceCommon

VARIABLES l, clk, drift,
          sent,     \* event ID -> level of the last event delivered for it (what the topic remembers)
          multi,    \* the trace is one GROUP whose points render several alert IDs (setup.multi)
          idm       \* multi: event ID -> [rf, clk], the documented machine run per alert ID
tvars == <<vars, l, clk, drift, sent, multi, idm>>

DefaultCfg == MkCfg(<<FALSE, FALSE, TRUE>>, <<FALSE, FALSE, FALSE>>, FALSE, 0, FALSE, FALSE, FALSE, 0, 0, 2, FALSE)

TrInit ==
    /\ l = 1 /\ HWInit
    /\ cfg = DefaultCfg /\ im = ImplInit(DefaultCfg) /\ rf = RefInit(DefaultCfg)
    /\ out = None /\ chk = ChkInit /\ clk = 0 /\ drift = FALSE /\ sent = <<>>
    /\ aq = 0 /\ dl = NoDl /\ multi = FALSE /\ idm = <<>>

Ln == Trace[l]
IsEv(e) == l <= Len(Trace) /\ Ln.ev = e /\ l' = l + 1

CfgOf(r) ==
    [MkCfg(r.has, r.rst, r.sco, r.scod, r.norec, r.all, r.flap, r.flo, r.fhi, r.H, r.batch)
        EXCEPT !.rk = Get(r, "rk", <<0, 0, 0>>), !.inline = Get(r, "inline", FALSE), !.errs = Get(r, "errs", FALSE)]

TrReset ==
    /\ IsEv("Reset")
    /\ cfg' = CfgOf(Ln.setup)
    /\ im' = ImplInit(cfg') /\ rf' = RefInit(cfg')
    /\ out' = None /\ chk' = ChkInit /\ clk' = 0 /\ drift' = FALSE /\ sent' = <<>>
    /\ aq' = 0 /\ dl' = NoDl /\ multi' = Get(Ln.setup, "multi", FALSE) /\ idm' = <<>>
    /\ ConfigOK(cfg')

(* The forwarded data is a second view of the same event: forwarded iff an   *)
(* event was sent, every forwarded point carries the event's level (field    *)
(* and tag), duration and ID (field and tag).  The event itself carries the  *)
(* ID, the level the handlers last saw for this ID as its previous level,    *)
(* the default message "<id> is <LEVEL>" and recoverable = ~noRecoveries.    *)
(* An inline handler never gets an event the named topic's handlers do not   *)
(* get (the reverse happens when the inline handlers' queue is full).        *)
(* ln.id is the ID rendered from THIS point (its measurement and tags): the   *)
(* label of an event is the ID of the point that triggered it.               *)
WellFormed(ln, n, sv) ==
    /\ Len(ln.o) <= 1
    /\ (Get(ln, "an", 0) = 1 => ln.o # <<>>)
    /\ ln.nf = Len(ln.o)
    /\ \A i \in DOMAIN ln.oid : ln.oid[i] = ln.id
    /\ \A i \in DOMAIN ln.fid : ln.fid[i] = ln.id /\ ln.ftid[i] = ln.id
    /\ IF ln.o = <<>> THEN ln.f = <<>>
       ELSE /\ Len(ln.f) = n
            /\ \A i \in DOMAIN ln.f :
                  ln.f[i][1] = ln.o[1][1] /\ ln.f[i][2] = ln.o[1][3] /\ ln.f[i][3] = ln.o[1][1]
            /\ ln.o[1][5] = sv
            /\ ln.o[1][6] = 1
            /\ ln.o[1][7] = (IF cfg.norec THEN 0 ELSE 1)

TrStep ==
    /\ IsEv("S")
    /\ LET ln == Ln
           n  == Len(ln.pts)
       IN  IF n = 0
           THEN \* an empty batch is ignored entirely
                \* (ages are relative to clk: the clock stays where the last processed batch left it)
                /\ ln.o = <<>> /\ ln.nf = 0
                /\ UNCHANGED <<vars, drift, clk, sent, multi, idm>>
           ELSE LET F3  == <<FALSE, FALSE, FALSE>>
                    pts == [i \in 1..n |-> [c |-> ln.pts[i].c, r |-> ln.pts[i].r,
                                            ce |-> Get(ln.pts[i], "ce", F3), re |-> Get(ln.pts[i], "re", F3),
                                            off |-> ln.pts[i].t - clk]]
                    tmx == ln.tmax - clk
                    obs == IF ln.o = <<>> THEN None ELSE <<ln.o[1][1], ln.tmax - ln.o[1][2], ln.o[1][3]>>
                    j   == RefJudge(cfg, rf, pts, tmx, obs)
                    i   == IF cfg.batch THEN ImplBatch(cfg, im, pts, tmx) ELSE ImplStream(cfg, im, pts[1])
                    pid == ln.id
                    wf  == WellFormed(ln, n, IF pid \in DOMAIN sent THEN sent[pid] ELSE 0)
                    \* multi: the documented machine of THIS alert ID (its own points only)
                    ist == IF pid \in DOMAIN idm THEN idm[pid] ELSE [rf |-> RefInit(cfg), clk |-> 0]
                    jI  == RefJudge(cfg, ist.rf, [k \in 1..n |-> [pts[k] EXCEPT !.off = ln.pts[k].t - ist.clk]],
                                    ln.tmax - ist.clk, obs)
                    okI == jI.chk.level /\ jI.chk.emit /\ jI.chk.carries
                    \* the listed deviation, guarded by exactly its input class (needs the
                    \* code-shaped flapping flag, so only while Impl still explains the trace)
                    kf  == ~drift /\ StreamFlappingRecoveryWithheld(cfg, i.st, obs, j.recovery)
                    okG == j.chk.level /\ j.chk.carries
                           /\ (j.chk.emit \/ (kf /\ PrintT(<<"KF-HIT", "stream-flapping-recovery-withheld">>)))
                    \* several alert IDs rendered within one group: accepted if every ID follows the
                    \* documented machine on its own points; the listed deviation is the code's ONE
                    \* state machine per group shared by those IDs (labels and previous levels per ID
                    \* are checked either way)
                    ok  == wf /\ (IF multi
                                  THEN okI \/ (okG /\ PrintT(<<"KF-HIT", "several-ids-per-group-share-state">>))
                                  ELSE okG)
                IN  /\ \/ ok
                       \/ ~ok /\ PrintT(<<"C01-REJECT", l, "wellformed", wf, j.chk, "ref-level", j.st.lvl>>) /\ FALSE
                    /\ rf' = j.st /\ chk' = [j.chk EXCEPT !.kf = kf] /\ out' = obs /\ im' = i.st
                    /\ aq' = aq
                    /\ dl' = [anon |-> IF Get(ln, "an", 0) = 1 THEN "queued" ELSE "none", named |-> obs # None]
                    /\ drift' = (drift \/ i.out # obs)
                    /\ (~drift /\ i.out # obs) => PrintT(<<"IMPL-DRIFT", l, "impl", i.out, "observed", obs>>)
                    /\ clk' = ln.tmax
                    /\ sent' = (IF obs = None THEN sent
                                ELSE [x \in DOMAIN sent \cup {pid} |-> IF x = pid THEN obs[1] ELSE sent[x]])
                    /\ multi' = multi
                    /\ idm' = (IF multi
                               THEN [x \in DOMAIN idm \cup {pid} |-> IF x = pid THEN [rf |-> jI.st, clk |-> ln.tmax] ELSE idm[x]]
                               ELSE idm)
                    /\ UNCHANGED cfg

(* The task was stopped and started again (same topic): Ref continues, Impl   *)
(* restores from what the topic remembers.                                   *)
TrRestart ==
    /\ IsEv("Restart")
    /\ CanRestart(cfg)
    /\ im' = ImplRestore(cfg, im)
    /\ UNCHANGED <<cfg, rf, out, chk, clk, drift, sent, aq, dl, multi, idm>>

TrNext == TrReset \/ TrStep \/ TrRestart
TrSpec == TrInit /\ [][TrNext]_tvars

Verdict == chk.level /\ (chk.emit \/ chk.kf) /\ chk.carries
HW == HWMark(l)
Accepted == HWAccepted
=============================================================================
