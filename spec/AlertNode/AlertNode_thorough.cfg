SPECIFICATION Spec
CONSTANTS
    Configs <- MCThoroughAll
    MaxAge = 4
    MaxDt = 2
    MaxBDt = 1
    BatchGaps = {0, 1}
    MaxBatch = 2
    QCap = 2
    Variant = {}
INVARIANTS
    TypeOK
    LevelRule
    EmitIff
    EventCarries
    NamedDelivery
    CountWithinBounds
    ImplRefinesRef
CHECK_DEADLOCK FALSE
