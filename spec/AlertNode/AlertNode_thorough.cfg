SPECIFICATION Spec
CONSTANTS
    Configs <- MCThoroughAll
    MaxAge = 4
    MaxDt = 2
    MaxBDt = 1
    LeaveOKStartsDuration = TRUE
    BatchGaps = {0, 1}
    MaxBatch = 2
INVARIANTS
    TypeOK
    LevelRule
    EmitIff
    EventCarries
    ImplRefinesRef
CHECK_DEADLOCK FALSE
