SPECIFICATION Spec
CONSTANTS
    Configs <- MCThoroughAll
    MaxAge = 5
    MaxDt = 2
    MaxBDt = 2
    LeaveOKStartsDuration = TRUE
    BatchGaps = {0, 1}
    MaxBatch = 2
INVARIANTS
    TypeOK
    LevelRule
    EmitIff
    EventCarries
    ImplRefinesRef
CHECK_DEADLOCK FALSE
