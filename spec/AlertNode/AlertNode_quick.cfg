SPECIFICATION Spec
CONSTANTS
    Configs <- MCQuickAll
    MaxAge = 3
    MaxDt = 2
    MaxBDt = 1
    BatchGaps = {1}
    MaxBatch = 2
    QCap = 2
    Variant = {}
INVARIANTS
    TypeOK
    LevelRule
    EmitIff
    EventCarries
    NamedDelivery
    CountWithinBounds
    ImplRefinesRef
CHECK_DEADLOCK FALSE
