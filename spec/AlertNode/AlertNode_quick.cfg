SPECIFICATION Spec
CONSTANTS
    Configs <- MCQuickAll
    MaxAge = 4
    MaxDt = 2
    MaxBatch = 2
INVARIANTS
    TypeOK
    LevelRule
    EmitIff
    EventCarries
    ImplRefinesRef
CHECK_DEADLOCK FALSE
