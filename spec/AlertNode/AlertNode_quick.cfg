SPECIFICATION Spec
CONSTANTS
    Configs <- MCQuickAll
    MaxAge = 3
    MaxDt = 2
    MaxBDt = 1
    RestoreKeepsEpisodeStart = TRUE
    LeaveOKStartsDuration = TRUE
    BatchGaps = {1}
    MaxBatch = 2
INVARIANTS
    TypeOK
    LevelRule
    EmitIff
    EventCarries
    ImplRefinesRef
CHECK_DEADLOCK FALSE
