SPECIFICATION Spec
CONSTANTS
    Configs <- MCRestoreObs
    MaxAge = 3
    MaxDt = 2
    MaxBDt = 1
    BatchGaps = {1}
    MaxBatch = 2
    QCap = 2
    Variant = {"restore-from-event-time"}
INVARIANTS
    TypeOK
    LevelRule
    EmitIff
    EventCarries
CHECK_DEADLOCK FALSE
