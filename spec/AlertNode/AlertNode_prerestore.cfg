SPECIFICATION Spec
CONSTANTS
    Configs <- MCRestoreObs
    MaxAge = 3
    MaxDt = 2
    MaxBDt = 1
    RestoreKeepsEpisodeStart = FALSE
    LeaveOKStartsDuration = TRUE
    BatchGaps = {1}
    MaxBatch = 2
INVARIANTS
    TypeOK
    LevelRule
    EmitIff
    EventCarries
CHECK_DEADLOCK FALSE
