---------------------------- MODULE Containment ----------------------------
(* Fault containment in a running pipeline (C05, containment half).        *)
(* Code: node.go (node.start: deferred recover / closeChildEdges /          *)
(* abortParentEdges), edge/edge.go (channel edge: open/closed/aborted),     *)
(* task_master.go (forkPoint ignores ErrAborted from a dead task's edge).   *)
(*                                                                         *)
(* Two tasks fed by the same writes: a victim with a fault at node FNode    *)
(* and a bystander.  Each task is a chain of N nodes; edge[t][i] is the     *)
(* in-edge of node i (edge[t][1] = the TaskMaster's fork edge).             *)
(* Fault kinds:                                                            *)
(*   "pointErr"  the node reports an error for that point and continues     *)
(*   "nodeErr"   runF returns an error (node failed)                        *)
(*   "panic"     panic in the node goroutine                                *)
(* Recovers = whether the deferred handler recovers a panic (the original   *)
(* code only did when err # nil, i.e. never; see the fix commit).           *)
EXTENDS Integers, Sequences, FiniteSets, TLC

CONSTANTS N, MaxPoints, Recovers, Kinds

Tasks == {"v", "b"}
Nodes == 1..N

VARIABLES
    alive,      \* the process
    nst,        \* [Tasks -> [Nodes -> {"run", "exited", "failed"}]]
    edge,       \* [Tasks -> [Nodes -> [q : Seq(Nat), st : {"open","closed","aborted"}]]]
    accepted,   \* [Tasks -> Seq(Nat)]  points forked into the task
    delivered,  \* [Tasks -> Seq(Nat)]  points that reached the task's sink (node N)
    errs,       \* [Tasks -> Nat]  point-level errors reported
    written,    \* number of points written so far
    fault,      \* [node, kind, at] the injected fault (chosen initially), at = the point number it hits (0 = at node start)
    fired       \* whether the fault has happened

vars == <<alive, nst, edge, accepted, delivered, errs, written, fault, fired>>

Open == [q |-> <<>>, st |-> "open"]
Init ==
    /\ alive = TRUE
    /\ nst = [t \in Tasks |-> [i \in Nodes |-> "run"]]
    /\ edge = [t \in Tasks |-> [i \in Nodes |-> Open]]
    /\ accepted = [t \in Tasks |-> <<>>]
    /\ delivered = [t \in Tasks |-> <<>>]
    /\ errs = [t \in Tasks |-> 0]
    /\ written = 0
    /\ fault \in [node : Nodes, kind : Kinds, at : 0..MaxPoints]
    /\ (fault.kind = "pointErr" => fault.at > 0)
    /\ fired = FALSE

(* TaskMaster.forkPoint: Collect on every task edge; ErrAborted is ignored. *)
Write ==
    /\ alive /\ written < MaxPoints
    /\ written' = written + 1
    /\ edge' = [t \in Tasks |-> [edge[t] EXCEPT ![1] =
                   IF @.st = "open" THEN [@ EXCEPT !.q = Append(@, written + 1)] ELSE @]]
    /\ accepted' = [t \in Tasks |-> IF edge[t][1].st = "open" THEN Append(accepted[t], written + 1) ELSE accepted[t]]
    /\ UNCHANGED <<alive, nst, delivered, errs, fault, fired>>

(* The deferred handler of node.start after runF returned an error (or a    *)
(* recovered panic): close the child edge, abort the parent edge.           *)
Fail(t, i, e) ==
    LET e1 == [e EXCEPT ![t][i] = [q |-> <<>>, st |-> "aborted"]]
    IN  IF i < N /\ e1[t][i+1].st = "open" THEN [e1 EXCEPT ![t][i+1].st = "closed"] ELSE e1

(* the fault fires when the victim's faulty node starts (at = 0) ... *)
FaultAtStart ==
    /\ alive /\ ~fired /\ fault.at = 0 /\ nst["v"][fault.node] = "run"
    /\ fired' = TRUE
    /\ IF fault.kind = "panic" /\ ~Recovers
         THEN alive' = FALSE /\ UNCHANGED <<nst, edge>>
         ELSE /\ nst' = [nst EXCEPT !["v"][fault.node] = "failed"]
              /\ edge' = Fail("v", fault.node, edge)
              /\ UNCHANGED alive
    /\ UNCHANGED <<accepted, delivered, errs, written, fault>>

(* ... or when it processes point number fault.at *)
Consume(t, i) ==
    /\ alive /\ nst[t][i] = "run"
    /\ edge[t][i].st # "aborted" /\ edge[t][i].q # <<>>
    /\ ~(t = "v" /\ i = fault.node /\ fault.at = 0 /\ ~fired)   \* that node never gets to run
    /\ LET p    == Head(edge[t][i].q)
           e0   == [edge EXCEPT ![t][i].q = Tail(@)]
           hit  == t = "v" /\ i = fault.node /\ ~fired /\ p = fault.at
       IN  IF hit THEN
               /\ fired' = TRUE
               /\ CASE fault.kind = "pointErr" ->
                        /\ errs' = [errs EXCEPT ![t] = @ + 1]
                        /\ edge' = e0 /\ UNCHANGED <<alive, nst, delivered>>
                    [] fault.kind = "panic" /\ ~Recovers ->
                        /\ alive' = FALSE /\ UNCHANGED <<nst, edge, delivered, errs>>
                    [] OTHER ->
                        /\ nst' = [nst EXCEPT ![t][i] = "failed"]
                        /\ edge' = Fail(t, i, e0)
                        /\ UNCHANGED <<alive, delivered, errs>>
           ELSE IF i = N THEN
               /\ delivered' = [delivered EXCEPT ![t] = Append(@, p)]
               /\ edge' = e0 /\ UNCHANGED <<alive, nst, errs, fired>>
           ELSE IF e0[t][i+1].st = "aborted" THEN
               \* Collect on the child edge returns ErrAborted: this node fails too
               /\ nst' = [nst EXCEPT ![t][i] = "failed"]
               /\ edge' = Fail(t, i, e0)
               /\ UNCHANGED <<alive, delivered, errs, fired>>
           ELSE
               /\ edge' = [e0 EXCEPT ![t][i+1].q = Append(@, p)]
               /\ UNCHANGED <<alive, nst, delivered, errs, fired>>
    /\ UNCHANGED <<accepted, written, fault>>

(* Emit returns !ok on a closed-and-drained or aborted in-edge: the node     *)
(* returns nil and its deferred handler closes the child edge.              *)
Exit(t, i) ==
    /\ alive /\ nst[t][i] = "run"
    /\ \/ edge[t][i].st = "aborted"
       \/ edge[t][i].st = "closed" /\ edge[t][i].q = <<>>
    /\ nst' = [nst EXCEPT ![t][i] = "exited"]
    /\ edge' = IF i < N /\ edge[t][i+1].st = "open" THEN [edge EXCEPT ![t][i+1].st = "closed"] ELSE edge
    /\ UNCHANGED <<alive, accepted, delivered, errs, written, fault, fired>>

(* StopTask: close the fork edge (delFork); nodes then drain and exit.       *)
StopAll ==
    /\ alive /\ written = MaxPoints
    /\ \E t \in Tasks : edge[t][1].st = "open"
    /\ edge' = [t \in Tasks |-> [edge[t] EXCEPT ![1].st = IF @ = "open" THEN "closed" ELSE @]]
    /\ UNCHANGED <<alive, nst, accepted, delivered, errs, written, fault, fired>>

Next == Write \/ FaultAtStart \/ StopAll \/ \E t \in Tasks, i \in Nodes : Consume(t, i) \/ Exit(t, i)
Fairness == WF_vars(FaultAtStart) /\ WF_vars(StopAll) /\ WF_vars(Write)
            /\ \A t \in Tasks, i \in Nodes : WF_vars(Consume(t, i)) /\ WF_vars(Exit(t, i))
Spec == Init /\ [][Next]_vars /\ Fairness

(* ------------------------------ properties ------------------------------ *)
ProcessSurvives == alive
Range(s) == { s[k] : k \in DOMAIN s }
IsPrefixOf(a, b) == Len(a) <= Len(b) /\ \A k \in DOMAIN a : a[k] = b[k]
AllExited(t) == \A i \in Nodes : nst[t][i] # "run"
(* the bystander gets every written point, in order, whatever happens to the victim *)
BystanderUnaffected ==
    /\ accepted["b"] = [k \in 1..written |-> k]
    /\ IsPrefixOf(delivered["b"], accepted["b"])
    /\ (AllExited("b") => delivered["b"] = accepted["b"])
    /\ \A i \in Nodes : nst["b"][i] # "failed"
(* a point-level fault costs exactly that point *)
PointFaultIsLocal ==
    fault.kind = "pointErr" =>
        /\ \A i \in Nodes : nst["v"][i] # "failed"
        /\ (AllExited("v") => /\ Range(delivered["v"]) = Range(accepted["v"]) \ (IF fired THEN {fault.at} ELSE {})
                              /\ errs["v"] = IF fired THEN 1 ELSE 0)
(* never deliver what was not accepted, never twice *)
NoPhantom == \A t \in Tasks : /\ Range(delivered[t]) \subseteq Range(accepted[t])
                              /\ \A a, b \in DOMAIN delivered[t] : a < b => delivered[t][a] < delivered[t][b]
(* liveness: whatever the fault, every goroutine of both tasks ends once the tasks are stopped *)
AllTerminate == <>(alive => \A t \in Tasks : AllExited(t))
=============================================================================
