SPECIFICATION Spec
CONSTANTS
    N = 3
    MaxPoints = 3
    Recovers = FALSE
    Kinds = {"pointErr", "nodeErr", "panic"}
INVARIANTS ProcessSurvives BystanderUnaffected PointFaultIsLocal NoPhantom
PROPERTIES AllTerminate
CHECK_DEADLOCK FALSE
