-------------------------- MODULE ContainmentTrace --------------------------
(* Validates fault-injection runs of the real TaskMaster (driver c05)      *)
(* against Containment: the logged Scenario fixes the fault, the model then *)
(* runs silently (all interleavings), and the logged Outcome must match one *)
(* of the model's terminal states.  Verdict level: process alive, bystander *)
(* untouched, point faults local, every goroutine gone, stop returned.      *)
EXTENDS Containment, TraceCommon

VARIABLES l, armed, race     \* armed: a Scenario was consumed and the model may run; race: the victim may be stopped early
tvars == <<vars, l, armed, race>>

Ln == Trace[l]
IsEv(e) == l <= Len(Trace) /\ Ln.ev = e /\ l' = l + 1

Idle(f) ==
    /\ alive' = TRUE
    /\ nst' = [t \in Tasks |-> [i \in Nodes |-> "run"]]
    /\ edge' = [t \in Tasks |-> [i \in Nodes |-> Open]]
    /\ accepted' = [t \in Tasks |-> <<>>]
    /\ delivered' = [t \in Tasks |-> <<>>]
    /\ errs' = [t \in Tasks |-> 0]
    /\ written' = 0
    /\ fault' = f
    /\ fired' = FALSE

NoFault == [node |-> 1, kind |-> "pointErr", at |-> MaxPoints + 1]   \* never fires
TrInit ==
    /\ alive = TRUE
    /\ nst = [t \in Tasks |-> [i \in Nodes |-> "run"]]
    /\ edge = [t \in Tasks |-> [i \in Nodes |-> Open]]
    /\ accepted = [t \in Tasks |-> <<>>]
    /\ delivered = [t \in Tasks |-> <<>>]
    /\ errs = [t \in Tasks |-> 0]
    /\ written = 0 /\ fault = NoFault /\ fired = FALSE
    /\ l = 1 /\ armed = FALSE /\ race = FALSE /\ HWInit

TrReset == IsEv("Reset") /\ Idle(NoFault) /\ armed' = FALSE /\ race' = FALSE
(* "stoprace": no fault; the victim is stopped at an arbitrary moment between writes (delFork and  *)
(* forkPoint exclude each other, so the stop is atomic w.r.t. a Write).  "share": no fault; the     *)
(* victim rewrites data it shares with the bystander, which must not notice.                       *)
FaultOf(ln) == IF ln.kind \in {"stoprace", "share"} THEN NoFault ELSE [node |-> ln.node, kind |-> ln.kind, at |-> ln.at]
TrScenario ==
    /\ IsEv("Scenario") /\ ~armed /\ Ln.n = MaxPoints
    /\ Idle(FaultOf(Ln))
    /\ armed' = TRUE /\ race' = (Ln.kind = "stoprace")

Terminal == ~alive \/ \A t \in Tasks : AllExited(t)
TrOutcome ==
    /\ IsEv("Outcome") /\ armed /\ Terminal
    /\ Ln.alive = alive
    /\ alive =>
        /\ Ln.bDelivered = delivered["b"]
        /\ Ln.vDelivered = delivered["v"]
        /\ Ln.vErrs = errs["v"]
        /\ Ln.vNodeFailed = (\E i \in Nodes : nst["v"][i] = "failed")
        /\ Ln.bNodeFailed = FALSE
        /\ Get(Ln, "bTagsOK", TRUE) = TRUE    \* the bystander never sees data the victim rewrote
        /\ Ln.writeBlocked = FALSE     \* ingestion is never blocked by a dead task (Write stays enabled) ...
        /\ Ln.bFlood = Ln.flood        \* ... and the bystander receives every further point
        /\ Ln.stopReturned = TRUE      \* AllTerminate: StopTask returns ...
        /\ Ln.leaked = 0                \* ... and no pipeline goroutine is left
    /\ armed' = FALSE
    /\ UNCHANGED <<vars, race>>

(* StopTask(victim) at any moment: its fork edge is closed, later writes no longer reach it. *)
StopVictim ==
    /\ armed /\ race /\ alive /\ edge["v"][1].st = "open"
    /\ edge' = [edge EXCEPT !["v"][1].st = "closed"]
    /\ UNCHANGED <<alive, nst, accepted, delivered, errs, written, fault, fired, l, armed, race>>

(* Definitions (driver c05define): offering a script / lambda to the daemon is an *)
(* action whose only outcomes are "task" or "error"; it never takes the process  *)
(* down, hangs, or leaves goroutines behind.                                     *)
TrDefineBatch ==
    /\ IsEv("DefineBatch") /\ ~armed /\ alive
    /\ Ln.panics = 0 /\ Ln.hangs = 0
    /\ Ln.n = Ln.tasks + Ln.errors
    /\ UNCHANGED <<vars, armed, race>>
TrGoroutines ==
    /\ IsEv("Goroutines") /\ ~armed /\ alive
    /\ Ln.after <= Ln.before + 2
    /\ UNCHANGED <<vars, armed, race>>

TrSilent == armed /\ Next /\ UNCHANGED <<l, armed, race>>

TrNext == TrReset \/ TrScenario \/ TrOutcome \/ TrDefineBatch \/ TrGoroutines \/ TrSilent \/ StopVictim
TrSpec == TrInit /\ [][TrNext]_tvars
HW == HWMark(l)
Accepted == HWAccepted
=============================================================================
