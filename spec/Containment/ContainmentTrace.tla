-------------------------- MODULE ContainmentTrace --------------------------
(* Validates fault-injection runs of the real TaskMaster (driver c05)      *)
(* against Containment: the logged Scenario fixes the fault, the model then *)
(* runs silently (all interleavings), and the logged Outcome must match one *)
(* of the model's terminal states.  Verdict level: process alive, bystander *)
(* untouched, point faults local, every goroutine gone, stop returned.      *)
EXTENDS Containment, TraceCommon

VARIABLES l, armed     \* armed: a Scenario was consumed and the model may run
tvars == <<vars, l, armed>>

Ln == Trace[l]
IsEv(e) == l <= Len(Trace) /\ Ln.ev = e /\ l' = l + 1

Idle(f) ==
    /\ alive' = TRUE
    /\ nst' = [t \in Tasks |-> [i \in Nodes |-> "run"]]
    /\ edge' = [t \in Tasks |-> [i \in Nodes |-> Open]]
    /\ accepted' = [t \in Tasks |-> <<>>]
    /\ delivered' = [t \in Tasks |-> <<>>]
    /\ errs' = [t \in Tasks |-> 0]
    /\ written' = 0
    /\ fault' = f
    /\ fired' = FALSE

NoFault == [node |-> 1, kind |-> "pointErr", at |-> MaxPoints + 1]   \* never fires
TrInit ==
    /\ alive = TRUE
    /\ nst = [t \in Tasks |-> [i \in Nodes |-> "run"]]
    /\ edge = [t \in Tasks |-> [i \in Nodes |-> Open]]
    /\ accepted = [t \in Tasks |-> <<>>]
    /\ delivered = [t \in Tasks |-> <<>>]
    /\ errs = [t \in Tasks |-> 0]
    /\ written = 0 /\ fault = NoFault /\ fired = FALSE
    /\ l = 1 /\ armed = FALSE /\ HWInit

TrReset == IsEv("Reset") /\ Idle(NoFault) /\ armed' = FALSE
TrScenario ==
    /\ IsEv("Scenario") /\ ~armed /\ Ln.n = MaxPoints
    /\ Idle([node |-> Ln.node, kind |-> Ln.kind, at |-> Ln.at])
    /\ armed' = TRUE

Terminal == ~alive \/ \A t \in Tasks : AllExited(t)
TrOutcome ==
    /\ IsEv("Outcome") /\ armed /\ Terminal
    /\ Ln.alive = alive
    /\ alive =>
        /\ Ln.bDelivered = delivered["b"]
        /\ Ln.vDelivered = delivered["v"]
        /\ Ln.vErrs = errs["v"]
        /\ Ln.vNodeFailed = (\E i \in Nodes : nst["v"][i] = "failed")
        /\ Ln.bNodeFailed = FALSE
        /\ Ln.writeBlocked = FALSE     \* ingestion is never blocked by a dead task (Write stays enabled) ...
        /\ Ln.bFlood = Ln.flood        \* ... and the bystander receives every further point
        /\ Ln.stopReturned = TRUE      \* AllTerminate: StopTask returns ...
        /\ Ln.leaked = 0                \* ... and no pipeline goroutine is left
    /\ armed' = FALSE
    /\ UNCHANGED vars

(* Definitions (driver c05define): offering a script / lambda to the daemon is an *)
(* action whose only outcomes are "task" or "error"; it never takes the process  *)
(* down, hangs, or leaves goroutines behind.                                     *)
TrDefineBatch ==
    /\ IsEv("DefineBatch") /\ ~armed /\ alive
    /\ Ln.panics = 0 /\ Ln.hangs = 0
    /\ Ln.n = Ln.tasks + Ln.errors
    /\ UNCHANGED <<vars, armed>>
TrGoroutines ==
    /\ IsEv("Goroutines") /\ ~armed /\ alive
    /\ Ln.after <= Ln.before + 2
    /\ UNCHANGED <<vars, armed>>

TrSilent == armed /\ Next /\ UNCHANGED <<l, armed>>

TrNext == TrReset \/ TrScenario \/ TrOutcome \/ TrDefineBatch \/ TrGoroutines \/ TrSilent
TrSpec == TrInit /\ [][TrNext]_tvars
HW == HWMark(l)
Accepted == HWAccepted
=============================================================================
