SPECIFICATION TrSpec
CONSTANTS
    N = 3
    MaxPoints = 3
    Recovers = TRUE
    Kinds = {"pointErr", "nodeErr", "panic"}
INVARIANTS ProcessSurvives BystanderUnaffected PointFaultIsLocal NoPhantom
CONSTRAINT HW
POSTCONDITION Accepted
CHECK_DEADLOCK FALSE
