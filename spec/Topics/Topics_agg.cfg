SPECIFICATION Spec
CONSTANTS
    TopicOrder <- MCTopicOrder
    IdOrder <- MCIdOrderAgg
    Handlers = {"h1", "h2"}
    Publishers = {"p1"}
    MaxCollects = 2
    MaxRegOps = 2
INVARIANTS
    TypeOK
    TopicLevelIsMax
    EventStatesMin
    PrevLevelChain
    NoCrossTopic
    QueueIsSuffix
    NoDuplicateDelivery
    PerPublisherFifo
    SeenFromSent
    AggSummariesSound
CHECK_DEADLOCK FALSE
