SPECIFICATION TrSpec
CONSTANTS
    TopicOrder <- MCTopicOrder
    IdOrder <- MCIdOrder3
    Handlers = {"h1", "h2", "h3"}
    Publishers = {"p1"}
    MaxCollects = 1000000
    MaxRegOps = 1000000
    FreeRunning = FALSE
INVARIANTS
    TopicLevelIsMax
    EventStatesMin
    PrevLevelChain
    NoCrossTopic
    QueueIsSuffix
CONSTRAINT HW
POSTCONDITION Accepted
CHECK_DEADLOCK FALSE
