SPECIFICATION Spec
CONSTANTS
    TopicOrder <- MCTopicOrder
    IdOrder <- MCIdOrder2
    Handlers = {"h1", "h2"}
    Publishers = {"p1", "p2"}
    MaxCollects = 2
    MaxRegOps = 3
INVARIANTS
    TypeOK
    TopicLevelIsMax
    EventStatesMin
    PrevLevelChain
    NoCrossTopic
    QueueIsSuffix
    NoDuplicateDelivery
    PerPublisherFifo
    SeenFromSent
CHECK_DEADLOCK FALSE
