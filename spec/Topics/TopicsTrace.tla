---------------------------- MODULE TopicsTrace ----------------------------
(* Trace specification for Topics: validates executions of the real       *)
(* alert service (driver c09) against Topics' actions.  Logged events      *)
(* happen at quiescence (the driver waits for handler enq = done);          *)
(* HandlerStep is a silent step between logged lines.                      *)
EXTENDS Topics, TraceCommon

CONSTANT FreeRunning    \* TRUE only in the cfg for free-running publisher rounds (Enqueue becomes a silent step)
VARIABLE l
tvars == <<vars, l>>

TrInit == Init /\ l = 1 /\ HWInit

Ln == Trace[l]
IsEv(e) == l <= Len(Trace) /\ Ln.ev = e /\ l' = l + 1

TrReset ==
    /\ IsEv("Reset")
    /\ events' = Events0 /\ sorted' = EmptyPerTopic /\ collected' = Collected0
    /\ reg' = Reg0 /\ hcfg' = Hcfg0 /\ queue' = EmptyPerHandler /\ seen' = EmptyPerHandler
    /\ pc' = Pc0 /\ pend' = Pend0 /\ updLog' = EmptyPerTopic /\ sent' = EmptyPerHandler
    /\ n' = 0 /\ nreg' = 0

CfgOf(r) == [topic |-> r.topic, kind |-> r.kind, match |-> r.match, targets |-> r.targets]
(* a recorder logs <<topic, id, level, previous level>>, and the count for an aggregate summary *)
SeenTuples(h) == [i \in DOMAIN seen[h] |->
    IF seen[h][i].cnt > 0 THEN <<seen[h][i].topic, seen[h][i].id, seen[h][i].lvl, seen[h][i].prev, seen[h][i].cnt>>
    ELSE <<seen[h][i].topic, seen[h][i].id, seen[h][i].lvl, seen[h][i].prev>>]

TrRegister == IsEv("Register") /\ Quiescent /\ Register(Ln.h, CfgOf(Ln))
TrDeregister ==
    /\ IsEv("Deregister") /\ Quiescent
    /\ (hcfg[Ln.h].kind = "rec" => SeenTuples(Ln.h) = Ln.seen)
    /\ (hcfg[Ln.h].kind = "agg" => seen[Ln.h] = <<>>)
    /\ Deregister(Ln.h)
TrReplace ==
    /\ IsEv("Replace") /\ Quiescent
    /\ (hcfg[Ln.h].kind = "rec" => SeenTuples(Ln.h) = Ln.seen)
    /\ Replace(Ln.h, CfgOf(Ln))

TrCollect ==
    /\ IsEv("Collect") /\ Quiescent
    /\ LET s1 == DoUpdate(Cur, Ln.topic, Ln.id, Ln.lvl, n + 1, "p1", 0)
           e  == [LastUpd(s1, Ln.topic) EXCEPT !.tag = Get(Ln, "tag", "none")]
           s2 == DoEnqueue(s1, e)
       IN Install(s2)
    /\ n' = n + 1
    /\ UNCHANGED <<reg, hcfg, seen, pc, pend, nreg>>

(* Observation at quiescence, compared with the property-level meaning:   *)
(* topic level = max of current event levels; EventStates(min) = filter;   *)
(* recorders saw exactly what the model says.                              *)
ObsTopicOK(t, o) ==
    /\ o.lvl = MaxOf(CurLevels(t))
    /\ o.collected = collected[t]
    /\ SeqToSet(o.cur) = { <<id, events[t][id]>> : id \in { i \in EventIds : events[t][i] # Absent } }
    /\ \A m \in Levels :
         SeqToSet(o.es[m + 1]) = { id \in EventIds : events[t][id] # Absent /\ events[t][id] >= m }
AggQuiet == \A h \in Handlers : hcfg[h].kind = "agg" => seen[h] = <<>>
TrObs ==
    /\ IsEv("Obs") /\ Quiescent /\ AggQuiet
    /\ \A t \in TopicIds : ObsTopicOK(t, Ln.state[t])
    /\ \A h \in DOMAIN Ln.seen : SeenTuples(h) = Ln.seen[h]
    /\ Get(Ln, "retired", 0) = 0          \* a handler that was removed / renamed away is never handed another event
    /\ UNCHANGED vars

(* B3: two real publisher goroutines stepped through a gate placed between *)
(* updateEvent and handleEvent (hook topic.updated).                        *)
TrUpd == IsEv("Upd") /\ Update(Ln.p, Ln.topic, Ln.id, Ln.lvl)
TrEnq == IsEv("Enq") /\ Enqueue(Ln.p)

(* CloseTopic followed by the restore that the next Collect performs (persisting service, all  *)
(* stored states non-OK, spec handlers only): the topic is a new object with the same event     *)
(* states and the handlers the service has on record; only its collected counter starts again.  *)
TrCloseRestore ==
    /\ IsEv("CloseRestore") /\ Quiescent
    /\ collected' = [collected EXCEPT ![Ln.topic] = 0]
    /\ UNCHANGED <<events, sorted, reg, hcfg, queue, seen, pc, pend, updLog, sent, n, nreg>>

(* free-running concurrent publishers (no gates): Start records that publisher p has called    *)
(* Collect(topic,id,lvl); its Update and Enqueue happen as silent steps in an order TLC chooses. *)
TrStart ==
    /\ IsEv("Start") /\ pc[Ln.p] = "idle"
    /\ pc' = [pc EXCEPT ![Ln.p] = "intent"]
    /\ pend' = [pend EXCEPT ![Ln.p] = Event(Ln.topic, Ln.id, Ln.lvl, 0, 0, Ln.p)]
    /\ UNCHANGED <<events, sorted, collected, reg, hcfg, queue, seen, updLog, sent, n, nreg>>
UpdIntent(p) ==
    /\ pc[p] = "intent"
    /\ LET s == DoUpdate(Cur, pend[p].topic, pend[p].id, pend[p].lvl, n + 1, p, 0)
       IN  /\ events' = s.ev /\ sorted' = s.so /\ collected' = s.co /\ updLog' = s.ul
           /\ pend' = [pend EXCEPT ![p] = LastUpd(s, pend[p].topic)]
    /\ pc' = [pc EXCEPT ![p] = "updated"] /\ n' = n + 1
    /\ UNCHANGED <<reg, hcfg, queue, seen, sent, nreg>>

TrSilent == /\ \/ \E h \in Handlers : HandlerStep(h) \/ AggTick(h)
               \/ \E p \in Publishers : UpdIntent(p) \/ (pc[p] = "updated" /\ FreeRunning /\ Enqueue(p))
            /\ UNCHANGED l

(* an explicit RestoreTopic on a topic that is live (or closed): nothing changes in model terms *)
TrRestoreNow == IsEv("RestoreNow") /\ Quiescent /\ UNCHANGED vars

TrNext == TrRestoreNow \/ TrStart \/ TrCloseRestore \/ TrReset \/ TrRegister \/ TrDeregister \/ TrReplace \/ TrCollect \/ TrObs \/ TrUpd \/ TrEnq \/ TrSilent
TrSpec == TrInit /\ [][TrNext]_tvars

HW == HWMark(l)
Accepted == HWAccepted
=============================================================================
