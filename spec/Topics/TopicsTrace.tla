---------------------------- MODULE TopicsTrace ----------------------------
(* Trace specification for Topics: validates executions of the real       *)
(* alert service (driver c09) against Topics' actions.  Logged events      *)
(* happen at quiescence (the driver waits for handler enq = done);          *)
(* HandlerStep is a silent step between logged lines.                      *)
EXTENDS Topics, TraceCommon

VARIABLE l
tvars == <<vars, l>>

TrInit == Init /\ l = 1 /\ HWInit

Ln == Trace[l]
IsEv(e) == l <= Len(Trace) /\ Ln.ev = e /\ l' = l + 1

TrReset ==
    /\ IsEv("Reset")
    /\ events' = Events0 /\ sorted' = EmptyPerTopic /\ collected' = Collected0
    /\ reg' = Reg0 /\ hcfg' = Hcfg0 /\ queue' = EmptyPerHandler /\ seen' = EmptyPerHandler
    /\ pc' = Pc0 /\ pend' = Pend0 /\ updLog' = EmptyPerTopic /\ sent' = EmptyPerHandler
    /\ n' = 0 /\ nreg' = 0

CfgOf(r) == [topic |-> r.topic, kind |-> r.kind, match |-> r.match, targets |-> r.targets]
(* a recorder logs <<topic, id, level, previous level>>, and the count for an aggregate summary *)
SeenTuples(h) == [i \in DOMAIN seen[h] |->
    IF seen[h][i].cnt > 0 THEN <<seen[h][i].topic, seen[h][i].id, seen[h][i].lvl, seen[h][i].prev, seen[h][i].cnt>>
    ELSE <<seen[h][i].topic, seen[h][i].id, seen[h][i].lvl, seen[h][i].prev>>]

TrRegister == IsEv("Register") /\ Quiescent /\ Register(Ln.h, CfgOf(Ln))
TrDeregister ==
    /\ IsEv("Deregister") /\ Quiescent
    /\ (hcfg[Ln.h].kind = "rec" => SeenTuples(Ln.h) = Ln.seen)
    /\ (hcfg[Ln.h].kind = "agg" => seen[Ln.h] = <<>>)
    /\ Deregister(Ln.h)
TrReplace ==
    /\ IsEv("Replace") /\ Quiescent
    /\ (hcfg[Ln.h].kind = "rec" => SeenTuples(Ln.h) = Ln.seen)
    /\ Replace(Ln.h, CfgOf(Ln))

TrCollect ==
    /\ IsEv("Collect") /\ Quiescent
    /\ LET s1 == DoUpdate(Cur, Ln.topic, Ln.id, Ln.lvl, n + 1, "p1", 0)
           s2 == DoEnqueue(s1, LastUpd(s1, Ln.topic))
       IN Install(s2)
    /\ n' = n + 1
    /\ UNCHANGED <<reg, hcfg, seen, pc, pend, nreg>>

(* Observation at quiescence, compared with the property-level meaning:   *)
(* topic level = max of current event levels; EventStates(min) = filter;   *)
(* recorders saw exactly what the model says.                              *)
ObsTopicOK(t, o) ==
    /\ o.lvl = MaxOf(CurLevels(t))
    /\ o.collected = collected[t]
    /\ SeqToSet(o.cur) = { <<id, events[t][id]>> : id \in { i \in EventIds : events[t][i] # Absent } }
    /\ \A m \in Levels :
         SeqToSet(o.es[m + 1]) = { id \in EventIds : events[t][id] # Absent /\ events[t][id] >= m }
AggQuiet == \A h \in Handlers : hcfg[h].kind = "agg" => seen[h] = <<>>
TrObs ==
    /\ IsEv("Obs") /\ Quiescent /\ AggQuiet
    /\ \A t \in TopicIds : ObsTopicOK(t, Ln.state[t])
    /\ \A h \in DOMAIN Ln.seen : SeenTuples(h) = Ln.seen[h]
    /\ UNCHANGED vars

(* B3: two real publisher goroutines stepped through a gate placed between *)
(* updateEvent and handleEvent (hook topic.updated).                        *)
TrUpd == IsEv("Upd") /\ Update(Ln.p, Ln.topic, Ln.id, Ln.lvl)
TrEnq == IsEv("Enq") /\ Enqueue(Ln.p)

TrSilent == (\E h \in Handlers : HandlerStep(h) \/ AggTick(h)) /\ UNCHANGED l

TrNext == TrReset \/ TrRegister \/ TrDeregister \/ TrReplace \/ TrCollect \/ TrObs \/ TrUpd \/ TrEnq \/ TrSilent
TrSpec == TrInit /\ [][TrNext]_tvars

HW == HWMark(l)
Accepted == HWAccepted
=============================================================================
