SPECIFICATION TrSpec
CONSTANTS
    TopicOrder <- MCTopicOrder
    IdOrder <- MCIdOrder4
    Handlers = {"h1", "h2", "h3", "h4", "h5"}
    Publishers = {"p1"}
    MaxCollects = 1000000
    MaxRegOps = 1000000
    FreeRunning = FALSE
INVARIANTS
    TopicLevelIsMax
    EventStatesMin
    PrevLevelChain
    NoCrossTopic
    QueueIsSuffix
    AggSummariesSound
CONSTRAINT HW
POSTCONDITION Accepted
CHECK_DEADLOCK FALSE
