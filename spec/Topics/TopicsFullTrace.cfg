SPECIFICATION TrSpec
CONSTANTS
    TopicOrder <- MCTopicOrder3
    IdOrder <- MCIdOrder3
    Handlers = {"hp", "h2", "h3"}
    Publishers = {"p1"}
    MaxCollects = 1000000
    MaxRegOps = 1000000
    FreeRunning = FALSE
INVARIANTS
    TopicLevelIsMax
    EventStatesMin
    PrevLevelChain
    NoCrossTopic
    QueueIsSuffix
CONSTRAINT HW
POSTCONDITION Accepted
CHECK_DEADLOCK FALSE
