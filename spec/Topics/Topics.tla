------------------------------- MODULE Topics -------------------------------
(* Alert topics: per-topic event states, the level-sorted list behind      *)
(* MaxLevel/EventStates, buffered handlers with match predicates, publish  *)
(* handlers that re-collect on target topics, and concurrent publishers.   *)
(* Code: alert/topics.go, services/alert/{service,handlers}.go.  (C09)     *)
(*                                                                         *)
(* One action per critical section:                                        *)
(*   Update(p,..)   Topic.updateEvent under t.mu.Lock (previous level is    *)
(*                  computed here) + collected.Add                          *)
(*   Enqueue(p)     Topic.handleEvent under t.mu.RLock: non-blocking send   *)
(*                  to every handler registered on the topic               *)
(*   HandlerStep(h) bufHandler.run: take one event, run the wrapped handler *)
(*                  (match filter; recorder or publish -> nested collect)  *)
(*   Register / Deregister (drains synchronously) / Replace                 *)
(* Deliberate abstraction: the nested Collect of a publish handler is one  *)
(* atomic step (in the code it is Update;Enqueue by the handler goroutine); *)
(* this only hides orderings between different collectors on the target    *)
(* topic, which C09 does not constrain (FIFO is per publisher).            *)
EXTENDS Integers, Sequences, FiniteSets, TLC, SequencesExt, FiniteSetsExt, Functions

CONSTANTS
    TopicOrder,     \* sequence of topic names; publish targets must come later (no cycles)
    IdOrder,        \* sequence of event IDs in ascending (string) order
    Handlers,       \* set of handler names
    Publishers,     \* set of concurrent collectors
    MaxCollects,    \* bound on top-level collects
    MaxRegOps       \* bound on Register/Deregister/Replace operations

TopicIds == { TopicOrder[i] : i \in DOMAIN TopicOrder }
EventIds == { IdOrder[i] : i \in DOMAIN IdOrder }
Levels == 0..3          \* OK, INFO, WARNING, CRITICAL
Absent == -1
Rank(id) == CHOOSE i \in DOMAIN IdOrder : IdOrder[i] = id
TRank(t) == CHOOSE i \in DOMAIN TopicOrder : TopicOrder[i] = t

MatchKinds == {"none", "changed", "warn", "critchanged", "never", "tagA", "tagAwarn", "nameM", "taskT", "durGt1", "nameMchanged"}
(* e.tag is the event's ATTRIBUTE CLASS (what the match expression can see besides levels):                *)
(*   none: no tag, name m, task tk, duration 0      a / b: tag host=a / host=b                             *)
(*   n: another name    u: another task name    d: duration 5s    ad: host=a and duration 5s               *)
(*   x / xd: an AGGREGATED event - it has no name, task name or tags; its duration is the largest of the    *)
(*           events it summarises (xd: one of them had 5s)                                                  *)
HostA == {"a", "ad"}
Named == {"none", "a", "b", "u", "d", "ad"}       \* name() == 'm'
Tasked == {"none", "a", "b", "n", "d", "ad"}      \* taskName() == 'tk'
Long == {"d", "ad", "xd"}                          \* alertDuration() > 1s
NoCfg == [topic |-> "", kind |-> "none", match |-> "none", targets |-> <<>>]

VARIABLES
    events,     \* [TopicIds -> [EventIds -> Levels \cup {Absent}]]  current state per ID
    sorted,     \* [TopicIds -> Seq(EventIds)]  the code's level-sorted list
    collected,  \* [TopicIds -> Nat]
    reg,        \* [TopicIds -> SUBSET Handlers]  handlers registered on the topic
    hcfg,       \* [Handlers -> cfg]
    queue,      \* [Handlers -> Seq(Event)]  bufHandler channel
    seen,       \* [Handlers -> Seq(Event)]  what the wrapped recorder was handed
    pc, pend,   \* publisher program counter / event between Update and Enqueue
    updLog,     \* ghost: [TopicIds -> Seq(Event)] in update order
    sent,       \* ghost: [Handlers -> Seq(Event)] everything ever enqueued to h
    n,          \* number of top-level collects so far
    nreg        \* number of registration operations so far

vars == <<events, sorted, collected, reg, hcfg, queue, seen, pc, pend, updLog, sent, n, nreg>>

Event(t, id, lvl, prev, src, pub) == [topic |-> t, id |-> id, lvl |-> lvl, prev |-> prev, src |-> src, pub |-> pub, cnt |-> 0, tag |-> "none"]

(* The list the code keeps: IDs present, by level descending then ID ascending. *)
Before(ev, a, b) == \/ ev[a] > ev[b]
                    \/ ev[a] = ev[b] /\ Rank(a) < Rank(b)
SortIds(ev) ==
    LET present == { id \in EventIds : ev[id] # Absent }
    IN  IF present = {} THEN <<>>
        ELSE CHOOSE s \in [1..Cardinality(present) -> present] :
               /\ \A i, j \in DOMAIN s : i < j => Before(ev, s[i], s[j])

Matches(m, e) ==
    CASE m = "none"        -> TRUE
      [] m = "changed"     -> e.lvl # e.prev
      [] m = "warn"        -> e.lvl >= 2
      [] m = "critchanged" -> e.lvl = 3 /\ e.lvl # e.prev
      [] m = "never"       -> FALSE
      [] m = "tagA"        -> e.tag \in HostA              \* "host" == 'a'; an event without the tag is an evaluation error: not delivered
      [] m = "tagAwarn"    -> e.tag \in HostA /\ e.lvl >= 2
      [] m = "nameM"       -> e.tag \in Named
      [] m = "taskT"       -> e.tag \in Tasked
      [] m = "durGt1"      -> e.tag \in Long
      [] m = "nameMchanged" -> e.tag \in Named /\ e.lvl # e.prev

(* ---- the state transformer of one (nested or top-level) collect ---- *)
St == [ev : events, so : sorted, co : collected, qu : queue, ul : updLog, se : sent]
(* carried: the previous level the event already carries.  Topic.collect only   *)
(* overwrites it when the topic has a record of the ID ("if ok"), so an event  *)
(* republished by a publish handler to a topic that has never seen the ID keeps *)
(* the previous level it had on the source topic.  Top-level collects carry OK. *)
DoUpdateC(s, t, id, lvl, src, pub, carried, cnt) ==
    LET prev == IF s.ev[t][id] = Absent THEN carried ELSE s.ev[t][id]
        ev2  == [s.ev EXCEPT ![t][id] = lvl]
        e    == [Event(t, id, lvl, prev, src, pub) EXCEPT !.cnt = cnt]
    IN  [s EXCEPT !.ev = ev2,
                  !.so = [s.so EXCEPT ![t] = SortIds(ev2[t])],
                  !.co = [s.co EXCEPT ![t] = @ + 1],
                  !.ul = [s.ul EXCEPT ![t] = Append(@, e)]]
DoUpdate(s, t, id, lvl, src, pub, carried) == DoUpdateC(s, t, id, lvl, src, pub, carried, 0)
DoEnqueue(s, e) ==
    [s EXCEPT !.qu = [h \in Handlers |-> IF h \in reg[e.topic] THEN Append(s.qu[h], e) ELSE s.qu[h]],
              !.se = [h \in Handlers |-> IF h \in reg[e.topic] THEN Append(s.se[h], e) ELSE s.se[h]]]
LastUpd(s, t) == s.ul[t][Len(s.ul[t])]

RECURSIVE PublishTo(_, _, _, _)
PublishTo(s, targets, e, h) ==
    IF targets = <<>> THEN s
    ELSE LET t  == Head(targets)
             s1 == DoUpdate(s, t, e.id, e.lvl, e.src, h, e.prev)
             s2 == DoEnqueue(s1, [LastUpd(s1, t) EXCEPT !.tag = e.tag])   \* the republished event keeps its data (tags)
         IN  PublishTo(s2, Tail(targets), e, h)

Cur == [ev |-> events, so |-> sorted, co |-> collected, qu |-> queue, ul |-> updLog, se |-> sent]
Install(s) == /\ events' = s.ev /\ sorted' = s.so /\ collected' = s.co
              /\ queue' = s.qu /\ updLog' = s.ul /\ sent' = s.se

(* ------------------------------ actions ------------------------------ *)
Events0 == [t \in TopicIds |-> [id \in EventIds |-> Absent]]
EmptyPerTopic == [t \in TopicIds |-> <<>>]
EmptyPerHandler == [h \in Handlers |-> <<>>]
Collected0 == [t \in TopicIds |-> 0]
Reg0 == [t \in TopicIds |-> {}]
Hcfg0 == [h \in Handlers |-> NoCfg]
Pc0 == [p \in Publishers |-> "idle"]
Pend0 == [p \in Publishers |-> Event("", "", 0, 0, 0, "")]
Init ==
    /\ events = Events0
    /\ sorted = EmptyPerTopic
    /\ collected = Collected0
    /\ reg = Reg0
    /\ hcfg = Hcfg0
    /\ queue = EmptyPerHandler
    /\ seen = EmptyPerHandler
    /\ pc = Pc0
    /\ pend = Pend0
    /\ updLog = EmptyPerTopic
    /\ sent = EmptyPerHandler
    /\ n = 0
    /\ nreg = 0

Update(p, t, id, lvl) ==
    /\ pc[p] = "idle" /\ n < MaxCollects
    /\ LET s == DoUpdate(Cur, t, id, lvl, n + 1, p, 0)
       IN  /\ events' = s.ev /\ sorted' = s.so /\ collected' = s.co /\ updLog' = s.ul
           /\ pend' = [pend EXCEPT ![p] = LastUpd(s, t)]
    /\ pc' = [pc EXCEPT ![p] = "updated"]
    /\ n' = n + 1
    /\ UNCHANGED <<reg, hcfg, queue, seen, sent, nreg>>

Enqueue(p) ==
    /\ pc[p] = "updated"
    /\ LET s == DoEnqueue(Cur, pend[p]) IN queue' = s.qu /\ sent' = s.se
    /\ pc' = [pc EXCEPT ![p] = "idle"]
    /\ UNCHANGED <<events, sorted, collected, reg, hcfg, seen, pend, updLog, n, nreg>>

HandlerStep(h) ==
    /\ queue[h] # <<>>
    /\ LET e  == Head(queue[h])
           c  == hcfg[h]
           s0 == [Cur EXCEPT !.qu = [queue EXCEPT ![h] = Tail(@)]]
       IN  IF ~Matches(c.match, e) THEN Install(s0) /\ UNCHANGED seen
           ELSE IF c.kind \in {"rec", "agg"} THEN Install(s0) /\ seen' = [seen EXCEPT ![h] = Append(@, e)]   \* agg: seen is its buffer
           ELSE Install(PublishTo(s0, c.targets, e, h)) /\ UNCHANGED seen
    /\ UNCHANGED <<reg, hcfg, pc, pend, n, nreg>>

(* aggregateHandler.run on a ticker: the events buffered since the last tick become ONE summary  *)
(* event on the target topic: id AggId, level = the highest buffered level, cnt = how many.     *)
(* (seen[h] is the buffer of an aggregate handler.)  An empty buffer ticks silently.             *)
AggId == "agg"
MaxLvl(evs) == Max({ evs[i].lvl : i \in DOMAIN evs })
AggTick(h) ==
    /\ hcfg[h].kind = "agg" /\ seen[h] # <<>>
    /\ LET t  == hcfg[h].targets[1]
           s1 == DoUpdateC(Cur, t, AggId, MaxLvl(seen[h]), seen[h][Len(seen[h])].src, h, 0, Len(seen[h]))
           cls == IF \E i \in DOMAIN seen[h] : seen[h][i].tag \in Long THEN "xd" ELSE "x"
           s2 == DoEnqueue(s1, [LastUpd(s1, t) EXCEPT !.tag = cls])
       IN  Install(s2)
    /\ seen' = [seen EXCEPT ![h] = <<>>]
    /\ UNCHANGED <<reg, hcfg, pc, pend, n, nreg>>

ValidCfg(c) ==
    /\ c.topic \in TopicIds /\ c.kind \in {"rec", "publish", "agg"} /\ c.match \in MatchKinds
    /\ (c.kind = "agg" => Len(c.targets) = 1)
    /\ \A i \in DOMAIN c.targets : c.targets[i] \in TopicIds /\ TRank(c.targets[i]) > TRank(c.topic)
    /\ c.kind = "rec" => c.targets = <<>>

Register(h, c) ==
    /\ hcfg[h] = NoCfg /\ ValidCfg(c) /\ nreg < MaxRegOps /\ nreg' = nreg + 1
    /\ hcfg' = [hcfg EXCEPT ![h] = c]
    /\ reg' = [reg EXCEPT ![c.topic] = @ \cup {h}]
    /\ seen' = [seen EXCEPT ![h] = <<>>]      \* a re-used name is a new handler
    /\ sent' = [sent EXCEPT ![h] = <<>>]
    /\ UNCHANGED <<events, sorted, collected, queue, pc, pend, updLog, n>>

(* removeHandler -> bufHandler.Close waits for the queue to drain while holding *)
(* the topic lock, so no new event can be enqueued meanwhile: enabled when empty. *)
Deregister(h) ==
    /\ hcfg[h] # NoCfg /\ queue[h] = <<>> /\ nreg < MaxRegOps /\ nreg' = nreg + 1
    /\ reg' = [reg EXCEPT ![hcfg[h].topic] = @ \ {h}]
    /\ hcfg' = [hcfg EXCEPT ![h] = NoCfg]
    /\ UNCHANGED <<events, sorted, collected, queue, seen, pc, pend, updLog, sent, n>>

(* UpdateHandlerSpec with the same id and topic: old handler drained and replaced. *)
Replace(h, c) ==
    /\ hcfg[h] # NoCfg /\ queue[h] = <<>> /\ ValidCfg(c) /\ c.topic = hcfg[h].topic /\ nreg < MaxRegOps /\ nreg' = nreg + 1
    /\ hcfg' = [hcfg EXCEPT ![h] = c]
    /\ seen' = [seen EXCEPT ![h] = <<>>]      \* createHandlerFromSpec builds a new handler
    /\ sent' = [sent EXCEPT ![h] = <<>>]
    /\ UNCHANGED <<events, sorted, collected, reg, queue, pc, pend, updLog, n>>

CfgSpace ==
    { c \in [topic : TopicIds, kind : {"rec", "publish"} \cup (IF AggId \in EventIds THEN {"agg"} ELSE {}), match : {"none", "changed", "warn"},
             targets : {<<>>} \cup { <<t>> : t \in TopicIds }] : ValidCfg(c) /\ (c.kind = "publish" => c.targets # <<>>) }

Next ==
    \/ \E p \in Publishers, t \in TopicIds, id \in EventIds, lvl \in Levels : Update(p, t, id, lvl)
    \/ \E p \in Publishers : Enqueue(p)
    \/ \E h \in Handlers : HandlerStep(h)
    \/ \E h \in Handlers : AggTick(h)
    \/ \E h \in Handlers, c \in CfgSpace : Register(h, c)
    \/ \E h \in Handlers : Deregister(h)
    \/ \E h \in Handlers, c \in CfgSpace : Replace(h, c)

Spec == Init /\ [][Next]_vars

(* ------------------------------ properties ------------------------------ *)
MaxOf(S) == IF S = {} THEN 0 ELSE Max(S)
CurLevels(t) == { events[t][id] : id \in { i \in EventIds : events[t][i] # Absent } }

(* what the API reports, computed the way the code does *)
ImplMaxLevel(t) == IF sorted[t] = <<>> THEN 0 ELSE events[t][sorted[t][1]]
RECURSIVE TakeWhileMin(_, _, _)
TakeWhileMin(t, s, min) ==
    IF s = <<>> \/ events[t][Head(s)] < min THEN {} ELSE {Head(s)} \cup TakeWhileMin(t, Tail(s), min)
ImplEventStates(t, min) == TakeWhileMin(t, sorted[t], min)

TopicLevelIsMax == \A t \in TopicIds : ImplMaxLevel(t) = MaxOf(CurLevels(t))
EventStatesMin ==
    \A t \in TopicIds, min \in Levels :
        ImplEventStates(t, min) = { id \in EventIds : events[t][id] # Absent /\ events[t][id] >= min }

(* previous level of each update = level of the preceding update of the same ID on that topic *)
PrevLevelChain ==
    \A t \in TopicIds : \A i \in DOMAIN updLog[t] :
        LET e == updLog[t][i]
            earlier == { j \in 1..(i-1) : updLog[t][j].id = e.id }
        IN  IF earlier # {} THEN e.prev = updLog[t][Max(earlier)].lvl
            ELSE e.pub \in Publishers => e.prev = 0    \* republished first-on-topic events carry the source's previous level

(* exactly once, FIFO per handler: handled ++ queued = enqueued, nothing foreign *)
RECURSIVE FilterMatch(_, _)
FilterMatch(m, s) == IF s = <<>> THEN <<>> ELSE
    (IF Matches(m, Head(s)) THEN <<Head(s)>> ELSE <<>>) \o FilterMatch(m, Tail(s))
NoCrossTopic == \A h \in Handlers : \A i \in DOMAIN sent[h] : hcfg[h] # NoCfg => sent[h][i].topic = hcfg[h].topic
QueueIsSuffix == \A h \in Handlers : IsSuffix(queue[h], sent[h])
NoDuplicateDelivery ==
    \A h \in Handlers : \A i, j \in DOMAIN sent[h] : i # j => sent[h][i] # sent[h][j]
(* per-publisher FIFO: events of one collector appear in every queue in the order it updated them *)
PerPublisherFifo ==
    \A h \in Handlers : \A i, j \in DOMAIN sent[h] :
        (i < j /\ sent[h][i].pub = sent[h][j].pub /\ sent[h][i].pub \in Publishers) => sent[h][i].src < sent[h][j].src
(* a recorder sees exactly the matching events, in queue order (while its config is stable:   *)
(* checked as: seen is a subsequence of sent) *)
RECURSIVE IsSubSeq(_, _)
IsSubSeq(a, b) == IF a = <<>> THEN TRUE ELSE IF b = <<>> THEN FALSE
                  ELSE IF Head(a) = Head(b) THEN IsSubSeq(Tail(a), Tail(b)) ELSE IsSubSeq(a, Tail(b))
SeenFromSent == \A h \in Handlers : IsSubSeq(seen[h], sent[h])

(* Stronger than claimed: queue order equals update order even across publishers. *)
(* Expected to FAIL with two publishers (reported as an observation only).        *)
HandlerOrderEqualsUpdateOrder ==
    \A h \in Handlers : \A i, j \in DOMAIN sent[h] :
        (i < j /\ sent[h][i].topic = sent[h][j].topic) =>
            LET ui == CHOOSE k \in DOMAIN updLog[sent[h][i].topic] : updLog[sent[h][i].topic][k] = sent[h][i]
                uj == CHOOSE k \in DOMAIN updLog[sent[h][j].topic] : updLog[sent[h][j].topic][k] = sent[h][j]
            IN ui < uj

(* aggregation conserves events: every summary on a topic counts at least one event and never    *)
(* reports a level that none of its events had (the level is one that occurred before it)         *)
AggSummariesSound ==
    \A t \in TopicIds : \A i \in DOMAIN updLog[t] :
        updLog[t][i].cnt > 0 => updLog[t][i].id = AggId /\ updLog[t][i].pub \in Handlers

TypeOK ==
    /\ \A t \in TopicIds : \A id \in EventIds : events[t][id] \in Levels \cup {Absent}
    /\ \A t \in TopicIds : reg[t] \subseteq Handlers
    /\ n \in 0..MaxCollects

Quiescent == /\ \A h \in Handlers : queue[h] = <<>>
             /\ \A p \in Publishers : pc[p] = "idle"
(* at quiescence every event collected while a handler was registered has been handled *)
=============================================================================
