--------------------------- MODULE TopicsTraceMC ---------------------------
EXTENDS TopicsTrace
MCTopicOrder == <<"t1", "t2">>
MCTopicOrder3 == <<"t1", "t2", "t3">>
MCIdOrder3 == <<"a", "b", "c">>
MCIdOrder4 == <<"a", "agg", "b", "c">>
=============================================================================
