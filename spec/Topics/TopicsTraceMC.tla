--------------------------- MODULE TopicsTraceMC ---------------------------
EXTENDS TopicsTrace
MCTopicOrder == <<"t1", "t2">>
MCIdOrder3 == <<"a", "b", "c">>
MCIdOrder4 == <<"a", "agg", "b", "c">>
=============================================================================
