SPECIFICATION TrSpec
CONSTANTS
    TopicOrder <- MCTopicOrder
    IdOrder <- MCIdOrder3
    Handlers = {"h1", "h2", "h3"}
    Publishers = {"p1", "p2", "p3", "p4"}
    MaxCollects = 1000000
    MaxRegOps = 1000000
    FreeRunning = TRUE
INVARIANTS
    TopicLevelIsMax
    EventStatesMin
    PrevLevelChain
    NoCrossTopic
    QueueIsSuffix
    PerPublisherFifo
    NoDuplicateDelivery
CONSTRAINT HW
POSTCONDITION Accepted
CHECK_DEADLOCK FALSE
