\* Observation only: forkPoint that stops at the first failing Collect (a dead
\* neighbour on the same fork key).  TLC must find a survivor missing a point.
SPECIFICATION Spec
CONSTANTS
    TaskIds = {t1, t2}
    Shapes <- MCShapesDead
    Batches <- MCBatchesQuick
    DefaultRP = "rp1"
    MaxWrites = 2
    MaxLifecycle = 2
    Dedup = TRUE
    FailCleansUp = TRUE
    MaxDeaths = 1
    CacheLookup = FALSE
    StopAtFirstError = TRUE
INVARIANTS
    TypeOK
    ExactlyOnce
CHECK_DEADLOCK FALSE
