SPECIFICATION Spec
CONSTANTS
    TaskIds = {t1, t2}
    Shapes <- MCShapesThorough
    Batches <- MCBatchesThorough
    DefaultRP = "rp1"
    MaxWrites = 2
    MaxLifecycle = 4
    Dedup = TRUE
    FailCleansUp = TRUE
    MaxDeaths = 0
    CacheLookup = FALSE
    StopAtFirstError = FALSE
SYMMETRY MCSymmetry
INVARIANTS
    TypeOK
    ExactlyOnce
    NeverForeign
    OrderPreserved
    TableConsistent
    NoOrphanDelivery
PROPERTY NonInterference
CHECK_DEADLOCK FALSE
