\* Observation only: forkPoint WITHOUT per-point de-duplication of task edges
\* (the code before the C02 fix).  TLC must find the double delivery for a
\* task with from().measurement('m1') and from(): keeps ExactlyOnce honest.
SPECIFICATION Spec
CONSTANTS
    TaskIds = {t1}
    Shapes <- MCShapesKnown
    Batches <- MCBatchesQuick
    DefaultRP = "rp1"
    MaxWrites = 2
    MaxLifecycle = 2
    Dedup = FALSE
    FailCleansUp = TRUE
    MaxDeaths = 0
    CacheLookup = FALSE
    StopAtFirstError = FALSE
INVARIANTS
    TypeOK
    ExactlyOnce
CHECK_DEADLOCK FALSE
