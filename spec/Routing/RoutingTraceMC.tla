--------------------------- MODULE RoutingTraceMC ---------------------------
(* Constants of the trace configurations: task definitions and write calls   *)
(* come from the trace lines, so the model's catalogues are unused.          *)
EXTENDS RoutingTrace
MCNone == {}
=============================================================================
