------------------------------ MODULE Routing ------------------------------
(* TaskMaster stream routing: WritePoints -> ingest edge -> forkPoint ->    *)
(* per-task input edge -> stream node -> from() nodes.  (C02)               *)
(* Code: task_master.go (WritePoints, runForking/forkPoint, newFork,        *)
(* delFork, StartTask, StopTask, DeleteTask), task.go (Measurements,        *)
(* ExecutingTask.start/stop), stream.go (StreamNode copy, FromNode.matches).*)
(*                                                                          *)
(* One action per critical section of the code:                             *)
(*   WriteBatch(b)  WritePoints: every point of the call is put, in order,   *)
(*                  on the single "write_points" edge (rp "" -> default rp)  *)
(*   Fork           one iteration of runForking: forkPoint under tm.mu.RLock *)
(*                  collects the point first on every edge of forks[key],   *)
(*                  then on every edge of forks[emptyMeasurementKey]         *)
(*   Consume(t)     the task's stream node takes one point off its input    *)
(*                  edge and copies it to every from() node, which keeps it  *)
(*                  iff FromMatch                                            *)
(*   StartTask(t)   under tm.mu.Lock: newFork registers ONE new edge under   *)
(*                  every key dbrp x Measurements() and appends the keys to  *)
(*                  taskToForkKeys[t]                                        *)
(*   StopTask(t) /  under tm.mu.Lock: delFork removes t from forks[key] for  *)
(*   DeleteTask(t)  the keys in taskToForkKeys[t], closes the edge, and      *)
(*                  et.stop() waits until the task has drained its edge      *)
(* forks is the code's map[forkKey]map[taskID]edge, written as a set of      *)
(* <<key, task>> pairs (a task has one input edge per incarnation, so the    *)
(* edge is identified by the task).                                          *)
(*                                                                          *)
(* Property level (ghost variables written/status): every written point p    *)
(* has, per task t, a status                                                 *)
(*   "must"    t was executing when p was written and no lifecycle call on t *)
(*             happened before p was forked                                  *)
(*   "mustnot" t was not executing and no lifecycle call on t before the fork*)
(*   "may"     a lifecycle call on t raced with p (0 or 1 deliveries allowed)*)
EXTENDS Integers, Sequences, FiniteSets, TLC

CONSTANTS
    TaskIds,        \* task identifiers
    Shapes,         \* set of task definitions [dbrps : Seq([db,rp]), froms : Seq([meas,db,rp,pred,gb])]
    Batches,        \* set of write calls [db, rp, pts : Seq([meas, tag])]  (rp "" = use the default)
    DefaultRP,      \* TaskMaster.DefaultRetentionPolicy
    MaxWrites,      \* bound on written points
    MaxLifecycle,   \* bound on StartTask/StopTask/DeleteTask calls
    Dedup,          \* TRUE: forkPoint hands a point to a task edge at most once (the code after the fix)
    FailCleansUp,   \* TRUE: a StartTask that fails after newFork removes the fork again (the code after the fix)
    MaxDeaths,      \* bound on tasks dying at run time
    CacheLookup,    \* TRUE: forkPoint looks the inner maps of tm.forks up only when the (db, rp, measurement) differs
                    \* from the previous point's (a seeded regression: a nil map remembered from before the first
                    \* subscriber stays nil); FALSE: delivery is decided per point from the forks as they are then
    StopAtFirstError \* TRUE: forkPoint stops handing a point out at the first edge whose Collect fails (a seeded
                    \* regression: the code ignores the error of each Collect and goes on)

VARIABLES
    def,            \* [tasks -> Shapes], fixed during a behaviour
    executing,      \* set of executing tasks (tm.tasks)
    forks,          \* set of <<forkKey, task>>
    taskToForkKeys, \* [tasks -> Seq(forkKey)]
    ingest,         \* the write_points edge: Seq(point)
    taskEdge,       \* [tasks -> Seq(point)]  the task's input edge
    delivered,      \* [tasks -> [from index -> Seq(seq number)]]  what each from() node passed on
    written,        \* ghost: all points ever written, in write order (index = seq)
    status,         \* ghost: [seq -> [tasks -> {"must","may","mustnot"}]]
    nl,             \* lifecycle calls so far
    dead,           \* executing tasks whose pipeline has failed at run time: the source node has aborted the
                    \* task's fork edge (Collect returns ErrAborted); nobody has stopped the task yet
    died,           \* ghost: tasks that ever died (out of the verdict)
    lk              \* only with CacheLookup (a seeded regression): [created : fork keys whose inner map exists
                    \* (newFork creates it for the first subscriber, delFork never removes it),
                    \* cache : the lookup the forking goroutine remembers from the previous point]

vars == <<def, executing, forks, taskToForkKeys, ingest, taskEdge, delivered, written, status, nl, dead, died, lk>>
dvars == <<dead, died, lk>>

T == DOMAIN def
Range(s) == { s[i] : i \in DOMAIN s }
Key(db, rp, m) == [db |-> db, rp |-> rp, meas |-> m]
NoLookup == [created |-> {}, cache |-> [key |-> Key("", "", ""), m |-> FALSE, a |-> FALSE]]

(* forkKeys(dbrps, Task.Measurements()): dbrp-major, one entry per from() node *)
(* (duplicates are kept, exactly as the slice in the code).                    *)
ForkKeysOf(d) ==
    LET nm == Len(d.froms)
    IN  [i \in 1..(Len(d.dbrps) * nm) |->
            Key(d.dbrps[((i - 1) \div nm) + 1].db, d.dbrps[((i - 1) \div nm) + 1].rp, d.froms[((i - 1) % nm) + 1].meas)]

(* FromNode.matches.  pred "v": where(lambda: "tag" == 'v') - a point without the  *)
(* tag (tag = "") is not selected; pred "?v": where(lambda: !isPresent("tag") OR   *)
(* "tag" == 'v').  Selection is a function of the point alone.                      *)
PredOK(pred, tag) ==
    CASE pred = ""   -> TRUE
      [] pred = "?a" -> tag \in {"", "a"}
      [] pred = "?b" -> tag \in {"", "b"}
      [] OTHER       -> tag = pred
FromMatch(f, p) ==
    /\ f.db = "" \/ p.db = f.db
    /\ f.rp = "" \/ p.rp = f.rp
    /\ f.meas = "" \/ p.meas = f.meas
    /\ PredOK(f.pred, p.tag)

Declares(d, p) == \E i \in DOMAIN d.dbrps : d.dbrps[i].db = p.db /\ d.dbrps[i].rp = p.rp

(* what the property promises for point p at from() node k of task t, once p is settled *)
Selected(t, k, p) == Declares(def[t], p) /\ FromMatch(def[t].froms[k], p)

EmptyDelivered(d) == [k \in DOMAIN d.froms |-> <<>>]

Init ==
    /\ def \in [TaskIds -> Shapes]
    /\ executing = {} /\ forks = {}
    /\ taskToForkKeys = [t \in TaskIds |-> <<>>]
    /\ ingest = <<>>
    /\ taskEdge = [t \in TaskIds |-> <<>>]
    /\ delivered = [t \in TaskIds |-> EmptyDelivered(def[t])]
    /\ written = <<>> /\ status = <<>> /\ nl = 0
    /\ dead = {} /\ died = {} /\ lk = NoLookup

(* ---------------- ingest ---------------- *)
MkPoint(b, i, s) == [seq |-> s, db |-> b.db, rp |-> IF b.rp = "" THEN DefaultRP ELSE b.rp,
                     meas |-> b.pts[i].meas, tag |-> b.pts[i].tag]
NewPoints(b) == [i \in DOMAIN b.pts |-> MkPoint(b, i, Len(written) + i)]

(* racing: tasks with a lifecycle call in flight while the write call runs.  The *)
(* model's lifecycle actions are atomic (they hold tm.mu), so it is {} here; the  *)
(* trace specification passes the tasks between LcCall and LcRet.                  *)
WriteBatchR(b, racing) ==
    /\ Len(written) + Len(b.pts) <= MaxWrites
    /\ ingest' = ingest \o NewPoints(b)
    /\ written' = written \o NewPoints(b)
    /\ status' = status \o [i \in DOMAIN b.pts |->
                    [t \in T |-> IF t \in racing THEN "may" ELSE IF t \in executing THEN "must" ELSE "mustnot"]]
    /\ UNCHANGED <<def, executing, forks, taskToForkKeys, taskEdge, delivered, nl, dvars>>
WriteBatch(b) == WriteBatchR(b, {})

(* ---------------- forkPoint ---------------- *)
(* mOK/aOK: the inner map of the measurement key / of the empty-measurement key is *)
(* seen by this forkPoint (always, unless CacheLookup remembered a nil map)         *)
ForkCountC(fk, t, p, mOK, aOK) ==
    LET a == IF mOK /\ <<Key(p.db, p.rp, p.meas), t>> \in fk THEN 1 ELSE 0
        b == IF aOK /\ <<Key(p.db, p.rp, ""), t>> \in fk THEN 1 ELSE 0
    IN  IF Dedup /\ a + b > 1 THEN 1 ELSE a + b
ForkCount(fk, t, p) == ForkCountC(fk, t, p, TRUE, TRUE)
Lookup(p) ==
    LET key == Key(p.db, p.rp, p.meas)
    IN  IF ~CacheLookup THEN [key |-> key, m |-> TRUE, a |-> TRUE]
        ELSE IF lk.cache.key = key THEN lk.cache
        ELSE [key |-> key, m |-> key \in lk.created, a |-> Key(p.db, p.rp, "") \in lk.created]
Created(d) == IF CacheLookup THEN [lk EXCEPT !.created = @ \cup Range(ForkKeysOf(d))] ELSE lk
Rep(p, n) == [i \in 1..n |-> p]

(* Collect fails on the edge of a dead task and the code goes on with the next    *)
(* edge.  StopAtFirstError: the iteration (Go map order) ends at the first failing *)
(* edge, so any subset of the live subscribers may miss the point.                 *)
ForkTo(p, recv) ==
    /\ taskEdge' = [t \in T |-> IF t \in recv
                                 THEN taskEdge[t] \o Rep(p, ForkCountC(forks, t, p, Lookup(p).m, Lookup(p).a))
                                 ELSE taskEdge[t]]
    /\ ingest' = Tail(ingest)
    /\ lk' = IF CacheLookup THEN [lk EXCEPT !.cache = Lookup(p)] ELSE lk
    /\ UNCHANGED <<def, executing, forks, taskToForkKeys, delivered, written, status, nl, dead, died>>
Fork ==
    /\ ingest # <<>>
    /\ LET p == Head(ingest)
           live == { t \in T \ dead : ForkCountC(forks, t, p, Lookup(p).m, Lookup(p).a) > 0 }
           hitsDead == \E t \in dead : ForkCountC(forks, t, p, Lookup(p).m, Lookup(p).a) > 0
       IN  IF StopAtFirstError /\ hitsDead
           THEN \E recv \in SUBSET live : ForkTo(p, recv)
           ELSE ForkTo(p, live)

(* ---------------- the task side ---------------- *)
DeliverOne(dl, t, p) ==
    [k \in DOMAIN dl |-> IF FromMatch(def[t].froms[k], p) THEN Append(dl[k], p.seq) ELSE dl[k]]
RECURSIVE DrainInto(_, _, _)
DrainInto(dl, t, q) == IF q = <<>> THEN dl ELSE DrainInto(DeliverOne(dl, t, Head(q)), t, Tail(q))

Consume(t) ==
    /\ t \in executing \ dead /\ taskEdge[t] # <<>>
    /\ delivered' = [delivered EXCEPT ![t] = DeliverOne(@, t, Head(taskEdge[t]))]
    /\ taskEdge' = [taskEdge EXCEPT ![t] = Tail(@)]
    /\ UNCHANGED <<def, executing, forks, taskToForkKeys, ingest, written, status, nl, dvars>>

(* Fork immediately followed by the task consuming what it was handed (used by  *)
(* the trace specification, where the edges are not observable in between).      *)
ForkAndConsume ==
    /\ ingest # <<>>
    /\ LET p == Head(ingest)
       IN  delivered' = [t \in T |-> IF t \in dead THEN delivered[t]
                                      ELSE DrainInto(delivered[t], t, taskEdge[t] \o Rep(p, ForkCount(forks, t, p)))]
    /\ taskEdge' = [t \in T |-> <<>>]
    /\ ingest' = Tail(ingest)
    /\ UNCHANGED <<def, executing, forks, taskToForkKeys, written, status, nl, dvars>>

(* ---------------- lifecycle ---------------- *)
(* ingest is always the suffix written[h..] of the write order (FIFO, forked from *)
(* the head), so membership is a comparison with the head                          *)
InIngest(s) == ingest # <<>> /\ s >= Head(ingest).seq
MarkRacy(t) == [s \in DOMAIN status |-> IF InIngest(s) THEN [status[s] EXCEPT ![t] = "may"] ELSE status[s]]

StartTask(t) ==
    /\ t \notin executing /\ nl < MaxLifecycle
    /\ executing' = executing \cup {t}
    /\ taskToForkKeys' = [taskToForkKeys EXCEPT ![t] = @ \o ForkKeysOf(def[t])]
    /\ forks' = forks \cup { <<k, t>> : k \in Range(ForkKeysOf(def[t])) }
    /\ taskEdge' = [taskEdge EXCEPT ![t] = <<>>]
    /\ status' = MarkRacy(t)
    /\ nl' = nl + 1
    /\ lk' = Created(def[t])
    /\ UNCHANGED <<def, ingest, delivered, written, dead, died>>

(* StartTask returning an error AFTER newFork (the task's snapshot cannot be      *)
(* loaded): the task is not executing.  Code as found: the fork stays registered *)
(* with an edge nobody reads (FailCleansUp = FALSE); repaired: delFork undoes it *)
(* under the same lock, so nothing observable happens.                           *)
StartTaskFail(t) ==
    /\ t \notin executing /\ nl < MaxLifecycle /\ nl' = nl + 1
    /\ IF FailCleansUp
       THEN UNCHANGED <<forks, taskToForkKeys, taskEdge>>
       ELSE /\ taskToForkKeys' = [taskToForkKeys EXCEPT ![t] = @ \o ForkKeysOf(def[t])]
            /\ forks' = forks \cup { <<k, t>> : k \in Range(ForkKeysOf(def[t])) }
            /\ taskEdge' = [taskEdge EXCEPT ![t] = <<>>]
    /\ lk' = Created(def[t])
    /\ UNCHANGED <<def, executing, ingest, delivered, written, status, dead, died>>

(* A node of t fails at run time; the failure travels up the pipeline (each node  *)
(* aborts its parent edges) until the source node aborts the fork edge: buffered  *)
(* points are dropped, later Collects fail.  t stays in tm.tasks and tm.forks.     *)
Die(t) ==
    /\ t \in executing \ dead /\ Cardinality(died) < MaxDeaths
    /\ dead' = dead \cup {t} /\ died' = died \cup {t}
    /\ taskEdge' = [taskEdge EXCEPT ![t] = <<>>]
    /\ UNCHANGED <<def, executing, forks, taskToForkKeys, ingest, delivered, written, status, nl, lk>>

(* stopTask: a no-op (still returning nil) when t is not executing *)
DoStop(t) ==
    /\ nl < MaxLifecycle /\ nl' = nl + 1
    /\ IF t \in executing
       THEN /\ executing' = executing \ {t}
            /\ forks' = forks \ { <<k, t>> : k \in Range(taskToForkKeys[t]) }
            /\ taskToForkKeys' = [taskToForkKeys EXCEPT ![t] = <<>>]
            /\ delivered' = [delivered EXCEPT ![t] = DrainInto(@, t, taskEdge[t])]
            /\ taskEdge' = [taskEdge EXCEPT ![t] = <<>>]
            /\ status' = MarkRacy(t)
            /\ dead' = dead \ {t}
       ELSE UNCHANGED <<executing, forks, taskToForkKeys, delivered, taskEdge, status, dead>>
    /\ UNCHANGED <<def, ingest, written, died, lk>>
StopTask(t) == DoStop(t)
DeleteTask(t) == DoStop(t)      \* stopTask + delete hooks (none for these pipelines)

Lifecycle(t) == StartTask(t) \/ StartTaskFail(t) \/ StopTask(t) \/ DeleteTask(t)

Next ==
    \/ \E b \in Batches : WriteBatch(b)
    \/ Fork
    \/ \E t \in T : Consume(t) \/ Lifecycle(t) \/ Die(t)

Spec == Init /\ [][Next]_vars

(* ---------------- properties ---------------- *)
Statuses == {"must", "may", "mustnot"}
IngestIsSuffix ==
    \A i \in DOMAIN ingest : ingest[i] = written[Len(written) - Len(ingest) + i]
TypeOK ==
    /\ IngestIsSuffix
    /\ executing \subseteq T
    /\ \A pr \in forks : pr[2] \in T
    /\ \A s \in DOMAIN status : \A t \in T : status[s][t] \in Statuses
    /\ Len(status) = Len(written) /\ nl \in 0..MaxLifecycle
    /\ dead \subseteq executing /\ dead \subseteq died /\ died \subseteq T
    /\ \A t \in T : DOMAIN delivered[t] = DOMAIN def[t].froms

Settled(s, t) == ~InIngest(s) /\ \A i \in DOMAIN taskEdge[t] : taskEdge[t][i].seq # s
(* each point written while t is executing and selected by from() node k is    *)
(* passed on by that node exactly once (as soon as it has left the edges), and *)
(* nothing is ever passed on twice                                              *)
ExactlyOnce ==
    \A t \in T : \A k \in DOMAIN delivered[t] :
        LET q == delivered[t][k]
        IN  /\ \A i \in 1..(Len(q) - 1) : \A j \in (i + 1)..Len(q) : q[i] # q[j]
            /\ \A s \in DOMAIN written :
                  (status[s][t] = "must" /\ t \notin died /\ Selected(t, k, written[s]) /\ Settled(s, t))
                      => s \in Range(q)

(* nothing reaches a task that did not declare the dbrp, a from() node that    *)
(* does not select it, or a task that was not enabled                          *)
NeverForeign ==
    \A t \in T : \A k \in DOMAIN delivered[t] : \A i \in DOMAIN delivered[t][k] :
        LET s == delivered[t][k][i]
        IN  s \in DOMAIN written /\ Selected(t, k, written[s]) /\ status[s][t] # "mustnot"

OrderPreserved ==
    \A t \in T : \A k \in DOMAIN delivered[t] :
        \A i \in 1..(Len(delivered[t][k]) - 1) : delivered[t][k][i] < delivered[t][k][i + 1]

(* the routing table routes exactly to the executing tasks, under their keys;  *)
(* a stale entry would make forkPoint collect on a closed edge (a panic)        *)
RoutesOf(fk, t) == { pr[1] : pr \in { x \in fk : x[2] = t } }
TableConsistent ==
    \A t \in T :
        /\ RoutesOf(forks, t) = (IF t \in executing THEN Range(ForkKeysOf(def[t])) ELSE {})
        /\ Range(taskToForkKeys[t]) = RoutesOf(forks, t)

(* nothing is handed to a task that is not executing (its edge has no reader:   *)
(* after 1000 points forkPoint would block for ever, holding tm.mu.RLock)        *)
NoOrphanDelivery == \A t \in T : (t \notin executing \/ t \in dead) => taskEdge[t] = <<>>

(* a lifecycle call on u, or the death of u, changes nothing that belongs to    *)
(* another task t                                                                *)
NonInterferenceStep ==
    \A u \in T : (Lifecycle(u) \/ Die(u)) =>
        \A t \in T \ {u} :
            /\ delivered'[t] = delivered[t] /\ taskEdge'[t] = taskEdge[t]
            /\ RoutesOf(forks', t) = RoutesOf(forks, t)
            /\ (t \in executing') = (t \in executing)
            /\ \A s \in DOMAIN status : status'[s][t] = status[s][t]
NonInterference == [][NonInterferenceStep]_vars
=============================================================================
