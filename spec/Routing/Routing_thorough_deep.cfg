SPECIFICATION Spec
CONSTANTS
    TaskIds = {t1}
    Shapes <- MCShapesDeep
    Batches <- MCBatchesDeep
    DefaultRP = "rp1"
    MaxWrites = 4
    MaxLifecycle = 3
    Dedup = TRUE
    FailCleansUp = TRUE
    MaxDeaths = 0
    CacheLookup = FALSE
    StopAtFirstError = FALSE
SYMMETRY MCSymmetry
INVARIANTS
    TypeOK
    ExactlyOnce
    NeverForeign
    OrderPreserved
    TableConsistent
    NoOrphanDelivery
PROPERTY NonInterference
CHECK_DEADLOCK FALSE
