\* A task dies at run time (its fork edge is aborted, nobody stops it): the
\* other tasks must be unaffected (ExactlyOnce for the survivors, NonInterference
\* also over the Die step).
SPECIFICATION Spec
CONSTANTS
    TaskIds = {t1, t2}
    Shapes <- MCShapesDead
    Batches <- MCBatchesQuick
    DefaultRP = "rp1"
    MaxWrites = 2
    MaxLifecycle = 2
    Dedup = TRUE
    FailCleansUp = TRUE
    MaxDeaths = 1
    CacheLookup = FALSE
    StopAtFirstError = FALSE
SYMMETRY MCSymmetry
INVARIANTS
    TypeOK
    ExactlyOnce
    NeverForeign
    OrderPreserved
    TableConsistent
    NoOrphanDelivery
PROPERTY NonInterference
CHECK_DEADLOCK FALSE
