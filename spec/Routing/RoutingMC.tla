----------------------------- MODULE RoutingMC -----------------------------
(* Constants for the exhaustive configurations of Routing (TLC cfg files    *)
(* cannot contain records or sequences).                                    *)
EXTENDS Routing

A == [db |-> "d1", rp |-> "rp1"]
B == [db |-> "d2", rp |-> "rp2"]
C == [db |-> "d1", rp |-> "rp2"]
F(m, db, rp, pred) == [meas |-> m, db |-> db, rp |-> rp, pred |-> pred, gb |-> FALSE]
Sh(dbrps, froms) == [dbrps |-> dbrps, froms |-> froms]

S_all     == Sh(<<A>>, <<F("", "", "", "")>>)                                   \* stream|from()
S_m1      == Sh(<<A>>, <<F("m1", "", "", "")>>)                                 \* .measurement('m1')
S_db      == Sh(<<A, B>>, <<F("", "d2", "", "")>>)                              \* .database('d2') on a 2-dbrp task
S_rp      == Sh(<<A, B>>, <<F("m2", "", "rp1", "")>>)                           \* .retentionPolicy('rp1').measurement('m2')
S_pred    == Sh(<<A>>, <<F("", "", "", "a")>>)                                  \* .where(lambda: "tag" == 'a')
S_two     == Sh(<<A>>, <<F("m1", "", "", ""), F("", "", "", "")>>)              \* filtered + unfiltered from()
S_two2    == Sh(<<A, B>>, <<F("m1", "d1", "", ""), F("m2", "", "", "b")>>)      \* two filtered from() nodes
S_other   == Sh(<<B>>, <<F("", "", "", "")>>)                                   \* another dbrp only
S_three   == Sh(<<A, C>>, <<F("m1", "", "rp2", ""), F("", "", "", ""), F("m1", "", "", "")>>)

MCShapesQuick == {S_all, S_m1, S_db, S_pred, S_two, S_two2}
MCShapesThorough == {S_all, S_m1, S_db, S_rp, S_pred, S_two, S_two2, S_other}
MCShapesKnown == {S_two}
MCShapesDead == {S_all, S_m1, S_two, S_pred}
S_absent  == Sh(<<A>>, <<F("", "", "", "?b"), F("m1", "", "", "a")>>)                     \* !isPresent("tag") OR "tag" == 'b'
MCShapesDeep == MCShapesThorough \cup {S_three, S_absent}
MCShapesThree == {S_m1, S_two, S_db, S_other}

W1(dbrp, m, tag) == [db |-> dbrp.db, rp |-> dbrp.rp, pts |-> <<[meas |-> m, tag |-> tag]>>]
MCBatchesQuick ==
    { W1(A, "m1", "a"), W1(A, "m2", "b"), W1(B, "m1", "b"), W1(B, "m2", "a") }
MCBatchesDeep ==
    { W1(A, "m1", "a"), W1(A, "m1", ""), W1(A, "m2", "b"), W1(B, "m1", "b") }
MCBatchesThorough ==
    { W1(A, "m1", "a"), W1(A, "m2", "b"), W1(A, "m1", ""), W1(B, "m1", "b"), W1(B, "m2", "a"),
      [db |-> "d1", rp |-> "", pts |-> <<[meas |-> "m2", tag |-> "a"], [meas |-> "m1", tag |-> "a"]>>] }

MCSymmetry == Permutations(TaskIds)
=============================================================================
