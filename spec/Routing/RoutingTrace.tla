---------------------------- MODULE RoutingTrace ----------------------------
(* Trace specifications for Routing: validate executions of the real        *)
(* TaskMaster (driver c02).  Two levels over the same recorded lines:        *)
(*                                                                          *)
(* VERDICT level (TrSpecV, RoutingTrace.cfg) - what the property text        *)
(* promises, nothing about how the code routes.  Deterministic: one spec     *)
(* state per line.  Routing's own WriteBatch/StartTask/StopTask/DeleteTask   *)
(* keep the ghost state (written, status, executing); `ingest` holds the     *)
(* points not yet KNOWN to be forked (a Sync line = the driver saw its fence *)
(* point come out of the forking goroutine); a lifecycle call on t turns     *)
(* every such point, and every point whose write call overlaps the call,     *)
(* into "may" for t.  At an Obs line (t not executing, so StopTask has        *)
(* drained it) what the sinks under t's from() nodes have seen must          *)
(*   - contain every "must" point the node selects, known forked (exactly    *)
(*     once), - contain no point twice and be in write order,                *)
(*   - contain nothing the node does not select / the task did not declare / *)
(*     written while the task was not enabled,                                *)
(*   - be the written point (db, rp, measurement, tag) with the group the     *)
(*     node's groupBy gives it.                                               *)
(*                                                                          *)
(* IMPL level (TrSpecI, RoutingImplTrace.cfg) - the same lines against the   *)
(* code-shaped model: forkPoint is a silent step (FIFO, atomic w.r.t.         *)
(* lifecycle calls), Sync requires an empty ingest edge, Obs must equal       *)
(* `delivered` exactly.  A trace accepted at verdict level and rejected here *)
(* is model drift (reported, exit 0), not a violation.  Only the sequential  *)
(* driver modes are validated at this level.                                  *)
EXTENDS Routing, TraceCommon

VARIABLES l, inflight
tvars == <<vars, l, inflight>>

Ln == Trace[l]
IsEv(e) == l <= Len(Trace) /\ Ln.ev = e /\ l' = l + 1

NoTasks == [t \in {} |-> 0]
TrInit ==
    /\ def = NoTasks /\ executing = {} /\ forks = {} /\ taskToForkKeys = NoTasks
    /\ ingest = <<>> /\ taskEdge = NoTasks /\ delivered = NoTasks
    /\ written = <<>> /\ status = <<>> /\ nl = 0 /\ dead = {} /\ died = {} /\ lk = NoLookup
    /\ l = 1 /\ inflight = {} /\ HWInit

TrReset ==
    /\ IsEv("Reset") /\ Ln.rpdefault = DefaultRP
    /\ def' = Ln.tasks
    /\ executing' = {} /\ forks' = {}
    /\ taskToForkKeys' = [t \in DOMAIN Ln.tasks |-> <<>>]
    /\ ingest' = <<>>
    /\ taskEdge' = [t \in DOMAIN Ln.tasks |-> <<>>]
    /\ delivered' = [t \in DOMAIN Ln.tasks |-> EmptyDelivered(Ln.tasks[t])]
    /\ written' = <<>> /\ status' = <<>> /\ nl' = 0 /\ inflight' = {}
    /\ dead' = {} /\ died' = {} /\ lk' = NoLookup

(* a failed clause names itself in TLC's output (triage aid) *)
Chk(name, cond) == IF cond THEN TRUE ELSE PrintT(<<"C02-FAILED-CLAUSE", name, "line", l>>) /\ FALSE

BatchOf(r) == [db |-> r.db, rp |-> r.rp, pts |-> r.pts]

(* ---------- lines common to both levels ---------- *)
TrWrite ==
    /\ IsEv("Write")
    /\ Chk("write accepted", Ln.ret = "ok") /\ Ln.first = Len(written) + 1
    /\ WriteBatch(BatchOf(Ln))
    /\ UNCHANGED inflight

DoLc(op, t) ==
    CASE op = "start"  -> StartTask(t)
      [] op = "startfail" -> StartTaskFail(t)
      [] op = "stop"   -> StopTask(t)
      [] op = "delete" -> DeleteTask(t)
(* A task defined with dies = TRUE fails at run time (its httpOut route is      *)
(* refused) and is not stopped by anybody: the task itself is out of the verdict *)
(* (stopping it reports its error; what it received before dying is only checked  *)
(* for order, identity and foreignness), every other task must be unaffected.      *)
Dies(t) == Get(def[t], "dies", FALSE)
LcRetOK(r) ==
    CASE r.op = "startfail" -> r.ret # "ok"
      [] r.op \in {"stop", "delete"} /\ Dies(r.t) -> TRUE
      [] OTHER -> r.ret = "ok"
TrLc ==
    /\ IsEv("Lc") /\ Ln.t \in T
    /\ Chk("lifecycle call returned as expected", LcRetOK(Ln))
    /\ DoLc(Ln.op, Ln.t)
    /\ UNCHANGED inflight

TrEnd ==
    /\ IsEv("End")
    /\ Chk("a task on an undeclared dbrp received nothing", Ln.fence_foreign = 0)
    /\ UNCHANGED <<vars, inflight>>

(* ---------- verdict level ---------- *)
Sig(p) == p.db \o "/" \o p.rp \o "/" \o p.meas \o "/" \o p.tag
Grp(f, p) == IF f.gb THEN "tag=" \o p.tag ELSE ""

SinkOK(t, k, q) ==
    /\ Chk("NeverForeign",
           \A i \in DOMAIN q :
               /\ q[i].s \in DOMAIN written
               /\ Selected(t, k, written[q[i].s])
               /\ status[q[i].s][t] # "mustnot")
    /\ Chk("point identity and group",
           \A i \in DOMAIN q :
               /\ q[i].sig = Sig(written[q[i].s])
               /\ q[i].grp = Grp(def[t].froms[k], written[q[i].s]))
    /\ Chk("OrderPreserved / at most once", \A i \in 1..(Len(q) - 1) : q[i].s < q[i + 1].s)
    /\ Chk("ExactlyOnce",
           LET got == { q[i].s : i \in DOMAIN q }
           IN  \A s \in DOMAIN written :
                   (status[s][t] = "must" /\ ~Dies(t) /\ Selected(t, k, written[s]) /\ ~InIngest(s))
                       => s \in got)

(* the published statistics show no live input edge of a non-executing task with *)
(* points collected on it (a live edge with nothing collected is only reported;   *)
(* -1 = not measured at this observation)                                         *)
NoOrphan == Chk("nothing is routed to a task that is not executing", Ln.orphan_collected <= 0)

TrObsV ==
    /\ IsEv("Obs") /\ Ln.t \in T /\ Ln.t \notin executing
    /\ NoOrphan
    /\ Len(Ln.sinks) = Len(def[Ln.t].froms)
    /\ \A k \in DOMAIN Ln.sinks : SinkOK(Ln.t, k, Ln.sinks[k])
    /\ UNCHANGED <<vars, inflight>>

TrSyncV ==
    /\ IsEv("Sync") /\ inflight = {}
    /\ ingest' = <<>>
    /\ UNCHANGED <<def, executing, forks, taskToForkKeys, taskEdge, delivered, written, status, nl, inflight, dvars>>

(* the writer goroutine saw its own fence: its points up to `upto` are forked *)
TrSyncUptoV ==
    /\ IsEv("SyncUpto")
    /\ ingest' = SelectSeq(ingest, LAMBDA p : p.seq > Ln.upto)
    /\ UNCHANGED <<def, executing, forks, taskToForkKeys, taskEdge, delivered, written, status, nl, inflight, dvars>>

(* concurrent mode: calls are logged as Call/Ret pairs *)
TrWrCallV ==
    /\ IsEv("WrCall") /\ Ln.first = Len(written) + 1
    /\ WriteBatchR(BatchOf(Ln), inflight)
    /\ UNCHANGED inflight
TrWrRetV ==
    /\ IsEv("WrRet") /\ Chk("write accepted", Ln.ret = "ok")
    /\ UNCHANGED <<vars, inflight>>
TrLcCallV ==
    /\ IsEv("LcCall") /\ Ln.t \in T
    /\ inflight' = inflight \cup {Ln.t}
    /\ status' = MarkRacy(Ln.t)
    /\ UNCHANGED <<def, executing, forks, taskToForkKeys, ingest, taskEdge, delivered, written, nl, dvars>>
TrLcRetV ==
    /\ IsEv("LcRet") /\ Ln.t \in inflight
    /\ Chk("lifecycle call returned as expected", LcRetOK(Ln))
    /\ DoLc(Ln.op, Ln.t)
    /\ inflight' = inflight \ {Ln.t}

(* Histories that may take the whole process down run in a child process; the   *)
(* parent appends a Died line (with the first line of the panic) when the child   *)
(* did not survive.  No outcome of any history allows that: every other task must *)
(* keep receiving its points.                                                      *)
TrDied ==
    /\ IsEv("Died")
    /\ Chk("the daemon process survived", FALSE)
    /\ UNCHANGED <<vars, inflight>>

TrNextV == TrReset \/ TrWrite \/ TrLc \/ TrEnd \/ TrObsV \/ TrSyncV \/ TrSyncUptoV \/ TrDied
           \/ TrWrCallV \/ TrWrRetV \/ TrLcCallV \/ TrLcRetV
TrSpecV == TrInit /\ [][TrNextV]_tvars

(* ---------- impl level ---------- *)
(* forkPoint steps commute with Write lines (FIFO: Fork takes the head, Write   *)
(* appends), and lines that do not change or test the routing cannot tell when a *)
(* point was forked: silent steps are only taken in front of Lc and Sync lines.  *)
TrSilentI ==
    /\ l <= Len(Trace) /\ Ln.ev \in {"Lc", "Sync"}
    /\ ForkAndConsume /\ UNCHANGED <<l, inflight>>
TrSyncI == IsEv("Sync") /\ ingest = <<>> /\ UNCHANGED <<vars, inflight>>
TrObsI ==
    /\ IsEv("Obs") /\ Ln.t \in T /\ Ln.t \notin executing
    /\ Ln.orphan_edges <= 0
    /\ Len(Ln.sinks) = Len(def[Ln.t].froms)
    /\ Dies(Ln.t) \/ \A k \in DOMAIN Ln.sinks : [i \in DOMAIN Ln.sinks[k] |-> Ln.sinks[k][i].s] = delivered[Ln.t][k]
    /\ UNCHANGED <<vars, inflight>>

(* Partial-order reduction: forking a point that NO task of the trace is ever    *)
(* routed (dbrp not declared, or no from() names its measurement or none)         *)
(* commutes with every lifecycle call, so such a head is forked first.  (Relevance*)
(* to the task of the next call only is not enough: the point may still be        *)
(* relevant to the task of the call after it.)                                     *)
Relevant(p, t) == Declares(def[t], p) /\ \E k \in DOMAIN def[t].froms : def[t].froms[k].meas \in {"", p.meas}
TrLcI ==
    /\ IF ingest = <<>> THEN TRUE ELSE \E t \in T : Relevant(Head(ingest), t)
    /\ TrLc

TrNextI == TrReset \/ TrWrite \/ TrLcI \/ TrEnd \/ TrObsI \/ TrSyncI \/ TrSilentI
TrSpecI == TrInit /\ [][TrNextI]_tvars

HW == HWMark(l)
Accepted == HWAccepted
=============================================================================
