\* Observation only: forkPoint that remembers the inner maps of tm.forks from the
\* previous point and looks them up again only when the (db, rp, measurement)
\* changes.  TLC must find: a point of K forked while K has no inner map, the
\* first subscriber of K started, another point of exactly K -> not delivered.
SPECIFICATION Spec
CONSTANTS
    TaskIds = {t1}
    Shapes <- MCShapesKnown
    Batches <- MCBatchesQuick
    DefaultRP = "rp1"
    MaxWrites = 2
    MaxLifecycle = 1
    Dedup = TRUE
    FailCleansUp = TRUE
    MaxDeaths = 0
    CacheLookup = TRUE
    StopAtFirstError = FALSE
INVARIANTS
    TypeOK
    ExactlyOnce
CHECK_DEADLOCK FALSE
