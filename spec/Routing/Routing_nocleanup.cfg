\* Observation only: StartTask as found - an error after newFork leaves the fork
\* registered.  TLC must find the stale routing entry (TableConsistent) - keeps
\* the invariant honest; on the code the same state shows as points collected
\* on an edge nobody reads, and as a StopTask that never returns.
SPECIFICATION Spec
CONSTANTS
    TaskIds = {t1}
    Shapes <- MCShapesKnown
    Batches <- MCBatchesQuick
    DefaultRP = "rp1"
    MaxWrites = 1
    MaxLifecycle = 2
    Dedup = TRUE
    FailCleansUp = FALSE
    MaxDeaths = 0
    CacheLookup = FALSE
    StopAtFirstError = FALSE
INVARIANTS
    TypeOK
    TableConsistent
CHECK_DEADLOCK FALSE
