SPECIFICATION TrSpecI
CONSTANTS
    TaskIds <- MCNone
    Shapes <- MCNone
    Batches <- MCNone
    DefaultRP = "rp1"
    MaxWrites = 1000000
    MaxLifecycle = 1000000
    Dedup = TRUE
    FailCleansUp = TRUE
    MaxDeaths = 0
    CacheLookup = FALSE
    StopAtFirstError = FALSE
INVARIANTS
    TypeOK
    ExactlyOnce
    NeverForeign
    OrderPreserved
    TableConsistent
CONSTRAINT HW
POSTCONDITION Accepted
CHECK_DEADLOCK FALSE
