SPECIFICATION Spec
CONSTANTS
    TaskIds = {t1, t2, t3}
    Shapes <- MCShapesThree
    Batches <- MCBatchesQuick
    DefaultRP = "rp1"
    MaxWrites = 2
    MaxLifecycle = 3
    Dedup = TRUE
    FailCleansUp = TRUE
    MaxDeaths = 0
    CacheLookup = FALSE
    StopAtFirstError = FALSE
SYMMETRY MCSymmetry
INVARIANTS
    TypeOK
    ExactlyOnce
    NeverForeign
    OrderPreserved
    TableConsistent
    NoOrphanDelivery
PROPERTY NonInterference
CHECK_DEADLOCK FALSE
