\* decision tables: every table with any number of grant-carrying paths (5^7 = 78125)
SPECIFICATION Spec
CONSTANTS
    NameOrder <- MCNameOrder
    GrantPathOrder <- MCGrantAbs
    OptOrder <- MCOptOrder
    MaxGranted = 7
    ChainOnly = FALSE
    AdminMaxGranted = 1
    MaxSegs = 4
    RelPathOrder <- MCRelPaths
    DbAlphabet <- MCDbAlphabet
    MaxDbLen = 5
    HttpOn = FALSE
    HttpCfgs <- MCNoHttpCfg
    HttpMethods <- MCEmpty
    HttpPaths <- MCEmpty
    HttpCreds <- MCEmpty
    HttpWriteDbs <- MCEmpty
    TestMethods = {}
    TestPatterns = {}
    TestSubtrees = {}
INVARIANTS
    TypeOK
    NearestGrantDecides
    TricksNeverWiden
    CleanMatchesRules
    DbMapInjective
    DbSingleElement
CHECK_DEADLOCK FALSE
