\* HTTP outcomes logged by driver c20http, thorough tier (tables with at most 2 carriers)
SPECIFICATION TrSpec
CONSTANTS
    NameOrder <- MCHttpNames
    GrantPathOrder <- MCHttpGrant
    OptOrder <- MCOptOrder
    MaxGranted = 2
    ChainOnly = FALSE
    AdminMaxGranted = 0
    MaxSegs = 0
    RelPathOrder <- MCEmpty
    DbAlphabet <- MCDbAlphabet
    MaxDbLen = 1
    ApiAlphabet <- MCApiAlphabet
    MaxApiLen = 1
    NRandom = 0
    HttpOn = TRUE
    HttpCfgs <- MCHttpCfgs
    HttpMethods <- MCHttpMethods
    HttpPaths <- MCHttpPaths
    HttpCreds <- MCHttpCreds
    HttpWriteDbs <- MCHttpWriteDbs
    TestMethods <- MCTestMethods
    TestPatterns <- MCTestPatterns
    TestSubtrees <- MCTestSubtrees
CONSTRAINT HW
POSTCONDITION AcceptedHttp
CHECK_DEADLOCK FALSE
