------------------------------- MODULE AuthMC -------------------------------
(* Constants for the exhaustive configurations of Auth (cfg files cannot   *)
(* contain sequences).                                                     *)
EXTENDS Auth

(* walk universe: two names, one a string prefix of the other *)
MCNameOrder == <<"x", "xx">>
MCGrantAbs == << <<>>, <<"x">>, <<"xx">>, <<"x", "x">>, <<"x", "xx">>, <<"xx", "x">>, <<"xx", "xx">> >>
MCOptOrder == << {"none"}, {"read"}, {"write", "delete"}, {"all"} >>
MCRelPaths == << <<>>, <<"x">>, <<"x", "xx">>, <<".">>, <<"..", "x">>, <<"x", "..", "xx">>, <<"x", "">> >>
MCDbAlphabet == <<"x", "/", "_">>
MCEmpty == <<>>
MCNoHttpCfg == { [auth |-> TRUE, pprof |-> FALSE] }

(* HTTP universe: the real route names *)
MCHttpNames == <<"api", "database", "t", "x", "write", "ping", "preview", "debug", "vars", "u", "s", "a", "b", "d_clean", "e_clean", "d_e_dirty">>
MCHttpGrant == << <<>>, <<"api">>, <<"api", "t">>, <<"api", "t", "x">>, <<"api", "write">>, <<"api", "preview">>,
                  <<"api", "s">>, <<"api", "s", "a">>, <<"database">>, <<"database", "d_clean">> >>
MCHttpCfgs == { [auth |-> TRUE, pprof |-> FALSE], [auth |-> TRUE, pprof |-> TRUE], [auth |-> FALSE, pprof |-> FALSE] }
MCHttpMethods == <<"GET", "POST", "PATCH", "PUT", "DELETE", "HEAD", "OPTIONS", "TRACE", "get">>
MCHttpPaths == <<
    <<"kapacitor", "v1", "t">>,
    <<"kapacitor", "v1", "t", "x">>,
    <<"kapacitor", "v1", "t", "">>,
    <<"kapacitor", "v1", "t", "..", "write">>,
    <<"kapacitor", "v1", "", "t">>,
    <<"kapacitor", "v1", "t", ".", "x">>,
    <<"kapacitor", "v1", "write">>,
    <<"write">>,
    <<"..", "write">>,
    <<"kapacitor", "v1", "ping">>,
    <<"kapacitor", "v1preview", "t">>,
    <<"kapacitor", "v1preview", "write">>,
    <<"kapacitor", "v1", "debug", "vars">>,
    <<"kapacitor", "v1", "u">>,
    <<>>,
    <<"kapacitor", "v1", "s", "a">>,
    <<"kapacitor", "v1", "s", "a", "">>,
    <<"kapacitor", "v1", "s", "">>,
    <<"kapacitor", "v1", "s">>,
    <<"kapacitor", "v1", "s", "a", "..", "b">>,
    <<"kapacitor", "v1", "s", "b">> >>
MCHttpCreds == <<"none", "basic_ok", "basic_badpw", "basic_nouser", "basic_emptyuser", "basic_admin",
                 "query_ok", "query_badpw", "query_nopw", "badbasic_query_ok",
                 "bearer_ok", "bearer_admin", "bearer_badsig", "bearer_noexp", "bearer_expired", "bearer_nouser",
                 "bearer_algnone", "bearer_query_ok", "sub_ok", "sub_bad">>
MCHttpCredsQuick == <<"none", "basic_ok", "basic_badpw", "basic_admin", "query_ok", "query_nopw",
                      "bearer_ok", "bearer_badsig", "sub_ok", "sub_bad">>
MCHttpWriteDbs == << <<"d">>, <<"e">>, <<"d", "/", "e">> >>
MCTestMethods == {"GET", "POST", "PATCH", "PUT", "DELETE", "HEAD"}
MCTestPatterns == { <<"t">>, <<"t", "x">> }
MCTestSubtrees == { <<"s">> }
=============================================================================
