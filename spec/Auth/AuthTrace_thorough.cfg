\* decision tables logged by driver c20, thorough tier (all 5^7 tables)
SPECIFICATION TrSpec
CONSTANTS
    NameOrder <- MCNameOrder
    GrantPathOrder <- MCGrantAbs
    OptOrder <- MCOptOrder
    MaxGranted = 7
    ChainOnly = FALSE
    AdminMaxGranted = 1
    MaxSegs = 4
    RelPathOrder <- MCRelPaths
    DbAlphabet <- MCDbAlphabet
    MaxDbLen = 5
    ApiAlphabet <- MCApiAlphabet
    MaxApiLen = 5
    NRandom = 6000
    HttpOn = FALSE
    HttpCfgs <- MCNoHttpCfg
    HttpMethods <- MCEmpty
    HttpPaths <- MCEmpty
    HttpCreds <- MCEmpty
    HttpWriteDbs <- MCEmpty
    TestMethods = {}
    TestPatterns = {}
    TestSubtrees = {}
CONSTRAINT HW
POSTCONDITION AcceptedDirect
CHECK_DEADLOCK FALSE
