---------------------------- MODULE AuthTrace ----------------------------
(* Trace specification for Auth: TLC recomputes every decision the driver  *)
(* c20 / c20http obtained from the real code.                              *)
(*                                                                         *)
(* One trace file = one residue class of table ranks ("part k of K").      *)
(* Lines: Reset, Paths (binds the driver's request enumeration to the      *)
(* spec's and checks the real path.Clean), Tab (one grant table: the       *)
(* decision bitmask of every request resource), Node (single-carrier       *)
(* tables with arbitrary privilege bitmasks), Key (a grant whose key is a   *)
(* dirty path), ApiRes / DbRes (resource                                   *)
(* names), Rand (seeded deeper tables), HttpReqs / Http (filter chain).    *)
(*                                                                         *)
(* Verdict level: the Check(..) conjuncts - the properties of Auth.tla     *)
(* evaluated on the LOGGED values.  Drift level: the logged value differs  *)
(* from the code-shaped Impl although the property holds - printed as      *)
(* C20-DRIFT, never a rejection.  The postcondition demands that the       *)
(* number of validated tables equals the cardinality of the part's         *)
(* universe, computed here from the constants (not taken from the driver). *)
EXTENDS Auth, TraceCommon

CONSTANTS ApiAlphabet, MaxApiLen, NRandom

VARIABLES l, last, cnt
tvars == <<vars, l, last, cnt>>

Ln == Trace[l]
IsEv(e) == l <= Len(Trace) /\ Ln.ev = e /\ l' = l + 1
Check(name, cond) == IF cond THEN TRUE ELSE (PrintT(<<"C20-FAIL", name, "line", l>>) /\ FALSE)
Drift(name, cond) == IF cond THEN TRUE ELSE PrintT(<<"C20-DRIFT", name, "line", l>>)

PartK == Trace[1].part
PartN == Trace[1].parts

---------------------------------------------------------------------------
(* tables as logged: one bitmask (or -1 = no grant) per entry of GrantPathOrder *)
NG == Len(GrantPathOrder)
NOpt == Len(OptOrder)
TotalRanks == Pow(NOpt + 1, NG)
InPart(rank) == rank % PartN = PartK - 1        \* part k of K holds the tables whose rank is k-1 modulo K
TabOfMasks(g) ==
    [q \in { GrantPathOrder[j] : j \in { k \in 1..NG : g[k] # -1 } } |-> SetOfMask(g[IndexIn(GrantPathOrder, q)])]
InOpts(g) == \A j \in 1..NG : g[j] = -1 \/ (g[j] \in 0..FullMask /\ SetOfMask(g[j]) \in Range(OptOrder))
CodeOf(m) == IF m = -1 THEN 0 ELSE IndexIn(OptOrder, SetOfMask(m))
RECURSIVE RankFrom(_, _)
RankFrom(g, j) == IF j > NG THEN 0 ELSE CodeOf(g[j]) * Pow(NOpt + 1, j - 1) + RankFrom(g, j + 1)
NGranted(g) == Cardinality({ j \in 1..NG : g[j] # -1 })

Comparable(p, q) == IsPrefix(p, q) \/ IsPrefix(q, p)
ChainIdx(C) == \A i \in C, j \in C : Comparable(GrantPathOrder[i], GrantPathOrder[j])
ChainOK(g) == ChainOnly => ChainIdx({ j \in 1..NG : g[j] # -1 })

(* cardinality of this part's table universe, from the constants: carrier    *)
(* sets of at most maxg paths (chains only if ChainOnly), every assignment   *)
(* of privilege sets, rank inside the part                           *)
RECURSIVE AssignRank(_, _, _)
AssignRank(C, f, j) == IF j > NG THEN 0 ELSE (IF j \in C THEN f[j] * Pow(NOpt + 1, j - 1) ELSE 0) + AssignRank(C, f, j + 1)
CarrierSets(maxg) == { C \in SUBSET (1..NG) : Cardinality(C) <= maxg /\ (ChainOnly => ChainIdx(C)) }
PartTables(maxg) ==
    Cardinality(UNION { { <<C, f>> : f \in { h \in [C -> 1..NOpt] : InPart(AssignRank(C, h, 1)) } }
                        : C \in CarrierSets(maxg) })

---------------------------------------------------------------------------
(* the properties on logged decision tables *)
AccAt(a, t, i) ==
    IF i <= NAbs THEN AccMasksClean(a, t, AbsPathSeq[NormIdx[i]]) ELSE {IF a THEN FullMask ELSE 1}
NearestOK(a, t, d) ==
    LET acc == TLCEval([j \in NormIdxSet |-> AccMasksClean(a, t, AbsPathSeq[j])]) IN
    /\ \A i \in 1..NAbs : d[i] \in acc[NormIdx[i]]
    /\ \A i \in (NAbs + 1)..NReq : d[i] = (IF a THEN FullMask ELSE 1)
(* evaluated only after a failed check: the first offending case, spelled out *)
ReqString(i) == IF i <= NAbs THEN Render(AbsPathSeq[i]) ELSE RenderRel(RelPathOrder[i - NAbs])
ExplainNearest(a, t, d) ==
    LET bad == { i \in 1..NReq : d[i] \notin AccAt(a, t, i) } IN
    IF bad = {} THEN TRUE
    ELSE LET i == CHOOSE i \in bad : \A j \in bad : i <= j IN
         PrintT(<<"C20-CASE", "grants", [q \in DOMAIN t |-> t[q]], "resource", ReqString(i),
                  "privileges the code allows", SetOfMask(d[i]),
                  "privilege sets the specification accepts", { SetOfMask(m) : m \in AccAt(a, t, i) }>>)
ExplainTricks(d) ==
    LET bad == { i \in 1..NAbs : d[i] # d[NormIdx[i]] } IN
    IF bad = {} THEN TRUE
    ELSE LET i == CHOOSE i \in bad : \A j \in bad : i <= j IN
         PrintT(<<"C20-CASE", "resource", ReqString(i), "allows", SetOfMask(d[i]),
                  "but its clean form", ReqString(NormIdx[i]), "allows", SetOfMask(d[NormIdx[i]])>>)
TricksOK(d) == \A i \in 1..NAbs : d[i] = d[NormIdx[i]]
ImplOK(a, t, d) == LET id == TLCEval(ImplDec(a, t)) IN \A i \in 1..NReq : d[i] = id[i]

Zero == [paths |-> 0, ntab |-> 0, atab |-> 0, node |-> 0, key |-> 0, api |-> 0, db |-> 0, rand |-> 0, hreqs |-> 0, http |-> 0]
Bump(f) == cnt' = [cnt EXCEPT ![f] = @ + 1]

TrInit ==
    /\ adm = FALSE /\ tab = EmptyTab /\ dec = <<>> /\ hcfg = [auth |-> TRUE, pprof |-> FALSE] /\ rq = Idle
    /\ l = 1 /\ last = -1 /\ cnt = Zero
    /\ TLCSet(1, 0) /\ TLCSet(2, Zero)

Keep == UNCHANGED <<adm, tab, dec, hcfg, rq>>

TrReset == IsEv("Reset") /\ l = 1 /\ last' = -1 /\ cnt' = Zero /\ Keep

(* the driver's enumeration of request resources is the spec's; the strings *)
(* it handed to the code are the renderings; the real path.Clean agrees     *)
(* with the normal form of the documented rules                             *)
TrPaths ==
    /\ IsEv("Paths")
    /\ Check("universe-paths", Ln.paths = AbsPathSeq /\ Ln.rel = RelPathOrder)
    /\ Check("universe-render", /\ \A i \in 1..NAbs : Ln.strs[i] = Render(AbsPathSeq[i])
                                /\ \A i \in 1..NRel : Ln.relstrs[i] = RenderRel(RelPathOrder[i]))
    /\ Check("CleanMatchesRules", \A i \in 1..NAbs : Ln.clean[i] = Render(AbsPathSeq[NormIdx[i]]))
    /\ Bump("paths") /\ UNCHANGED last /\ Keep

TrTab ==
    /\ IsEv("Tab") /\ cnt.paths = 1
    /\ LET g == Ln.g
           a == Ln.admin
           t == TabOfMasks(g)
           r == (IF a THEN TotalRanks ELSE 0) + RankFrom(g, 1)
       IN /\ Check("universe-table", /\ Len(g) = NG /\ InOpts(g)
                                     /\ NGranted(g) <= (IF a THEN AdminMaxGranted ELSE MaxGranted)
                                     /\ ChainOK(g)
                                     /\ InPart(RankFrom(g, 1))
                                     /\ r > last /\ Len(Ln.dec) = NReq)
          /\ Check("NearestGrantDecides", NearestOK(a, t, Ln.dec) \/ (ExplainNearest(a, t, Ln.dec) /\ FALSE))
          /\ Check("TricksNeverWiden", TricksOK(Ln.dec) \/ (ExplainTricks(Ln.dec) /\ FALSE))
          /\ Drift("decision-table", ImplOK(a, t, Ln.dec))
          /\ adm' = a /\ tab' = t /\ last' = r
          /\ Bump(IF a THEN "atab" ELSE "ntab")
    /\ UNCHANGED <<dec, hcfg, rq>>

(* one carrier, any of the 32 privilege bitmasks *)
TrNode ==
    /\ IsEv("Node") /\ cnt.paths = 1
    /\ LET g == Ln.g
           t == TabOfMasks(g)
           r == 2 * TotalRanks + (Ln.at - 1) * (FullMask + 1) + Ln.mask
       IN /\ Check("universe-node", /\ Len(g) = NG /\ Ln.at \in 1..NG /\ Ln.mask \in 0..FullMask
                                    /\ \A j \in 1..NG : g[j] = (IF j = Ln.at THEN Ln.mask ELSE -1)
                                    /\ r > last /\ Len(Ln.dec) = NReq /\ ~Ln.admin)
          /\ Check("NearestGrantDecides", NearestOK(FALSE, t, Ln.dec) \/ (ExplainNearest(FALSE, t, Ln.dec) /\ FALSE))
          /\ Check("TricksNeverWiden", TricksOK(Ln.dec) \/ (ExplainTricks(Ln.dec) /\ FALSE))
          /\ Drift("decision-table", ImplOK(FALSE, t, Ln.dec))
          /\ adm' = FALSE /\ tab' = t /\ last' = r
          /\ Bump("node")
    /\ UNCHANGED <<dec, hcfg, rq>>

(* a table given with a dirty key: NewUser stores the grant under the       *)
(* normalised path (a relative key can never match an absolute resource)    *)
TrKey ==
    /\ IsEv("Key") /\ cnt.paths = 1
    /\ LET i == Ln.i
           t == IF ReqAbs(i) THEN (AbsPathSeq[NormIdx[i]] :> {"read"}) ELSE EmptyTab
           r == 3 * TotalRanks + i
       IN /\ Check("universe-key", i \in 1..NReq /\ r > last /\ Ln.key = ReqPath(i) /\ Ln.abs = ReqAbs(i) /\ Ln.keystr = ReqString(i) /\ Len(Ln.dec) = NReq)
          /\ Check("GrantKeyNormalised", ReqAbs(i) => Ln.stored = <<Render(AbsPathSeq[NormIdx[i]])>>)
          /\ Check("NearestGrantDecides", NearestOK(FALSE, t, Ln.dec) \/ (ExplainNearest(FALSE, t, Ln.dec) /\ FALSE))
          /\ Check("TricksNeverWiden", TricksOK(Ln.dec) \/ (ExplainTricks(Ln.dec) /\ FALSE))
          /\ Drift("decision-table", ImplOK(FALSE, t, Ln.dec))
          /\ last' = r
    /\ Bump("key") /\ Keep

(* auth.APIResource = the normalised "/api" + p *)
ApiNameSeq == TLCEval(StringsUpTo(ApiAlphabet, MaxApiLen))
TrApiRes ==
    /\ IsEv("ApiRes")
    /\ Check("universe-api", Ln["in"] = ApiNameSeq /\ \A i \in DOMAIN ApiNameSeq : Ln.strs[i] = Str(ApiNameSeq[i]))
    /\ Check("APIResource", \A i \in DOMAIN ApiNameSeq : Ln.out[i] = Render(Norm(<<"api">> \o SplitSlash(ApiNameSeq[i]))))
    /\ Drift("APIResource", \A i \in DOMAIN ApiNameSeq : Ln.out[i] = Render(ApiResourceOfChars(ApiNameSeq[i])))
    /\ Bump("api") /\ UNCHANGED last /\ Keep

(* auth.DatabaseResource: one element below /database, injective - except   *)
(* for the known collision class, which is reported                         *)
NDb == Len(DbNameSeq)
Collisions(out) == { ij \in DbPairs : out[ij[1]] = out[ij[2]] }
TrDbRes ==
    /\ IsEv("DbRes")
    /\ Check("universe-db", Ln.names = DbNameSeq /\ \A i \in 1..NDb : Ln.strs[i] = Str(DbNameSeq[i]))
    /\ Check("DbSingleElement",
             \A i \in 1..NDb :
                /\ Render(Ln.outsegs[i]) = Ln.out[i]
                /\ Ln.outsegs[i][1] = "database"
                /\ IF DbNameSeq[i] = <<>> THEN Len(Ln.outsegs[i]) = 1
                   ELSE Len(Ln.outsegs[i]) = 2 /\ Ln.outsegs[i][2] \notin Special)
    /\ LET col == Collisions(Ln.out) IN
       /\ Check("DbMapInjective", \A ij \in col : KnownDbCollision(DbNameSeq[ij[1]], DbNameSeq[ij[2]]))
       /\ (IF col # {} THEN PrintT(<<"KF-HIT", "db-dirty-collision">>) ELSE TRUE)
    /\ Drift("DatabaseResource", \A i \in 1..NDb : Ln.out[i] = Render(DbResource(DbNameSeq[i])))
    /\ Bump("db") /\ UNCHANGED last /\ Keep

(* seeded random deeper tables: explicit grant paths and resources; the     *)
(* normal form is computed with the algorithm (the rules were compared with *)
(* it exhaustively on the short paths)                                      *)
TrRand ==
    /\ IsEv("Rand")
    /\ LET t == [q \in Range(Ln.gp) |-> SetOfMask(Ln.gm[IndexIn(Ln.gp, q)])] IN
       /\ Check("rand-render", \A i \in DOMAIN Ln.reqs : Ln.strs[i] = Render(Ln.reqs[i]))
       /\ Check("NearestGrantDecides",
                \A i \in DOMAIN Ln.reqs : Ln.dec[i] \in AccMasksClean(FALSE, t, CleanAbs(Ln.reqs[i])))
       /\ Drift("decision-table",
                \A i \in DOMAIN Ln.reqs : Ln.dec[i] = WalkMask(FALSE, t, CleanAbs(Ln.reqs[i])))
    /\ Bump("rand") /\ UNCHANGED last /\ Keep

---------------------------------------------------------------------------
(* HTTP *)
ReqTuple(r) == <<r.m, r.p, r.c, r.db>>
HttpGrantStrs == [j \in 1..NG |-> Render(GrantPathOrder[j])]
TrHttpReqs ==
    /\ IsEv("HttpReqs")
    /\ Check("universe-http", /\ Len(Ln.reqs) = Len(HttpReqSeq)
                              /\ \A j \in DOMAIN HttpReqSeq : Ln.reqs[j] = ReqTuple(HttpReqSeq[j]) /\ Ln.urls[j] = Render(HttpReqSeq[j].p))
    \* the driver spells the database grant with the real DatabaseResource; if the
    \* encoding is ever repaired that is drift, the hierarchy is what matters
    /\ Check("universe-grants", \A j \in 1..NG : GrantPathOrder[j] = <<>> \/ GrantPathOrder[j][1] = "database" \/ Ln.grants[j] = HttpGrantStrs[j])
    /\ Drift("universe-grants", \A j \in 1..NG : Ln.grants[j] = HttpGrantStrs[j])
    /\ Bump("hreqs") /\ UNCHANGED last /\ Keep

(* logged outcome = status*100 + served*10 + who *)
OutStatus(o) == o \div 100
OutServed(o) == (o \div 10) % 10 = 1
OutWho(o) == o % 10
ImplOut(cfg, t, r) ==
    LET s == RunReq(Recv(r), t, cfg) IN
    s.status * 100 + (IF s.served THEN 10 ELSE 0)
        + (IF s.served /\ s.route.kind = "test" THEN (IF s.who = "admin" THEN 2 ELSE 1) ELSE 0)
HttpInfoSeq == TLCEval([j \in DOMAIN HttpReqSeq |-> ReqInfo(HttpReqSeq[j])])
ExplainHttp(cfg, t, out) ==
    LET bad == { j \in DOMAIN HttpReqSeq : OutServed(out[j]) \notin RefServeI(cfg, t, HttpInfoSeq[j]) } IN
    IF bad = {} THEN TRUE
    ELSE LET j == CHOOSE j \in bad : \A k \in bad : j <= k IN
         PrintT(<<"C20-CASE", "handler", cfg, "grants of user u", [q \in DOMAIN t |-> t[q]],
                  "request", HttpReqSeq[j].m, Render(HttpReqSeq[j].p), "credentials", HttpReqSeq[j].c, "db", Str(HttpReqSeq[j].db),
                  "status", OutStatus(out[j]), "served", OutServed(out[j]),
                  "specification expects served in", RefServeI(cfg, t, HttpInfoSeq[j])>>)
TrHttp ==
    /\ IsEv("Http") /\ cnt.hreqs = 1
    /\ LET g == Ln.g
           cfg == [auth |-> Ln.auth, pprof |-> Ln.pprof]
           t == TabOfMasks(g)
           ci == IF cfg.auth /\ ~cfg.pprof THEN 0 ELSE IF cfg.auth THEN 1 ELSE 2
           r == ci * TotalRanks + RankFrom(g, 1)
           N == Len(HttpReqSeq)
       IN /\ Check("universe-http-table", /\ Len(g) = NG /\ InOpts(g) /\ cfg \in HttpCfgs
                                          /\ NGranted(g) <= (IF ci = 0 THEN MaxGranted ELSE 0)
                                          /\ ChainOK(g)
                                          /\ InPart(RankFrom(g, 1))
                                          /\ r > last /\ Len(Ln.out) = N)
          /\ Check("ServedIffAuthorised",
                   (\A j \in 1..N : OutServed(Ln.out[j]) \in RefServeI(cfg, t, HttpInfoSeq[j])) \/ (ExplainHttp(cfg, t, Ln.out) /\ FALSE))
          /\ Check("NoCredsNoService",
                   \A j \in 1..N : (OutServed(Ln.out[j]) /\ NeedAuth(cfg, HttpReqSeq[j])) => CredWho(HttpReqSeq[j].c) # "invalid")
          /\ Check("TricksNeverServed",
                   \A j \in 1..N : OutServed(Ln.out[j]) =>
                        LET p == HttpReqSeq[j].p IN
                        Canon(p) /\ (Tricky(p) => InSubtree(HttpReqSeq[j].m, FinalPath(p)) /\ Last(p) = "" /\ ~Tricky(Front(p))))
          /\ Check("ServedAs",
                   \A j \in 1..N : OutWho(Ln.out[j]) # 0 =>
                        OutWho(Ln.out[j]) = (IF RefWho(cfg, HttpReqSeq[j]) = "admin" THEN 2 ELSE 1))
          /\ Drift("http-outcome", \A j \in 1..N : Ln.out[j] = ImplOut(cfg, t, HttpReqSeq[j]))
          /\ tab' = t /\ hcfg' = cfg /\ last' = r
          /\ Bump("http")
    /\ UNCHANGED <<adm, dec, rq>>

TrNext == TrReset \/ TrPaths \/ TrTab \/ TrNode \/ TrKey \/ TrApiRes \/ TrDbRes \/ TrRand \/ TrHttpReqs \/ TrHttp
TrSpec == TrInit /\ [][TrNext]_tvars

HW == IF l > TLCGet(1) THEN TLCSet(1, l) /\ TLCSet(2, cnt) ELSE TRUE

(* acceptance: every line explained, and the part's universe is covered:    *)
(* ranks are strictly increasing (so tables are pairwise distinct) and      *)
(* their number equals the number of tables of the universe in the part     *)
DirectComplete(c) ==
    /\ c.paths = 1
    /\ c.ntab = PartTables(MaxGranted)
    /\ c.atab = PartTables(AdminMaxGranted)
    /\ (PartK = 1 => c.node = NG * (FullMask + 1) /\ c.key = NReq /\ c.api = 1 /\ c.db = 1 /\ c.rand = NRandom)
    /\ c.http = 0
HttpComplete(c) ==
    /\ c.hreqs = 1
    /\ c.http = PartTables(MaxGranted) + 2 * PartTables(0)
    /\ c.ntab = 0 /\ c.node = 0
(* bin/check --replay validates a minimised segment (Reset, universe line,  *)
(* offending line): env C20_REPLAY switches the completeness demand off     *)
Replaying == "C20_REPLAY" \in DOMAIN IOEnv
AcceptedDirect ==
    /\ HWAccepted
    /\ LET c == TLCGet(2) IN
       IF Replaying THEN TRUE
       ELSE IF DirectComplete(c)
       THEN PrintT(<<"C20-PART-OK", "direct", PartK, PartN, c.ntab + c.atab + c.node + c.key, (c.ntab + c.atab + c.node + c.key) * NReq * NP>>)
       ELSE PrintT(<<"C20-INCOMPLETE", "direct", PartK, PartN, c>>) /\ FALSE
AcceptedHttp ==
    /\ HWAccepted
    /\ LET c == TLCGet(2) IN
       IF Replaying THEN TRUE
       ELSE IF HttpComplete(c)
       THEN PrintT(<<"C20-PART-OK", "http", PartK, PartN, c.http, c.http * Len(HttpReqSeq)>>)
       ELSE PrintT(<<"C20-INCOMPLETE", "http", PartK, PartN, c>>) /\ FALSE
=============================================================================
