\* HTTP request life cycle: every table with at most 1 grant-carrying path
SPECIFICATION Spec
CONSTANTS
    NameOrder <- MCHttpNames
    GrantPathOrder <- MCHttpGrant
    OptOrder <- MCOptOrder
    MaxGranted = 1
    AdminMaxGranted = 0
    MaxSegs = 0
    RelPathOrder <- MCEmpty
    DbAlphabet <- MCDbAlphabet
    MaxDbLen = 1
    HttpOn = TRUE
    HttpCfgs <- MCHttpCfgs
    HttpMethods <- MCHttpMethods
    HttpPaths <- MCHttpPaths
    HttpCreds <- MCHttpCredsQuick
    HttpWriteDbs <- MCHttpWriteDbs
    TestMethods <- MCTestMethods
    TestPatterns <- MCTestPatterns
    TestSubtrees <- MCTestSubtrees
INVARIANTS
    TypeOK
    NoCredsNoService
    NoCredsNoHandler
    ServedIffAuthorised
    WriteNeedsDatabaseGrant
    TricksNeverServed
    ApiConfined
CHECK_DEADLOCK FALSE
