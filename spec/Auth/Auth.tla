------------------------------- MODULE Auth -------------------------------
(* C20 - API requests are authorised by the nearest granted resource only. *)
(*                                                                         *)
(* Anchors: auth/auth.go (User.AuthorizeAction, NewUser, APIResource,      *)
(* DatabaseResource), services/httpd/handler.go (ServeHTTP, authenticate,  *)
(* authorize, requiredPrivilegeForHTTPMethod, serveWriteLine,              *)
(* rewritePreview), services/httpd/mux.go (cleanPath redirect, match).     *)
(*                                                                         *)
(* Paths are sequences of segments; the string is "/" + segments joined by *)
(* "/".  Segments are ordinary names or one of ".", "..", "" (the empty    *)
(* segment of a duplicate or trailing slash).  A grant table is a function *)
(* from the clean paths that carry a grant to privilege sets (the Go map   *)
(* resource -> bitmask).                                                   *)
(*                                                                         *)
(* Two layers.  Ref: the documented path.Clean rules as a rewriting        *)
(* relation, "closest ancestor-or-self carrying a grant", "granted".       *)
(* Impl: the one-pass Clean algorithm, the upward walk of AuthorizeAction  *)
(* with its mask test, the filter chain of the HTTP handler as a state     *)
(* machine (one action per filter).                                        *)
EXTENDS Integers, Sequences, FiniteSets, TLC

CONSTANTS
    NameOrder,       \* sequence of the ordinary segment names of the walk universe
    GrantPathOrder,  \* sequence of the clean paths that may carry a grant
    OptOrder,        \* sequence of the privilege sets a carrier may hold
    MaxGranted,      \* bound on the number of carriers of a table (non-admin user)
    ChainOnly,       \* TRUE: only tables whose carriers are pairwise ancestor/descendant (a grant above/below another)
    AdminMaxGranted, \* the same for the admin user (the table is irrelevant for it)
    MaxSegs,         \* request resources have up to MaxSegs segments
    RelPathOrder,    \* sequence of relative (non-absolute) request resources
    DbAlphabet,      \* sequence of characters database names are built from
    MaxDbLen,
    HttpOn,          \* explore the HTTP request life cycle (else only the decision tables)
    HttpCfgs,        \* set of [auth |-> BOOLEAN, pprof |-> BOOLEAN]
    HttpMethods, HttpPaths, HttpCreds, HttpWriteDbs,   \* sequences: the request universe
    TestMethods, TestPatterns, TestSubtrees            \* routes the harness registers (AddRoutes): exact and subtree ("/s/") patterns

VARIABLES
    adm,   \* the user under test is an admin
    tab,   \* its grant table
    dec,   \* decision table of that user: request index -> bitmask over PrivOrder
    hcfg,  \* handler configuration
    rq     \* HTTP request in flight
vars == <<adm, tab, dec, hcfg, rq>>

---------------------------------------------------------------------------
(* sequences *)
Range(s) == { s[i] : i \in DOMAIN s }
Front(s) == SubSeq(s, 1, Len(s) - 1)
Last(s) == s[Len(s)]
RemoveAt(s, i) == SubSeq(s, 1, i - 1) \o SubSeq(s, i + 1, Len(s))
IsPrefix(a, b) == Len(a) <= Len(b) /\ SubSeq(b, 1, Len(a)) = a
IndexIn(s, x) == CHOOSE i \in DOMAIN s : s[i] = x
RECURSIVE Pow(_, _)
Pow(b, n) == IF n = 0 THEN 1 ELSE b * Pow(b, n - 1)
RECURSIVE Str(_)
Str(cs) == IF cs = <<>> THEN "" ELSE cs[1] \o Str(Tail(cs))
RECURSIVE JoinSlash(_)
JoinSlash(p) == IF p = <<>> THEN "" ELSE IF Len(p) = 1 THEN p[1] ELSE p[1] \o "/" \o JoinSlash(Tail(p))
Render(p) == "/" \o JoinSlash(p)          \* the string of an absolute path
RenderRel(p) == JoinSlash(p)              \* the string of a relative path

---------------------------------------------------------------------------
(* privileges: auth.Privilege is a bitmask, NoPrivileges = 1 ... AllPrivileges = 16 *)
PrivOrder == <<"none", "read", "write", "delete", "all">>
Privs == Range(PrivOrder)
NP == Len(PrivOrder)
P2 == TLCEval([k \in 0..8 |-> Pow(2, k)])
Bit(m, k) == (m \div P2[k - 1]) % 2 = 1
RECURSIVE MaskFrom(_, _)
MaskFrom(f, k) == IF k > NP THEN 0 ELSE (IF f[k] THEN P2[k - 1] ELSE 0) + MaskFrom(f, k + 1)
MaskOfSet(S) == MaskFrom([k \in 1..NP |-> PrivOrder[k] \in S], 1)
SetOfMask(m) == { PrivOrder[k] : k \in { j \in 1..NP : Bit(m, j) } }
FullMask == Pow(2, NP) - 1

---------------------------------------------------------------------------
(* Ref: normalisation as the documented rules of path.Clean (rooted path):  *)
(*  1 multiple slashes -> one (drop an empty segment), 2 drop ".",          *)
(*  3 drop an inner ".." together with the non-".." element before it,      *)
(*  4 drop a ".." that begins the rooted path.  Any order, until none fits. *)
Special == {".", "..", ""}
Reducts(p) ==
    { RemoveAt(p, i) : i \in { j \in DOMAIN p : p[j] \in {"", "."} } }
    \cup { RemoveAt(RemoveAt(p, i), i - 1) : i \in { j \in 2..Len(p) : p[j] = ".." /\ p[j - 1] \notin Special } }
    \cup (IF p # <<>> /\ p[1] = ".." THEN {Tail(p)} ELSE {})
RECURSIVE NF(_)
NF(p) == IF Reducts(p) = {} THEN {p} ELSE UNION { NF(q) : q \in Reducts(p) }
Norm(p) == CHOOSE n \in NF(p) : TRUE

(* Impl: the one-pass algorithm of path.Clean on a rooted path.             *)
RECURSIVE CleanFrom(_, _, _)
CleanFrom(p, i, out) ==
    IF i > Len(p) THEN out
    ELSE LET s == p[i] IN
         CleanFrom(p, i + 1,
            IF s = "" \/ s = "." THEN out
            ELSE IF s = ".." THEN (IF out = <<>> THEN out ELSE Front(out))
            ELSE Append(out, s))
CleanAbs(p) == CleanFrom(p, 1, <<>>)

---------------------------------------------------------------------------
(* the request universe of the decision tables, in a fixed order (the       *)
(* driver enumerates in the same order; AuthTrace checks that it does)      *)
SegOrder == NameOrder \o <<".", "..", "">>
NS == Len(SegOrder)
RECURSIVE PathsOfLen(_)
PathsOfLen(n) ==
    IF n = 0 THEN << <<>> >>
    ELSE LET prev == PathsOfLen(n - 1) IN
         [k \in 1..(Len(prev) * NS) |-> Append(prev[((k - 1) \div NS) + 1], SegOrder[((k - 1) % NS) + 1])]
RECURSIVE PathSeqUpTo(_)
PathSeqUpTo(n) == IF n = 0 THEN PathsOfLen(0) ELSE PathSeqUpTo(n - 1) \o PathsOfLen(n)
AbsPathSeq == TLCEval(PathSeqUpTo(MaxSegs))
NAbs == Len(AbsPathSeq)
NRel == Len(RelPathOrder)
NReq == NAbs + NRel
ReqAbs(i) == i <= NAbs
ReqPath(i) == IF i <= NAbs THEN AbsPathSeq[i] ELSE RelPathOrder[i - NAbs]

RECURSIVE Offset(_)
Offset(n) == IF n = 0 THEN 0 ELSE Offset(n - 1) + Pow(NS, n - 1)
RECURSIVE PathVal(_)
PathVal(p) == IF p = <<>> THEN 0 ELSE PathVal(Front(p)) * NS + (IndexIn(SegOrder, Last(p)) - 1)
PathIndex(p) == Offset(Len(p)) + PathVal(p) + 1

ImplCleanIdx == TLCEval([i \in 1..NAbs |-> PathIndex(CleanAbs(AbsPathSeq[i]))])   \* Impl: where path.Clean lands
NormIdx == TLCEval([i \in 1..NAbs |-> PathIndex(Norm(AbsPathSeq[i]))])          \* Ref: the normal form
NormIdxSet == Range(NormIdx)

---------------------------------------------------------------------------
(* grant tables *)
EmptyTab == << >>
Tables(maxg) ==
    UNION { [C -> Range(OptOrder)] : C \in { D \in SUBSET Range(GrantPathOrder) : Cardinality(D) <= maxg } }

(* Impl: User.AuthorizeAction.  The loop stops at the first resource that   *)
(* carries a grant and decides there (p&priv != 0 || p == AllPrivileges).   *)
RECURSIVE Walk(_, _, _)
Walk(t, r, priv) ==
    IF r \in DOMAIN t THEN (priv \in t[r] \/ t[r] = {"all"})
    ELSE IF r = <<>> THEN FALSE
    ELSE Walk(t, Front(r), priv)
ImplAuthorize(admin, t, abs, p, priv) ==
    IF priv = "none" \/ admin THEN TRUE
    ELSE IF ~abs THEN FALSE                    \* "must be an absolute path"
    ELSE IF DOMAIN t = {} THEN FALSE           \* len(u.privileges) == 0
    ELSE Walk(t, CleanAbs(p), priv)
(* the decision table of a user over the request universe; the walk is     *)
(* evaluated once per distinct cleaned resource                             *)
ImplCleanSet == Range(ImplCleanIdx)
WalkMask(admin, t, r) ==
    MaskFrom([k \in 1..NP |->
        IF PrivOrder[k] = "none" \/ admin THEN TRUE
        ELSE IF DOMAIN t = {} THEN FALSE
        ELSE Walk(t, r, PrivOrder[k])], 1)
ImplDec(admin, t) ==
    LET wm == TLCEval([j \in ImplCleanSet |-> WalkMask(admin, t, AbsPathSeq[j])]) IN
    [i \in 1..NReq |-> IF ReqAbs(i) THEN wm[ImplCleanIdx[i]] ELSE (IF admin THEN FullMask ELSE 1)]

(* Ref: the closest ancestor-or-self of the normalised path that carries a  *)
(* grant decides.  "Granted": the privilege is listed (or the grant is      *)
(* exactly {all}) -> must be allowed; neither listed nor "all" present ->    *)
(* must be denied; "all" listed together with other privileges and the      *)
(* required one not listed: the property text leaves it open (the code      *)
(* denies: mask == AllPrivileges is an equality test).                      *)
AncSelf(c) == { SubSeq(c, 1, k) : k \in 0..Len(c) }
Carriers(t, c) == AncSelf(c) \cap DOMAIN t
Closest(t, c) == CHOOSE q \in Carriers(t, c) : \A q2 \in Carriers(t, c) : Len(q2) <= Len(q)
MustHold(S, priv) == priv \in S \/ S = {"all"}
MayHold(S, priv) == priv \in S \/ "all" \in S
GrantDecisions(S, priv) ==
    IF priv = "none" THEN {TRUE}
    ELSE IF MustHold(S, priv) THEN {TRUE}
    ELSE IF MayHold(S, priv) THEN BOOLEAN
    ELSE {FALSE}
(* c is a normalised absolute path *)
RefDecisions(admin, t, abs, c, priv) ==
    IF admin \/ priv = "none" THEN {TRUE}
    ELSE IF ~abs THEN {FALSE}
    ELSE IF Carriers(t, c) = {} THEN {FALSE}
    ELSE GrantDecisions(t[Closest(t, c)], priv)
(* acceptable decision masks, precomputed per privilege set *)
AccOfGrant == TLCEval([S \in SUBSET Privs |->
    { m \in 0..FullMask : \A k \in 1..NP : Bit(m, k) \in GrantDecisions(S, PrivOrder[k]) }])
NoneOnly == {1}
AccMasksClean(admin, t, c) ==
    IF admin THEN {FullMask}
    ELSE IF Carriers(t, c) = {} THEN NoneOnly
    ELSE AccOfGrant[t[Closest(t, c)]]

---------------------------------------------------------------------------
(* resource names *)
(* auth.APIResource(p) = path.Join("/api", p); p given as characters        *)
RECURSIVE SplitFrom(_, _, _, _)
SplitFrom(cs, i, cur, out) ==
    IF i > Len(cs) THEN Append(out, cur)
    ELSE IF cs[i] = "/" THEN SplitFrom(cs, i + 1, "", Append(out, cur))
    ELSE SplitFrom(cs, i + 1, cur \o cs[i], out)
SplitSlash(cs) == SplitFrom(cs, 1, "", <<>>)
ApiResourceOfChars(cs) == CleanAbs(<<"api">> \o SplitSlash(cs))

(* auth.DatabaseResource: "/" -> "_", suffix _clean/_dirty, one element     *)
ReplaceSlash(cs) == [i \in DOMAIN cs |-> IF cs[i] = "/" THEN "_" ELSE cs[i]]
IsDirty(cs) == \E i \in DOMAIN cs : cs[i] = "/"
DbResource(cs) ==
    IF cs = <<>> THEN <<"database">>
    ELSE <<"database", Str(ReplaceSlash(cs)) \o (IF IsDirty(cs) THEN "_dirty" ELSE "_clean")>>
RECURSIVE StringsOfLen(_, _)
StringsOfLen(alpha, n) ==
    IF n = 0 THEN << <<>> >>
    ELSE LET prev == StringsOfLen(alpha, n - 1) IN
         [k \in 1..(Len(prev) * Len(alpha)) |->
            Append(prev[((k - 1) \div Len(alpha)) + 1], alpha[((k - 1) % Len(alpha)) + 1])]
RECURSIVE StringsUpTo(_, _)
StringsUpTo(alpha, n) == IF n = 0 THEN StringsOfLen(alpha, 0) ELSE StringsUpTo(alpha, n - 1) \o StringsOfLen(alpha, n)
DbNameSeq == TLCEval(StringsUpTo(DbAlphabet, MaxDbLen))
(* The one deviation kept as a known finding (KNOWN_FINDINGS.txt key        *)
(* db-dirty-collision): two distinct names that both contain "/" and differ *)
(* only in which positions hold "/" and which "_".                          *)
KnownDbCollision(a, b) == a # b /\ IsDirty(a) /\ IsDirty(b) /\ ReplaceSlash(a) = ReplaceSlash(b)

---------------------------------------------------------------------------
(* HTTP layer *)
SupportedMethods == {"GET", "POST", "PATCH", "PUT", "DELETE", "HEAD", "OPTIONS"}
MethodPriv(m) ==
    CASE m \in {"HEAD", "OPTIONS"} -> "none"
      [] m = "GET" -> "read"
      [] m \in {"POST", "PATCH", "PUT"} -> "write"
      [] m = "DELETE" -> "delete"
Base == <<"kapacitor", "v1">>
PreviewBase == <<"kapacitor", "v1preview">>
(* strings.TrimPrefix(r.URL.Path, "/kapacitor/v1") is a string operation:   *)
(* "/kapacitor/v1preview/t" loses "/kapacitor/v1" and keeps "preview/t".    *)
Trim(p) ==
    IF Len(p) >= 2 /\ p[1] = "kapacitor" /\ p[2] = "v1" THEN SubSeq(p, 3, Len(p))
    ELSE IF Len(p) >= 2 /\ p[1] = "kapacitor" /\ p[2] = "v1preview" THEN <<"preview">> \o SubSeq(p, 3, Len(p))
    ELSE p
ApiResource(p) == CleanAbs(<<"api">> \o Trim(p))
RefApiResource(p) == Norm(<<"api">> \o Trim(p))

(* mux.go cleanPath: path.Clean, but a trailing slash is kept *)
Canon(p) ==
    LET body == IF p # <<>> /\ Last(p) = "" THEN Front(p) ELSE p IN CleanAbs(body) = body
Tricky(p) == \E i \in DOMAIN p : p[i] \in Special

ExactRoutes ==
    {  [m |-> "GET", pat |-> Base \o <<"ping">>, kind |-> "ping", bypass |-> FALSE],
       [m |-> "HEAD", pat |-> Base \o <<"ping">>, kind |-> "ping", bypass |-> FALSE],
       [m |-> "POST", pat |-> Base \o <<"write">>, kind |-> "write", bypass |-> FALSE],
       [m |-> "POST", pat |-> <<"write">>, kind |-> "write", bypass |-> FALSE],
       [m |-> "OPTIONS", pat |-> Base \o <<"write">>, kind |-> "options", bypass |-> FALSE],
       [m |-> "OPTIONS", pat |-> <<"write">>, kind |-> "options", bypass |-> FALSE],
       [m |-> "GET", pat |-> Base \o <<"debug", "vars">>, kind |-> "vars", bypass |-> TRUE] }
    \cup { [m |-> mm, pat |-> Base \o pp, kind |-> "test", bypass |-> FALSE] : mm \in TestMethods, pp \in TestPatterns }
IsPreview(p) == IsPrefix(PreviewBase, p) /\ Len(p) >= 3          \* subtree pattern "/kapacitor/v1preview/"
(* a pattern that ends in "/" names a subtree: "/kapacitor/v1/s/" matches    *)
(* every path that has it as a string prefix (most services register theirs *)
(* this way: "/tasks/", "/templates/", ...)                                 *)
InSubtree(m, p) == m \in TestMethods /\ \E pp \in TestSubtrees : IsPrefix(Base \o pp, p) /\ Len(p) > Len(Base \o pp)
Match(m, p) ==
    IF \E r \in ExactRoutes : r.m = m /\ r.pat = p
    THEN LET r == CHOOSE r \in ExactRoutes : r.m = m /\ r.pat = p IN [kind |-> r.kind, bypass |-> r.bypass]
    ELSE IF InSubtree(m, p) THEN [kind |-> "test", bypass |-> FALSE]
    ELSE IF IsPreview(p) THEN [kind |-> "preview", bypass |-> FALSE]
    ELSE [kind |-> "h404", bypass |-> FALSE]                      \* catch-all "/"
Rewrite(p) == Base \o SubSeq(p, 3, Len(p))

(* which user a kind of credentials authenticates (the fake AuthService of  *)
(* the driver knows "u" (table tab), "admin"); everything else is invalid   *)
CredWho(c) ==
    CASE c \in {"basic_ok", "query_ok", "bearer_ok", "sub_ok", "badbasic_query_ok"} -> "u"
      [] c \in {"basic_admin", "bearer_admin"} -> "admin"
      [] OTHER -> "invalid"
IsAdminWho(w) == w = "admin"

HttpReqSeq ==
    LET nm == Len(HttpMethods) np == Len(HttpPaths) nc == Len(HttpCreds) nd == Len(HttpWriteDbs)
        main == [k \in 1..(nm * np * nc) |->
                   [m |-> HttpMethods[((k - 1) \div (np * nc)) + 1],
                    p |-> HttpPaths[(((k - 1) \div nc) % np) + 1],
                    c |-> HttpCreds[((k - 1) % nc) + 1],
                    db |-> <<>>]]
        wpaths == SelectSeq(HttpPaths, LAMBDA p : Match("POST", IF IsPreview(p) THEN Rewrite(p) ELSE p).kind = "write")
        nw == Len(wpaths)
        wr == [k \in 1..(nw * nc * nd) |->
                   [m |-> "POST",
                    p |-> wpaths[((k - 1) \div (nc * nd)) + 1],
                    c |-> HttpCreds[(((k - 1) \div nd) % nc) + 1],
                    db |-> HttpWriteDbs[((k - 1) % nd) + 1]]]
    IN TLCEval(main \o wr)
HttpReqs == Range(HttpReqSeq)

Idle == [stage |-> "idle"]
Recv(r) == [stage |-> "mux", m |-> r.m, p |-> r.p, c |-> r.c, db |-> r.db, orig |-> r.p,
            route |-> [kind |-> "none", bypass |-> FALSE], who |-> "nobody",
            status |-> 0, served |-> FALSE, checked |-> <<>>]
Done(s, code) == [s EXCEPT !.stage = "done", !.status = code]
Serve(s, code) == [s EXCEPT !.stage = "done", !.status = code, !.served = TRUE]

(* Handler.ServeHTTP + ServeMux.Handler *)
StepMux(s) ==
    IF s.m \notin SupportedMethods THEN Done(s, 404)
    ELSE IF ~Canon(s.p) THEN Done(s, 301)
    ELSE [s EXCEPT !.stage = "cors", !.route = Match(s.m, s.p)]
(* cors: an OPTIONS request never reaches the inner handlers *)
StepCors(s) == IF s.m = "OPTIONS" THEN Done(s, 200) ELSE [s EXCEPT !.stage = "authn"]
(* authenticate *)
StepAuthn(s, cfg) ==
    IF ~(cfg.auth /\ ~(s.route.bypass /\ cfg.pprof)) THEN [s EXCEPT !.stage = "authz", !.who = "admin"]
    ELSE IF CredWho(s.c) = "invalid" THEN Done(s, 401)
    ELSE [s EXCEPT !.stage = "authz", !.who = CredWho(s.c)]
(* authorize / authorizeForward *)
StepAuthz(s, t) ==
    LET res == ApiResource(s.p) priv == MethodPriv(s.m) IN
    IF ImplAuthorize(IsAdminWho(s.who), t, TRUE, res, priv)
    THEN [s EXCEPT !.stage = "inner", !.checked = Append(@, <<res, priv>>)]
    ELSE Done(s, 403)
(* the route's handler function *)
StepInner(s, t) ==
    CASE s.route.kind = "h404" -> Done(s, 404)
      [] s.route.kind = "test" -> Serve(s, 200)
      [] s.route.kind = "ping" -> Serve(s, 204)
      [] s.route.kind = "vars" -> Serve(s, 200)
      [] s.route.kind = "options" -> Done(s, 204)
      [] s.route.kind = "preview" -> [s EXCEPT !.stage = "mux", !.p = Rewrite(s.p)]
      [] s.route.kind = "write" ->
            IF s.db = <<>> THEN Done(s, 400)
            ELSE IF ImplAuthorize(IsAdminWho(s.who), t, TRUE, DbResource(s.db), "write")
                 THEN Serve([s EXCEPT !.checked = Append(@, <<DbResource(s.db), "write">>)], 204)
                 ELSE Done(s, 401)
Step(s, t, cfg) ==
    CASE s.stage = "mux" -> StepMux(s)
      [] s.stage = "cors" -> StepCors(s)
      [] s.stage = "authn" -> StepAuthn(s, cfg)
      [] s.stage = "authz" -> StepAuthz(s, t)
      [] s.stage = "inner" -> StepInner(s, t)
RECURSIVE RunReq(_, _, _)
RunReq(s, t, cfg) == IF s.stage = "done" THEN s ELSE RunReq(Step(s, t, cfg), t, cfg)

(* Ref: should the request be served?  (set of acceptable answers)          *)
FinalPath(p) == IF IsPreview(p) THEN Rewrite(p) ELSE p
NeedAuth(cfg, r) == cfg.auth /\ (IsPreview(r.p) \/ ~(Match(r.m, FinalPath(r.p)).bypass /\ cfg.pprof))
RefWho(cfg, r) == IF NeedAuth(cfg, r) THEN CredWho(r.c) ELSE "admin"
RefRequired(r) ==
    { <<RefApiResource(r.p), MethodPriv(r.m)>>, <<RefApiResource(FinalPath(r.p)), MethodPriv(r.m)>> }
    \cup (IF Match(r.m, FinalPath(r.p)).kind = "write" THEN { <<DbResource(r.db), "write">> } ELSE {})
(* everything about a request that does not depend on the table (computed   *)
(* once per request of the universe by the trace specification)             *)
ReqInfo(r) ==
    LET ok == r.m \in SupportedMethods /\ r.m # "OPTIONS" /\ Canon(r.p)
        rt == IF ok THEN Match(r.m, FinalPath(r.p)) ELSE [kind |-> "none", bypass |-> FALSE]
        live == ok /\ rt.kind \in {"test", "ping", "vars", "write"} /\ ~(rt.kind = "write" /\ r.db = <<>>)
    IN [r |-> r, live |-> live, required |-> IF live THEN RefRequired(r) ELSE {}]
RefServeI(cfg, t, info) ==
    IF ~info.live THEN {FALSE}
    ELSE IF RefWho(cfg, info.r) = "invalid" THEN {FALSE}
    ELSE LET ds == { RefDecisions(IsAdminWho(RefWho(cfg, info.r)), t, TRUE, a[1], a[2]) : a \in info.required } IN
         IF {FALSE} \in ds THEN {FALSE}
         ELSE IF ds \subseteq {{TRUE}} THEN {TRUE}
         ELSE BOOLEAN
RefServe(cfg, t, r) == RefServeI(cfg, t, ReqInfo(r))

---------------------------------------------------------------------------
(* behaviour: the table is built grant by grant (each table is reached      *)
(* exactly once: carriers are added in GrantPathOrder); for every table the *)
(* HTTP requests of the universe run through the filter chain.              *)
Install(a, t) ==
    /\ adm' = a /\ tab' = t
    /\ dec' = IF HttpOn THEN <<>> ELSE ImplDec(a, t)

Init ==
    /\ adm \in (IF HttpOn THEN {FALSE} ELSE BOOLEAN) /\ tab = EmptyTab
    /\ dec = (IF HttpOn THEN <<>> ELSE ImplDec(adm, EmptyTab))
    /\ hcfg \in HttpCfgs
    /\ rq = Idle

AddGrant(j, S) ==
    /\ rq = Idle
    /\ (HttpOn => hcfg.auth /\ ~hcfg.pprof)    \* the other handler configurations are explored with the empty table only
    /\ Cardinality(DOMAIN tab) < (IF adm THEN AdminMaxGranted ELSE MaxGranted)
    /\ \A q \in DOMAIN tab : IndexIn(GrantPathOrder, q) < j
    /\ (ChainOnly => \A q \in DOMAIN tab : IsPrefix(q, GrantPathOrder[j]))   \* GrantPathOrder lists ancestors first
    /\ Install(adm, (GrantPathOrder[j] :> S) @@ tab)
    /\ UNCHANGED <<hcfg, rq>>

Receive(r) == HttpOn /\ rq = Idle /\ rq' = Recv(r) /\ UNCHANGED <<adm, tab, dec, hcfg>>
Stage(st) == rq.stage = st /\ rq' = Step(rq, tab, hcfg) /\ UNCHANGED <<adm, tab, dec, hcfg>>
Mux == Stage("mux")
Cors == Stage("cors")
Authn == Stage("authn")
Authz == Stage("authz")
Inner == Stage("inner")

Next ==
    \/ rq = Idle /\ \E j \in DOMAIN GrantPathOrder, S \in Range(OptOrder) : AddGrant(j, S)
    \/ rq = Idle /\ HttpOn /\ \E r \in HttpReqs : Receive(r)
    \/ Mux \/ Cors \/ Authn \/ Authz \/ Inner
Spec == Init /\ [][Next]_vars

---------------------------------------------------------------------------
(* properties *)
TypeOK ==
    /\ adm \in BOOLEAN
    /\ DOMAIN tab \subseteq Range(GrantPathOrder)
    /\ \A q \in DOMAIN tab : tab[q] \in Range(OptOrder)
    /\ hcfg \in HttpCfgs
    /\ (~HttpOn => DOMAIN dec = 1..NReq /\ \A i \in DOMAIN dec : dec[i] \in 0..FullMask)

(* the decision for every request resource and privilege is the one the     *)
(* closest grant-carrying ancestor-or-self of the normalised path gives     *)
NearestGrantDecides ==
    ~HttpOn =>
        LET acc == TLCEval([j \in NormIdxSet |-> AccMasksClean(adm, tab, AbsPathSeq[j])]) IN
        /\ \A i \in 1..NAbs : dec[i] \in acc[NormIdx[i]]
        /\ \A i \in (NAbs + 1)..NReq : dec[i] = (IF adm THEN FullMask ELSE 1)

(* '.', '..', duplicate and trailing slashes: same decision as the clean path *)
TricksNeverWiden ==
    ~HttpOn => \A i \in 1..NAbs : dec[i] = dec[NormIdx[i]]

(* the algorithm computes the unique normal form of the documented rules    *)
CleanMatchesRules ==
    (tab = EmptyTab /\ ~adm) => \A i \in 1..NAbs : NF(AbsPathSeq[i]) = {CleanAbs(AbsPathSeq[i])}

DbPairs == { <<i, j>> \in (1..Len(DbNameSeq)) \X (1..Len(DbNameSeq)) : i < j }
DbMapInjective ==
    (tab = EmptyTab /\ ~adm) =>
        \A ij \in DbPairs :
            DbResource(DbNameSeq[ij[1]]) = DbResource(DbNameSeq[ij[2]]) => KnownDbCollision(DbNameSeq[ij[1]], DbNameSeq[ij[2]])
(* the property as stated; violated by the code's mapping (observation)     *)
DbMapInjectiveStrict ==
    (tab = EmptyTab /\ ~adm) =>
        \A ij \in DbPairs : DbResource(DbNameSeq[ij[1]]) # DbResource(DbNameSeq[ij[2]])
(* a database resource is one path element below /database                  *)
DbSingleElement ==
    (tab = EmptyTab /\ ~adm) =>
        \A i \in 1..Len(DbNameSeq) :
            LET r == DbResource(DbNameSeq[i]) IN
            DbNameSeq[i] # <<>> => Len(r) = 2 /\ r[2] \notin Special /\ CleanAbs(r) = r

ReqOf(s) == [m |-> s.m, p |-> s.orig, c |-> s.c, db |-> s.db]
FinishedReq == rq.stage = "done"

(* with authentication enabled nothing is served without valid credentials  *)
NoCredsNoService ==
    (FinishedReq /\ rq.served /\ NeedAuth(hcfg, ReqOf(rq))) => CredWho(rq.c) # "invalid"
NoCredsNoHandler ==
    (rq.stage \in {"authz", "inner"} /\ hcfg.auth /\ ~(rq.route.bypass /\ hcfg.pprof)) => CredWho(rq.c) # "invalid"
(* served exactly when the reference says so *)
ServedIffAuthorised ==
    FinishedReq => rq.served \in RefServe(hcfg, tab, ReqOf(rq))
(* writes are additionally checked against the target database *)
WriteNeedsDatabaseGrant ==
    (FinishedReq /\ rq.served /\ rq.route.kind = "write") =>
        TRUE \in RefDecisions(IsAdminWho(rq.who), tab, TRUE, DbResource(rq.db), "write")
(* '.', '..' and duplicate slashes are never served (a trailing slash only   *)
(* reaches subtree routes and is authorised as the clean path); every       *)
(* authorised resource is under /api                                        *)
TricksNeverServed ==
    (FinishedReq /\ rq.served) =>
        /\ Canon(rq.orig)
        /\ (Tricky(rq.orig) => InSubtree(rq.m, FinalPath(rq.orig)) /\ Last(rq.orig) = "" /\ ~Tricky(Front(rq.orig)))
ApiConfined ==
    rq.stage # "idle" => \A k \in DOMAIN rq.checked :
        rq.checked[k][1][1] \in {"api", "database"} /\ (rq.checked[k][1][1] = "database" => rq.route.kind = "write")
=============================================================================
