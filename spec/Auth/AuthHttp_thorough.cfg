\* HTTP request life cycle: every table with at most 2 grant-carrying paths
SPECIFICATION Spec
CONSTANTS
    NameOrder <- MCHttpNames
    GrantPathOrder <- MCHttpGrant
    OptOrder <- MCOptOrder
    MaxGranted = 2
    ChainOnly = FALSE
    AdminMaxGranted = 0
    MaxSegs = 0
    RelPathOrder <- MCEmpty
    DbAlphabet <- MCDbAlphabet
    MaxDbLen = 1
    HttpOn = TRUE
    HttpCfgs <- MCHttpCfgs
    HttpMethods <- MCHttpMethods
    HttpPaths <- MCHttpPaths
    HttpCreds <- MCHttpCreds
    HttpWriteDbs <- MCHttpWriteDbs
    TestMethods <- MCTestMethods
    TestPatterns <- MCTestPatterns
    TestSubtrees <- MCTestSubtrees
INVARIANTS
    TypeOK
    NoCredsNoService
    NoCredsNoHandler
    ServedIffAuthorised
    WriteNeedsDatabaseGrant
    TricksNeverServed
    ApiConfined
CHECK_DEADLOCK FALSE
