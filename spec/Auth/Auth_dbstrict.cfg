\* observation: the property as stated ("distinct database names never map to the
\* same resource") is violated by the code's mapping; expected counterexample
SPECIFICATION Spec
CONSTANTS
    NameOrder <- MCNameOrder
    GrantPathOrder <- MCGrantAbs
    OptOrder <- MCOptOrder
    MaxGranted = 0
    ChainOnly = FALSE
    AdminMaxGranted = 0
    MaxSegs = 1
    RelPathOrder <- MCEmpty
    DbAlphabet <- MCDbAlphabet
    MaxDbLen = 3
    HttpOn = FALSE
    HttpCfgs <- MCNoHttpCfg
    HttpMethods <- MCEmpty
    HttpPaths <- MCEmpty
    HttpCreds <- MCEmpty
    HttpWriteDbs <- MCEmpty
    TestMethods = {}
    TestPatterns = {}
    TestSubtrees = {}
INVARIANTS
    DbMapInjectiveStrict
CHECK_DEADLOCK FALSE
