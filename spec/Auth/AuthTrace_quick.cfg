\* decision tables logged by driver c20, quick tier (tables with at most 3 carriers)
SPECIFICATION TrSpec
CONSTANTS
    NameOrder <- MCNameOrder
    GrantPathOrder <- MCGrantAbs
    OptOrder <- MCOptOrder
    MaxGranted = 3
    ChainOnly = FALSE
    AdminMaxGranted = 1
    MaxSegs = 4
    RelPathOrder <- MCRelPaths
    DbAlphabet <- MCDbAlphabet
    MaxDbLen = 4
    ApiAlphabet <- MCApiAlphabet
    MaxApiLen = 4
    NRandom = 300
    HttpOn = FALSE
    HttpCfgs <- MCNoHttpCfg
    HttpMethods <- MCEmpty
    HttpPaths <- MCEmpty
    HttpCreds <- MCEmpty
    HttpWriteDbs <- MCEmpty
    TestMethods = {}
    TestPatterns = {}
    TestSubtrees = {}
CONSTRAINT HW
POSTCONDITION AcceptedDirect
CHECK_DEADLOCK FALSE
