\* decision tables: every table with at most 3 grant-carrying paths
SPECIFICATION Spec
CONSTANTS
    NameOrder <- MCNameOrder
    GrantPathOrder <- MCGrantAbs
    OptOrder <- MCOptOrder
    MaxGranted = 3
    ChainOnly = FALSE
    AdminMaxGranted = 1
    MaxSegs = 4
    RelPathOrder <- MCRelPaths
    DbAlphabet <- MCDbAlphabet
    MaxDbLen = 4
    HttpOn = FALSE
    HttpCfgs <- MCNoHttpCfg
    HttpMethods <- MCEmpty
    HttpPaths <- MCEmpty
    HttpCreds <- MCEmpty
    HttpWriteDbs <- MCEmpty
    TestMethods = {}
    TestPatterns = {}
    TestSubtrees = {}
INVARIANTS
    TypeOK
    NearestGrantDecides
    TricksNeverWiden
    CleanMatchesRules
    DbMapInjective
    DbSingleElement
CHECK_DEADLOCK FALSE
