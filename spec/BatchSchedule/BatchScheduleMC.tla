--------------------------- MODULE BatchScheduleMC ---------------------------
EXTENDS BatchSchedule
(* Model values that a cfg file cannot express (records, tuples, sequences). *)
Sch(kind, every, align, p, r, period, offset, gbLen, gbOff, ag) ==
    [kind |-> kind, every |-> every, align |-> align, p |-> p, r |-> r, period |-> period,
     offset |-> offset, gbLen |-> gbLen, gbOff |-> gbOff, alignGroup |-> ag]

MCUserTimesQ == { [op |-> "ge", v |-> 15] }
MCUserTimes == { [op |-> "ge", v |-> 15], [op |-> "lt", v |-> 15] }
MCUserTimesT == { [op |-> "ge", v |-> 15], [op |-> "lt", v |-> 15], [op |-> "gt", v |-> 10], [op |-> "le", v |-> 20] }
MCTimeChoices == { <<10, 20>>, <<30, 37>> }
MCTimeChoices1 == { <<10, 20>> }

\* every/cron x align x offsets x periods x group-by variants
MCSchedulesQuick ==
    { Sch("every", e, al, 1, 0, pd, of, 0, 0, FALSE) : e \in {4, 5, 10}, al \in BOOLEAN, pd \in {10}, of \in {0, 3} }
    \cup { Sch("cron", 1, FALSE, p, r, 7, of, 0, 0, FALSE) : p \in {5, 10}, r \in {0, 3}, of \in {0, 3} }
    \cup { Sch("every", 10, al, 1, 0, 20, 0, gl, go, ag) : al \in BOOLEAN, gl \in {5, 20}, go \in {0, 2}, ag \in BOOLEAN }
MCSchedulesThorough ==
    { Sch("every", e, al, 1, 0, pd, of, 0, 0, FALSE) : e \in {1, 2, 3, 4, 5, 7, 10, 12}, al \in BOOLEAN, pd \in {0, 7, 10, 20}, of \in {-3, 0, 3, 10, 13} }
    \cup { Sch("cron", 1, FALSE, p, r, pd, of, 0, 0, FALSE) : p \in {5, 10, 15, 60}, r \in {0, 3}, pd \in {7, 10}, of \in {0, 3} }
    \cup { Sch("every", e, al, 1, 0, 20, of, gl, go, ag) : e \in {10, 7}, al \in BOOLEAN, of \in {0, 3}, gl \in {5, 20, 60}, go \in {0, 2}, ag \in BOOLEAN }
MCSchedulesNeg ==
    { Sch("every", 4, al, 1, 0, 10, 0, 0, 0, FALSE) : al \in BOOLEAN }
    \cup { Sch("every", 10, FALSE, 1, 0, 20, 0, 5, 0, ag) : ag \in BOOLEAN }
MCSpanLensQuick == {0, 3, 9, 10, 25, 40}
MCSpanLensThorough == 0..61

\* declarable pairs; sources may also name pairs outside (other."" , bare)
MCDBRPs == { Src("db", "rp"), Src("db", "rp2"), Src("db", "autogen"), Src("db", ""), Src("other", "rp") }
MCDefaultRPs == { "", "autogen", "rp" }
MCSourceLists == { <<Src("db", "rp")>>, <<Src("db", "rp2")>>, <<Src("other", "rp")>>, <<Src("db", "rp"), Src("db", "rp2")>>,
                   <<Src("db", "rp"), Src("other", "rp")>>, <<Src("other", "rp"), Src("db", "rp")>>, <<Src("db", "rp"), Src("db", "rp")>> }
\* every way of writing one or two FROM items: full, without rp, bare - for two databases
MCFormSrcs == { SrcOf(f, db, rp) : f \in SrcForms, db \in {"db", "other"}, rp \in {"rp", "autogen"} }
MCFormLists == { <<a>> : a \in MCFormSrcs } \cup { <<a, b>> : a, b \in MCFormSrcs }
\* children of the batch source: a single |query with each FROM clause, and every sequence of 2..4 nodes
\* over {|queryFlux, |query FROM db.rp, |query FROM other.rp, |query FROM db.rp, other.rp}
MCChildAlpha == { Child("flux", <<>>), Child("ql", <<Src("db", "rp")>>), Child("ql", <<Src("other", "rp")>>),
                  Child("ql", <<Src("db", "rp"), Src("other", "rp")>>) }
MCChildLists == { << Child("ql", sl) >> : sl \in MCSourceLists \cup MCFormLists }
                \cup UNION { [1..n -> MCChildAlpha] : n \in 2..4 }
MCChildListsNeg == UNION { [1..n -> MCChildAlpha] : n \in 1..2 } \cup { << Child("ql", sl) >> : sl \in MCFormLists }
MCNoDBRPs == {}
=============================================================================
