SPECIFICATION Spec
CONSTANTS
    LeafNames = {"a", "b"}
    UserTimes <- MCUserTimes
    MaxDepth = 2
    TimeChoices <- MCTimeChoices
    MaxOps = 2
    Schedules <- MCSchedulesQuick
    Base = 120
    SpanLens <- MCSpanLensQuick
    DBRPs = {"db.rp", "db.rp2", "other.rp"}
    SourceLists <- MCSourceLists
    WrapUser = TRUE
    TruncNext = TRUE
    CloneSharesGB = TRUE
INVARIANTS
    TypeOK
    RangeIsExact
    CloneFindsLiterals
    SentParses
    HistoricalEqualsLive
    RangeFromTick
    OnlyDeclaredDBRPs
    RefusedIffUndeclared
CHECK_DEADLOCK FALSE
