------------------------- MODULE BatchScheduleTrace -------------------------
(* Trace specification for BatchSchedule: validates recorded executions of  *)
(* the real kapacitor code (driver c16) line by line.                        *)
(*                                                                           *)
(* Every observation is judged at two levels (DESIGN.md 2.1):                *)
(*  verdict  what C16 promises, on what InfluxDB is sent: the re-parsed      *)
(*           statement selects exactly  user-condition AND start<=time<stop, *)
(*           the historical list equals the list the live ticks would issue, *)
(*           only declared DBRPs are queried.  Always on.                     *)
(*  strict   additionally the observation equals what the code-shaped model  *)
(*           (Impl: the spliced tree printed by String() and re-parsed, the  *)
(*           Queries() loop) predicts, and our parser model agrees with      *)
(*           influxql's on the recorded token sequence.  Never a verdict:    *)
(*           Strict = "report" prints IMPL-DRIFT lines and accepts the line,  *)
(*           "enforce" rejects it (manual use), "off" skips the comparison.   *)
EXTENDS BatchSchedule, TraceCommon

CONSTANT Strict

VARIABLES l, tcfg
tvars == <<vars, l, tcfg>>

NoCfg == [kind |-> "none"]
TrInit == Init /\ l = 1 /\ tcfg = NoCfg /\ HWInit

Ln == Trace[l]
IsEv(e) == l <= Len(Trace) /\ Ln.ev = e /\ l' = l + 1
(* TLC expands a quantifier that occurs as a conjunct of an action into one     *)
(* continuation per binding (stack depth = number of bindings).  Comparing the  *)
(* formula with TRUE makes TLC evaluate it as an ordinary Boolean value.         *)
Holds(p) == p = TRUE
StrictOK(p, what) == CASE Strict = "off"     -> TRUE
                       [] Strict = "enforce" -> p
                       [] OTHER              -> (p \/ PrintT(<<"IMPL-DRIFT", l, what>>))

TrReset ==
    /\ IsEv("Reset")
    /\ mode' = "idle"
    /\ user' = None /\ q' = NoQ /\ c' = NoQ /\ qT' = <<ZeroT, ZeroT>> /\ cT' = <<ZeroT, ZeroT>> /\ nops' = 0
    /\ sch' = NoSched /\ span' = NoSpan /\ cur' = 0 /\ hist' = <<>> /\ hdone' = TRUE
    /\ lprev' = 0 /\ live' = <<>> /\ ldone' = TRUE
    /\ declared' = {} /\ children' = <<>> /\ defrp' = "" /\ issued' = {} /\ refused' = FALSE
    /\ tcfg' = NoCfg

(* ------------------------------------------------------------------------ *)
(* Observation of one Query object: o.out = condition re-parsed by influxql  *)
(* from String(), o.toks = its token sequence, o.gs/o.ge = StartTime()/      *)
(* StopTime(), o.cx = influxql.ConditionExpr's reading (doubled time axis).  *)
EquivNoTime(a, b) ==
    \A val \in SUBSET (LeavesOf(a) \cup LeavesOf(b)) : Eval(a, val, 0) <=> Eval(b, val, 0)
CxVerdict(cx, T) ==
    /\ cx.lo2 >= 2 * T[1] /\ cx.hi2 <= 2 * T[2]
    /\ (ConstsOf(user) = {} => (cx.lo2 = 2 * T[1] /\ cx.hi2 = 2 * T[2]))
    /\ EquivNoTime(cx.resid, CxResid(user))
ObsVerdict(o, T) ==
    /\ Equiv(o.out, user, T[1], T[2])
    /\ o.gs = T[1] /\ o.ge = T[2]
    /\ (Has(o, "cx") => CxVerdict(o.cx, T))
ObsStrict(o, obj) ==
    /\ o.out = Sent(obj)
    /\ Parse(o.toks) = o.out
    /\ (Has(o, "cx") => /\ o.cx.lo2 = CxLo(o.out) /\ o.cx.hi2 = CxHi(o.out)
                        /\ o.cx.resid = StripPar(CxResid(o.out)))

TrNewQuery == IsEv("NewQuery") /\ NewQuery(Ln.user) /\ UNCHANGED tcfg

TrSetTimes ==
    /\ IsEv("SetTimes")
    /\ SetTimes(Ln.which, Ln.s, Ln.e)
    /\ Holds(ObsVerdict(Ln.obs, <<Ln.s, Ln.e>>))
    /\ Holds(StrictOK(ObsStrict(Ln.obs, IF Ln.which = "q" THEN q' ELSE c'), "SetTimes.obs"))
       \* the other object keeps its own range (clone independence)
    /\ Holds(Has(Ln, "other") =>
           LET oT == IF Ln.which = "q" THEN cT ELSE qT
               oo == IF Ln.which = "q" THEN c ELSE q
           IN  /\ ObsVerdict(Ln.other, oT)
               /\ StrictOK(ObsStrict(Ln.other, oo), "SetTimes.other"))
    /\ UNCHANGED tcfg

(* CloneFindsLiterals on the real object: Clone succeeds and the clone is    *)
(* the same statement with the same range.                                    *)
TrClone ==
    /\ IsEv("Clone")
    /\ DoClone
    /\ Ln.err = ""
    /\ Holds(ObsVerdict(Ln.obs, qT))
    /\ Holds(StrictOK(~c'.err /\ ObsStrict(Ln.obs, c'), "Clone.obs"))
    /\ UNCHANGED tcfg

(* ------------------------------------------------------------------------ *)
(* A real batch task.                                                        *)
SchOf(cf) == [kind |-> cf.kind, every |-> cf.every, align |-> cf.align, p |-> cf.p, r |-> cf.r,
              period |-> cf.period, offset |-> cf.offset, gbLen |-> cf.gbLen, gbOff |-> cf.gbOff,
              alignGroup |-> cf.alignGroup]
TrTask ==
    /\ IsEv("Task")
    /\ Ln.err = ""
    /\ tcfg' = Ln.cfg
    /\ user' = Ln.cfg.user /\ sch' = SchOf(Ln.cfg)
    /\ declared' = SeqToSet(Ln.cfg.declared) /\ children' = << Child("ql", Ln.cfg.sources) >>
    /\ defrp' = Ln.cfg.defaultRP
    /\ UNCHANGED <<mode, q, c, qT, cT, nops, span, cur, hist, hdone, lprev, live, ldone, issued, refused>>

(* group-by / fill / sources of an issued statement are the configured ones *)
ClausesKept(o) ==
    /\ o.gb.len = tcfg.gbLen
    /\ o.tags = tcfg.tags /\ o.star = tcfg.star /\ o.fill = tcfg.fill
    /\ o.srcs = tcfg.sources
    /\ SeqToSet(o.srcs) \subseteq declared

(* BatchQueries(start, stop): call ... *)
(* Without a stop time the code uses the wall clock; the driver logs the second *)
(* before and after the call and TLC picks the one the code saw.               *)
TrHist ==
    /\ IsEv("Hist") /\ tcfg # NoCfg
    /\ IF Has(Ln, "stop") THEN StartSpan(SchOf(tcfg), Ln.start, Ln.stop)
       ELSE \E n \in Ln.stop_lo..Ln.stop_hi : StartSpan(SchOf(tcfg), Ln.start, n)
    /\ UNCHANGED tcfg
(* ... the model runs the Queries() loop and the live ticker over the span ... *)
TrSilent == (HistStep \/ LiveTick) /\ UNCHANGED <<l, tcfg>>
(* ... and return.                                                             *)
HistItemVerdict(o, lq) ==
    /\ o.gs = lq.s /\ o.ge = lq.e                   \* StartTime()/StopTime()
    /\ Equiv(o.out, user, lq.s, lq.e)               \* the statement itself
    /\ (Has(o, "cx") => CxVerdict(o.cx, <<lq.s, lq.e>>))
    /\ ClausesKept(o)
    /\ (tcfg.gbLen > 0 => o.gb.off = lq.gbo)
TrHistRet ==
    /\ IsEv("HistRet") /\ mode = "sched" /\ hdone /\ ldone
    /\ Holds(IF AllDeclared(declared, children)
             THEN /\ Ln.err = ""
                  /\ Len(Ln.qs) = Len(live)
                  /\ \A i \in DOMAIN live : HistItemVerdict(Ln.qs[i], live[i])
                  /\ StrictOK(/\ Len(Ln.qs) = Len(hist)
                              /\ \A i \in DOMAIN hist : /\ Ln.qs[i].gs = hist[i].s /\ Ln.qs[i].ge = hist[i].e
                                                        /\ (tcfg.gbLen > 0 => Ln.qs[i].gb.off = hist[i].gbo)
                              /\ \A i \in DOMAIN Ln.qs : Has(Ln.qs[i], "toks") => Parse(Ln.qs[i].toks) = Ln.qs[i].out,
                              "HistRet.qs")
             ELSE Ln.err # "" /\ Ln.qs = <<>>)
    /\ issued' = issued \cup UNION { SeqToSet(Ln.qs[i].srcs) : i \in DOMAIN Ln.qs }
    /\ mode' = "idle"
    /\ UNCHANGED <<qvars, sch, span, cur, hist, hdone, lprev, live, ldone, declared, children, defrp, refused, tcfg>>

(* StartTask -> StartBatching -> checkDBRPs, then the real tickers run.       *)
TrStart ==
    /\ IsEv("Start") /\ tcfg # NoCfg
    /\ StartBatch(declared, children, defrp)
    /\ Holds((Ln.err # "") <=> ~AllDeclared(declared, children))
    /\ Holds(StrictOK((Ln.err # "") <=> refused', "Start.err"))
    /\ UNCHANGED tcfg
(* Queries the fake InfluxDB client received until the task was stopped.      *)
(* Wall-clock ticks: only timing-robust facts are judged.  Times inside       *)
(* o.out are relative to the statement's own lower bound (model units of the   *)
(* live configuration), so Equiv demands [0, period).                          *)
LiveItemVerdict(o) ==
    /\ o.exact
    /\ Equiv(o.out, user, 0, sch.period)
    /\ ClausesKept(o)
    /\ (sch.kind = "every" /\ sch.align => o.phase = 0)
    /\ (sch.kind = "cron" => o.phase = sch.r)
    /\ Ln.before <= o.tick /\ o.tick <= Ln.after
    /\ (sch.gbLen > 0 => o.gb.off = GbOffFor(sch, o.smod))
TrStopped ==
    /\ IsEv("Stopped") /\ mode = "dbrp"
    /\ Holds(refused => Ln.qs = <<>>)
    /\ Holds(\A i \in DOMAIN Ln.qs : LiveItemVerdict(Ln.qs[i]))
    /\ Holds(\A i \in DOMAIN Ln.qs : (i > 1 /\ ~(sch.kind = "every" /\ sch.align)) => Ln.qs[i].tick >= Ln.qs[i - 1].tick)
       \* what the running task issued is part of what BatchQueries reports for the same wall-clock span
    /\ Holds(Has(Ln, "hist") =>
           \A i \in DOMAIN Ln.qs : \E j \in DOMAIN Ln.hist :
               /\ Ln.hist[j].tick = Ln.qs[i].tick /\ Ln.hist[j].sub = Ln.qs[i].sub
               /\ Ln.hist[j].gboff = Ln.qs[i].gb.off)
    /\ issued' = issued \cup UNION { SeqToSet(Ln.qs[i].srcs) : i \in DOMAIN Ln.qs }
    /\ mode' = "idle"
    /\ UNCHANGED <<qvars, svars, declared, children, defrp, refused, tcfg>>

(* A task whose batch source has several |query and |queryFlux children:        *)
(* "Batch" = the task as written (children in script order; the property does    *)
(* not depend on the order), "BQ" = BatchQueries over a span in which every      *)
(* InfluxQL node ticks at least once.  Ln.issued = the FROM clause of each list   *)
(* of InfluxQL queries returned.                                                  *)
ChildOf(r) == Child(r.kind, r.srcs)
TrBatch ==
    /\ IsEv("Batch")
    /\ Ln.err = ""
    /\ tcfg' = [kind |-> "mixed"]
    /\ declared' = SeqToSet(Ln.declared) /\ defrp' = ""
    /\ children' = [i \in DOMAIN Ln.children |-> ChildOf(Ln.children[i])]
    /\ UNCHANGED <<mode, qvars, svars, issued, refused>>
QLSrcs(ch) == { ch[i].srcs : i \in { j \in DOMAIN ch : ch[j].kind = "ql" } }
TrBQ ==
    /\ IsEv("BQ") /\ tcfg = [kind |-> "mixed"]
    /\ StartBatch(declared, children, defrp)
    /\ Holds(\A i \in DOMAIN Ln.issued : SeqToSet(Ln.issued[i]) \subseteq declared)        \* OnlyDeclaredDBRPs, observed
    /\ Holds((Ln.err # "") <=> ~AllDeclared(declared, children))                            \* RefusedIffUndeclared
    /\ Holds(IF Ln.err = "" THEN SeqToSet(Ln.issued) = QLSrcs(children) /\ Ln.nflux = Len(children) - Len(Ln.issued)
             ELSE Ln.issued = <<>>)
    /\ Holds(StrictOK((Ln.err # "") <=> refused', "BQ.err"))
    /\ UNCHANGED tcfg

TrNext == TrBatch \/ TrBQ \/ TrReset \/ TrNewQuery \/ TrSetTimes \/ TrClone \/ TrTask \/ TrHist \/ TrHistRet \/ TrStart \/ TrStopped \/ TrSilent
TrSpec == TrInit /\ [][TrNext]_tvars

HW == HWMark(l)
Accepted == HWAccepted
=============================================================================
