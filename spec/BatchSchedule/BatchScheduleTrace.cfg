SPECIFICATION TrSpec
CONSTANTS
    LeafNames = {}
    UserTimes = {}
    MaxDepth = 0
    TimeChoices = {}
    MaxOps = 0
    Schedules = {}
    Base = 0
    SpanLens = {}
    DBRPs = {"db.rp", "db.rp2", "other.rp", ".", "sub"}
    ChildLists = {}
    WrapUser = TRUE
    TruncNext = TRUE
    CloneSharesGB = TRUE
    FluxEndsCollection = FALSE
    Strict = "report"
INVARIANTS
    OnlyDeclaredDBRPs
    HistoricalEqualsLive
CONSTRAINT HW
POSTCONDITION Accepted
CHECK_DEADLOCK FALSE
