SPECIFICATION TrSpec
CONSTANTS
    LeafNames = {}
    UserTimes = {}
    MaxDepth = 0
    TimeChoices = {}
    MaxOps = 0
    Schedules = {}
    Base = 0
    SpanLens = {}
    DBRPs <- MCDBRPs
    DefaultRPs <- MCDefaultRPs
    ChildLists = {}
    WrapUser = TRUE
    TruncNext = TRUE
    CloneSharesGB = TRUE
    FluxEndsCollection = FALSE
    ResolveEmptyRP = FALSE
    Strict = "report"
INVARIANTS
    OnlyDeclaredDBRPs
    HistoricalEqualsLive
CONSTRAINT HW
POSTCONDITION Accepted
CHECK_DEADLOCK FALSE
