---------------------------- MODULE BatchSchedule ----------------------------
(* Batch query nodes of kapacitor (C16): which InfluxQL statement is issued   *)
(* for which tick.  Code: query.go (NewQuery, SetStartTime/SetStopTime, Clone, *)
(* String), batch.go (QueryNode.Queries, doQuery, timeTicker, cronTicker),     *)
(* task.go (BatchQueries, StartBatching, checkDBRPs).                          *)
(*                                                                             *)
(* Three parts, selected by `mode` so that the state space is a sum:           *)
(*  "query"  the Query object: the user's WHERE tree, the time range spliced   *)
(*           onto it as  AND(user, AND(time >= S, time < E)),  the two literal *)
(*           pointers (modelled as paths into the tree) that SetStartTime /    *)
(*           SetStopTime write through, Clone = deep copy + rediscovery of the *)
(*           literals by a pre-order walk.  What InfluxDB receives is the      *)
(*           *string* of the tree: Show is influxql's String() (BinaryExpr    *)
(*           prints no parentheses), Parse is influxql's ParseExpr (AND binds  *)
(*           tighter than OR, left associative, explicit ParenExpr nodes).     *)
(*  "sched"  ticks: the live ticker of a task started at `start` and the loop  *)
(*           of Queries(start, stop) built on ticker.Next; both turn a tick    *)
(*           into the range [tick-offset-period, tick-offset).                 *)
(*  "dbrp"   checkDBRPs: the batch source has one child per |query (InfluxQL)  *)
(*           or |queryFlux node; BatchNode.DBRPs collects the sources of the    *)
(*           InfluxQL children; queries are issued only if all are declared.    *)
(*           A source is the (db, rp) pair AS WRITTEN in the FROM clause:        *)
(*           db.rp.m, "db"."rp"."m", db..m / "db".."m" (empty rp), a bare        *)
(*           measurement (both empty), several sources in one FROM.  The pair is  *)
(*           looked up among the declared DBRPs as it stands - an empty rp is     *)
(*           NOT resolved with TaskMaster.DefaultRetentionPolicy (that setting    *)
(*           is for incoming writes; the statement goes to InfluxDB as written    *)
(*           and InfluxDB applies its own default rp of that database).           *)
(*                                                                             *)
(* Time is in whole model units (seconds in the harness).  Conditions are      *)
(* evaluated on a doubled time axis (tt = 2t, 2t+1) so that  time > v  and      *)
(* time >= v+1  are told apart.                                                *)
EXTENDS Integers, Sequences, FiniteSets, TLC

CONSTANTS
    LeafNames,      \* opaque user predicates (a = 'x', ...) usable in generated conditions
    UserTimes,      \* user-written time predicates, a set of [op, v] records (may be empty)
    MaxDepth,       \* nesting bound of generated user conditions
    TimeChoices,    \* set of <<start, stop>> pairs SetStartTime/SetStopTime are called with
    MaxOps,         \* bound on SetTimes/Clone operations per behaviour
    Schedules,      \* set of task settings records (see SchedOK)
    Base,           \* first start time explored (a multiple of every `every`)
    SpanLens,       \* set of stop-start values explored
    DBRPs,          \* universe of declarable database/retention-policy pairs [db, rp]
    ChildLists,     \* set of sequences of children of the batch source: [kind: "ql"|"flux", srcs: Seq([db, rp])]
    DefaultRPs,     \* values of TaskMaster.DefaultRetentionPolicy (kapacitor.conf default-retention-policy)
    WrapUser,       \* NewQuery parenthesises the user's condition         (TRUE = repaired code)
    TruncNext,      \* aligned timeTicker.Next truncates like the live one  (TRUE = repaired code)
    CloneSharesGB,  \* Clone keeps the group-by literals inside the cloned statement (TRUE = repaired code)
    FluxEndsCollection, \* BatchNode.DBRPs stops collecting at the first Flux child (FALSE = the code; TRUE = seeded defect)
    ResolveEmptyRP  \* checkDBRPs fills an empty rp with DefaultRetentionPolicy before the lookup (FALSE = the code; TRUE = seeded defect)

----------------------------------------------------------------------------
(* Condition trees *)
Leaf(n)        == [k |-> "leaf", n |-> n]
Tm(op, v, lit) == [k |-> "tm", op |-> op, v |-> v, lit |-> lit]   \* lit: "time" = TimeLiteral node, "str" = quoted string
And(l, r)      == [k |-> "and", l |-> l, r |-> r]
Or(l, r)       == [k |-> "or", l |-> l, r |-> r]
Par(e)         == [k |-> "par", e |-> e]
None           == [k |-> "none"]      \* no WHERE clause
Bad            == [k |-> "bad"]       \* syntax error
IsBin(t)  == t.k \in {"and", "or"}
IsAtom(t) == t.k \in {"leaf", "tm"}

Atoms == { Leaf(n) : n \in LeafNames } \cup { Tm(u.op, u.v, "str") : u \in UserTimes }
RECURSIVE Trees(_)
Trees(d) == IF d = 0 THEN Atoms
            ELSE LET S == Trees(d - 1)
                 IN  Atoms \cup { And(a, b) : a, b \in S } \cup { Or(a, b) : a, b \in S } \cup { Par(a) : a \in S }

(* influxql String(): a BinaryExpr prints "LHS op RHS" with no parentheses,   *)
(* a ParenExpr prints its own; a TimeLiteral prints as a quoted string.        *)
TokAtom(a) == [k |-> "atom", a |-> IF a.k = "tm" THEN Tm(a.op, a.v, "str") ELSE a]
RECURSIVE Show(_)
Show(t) == CASE t.k = "none" -> <<>>
              [] IsAtom(t)    -> << TokAtom(t) >>
              [] IsBin(t)     -> Show(t.l) \o << [k |-> t.k] >> \o Show(t.r)
              [] t.k = "par"  -> << [k |-> "lp"] >> \o Show(t.e) \o << [k |-> "rp"] >>

(* influxql ParseExpr: every new "op rhs" is inserted by descending the right *)
(* spine while the operator there binds less tightly than the new one.        *)
(* Comparisons (our atoms) bind tighter than AND and OR.                        *)
Prec(op) == IF op = "or" THEN 1 ELSE 2
RECURSIVE Insert(_, _, _)
Insert(t, op, rhs) == IF IsBin(t) /\ Prec(t.k) < Prec(op)
                      THEN [t EXCEPT !.r = Insert(t.r, op, rhs)]
                      ELSE [k |-> op, l |-> t, r |-> rhs]
RECURSIVE ParseExprAt(_, _), ParseLoop(_, _, _), ParseUnaryAt(_, _)
ParseUnaryAt(toks, i) ==
    IF i > Len(toks) THEN [t |-> Bad, i |-> i]
    ELSE IF toks[i].k = "atom" THEN [t |-> toks[i].a, i |-> i + 1]
    ELSE IF toks[i].k = "lp"
         THEN LET r == ParseExprAt(toks, i + 1)
              IN  IF r.t # Bad /\ r.i <= Len(toks) /\ toks[r.i].k = "rp"
                  THEN [t |-> Par(r.t), i |-> r.i + 1]
                  ELSE [t |-> Bad, i |-> r.i]
    ELSE [t |-> Bad, i |-> i]
ParseLoop(toks, i, acc) ==
    IF i <= Len(toks) /\ toks[i].k \in {"and", "or"}
    THEN LET u == ParseUnaryAt(toks, i + 1)
         IN  IF u.t = Bad THEN u ELSE ParseLoop(toks, u.i, Insert(acc, toks[i].k, u.t))
    ELSE [t |-> acc, i |-> i]
ParseExprAt(toks, i) ==
    LET u == ParseUnaryAt(toks, i) IN IF u.t = Bad THEN u ELSE ParseLoop(toks, u.i, u.t)
Parse(toks) ==
    IF toks = <<>> THEN None
    ELSE LET r == ParseExprAt(toks, 1) IN IF r.t # Bad /\ r.i = Len(toks) + 1 THEN r.t ELSE Bad

(* What the statement means: ordinary two-valued semantics of AND/OR.        *)
RECURSIVE LeavesOf(_), ConstsOf(_), Eval(_, _, _)
LeavesOf(t) == CASE t.k = "leaf" -> {t.n}
                 [] IsBin(t)     -> LeavesOf(t.l) \cup LeavesOf(t.r)
                 [] t.k = "par"  -> LeavesOf(t.e)
                 [] OTHER        -> {}
ConstsOf(t) == CASE t.k = "tm"   -> {t.v}
                 [] IsBin(t)     -> ConstsOf(t.l) \cup ConstsOf(t.r)
                 [] t.k = "par"  -> ConstsOf(t.e)
                 [] OTHER        -> {}
TmHolds(op, v, tt) == CASE op = "ge" -> tt >= 2 * v
                        [] op = "gt" -> tt > 2 * v
                        [] op = "lt" -> tt < 2 * v
                        [] op = "le" -> tt <= 2 * v
Eval(t, val, tt) == CASE t.k = "leaf" -> t.n \in val
                      [] t.k = "tm"   -> TmHolds(t.op, t.v, tt)
                      [] t.k = "and"  -> Eval(t.l, val, tt) /\ Eval(t.r, val, tt)
                      [] t.k = "or"   -> Eval(t.l, val, tt) \/ Eval(t.r, val, tt)
                      [] t.k = "par"  -> Eval(t.e, val, tt)
                      [] t.k = "none" -> TRUE
                      [] OTHER        -> FALSE
(* Sample points: just below, at and just above every constant (the truth    *)
(* value is constant between consecutive sample points).                      *)
TimePts(cs) == UNION { {2 * v - 1, 2 * v, 2 * v + 1} : v \in cs }
(* `out` selects exactly the rows the user's condition selects, restricted to *)
(* s <= time < e: every disjunct is bounded and the user's condition is kept.  *)
Equiv(out, u, s, e) ==
    /\ out # Bad
    /\ \A val \in SUBSET (LeavesOf(out) \cup LeavesOf(u)) :
         \A tt \in TimePts(ConstsOf(out) \cup ConstsOf(u) \cup {s, e}) :
            Eval(out, val, tt) <=> (Eval(u, val, tt) /\ tt >= 2 * s /\ tt < 2 * e)

(* influxql.ConditionExpr (how the InfluxDB 1.x engine itself reads a         *)
(* condition): ALL time predicates are intersected, whatever AND/OR structure  *)
(* they sit in, and removed from the condition.  Reported next to the verdict. *)
RECURSIVE CxLo(_), CxHi(_), CxResid(_)
Max2(a, b) == IF a >= b THEN a ELSE b
Min2(a, b) == IF a <= b THEN a ELSE b
NoLo == -1000000
NoHi == 1000000
CxLo(t) == CASE t.k = "tm"  -> (IF t.op = "ge" THEN 2 * t.v ELSE IF t.op = "gt" THEN 2 * t.v + 1 ELSE NoLo)
             [] IsBin(t)    -> Max2(CxLo(t.l), CxLo(t.r))
             [] t.k = "par" -> CxLo(t.e)
             [] OTHER       -> NoLo
CxHi(t) == CASE t.k = "tm"  -> (IF t.op = "lt" THEN 2 * t.v ELSE IF t.op = "le" THEN 2 * t.v + 1 ELSE NoHi)
             [] IsBin(t)    -> Min2(CxHi(t.l), CxHi(t.r))
             [] t.k = "par" -> CxHi(t.e)
             [] OTHER       -> NoHi
CxResid(t) == CASE t.k = "tm"  -> None
                [] IsBin(t)    -> LET a == CxResid(t.l) b == CxResid(t.r)
                                  IN  IF b = None THEN a ELSE IF a = None THEN b ELSE [t EXCEPT !.l = a, !.r = b]
                [] t.k = "par" -> LET a == CxResid(t.e) IN IF a = None THEN None ELSE IF a.k = "par" THEN a ELSE Par(a)
                [] OTHER       -> t
StripPar(t) == IF t.k = "par" THEN t.e ELSE t

----------------------------------------------------------------------------
(* The Query object *)
NoQ == [cond |-> None, sP |-> <<>>, eP |-> <<>>, err |-> TRUE, live |-> FALSE]
RECURSIVE At(_, _), SetV(_, _, _), Walk(_, _)
At(t, p)      == IF p = <<>> THEN t ELSE At(t[Head(p)], Tail(p))
SetV(t, p, v) == IF p = <<>> THEN [t EXCEPT !.v = v]
                 ELSE [t EXCEPT ![Head(p)] = SetV(t[Head(p)], Tail(p), v)]
(* influxql.WalkFunc order: node, then LHS, then RHS.  Paths of all atoms.     *)
Walk(t, p) == CASE IsAtom(t)   -> << p >>
                [] IsBin(t)    -> Walk(t.l, Append(p, "l")) \o Walk(t.r, Append(p, "r"))
                [] t.k = "par" -> Walk(t.e, Append(p, "e"))
                [] OTHER       -> << >>
ZeroT == 0
RangeOf(s, e) == And(Tm("ge", s, "time"), Tm("lt", e, "time"))
(* query.go NewQuery *)
NewQ(u) == IF u = None
           THEN [cond |-> RangeOf(ZeroT, ZeroT), sP |-> <<"l">>, eP |-> <<"r">>, err |-> FALSE, live |-> TRUE]
           ELSE [cond |-> And(IF WrapUser THEN Par(u) ELSE u, RangeOf(ZeroT, ZeroT)),
                 sP |-> <<"r", "l">>, eP |-> <<"r", "r">>, err |-> FALSE, live |-> TRUE]
SetQ(o, s, e) == [o EXCEPT !.cond = SetV(SetV(o.cond, o.sP, s), o.eP, e)]
(* query.go Clone: time >= / < TimeLiteral nodes in walk order; the first of   *)
(* each is taken, a second one or none at all is an error.                      *)
TLPaths(t, op) == SelectSeq(Walk(t, <<>>), LAMBDA p : At(t, p).k = "tm" /\ At(t, p).op = op /\ At(t, p).lit = "time")
CloneQ(o) == LET gs == TLPaths(o.cond, "ge")
                 ls == TLPaths(o.cond, "lt")
             IN  [cond |-> o.cond,
                  sP |-> IF gs = <<>> THEN <<>> ELSE gs[1],
                  eP |-> IF ls = <<>> THEN <<>> ELSE ls[1],
                  err |-> Len(gs) # 1 \/ Len(ls) # 1, live |-> TRUE]
Sent(o) == Parse(Show(o.cond))         \* the condition InfluxDB parses out of String()

----------------------------------------------------------------------------
(* Ticks *)
Trunc(t, d) == t - (t % d)
Round(t, d) == LET r == t % d IN IF 2 * r < d THEN t - r ELSE t + (d - r)   \* Go: halfway values round up
SchedOK(s) == /\ s.kind \in {"every", "cron"}
              /\ s.every \in Nat /\ s.align \in BOOLEAN       \* kind "every"
              /\ s.p \in Nat /\ s.r \in Nat                   \* kind "cron": ticks at t with t % p = r
              /\ s.period \in Nat /\ s.offset \in Int
              /\ s.gbLen \in Nat /\ s.gbOff \in Int /\ s.alignGroup \in BOOLEAN   \* gbLen = 0: no GROUP BY time()
NoSched == [kind |-> "every", every |-> 1, align |-> FALSE, p |-> 1, r |-> 0, period |-> 0, offset |-> 0,
            gbLen |-> 0, gbOff |-> 0, alignGroup |-> FALSE]
(* ticker.Next(now): "the next time the ticker will tick after now"            *)
NextTime(s, now) ==
    IF s.kind = "cron" THEN now - ((now - s.r) % s.p) + s.p
    ELSE IF s.align THEN (IF TruncNext THEN Trunc(now + s.every, s.every) ELSE Round(now + s.every, s.every))
    ELSE now + s.every
(* The running ticker of a task started at wall time `now`: its first tick ...  *)
LiveFirst(s, now) ==
    IF s.kind = "cron" THEN now - ((now - s.r) % s.p) + s.p
    ELSE IF s.align THEN Trunc(now, s.every) + s.every
    ELSE now + s.every
(* ... and the tick after tick `prev` (time.Ticker period; the aligned ticker   *)
(* rounds the ticker's time, which is prev+every plus a latency < every/2).     *)
LiveNext(s, prev) ==
    IF s.kind = "cron" THEN prev + s.p
    ELSE IF s.align THEN Round(prev + s.every, s.every)
    ELSE prev + s.every
(* SetStartTime with alignGroup rewrites the GROUP BY time() offset literal.    *)
GbOffFor(s, qstart) == IF s.gbLen > 0 /\ s.alignGroup THEN qstart % s.gbLen ELSE s.gbOff
(* doQuery: stop = tick - offset, start = stop - period                          *)
LiveQuery(s, tick) == [s |-> tick - s.offset - s.period, e |-> tick - s.offset,
                       gbo |-> GbOffFor(s, tick - s.offset - s.period)]
(* Queries(): the same on a Clone.  Clone builds *new* duration literals for    *)
(* its groupBy pointers (as found), so SetStartTime on a clone does not reach   *)
(* the statement and the printed offset stays what the node's statement held.   *)
HistQuery(s, tick) == [s |-> tick - s.offset - s.period, e |-> tick - s.offset,
                       gbo |-> IF CloneSharesGB THEN GbOffFor(s, tick - s.offset - s.period) ELSE s.gbOff]
NoSpan == [start |-> 0, stop |-> 0]

----------------------------------------------------------------------------
VARIABLES
    mode,                   \* "idle" | "query" | "sched" | "dbrp"
    user,                   \* the user's WHERE condition as the parser delivered it
    q, c,                   \* the node's Query object; the most recent Clone (NoQ before)
    qT, cT,                 \* ghost: <<start, stop>> last set on q / c
    nops,
    sch, span,              \* task settings; BatchQueries(start, stop) arguments
    cur, hist, hdone,       \* Queries() loop: `current`, the list built so far, loop left
    lprev, live, ldone,     \* live ticker started at span.start: last tick, queries issued, passed span.stop
    declared, children, defrp, issued, refused

qvars == <<user, q, c, qT, cT, nops>>
svars == <<sch, span, cur, hist, hdone, lprev, live, ldone>>
dvars == <<declared, children, defrp, issued, refused>>
vars  == <<mode, qvars, svars, dvars>>


Init ==
    /\ mode = "idle"
    /\ user = None /\ q = NoQ /\ c = NoQ /\ qT = <<ZeroT, ZeroT>> /\ cT = <<ZeroT, ZeroT>> /\ nops = 0
    /\ sch = NoSched /\ span = NoSpan /\ cur = 0 /\ hist = <<>> /\ hdone = TRUE
    /\ lprev = 0 /\ live = <<>> /\ ldone = TRUE
    /\ declared = {} /\ children = <<>> /\ defrp = "" /\ issued = {} /\ refused = FALSE

(* ---- Query object ---- *)
NewQuery(u) ==
    /\ mode = "idle" /\ mode' = "query"
    /\ user' = u /\ q' = NewQ(u) /\ qT' = <<ZeroT, ZeroT>>
    /\ c' = NoQ /\ cT' = <<ZeroT, ZeroT>> /\ nops' = 0
    /\ UNCHANGED <<svars, dvars>>
(* SetStartTime(s); SetStopTime(e) on the node's query (live path, which = "q") *)
(* or on the latest clone (historical path, which = "c")                         *)
SetTimes(which, s, e) ==
    /\ mode = "query"
    /\ \/ which = "q" /\ q' = SetQ(q, s, e) /\ qT' = <<s, e>> /\ UNCHANGED <<c, cT>>
       \/ which = "c" /\ c.live /\ ~c.err /\ c' = SetQ(c, s, e) /\ cT' = <<s, e>> /\ UNCHANGED <<q, qT>>
    /\ nops' = nops + 1
    /\ UNCHANGED <<mode, user, svars, dvars>>
DoClone ==
    /\ mode = "query"
    /\ c' = CloneQ(q) /\ cT' = qT
    /\ nops' = nops + 1
    /\ UNCHANGED <<mode, user, q, qT, svars, dvars>>

(* ---- schedule ---- *)
StartSpan(s, start, stop) ==
    /\ mode = "idle" /\ mode' = "sched"
    /\ sch' = s /\ span' = [start |-> start, stop |-> stop]
    /\ cur' = start /\ hist' = <<>> /\ hdone' = FALSE
    /\ lprev' = start /\ live' = <<>> /\ ldone' = FALSE
    /\ UNCHANGED <<qvars, dvars>>
(* one iteration of the loop in QueryNode.Queries (wall-clock `now` is later    *)
(* than every model time, so the qstop.After(now) exit is never taken)          *)
HistStep ==
    /\ mode = "sched" /\ ~hdone
    /\ LET nx == NextTime(sch, cur)
       IN  IF nx > span.stop
           THEN hdone' = TRUE /\ UNCHANGED <<cur, hist>>
           ELSE cur' = nx /\ hist' = Append(hist, HistQuery(sch, nx)) /\ UNCHANGED hdone
    /\ UNCHANGED <<mode, sch, span, lprev, live, ldone, qvars, dvars>>
(* (the two loops do not interact: the live ticker is run after the loop)       *)
LiveTick ==
    /\ mode = "sched" /\ hdone /\ ~ldone
    /\ LET nx == IF live = <<>> THEN LiveFirst(sch, span.start) ELSE LiveNext(sch, lprev)
       IN  IF nx > span.stop
           THEN ldone' = TRUE /\ UNCHANGED <<lprev, live>>
           ELSE lprev' = nx /\ live' = Append(live, LiveQuery(sch, nx)) /\ UNCHANGED ldone
    /\ UNCHANGED <<mode, sch, span, cur, hist, hdone, qvars, dvars>>

(* ---- DBRPs: StartBatching / BatchQueries both run checkDBRPs first ---- *)
SrcSet(srcs) == { srcs[i] : i \in DOMAIN srcs }
Src(db, rp) == [db |-> db, rp |-> rp]
(* the pair a FROM item denotes, by the way it is written (quoting makes no difference) *)
SrcForms == {"full", "fullq", "norp", "norpq", "bare"}
SrcOf(form, db, rp) == CASE form \in {"full", "fullq"} -> Src(db, rp)       \* db.rp.m   "db"."rp"."m"
                         [] form \in {"norp", "norpq"} -> Src(db, "")       \* db..m     "db".."m"
                         [] form = "bare"              -> Src("", "")       \* m
(* what checkDBRPs looks up for a source *)
Lookup(s, drp) == IF ResolveEmptyRP /\ s.rp = "" THEN [s EXCEPT !.rp = drp] ELSE s
Child(kind, srcs) == [kind |-> kind, srcs |-> srcs]
(* BatchNode.DBRPs: walk the children in order; an InfluxQL child contributes the *)
(* sources of its statement, a Flux child has none.                                *)
RECURSIVE Collect(_), AllQL(_)
Collect(ch) == IF ch = <<>> THEN <<>>
               ELSE IF Head(ch).kind = "flux" THEN (IF FluxEndsCollection THEN <<>> ELSE Collect(Tail(ch)))
               ELSE Head(ch).srcs \o Collect(Tail(ch))
(* what the InfluxQL children will query once they run *)
AllQL(ch) == IF ch = <<>> THEN <<>>
             ELSE IF Head(ch).kind = "flux" THEN AllQL(Tail(ch)) ELSE Head(ch).srcs \o AllQL(Tail(ch))
Allowed(decl, ch, drp) == { Lookup(x, drp) : x \in SrcSet(Collect(ch)) } \subseteq decl    \* checkDBRPs
AllDeclared(decl, ch) == SrcSet(AllQL(ch)) \subseteq decl        \* what the property demands: the pairs as written
StartBatch(decl, ch, drp) ==
    /\ mode = "idle" /\ mode' = "dbrp"
    /\ declared' = decl /\ children' = ch /\ defrp' = drp
    /\ IF Allowed(decl, ch, drp) THEN issued' = SrcSet(AllQL(ch)) /\ refused' = FALSE
                            ELSE issued' = {} /\ refused' = TRUE
    /\ UNCHANGED <<qvars, svars>>

(* The user's WHERE clause is text: every tree of Trees(MaxDepth) is printed and  *)
(* what the parser makes of that text is the user's condition.  The top level is *)
(* enumerated with nested quantifiers so that TLC never has to build (and sort)  *)
(* the whole set Trees(MaxDepth).                                                  *)
UserText(t) == Parse(Show(t))
SomeNewQuery ==
    \/ NewQuery(None)
    \/ \E a \in Atoms : NewQuery(a)
    \/ /\ MaxDepth > 0
       /\ LET S == Trees(MaxDepth - 1)
          IN  \/ \E a \in S, b \in S : NewQuery(UserText(And(a, b))) \/ NewQuery(UserText(Or(a, b)))
              \/ \E a \in S : NewQuery(UserText(Par(a)))
(* (the guards are repeated in front of the quantifiers so that TLC does not    *)
(* enumerate the bindings in states where the action is disabled anyway)         *)
Next ==
    \/ mode = "idle" /\ SomeNewQuery
    \/ mode = "query" /\ nops < MaxOps /\ \E T \in TimeChoices, w \in {"q", "c"} : SetTimes(w, T[1], T[2])
    \/ mode = "query" /\ nops < MaxOps /\ DoClone
    \/ mode = "idle" /\ \E s \in Schedules : \E p \in 0..((IF s.kind = "cron" THEN s.p ELSE s.every) - 1), n \in SpanLens :
          StartSpan(s, Base + p, Base + p + n)
    \/ HistStep \/ LiveTick
    \/ mode = "idle" /\ \E d \in SUBSET DBRPs, ch \in ChildLists, drp \in DefaultRPs : StartBatch(d, ch, drp)
Spec == Init /\ [][Next]_vars

----------------------------------------------------------------------------
(* Properties *)
ObjOK(o, T) == Equiv(Sent(o), user, T[1], T[2])
(* What is sent restricts every disjunct to [start, stop) and keeps the user's condition. *)
RangeIsExact ==
    mode = "query" => /\ ObjOK(q, qT)
                      /\ (c.live /\ ~c.err => ObjOK(c, cT))
(* Clone finds exactly the two spliced literals, whatever the user wrote.       *)
CloneFindsLiterals ==
    (mode = "query" /\ c.live) =>
        /\ ~c.err
        /\ c.sP = q.sP /\ c.eP = q.eP
        /\ At(c.cond, c.sP) = Tm("ge", cT[1], "time") /\ At(c.cond, c.eP) = Tm("lt", cT[2], "time")
(* The statement survives the round trip through its string.                    *)
SentParses == mode = "query" => Sent(q) # Bad
(* The list Queries(start, stop) returns is the list of queries the live ticks  *)
(* in (start, stop] issue - for every phase of start.                            *)
HistoricalEqualsLive == (mode = "sched" /\ hdone /\ ldone) => hist = live
(* every issued range has length period and ends at tick - offset; aligned ticks are multiples of every *)
RangeFromTick ==
    mode = "sched" =>
        \A i \in DOMAIN live :
            /\ live[i].e - live[i].s = sch.period
            /\ (sch.kind = "every" /\ sch.align) => (live[i].e + sch.offset) % sch.every = 0
            /\ (sch.kind = "cron") => (live[i].e + sch.offset) % sch.p = sch.r
            /\ live[i].e + sch.offset > span.start /\ live[i].e + sch.offset <= span.stop
            /\ i > 1 => live[i].e > live[i - 1].e
OnlyDeclaredDBRPs == issued \subseteq declared
RefusedIffUndeclared == mode = "dbrp" => (refused <=> ~AllDeclared(declared, children))

TypeOK ==
    /\ mode \in {"idle", "query", "sched", "dbrp"}
    /\ nops \in 0..MaxOps
    /\ hdone \in BOOLEAN /\ ldone \in BOOLEAN /\ refused \in BOOLEAN
    /\ SchedOK(sch)
    /\ issued \subseteq DBRPs /\ declared \subseteq DBRPs
=============================================================================
