SPECIFICATION Spec
CONSTANTS
    LeafNames = {"a", "b"}
    UserTimes <- MCUserTimesT
    MaxDepth = 2
    TimeChoices <- MCTimeChoices1
    MaxOps = 2
    Schedules = {}
    Base = 0
    SpanLens = {}
    DBRPs = {}
    ChildLists = {}
    WrapUser = TRUE
    TruncNext = TRUE
    CloneSharesGB = TRUE
    FluxEndsCollection = FALSE
INVARIANTS
    RangeIsExact
    CloneFindsLiterals
    SentParses
CHECK_DEADLOCK FALSE
