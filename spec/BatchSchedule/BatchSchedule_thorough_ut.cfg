SPECIFICATION Spec
CONSTANTS
    LeafNames = {"a", "b"}
    UserTimes <- MCUserTimesT
    MaxDepth = 2
    TimeChoices <- MCTimeChoices1
    MaxOps = 2
    Schedules = {}
    Base = 0
    SpanLens = {}
    DBRPs <- MCDBRPs
    DefaultRPs <- MCDefaultRPs
    ChildLists = {}
    WrapUser = TRUE
    TruncNext = TRUE
    CloneSharesGB = TRUE
    FluxEndsCollection = FALSE
    ResolveEmptyRP = FALSE
INVARIANTS
    RangeIsExact
    CloneFindsLiterals
    SentParses
CHECK_DEADLOCK FALSE
