SPECIFICATION Spec
CONSTANTS
    LeafNames = {"a"}
    UserTimes = {}
    MaxDepth = 1
    TimeChoices <- MCTimeChoices
    MaxOps = 1
    Schedules <- MCSchedulesNeg
    Base = 120
    SpanLens <- MCSpanLensQuick
    DBRPs <- MCDBRPs
    DefaultRPs <- MCDefaultRPs
    ChildLists <- MCChildListsNeg
    WrapUser = FALSE
    TruncNext = TRUE
    CloneSharesGB = TRUE
    FluxEndsCollection = FALSE
    ResolveEmptyRP = FALSE
INVARIANTS
    TypeOK
    RangeIsExact
    CloneFindsLiterals
    SentParses
    HistoricalEqualsLive
    RangeFromTick
    OnlyDeclaredDBRPs
    RefusedIffUndeclared
CHECK_DEADLOCK FALSE
