------------------------ MODULE BatchScheduleTraceMC ------------------------
EXTENDS BatchScheduleTrace
MCNone == {}
MCNoSeq == {<<>>}
MCDBRPs == {}
MCDefaultRPs == {}
=============================================================================
