------------------------ MODULE BatchScheduleTraceMC ------------------------
EXTENDS BatchScheduleTrace
MCNone == {}
MCNoSeq == {<<>>}
=============================================================================
