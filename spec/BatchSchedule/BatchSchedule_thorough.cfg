SPECIFICATION Spec
CONSTANTS
    LeafNames = {"a", "b"}
    UserTimes <- MCUserTimes
    MaxDepth = 2
    TimeChoices <- MCTimeChoices
    MaxOps = 3
    Schedules <- MCSchedulesThorough
    Base = 420
    SpanLens <- MCSpanLensThorough
    DBRPs <- MCDBRPs
    DefaultRPs <- MCDefaultRPs
    ChildLists <- MCChildLists
    WrapUser = TRUE
    TruncNext = TRUE
    CloneSharesGB = TRUE
    FluxEndsCollection = FALSE
    ResolveEmptyRP = FALSE
INVARIANTS
    TypeOK
    RangeIsExact
    CloneFindsLiterals
    SentParses
    HistoricalEqualsLive
    RangeFromTick
    OnlyDeclaredDBRPs
    RefusedIffUndeclared
CHECK_DEADLOCK FALSE
