----------------------------- MODULE ReplayProc -----------------------------
(* Replaying a batch recording with several sources as the code runs it      *)
(* (replay.go ReplayBatchFromIO / ReplayBatchFromChan): per source one        *)
(* reader goroutine (readBatchFromIO: decodes the next recorded batch, skips   *)
(* empty ones, hands it over an unbuffered channel) and one replayer           *)
(* goroutine (replayBatchFromChan: start/diff fixed by ITS first point, shifts  *)
(* points and tmax, hands the batch to the collector, closes the collector     *)
(* when the channel is closed); a waiter reports the first error or nil after   *)
(* 2 x sources results.  services/replay/service.go doReplay then drains the    *)
(* task master.                                                                 *)
(*                                                                             *)
(* Ref (the property): what the task receives from source i is source i's       *)
(* recording with every timestamp shifted by ONE constant for the whole         *)
(* replay.  The model shows which half holds (per source) and which does not    *)
(* (across sources, config ReplayProc_cross.cfg = expected counterexample,      *)
(* known finding batch-sources-shifted-independently).                           *)
EXTENDS Integers, Sequences, FiniteSets, TLC

CONSTANTS Sources,      \* set of source ids
          Times, MaxPts, MaxBatches, Zeros,   \* bounds of the recordings TLC enumerates
          SkipEmpty,    \* TRUE = readBatchFromIO drops empty batches (replay from a recording file; known finding
                        \* batch-empty-batch-dropped); FALSE = ReplayBatchFromChan (live replays: no file in between)
          SameStart     \* TRUE = only recordings whose sources all start at the same time (where CrossSourceShift holds)

(* Rec[s] = sequence of recorded batches [pts : ordered Seq(time), tmax >= last point] (pts may be empty);   *)
(* Zero = the clock's zero; RecTime = recorded-time replay.  Chosen in Init, constant afterwards.            *)
VARIABLES Rec, Zero, RecTime

VARIABLES rd,      \* rd[s]   = index of the next recorded batch the reader will decode
          chan,    \* chan[s] = <<>> or <<batch>> : the unbuffered channel between reader and replayer (hand-over in flight)
          rdone,   \* rdone[s]: reader finished and closed the channel
          start,   \* start[s] = None or the time of the first point the replayer saw
          out,     \* out[s]  = sequence of batches handed to collector s
          closed,  \* closed[s] = number of times collector s was closed
          results  \* number of goroutine results the waiter has received
vars == <<rd, chan, rdone, start, out, closed, results, Rec, Zero, RecTime>>

None == -1      \* no time yet (recorded times are naturals)
Ordered(q) == \A i, j \in DOMAIN q : i < j => q[i] <= q[j]
PtSeqs == UNION { [1..n -> Times] : n \in 0..MaxPts }
Batches == { b \in [pts : PtSeqs, tmax : Times] : Ordered(b.pts) /\ (b.pts # <<>> => b.tmax >= b.pts[Len(b.pts)]) }
BatchRecs == UNION { [1..n -> Batches] : n \in 0..MaxBatches }
FirstIn(q) == LET ne == SelectSeq(q, LAMBDA b : b.pts # <<>>) IN IF ne = <<>> THEN None ELSE ne[1].pts[1]
Init ==
    /\ Rec \in [Sources -> BatchRecs] /\ Zero \in Zeros /\ RecTime \in BOOLEAN
    /\ SameStart => \A s, u \in Sources : FirstIn(Rec[s]) = FirstIn(Rec[u])
    /\ rd = [s \in Sources |-> 1] /\ chan = [s \in Sources |-> <<>>] /\ rdone = [s \in Sources |-> FALSE]
    /\ start = [s \in Sources |-> None] /\ out = [s \in Sources |-> <<>>] /\ closed = [s \in Sources |-> 0]
    /\ results = 0

(* reader: decode the next batch; an empty one is skipped when SkipEmpty *)
Read(s) ==
    /\ ~rdone[s] /\ chan[s] = <<>> /\ rd[s] <= Len(Rec[s])
    /\ LET b == Rec[s][rd[s]] IN
       chan' = [chan EXCEPT ![s] = IF SkipEmpty /\ b.pts = <<>> THEN <<>> ELSE <<b>>]
    /\ rd' = [rd EXCEPT ![s] = @ + 1]
    /\ UNCHANGED <<rdone, start, out, closed, results, Rec, Zero, RecTime>>
ReadEnd(s) ==
    /\ ~rdone[s] /\ chan[s] = <<>> /\ rd[s] > Len(Rec[s])
    /\ rdone' = [rdone EXCEPT ![s] = TRUE] /\ results' = results + 1
    /\ UNCHANGED <<rd, chan, start, out, closed, Rec, Zero, RecTime>>

Max2(a, b) == IF a >= b THEN a ELSE b
(* replayer: one received batch *)
Replay(s) ==
    /\ chan[s] # <<>>
    /\ LET b  == chan[s][1]
           st == IF start[s] = None /\ b.pts # <<>> THEN b.pts[1] ELSE start[s]
           d  == IF RecTime \/ st = None THEN 0 ELSE Zero - st
           pts == [k \in DOMAIN b.pts |-> b.pts[k] + d]
           tm  == IF b.pts = <<>> THEN b.tmax        \* an empty batch keeps its recorded tmax (unshifted in the code)
                  ELSE Max2(b.tmax + d, pts[Len(pts)])
       IN  /\ start' = [start EXCEPT ![s] = st]
           /\ out' = [out EXCEPT ![s] = Append(@, [pts |-> pts, tmax |-> tm])]
    /\ chan' = [chan EXCEPT ![s] = <<>>]
    /\ UNCHANGED <<rd, rdone, closed, results, Rec, Zero, RecTime>>
(* replayer: the channel is closed and drained: close the collector, report *)
Finish(s) ==
    /\ rdone[s] /\ chan[s] = <<>> /\ closed[s] = 0
    /\ closed' = [closed EXCEPT ![s] = 1] /\ results' = results + 1
    /\ UNCHANGED <<rd, chan, rdone, start, out, Rec, Zero, RecTime>>

Next == \E s \in Sources : Read(s) \/ ReadEnd(s) \/ Replay(s) \/ Finish(s)
Spec == Init /\ [][Next]_vars /\ \A s \in Sources : WF_vars(Read(s) \/ ReadEnd(s) \/ Replay(s) \/ Finish(s))

Done == results = 2 * Cardinality(Sources)

(* ------------------------------ properties ------------------------------ *)
NonEmpty(seq) == SelectSeq(seq, LAMBDA b : b.pts # <<>>)
Expected(s) == IF SkipEmpty THEN NonEmpty(Rec[s]) ELSE Rec[s]
FirstOf(s) == LET ne == NonEmpty(Rec[s]) IN IF ne = <<>> THEN None ELSE ne[1].pts[1]
ShiftOf(first) == IF RecTime \/ first = None THEN 0 ELSE Zero - first
Shifted(seq, d) == [i \in DOMAIN seq |->
    [pts |-> [k \in DOMAIN seq[i].pts |-> seq[i].pts[k] + d],
     tmax |-> seq[i].tmax + d]]          \* every timestamp, also the tmax of an empty batch

TypeOK ==
    /\ \A s \in Sources : rd[s] \in 1..(Len(Rec[s]) + 1) /\ Len(chan[s]) <= 1 /\ closed[s] \in 0..1
    /\ results \in 0..(2 * Cardinality(Sources))
(* every collector is closed exactly once, and only after everything of its source was delivered *)
ClosedOnce == \A s \in Sources : closed[s] = 1 => (rdone[s] /\ chan[s] = <<>> /\ Len(out[s]) = Len(Expected(s)))
(* what a collector has received so far is a prefix of its own source's recording, shifted by that source's constant *)
PerSourcePrefix ==
    \A s \in Sources :
        LET e == Shifted(Expected(s), ShiftOf(FirstOf(s))) IN
        /\ Len(out[s]) <= Len(e)
        /\ \A i \in DOMAIN out[s] : out[s][i] = e[i]
(* the replay ends: at the end every source was delivered completely (no loss, no duplicate, order kept) *)
CompleteAtEnd == Done => \A s \in Sources : out[s] = Shifted(Expected(s), ShiftOf(FirstOf(s))) /\ closed[s] = 1
Terminates == <>Done

(* ONE constant for the whole replay: the earliest first point over all sources fixes it.  Violated by the code *)
(* whenever two sources start at different times (expected counterexample, ReplayProc_cross.cfg).               *)
Firsts == { FirstOf(s) : s \in Sources } \ {None}
Earliest == IF Firsts = {} THEN None ELSE CHOOSE t \in Firsts : \A u \in Firsts : t <= u
CrossSourceShift == Done => \A s \in Sources : out[s] = Shifted(Expected(s), ShiftOf(Earliest))
=============================================================================
