SPECIFICATION Spec
CONSTANTS
  Sources = {1, 2}
  Times = {0, 1, 2}
  MaxPts = 1
  MaxBatches = 2
  Zeros <- MCZeros
  SkipEmpty = TRUE
  SameStart = FALSE
INVARIANTS
  TypeOK
  ClosedOnce
  PerSourcePrefix
  CompleteAtEnd
CHECK_DEADLOCK FALSE
