------------------------------- MODULE Replay -------------------------------
(* Replaying a recording (C18).  Code: replay.go (replayStreamFromChan,       *)
(* replayBatchFromChan, readPointsFromIO, readBatchFromIO).                   *)
(*                                                                           *)
(* Ref: the replayed sequence is the recorded one with every timestamp -      *)
(* including a batch's tmax - shifted by ONE constant d: d = 0 in recorded-   *)
(* time mode, d = clock zero - time of the first recorded point otherwise.    *)
(* Impl: the code's state machine (start, diff, tmax) over abstract payloads. *)
(* Payloads (names, tags, field values/types) are opaque here: the trace      *)
(* specification compares them literally.                                     *)
EXTENDS Integers, Sequences, FiniteSets, TLC

CONSTANTS Times, Zeros, MaxItems, MaxPts, ShiftTmax
(* ShiftTmax = TRUE: tmax is shifted like the points (the repaired code);      *)
(* FALSE: the original code compared the UNSHIFTED recorded tmax with the       *)
(* shifted last point time and kept the larger one.                           *)

Max2(a, b) == IF a >= b THEN a ELSE b

(* ------------------------------- stream ------------------------------- *)
(* a stream recording is a sequence of times (payload opaque, order kept)   *)
StreamRecs == UNION { [1..n -> Times] : n \in 0..MaxItems }
Ordered(s) == \A i, j \in DOMAIN s : i < j => s[i] <= s[j]
Shift(recTime, zero, first) == IF recTime THEN 0 ELSE zero - first

RefStream(rec, recTime, zero) ==
    IF rec = <<>> THEN <<>> ELSE [i \in DOMAIN rec |-> rec[i] + Shift(recTime, zero, rec[1])]

(* replayStreamFromChan: start/diff fixed by the first point; SetTime only when !recTime *)
RECURSIVE ImplStreamFrom(_, _, _, _, _)
ImplStreamFrom(rec, recTime, zero, started, diff) ==
    IF rec = <<>> THEN <<>>
    ELSE LET d  == IF started THEN diff ELSE zero - Head(rec)
             t  == IF recTime THEN Head(rec) ELSE Head(rec) + d
         IN  <<t>> \o ImplStreamFrom(Tail(rec), recTime, zero, TRUE, d)
ImplStream(rec, recTime, zero) == ImplStreamFrom(rec, recTime, zero, FALSE, 0)

(* -------------------------------- batch -------------------------------- *)
(* a recorded batch: [pts : non-empty ordered sequence of times, tmax >= last point]  *)
PtSeqs == UNION { [1..n -> Times] : n \in 1..MaxPts }
Batches == { b \in [pts : PtSeqs, tmax : Times] : Ordered(b.pts) /\ b.tmax >= b.pts[Len(b.pts)] }
BatchRecs == UNION { [1..n -> Batches] : n \in 0..2 }

RefBatch(rec, recTime, zero) ==
    IF rec = <<>> THEN <<>>
    ELSE LET d == Shift(recTime, zero, rec[1].pts[1])
         IN  [i \in DOMAIN rec |-> [pts |-> [k \in DOMAIN rec[i].pts |-> rec[i].pts[k] + d], tmax |-> rec[i].tmax + d]]

RECURSIVE ImplBatchFrom(_, _, _, _, _)
ImplBatchFrom(rec, recTime, zero, started, diff) ==
    IF rec = <<>> THEN <<>>
    ELSE LET b    == Head(rec)
             d    == IF started THEN diff ELSE zero - b.pts[1]
             pts  == IF recTime THEN b.pts ELSE [k \in DOMAIN b.pts |-> b.pts[k] + d]
             lpt  == pts[Len(pts)]
             beg  == IF ShiftTmax /\ ~recTime THEN b.tmax + d ELSE b.tmax
             tmax == Max2(beg, lpt)
         IN  <<[pts |-> pts, tmax |-> tmax]>> \o ImplBatchFrom(Tail(rec), recTime, zero, TRUE, d)
ImplBatch(rec, recTime, zero) == ImplBatchFrom(rec, recTime, zero, FALSE, 0)

(* One recording, mode and clock zero per initial state: TLC enumerates them all. *)
VARIABLES kind, srec, brec, recTime, zero
vars == <<kind, srec, brec, recTime, zero>>
Init ==
    /\ recTime \in BOOLEAN /\ zero \in Zeros
    /\ \/ kind = "stream" /\ srec \in { r \in StreamRecs : Ordered(r) } /\ brec = <<>>
       \/ kind = "batch" /\ brec \in BatchRecs /\ srec = <<>>
Next == UNCHANGED vars
Spec == Init /\ [][Next]_vars

StreamRefines == kind = "stream" => ImplStream(srec, recTime, zero) = RefStream(srec, recTime, zero)
BatchRefines == kind = "batch" => ImplBatch(brec, recTime, zero) = RefBatch(brec, recTime, zero)
(* ConstantShift, stated directly on the replayed data: one offset for every timestamp *)
ConstantShift ==
    (kind = "batch" /\ brec # <<>>) =>
        LET o == ImplBatch(brec, recTime, zero)
            d == o[1].pts[1] - brec[1].pts[1]
        IN  \A i \in DOMAIN brec : /\ o[i].tmax - brec[i].tmax = d
                                    /\ \A k \in DOMAIN brec[i].pts : o[i].pts[k] - brec[i].pts[k] = d
=============================================================================
