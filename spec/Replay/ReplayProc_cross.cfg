SPECIFICATION Spec
CONSTANTS
  Sources = {1, 2}
  Times = {0, 1}
  MaxPts = 1
  MaxBatches = 1
  Zeros <- MCZeros
  SkipEmpty = TRUE
  SameStart = FALSE
INVARIANTS
  CrossSourceShift
CHECK_DEADLOCK FALSE
