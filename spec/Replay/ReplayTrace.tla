---------------------------- MODULE ReplayTrace ----------------------------
(* Trace validation for C18 (driver c18): every recorded/replayed pair of   *)
(* the real code is compared with Ref of Replay.tla - same items, same       *)
(* payload (database, retention policy, measurement, tags, field names,      *)
(* values and TYPES, group), every timestamp shifted by the one constant.    *)
(* Known deviations are named disjuncts guarded by their exact input class.  *)
EXTENDS Integers, Sequences, FiniteSets, TLC, TraceCommon

VARIABLES l, rec
tvars == <<l, rec>>
Ln == Trace[l]
IsEv(e) == l <= Len(Trace) /\ Ln.ev = e /\ l' = l + 1
None == [ev |-> "none"]

TrInit == l = 1 /\ rec = None /\ HWInit
TrReset == IsEv("Reset") /\ rec' = None
TrRec == (IsEv("RecStream") \/ IsEv("RecBatch")) /\ rec' = Ln

Shift(r, first) == IF r.recTime THEN 0 ELSE r.zero - first
KF(key) == PrintT(<<"KF-HIT", key>>)

(* ------------------------------- stream ------------------------------- *)
HasNL(r) == \E i \in DOMAIN r.items : r.items[i].nl
StreamItemOK(a, b, d) ==
    /\ b.db = a.db /\ b.rp = a.rp /\ b.name = a.name
    /\ b.tags = a.tags /\ b.fields = a.fields
    /\ b.t = a.t + d
TrOutStream ==
    /\ IsEv("OutStream") /\ rec.ev = "RecStream" /\ rec.recErr = ""
    /\ LET d == IF rec.items = <<>> THEN 0 ELSE Shift(rec, rec.items[1].t) IN
       \/ /\ ~HasNL(rec)
          /\ Ln.err = "" /\ Ln.closed = 1               \* the replay ends after the last item
          /\ Len(Ln.items) = Len(rec.items)
          /\ \A i \in DOMAIN rec.items : StreamItemOK(rec.items[i], Ln.items[i], d)
       \/ (* known finding: a string field containing a newline breaks the three-line record format *)
          /\ HasNL(rec) /\ Ln.err = "error"
          /\ KF("stream-newline-in-string-field")
    /\ rec' = None

(* -------------------------------- batch -------------------------------- *)
(* known finding: batch recordings are JSON and are read back without number  *)
(* typing, so an int field comes back as a float (and loses precision beyond   *)
(* 2^53).  Guard: expected type int, got type float - nothing else is excused.  *)
FieldOK(a, b) ==
    \/ a = b
    \/ /\ a[1] = b[1] /\ a[2] = "int" /\ b[2] = "float"
       /\ KF("batch-int-field-becomes-float")
FieldsOK(a, b) == Len(a) = Len(b) /\ \A i \in DOMAIN a : FieldOK(a[i], b[i])
BPointOK(a, b, d) == b.t = a.t + d /\ b.tags = a.tags /\ FieldsOK(a.fields, b.fields)
BatchOK(a, b, d) ==
    /\ b.name = a.name /\ b.gtags = a.gtags /\ b.byName = a.byName /\ b.dims = a.dims
    /\ b.tmax = a.tmax + d                               \* tmax moves with the points (ConstantShift)
    /\ Len(b.points) = Len(a.points)
    /\ \A k \in DOMAIN a.points : BPointOK(a.points[k], b.points[k], d)
NonEmpty(items) == SelectSeq(items, LAMBDA b : b.points # <<>>)
TrOutBatch ==
    /\ IsEv("OutBatch") /\ rec.ev = "RecBatch"
    /\ Ln.err = "" /\ Ln.closed = 1
    /\ LET ne == NonEmpty(rec.items)
           d  == IF ne = <<>> THEN 0 ELSE Shift(rec, ne[1].points[1].t)
           (* known finding: empty batches are skipped when a recording is read back *)
           exp == IF Len(ne) # Len(rec.items) /\ Len(Ln.items) = Len(ne) /\ KF("batch-empty-batch-dropped")
                    THEN ne ELSE rec.items
       IN  /\ Len(Ln.items) = Len(exp)
           /\ \A i \in DOMAIN exp : BatchOK(exp[i], Ln.items[i], d)
    /\ rec' = None

TrNext == TrReset \/ TrRec \/ TrOutStream \/ TrOutBatch
TrSpec == TrInit /\ [][TrNext]_tvars
HW == HWMark(l)
Accepted == HWAccepted
=============================================================================
