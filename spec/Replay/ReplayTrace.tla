---------------------------- MODULE ReplayTrace ----------------------------
(* Trace validation for C18 (driver c18): every recorded/replayed pair of   *)
(* the real code is compared with Ref of Replay.tla - same items, same       *)
(* payload (database, retention policy, measurement, tags, field names,      *)
(* values and TYPES, group), every timestamp shifted by the one constant.    *)
(* Known deviations are named disjuncts guarded by their exact input class.  *)
EXTENDS Integers, Sequences, FiniteSets, TLC, TraceCommon

VARIABLES l, rec
tvars == <<l, rec>>
Ln == Trace[l]
IsEv(e) == l <= Len(Trace) /\ Ln.ev = e /\ l' = l + 1
None == [ev |-> "none"]

TrInit == l = 1 /\ rec = None /\ HWInit
TrReset == IsEv("Reset") /\ rec' = None
TrRec == (IsEv("RecStream") \/ IsEv("RecBatch")) /\ rec' = Ln

Shift(r, first) == IF r.recTime THEN 0 ELSE r.zero - first
KF(key) == PrintT(<<"KF-HIT", key>>)

(* ------------------------------- stream ------------------------------- *)
ViaChan(r) == "via" \in DOMAIN r /\ r.via = "chan"     \* fed from a channel (live replays): no recording file in between
HasNL(r) == ~ViaChan(r) /\ \E i \in DOMAIN r.items : r.items[i].nl
StreamItemOK(a, b, d) ==
    /\ b.db = a.db /\ b.rp = a.rp /\ b.name = a.name
    /\ b.tags = a.tags /\ b.fields = a.fields
    /\ b.t = a.t + d
TrOutStream ==
    /\ IsEv("OutStream") /\ rec.ev = "RecStream" /\ rec.recErr = ""
    /\ LET d == IF rec.items = <<>> THEN 0 ELSE Shift(rec, rec.items[1].t) IN
       \/ /\ ~HasNL(rec)
          /\ Ln.err = "" /\ Ln.closed = 1               \* the replay ends after the last item
          /\ Len(Ln.items) = Len(rec.items)
          /\ \A i \in DOMAIN rec.items : StreamItemOK(rec.items[i], Ln.items[i], d)
       \/ (* known finding: a string field containing a newline breaks the three-line record format *)
          /\ HasNL(rec) /\ Ln.err = "error"
          /\ KF("stream-newline-in-string-field")
    /\ rec' = None

(* -------------------------------- batch -------------------------------- *)
(* known finding: batch recordings are JSON and are read back without number  *)
(* typing, so an int field comes back as a float (and loses precision beyond   *)
(* 2^53).  Guard: expected type int, got type float - nothing else is excused.  *)
FieldOK(a, b) ==
    \/ a = b
    \/ /\ a[1] = b[1] /\ a[2] = "int" /\ b[2] = "float"
       /\ KF("batch-int-field-becomes-float")
FieldsOK(a, b) == Len(a) = Len(b) /\ \A i \in DOMAIN a : FieldOK(a[i], b[i])
BPointOK(a, b, d) == b.t = a.t + d /\ b.tags = a.tags /\ FieldsOK(a.fields, b.fields)
BatchOK(a, b, d) ==
    /\ b.name = a.name /\ b.gtags = a.gtags /\ b.byName = a.byName /\ b.dims = a.dims
    /\ \/ b.tmax = a.tmax + d                            \* tmax moves with the points (ConstantShift)
       \/ (* known finding: replayBatchFromChan hands an EMPTY batch on with its recorded tmax, unshifted (live-time  *)
          (* replay fed from channels; from a file empty batches never arrive).  Guard: empty batch, live-time mode,   *)
          (* a non-zero shift - then exactly the recorded tmax is excused.                                             *)
          /\ a.points = <<>> /\ ~rec.recTime /\ d # 0 /\ ViaChan(rec)
          /\ b.tmax = a.tmax /\ KF("live-empty-batch-tmax-not-shifted")
    /\ Len(b.points) = Len(a.points)
    /\ \A k \in DOMAIN a.points : BPointOK(a.points[k], b.points[k], d)
NonEmpty(items) == SelectSeq(items, LAMBDA b : b.points # <<>>)
TrOutBatch ==
    /\ IsEv("OutBatch") /\ rec.ev = "RecBatch"
    /\ Ln.err = "" /\ Ln.closed = 1
    /\ LET ne == NonEmpty(rec.items)
           svc == "base" \in DOMAIN rec
           (* through the service (driver c18svc) every source of one recording is rebased on the earliest recorded point  *)
           (* of the whole recording (rec.base): ONE constant shift for all sources of a replay                             *)
           d  == IF ne = <<>> THEN 0 ELSE Shift(rec, IF svc THEN rec.base ELSE ne[1].points[1].t)
           (* known finding: every source of a batch recording is shifted on its own (by its own first point), so two    *)
           (* sources of one replay whose first points differ move relative to each other.  Guard: live-time replay of a   *)
           (* recording with several sources, this source's first point is not the recording's earliest - then exactly the *)
           (* per-source shift is excused, nothing else.                                                                     *)
           ownGuard == svc /\ ~rec.recTime /\ rec.of > 1 /\ ne # <<>> /\ rec.own # rec.base
           dOwn == IF ownGuard THEN Shift(rec, rec.own) ELSE d
           (* known finding: empty batches are skipped when a recording is read back *)
           exp == IF Len(ne) # Len(rec.items) /\ Len(Ln.items) = Len(ne) /\ KF("batch-empty-batch-dropped")
                    THEN ne ELSE rec.items
           AllOK(dd) == \A i \in DOMAIN exp : BatchOK(exp[i], Ln.items[i], dd)
       IN  /\ Len(Ln.items) = Len(exp)
           /\ \/ AllOK(d)
              \/ ownGuard /\ AllOK(dOwn) /\ KF("batch-sources-shifted-independently")
    /\ rec' = None

TrNext == TrReset \/ TrRec \/ TrOutStream \/ TrOutBatch
TrSpec == TrInit /\ [][TrNext]_tvars
HW == HWMark(l)
Accepted == HWAccepted
=============================================================================
