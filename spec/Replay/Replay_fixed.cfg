SPECIFICATION Spec
CONSTANTS
    Times = {0, 1, 2, 3}
    Zeros <- MCZeros
    MaxItems = 3
    MaxPts = 2
    ShiftTmax = TRUE
INVARIANTS StreamRefines BatchRefines ConstantShift
CHECK_DEADLOCK FALSE
