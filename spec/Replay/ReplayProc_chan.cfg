SPECIFICATION Spec
CONSTANTS
  Sources = {1}
  Times = {0, 1, 2}
  MaxPts = 2
  MaxBatches = 2
  Zeros <- MCZeros
  SkipEmpty = FALSE
  SameStart = FALSE
INVARIANTS
  TypeOK
  ClosedOnce
  PerSourcePrefix
  CompleteAtEnd
CHECK_DEADLOCK FALSE
