SPECIFICATION Spec
CONSTANTS
  Sources = {1, 2}
  Times = {0, 1}
  MaxPts = 1
  MaxBatches = 2
  Zeros <- MCZeros
  SkipEmpty = TRUE
  SameStart = FALSE
PROPERTIES
  Terminates
CHECK_DEADLOCK FALSE
