SPECIFICATION Spec
CONSTANTS
  Sources = {1, 2}
  Times = {0, 1, 2}
  MaxPts = 1
  MaxBatches = 2
  Zeros <- MCZeros
  SkipEmpty = TRUE
  SameStart = TRUE
INVARIANTS
  TypeOK
  ClosedOnce
  PerSourcePrefix
  CompleteAtEnd
  CrossSourceShift
CHECK_DEADLOCK FALSE
