--------------------------- MODULE TickExprTrace ---------------------------
(* Trace validation for C13 (driver c13).  Every line is one script or one  *)
(* lambda expression run through the REAL code (ast.Parse, tick.Format,      *)
(* pipeline.CreatePipeline, pipeline/tick, pipeline JSON, AST JSON); a line  *)
(* is a trace of its own ({"ev":"Reset","x":{...}}).                         *)
(*                                                                          *)
(* cls = "expr"   the expression kernel: what the code did is compared with  *)
(*                the model's parser, printer and JSON form (TickExpr.tla)   *)
(* cls = "script" statements: the oracle is the round-trip law itself -      *)
(*                tree after = tree before, DOT / properties / JSON of the   *)
(*                pipeline after = before - compared literally by TLC on the *)
(*                logged canonical trees and digests; plus well-formedness   *)
(*                of the tree (statement skeleton) and, for the literal      *)
(*                sweep, the value each spelling must denote.                *)
(* Known deviations are named disjuncts guarded by their input class / by    *)
(* their exact signature (TickExprKnown.tla).                                *)
EXTENDS TickExpr, TickExprKnown, TraceCommon

VARIABLE l
tvars == <<l, vars>>

Ln == Trace[l].x
KF(key) == PrintT(<<"KF-HIT", key>>)

(* ------------------------------ the kernel ------------------------------ *)
(* the driver declares `var v = 2` in front of kernel scripts that use v *)
KernelEnv == [v |-> <<"int", "2">>]
LamKernelOK(m, t0) ==
    /\ m.jerr = "" /\ m.ferr = "" /\ m.perr = "" /\ m.eq
    /\ m.t = t0
    /\ m.tj = Unmarshal(Marshal(t0))          \* the JSON form loses exactly the Parens flags ...
    /\ m.tj = Strip(t0)
    /\ m.jtext = FmtText(m.tj)                \* ... and the text of what came back is the model's
    /\ LET q == Parse(FmtToks(m.tj)) IN q.ok /\ q.n = m.tjf
    /\ Strip(m.tjf) = Strip(t0)               \* same expression (operators, operands, precedence)

ExprOK(r) ==
    LET p == Parse(r.toks) IN
    /\ r.perr = ""
    /\ p.ok /\ p.n = r.t0                      \* the real parser = precedence climbing of the model
    /\ (~r.ml => r.ftext = FmtText(r.t0))      \* the real formatter = the model's (single line)
    /\ LET q == Parse(FmtToks(r.t0)) IN q.ok /\ q.n = r.t1
    /\ r.t1 = r.t0                             \* Parse(Format(t)) = t, Parens flags included
    /\ r.st3 /\ (~r.ml => r.st2)               \* stable after one further pass (single line: at once)
    /\ LamKernelOK(r.lam, r.t0)
    /\ r.tp = Resolve(Strip(r.t0), KernelEnv)  \* the lambda the pipeline holds (identifiers resolved)
    /\ r.pf                                    \* pipeline of the formatted script: same DOT, same properties

(* ------------------------------ statements ------------------------------ *)
FormatOK(r) ==
    LET f == r.f IN
    /\ f.err = "" /\ f.perr = ""
    /\ f.t1 = r.t0 /\ f.eq                     \* same tree (AST Equal)
    /\ f.st3                                   \* Format(Format(Format(s))) = Format(Format(s))
    /\ f.pe = ""                               \* the formatted script defines a task ...
    /\ f.dot = r.o.dot /\ f.props = r.o.props /\ f.json = r.o.json    \* ... the identical one

(* services/task_store: the script as the HTTP API returns it (formatted by  *)
(* default, on the get and on the list code path; raw on request).  A script  *)
(* the server does not accept as a task (code # 200: e.g. a UDF it does not    *)
(* know) is not part of the quantifier.                                        *)
ApiOK(r) ==
    r.api.code = 200 =>
        /\ r.api.fcode = 200 /\ r.api.ferr = ""
        /\ r.api.t = r.t0                        \* GET ...?script-format=formatted (the default)
        /\ r.api.lt = r.t0                       \* GET list, fields=script
        /\ r.api.raw                             \* script-format=raw returns the text that was stored

(* The API path over TIME: histories on one template id, a task created from  *)
(* it and a plain task id - create, template update (pushes the new script     *)
(* into its tasks), rejected template update (rolled back), PATCH, delete and   *)
(* re-create of the same id.  After EVERY step, for every object observed:      *)
(* the formatted script (GET, and the list handler) parses to the tree of the   *)
(* raw script, and the raw script is the script in force now ("exp": the        *)
(* driver's bookkeeping of accepted requests; trees are compared by digest).    *)
ObsOK(o) == o.f = o.r /\ o.l = o.r /\ o.rawis /\ o.r = o.exp
HistOK(r) == \A i \in DOMAIN r.hist : \A k \in DOMAIN r.hist[i].obs : ObsOK(r.hist[i].obs[k])

(* tick/cmd/tickfmt run as a subprocess on a file holding the script (as it   *)
(* is / already formatted / padded: the formatted text is shorter, equally     *)
(* long or longer than the source).  A valid script formats (status 0);        *)
(* without -w the file is not touched and the formatted script is printed;     *)
(* with -w -b the file holds exactly what is printed without -w, which parses  *)
(* to the tree of the source, and the backup holds the source byte for byte.   *)
TfCaseOK(c) ==
    /\ c.rcout = 0 /\ c.untouched /\ c.st = c.t
    /\ c.rcw = 0 /\ c.wt = c.t /\ c.wsame /\ c.bak
TfOK(r) == \A i \in DOMAIN r.tf : TfCaseOK(r.tf[i])

(* JSON form of a lambda (tick/ast/json.go) and the text of what came back *)
LamOK(m) ==
    \/ /\ m.jerr = "" /\ m.tj = m.t /\ m.eq
       /\ m.ferr = "" /\ m.perr = "" /\ m.tjf = m.t
    \/ (* known finding: JSON numbers are read as float64 *)
       /\ m.big /\ m.jerr = "" /\ m.ferr = ""
       /\ KF("lambda-json-int-beyond-2^53")
    \/ (* known finding: a string / reference that ends in a backslash cannot be written in single quotes *)
       (* the text either does not parse or - the backslash escaping the closing quote - parses as another expression *)
       /\ m.tbs /\ m.jerr = "" /\ m.tj = m.t /\ m.eq /\ m.ferr = "" /\ (m.perr # "" \/ m.tjf # m.t)
       /\ KF("string-ending-in-backslash-unformattable")

(* pipeline -> TICKscript (pipeline/tick) -> pipeline.  "skipped": seeded    *)
(* random compositions are verdict-level for Format and lambda JSON only -    *)
(* the catalogue of pipeline/tick / pipeline JSON deviations is complete for  *)
(* the deterministic sweeps (members x argument classes, literals, shapes).   *)
Known(sig) == \E p \in KnownSigs : p[1] = sig /\ KF(p[2])
AllKnown(sigs) == sigs # <<>> /\ \A i \in DOMAIN sigs : Known(sigs[i])
RenderOK(b, iso) ==
    \/ b.skipped
    \/ b.err = "" /\ b.pe = "" /\ b.iso = iso /\ b.sigs = <<>>
    \/ (b.err # "" \/ b.pe # "" \/ b.iso # iso) /\ AllKnown(b.sigs)

(* pipeline -> JSON -> pipeline *)
PJsonOK(r) ==
    /\ r.mpure                                 \* MarshalJSON leaves the pipeline as it was
    /\ \/ r.c.skipped
       \/ r.c.merr = "" /\ r.c.uerr = "" /\ r.c.iso = r.o.iso /\ r.c.sigs = <<>>
       \/ (r.c.merr # "" \/ r.c.uerr # "" \/ r.c.iso # r.o.iso) /\ AllKnown(r.c.sigs)

ScriptOK(r) ==
    /\ WFStmt(r.t0)
    /\ (r.want # <<>> => r.has)                \* the literal denotes the documented value
    /\ FormatOK(r)
    /\ ApiOK(r)
    /\ HistOK(r)
    /\ TfOK(r)
    /\ \A i \in DOMAIN r.lams : LamOK(r.lams[i])
    /\ RenderOK(r.b, r.o.iso)
    /\ PJsonOK(r)
    /\ RenderOK(r.cb, r.o.iso)

(* -------------------------------- actions -------------------------------- *)
(* the variables of TickExpr's own state machine play no part here *)
TrInit ==
    /\ stage = "tree" /\ orig = <<"nil", "">> /\ cur = <<"nil", "">> /\ toks = <<>> /\ toks1 = <<>>
    /\ l = 1 /\ HWInit
TrLine ==
    /\ l <= Len(Trace) /\ Trace[l].ev = "Reset"
    /\ \/ Ln.cls = "expr" /\ ExprOK(Ln)
       \/ Ln.cls = "script" /\ ScriptOK(Ln)
    /\ l' = l + 1
    /\ UNCHANGED vars
TrNext == TrLine
TrSpec == TrInit /\ [][TrNext]_tvars
HW == HWMark(l)
Accepted == HWAccepted
=============================================================================
