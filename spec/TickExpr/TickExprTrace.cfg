SPECIFICATION TrSpec
CONSTANTS
    Depth = 1
    Leaves = {}
    Ops = {}
    UnOps = {}
    FnArities = {}
    ParensWhenNeeded = TRUE
    JsonFuncName = TRUE
CONSTRAINT HW
POSTCONDITION Accepted
CHECK_DEADLOCK FALSE
