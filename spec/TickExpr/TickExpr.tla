------------------------------ MODULE TickExpr ------------------------------
(* C13 - formatting / re-serialising a TICKscript never changes the task.   *)
(*                                                                          *)
(* The lambda-expression sublanguage of TICKscript, precisely:              *)
(*   tick/ast/lex.go     token classes                                      *)
(*   tick/ast/parser.go  primary(), precedence() (precedence climbing,      *)
(*                       left associative, the inner "tighter operator"     *)
(*                       loop), lfunction()/lparameters(), unary operators, *)
(*                       the Parens flag set by primary() on "( expr )"     *)
(*   tick/ast/node.go    Format of binary/unary/function/literal nodes      *)
(*                       (parentheses where the flag is set; since the      *)
(*                       repair also where the tree requires them),         *)
(*                       MarshalJSON / unmarshal of the same nodes          *)
(*                                                                          *)
(* A tree node is a tuple <<kind, atom, child...>>: the first two elements  *)
(* are strings, all further elements are nodes (so any two nodes can be     *)
(* compared).  Kinds:                                                       *)
(*   "bin"  <<"bin", op, L, R>>   binary node, Parens = FALSE               *)
(*   "par"  <<"par", op, L, R>>   binary node, Parens = TRUE                *)
(*   "un"   <<"un", op, X>>       unary "-" or "!"                          *)
(*   "fn"   <<"fn", name, a1..an>> function call                            *)
(*   literal kinds <<k, value>>:  ref int float str bool dur re star id     *)
(* A token is a pair <<class, text>>; a literal token IS its leaf node: the  *)
(* VALUE of a string / reference / regex token (line ends, tabs, carriage    *)
(* returns inside it included) and its KIND ('1m' is a string, 1m a duration) *)
(* go through Parse, Format and the JSON form unchanged, byte for byte.       *)
(* Line ends BETWEEN tokens are layout and belong to no token.               *)
(*                                                                          *)
(* Statement level is a skeleton only (see Statement skeleton below): the   *)
(* oracle for statements is the round-trip law itself (TickExprTrace).      *)
EXTENDS Integers, Sequences, FiniteSets, TLC

CONSTANTS
    Depth,          \* expression trees of depth <= Depth are explored
    Leaves,         \* set of literal tokens used as leaves
    Ops,            \* set of binary operators explored (one per precedence class)
    UnOps,          \* subset of {"-", "!"}
    FnArities,      \* subset of {0, 1, 2}: arities of the function symbol "f"
    ParensWhenNeeded,   \* TRUE: Format as repaired (fix: commit in /repo); FALSE: flag only (original)
    JsonFuncName        \* TRUE: function name is part of the JSON form (repaired); FALSE: original

BinOps == {"OR", "AND", "==", "!=", "=~", "!~", ">", ">=", "<", "<=", "+", "-", "*", "/", "%"}

(* parser.go: var precedence *)
Prec(op) ==
    CASE op = "OR" -> 0
      [] op = "AND" -> 1
      [] op \in {"==", "!=", "=~", "!~"} -> 2
      [] op \in {">", ">=", "<", "<="} -> 3
      [] op \in {"+", "-"} -> 4
      [] op \in {"*", "/", "%"} -> 5

LitKinds == {"ref", "int", "float", "str", "bool", "dur", "re", "star", "id"}
IsBin(n) == n[1] \in {"bin", "par"}

(* ------------------------------- parser ------------------------------- *)
LP == <<"lp", "(">>
RP == <<"rp", ")">>
COMMA == <<"comma", ",">>
EOF == <<"eof", "">>
Tok(ts, i) == IF i <= Len(ts) THEN ts[i] ELSE EOF
IsOpTok(t) == t[1] = "op"              \* IsExprOperator: every binary operator incl. "-"

Ok(n, i) == [ok |-> TRUE, n |-> n, i |-> i]
Bad(i) == [ok |-> FALSE, n |-> <<"err", "">>, i |-> i]

(* primary(): "( expr )" sets Parens on a binary node and on nothing else *)
MarkParens(n) == IF n[1] = "bin" THEN <<"par", n[2], n[3], n[4]>> ELSE n

RECURSIVE Primary(_, _), PrimaryExpr(_, _), Climb(_, _, _, _), Tighter(_, _, _, _), Args(_, _, _)

Primary(ts, i) ==
    LET t == Tok(ts, i) IN
    CASE t[1] = "lp" ->
            LET r == PrimaryExpr(ts, i + 1) IN
            IF r.ok /\ Tok(ts, r.i)[1] = "rp" THEN Ok(MarkParens(r.n), r.i + 1) ELSE Bad(i)
      [] t[1] = "id" /\ Tok(ts, i + 1)[1] = "lp" ->          \* lfunction()
            LET a == Args(ts, i + 2, <<>>) IN
            IF a.ok /\ Tok(ts, a.i)[1] = "rp" THEN Ok(<<"fn", t[2]>> \o a.n, a.i + 1) ELSE Bad(i)
      [] t[1] \in LitKinds /\ ~(t[1] = "id" /\ Tok(ts, i + 1)[1] = "lp") -> Ok(t, i + 1)
      [] t = <<"op", "-">> \/ t[1] = "not" ->                \* unary: operand is a primary()
            LET r == Primary(ts, i + 1) IN
            IF r.ok THEN Ok(<<"un", t[2], r.n>>, r.i) ELSE Bad(i)
      [] OTHER -> Bad(i)

(* lparameters(): expr { "," expr } up to ")" *)
Args(ts, i, acc) ==
    IF Tok(ts, i)[1] = "rp" THEN Ok(acc, i)
    ELSE LET r == PrimaryExpr(ts, i) IN
         IF ~r.ok THEN Bad(i)
         ELSE IF Tok(ts, r.i)[1] = "comma" THEN Args(ts, r.i + 1, Append(acc, r.n))
              ELSE Ok(Append(acc, r.n), r.i)

(* primaryExpr() = precedence(primary(), 0) *)
PrimaryExpr(ts, i) ==
    LET p == Primary(ts, i) IN IF p.ok THEN Climb(ts, p.n, p.i, 0) ELSE p

(* precedence(lhs, minP): the outer loop *)
Climb(ts, lhs, i, minP) ==
    LET look == Tok(ts, i) IN
    IF IsOpTok(look) /\ Prec(look[2]) >= minP THEN
        LET r == Primary(ts, i + 1) IN
        IF ~r.ok THEN r ELSE
        LET r2 == Tighter(ts, r.n, r.i, Prec(look[2])) IN
        IF ~r2.ok THEN r2 ELSE Climb(ts, <<"bin", look[2], lhs, r2.n>>, r2.i, minP)
    ELSE Ok(lhs, i)

(* the inner loop: while the next operator binds tighter than op, it takes rhs *)
Tighter(ts, rhs, i, p) ==
    LET look == Tok(ts, i) IN
    IF IsOpTok(look) /\ Prec(look[2]) > p THEN
        LET r == Climb(ts, rhs, i, Prec(look[2])) IN
        IF ~r.ok THEN r ELSE Tighter(ts, r.n, r.i, p)
    ELSE Ok(rhs, i)

(* parse a whole lambda body *)
Parse(ts) ==
    LET r == PrimaryExpr(ts, 1) IN
    IF r.ok /\ r.i = Len(ts) + 1 THEN r ELSE Bad(r.i)

(* ------------------------------ formatter ------------------------------ *)
(* Does operand c of a binary node with operator op need parentheses its    *)
(* flag does not ask for?  (node.go needsParensIn / needsParens)            *)
NeedsIn(op, c, right) ==
    /\ ParensWhenNeeded
    /\ c[1] = "bin"
    /\ IF right THEN Prec(c[2]) <= Prec(op) ELSE Prec(c[2]) < Prec(op)
NeedsUn(c) == ParensWhenNeeded /\ c[1] = "bin"

UnTok(op) == IF op = "-" THEN <<"op", "-">> ELSE <<"not", "!">>

RECURSIVE FmtToksG(_, _), FmtArgsToksG(_, _, _)
Wrap(b, s) == IF b THEN <<LP>> \o s \o <<RP>> ELSE s
(* need = FALSE: parentheses exactly where the flag is set (the original Format) *)
FmtToksG(n, need) ==
    CASE IsBin(n) ->
            Wrap(n[1] = "par",
                 Wrap(need /\ NeedsIn(n[2], n[3], FALSE), FmtToksG(n[3], need))
                 \o <<<<"op", n[2]>>>>
                 \o Wrap(need /\ NeedsIn(n[2], n[4], TRUE), FmtToksG(n[4], need)))
      [] n[1] = "un" -> <<UnTok(n[2])>> \o Wrap(need /\ NeedsUn(n[3]), FmtToksG(n[3], need))
      [] n[1] = "fn" -> <<<<"id", n[2]>>, LP>> \o FmtArgsToksG(n, 3, need) \o <<RP>>
      [] OTHER -> <<n>>
FmtArgsToksG(n, k, need) ==
    IF k > Len(n) THEN <<>>
    ELSE (IF k > 3 THEN <<COMMA>> ELSE <<>>) \o FmtToksG(n[k], need) \o FmtArgsToksG(n, k + 1, need)
FmtToks(n) == FmtToksG(n, TRUE)          \* NeedsIn/NeedsUn are FALSE anyway unless ParensWhenNeeded
FmtToksFlagOnly(n) == FmtToksG(n, FALSE)

(* the text node.go writes for a single-line expression *)
LeafText(n) ==
    CASE n[1] = "ref" -> "\"" \o n[2] \o "\""
      [] n[1] = "str" -> "'" \o n[2] \o "'"
      [] n[1] = "re" -> "/" \o n[2] \o "/"
      [] OTHER -> n[2]                    \* int float bool id star: spelled as their value in the kernel

RECURSIVE FmtText(_), FmtArgsText(_, _)
WrapT(b, s) == IF b THEN "(" \o s \o ")" ELSE s
FmtText(n) ==
    CASE IsBin(n) ->
            WrapT(n[1] = "par",
                  WrapT(NeedsIn(n[2], n[3], FALSE), FmtText(n[3]))
                  \o " " \o n[2] \o " "
                  \o WrapT(NeedsIn(n[2], n[4], TRUE), FmtText(n[4])))
      [] n[1] = "un" -> n[2] \o WrapT(NeedsUn(n[3]), FmtText(n[3]))
      [] n[1] = "fn" -> n[2] \o "(" \o FmtArgsText(n, 3) \o ")"
      [] OTHER -> LeafText(n)
FmtArgsText(n, k) ==
    IF k > Len(n) THEN ""
    ELSE (IF k > 3 THEN ", " ELSE "") \o FmtText(n[k]) \o FmtArgsText(n, k + 1)

(* --------------------------------- JSON --------------------------------- *)
(* MarshalJSON: the Parens flag is not part of the document; the function    *)
(* name is (since the repair).  Documents are records.                       *)
RECURSIVE Marshal(_), MarshalArgs(_, _), Unmarshal(_), UnmarshalArgs(_, _)
Marshal(n) ==
    CASE IsBin(n) -> [typeOf |-> "binary", operator |-> n[2], left |-> Marshal(n[3]), right |-> Marshal(n[4])]
      [] n[1] = "un" -> [typeOf |-> "unary", operator |-> n[2], node |-> Marshal(n[3])]
      [] n[1] = "fn" -> [typeOf |-> "func", func |-> (IF JsonFuncName THEN n[2] ELSE ""),
                         functionType |-> "global", args |-> MarshalArgs(n, 3)]
      [] OTHER -> [typeOf |-> n[1], value |-> n[2]]
MarshalArgs(n, k) == IF k > Len(n) THEN <<>> ELSE <<Marshal(n[k])>> \o MarshalArgs(n, k + 1)
Unmarshal(d) ==
    CASE d.typeOf = "binary" -> <<"bin", d.operator, Unmarshal(d.left), Unmarshal(d.right)>>
      [] d.typeOf = "unary" -> <<"un", d.operator, Unmarshal(d.node)>>
      [] d.typeOf = "func" -> <<"fn", d.func>> \o UnmarshalArgs(d.args, 1)
      [] OTHER -> <<d.typeOf, d.value>>
UnmarshalArgs(a, k) == IF k > Len(a) THEN <<>> ELSE <<Unmarshal(a[k])>> \o UnmarshalArgs(a, k + 1)

(* ------------------------------ tree algebra ---------------------------- *)
(* Equal() of the AST ignores Parens: the tree without flags.               *)
RECURSIVE Strip(_), StripFrom(_, _)
Strip(n) ==
    CASE IsBin(n) -> <<"bin", n[2], Strip(n[3]), Strip(n[4])>>
      [] n[1] = "un" -> <<"un", n[2], Strip(n[3])>>
      [] n[1] = "fn" -> <<"fn", n[2]>> \o StripFrom(n, 3)
      [] OTHER -> n
StripFrom(n, k) == IF k > Len(n) THEN <<>> ELSE <<Strip(n[k])>> \o StripFrom(n, k + 1)

(* tick/eval.go resolveIdents: when a script is evaluated every identifier  *)
(* inside a lambda is replaced by the literal its variable holds.            *)
RECURSIVE Resolve(_, _), ResolveFrom(_, _, _)
Resolve(n, env) ==
    CASE IsBin(n) -> <<n[1], n[2], Resolve(n[3], env), Resolve(n[4], env)>>
      [] n[1] = "un" -> <<"un", n[2], Resolve(n[3], env)>>
      [] n[1] = "fn" -> <<"fn", n[2]>> \o ResolveFrom(n, 3, env)
      [] n[1] = "id" /\ n[2] \in DOMAIN env -> env[n[2]]
      [] OTHER -> n
ResolveFrom(n, k, env) == IF k > Len(n) THEN <<>> ELSE <<Resolve(n[k], env)>> \o ResolveFrom(n, k + 1, env)

(* A tree the parser can produce: every operand that needs parentheses has  *)
(* the flag (the flag may also be set where it is not needed).              *)
RECURSIVE WP(_), WPFrom(_, _)
WP(n) ==
    CASE IsBin(n) ->
            /\ ~(n[3][1] = "bin" /\ Prec(n[3][2]) < Prec(n[2]))
            /\ ~(n[4][1] = "bin" /\ Prec(n[4][2]) <= Prec(n[2]))
            /\ WP(n[3]) /\ WP(n[4])
      [] n[1] = "un" -> n[3][1] # "bin" /\ WP(n[3])
      [] n[1] = "fn" -> WPFrom(n, 3)
      [] OTHER -> TRUE
WPFrom(n, k) == IF k > Len(n) THEN TRUE ELSE WP(n[k]) /\ WPFrom(n, k + 1)

(* all trees of depth <= d over the alphabet *)
RECURSIVE Trees(_)
Trees(d) ==
    IF d <= 1 THEN Leaves
    ELSE LET S == Trees(d - 1) IN
         Leaves
         \cup { <<k, op, l, r>> : k \in {"bin", "par"}, op \in Ops, l \in S, r \in S }
         \cup { <<"un", op, x>> : op \in UnOps, x \in S }
         \cup (IF 0 \in FnArities THEN { <<"fn", "f">> } ELSE {})
         \cup (IF 1 \in FnArities THEN { <<"fn", "f", x>> : x \in S } ELSE {})
         \cup (IF 2 \in FnArities THEN { <<"fn", "f", x, y>> : x \in S, y \in S } ELSE {})
TreeSet == Trees(Depth)

(* ----------------------------- state machine ---------------------------- *)
(* One behaviour per tree: the stages a lambda goes through in the code.    *)
(*   "tree"      a tree (orig)                                              *)
(*   "text"      Format        -> token list                                *)
(*   "reparsed"  Parse                                                      *)
(*   "text2"     Format again                                               *)
(*   "json"      Unmarshal(Marshal(orig))                                   *)
(*   "jtext"     Format of what came back                                   *)
(*   "jreparsed" Parse of that                                              *)
VARIABLES stage, orig, cur, toks, toks1
vars == <<stage, orig, cur, toks, toks1>>

Init == stage = "tree" /\ orig \in TreeSet /\ cur = orig /\ toks = <<>> /\ toks1 = <<>>

DoFormat(from, to) ==
    /\ stage = from /\ stage' = to
    /\ toks' = FmtToks(cur) /\ toks1' = toks
    /\ UNCHANGED <<orig, cur>>
DoParse(from, to) ==
    /\ stage = from /\ stage' = to
    /\ LET r == Parse(toks) IN cur' = IF r.ok THEN r.n ELSE <<"err", "">>
    /\ UNCHANGED <<orig, toks, toks1>>
DoJson ==
    /\ stage = "tree" /\ stage' = "json"
    /\ cur' = Unmarshal(Marshal(cur))
    /\ UNCHANGED <<orig, toks, toks1>>

Next ==
    \/ DoFormat("tree", "text") \/ DoParse("text", "reparsed") \/ DoFormat("reparsed", "text2")
    \/ DoJson \/ DoFormat("json", "jtext") \/ DoParse("jtext", "jreparsed")
Spec == Init /\ [][Next]_vars

(* ------------------------------- properties ------------------------------ *)
TypeOK == stage \in {"tree", "text", "reparsed", "text2", "json", "jtext", "jreparsed"}

(* Parse(Format(t)) = t, flags included, for every tree the parser can produce *)
ParseFormatIdentity == stage = "reparsed" /\ WP(orig) => cur = orig
(* ... and for EVERY tree (built, unmarshaled) the expression is preserved     *)
ParseFormatSameExpr == stage = "reparsed" => Strip(cur) = Strip(orig)
(* formatting is stable after at most one further pass (in fact immediately)  *)
FormatIdempotentAfterOne == stage = "text2" => toks = toks1
(* Unmarshal(Marshal(t)) = t up to the Parens flag, which Equal() ignores      *)
JsonIdentity == stage = "json" => cur = Strip(orig)
(* what came back from JSON, written as text, is still the same expression    *)
JsonThenFormatSameExpr == stage = "jreparsed" => Strip(cur) = Strip(orig)
(* on parser-produced trees the repaired formatter adds nothing               *)
NoExtraParens == stage = "text" /\ WP(orig) => toks = FmtToksFlagOnly(orig)
(* vacuity guards: something of every shape is explored *)
SomeNeedsParens == \E t \in TreeSet : ~WP(t)

(* --------------------------- statement skeleton -------------------------- *)
(* Statement level (program, var declaration, chain "|", property ".", UDF   *)
(* "@", literal classes).  Only well-formedness is stated here; the oracle   *)
(* for statements is the round-trip law, checked literally in TickExprTrace. *)
ChainOps == {"|", ".", "@"}
StmtKinds == {"prog", "decl", "tdecl", "dbrp", "chain", "fn", "fnc", "fnp", "fnd", "lam", "list", "cmt",
              "bin", "par", "un"} \cup LitKinds
RECURSIVE WFStmt(_), WFFrom(_, _)
WFStmt(n) ==
    /\ Len(n) >= 2
    /\ n[1] \in StmtKinds
    /\ CASE n[1] = "chain" ->
              /\ Len(n) = 4 /\ n[2] \in ChainOps
              \* the operator fixes the type of the function on its right hand side
              /\ \/ n[2] = "|" /\ n[4][1] = "fnc"
                 \/ n[2] = "." /\ n[4][1] \in {"fnp", "id"}
                 \/ n[2] = "@" /\ n[4][1] \in {"fnd", "id"}
              /\ WFStmt(n[3]) /\ WFStmt(n[4])
         [] n[1] \in {"bin", "par"} -> Len(n) = 4 /\ n[2] \in BinOps /\ WFStmt(n[3]) /\ WFStmt(n[4])
         [] n[1] = "un" -> Len(n) = 3 /\ n[2] \in {"-", "!"} /\ WFStmt(n[3])
         [] n[1] = "decl" -> Len(n) = 3 /\ WFStmt(n[3])
         [] n[1] = "tdecl" -> Len(n) = 3 /\ n[3][1] = "id"
         [] n[1] = "dbrp" -> Len(n) = 4 /\ n[3][1] = "ref" /\ n[4][1] = "ref"
         [] n[1] = "lam" -> Len(n) = 3 /\ WFStmt(n[3])
         [] n[1] \in LitKinds \cup {"cmt"} -> Len(n) = 2
         [] OTHER -> WFFrom(n, 3)
WFFrom(n, k) == IF k > Len(n) THEN TRUE ELSE WFStmt(n[k]) /\ WFFrom(n, k + 1)
=============================================================================
