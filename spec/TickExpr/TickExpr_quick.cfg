SPECIFICATION Spec
CONSTANTS
    Depth = 3
    Leaves <- MCLeaves2
    Ops = {"OR", "AND", "==", "<", "+", "*"}
    UnOps = {"-", "!"}
    FnArities = {1}
    ParensWhenNeeded = TRUE
    JsonFuncName = TRUE
INVARIANTS
    TypeOK
    ParseFormatIdentity
    ParseFormatSameExpr
    FormatIdempotentAfterOne
    JsonIdentity
    JsonThenFormatSameExpr
    NoExtraParens
CHECK_DEADLOCK FALSE
