SPECIFICATION Spec
CONSTANTS
    Depth = 2
    Leaves <- MCLeaves2
    Ops = {"OR", "AND", "==", "<", "+", "*"}
    UnOps = {"-", "!"}
    FnArities = {1}
    ParensWhenNeeded = TRUE
    JsonFuncName = FALSE
INVARIANTS
    TypeOK
    ParseFormatIdentity
    FormatIdempotentAfterOne
    JsonIdentity
CHECK_DEADLOCK FALSE
