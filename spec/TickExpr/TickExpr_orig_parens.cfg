SPECIFICATION Spec
CONSTANTS
    Depth = 3
    Leaves <- MCLeaves1
    Ops = {"OR", "AND", "==", "<", "+", "*"}
    UnOps = {"-", "!"}
    FnArities = {1}
    ParensWhenNeeded = FALSE
    JsonFuncName = TRUE
INVARIANTS
    TypeOK
    ParseFormatIdentity
    FormatIdempotentAfterOne
    JsonIdentity
    JsonThenFormatSameExpr
CHECK_DEADLOCK FALSE
