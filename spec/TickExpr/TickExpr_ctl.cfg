SPECIFICATION Spec
CONSTANTS
    Depth = 2
    Leaves <- MCLeavesCtl
    Ops = {"OR", "AND", "==", "<", "+", "*"}
    UnOps = {"-", "!"}
    FnArities = {0, 1, 2}
    ParensWhenNeeded = TRUE
    JsonFuncName = TRUE
INVARIANTS
    TypeOK
    ParseFormatIdentity
    ParseFormatSameExpr
    FormatIdempotentAfterOne
    JsonIdentity
    JsonThenFormatSameExpr
    NoExtraParens
CHECK_DEADLOCK FALSE
