----------------------------- MODULE TickExprMC -----------------------------
EXTENDS TickExpr
(* TLC cfg files cannot contain tuples: the leaf alphabets live here. *)
MCLeaves2 == { <<"ref", "x">>, <<"int", "1">> }
MCLeaves3 == { <<"ref", "x">>, <<"int", "1">>, <<"str", "s">> }
MCLeaves1 == { <<"ref", "x">> }
=============================================================================
