----------------------------- MODULE TickExprMC -----------------------------
EXTENDS TickExpr
(* TLC cfg files cannot contain tuples: the leaf alphabets live here. *)
MCLeaves2 == { <<"ref", "x">>, <<"int", "1">> }
MCLeaves3 == { <<"ref", "x">>, <<"int", "1">>, <<"str", "s">> }
MCLeaves1 == { <<"ref", "x">> }
(* token VALUES with line ends / control characters inside, and a string that looks like a   *)
(* duration: a literal token is its own leaf node, Format writes the value byte for byte and  *)
(* the JSON form keeps kind and value (the law C13 states for "same literals")                *)
MCLeavesCtl == { <<"str", "a\r\nb">>, <<"str", "a\tb">>, <<"ref", "x\ry">>, <<"str", "1m">>, <<"dur", "1m">> }
=============================================================================
