SPECIFICATION Spec
CONSTANTS
    IdOrder <- MCIds5
    ValOrder <- MCVals
    Payloads = {1, 2}
    SegOrder <- MCSegs
    GlobTable <- MCGlob
    Grid <- MCGrid
    JoinCollapse = FALSE
    NoLimitRaw = FALSE
    Faults = TRUE
INVARIANTS
    TypeOK
    GetIsLast
    Bijection
    ListIsSlice
PROPERTIES
    FailedOpLeavesNoTrace
    ReopenSame
    CommitIsRef
CHECK_DEADLOCK FALSE
