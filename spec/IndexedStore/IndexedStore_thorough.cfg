SPECIFICATION Spec
CONSTANTS
    IdOrder <- MCIds4
    ValOrder <- MCVals
    Payloads = {1, 2}
    SegOrder <- MCSegs
    GlobTable <- MCGlob
    Grid <- MCGrid
    TxGrid <- MCTxGridTiny
    JoinCollapse = FALSE
    NoLimitRaw = FALSE
    Faults = TRUE
    PanicCommits = FALSE
    MaxTxOps = 1
INVARIANTS
    TypeOK
    GetIsLast
    Bijection
    ListIsSlice
    TxSeesOwnWrites
PROPERTIES
    FailedOpLeavesNoTrace
    ReopenSame
    CommitIsRef
CHECK_DEADLOCK FALSE
