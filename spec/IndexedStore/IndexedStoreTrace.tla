------------------------- MODULE IndexedStoreTrace -------------------------
(* Trace specification for IndexedStore (driver c15).                      *)
(*                                                                         *)
(* The driver walks the tree of operation histories depth first on a real  *)
(* Bolt file: an Op line names the stack slot of its pre-state (pre) and   *)
(* the slot its post-state goes to (post), so every edge of the history    *)
(* tree is executed and logged once (pre = d, post = d+1); linear random   *)
(* histories use pre = post = 1.                                           *)
(*                                                                         *)
(* Verdict level (CheckImpl = FALSE): only the Ref layer.  The logged      *)
(* result and the logged API observations - Get for every ID, List and     *)
(* ReverseList for the basic grid, and for the full grid of                *)
(* (index, pattern, offset, limit) where logged, before and after a reopen *)
(* - must be those of objs.  Left open (TLC chooses): whether a delete of  *)
(* a missing ID reports ok or noexist; whether an injected write failure   *)
(* that the operation did not need surfaces.                               *)
(* Drift level (CheckImpl = TRUE): additionally the Impl layer - the       *)
(* number of writes the operation issued, the effect of FailAt(k), and the *)
(* raw key/value dump of the bucket, compared literally with kv.           *)
EXTENDS IndexedStore, TraceCommon

CONSTANT CheckImpl

VARIABLES l, stack, cfgl, txs
tvars == <<vars, l, stack, cfgl, txs>>

Slot(ob, m) == [objs |-> ob, kv |-> m]
(* the open multi-operation transaction (TxBegin .. TxEnd): its own view of objs / kv, *)
(* the writes it issued so far, the injected failure, and whether an operation failed  *)
NoTxs == [active |-> FALSE, pre |-> 0, objs |-> Objs0, kv |-> <<>>, nw |-> 0, failAt |-> 0, fmode |-> "err", dead |-> FALSE]

TrInit ==
    /\ Init /\ l = 1 /\ HWInit
    /\ stack = <<Slot(Objs0, <<>>)>> /\ cfgl = 0 /\ txs = NoTxs

Ln == Trace[l]
Cfg == Trace[cfgl]
IsEv(e) == l <= Len(Trace) /\ Ln.ev = e /\ l' = l + 1

Frozen == UNCHANGED <<open, tx, pend, cur, res>>

(* the driver logs path.Match(pattern, id) for all six IDs as computed by Go:  *)
(* our table is an assumption about the library, not something to alarm on.    *)
GlobAgrees(g) ==
    \A p \in DOMAIN g : Assert(p \in DOMAIN GlobTable /\ SeqToSet(g[p]) = GlobTable[p],
                               <<"glob table differs from path.Match for pattern", p>>)

TrReset ==
    /\ IsEv("Reset")
    /\ GlobAgrees(Ln.glob)
    /\ stack' = <<Slot(Objs0, <<>>)>> /\ cfgl' = l /\ txs' = NoTxs
    /\ kv' = <<>> /\ objs' = Objs0
    /\ Frozen

(* ---- verdict level: API observations against objs ---- *)
(* RefList over objects already rendered as <<id, a, v>> tuples *)
RefListFromT(ordT, q) ==
    LET all == IF q.rev THEN RevSeq(ordT) ELSE ordT
        M(t) == GlobMatch(q.pat, t[1])
        matched == SelectSeq(all, M)
        after == IF q.off >= Len(matched) THEN <<>> ELSE SubSeq(matched, q.off + 1, Len(matched))
    IN  IF q.lim < 0 THEN after ELSE SubSeq(after, 1, MinOf(q.lim, Len(after)))
(* objects are logged as [id, a, v] *)
ObjT(o) == <<o.id, o.a, o.v>>
ObjsT(s) == [j \in DOMAIN s |-> ObjT(s[j])]
Lists(ob, qs, logged) ==
    LET oo == [x \in {"id", "a", "u"} |-> ObjsT(RefOrdered(ob, x))]
    IN  \A i \in DOMAIN qs : logged[i] = RefListFromT(oo[qs[i].idx], qs[i])
ObsOK(ob, ln) ==
    /\ \A i \in DOMAIN Cfg.ids : ln.get[i] = ObjsT(ob[Cfg.ids[i]])
    /\ Lists(ob, Cfg.gridb, ln.lists)
    /\ ((ln.reopened /\ ~ln.rsame) =>       \* rsame: byte-identical to get/lists above (driver-side comparison)
           /\ \A i \in DOMAIN Cfg.ids : ln.rget[i] = ObjsT(ob[Cfg.ids[i]])
           /\ Lists(ob, Cfg.gridb, ln.rlists))
    /\ (ln.full # <<>> => Lists(ob, Cfg.grid, ln.full))

(* ---- drift level: the code-shaped model ---- *)
Dump(m) ==
    LET ks == ListKeys(m, <<>>)
        E(k) == IF HasPrefix(k, DataPrefix)
                THEN <<KeyStr(k), m[k].id, m[k].a, m[k].v>>
                ELSE <<KeyStr(k), m[k], "", -1>>
    IN  [i \in DOMAIN ks |-> E(ks[i])]

(* fmode "err": the k-th tx.Put/tx.Delete returns an error; fmode "panic": it panics (recovered by the driver) *)
FaultRes(fmode) == IF fmode = "panic" THEN "panic" ELSE "err"
ImplStep(m, op, ln) ==      \* the kv the Impl layer predicts after this line, or "reject"
    IF Rejected(m, op) # "no"
    THEN IF ln.res = Rejected(m, op) /\ ~ln.fired THEN <<m>> ELSE <<>>
    ELSE LET ws == Writes(m, op) IN
         IF ln.failAt \in 1..Len(ws)
         THEN IF ln.res = FaultRes(ln.fmode) /\ ln.fired /\ ln.nw = ln.failAt THEN <<m>> ELSE <<>>
         ELSE IF ln.failAt = -1     \* tx.Commit fails after all writes were issued
         THEN IF ln.res = "err" /\ ln.fired /\ ln.nw = Len(ws) THEN <<m>> ELSE <<>>
         ELSE IF ln.res = "ok" /\ ~ln.fired /\ (ln.nw >= 0 => ln.nw = Len(ws)) THEN <<ApplyAll(m, ws)>> ELSE <<>>

(* All checks are gathered in one state-level boolean compared with TRUE: TLC then   *)
(* evaluates the large \A over the grid iteratively instead of unfolding it into a   *)
(* conjunction of actions (Java stack overflow with > 800 queries).                  *)
OpOK(s, op, ln, applied, ob2, r) ==
    LET rej == RefRejected(s.objs, op) IN
    /\ IF applied
       THEN /\ rej = "no"
            /\ \/ ln.res = "ok"
               \/ ln.res = "noexist" /\ op.op = "Delete" /\ s.objs[op.id] = None
       ELSE \/ ln.res \in {"err", "panic"} /\ ln.fired   \* injected error / recovered panic: rolled back
            \/ rej # "no" /\ ln.res = rej             \* rejected: nothing happened
    /\ ~ln.leaked       \* Update returned (or panicked) with its transaction neither committed nor rolled back
    /\ ObsOK(ob2, ln)
    /\ (CheckImpl => (r # <<>> /\ ln.keys = Dump(r[1])))

TrOp ==
    /\ IsEv("Op") /\ ~txs.active
    /\ Ln.pre \in 1..Len(stack) /\ Ln.post \in 1..(Len(stack) + 1)
    /\ LET s == stack[Ln.pre]
           op == [op |-> Ln.op, id |-> Ln.id, a |-> Ln.a, v |-> Ln.v]
           r == IF CheckImpl THEN ImplStep(s.kv, op, Ln) ELSE <<kv>>
       IN  \E applied \in BOOLEAN :
             LET ob2 == IF applied THEN RefApply(s.objs, op) ELSE s.objs IN
             /\ OpOK(s, op, Ln, applied, ob2, r) = TRUE
             /\ objs' = ob2
             /\ kv' = r[1]
             /\ stack' = SubSeq(stack, 1, Ln.post - 1) \o <<Slot(ob2, r[1])>>
    /\ UNCHANGED <<cfgl, txs>> /\ Frozen

(* ---- multi-operation transactions: store.Update(func(tx) { CreateTx/PutTx/ReplaceTx/DeleteTx/RebuildTx ...; ----
   ---- GetTx + ListTx after each }) : a sequence of lines TxBegin, TxOp*, TxEnd.                              ---- *)
TrTxBegin ==
    /\ IsEv("TxBegin") /\ ~txs.active
    /\ Ln.pre \in 1..Len(stack)
    /\ txs' = [active |-> TRUE, pre |-> Ln.pre, objs |-> stack[Ln.pre].objs, kv |-> stack[Ln.pre].kv,
               nw |-> 0, failAt |-> Ln.failAt, fmode |-> Ln.fmode, dead |-> FALSE]
    /\ UNCHANGED <<kv, objs, stack, cfgl>> /\ Frozen

(* Impl: effect of one operation on the transaction's kv given the tx-wide write counter *)
TxImplStep(op, ln) ==
    IF Rejected(txs.kv, op) # "no"
    THEN IF ln.res = Rejected(txs.kv, op) /\ ~ln.fired THEN <<txs.kv, txs.nw>> ELSE <<>>
    ELSE LET ws == Writes(txs.kv, op) IN
         IF txs.failAt \in (txs.nw + 1)..(txs.nw + Len(ws))
         THEN IF ln.res = FaultRes(txs.fmode) /\ ln.fired THEN <<txs.kv, txs.failAt>> ELSE <<>>
         ELSE IF ln.res = "ok" /\ ~ln.fired THEN <<ApplyAll(txs.kv, ws), txs.nw + Len(ws)>> ELSE <<>>

(* the operation succeeded inside the transaction: GetTx of every ID and ListTx over the *)
(* in-transaction grid must be those of the history so far, this transaction included   *)
TxObsOK(ob, ln) ==
    /\ \A i \in DOMAIN Cfg.ids : ln.get[i] = ObjsT(ob[Cfg.ids[i]])
    /\ Lists(ob, Cfg.gridt, ln.lists)

TxOpOK(op, ln, okk, ob2, r) ==
    LET rej == RefRejected(txs.objs, op) IN
    /\ IF okk
       THEN /\ rej = "no"
            /\ \/ ln.res = "ok"
               \/ ln.res = "noexist" /\ op.op = "Delete" /\ txs.objs[op.id] = None
            /\ TxObsOK(ob2, ln)
       ELSE \/ ln.res \in {"err", "panic"} /\ ln.fired
            \/ rej # "no" /\ ln.res = rej
    /\ (CheckImpl => r # <<>>)

TrTxOp ==
    /\ IsEv("TxOp") /\ txs.active /\ ~txs.dead
    /\ LET op == [op |-> Ln.op, id |-> Ln.id, a |-> Ln.a, v |-> Ln.v]
           r == IF CheckImpl THEN TxImplStep(op, Ln) ELSE <<txs.kv, txs.nw>>
       IN  \E okk \in BOOLEAN :
             LET ob2 == IF okk THEN RefApply(txs.objs, op) ELSE txs.objs IN
             /\ TxOpOK(op, Ln, okk, ob2, r) = TRUE
             /\ txs' = [txs EXCEPT !.objs = ob2, !.kv = r[1], !.nw = r[2], !.dead = ~okk]
    /\ UNCHANGED <<kv, objs, stack, cfgl>> /\ Frozen

(* end of the transaction function: Update committed (res ok) or rolled back (an operation *)
(* failed, the function aborted deliberately, or the commit failed)                       *)
TxEndOK(ln, committed, ob2, m2) ==
    /\ IF committed
       THEN ~txs.dead /\ ~ln.abort /\ ln.res = "ok"
       ELSE \/ txs.dead /\ ln.res # "ok"
            \/ ~txs.dead /\ ln.abort /\ ln.res \in {"abort", "panic"}   \* the function gave up at its end: error return or panic
            \/ ~txs.dead /\ ~ln.abort /\ ln.res = "err" /\ ln.fired     \* tx.Commit failed
    /\ ~ln.leaked
    /\ ObsOK(ob2, ln)
    /\ (CheckImpl =>
          /\ (committed => ~ln.fired)
          /\ ((~txs.dead /\ ~ln.abort /\ txs.failAt = -1) => ~committed)
          /\ (ln.nw >= 0 => ln.nw = txs.nw)
          /\ ln.keys = Dump(m2))

TrTxEnd ==
    /\ IsEv("TxEnd") /\ txs.active
    /\ Ln.post \in 1..(Len(stack) + 1)
    /\ \E committed \in BOOLEAN :
         LET ob2 == IF committed THEN txs.objs ELSE stack[txs.pre].objs
             m2 == IF committed THEN txs.kv ELSE stack[txs.pre].kv
         IN  /\ TxEndOK(Ln, committed, ob2, m2) = TRUE
             /\ objs' = ob2 /\ kv' = m2
             /\ stack' = SubSeq(stack, 1, Ln.post - 1) \o <<Slot(ob2, m2)>>
    /\ txs' = NoTxs
    /\ UNCHANGED cfgl /\ Frozen

(* a reopen (or a plain observation) of the state in slot `at` *)
TrReopen ==
    /\ IsEv("Reopen") /\ ~txs.active
    /\ Ln.at \in 1..Len(stack)
    /\ (ObsOK(stack[Ln.at].objs, Ln) /\ (CheckImpl => Ln.keys = Dump(stack[Ln.at].kv))) = TRUE
    /\ UNCHANGED <<kv, objs, stack, cfgl, txs>> /\ Frozen

TrNext == TrReset \/ TrOp \/ TrReopen \/ TrTxBegin \/ TrTxOp \/ TrTxEnd
TrSpec == TrInit /\ [][TrNext]_tvars

(* Impl-level invariants on the histories the real code went through (drift cfg only) *)
ImplConsistent == cfgl = 0 \/ (GetIsLast /\ Bijection /\ ListIsSlice)

HW == HWMark(l)
Accepted == HWAccepted
=============================================================================
