SPECIFICATION TrSpec
CONSTANTS
    IdOrder <- MCIds5
    ValOrder <- MCVals
    Payloads = {1}
    SegOrder <- MCSegs
    GlobTable <- MCGlob
    Grid <- MCGridTiny
    JoinCollapse = FALSE
    NoLimitRaw = FALSE
    Faults = TRUE
    CheckImpl = FALSE
CONSTRAINT HW
POSTCONDITION Accepted
CHECK_DEADLOCK FALSE
