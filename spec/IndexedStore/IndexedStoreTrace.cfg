SPECIFICATION TrSpec
CONSTANTS
    IdOrder <- MCIds6
    ValOrder <- MCVals
    Payloads = {1}
    SegOrder <- MCSegs
    GlobTable <- MCGlob
    Grid <- MCGridTiny
    TxGrid <- MCGridTiny
    JoinCollapse = FALSE
    NoLimitRaw = FALSE
    Faults = TRUE
    PanicCommits = FALSE
    MaxTxOps = 1
    CheckImpl = FALSE
CONSTRAINT HW
POSTCONDITION Accepted
CHECK_DEADLOCK FALSE
