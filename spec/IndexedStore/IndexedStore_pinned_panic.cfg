SPECIFICATION Spec
CONSTANTS
    IdOrder <- MCIds3
    ValOrder <- MCVals
    Payloads = {1}
    SegOrder <- MCSegs
    GlobTable <- MCGlob
    Grid <- MCGridSmall
    TxGrid <- MCTxGrid
    JoinCollapse = FALSE
    NoLimitRaw = FALSE
    Faults = TRUE
    PanicCommits = TRUE
    MaxTxOps = 2
PROPERTIES
    FailedOpLeavesNoTrace
CHECK_DEADLOCK FALSE
