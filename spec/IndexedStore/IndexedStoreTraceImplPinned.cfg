SPECIFICATION TrSpec
CONSTANTS
    IdOrder <- MCIds5
    ValOrder <- MCVals
    Payloads = {1}
    SegOrder <- MCSegs
    GlobTable <- MCGlob
    Grid <- MCGridTiny
    JoinCollapse = TRUE
    NoLimitRaw = TRUE
    Faults = TRUE
    CheckImpl = TRUE
CONSTRAINT HW
POSTCONDITION Accepted
CHECK_DEADLOCK FALSE
