SPECIFICATION Spec
CONSTANTS
    IdOrder <- MCIds4
    ValOrder <- MCVals
    Payloads = {1}
    SegOrder <- MCSegs
    GlobTable <- MCGlob
    Grid <- MCGridSmall
    TxGrid <- MCTxGridTiny
    JoinCollapse = TRUE
    NoLimitRaw = FALSE
    Faults = TRUE
    PanicCommits = FALSE
    MaxTxOps = 1
INVARIANTS
    Bijection
CHECK_DEADLOCK FALSE
