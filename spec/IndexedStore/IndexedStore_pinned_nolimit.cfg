SPECIFICATION Spec
CONSTANTS
    IdOrder <- MCIds3
    ValOrder <- MCVals
    Payloads = {1}
    SegOrder <- MCSegs
    GlobTable <- MCGlob
    Grid <- MCGridSmall
    TxGrid <- MCTxGridTiny
    JoinCollapse = FALSE
    NoLimitRaw = TRUE
    Faults = TRUE
    MaxTxOps = 1
INVARIANTS
    ListIsSlice
CHECK_DEADLOCK FALSE
