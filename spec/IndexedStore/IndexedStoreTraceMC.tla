------------------------- MODULE IndexedStoreTraceMC -------------------------
EXTENDS IndexedStoreTrace
MCIds6 == <<"", ".", "..", "a", "ab", "b">>
MCVals == <<"x", "y">>
MCSegs == <<"", ".", "..", "..x", "..y", ".x", ".y", "a", "ab", "abx", "aby", "ay", "b", "bx", "by",
            "data", "id", "indexes", "p", "u", "x", "y">>
MCGlob == [p \in {"a*", "*b", "?", "*", "a", "ab", ".*", "??"} |->
    CASE p = "a*" -> {"a", "ab"}
      [] p = "*b" -> {"ab", "b"}
      [] p = "?"  -> {".", "a", "b"}
      [] p = "*"  -> {"", ".", "..", "a", "ab", "b"}
      [] p = "a"  -> {"a"}
      [] p = "ab" -> {"ab"}
      [] p = ".*" -> {".", ".."}
      [] p = "??" -> {"..", "ab"}]
(* grid of the Impl-level invariant ListIsSlice evaluated on every recorded state (drift cfg) *)
MCGridTiny == [idx : {"id", "a", "u"}, pat : {"a*"}, off : {0, 1}, lim : {-1}, rev : {FALSE}]
                \cup {[idx |-> "a", pat |-> "?", off |-> 1, lim |-> 2, rev |-> TRUE]}
=============================================================================
