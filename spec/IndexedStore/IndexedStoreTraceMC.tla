------------------------- MODULE IndexedStoreTraceMC -------------------------
EXTENDS IndexedStoreTrace
MCIds5 == <<".", "..", "a", "ab", "b">>
MCVals == <<"x", "y">>
MCSegs == <<".", "..", "a", "ab", "b", "data", "id", "indexes", "p", "x", "y">>
MCGlob == [p \in {"a*", "*b", "?", "*", "a", "ab", ".*", "??"} |->
    CASE p = "a*" -> {"a", "ab"}
      [] p = "*b" -> {"ab", "b"}
      [] p = "?"  -> {".", "a", "b"}
      [] p = "*"  -> {".", "..", "a", "ab", "b"}
      [] p = "a"  -> {"a"}
      [] p = "ab" -> {"ab"}
      [] p = ".*" -> {".", ".."}
      [] p = "??" -> {"..", "ab"}]
(* grid of the Impl-level invariant ListIsSlice evaluated on every recorded state (drift cfg) *)
MCGridTiny == [idx : {"id", "a"}, pat : {"", "a*"}, off : {0, 1}, lim : {-1, 1}, rev : {FALSE}]
                \cup {[idx |-> "a", pat |-> "?", off |-> 1, lim |-> 2, rev |-> TRUE]}
=============================================================================
