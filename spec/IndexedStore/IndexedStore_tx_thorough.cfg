SPECIFICATION Spec
CONSTANTS
    IdOrder <- MCIds4
    ValOrder <- MCVals
    Payloads = {1}
    SegOrder <- MCSegs
    GlobTable <- MCGlob
    Grid <- MCGridSmall
    TxGrid <- MCTxGrid
    JoinCollapse = FALSE
    NoLimitRaw = FALSE
    Faults = TRUE
    PanicCommits = FALSE
    MaxTxOps = 2
INVARIANTS
    TypeOK
    GetIsLast
    Bijection
    ListIsSlice
    TxSeesOwnWrites
PROPERTIES
    FailedOpLeavesNoTrace
    ReopenSame
    CommitIsRef
CHECK_DEADLOCK FALSE
