---------------------------- MODULE IndexedStore ----------------------------
(* services/storage: IndexedStore over a flat transactional key/value      *)
(* store (Bolt bucket).  (C15)                                             *)
(*                                                                         *)
(* Ref layer   objs : ID -> None | [a, v]   what create/put/replace/delete *)
(*             promise; Get/List/ReverseList are functions of objs.        *)
(* Impl layer  kv : Key -> Value with the code's own key layout            *)
(*               /<P>/data/<id>                      object data           *)
(*               /<P>/indexes/id/<id>                unique id index       *)
(*               /<P>/indexes/a/<a>/<id>             non-unique index on a *)
(*               /<P>/indexes/u/<u>                  unique secondary index *)
(*                 u = UVal(o): "" for (id "a", a "x"), else id \o a - an   *)
(*                 optional alias; the empty string is a legal value and   *)
(*                 a legal ID (its index key is the index directory + "")  *)
(*             Keys are sequences of path segments.  Data keys are built   *)
(*             by plain concatenation (dataPrefix + id); index keys are    *)
(*             built by indexKey().  The pinned code runs the whole index  *)
(*             key through path.Join (=> path.Clean: "." vanishes, ".."    *)
(*             eats its parent): JoinCollapse = TRUE.  The repaired code   *)
(*             appends the value verbatim: JoinCollapse = FALSE.           *)
(*             One action per storage transaction step:                    *)
(*               Begin(op)  GetTx + exists/replace rules -> reject, or open *)
(*                          a tx with the op's write sequence              *)
(*               Continue(op) a further CreateTx/PutTx/ReplaceTx/DeleteTx/  *)
(*                          RebuildTx inside the same store.Update, reading *)
(*                          the transaction's own writes (up to MaxTxOps)   *)
(*               TxWrite    next tx.Put / tx.Delete on the tx's private copy *)
(*               TxFail     that write (or the commit) fails -> error ->    *)
(*                          DoUpdate's deferred Rollback                    *)
(*               TxPanic    the update function panics after k writes       *)
(*                          (k = 0..n: before any write, between two        *)
(*                          writes, after the last one) and the caller      *)
(*                          recovers: DoUpdate's deferred Rollback runs     *)
(*                          while the panic unwinds.  Rule: a transaction   *)
(*                          whose function did not return nil leaves NO     *)
(*                          trace, for error returns and panics alike.      *)
(*                          PanicCommits = TRUE is the variant "one deferred *)
(*                          closure that commits unless err != nil" (err is *)
(*                          still nil while a panic unwinds): kept to show  *)
(*                          FailedOpLeavesNoTrace is not vacuous.           *)
(*               Commit     all writes done -> tx.Commit                   *)
(*               Reopen     close + open of the file (an open tx is lost)  *)
(*             Reads (Get, List, ReverseList with DoListFunc pagination)   *)
(*             are state functions of the committed kv.                    *)
(* NoLimitRaw = TRUE is the pinned code's limit<0 branch of list(), which  *)
(* returns every index entry and ignores pattern and offset.               *)
EXTENDS Integers, Sequences, FiniteSets, TLC

CONSTANTS
    IdOrder,        \* sequence of object IDs in ascending byte order
    ValOrder,       \* sequence of secondary-index values in ascending byte order
    Payloads,       \* set of payload versions (field v)
    SegOrder,       \* every path segment that can occur, in ascending byte order
    GlobTable,      \* [pattern |-> set of IDs that path.Match(pattern, id) accepts]
    Grid,           \* set of list queries [idx, pat, off, lim, rev]
    TxGrid,         \* set of list queries evaluated inside open transactions
    JoinCollapse,   \* BOOLEAN, see above
    NoLimitRaw,     \* BOOLEAN, see above
    Faults,         \* BOOLEAN: TxFail / TxPanic enabled
    PanicCommits,   \* BOOLEAN, see above (FALSE = the code: panic => rollback)
    MaxTxOps        \* operations grouped in one store.Update transaction

IDs  == { IdOrder[i] : i \in DOMAIN IdOrder }
Vals == { ValOrder[i] : i \in DOMAIN ValOrder }
P == "p"
Indexes == <<"id", "a", "u">>   \* the order putTx/DeleteTx/RebuildTx walk s.indexes
None == <<>>                    \* "no object"; a stored object is <<[id, a, v]>>

(* rank tables: constant-level, evaluated once by TLC *)
IdRankTab  == [x \in IDs |-> CHOOSE i \in DOMAIN IdOrder : IdOrder[i] = x]
ValRankTab == [x \in Vals |-> CHOOSE i \in DOMAIN ValOrder : ValOrder[i] = x]
SegRankTab == [x \in { SegOrder[i] : i \in DOMAIN SegOrder } |-> CHOOSE i \in DOMAIN SegOrder : SegOrder[i] = x]
IdRank(id) == IdRankTab[id]
ValRank(a) == ValRankTab[a]
SegRank(s) == SegRankTab[s]

ASSUME /\ \A i, j \in DOMAIN IdOrder : i < j => SegRank(IdOrder[i]) < SegRank(IdOrder[j])
       /\ \A i, j \in DOMAIN ValOrder : i < j => SegRank(ValOrder[i]) < SegRank(ValOrder[j])
       /\ \A s \in {"p", "data", "indexes", "id", "a", "u"} : \E i \in DOMAIN SegOrder : SegOrder[i] = s

(* value of the unique secondary index: distinct for distinct (id, a), empty for one of them *)
UVal(o) == IF o.id = "a" /\ o.a = "x" THEN "" ELSE o.id \o o.a
ASSUME \A id \in IDs, a \in Vals : \E i \in DOMAIN SegOrder : SegOrder[i] = UVal([id |-> id, a |-> a])

Obj(id, a, v) == [id |-> id, a |-> a, v |-> v]
MinOf(x, y) == IF x < y THEN x ELSE y

(* ------------------------------ keys ---------------------------------- *)
(* Byte order of "/s1/s2/.." equals the lexicographic order of the segment *)
(* sequences as long as no segment contains a byte below '/', except for   *)
(* "." and ".." which only ever occur as the last segment (checked against *)
(* the real Bolt cursor order by the drift-level key dump comparison).     *)
RECURSIVE KeyLess(_, _)
KeyLess(k1, k2) ==
    IF k1 = <<>> THEN k2 # <<>>
    ELSE IF k2 = <<>> THEN FALSE
    ELSE IF Head(k1) = Head(k2) THEN KeyLess(Tail(k1), Tail(k2))
    ELSE SegRank(Head(k1)) < SegRank(Head(k2))

RECURSIVE KeyStr(_)
KeyStr(k) == IF k = <<>> THEN "" ELSE "/" \o Head(k) \o KeyStr(Tail(k))

(* path.Clean on a rooted path, over segments *)
RECURSIVE CleanRec(_, _)
CleanRec(in, out) ==
    IF in = <<>> THEN out
    ELSE LET s == Head(in) IN
         CleanRec(Tail(in),
                  IF s = "" \/ s = "." THEN out
                  ELSE IF s = ".." THEN (IF out = <<>> THEN out ELSE SubSeq(out, 1, Len(out) - 1))
                  ELSE Append(out, s))
Clean(k) == CleanRec(k, <<>>)

DataPrefix == <<P, "data">>
DataKey(id) == DataPrefix \o <<id>>                       \* s.dataPrefix + id, no cleaning
IndexPrefix(idx) == <<P, "indexes", idx>>                 \* indexKey(idx, "") + "/"
(* Index.ValueOf: unique -> value ; non-unique -> value + "/" + id *)
IndexValue(idx, o) == CASE idx = "id" -> <<o.id>> [] idx = "a" -> <<o.a, o.id>> [] idx = "u" -> <<UVal(o)>>
IndexKey(idx, o) ==
    IF JoinCollapse THEN Clean(IndexPrefix(idx) \o IndexValue(idx, o))
    ELSE IndexPrefix(idx) \o IndexValue(idx, o)

HasPrefix(k, p) == Len(k) > Len(p) /\ SubSeq(k, 1, Len(p)) = p

(* keys of m with the prefix, in key (= Bolt cursor) order *)
(* integer code of a key: base-(N+1) number of its segment ranks, padded with 0 to 5 segments, *)
(* so that code order = KeyLess order (a proper prefix sorts first); sorting compares integers *)
KeyBase == Len(SegOrder) + 1
KeyCode(k) ==
    LET D(i) == IF i <= Len(k) THEN SegRank(k[i]) ELSE 0
    IN  (((D(1) * KeyBase + D(2)) * KeyBase + D(3)) * KeyBase + D(4)) * KeyBase + D(5)
SortKeys(S) ==
    LET CK == { <<KeyCode(k), k>> : k \in S }
    IN  [i \in 1..Cardinality(S) |-> (CHOOSE p \in CK : Cardinality({ q \in CK : q[1] < p[1] }) = i - 1)[2]]
ListKeys(m, p) == SortKeys({ k \in DOMAIN m : HasPrefix(k, p) })

MPut(m, k, val) == [x \in DOMAIN m \cup {k} |-> IF x = k THEN val ELSE m[x]]
MDel(m, k) == [x \in DOMAIN m \ {k} |-> m[x]]
ApplyW(m, w) == IF w.put THEN MPut(m, w.k, w.val) ELSE MDel(m, w.k)
WPut(k, val) == [put |-> TRUE, k |-> k, val |-> val]
WDel(k) == [put |-> FALSE, k |-> k, val |-> ""]

RECURSIVE ApplyAll(_, _)
ApplyAll(m, ws) == IF ws = <<>> THEN m ELSE ApplyAll(ApplyW(m, Head(ws)), Tail(ws))

RECURSIVE Flatten(_)
Flatten(ss) == IF ss = <<>> THEN <<>> ELSE Head(ss) \o Flatten(Tail(ss))

RevSeq(s) == [i \in 1..Len(s) |-> s[Len(s) + 1 - i]]

(* ------------------------------ Impl reads ----------------------------- *)
ImplGet(m, id) == IF DataKey(id) \in DOMAIN m THEN <<m[DataKey(id)]>> ELSE None

(* storage.DoListFunc, literally: size is computed from the unfiltered length *)
DoListFunc(list, M(_), off, lim) ==
    LET l == Len(list)
        upper == IF off + lim > l THEN l ELSE off + lim
        size == upper - off
    IN  IF size <= 0 THEN <<>>
        ELSE LET matched == SelectSeq(list, M)
                 after == IF off >= Len(matched) THEN <<>> ELSE SubSeq(matched, off + 1, Len(matched))
             IN  SubSeq(after, 1, MinOf(size, Len(after)))

GlobMatch(pat, id) == pat = "" \/ id \in GlobTable[pat]

ListErr == <<"list-error">>     \* an index entry whose object data is missing: tx.Get fails
IndexIds(m, idx) == LET ks == ListKeys(m, IndexPrefix(idx)) IN [i \in DOMAIN ks |-> m[ks[i]]]
ImplListFrom(m, ids0, q) ==
    LET ids == IF q.rev THEN RevSeq(ids0) ELSE ids0
        M(id) == GlobMatch(q.pat, id)
        matches == IF q.lim >= 0 THEN DoListFunc(ids, M, q.off, q.lim)
                   ELSE IF NoLimitRaw THEN ids
                   ELSE DoListFunc(ids, M, q.off, Len(ids))
    IN  IF \E i \in DOMAIN matches : DataKey(matches[i]) \notin DOMAIN m THEN ListErr
        ELSE [i \in DOMAIN matches |-> m[DataKey(matches[i])]]
ImplList(m, q) == ImplListFrom(m, IndexIds(m, q.idx), q)

(* ------------------------------ Impl writes ---------------------------- *)
(* The write sequence of one operation against the transaction's view t,   *)
(* in the order the code issues tx.Put / tx.Delete.                        *)
IsPutKind(op) == op.op \in {"Create", "Put", "Replace"}
Rejected(t, op) ==
    CASE op.op = "Create"  -> IF ImplGet(t, op.id) # None THEN "exists" ELSE "no"
      [] op.op = "Replace" -> IF ImplGet(t, op.id) = None THEN "noexist" ELSE "no"
      [] OTHER -> "no"

PutWrites(t, o) ==
    LET oldS == ImplGet(t, o.id)
        replacing == oldS # None
        PerIdx(idx) ==
            LET newK == IndexKey(idx, o)
            IN  IF ~replacing THEN <<WPut(newK, o.id)>>
                ELSE LET oldK == IndexKey(idx, oldS[1])
                     IN  IF oldK # newK THEN <<WPut(newK, o.id), WDel(oldK)>> ELSE <<>>
    IN  <<WPut(DataKey(o.id), o)>> \o Flatten([i \in DOMAIN Indexes |-> PerIdx(Indexes[i])])

DeleteWrites(t, id) ==
    LET oldS == ImplGet(t, id)
    IN  IF oldS = None THEN <<>>
        ELSE <<WDel(DataKey(id))>> \o [i \in DOMAIN Indexes |-> WDel(IndexKey(Indexes[i], oldS[1]))]

RebuildWrites(t) ==
    LET DelIdx(idx) == LET ks == ListKeys(t, IndexPrefix(idx)) IN [i \in DOMAIN ks |-> WDel(ks[i])]
        dels == Flatten([i \in DOMAIN Indexes |-> DelIdx(Indexes[i])])
        dks == ListKeys(t, DataPrefix)
        PerObj(o) == [i \in DOMAIN Indexes |-> WPut(IndexKey(Indexes[i], o), o.id)]
    IN  dels \o Flatten([i \in DOMAIN dks |-> PerObj(t[dks[i]])])

Writes(t, op) ==
    CASE IsPutKind(op)       -> PutWrites(t, Obj(op.id, op.a, op.v))
      [] op.op = "Delete"    -> DeleteWrites(t, op.id)
      [] op.op = "Rebuild"   -> RebuildWrites(t)

(* ------------------------------ Ref layer ------------------------------ *)
Objs0 == [id \in IDs |-> None]
RefRejected(ob, op) ==
    CASE op.op = "Create"  -> IF ob[op.id] # None THEN "exists" ELSE "no"
      [] op.op = "Replace" -> IF ob[op.id] = None THEN "noexist" ELSE "no"
      [] OTHER -> "no"
RefApply(ob, op) ==
    CASE IsPutKind(op)     -> [ob EXCEPT ![op.id] = <<Obj(op.id, op.a, op.v)>>]
      [] op.op = "Delete"  -> [ob EXCEPT ![op.id] = None]
      [] op.op = "Rebuild" -> ob

(* index order: id index by ID; index a by (a, ID); index u by its value *)
RefBefore(idx, o1, o2) ==
    CASE idx = "id" -> IdRank(o1.id) < IdRank(o2.id)
      [] idx = "a"  -> \/ ValRank(o1.a) < ValRank(o2.a)
                       \/ o1.a = o2.a /\ IdRank(o1.id) < IdRank(o2.id)
      [] idx = "u"  -> SegRank(UVal(o1)) < SegRank(UVal(o2))
RefOrdered(ob, idx) ==
    LET S == { ob[id][1] : id \in { i \in DOMAIN ob : ob[i] # None } }
    IN  [i \in 1..Cardinality(S) |-> CHOOSE o \in S : Cardinality({ o2 \in S : RefBefore(idx, o2, o) }) = i - 1]
RefListFrom(ord, q) ==
    LET all == IF q.rev THEN RevSeq(ord) ELSE ord
        M(o) == GlobMatch(q.pat, o.id)
        matched == SelectSeq(all, M)
        after == IF q.off >= Len(matched) THEN <<>> ELSE SubSeq(matched, q.off + 1, Len(matched))
    IN  IF q.lim < 0 THEN after ELSE SubSeq(after, 1, MinOf(q.lim, Len(after)))
RefList(ob, q) == RefListFrom(RefOrdered(ob, q.idx), q)

(* ------------------------------ behaviour ------------------------------ *)
VARIABLES
    kv,     \* committed contents of the bucket
    open,   \* a read-write transaction is open
    tx,     \* its private copy of the bucket (<<>> when none is open)
    pend,   \* writes the open transaction still has to issue
    cur,    \* the operations of the open transaction so far (the last one may still have writes pending)
    res,    \* result of the last finished operation: ok | exists | noexist | err | reopen | init
    objs    \* Ref: what the operations so far promise

vars == <<kv, open, tx, pend, cur, res, objs>>
NoOp == <<>>
RECURSIVE FoldApply(_, _)
FoldApply(ob, ops) == IF ops = <<>> THEN ob ELSE FoldApply(RefApply(ob, Head(ops)), Tail(ops))

Ops == [op : {"Create", "Put", "Replace"}, id : IDs, a : Vals, v : Payloads]
       \cup [op : {"Delete"}, id : IDs, a : {""}, v : {0}]
       \cup [op : {"Rebuild"}, id : {""}, a : {""}, v : {0}]

Init ==
    /\ kv = <<>> /\ open = FALSE /\ tx = <<>> /\ pend = <<>> /\ cur = NoOp /\ res = "init" /\ objs = Objs0

Begin(op) ==
    /\ ~open
    /\ IF Rejected(kv, op) # "no"
       THEN /\ res' = Rejected(kv, op)          \* error before any write; DoUpdate rolls back
            /\ UNCHANGED <<kv, open, tx, pend, cur, objs>>
       ELSE /\ open' = TRUE /\ tx' = kv /\ pend' = Writes(kv, op) /\ cur' = <<op>> /\ res' = "busy"
            /\ UNCHANGED <<kv, objs>>

(* a further operation inside the same transaction: it reads the transaction's view; *)
(* a rejection is an error the caller returns, so the whole transaction rolls back   *)
Continue(op) ==
    /\ open /\ pend = <<>> /\ Len(cur) < MaxTxOps
    /\ IF Rejected(tx, op) # "no"
       THEN /\ open' = FALSE /\ tx' = <<>> /\ pend' = <<>> /\ cur' = NoOp /\ res' = Rejected(tx, op)
            /\ UNCHANGED <<kv, objs>>
       ELSE /\ pend' = Writes(tx, op) /\ cur' = Append(cur, op)
            /\ UNCHANGED <<kv, open, tx, res, objs>>

TxWrite ==
    /\ open /\ pend # <<>>
    /\ tx' = ApplyW(tx, Head(pend)) /\ pend' = Tail(pend)
    /\ UNCHANGED <<kv, open, cur, res, objs>>

TxFail ==                \* the next tx.Put/tx.Delete fails, or (pend = <<>>) tx.Commit fails
    /\ Faults /\ open
    /\ open' = FALSE /\ tx' = <<>> /\ pend' = <<>> /\ cur' = NoOp /\ res' = "err"   \* deferred tx.Rollback()
    /\ UNCHANGED <<kv, objs>>

TxPanic ==               \* the update function panics (any point while the tx is open), recovered by the caller
    /\ Faults /\ open
    /\ open' = FALSE /\ tx' = <<>> /\ pend' = <<>> /\ cur' = NoOp /\ res' = "panic"
    /\ kv' = IF PanicCommits THEN tx ELSE kv       \* deferred tx.Rollback() during unwinding
    /\ UNCHANGED objs

Commit ==
    /\ open /\ pend = <<>>
    /\ kv' = tx /\ open' = FALSE /\ tx' = <<>> /\ cur' = NoOp /\ res' = "ok"
    /\ objs' = FoldApply(objs, cur)
    /\ UNCHANGED pend

Reopen ==
    /\ open' = FALSE /\ tx' = <<>> /\ pend' = <<>> /\ cur' = NoOp /\ res' = "reopen"
    /\ UNCHANGED <<kv, objs>>

Next == (\E op \in Ops : Begin(op) \/ Continue(op)) \/ TxWrite \/ TxFail \/ TxPanic \/ Commit \/ Reopen
Spec == Init /\ [][Next]_vars

(* ------------------------------ properties ----------------------------- *)
ObjVal == { None } \cup { <<Obj(id, a, v)>> : id \in IDs, a \in Vals, v \in Payloads }
TypeOK ==
    /\ objs \in [IDs -> ObjVal]
    /\ \A id \in IDs : objs[id] # None => objs[id][1].id = id
    /\ res \in {"init", "busy", "ok", "exists", "noexist", "err", "panic", "reopen"}
    /\ open \in BOOLEAN /\ (~open => (tx = <<>> /\ pend = <<>> /\ cur = NoOp))

Idle == ~open

(* get returns the last value stored under an ID *)
(* (kv and objs change only at Commit, so the read invariants are evaluated in idle states only) *)
GetIsLast == Idle => \A id \in IDs : ImplGet(kv, id) = objs[id]

(* per index: the entries under the index's list prefix, in key order, are exactly *)
(* the stored objects, each once, in index order; nothing else lives in the store  *)
Bijection == Idle =>
    /\ \A i \in DOMAIN Indexes :
         LET ks == ListKeys(kv, IndexPrefix(Indexes[i]))
             ord == RefOrdered(objs, Indexes[i])
         IN  [j \in DOMAIN ks |-> kv[ks[j]]] = [j \in DOMAIN ord |-> ord[j].id]
    /\ Cardinality(DOMAIN kv) = (1 + Len(Indexes)) * Cardinality({ id \in IDs : objs[id] # None })

(* pagination with offset/limit (incl. limit<0) and glob patterns is a slice of the list *)
ListIsSlice == Idle =>
    LET ii == [x \in {"id", "a", "u"} |-> IndexIds(kv, x)]
        oo == [x \in {"id", "a", "u"} |-> RefOrdered(objs, x)]
    IN  \A q \in Grid : ImplListFrom(kv, ii[q.idx], q) = RefListFrom(oo[q.idx], q)

(* the committed store changes only by the commit of a complete write sequence;  *)
(* a rejected or failed operation leaves kv (and hence every read) as it was      *)
FailedOpLeavesNoTrace ==
    [][ /\ (kv' # kv => (open /\ pend = <<>> /\ kv' = tx /\ res' = "ok"))
        /\ (res' \in {"err", "panic", "exists", "noexist"} => (kv' = kv /\ objs' = objs)) ]_vars

(* reopening yields the same contents *)
ReopenSame == [][ res' = "reopen" => (kv' = kv /\ objs' = objs) ]_vars

(* a committed operation's effect is the promised one (Impl => Ref at every commit) *)
CommitIsRef ==
    [][ (res' = "ok" /\ open) =>
          \A id \in IDs : ImplGet(kv', id) = FoldApply(objs, cur)[id] ]_vars

(* inside a transaction the reads (GetTx, ListTx) see the transaction's own writes: *)
(* between two operations of one store.Update they are those of the history so far  *)
TxSeesOwnWrites ==
    (open /\ pend = <<>>) =>
        LET ob == FoldApply(objs, cur) IN
        /\ \A id \in IDs : ImplGet(tx, id) = ob[id]
        /\ \A q \in TxGrid : ImplList(tx, q) = RefList(ob, q)
=============================================================================
