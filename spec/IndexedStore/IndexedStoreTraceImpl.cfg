SPECIFICATION TrSpec
CONSTANTS
    IdOrder <- MCIds5
    ValOrder <- MCVals
    Payloads = {1}
    SegOrder <- MCSegs
    GlobTable <- MCGlob
    Grid <- MCGridTiny
    JoinCollapse = FALSE
    NoLimitRaw = FALSE
    Faults = TRUE
    CheckImpl = TRUE
INVARIANT ImplConsistent
CONSTRAINT HW
POSTCONDITION Accepted
CHECK_DEADLOCK FALSE
