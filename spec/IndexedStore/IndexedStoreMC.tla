--------------------------- MODULE IndexedStoreMC ---------------------------
EXTENDS IndexedStore
(* IDs that are prefixes of each other, plus "." and ".." which the task-ID *)
(* regex ^[-\._\p{L}0-9]+$ accepts.  Orders are byte orders.                 *)
MCIds5 == <<".", "..", "a", "ab", "b">>
MCIds4 == <<".", "..", "a", "ab">>
MCIds3 == <<"a", "ab", "b">>
MCIdsDot == <<".", "..", "a">>
MCVals == <<"x", "y">>
MCSegs == <<".", "..", "a", "ab", "b", "data", "id", "indexes", "p", "x", "y">>
(* path.Match(pattern, id) over the five IDs (the driver logs the real table *)
(* and the trace specification asserts it equals this one)                   *)
MCGlob == [p \in {"a*", "*b", "?", "*", "a", "ab", ".*", "??"} |->
    CASE p = "a*" -> {"a", "ab"}
      [] p = "*b" -> {"ab", "b"}
      [] p = "?"  -> {".", "a", "b"}
      [] p = "*"  -> {".", "..", "a", "ab", "b"}
      [] p = "a"  -> {"a"}
      [] p = "ab" -> {"ab"}
      [] p = ".*" -> {".", ".."}
      [] p = "??" -> {"..", "ab"}]
MCGrid == ([idx : {"id", "a"}, pat : {"", "a*", "*b", "?", ".*"}, off : 0..3, lim : {-1, 0, 1, 2, 9}, rev : BOOLEAN])
MCGridSmall == ([idx : {"id", "a"}, pat : {"", "a*", "?"}, off : 0..2, lim : {-1, 1, 2}, rev : BOOLEAN])
=============================================================================
