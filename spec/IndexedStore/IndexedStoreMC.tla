--------------------------- MODULE IndexedStoreMC ---------------------------
EXTENDS IndexedStore
(* IDs: the empty string (a prefix of every ID), IDs that are prefixes of   *)
(* each other, and "." / ".." which the task-ID regex ^[-\._\p{L}0-9]+$      *)
(* accepts.  Orders are byte orders.                                         *)
MCIds5 == <<"", ".", "..", "a", "ab">>
MCIds4 == <<"", ".", "a", "ab">>
MCIds3 == <<"", "a", "ab">>
MCVals == <<"x", "y">>
(* every path segment incl. the values of the unique index u (id \o a, "" for (a,x)) *)
MCSegs == <<"", ".", "..", "..x", "..y", ".x", ".y", "a", "ab", "abx", "aby", "ay", "b", "bx", "by",
            "data", "id", "indexes", "p", "u", "x", "y">>
(* path.Match(pattern, id) over the six IDs (the driver logs the real table *)
(* and the trace specification asserts it equals this one)                   *)
MCGlob == [p \in {"a*", "*b", "?", "*", "a", "ab", ".*", "??"} |->
    CASE p = "a*" -> {"a", "ab"}
      [] p = "*b" -> {"ab", "b"}
      [] p = "?"  -> {".", "a", "b"}
      [] p = "*"  -> {"", ".", "..", "a", "ab", "b"}
      [] p = "a"  -> {"a"}
      [] p = "ab" -> {"ab"}
      [] p = ".*" -> {".", ".."}
      [] p = "??" -> {"..", "ab"}]
MCGrid == [idx : {"id", "a", "u"}, pat : {"", "a*", "*b", "?", "*"}, off : 0..3, lim : {-1, 0, 1, 2, 9}, rev : BOOLEAN]
MCGridSmall == [idx : {"id", "a", "u"}, pat : {"", "a*", "*"}, off : 0..2, lim : {-1, 1, 2}, rev : BOOLEAN]
MCTxGrid == [idx : {"id", "a", "u"}, pat : {"", "a*"}, off : {0, 1}, lim : {-1, 1}, rev : BOOLEAN]
MCTxGridTiny == [idx : {"id", "a", "u"}, pat : {""}, off : {0}, lim : {-1}, rev : {FALSE}]
=============================================================================
