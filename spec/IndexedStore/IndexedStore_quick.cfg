SPECIFICATION Spec
CONSTANTS
    IdOrder <- MCIds4
    ValOrder <- MCVals
    Payloads = {1, 2}
    SegOrder <- MCSegs
    GlobTable <- MCGlob
    Grid <- MCGridSmall
    JoinCollapse = FALSE
    NoLimitRaw = FALSE
    Faults = TRUE
INVARIANTS
    TypeOK
    GetIsLast
    Bijection
    ListIsSlice
PROPERTIES
    FailedOpLeavesNoTrace
    ReopenSame
    CommitIsRef
CHECK_DEADLOCK FALSE
