SPECIFICATION RelStopSpec
CONSTANTS
    Ids <- MCIds
    Workers <- MCWorkers
    WorkerMaps <- MCSharedOnly
    CfgSpace <- MCCfgLive
    MaxClock = 4
    MaxApi = 3
    MaxLast = 1
    TrackRan = FALSE
INVARIANTS
    NeverStranded
CHECK_DEADLOCK FALSE
