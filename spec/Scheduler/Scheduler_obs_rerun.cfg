SPECIFICATION Spec
CONSTANTS
    Ids <- MCIds
    Workers <- MCWorkers
    WorkerMaps <- MCSharedOnly
    CfgSpace <- MCCfgLive
    MaxClock = 4
    MaxApi = 2
    MaxLast = 1
    TrackRan = TRUE
INVARIANTS
    NeverRerunAcrossEpochs
CHECK_DEADLOCK FALSE
