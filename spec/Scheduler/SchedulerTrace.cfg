SPECIFICATION TrSpec
CONSTANTS
    Ids <- MCIds
    Workers <- MCIds
    WorkerMaps <- MCWorkerMaps
    CfgSpace = {}
    MaxClock = 1000000
    MaxApi = 1000000
    MaxLast = 0
    TrackRan = FALSE
INVARIANTS
    NoConcurrentSameId
CONSTRAINT Good
POSTCONDITION Accepted
CHECK_DEADLOCK FALSE
