SPECIFICATION FairSpec
CONSTANTS
    Ids <- MCIds
    Workers <- MCWorkers
    WorkerMaps <- MCWorkerMaps
    CfgSpace <- MCCfgLive
    MaxClock = 4
    MaxApi = 3
    MaxLast = 1
    TrackRan = FALSE
PROPERTIES
    ApiReturns
    EventuallyRuns
CHECK_DEADLOCK FALSE
