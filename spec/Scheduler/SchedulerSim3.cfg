SPECIFICATION SimSpec
CONSTANTS
    Ids <- MCIds3
    Workers <- MCWorkers
    WorkerMaps <- MCWorkerMaps3
    CfgSpace <- MCCfgThorough
    MaxClock = 100000
    MaxApi = 100000
    MaxLast = 4
    TrackRan = FALSE
    TargetLen = 36
    Back = 3
    MaxStep = 4
INVARIANTS
    Emit
    InOrderExactlyOnce
    NotEarly
    NoneAfterRelease
    NoConcurrentSameId
    CheckpointMonotone
    QueueMatchesRef
CONSTRAINT Bound
CHECK_DEADLOCK FALSE
