SPECIFICATION NoFinishSpec
CONSTANTS
    Ids <- MCIds
    Workers <- MCWorkers
    WorkerMaps <- MCWorkerMaps
    CfgSpace <- MCCfgLive
    MaxClock = 3
    MaxApi = 2
    MaxLast = 1
    TrackRan = FALSE
PROPERTIES
    ApiNeverWaitsForExecution
CHECK_DEADLOCK FALSE
