--------------------------- MODULE SchedulerTrace ---------------------------
(* Trace specification for Scheduler (driver c17): validates executions of  *)
(* the real TreeScheduler (mock clock, gated recording executor, recording  *)
(* checkpointer) at VERDICT level.                                          *)
(*                                                                         *)
(* Logged (one line each, written under one mutex at the moment they happen) *)
(*   Call / Ret        the driver calls Schedule or Release / it returned    *)
(*   AdvBegin / AdvEnd  mock.Add(d) starts / returned                        *)
(*   ExecStart          Executor.Execute(id, scheduledFor, runAt) was called *)
(*                      (with the mock clock's reading at that moment)       *)
(*   ExecEnd            Execute is about to return (ok / error / panic)      *)
(*   Ckpt               UpdateLastScheduled(id, t) was called                *)
(*   End                the scheduler is quiescent by its own account        *)
(*                      (When() in the future or zero, all workers flushed)  *)
(* Unlogged, chosen by TLC between lines:                                    *)
(*   TrApiDo            the lock region of the pending API call              *)
(*   TrDispatch(x)      a due queued item is handed to a worker              *)
(* What the property leaves open stays open here: WHEN a due item is handed  *)
(* out (timer, loop and worker-pool layout are not modelled: every id has    *)
(* its own virtual worker, so only "not concurrently with itself" binds),    *)
(* and where inside Schedule/Release/Add the effect takes place.  What binds: *)
(* which occurrence may run next (the queue of the Ref layer), not before    *)
(* occurrence+offset on the logged clock reading, never two executions of    *)
(* one id at once, at most the one in-flight execution after a Release,      *)
(* checkpoints follow executions and increase within an epoch, and at End    *)
(* nothing that is due has been left behind.                                 *)
EXTENDS Scheduler, TraceCommon

VARIABLE l
tvars == <<vars, l>>

TrInit == Init /\ l = 1 /\ HWInit

Ln == Trace[l]
IsEv(e) == l <= Len(Trace) /\ Ln.ev = e /\ l' = l + 1

ghostvars == <<active, expNext, lastCk, ran, ckAll, bad>>

TrReset ==
    /\ IsEv("Reset")
    /\ now' = 0 /\ queue' = {} /\ nextTime' = [i \in Ids |-> None]
    /\ wk' = [w \in Workers |-> IdleWk] /\ pend' = NoOp /\ napi' = 0
    /\ active' = [i \in Ids |-> FALSE] /\ expNext' = [i \in Ids |-> None] /\ lastCk' = [i \in Ids |-> None]
    /\ ran' = [i \in Ids |-> {}] /\ ckAll' = [i \in Ids |-> None] /\ bad' = {}
    /\ UNCHANGED <<implvars, wof>>

(* A Schedule made through the coordinator (TaskCreated / TaskUpdated) carries the task's LatestCompleted (lc)  *)
(* and LatestScheduled (ls, -1 = unset): NewSchedulableTask takes lc unless ls is set and not older, and        *)
(* NewSchedule aligns it to the interval for "every" tasks.  Release through the coordinator = TaskDeleted or   *)
(* TaskUpdated active -> inactive.                                                                              *)
CfgOf(r) == [k |-> r.k, e |-> r.e, o |-> r.o, end |-> r.end]
EffLast(r) ==
    IF "via" \in DOMAIN r
    THEN LET l0 == IF r.ls = -1 \/ r.ls < r.lc THEN r.lc ELSE r.ls
         IN  Align(CfgOf(r), l0)                         \* NewSchedulableTask -> NewSchedule aligns every-tasks
    ELSE IF r.k = "unit" THEN Align(CfgOf(r), r.last)     \* the driver schedules from what NewSchedule returned
    ELSE r.last
(* the aligned time NewSchedule returned to the driver (logged as al) is the documented one *)
AlignedOK(r) == ("al" \in DOMAIN r) => r.al = Align(CfgOf(r), r.last)
OpOf(r) == IF r.t = "S" THEN SchedOp(r.id, CfgOf(r), EffLast(r))
           ELSE IF r.t = "R" THEN RelOp(r.id)
           ELSE [NoOp EXCEPT !.t = "P"]                   \* probe: Release of an id that was never scheduled

TrCall ==
    /\ IsEv("Call") /\ pend = NoOp
    /\ (Ln.t = "S" => AlignedOK(Ln))
    /\ pend' = OpOf(Ln)
    /\ UNCHANGED <<now, queue, nextTime, implvars, wk, wof, napi, ghostvars>>

Done(op) == [op EXCEPT !.t = "done"]
Failed(op) == [op EXCEPT !.t = "failed"]
TrApiDo ==
    /\ pend.t \in {"S", "R", "P"}
    /\ IF SchedFails(pend)
       THEN \* no occurrence after lastScheduled: Schedule returns an error, nothing changes
            /\ pend' = Failed(pend)
            /\ UNCHANGED <<queue, nextTime, wk, active, expNext, lastCk>>
       ELSE IF pend.t = "P"
       THEN pend' = Done(pend) /\ UNCHANGED <<queue, nextTime, wk, active, expNext, lastCk>>
       ELSE /\ pend' = Done(pend)
            /\ IF pend.t = "S" THEN SchedCore(pend.id, pend.c, pend.last) ELSE RelCore(pend.id)
    /\ UNCHANGED <<now, implvars, wof, napi, ran, ckAll, bad, l>>

(* ApiNeverWaitsForExecution on the real code: the driver found the call parked on the scheduler's lock  *)
(* while an execution was held in the executor (same goroutine, same frame, in several stack dumps) and  *)
(* it returned only after the driver let that execution go.  No behaviour of the specification does that. *)
Waited(r) == "waited" \in DOMAIN r /\ r.waited
TrRet ==
    /\ IsEv("Ret")
    /\ ~Waited(Ln)
    /\ \/ pend.t = "done" /\ Ln.err = ""
       \/ pend.t = "failed" /\ Ln.err # ""
    /\ pend' = NoOp
    /\ UNCHANGED <<now, queue, nextTime, implvars, wk, wof, napi, ghostvars>>

(* the mock clock moves monotonically from its old value to the target while Add runs: *)
(* the model jumps at AdvBegin (anything dispatched later is judged by the clock        *)
(* reading logged with its ExecStart)                                                   *)
TrAdvBegin ==
    /\ IsEv("AdvBegin") /\ Ln.to >= now
    /\ now' = Ln.to
    /\ UNCHANGED <<queue, nextTime, implvars, wk, wof, pend, napi, ghostvars>>
TrAdvEnd ==
    /\ IsEv("AdvEnd") /\ Ln.to = now
    /\ UNCHANGED vars

TrDispatch ==
    /\ \E x \in queue :
         /\ x.when <= now /\ wk[wof[x.id]].st \in {"idle", "park"}
         /\ DispatchEffect({x})
    /\ UNCHANGED <<now, implvars, wof, pend, napi, lastCk, ckAll, l>>

WorkerAt(st, id, occ) == { w \in Workers : wk[w].st = st /\ wk[w].it.id = id /\ wk[w].it.next = occ }

TrExecStart ==
    /\ IsEv("ExecStart")
    /\ \E w \in WorkerAt("recv", Ln.id, Ln.occ) :
         /\ Ln.now >= Ln.occ + wk[w].it.c.o        \* NotEarly on the scheduler's clock as the executor sees it
         /\ Ln.now <= now
         /\ Ln.when = Ln.occ + wk[w].it.c.o        \* the runAt argument
         /\ WorkerStart(w)
TrExecEnd ==
    /\ IsEv("ExecEnd")
    /\ \E w \in WorkerAt("exec", Ln.id, Ln.occ) : WorkerFinish(w)
TrCkpt ==
    /\ IsEv("Ckpt")
    /\ \E w \in WorkerAt("ckpt", Ln.id, Ln.occ) : WorkerCkpt(w)

(* NewSchedule alone: the aligned lastScheduled it returns for an "@every" period (all units, incl. 1y) *)
TrAligned ==
    /\ IsEv("Aligned")
    /\ Ln.al = Align([k |-> Ln.k, e |-> Ln.e, o |-> 0, end |-> -1], Ln.last)
    /\ UNCHANGED vars

(* A Stuck line is never accepted.  The driver writes it only for a structural reason seen unchanged in several *)
(* observations while it waits for something that does not come: a worker goroutine of the scheduler is gone, *)
(* or an item is due with nothing in flight, no tick waiting, the timer not armed for a time <= now and the    *)
(* loop parked in its select.  In the specification the run of a due occurrence is always eventually enabled  *)
(* (EventuallyRuns under fairness; NeverStranded: a due item never waits for the clock to move; workers never *)
(* disappear), so no behaviour contains such a state.                                                          *)
TrStuck == IsEv("Stuck") /\ FALSE /\ UNCHANGED vars

TrEnd ==
    /\ IsEv("End") /\ pend = NoOp /\ Ln.now = now
    /\ \A w \in Workers : wk[w].st \in {"idle", "park"}
    /\ \A x \in queue : x.when > now               \* nothing due was left behind
    /\ UNCHANGED vars

TrNext == TrReset \/ TrStuck \/ TrAligned \/ TrCall \/ TrApiDo \/ TrRet \/ TrAdvBegin \/ TrAdvEnd \/ TrDispatch
          \/ TrExecStart \/ TrExecEnd \/ TrCkpt \/ TrEnd
TrSpec == TrInit /\ [][TrNext]_tvars

(* only explanations that keep every promise count *)
Good == bad = {} /\ UniquePerId /\ HWMark(l)
Accepted == HWAccepted
=============================================================================
