--------------------------- MODULE SchedulerEnum ---------------------------
(* Systematic counterpart of SchedulerSim: TLC (breadth first, one worker)  *)
(* enumerates EVERY quiescent-schedule behaviour with exactly MaxMoves      *)
(* environment moves over a small alphabet and writes each as JSON for the  *)
(* replayer.  Shorter behaviours are prefixes of these.                     *)
EXTENDS SchedulerSim

CONSTANTS MaxMoves, EnumSteps

IsMove(r) == r.a \in {"Call", "Adv", "Finish"}
Moves == Cardinality({ i \in DOMAIN hist : IsMove(hist[i]) })

\* lastScheduled: the beginning of time, or now
EnumSchedOps == { SchedOp(id, c, last) : id \in Ids, c \in CfgSpace, last \in {0, now} }

EnumEnvironment ==
    /\ Moves < MaxMoves
    /\ \/ \E op \in EnumSchedOps :
            CallOK(op) /\ ApiCall(op)
            /\ Log([a |-> "Call", t |-> "S", id |-> op.id, k |-> op.c.k, e |-> op.c.e, o |-> op.c.o, end |-> op.c.end, last |-> op.last, pre |-> Pre])
       \/ \E id \in Ids :
            ApiCall(RelOp(id)) /\ Log([a |-> "Call", t |-> "R", id |-> id, pre |-> Pre])
       \/ \E d \in EnumSteps :
            AdvOK(d) /\ AdvanceClock(d) /\ Log([a |-> "Adv", d |-> d, to |-> now + d, pre |-> Pre])
       \/ \E w \in Workers :
            WorkerFinish(w)
            /\ Log([a |-> "Finish", id |-> wk[w].it.id, occ |-> wk[w].it.next,
                    res |-> (IF wk[w].it.next % 3 = 0 THEN "panic" ELSE IF wk[w].it.next % 3 = 1 THEN "fail" ELSE "ok"), pre |-> Pre])

EnumNext == IF InternalEnabled THEN Internal ELSE EnumEnvironment
(* one file per complete behaviour; register 2 counts them (needs -workers 1) *)
EnumInit == TLCSet(2, 0)
EnumSpec == SimInit /\ EnumInit /\ [][EnumNext]_svars

EnumEmit ==
    IF Moves = MaxMoves /\ ~InternalEnabled
    THEN /\ TLCSet(2, TLCGet(2) + 1)
         /\ JsonSerialize(IOEnv.OUT_DIR \o "/e" \o ToString(TLCGet(2)) \o ".json", hist)
    ELSE TRUE
=============================================================================
