---------------------------- MODULE SchedulerSim ----------------------------
(* Behaviour generator for the replayer (B2/B3, driver c17).               *)
(* `tlc -simulate` walks the Impl model under a QUIESCENT SCHEDULE: the     *)
(* scheduler's internal steps (lock regions, timer, loop, worker start and  *)
(* checkpoint) run to completion before the environment makes its next      *)
(* move (API call, clock advance, end of an execution).  That is the only   *)
(* schedule a replayer can force on the real code from outside; the other   *)
(* interleavings are covered by the exhaustive configurations.              *)
(* Two environment restrictions come from the mock clock (benbjohnson/clock *)
(* v1.1.0 sends the tick while holding the clock's mutex and blocks if the  *)
(* previous tick has not been taken): the environment never makes the timer *)
(* fire while a tick is still waiting (it could only wait for ever when the *)
(* loop is spinning on a busy worker).                                      *)
(* hist records the environment's moves and the observable internal steps;  *)
(* Emit writes it as JSON (at most TargetLen entries).                       *)
EXTENDS SchedulerMC, Json, IOUtils

CONSTANTS TargetLen, MaxStep, Back
VARIABLE hist

svars == <<vars, hist>>

SimInit == Init /\ hist = << [a |-> "Init", wof |-> [i \in 1..Cardinality(Ids) |-> wof[i]]] >>

Log(r) == hist' = Append(hist, r)
(* environment moves carry the loop's state they start from (quiescent): the replayer *)
(* waits until the real scheduler has got there (s.when and the timer channel)          *)
Pre == [sw |-> swhen, tk |-> IF tick THEN 1 ELSE 0]

InternalEnabled ==
    \/ pend # NoOp
    \/ (TimerDue /\ ~tick)
    \/ (pc = "select" /\ tick)
    \/ (Awake /\ ~Spinning)
    \/ \E w \in Workers : wk[w].st \in {"recv", "ckpt", "park"}

Internal ==
    \/ ApiDo /\ UNCHANGED hist
    \/ ~tick /\ TimerFire /\ UNCHANGED hist
    \/ LoopWake /\ UNCHANGED hist
    \/ ~Spinning /\ (\A w \in Workers : wk[w].st # "park") /\ LoopPassFirst /\ UNCHANGED hist
    \/ \E w \in Workers : WorkerPark(w) /\ UNCHANGED hist
    \/ \E w \in Workers : WorkerStart(w) /\ Log([a |-> "Start", id |-> wk[w].it.id, occ |-> wk[w].it.next])
    \/ \E w \in Workers : WorkerCkpt(w) /\ Log([a |-> "Ckpt", id |-> wk[w].it.id, occ |-> wk[w].it.next])

\* mock clock: never make the timer fire on top of an untaken tick
CallOK(op) ==
    op.t = "S" => LET wh == NextOcc(op.c, op.last) + op.c.o
                  IN  ~(tick /\ (swhen = None \/ swhen > wh) /\ wh <= now)
AdvOK(d) == ~(tick /\ timerAt # None /\ timerAt <= now + d)

\* lastScheduled near the current time: a few occurrences to catch up, or a first occurrence in the future
Lo == IF now > Back THEN now - Back ELSE 0
\* an ending schedule ends a few seconds from now (`end` in CfgSpace is that distance); the real cron expression
\* confines it to the first minute of model time, and a range "0-0/N" is not a range: 1 <= end <= 59
Concrete(c) == IF c.k = "until" THEN [c EXCEPT !.end = now + c.end] ELSE c
\* SchedOps holds the call as the client makes it (raw lastScheduled); a "unit" task is scheduled from the
\* aligned time NewSchedule returns (Eff).  An ending schedule lives in the last minute of 2023 (end < Boundary)
\* or in the first minute of 2024 (a range "0-0/N" is not a range: end > Boundary), see NextOcc.
SchedOps == { op \in { SchedOp(id, Concrete(c), last) : id \in Ids, c \in CfgSpace, last \in Lo..(now + 1) } :
                 op.c.k = "until" => (op.c.end # Boundary /\ op.c.end <= Boundary + 59) }
Eff(op) == IF op.c.k = "unit" THEN [op EXCEPT !.last = Align(op.c, op.last)] ELSE op

\* RandomElement is re-evaluated at every use: bind it once through \E over a singleton
Environment ==
    \/ \E op \in {RandomElement(SchedOps)} :
         CallOK(Eff(op)) /\ ApiCall(Eff(op))
         /\ Log([a |-> "Call", t |-> "S", id |-> op.id, k |-> op.c.k, e |-> op.c.e, o |-> op.c.o, end |-> op.c.end, last |-> op.last, pre |-> Pre])
    \/ \E id \in {RandomElement(Ids)} : \E coin \in {RandomElement(1..4)} :
         (active[id] \/ coin = 1)        \* releasing an id that is not scheduled is legal but rarely interesting
         /\ ApiCall(RelOp(id)) /\ Log([a |-> "Call", t |-> "R", id |-> id, pre |-> Pre])
    \/ \E d \in {RandomElement(1..MaxStep)} :
         AdvOK(d) /\ AdvanceClock(d) /\ Log([a |-> "Adv", d |-> d, to |-> now + d, pre |-> Pre])
    \/ \E w \in Workers : \E res \in {RandomElement({"ok", "fail", "panic"})} :
         WorkerFinish(w) /\ Log([a |-> "Finish", id |-> wk[w].it.id, occ |-> wk[w].it.next, res |-> res, pre |-> Pre])

SimNext ==
    IF InternalEnabled THEN Internal ELSE Environment

SimSpec == SimInit /\ [][SimNext]_svars

Bound == Len(hist) <= TargetLen
(* MaxClock is effectively unbounded in the generator, so some environment     *)
(* move is always possible and every trace reaches TargetLen.                  *)
Emit ==
    IF Len(hist) = TargetLen
    THEN JsonSerialize(IOEnv.OUT_DIR \o "/b" \o ToString(TLCGet("stats").traces) \o ".json", hist)
    ELSE TRUE
=============================================================================
