SPECIFICATION Spec
CONSTANTS
    Ids <- MCIds
    Workers <- MCWorkers
    WorkerMaps <- MCWorkerMaps
    CfgSpace <- MCCfgQuick
    MaxClock = 8
    MaxApi = 3
    MaxLast = 1
    TrackRan = FALSE
INVARIANTS
    TypeOK
    InOrderExactlyOnce
    NotEarly
    NoneAfterRelease
    NoConcurrentSameId
    CheckpointMonotone
    UniquePerId
    IndexConsistent
    QueueMatchesRef
    NeverStranded
CHECK_DEADLOCK FALSE
