---------------------------- MODULE SchedulerMC ----------------------------
EXTENDS Scheduler
MCIds == {1, 2}
MCWorkers == {0, 1}
\* 2 ids sharing one worker, or one worker each
MCWorkerMaps == { [i \in MCIds |-> 0], [i \in MCIds |-> i - 1] }
\* 3 ids on 2 workers (generator only): every way of sharing, id 1 on worker 0
MCIds3 == {1, 2, 3}
MCWorkerMaps3 == { f \in [MCIds3 -> MCWorkers] : f[1] = 0 }
MCSharedOnly == { [i \in MCIds |-> 0] }
C(k, e, o) == [k |-> k, e |-> e, o |-> o, end |-> -1]
Un(P, o) == [k |-> "unit", e |-> P, o |-> o, end |-> -1]
U(e, o, end) == [k |-> "until", e |-> e, o |-> o, end |-> end]
\* U(1,0,2): occurrences 1 and 2, then the schedule has ended
MCCfgQuick == { C("every", 1, 0), C("every", 2, 1), C("cron", 3, 0), U(1, 0, 2) }
\* (a negative offset runs the task before its scheduled time: Schedulable.Offset allows it)
MCCfgThorough == { C("every", 1, 0), C("every", 1, 1), C("every", 2, 1), C("every", 3, 0), C("cron", 2, 0), C("cron", 3, 1), C("every", 2, -1), C("cron", 3, -1),
                   \* ending schedules; in the generator `end` is relative to now (SchedulerSim.Concrete)
                   U(1, 0, 2), U(2, 1, 3), U(3, -1, 5),
                   \* "@every" with calendar units (1d, 1w, 1d12h, 1mo, 1y): scheduled from the aligned last time
                   Un(86400, 0), Un(604800, 1), Un(129600, 0), Un(2678400, 0) }
                   \* ("1y" is only checked for its alignment (trace line Aligned): cron steps a calendar year, 365 d from
                   \*  2023-02-06, while the alignment period is the 366 d options.Duration gives at the end of 2023)
MCCfgLive == { C("every", 1, 0), C("cron", 2, 1), U(1, 0, 2) }
=============================================================================
