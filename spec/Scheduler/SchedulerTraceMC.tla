-------------------------- MODULE SchedulerTraceMC --------------------------
EXTENDS SchedulerTrace
MCIds == {1, 2, 3}
\* verdict level: one virtual worker per id
MCWorkerMaps == { [i \in MCIds |-> i] }
=============================================================================
