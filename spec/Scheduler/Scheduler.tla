----------------------------- MODULE Scheduler -----------------------------
(* The task scheduler: task/backend/scheduler/treescheduler.go  (C17)      *)
(*                                                                         *)
(* Impl layer - one action per lock region / linearisation point:          *)
(*   ApiCall(op)     a client calls Schedule / Release (before s.mu.Lock)   *)
(*   ApiDo           the lock region of Schedule / Release; then it returns *)
(*   AdvanceClock(d) the scheduler's clock moves by any amount              *)
(*   TimerFire       the timer's deadline passed: a tick is put in timer.C  *)
(*   LoopWake        the main loop takes the tick (case <-s.timer.C)        *)
(*   LoopPass        one iteration of the inner for = one s.mu lock region: *)
(*                   Min(); not due -> re-arm; else process() = iterate the *)
(*                   due items in (when,id) order, hand each to its worker  *)
(*                   only if that worker is idle (non-blocking send),       *)
(*                   delete it and re-insert it with the NEXT OCCURRENCE    *)
(*                   AFTER THE ONE DISPATCHED (cron.Next(it.next), not      *)
(*                   relative to now: missed occurrences are caught up one  *)
(*                   by one); then re-arm the timer or go round again       *)
(*   WorkerStart(w)  the worker calls Executor.Execute(id, occ)             *)
(*   WorkerFinish(w) Execute returns (ok / error / panic - all the same)    *)
(*   WorkerCkpt(w)   UpdateLastScheduled(id, occ)                           *)
(*   WorkerPark(w)   the worker is back at its channel (`for it = range ch`) *)
(* Data layout as in the code: the btree is a set of items keyed by         *)
(* (when,id); the uniqueness index nextTime[id] is what Schedule / Release / *)
(* process use to find the old item; s.when, the timer and its channel.     *)
(*                                                                         *)
(* Ref layer = ghost variables (active, expNext, lastCk, bad): what the     *)
(* property promises per scheduling epoch (from a Schedule to the next      *)
(* Schedule/Release of that id).  Every dispatch is judged against it.      *)
EXTENDS Integers, Sequences, FiniteSets, TLC

CONSTANTS
    Ids,            \* task ids (naturals; the btree breaks ties by id)
    Workers,        \* worker indices
    WorkerMaps,     \* set of functions [Ids -> Workers]: id -> worker (xxhash(id) % len(workchans) in the code)
    CfgSpace,       \* set of [k : {"every","cron","until"}, e : 1..3, o : -1..1, end : Int]  (end only for "until")
    MaxClock,       \* bound on the clock
    MaxApi,         \* bound on API calls
    MaxLast,        \* Schedule's lastScheduled ranges over 0..MaxLast
    TrackRan        \* BOOLEAN: keep the set of all occurrences ever dispatched (observations only)

None == -1
NoCfg == [k |-> "none", e |-> 0, o |-> 0, end |-> None]
NoItem == [id |-> None, when |-> None, next |-> None, c |-> NoCfg]
NoOp == [t |-> "none", id |-> None, c |-> NoCfg, last |-> None]

VARIABLES
    now,        \* the scheduler's clock
    queue,      \* set of items [id, when, next, c]   (btree keyed by (when,id))
    nextTime,   \* [Ids -> Int]  uniqueness index: when of the queued item, None if absent
    swhen,      \* s.when: None = zero time
    timerAt,    \* deadline of the armed timer, None = stopped / fired
    tick,       \* a value is waiting in timer.C
    pc,         \* main loop: "select" | "woken" (took the tick) | "again" (inside the inner for, after a pass that left something due)
    wk,         \* [Workers -> [st, it, stale]]  st: idle | recv | exec | ckpt | park
    wof,        \* the id -> worker map (fixed at Init)
    pend,       \* the API call in progress (NoOp if none)
    napi,       \* number of API calls so far
    \* ---- ghost (Ref) ----
    active,     \* [Ids -> BOOLEAN]  scheduled and not released
    expNext,    \* [Ids -> Int]  the occurrence the current epoch must run next
    lastCk,     \* [Ids -> Int]  last checkpoint written by the current epoch
    ran,        \* [Ids -> SUBSET Int]  all occurrences ever dispatched (only if TrackRan)
    ckAll,      \* [Ids -> Int]  last checkpoint written, any epoch (only if TrackRan)
    bad         \* set of violated promises

implvars == <<swhen, timerAt, tick, pc>>
vars == <<now, queue, nextTime, swhen, timerAt, tick, pc, wk, wof, pend, napi, active, expNext, lastCk, ran, ckAll, bad>>

(* ---- schedules ---- *)
(* Model time 0 is 2023-12-31T23:59:48Z: second 12 is at once a day, a week (Monday), a 36 h, an hour     *)
(* boundary of the grid Time.Truncate works on (multiples of the period since Go's zero time).            *)
Boundary == 12
(* "every": "@every Ns", relative to the previous occurrence.                                             *)
(* "unit":  "@every 1d | 1w | 1d12h | 1mo | 1y" - e is the period in seconds as options.Duration           *)
(*          evaluates it at that date (mo = 31 d, y = 366 d); relative like every, but NewSchedule aligns  *)
(*          lastScheduled to the period grid first (Align) and that is what the task is scheduled from.    *)
(* "cron":  "*/N * * * * * *", aligned.                                                                    *)
(* "until": a cron expression with a year field has a LAST occurrence: the multiples of e from 0 (end      *)
(*          before the boundary: "48-(48+end)/N 59 23 31 12 * 2023") or from the boundary (year 2024) up   *)
(*          to end; after it cron.Next fails ("could not fulfil schedule") and NextOcc is None.            *)
NextOcc(c, from) ==
    IF c.k \in {"every", "unit"} THEN from + c.e
    ELSE LET n  == ((from \div c.e) + 1) * c.e
             lo == IF c.k = "until" /\ c.end >= Boundary THEN Boundary ELSE 0
             m  == IF c.k = "until" /\ n < lo THEN lo ELSE n
         IN  IF c.k = "until" /\ m > c.end THEN None ELSE m

(* NewSchedule("@every P", t) returns t truncated to a multiple of P since Go's zero time (as HEAD does it:  *)
(* lastScheduledAt.Truncate(every.DurationFrom(lastScheduledAt))).  Residue = (time 0 since zero time) mod P *)
Residue(P) ==
    CASE P = 86400    -> 86388        \* 1d     (12 s before midnight)
      [] P = 604800   -> 604788       \* 1w     (2024-01-01 is a Monday, so is 0001-01-01)
      [] P = 129600   -> 129588       \* 1d12h  (17 733 240 h since zero time = 36 * 492 590)
      [] P = 2678400  -> 1814388      \* 1mo = 31 d here: the grid is a 31-day grid since year 1 (2023-12-11), not the month
      [] P = 31622400 -> 28425588     \* 1y = 366 d here: 2023-02-06
      [] OTHER        -> 0            \* N s with N | 6
Align(c, t) == IF c.k \in {"every", "unit"} THEN t - ((Residue(c.e) + t) % c.e) ELSE t

MkItem(id, c, nx) == [id |-> id, when |-> nx + c.o, next |-> nx, c |-> c]
HasNext(x) == NextOcc(x.c, x.next) # None
Advance(x) == MkItem(x.id, x.c, NextOcc(x.c, x.next))

ItemLess(a, b) == a.when < b.when \/ (a.when = b.when /\ a.id < b.id)
MinItem(S) == CHOOSE x \in S : \A y \in S : y = x \/ ItemLess(x, y) \/ (y.when = x.when /\ y.id = x.id)
SameKey(a, b) == a.when = b.when /\ a.id = b.id

(* btree.Delete(Item{when, id}) and ReplaceOrInsert(it) *)
QDelete(q, id, wh) == { x \in q : ~(x.id = id /\ x.when = wh) }
QInsert(q, it) == { x \in q : ~SameKey(x, it) } \cup {it}

IdleWk == [st |-> "idle", it |-> NoItem, stale |-> FALSE]
Running(w) == wk[w].st \in {"recv", "exec", "ckpt"}
Busy(id) == \E w \in Workers : Running(w) /\ wk[w].it.id = id

(* ---- the effect of handing a set D of queued items to their workers ---- *)
(* (each worker gets at most one item of D).  Used by LoopPass with the set *)
(* the iterator computes and by the trace specification with one item.      *)
DispatchEffect(D) ==
    LET ins == { Advance(x) : x \in { y \in D : HasNext(y) } }
        q1  == { y \in queue : ~\E x \in D : SameKey(x, y) }
        q2  == { y \in q1 : ~\E n \in ins : SameKey(n, y) } \cup ins
        flaws == UNION { (IF x.next # expNext[x.id] THEN {"order"} ELSE {})
                         \cup (IF now < x.next + x.c.o THEN {"early"} ELSE {})
                         \cup (IF ~active[x.id] THEN {"released"} ELSE {})
                         \cup (IF Busy(x.id) THEN {"concurrent"} ELSE {})
                         \cup (IF TrackRan /\ x.next \in ran[x.id] THEN {"rerun"} ELSE {}) : x \in D }
    IN  /\ queue' = q2
        \* process(): delete(s.nextTime, id) for every dispatched item, set again only for the re-inserted ones:
        \* an item whose schedule has ended (updateNext fails) is dropped - its last occurrence has been handed out
        /\ nextTime' = [i \in Ids |->
                IF \E n \in ins : n.id = i THEN (CHOOSE n \in ins : n.id = i).when
                ELSE IF \E x \in D : x.id = i THEN None
                ELSE nextTime[i]]
        /\ wk' = [w \in Workers |->
                IF \E x \in D : wof[x.id] = w
                THEN [st |-> "recv", it |-> CHOOSE x \in D : wof[x.id] = w, stale |-> FALSE]
                ELSE wk[w]]
        /\ expNext' = [i \in Ids |-> IF \E x \in D : x.id = i THEN NextOcc((CHOOSE x \in D : x.id = i).c, (CHOOSE x \in D : x.id = i).next) ELSE expNext[i]]
        \* Ref: after its last occurrence the id is not scheduled any more (nothing may run for it until a new Schedule)
        /\ active' = [i \in Ids |-> IF \E x \in D : x.id = i /\ ~HasNext(x) THEN FALSE ELSE active[i]]
        /\ ran' = IF TrackRan THEN [i \in Ids |-> ran[i] \cup { x.next : x \in { y \in D : y.id = i } }] ELSE ran
        /\ bad' = bad \cup flaws

(* ------------------------------- Init ------------------------------- *)
Init ==
    /\ now = 0
    /\ queue = {}
    /\ nextTime = [i \in Ids |-> None]
    /\ swhen = None /\ timerAt = None /\ tick = FALSE /\ pc = "select"
    /\ wof \in WorkerMaps
    /\ wk = [w \in Workers |-> IdleWk]
    /\ pend = NoOp /\ napi = 0
    /\ active = [i \in Ids |-> FALSE]
    /\ expNext = [i \in Ids |-> None]
    /\ lastCk = [i \in Ids |-> None]
    /\ ran = [i \in Ids |-> {}]
    /\ ckAll = [i \in Ids |-> None]
    /\ bad = {}

(* ------------------------------- API -------------------------------- *)
SchedOp(id, c, last) == [t |-> "S", id |-> id, c |-> c, last |-> last]
RelOp(id) == [t |-> "R", id |-> id, c |-> NoCfg, last |-> None]

ApiCall(op) ==
    /\ pend = NoOp /\ napi < MaxApi
    /\ pend' = op /\ napi' = napi + 1
    /\ UNCHANGED <<now, queue, nextTime, swhen, timerAt, tick, pc, wk, wof, active, expNext, lastCk, ran, ckAll, bad>>

(* an execution in flight belongs to the epoch that dispatched it *)
MarkStale(id) == [w \in Workers |-> IF Running(w) /\ wk[w].it.id = id THEN [wk[w] EXCEPT !.stale = TRUE] ELSE wk[w]]

(* Schedule, queue part: delete the item the index points at, insert the new one *)
SchedCore(id, c, last) ==
    LET it == MkItem(id, c, NextOcc(c, last))
        q1 == IF nextTime[id] # None THEN QDelete(queue, id, nextTime[id]) ELSE queue
    IN  /\ queue' = QInsert(q1, it)
        /\ nextTime' = [nextTime EXCEPT ![id] = it.when]
        /\ active' = [active EXCEPT ![id] = TRUE]
        /\ expNext' = [expNext EXCEPT ![id] = it.next]
        /\ lastCk' = [lastCk EXCEPT ![id] = None]
        /\ wk' = MarkStale(id)
(* Schedule, timer part: only if nothing is awaited or the new item is earlier *)
SchedTimer(wh) ==
    IF swhen = None \/ swhen > wh
    THEN swhen' = wh /\ timerAt' = (IF wh <= now THEN now ELSE wh)     \* Stop; Reset(max(0, when-now))
    ELSE UNCHANGED <<swhen, timerAt>>

RelCore(id) ==
    /\ IF nextTime[id] = None THEN UNCHANGED <<queue, nextTime>>
       ELSE queue' = QDelete(queue, id, nextTime[id]) /\ nextTime' = [nextTime EXCEPT ![id] = None]
    /\ active' = [active EXCEPT ![id] = FALSE]
    /\ expNext' = [expNext EXCEPT ![id] = None]
    /\ lastCk' = [lastCk EXCEPT ![id] = None]
    /\ wk' = MarkStale(id)

(* Schedule computes the first occurrence BEFORE taking the lock; if there is none (the schedule *)
(* has ended) it returns the error and nothing changes - a previous schedule of the id stays.   *)
SchedFails(op) == op.t = "S" /\ NextOcc(op.c, op.last) = None

ApiDo ==
    /\ pend # NoOp
    /\ pend' = NoOp
    /\ IF SchedFails(pend)
       THEN UNCHANGED <<queue, nextTime, swhen, timerAt, wk, active, expNext, lastCk>>
       ELSE IF pend.t = "S"
       THEN SchedCore(pend.id, pend.c, pend.last) /\ SchedTimer(NextOcc(pend.c, pend.last) + pend.c.o)
       ELSE RelCore(pend.id) /\ UNCHANGED <<swhen, timerAt>>
    /\ UNCHANGED <<now, tick, pc, wof, napi, ran, ckAll, bad>>

(* ------------------------------ clock ------------------------------- *)
AdvanceClock(d) ==
    /\ d >= 1 /\ now + d <= MaxClock
    /\ now' = now + d
    /\ UNCHANGED <<queue, nextTime, swhen, timerAt, tick, pc, wk, wof, pend, napi, active, expNext, lastCk, ran, ckAll, bad>>

TimerDue == timerAt # None /\ timerAt <= now
TimerFire ==
    /\ TimerDue
    /\ tick' = TRUE /\ timerAt' = None
    /\ UNCHANGED <<now, queue, nextTime, swhen, pc, wk, wof, pend, napi, active, expNext, lastCk, ran, ckAll, bad>>

(* ----------------------------- main loop ---------------------------- *)
LoopWake ==
    /\ pc = "select" /\ tick
    /\ tick' = FALSE /\ pc' = "woken"
    /\ UNCHANGED <<now, queue, nextTime, swhen, timerAt, wk, wof, pend, napi, active, expNext, lastCk, ran, ckAll, bad>>

(* What iterator() hands out in one Ascend.  The send to a worker is non-blocking:  *)
(* a worker that is at its channel when the pass starts takes the least due item   *)
(* of its ids.  A worker that has just checkpointed reaches its channel at some    *)
(* point DURING the pass (or after it): any one of its due items - whichever the   *)
(* iterator is at when that happens - or none of them gets it.                     *)
DueItems == { x \in queue : x.when <= now }
FirstSet == { x \in DueItems :
                /\ wk[wof[x.id]].st = "idle"
                /\ \A y \in DueItems : (wof[y.id] = wof[x.id] /\ ~SameKey(x, y)) => ItemLess(x, y) }
LateChoices == { L \in SUBSET { x \in DueItems : wk[wof[x.id]].st = "park" } :
                    \A x, y \in L : wof[x.id] = wof[y.id] => x = y }
PassSet == FirstSet        \* the deterministic part (used by the generator's quiescent schedule)

Awake == pc \in {"woken", "again"}
LoopPassWith(L) ==
    /\ Awake
    /\ IF queue = {}
       THEN /\ swhen' = None /\ pc' = "select"
            /\ UNCHANGED <<queue, nextTime, timerAt, wk, expNext, active, ran, bad>>
       ELSE IF MinItem(queue).when > now
       THEN \* the timer fired for an item that is gone: wait for the new minimum
            /\ swhen' = MinItem(queue).when /\ timerAt' = MinItem(queue).when /\ pc' = "select"
            /\ UNCHANGED <<queue, nextTime, wk, expNext, active, ran, bad>>
       ELSE /\ DispatchEffect(FirstSet \cup L)
            /\ IF queue' = {}
               THEN swhen' = None /\ pc' = "select" /\ UNCHANGED timerAt    \* the last item's schedule ended
               ELSE LET m == MinItem(queue') IN
                      /\ swhen' = m.when
                      /\ IF m.when > now THEN timerAt' = m.when /\ pc' = "select"
                                         ELSE UNCHANGED timerAt /\ pc' = "again"     \* something is still due: go round again (s.mu is released in between)
    /\ UNCHANGED <<now, tick, wof, pend, napi, lastCk, ckAll>>

LoopPass == \E L \in LateChoices : LoopPassWith(L)
LoopPassFirst == LoopPassWith({})

(* a pass that changes nothing: the loop is spinning on a due item whose worker is busy *)
Spinning == Awake /\ queue # {} /\ MinItem(queue).when <= now /\ PassSet = {} /\ swhen = MinItem(queue).when

(* ------------------------------ workers ----------------------------- *)
WorkerStart(w) ==
    /\ wk[w].st = "recv"
    /\ wk' = [wk EXCEPT ![w].st = "exec"]
    /\ UNCHANGED <<now, queue, nextTime, swhen, timerAt, tick, pc, wof, pend, napi, active, expNext, lastCk, ran, ckAll, bad>>

WorkerFinish(w) ==
    /\ wk[w].st = "exec"
    /\ wk' = [wk EXCEPT ![w].st = "ckpt"]
    /\ UNCHANGED <<now, queue, nextTime, swhen, timerAt, tick, pc, wof, pend, napi, active, expNext, lastCk, ran, ckAll, bad>>

WorkerCkpt(w) ==
    /\ wk[w].st = "ckpt"
    /\ LET it == wk[w].it IN
         /\ IF wk[w].stale THEN UNCHANGED lastCk
            ELSE lastCk' = [lastCk EXCEPT ![it.id] = it.next]
         /\ ckAll' = IF TrackRan THEN [ckAll EXCEPT ![it.id] = it.next] ELSE ckAll
         /\ bad' = bad \cup (IF ~wk[w].stale /\ it.next <= lastCk[it.id] THEN {"ckpt"} ELSE {})
                       \cup (IF TrackRan /\ it.next < ckAll[it.id] THEN {"ckptback"} ELSE {})
    /\ wk' = [wk EXCEPT ![w] = [IdleWk EXCEPT !.st = "park"]]
    /\ UNCHANGED <<now, queue, nextTime, swhen, timerAt, tick, pc, wof, pend, napi, active, expNext, ran>>

WorkerPark(w) ==
    /\ wk[w].st = "park"
    /\ wk' = [wk EXCEPT ![w] = IdleWk]
    /\ UNCHANGED <<now, queue, nextTime, swhen, timerAt, tick, pc, wof, pend, napi, active, expNext, lastCk, ran, ckAll, bad>>

(* -------------------------------- Next ------------------------------ *)
ApiOps == { SchedOp(id, c, last) : id \in Ids, c \in CfgSpace, last \in 0..MaxLast } \cup { RelOp(id) : id \in Ids }

Next ==
    \/ \E op \in ApiOps : ApiCall(op)
    \/ ApiDo
    \/ \E d \in 1..MaxClock : AdvanceClock(d)
    \/ TimerFire
    \/ LoopWake
    \/ LoopPass
    \/ \E w \in Workers : WorkerStart(w) \/ WorkerFinish(w) \/ WorkerCkpt(w) \/ WorkerPark(w)

Fairness ==
    /\ WF_vars(ApiDo) /\ WF_vars(TimerFire) /\ WF_vars(LoopWake) /\ WF_vars(LoopPass)
    /\ \A w \in Workers : WF_vars(WorkerStart(w)) /\ WF_vars(WorkerFinish(w)) /\ WF_vars(WorkerCkpt(w)) /\ WF_vars(WorkerPark(w))

Spec == Init /\ [][Next]_vars
FairSpec == Spec /\ Fairness

(* ----------------------------- properties --------------------------- *)
TypeOK ==
    /\ now \in 0..MaxClock
    /\ \A x \in queue : x.id \in Ids /\ x.when = x.next + x.c.o
    /\ pc \in {"select", "woken", "again"}
    /\ \A w \in Workers : wk[w].st \in {"idle", "recv", "exec", "ckpt", "park"}

(* Ref: per scheduling epoch *)
InOrderExactlyOnce == "order" \notin bad          \* every dispatch is the occurrence right after the previous one / after `last`
NotEarly == "early" \notin bad                    \* now >= occurrence + offset at dispatch
NoneAfterRelease == "released" \notin bad         \* nothing is dispatched for an id that is not scheduled
NoConcurrentSameId == "concurrent" \notin bad
    /\ \A w1, w2 \in Workers : (w1 # w2 /\ Running(w1) /\ Running(w2)) => wk[w1].it.id # wk[w2].it.id
CheckpointMonotone == "ckpt" \notin bad           \* within an epoch

(* Impl: the code's bookkeeping *)
UniquePerId == \A x, y \in queue : x.id = y.id => x = y
IndexConsistent ==
    \A i \in Ids : IF nextTime[i] = None THEN ~\E x \in queue : x.id = i
                   ELSE \E x \in queue : x.id = i /\ x.when = nextTime[i]
QueueMatchesRef ==
    \A i \in Ids : IF active[i] THEN \E x \in queue : x.id = i /\ x.next = expNext[i]
                   ELSE ~\E x \in queue : x.id = i
(* a due, dispatchable item never waits for a clock advance: the loop is awake, about to wake, or the timer is due *)
NeverStranded ==
    (\E x \in queue : x.when <= now) => (Awake \/ tick \/ TimerDue \/ pend # NoOp)

(* Stronger readings, evaluated as observations only (expected to fail): *)
NeverRerunAcrossEpochs == "rerun" \notin bad      \* an occurrence runs at most once even across re-Schedule
CheckpointNeverGoesBack == "ckptback" \notin bad  \* across epochs

(* liveness (FairSpec) *)
ApiReturns == (pend # NoOp) ~> (pend = NoOp)
(* no id stays due for ever: if from some point on an id always has a due item queued and  *)
(* the client stays away, its occurrences keep being dispatched (until it has caught up)    *)
DueQueued(i) == \E x \in queue : x.id = i /\ x.when <= now
EventuallyRuns ==
    \A i \in Ids : <>[](DueQueued(i) /\ pend = NoOp) => []<><<expNext'[i] # expNext[i]>>_vars

(* Schedule and Release take s.mu for one bounded critical section and never wait for an execution: *)
(* they return even if an Executor.Execute call never does (fairness WITHOUT WorkerFinish).         *)
FairnessNoFinish ==
    /\ WF_vars(ApiDo) /\ WF_vars(TimerFire) /\ WF_vars(LoopWake) /\ WF_vars(LoopPass)
    /\ \A w \in Workers : WF_vars(WorkerStart(w)) /\ WF_vars(WorkerCkpt(w)) /\ WF_vars(WorkerPark(w))
NoFinishSpec == Spec /\ FairnessNoFinish
ApiNeverWaitsForExecution == (pend # NoOp) ~> (pend = NoOp)

(* Variant, expected counterexample: the loop keeps s.mu while it goes round again (one Lock with a  *)
(* deferred Unlock around the inner for).  The lock regions of Schedule/Release cannot start while   *)
(* a due item waits for a worker that is inside Execute.                                             *)
HeldApiDo == pc # "again" /\ ApiDo
HeldNext ==
    \/ \E op \in ApiOps : ApiCall(op)
    \/ HeldApiDo
    \/ \E d \in 1..MaxClock : AdvanceClock(d)
    \/ TimerFire
    \/ LoopWake
    \/ LoopPass
    \/ \E w \in Workers : WorkerStart(w) \/ WorkerFinish(w) \/ WorkerCkpt(w) \/ WorkerPark(w)
HeldNoFinishSpec ==
    /\ Init /\ [][HeldNext]_vars
    /\ WF_vars(HeldApiDo) /\ WF_vars(TimerFire) /\ WF_vars(LoopWake) /\ WF_vars(LoopPass)
    /\ \A w \in Workers : WF_vars(WorkerStart(w)) /\ WF_vars(WorkerCkpt(w)) /\ WF_vars(WorkerPark(w))
(* Variant, expected counterexample: Release stops the timer once the queue is empty but leaves s.when at  *)
(* the released item's time; a later Schedule at or after that time does not arm the timer (SchedTimer):   *)
(* the new item is stranded - NeverStranded fails.                                                          *)
RelStopRelease ==
    /\ pend # NoOp /\ pend.t = "R" /\ pend' = NoOp
    /\ RelCore(pend.id)
    /\ timerAt' = (IF queue' = {} THEN None ELSE timerAt) /\ UNCHANGED swhen
    /\ UNCHANGED <<now, tick, pc, wof, napi, ran, ckAll, bad>>
RelStopNext ==
    \/ \E op \in ApiOps : ApiCall(op)
    \/ (pend.t # "R" /\ ApiDo) \/ RelStopRelease
    \/ \E d \in 1..MaxClock : AdvanceClock(d)
    \/ TimerFire \/ LoopWake \/ LoopPass
    \/ \E w \in Workers : WorkerStart(w) \/ WorkerFinish(w) \/ WorkerCkpt(w) \/ WorkerPark(w)
RelStopSpec == Init /\ [][RelStopNext]_vars
=============================================================================
