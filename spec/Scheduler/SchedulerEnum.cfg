SPECIFICATION EnumSpec
CONSTANTS
    Ids <- MCIds
    Workers <- MCWorkers
    WorkerMaps <- MCWorkerMaps
    CfgSpace <- MCCfgQuick
    MaxClock = 100000
    MaxApi = 100000
    MaxLast = 0
    TrackRan = FALSE
    TargetLen = 100000
    Back = 0
    MaxStep = 1
    MaxMoves = 3
    EnumSteps = {1, 3}
INVARIANTS
    EnumEmit
    InOrderExactlyOnce
    NotEarly
    NoneAfterRelease
    NoConcurrentSameId
    CheckpointMonotone
    QueueMatchesRef
CHECK_DEADLOCK FALSE
