SPECIFICATION TrSpec
CONSTRAINT HW
POSTCONDITION Accepted
CHECK_DEADLOCK FALSE
