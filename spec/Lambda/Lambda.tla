------------------------------- MODULE Lambda -------------------------------
(* C04 - the evaluator of tick/stateful as it is written (Impl), checked against the      *)
(* reference semantics of LambdaRef (Ref).                                                 *)
(*                                                                                          *)
(* Impl is a code-shaped interpreter: Type / typed Eval per node kind, ErrTypeGuardFailed   *)
(* as a distinguished result that callers react to, and for every binary node the run-time *)
(* specialisation cache (leftType, rightType, evaluationFn) that evaluation rewrites.       *)
(* The node evaluators are shared by all CopyReset copies of an expression (one per group); *)
(* the function state is per copy.                                                          *)
(*                                                                                          *)
(* Variant = "legacy": tick/stateful before the C04 fixes (typed evaluation runs the cached *)
(*   function and re-specialises one operand on a guard failure, then retries; unary nodes  *)
(*   do not look at their operator; nested lambda nodes own one state for all copies).      *)
(* Variant = "fixed": after the fixes (a node with a dynamic operand specialises from the   *)
(*   operand types before every evaluation, no retry; unary minus over a boolean is an error; *)
(*   every copy has its own evaluators and so its own nested lambda state).                  *)
EXTENDS LambdaRef

CONSTANTS Variant,      \* "legacy" | "fixed"
          ASTs,         \* the expressions explored
          ScopeVals,    \* values a reference may have in a scope (besides being undefined)
          WithUndef,    \* BOOLEAN: also scopes where a reference is undefined
          Modes,        \* API calls explored, subset of {"E","T","I","F","S","B","D","P"}
          Copies,       \* CopyReset copies evaluated alternately, e.g. {1, 2}
          CopyAll,      \* BOOLEAN: alternate copies for every stateful expression (else only for those with a nested lambda)
          MaxCount      \* bound on calls of stateful functions per copy (state constraint)

Legacy == Variant = "legacy"

(* ---------------- static part (compile time) ---------------- *)
RECURSIVE IsDyn(_)
IsDyn(n) ==
    CASE n[1] = "L" -> FALSE
      [] n[1] \in {"R", "F"} -> TRUE
      [] n[1] = "U" -> IF ConstType(n) # "inv" THEN FALSE ELSE IsDyn(n[3])
      [] n[1] = "X" -> IsDyn(n[2])
      [] n[1] = "B" -> IF ConstType(n) # "inv" THEN FALSE ELSE IsDyn(n[3]) \/ IsDyn(n[4])
DynOperands(n) == IsDyn(n[3]) \/ IsDyn(n[4])
LookupFn(op, lt, rt) == IF BinType(op, lt, rt) = "inv" THEN <<"nil">> ELSE <<"fn", lt, rt>>

RECURSIVE BinPaths(_, _)
BinPaths(n, p) ==      \* set of <<path, node>> of the binary nodes of n
    CASE n[1] \in {"L", "R"} -> {}
      [] n[1] = "U" -> BinPaths(n[3], p \o <<1>>)
      [] n[1] = "X" -> BinPaths(n[2], p \o <<1>>)
      [] n[1] = "B" -> {<<p, n>>} \cup BinPaths(n[3], p \o <<1>>) \cup BinPaths(n[4], p \o <<2>>)
      [] n[1] = "F" -> UNION { BinPaths(n[3][i], p \o <<i>>) : i \in DOMAIN n[3] }
NodeAt(ast, p) == (CHOOSE x \in BinPaths(ast, <<>>) : x[1] = p)[2]
CacheEntry0(n) ==
    IF DynOperands(n) THEN [lt |-> "inv", rt |-> "inv", fn |-> <<"dyn">>]
    ELSE [lt |-> ConstType(n[3]), rt |-> ConstType(n[4]), fn |-> LookupFn(n[2], ConstType(n[3]), ConstType(n[4]))]
Cache0(ast) == [p \in { x[1] : x \in BinPaths(ast, <<>>) } |-> CacheEntry0(NodeAt(ast, p))]
CompileFails(ast) == \E x \in BinPaths(ast, <<>>) : ~DynOperands(x[2]) /\ CacheEntry0(x[2]).fn[1] = "nil"

(* ---------------- Type(scope): [t |-> type tag or "err", c |-> cache'] ---------------- *)
RECURSIVE IType(_, _, _, _), ITypeArgs(_, _, _, _, _, _)
IType(n, p, sc, c) ==
    CASE n[1] = "L" -> [t |-> Tag(n[2]), c |-> c]
      [] n[1] = "R" -> [t |-> IF n[2] \in DOMAIN sc THEN Tag(sc[n[2]]) ELSE "err", c |-> c]
      [] n[1] = "X" -> IF ConstType(n) # "inv" THEN [t |-> ConstType(n), c |-> c] ELSE IType(n[2], p \o <<1>>, sc, c)
      [] n[1] = "U" ->
            IF ConstType(n) # "inv" THEN [t |-> ConstType(n), c |-> c]
            ELSE IType(n[3], p \o <<1>>, sc, c)
      [] n[1] = "B" ->
            IF ConstType(n) # "inv" THEN [t |-> ConstType(n), c |-> c]
            ELSE LET l == IType(n[3], p \o <<1>>, sc, c) IN
                 IF l.t = "err" THEN [t |-> "err", c |-> [l.c EXCEPT ![p].lt = "inv"]]
                 ELSE LET r == IType(n[4], p \o <<2>>, sc, [l.c EXCEPT ![p].lt = l.t]) IN
                      IF r.t = "err" THEN [t |-> "err", c |-> [r.c EXCEPT ![p].rt = "inv"]]
                      ELSE LET ty == BinType(n[2], l.t, r.t) IN
                           [t |-> IF ty = "inv" THEN "err" ELSE ty, c |-> [r.c EXCEPT ![p].rt = r.t]]
      [] n[1] = "F" ->
            LET a == ITypeArgs(n[3], 1, p, sc, c, <<>>) IN
            [t |-> IF a.ok THEN SigType(n[2], a.ts) ELSE "err", c |-> a.c]
ITypeArgs(args, i, p, sc, c, acc) ==
    IF i > Len(args) THEN [ok |-> TRUE, ts |-> acc, c |-> c]
    ELSE LET r == IType(args[i], p \o <<i>>, sc, c) IN
         IF r.t = "err" THEN [ok |-> FALSE, ts |-> acc, c |-> r.c]
         ELSE ITypeArgs(args, i + 1, p, sc, r.c, Append(acc, r.t))

(* ---------------- typed evaluation ---------------- *)
(* result r: <<"ok", v>> | <<"guard", actualType>> (ErrTypeGuardFailed) | <<"err">> (any other error) *)
Ok(v) == <<"ok", v>>
Guard(t) == <<"guard", t>>
Fail == <<"err">>
Res(r, c, s) == [r |-> r, c |-> c, s |-> s]
ImplCall(name, a, fs) ==
    IF name = "isPresent" THEN (IF Len(a) = 1 THEN <<MkB(a[1] # MissingV), fs>> ELSE <<Err, fs>>)
    ELSE IF name = "strSubstring" /\ Legacy /\ AllTags(a, <<"s", "i", "i">>) /\ ~SomeAny(a) /\ a[3][2] >= Len(a[1][2])
         THEN <<Err, fs>>                       \* legacy: stop == len(str) is refused
    ELSE Call(name, a, fs)
(* the bucket of function state a nested lambda at path p uses when evaluated by copy k *)
LambdaBucket(p, k) == IF Legacy THEN <<0, p>> ELSE <<k, p>>

RECURSIVE IEval(_, _, _, _, _, _, _, _), IBin(_, _, _, _, _, _, _, _), IDyn(_, _, _, _, _, _, _), ISpec(_, _, _, _, _, _, _, _), IArgs(_, _, _, _, _, _, _, _, _)
(* IEval(n, p, T, sc, c, s, bk, k): evaluate node n (at path p) as type T; s maps buckets to function states, *)
(* bk is the bucket in use, k the copy.                                                                        *)
IEval(n, p, T, sc, c, s, bk, k) ==
    CASE n[1] = "L" -> Res(IF Tag(n[2]) = T THEN Ok(n[2]) ELSE Guard(Tag(n[2])), c, s)
      [] n[1] = "R" ->
            Res(IF n[2] \notin DOMAIN sc THEN Fail
                ELSE IF Tag(sc[n[2]]) = T THEN Ok(sc[n[2]])
                ELSE IF sc[n[2]] = MissingV THEN Fail
                ELSE Guard(Tag(sc[n[2]])), c, s)
      [] n[1] = "U" ->
            IF T \in {"s", "r", "t"} THEN Res(Guard(ConstType(n)), c, s)
            ELSE IF T = "m" THEN Res(Fail, c, s)
            ELSE LET ty == IType(n, p, sc, c) IN
                 IF ty.t = "err" THEN Res(Fail, ty.c, s)
                 ELSE IF ty.t # T THEN Res(Guard(ty.t), ty.c, s)
                 ELSE IF ~Legacy /\ T = "b" /\ n[2] # "!" THEN Res(Fail, ty.c, s)      \* fixed: minus over a boolean is an error
                 ELSE LET r == IEval(n[3], p \o <<1>>, T, sc, ty.c, s, bk, k) IN
                      IF r.r[1] # "ok" THEN r
                      ELSE Res(Ok(IF IsAny(r.r[2]) THEN r.r[2]
                                  ELSE IF T = "b" THEN MkB(~r.r[2][2])          \* legacy: the operator is not consulted
                                  ELSE IF T = "i" THEN MkI(-r.r[2][2])
                                  ELSE IF T = "f" THEN ENeg(r.r[2])
                                  ELSE MkD(-r.r[2][2])), r.c, r.s)
      [] n[1] = "X" ->
            LET ty == IType(n, p, sc, c) IN
            IF ty.t = "err" THEN Res(Fail, ty.c, s)
            ELSE IF ty.t # T \/ T = "t" THEN Res(Guard(ty.t), ty.c, s)
            ELSE IEval(n[2], p \o <<1>>, T, sc, ty.c, s, LambdaBucket(p \o <<0>>, k), k)
      [] n[1] = "B" ->
            IF T \in {"r", "t", "m"} THEN Res(Guard(ConstType(n)), c, s)
            ELSE LET e == IF Legacy /\ T = "b" /\ DynOperands(n) THEN IDyn(n, p, sc, c, s, bk, k)
                          ELSE IBin(n, p, sc, c, s, bk, k, 2) IN
                 IF e.r[1] # "ok" THEN e                                      \* err.error is handed up as it is
                 ELSE IF Tag(e.r[2]) = T THEN e
                 ELSE IF T \in {"i", "f"} THEN Res(Guard(IF Tag(e.r[2]) \in {"i", "f"} THEN Tag(e.r[2]) ELSE ConstType(n)), e.c, e.s)
                 ELSE Res(Fail, e.c, e.s)
      [] n[1] = "F" ->
            LET a == IArgs(n[3], 1, p, sc, c, s, bk, k, <<>>) IN
            IF ~a.ok THEN Res(Fail, a.c, a.s)
            ELSE LET call == ImplCall(n[2], a.vs, a.s[bk]) IN
                 IF IsErr(call[1]) THEN Res(Fail, a.c, [a.s EXCEPT ![bk] = call[2]])
                 ELSE Res(IF Tag(call[1]) = T THEN Ok(call[1]) ELSE Guard(Tag(call[1])), a.c, [a.s EXCEPT ![bk] = call[2]])
(* arguments of a call: each one is typed, then evaluated as that type (generic eval) *)
IArgs(args, i, p, sc, c, s, bk, k, acc) ==
    IF i > Len(args) THEN [ok |-> TRUE, vs |-> acc, c |-> c, s |-> s]
    ELSE LET ty == IType(args[i], p \o <<i>>, sc, c) IN
         IF ty.t \in {"err", "inv"} THEN [ok |-> FALSE, vs |-> acc, c |-> ty.c, s |-> s]
         ELSE IF ty.t = "m" THEN IArgs(args, i + 1, p, sc, ty.c, s, bk, k, Append(acc, MissingV))
         ELSE LET r == IEval(args[i], p \o <<i>>, ty.t, sc, ty.c, s, bk, k) IN
              IF r.r[1] # "ok" THEN [ok |-> FALSE, vs |-> acc, c |-> r.c, s |-> r.s]
              ELSE IArgs(args, i + 1, p, sc, r.c, r.s, bk, k, Append(acc, r.r[2]))

(* determineError(scope): refreshes the cached operand types as a side effect *)
DetermineError(n, p, sc, c) ==
    LET l == IType(n[3], p \o <<1>>, sc, c) IN
    IF l.t = "err" THEN l.c
    ELSE LET c1 == [l.c EXCEPT ![p].lt = l.t] IN
         IF l.t \in {"inv", "m"} THEN c1
         ELSE LET r == IType(n[4], p \o <<2>>, sc, c1) IN
              IF r.t = "err" THEN r.c ELSE [r.c EXCEPT ![p].rt = r.t]

(* EvalBinaryNode.eval *)
IBin(n, p, sc, c, s, bk, k, fuel) ==
    IF ~Legacy /\ DynOperands(n) THEN IDyn(n, p, sc, c, s, bk, k)
    ELSE ISpec(n, p, sc, c, s, bk, k, fuel)

(* evaluateDynamicNode: look at the operand types now, specialise, evaluate *)
IDyn(n, p, sc, c, s, bk, k) ==
    LET l == IType(n[3], p \o <<1>>, sc, c) IN
    IF l.t = "err" THEN Res(Fail, l.c, s)
    ELSE LET r == IType(n[4], p \o <<2>>, sc, l.c) IN
         IF r.t = "err" THEN Res(Fail, r.c, s)
         ELSE ISpec(n, p, sc, [r.c EXCEPT ![p] = [lt |-> l.t, rt |-> r.t, fn |-> LookupFn(n[2], l.t, r.t)]], s, bk, k, 2)

(* run the cached evaluation function; legacy: on a type guard failure of one operand take   *)
(* the actual type it reports, look the function up again and retry                            *)
ISpec(n, p, sc, c, s, bk, k, fuel) ==
    LET e == c[p] IN
    IF e.fn[1] = "nil" THEN Res(Fail, DetermineError(n, p, sc, c), s)
    ELSE IF e.fn[1] = "dyn" THEN IDyn(n, p, sc, c, s, bk, k)
    ELSE LET l == IEval(n[3], p \o <<1>>, e.fn[2], sc, c, s, bk, k)
             out == IF l.r[1] # "ok" THEN [side |-> "L", x |-> l]
                    ELSE IF n[2] = "AND" /\ l.r[2] = False THEN [side |-> "-", x |-> l]
                    ELSE IF n[2] = "OR" /\ l.r[2] = True THEN [side |-> "-", x |-> l]
                    ELSE LET r == IEval(n[4], p \o <<2>>, e.fn[3], sc, l.c, l.s, bk, k) IN
                         IF r.r[1] # "ok" THEN [side |-> "R", x |-> r]
                         ELSE LET v == Bin(n[2], l.r[2], r.r[2]) IN
                              [side |-> "-", x |-> Res(IF IsErr(v) THEN Fail ELSE Ok(v), r.c, r.s)]
         IN IF Legacy /\ out.x.r[1] = "guard" /\ out.side # "-"
            THEN LET lt2 == IF out.side = "L" THEN out.x.r[2] ELSE out.x.c[p].lt
                     rt2 == IF out.side = "R" THEN out.x.r[2] ELSE out.x.c[p].rt
                     fn2 == LookupFn(n[2], lt2, rt2)
                     c2 == [out.x.c EXCEPT ![p] = [lt |-> lt2, rt |-> rt2, fn |-> fn2]]
                 IN IF fn2[1] = "nil" \/ fuel = 0 THEN Res(out.x.r, c2, out.x.s)
                    ELSE ISpec(n, p, sc, c2, out.x.s, bk, k, fuel - 1)
            ELSE out.x

(* ---------------- the API of a compiled expression ---------------- *)
(* result [o |-> outcome, c |-> cache', s |-> state']; outcome = value | Err | <<"T", tag>> *)
ApiCall(ast, mode, sc, c, s, k) ==
    LET bk == <<k, <<>>>> IN
    CASE mode = "T" -> LET ty == IType(ast, <<>>, sc, c) IN
                       [o |-> IF ty.t = "err" THEN Err ELSE <<"T", ty.t>>, c |-> ty.c, s |-> s]
      [] mode \in {"E", "P"} ->
            LET ty == IType(ast, <<>>, sc, c) IN
            IF ty.t = "err" \/ (mode = "E" /\ ty.t \notin {"i", "f", "s", "b", "d"}) THEN [o |-> Err, c |-> ty.c, s |-> s]
            ELSE LET r == IEval(ast, <<>>, IF mode = "P" THEN "b" ELSE ty.t, sc, ty.c, s, bk, k) IN
                 [o |-> IF r.r[1] = "ok" THEN r.r[2] ELSE Err, c |-> r.c, s |-> r.s]
      [] OTHER -> LET r == IEval(ast, <<>>, ModeTag[mode], sc, c, s, bk, k) IN
                  [o |-> IF r.r[1] = "ok" THEN r.r[2] ELSE Err, c |-> r.c, s |-> r.s]

(* all buckets of function state of an expression with copies *)
Buckets(ast) ==
    { <<k, <<>>>> : k \in Copies } \cup
    (IF Legacy THEN { <<0, p>> : p \in LambdaPaths(ast, <<>>) }
     ELSE { <<k, p>> : k \in Copies, p \in LambdaPaths(ast, <<>>) })
IState0(ast) == [b \in Buckets(ast) |-> FS0]
(* the reference state of copy k: its own bucket and its nested lambdas *)
RefStateOf(ast, s, k) ==
    [b \in {<<>>} \cup LambdaPaths(ast, <<>>) |-> IF b = <<>> THEN s[<<k, <<>>>>] ELSE s[LambdaBucket(b, k)]]

(* ---------------- state machine: histories of API calls on one compiled expression ---------------- *)
VARIABLES ast,      \* the compiled expression
          cache0,   \* its caches as compiled (never changes)
          cache,    \* specialisation caches of its binary nodes (shared by the copies)
          fstate,   \* Impl function state: bucket -> state
          rstate,   \* Ref function state per copy: copy -> (bucket -> state)
          bad       \* <<>> or <<property name, witness...>> of the first violated property
vars == <<ast, cache0, cache, fstate, rstate, bad>>

Scopes(a) ==
    LET ns == RefNames(a) IN
    IF WithUndef THEN UNION { [sub -> ScopeVals] : sub \in SUBSET ns } ELSE [ns -> ScopeVals]

Init ==
    /\ ast \in { a \in ASTs : ~CompileFails(a) }
    /\ cache0 = Cache0(ast)
    /\ cache = cache0
    /\ fstate = IState0(ast)
    /\ rstate = [k \in Copies |-> St0(ast)]
    /\ bad = <<>>

LeftDecides(a, sc, st) ==       \* a is l AND/OR r, it type-checks, and the left operand decides the result
    /\ a[1] = "B" /\ a[2] \in Logic
    /\ NType(a[3], sc) = "b" /\ NType(a[4], sc) = "b"
    /\ Eval(a[3], <<1>>, sc, st, <<>>, "*")[1] = (IF a[2] = "AND" THEN False ELSE True)

(* (TLC re-evaluates a LET definition that depends on the state at every use: the three evaluations of a step *)
(* are bound once as values through quantifiers over singleton sets.)                                          *)
Step(sc, mode, k) ==
    \E impl \in {ApiCall(ast, mode, sc, cache, fstate, k)} :
    \E fresh \in {IF cache = cache0 THEN impl ELSE ApiCall(ast, mode, sc, cache0, fstate, k)} :   \* the same call on a freshly compiled node
    \E ref \in {RefApi(mode, ast, sc, rstate[k])} :
    \E implSt \in {RefStateOf(ast, impl.s, k)} :
    LET okRef == OutcomeAgrees(impl.o, ref[1])
        (* the reference fixes the function state after every call; an undecided outcome (it may hide an error) leaves a range *)
        stOK == IF ref[1][1] = "?" THEN implSt = ref[2] \/ ErrStateOK(rstate[k], EvalAll(ast, <<>>, sc, rstate[k], <<>>)[2], implSt)
                ELSE implSt = ref[2]
        others == \A j \in Copies \ {k} : RefStateOf(ast, impl.s, j) = RefStateOf(ast, fstate, j)
        viol == IF impl.o # fresh.o \/ RefStateOf(ast, fresh.s, k) # implSt THEN <<"CacheIrrelevant", sc, mode, k, impl.o, fresh.o>>
                ELSE IF ~IsErr(impl.o) /\ mode # "T" /\ IsErr(ref[1]) THEN <<"ErrorsAreErrors", sc, mode, k, impl.o, ref[1]>>
                ELSE IF mode \notin {"T"} /\ ~IsErr(impl.o) /\ LeftDecides(ast, sc, rstate[k]) /\ (implSt # ref[2] \/ impl.o # ref[1])
                     THEN <<"ShortCircuit", sc, mode, k, impl.o, ref[1]>>
                ELSE IF ~okRef \/ ~stOK THEN <<"RefinesRef", sc, mode, k, impl.o, ref[1]>>
                ELSE IF ~others THEN <<"CopiesIsolated", sc, mode, k, impl.o>>
                ELSE <<>>
    IN /\ bad = <<>>
       /\ cache' = impl.c
       /\ fstate' = impl.s
       /\ rstate' = [rstate EXCEPT ![k] = implSt]
       /\ bad' = viol
       /\ UNCHANGED <<ast, cache0>>

(* copies only matter (beyond the shared caches) when there is function state *)
CopiesOf(a) == IF HasStateful(a) /\ (CopyAll \/ LambdaPaths(a, <<>>) # {}) THEN Copies ELSE {CHOOSE k \in Copies : TRUE}
Next == \E sc \in Scopes(ast), mode \in Modes, k \in CopiesOf(ast) : Step(sc, mode, k)
Spec == Init /\ [][Next]_vars

(* bound the counters of the stateful functions so that the state space is finite *)
Bounded == \A b \in DOMAIN fstate : fstate[b].c <= MaxCount /\ Len(fstate[b].sg) <= MaxCount

(* ---------------- properties ---------------- *)
(* the result of every call equals the result of the same call on a freshly compiled node with the same function state *)
CacheIrrelevant == bad = <<>> \/ bad[1] # "CacheIrrelevant"
(* whatever the reference semantics makes an error is never returned as a value *)
ErrorsAreErrors == bad = <<>> \/ bad[1] # "ErrorsAreErrors"
(* when the left operand of AND/OR decides, the right one is not evaluated: no call of its stateful functions *)
ShortCircuit == bad = <<>> \/ bad[1] # "ShortCircuit"
(* every outcome is the one the reference semantics gives, and the function state evolves as the reference state *)
RefinesRef == bad = <<>> \/ bad[1] # "RefinesRef"
(* evaluating one copy never changes what another copy will compute *)
CopiesIsolated == bad = <<>> \/ bad[1] # "CopiesIsolated"
=============================================================================
