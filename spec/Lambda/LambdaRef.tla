----------------------------- MODULE LambdaRef -----------------------------
(* C04 - reference semantics of TICKscript lambda expressions (DESIGN.md §5 C04).        *)
(*                                                                                        *)
(* Values are tagged tuples over small exact domains:                                     *)
(*   <<"i", n>>        int                                                                *)
(*   <<"f", n, d>>     float as the exact rational n/d in lowest terms, d a power of two  *)
(*                     (every float64 is such a dyadic rational; + - * are closed on them *)
(*                     and IEEE division is exact whenever the quotient is dyadic again)  *)
(*   <<"I", b, o>>     an int64 beyond the model's exact integers, as base + small offset: b in  *)
(*                     "p53" "n53" "p62" "n62" "p63" "n63" = +-2^53, +-2^62, +-2^63, so that       *)
(*                     MaxInt64 = <<"I","p63",-1>>, MinInt64 = <<"I","n63",0>>; <<"G", b, o>> is   *)
(*                     the float64 with exactly that value                                        *)
(*   <<"F", k>>        the other float64 values: k = "nan", "+inf", "-inf", "-0" (IEEE 754  *)
(*                     arithmetic, comparison and the math built-ins are pinned on them)  *)
(*   <<"s", <<c..>>>>  string as its sequence of byte values                              *)
(*   <<"b", TRUE>>     bool                                                               *)
(*   <<"d", ms>>       duration in whole milliseconds                                     *)
(*   <<"t", min>>      time in whole minutes after a midnight                             *)
(*   <<"r", name>>     regular expression literal, one of a few named patterns            *)
(*   <<"m">>           the missing value (reference to a field/tag the point lacks)       *)
(*   <<"E">>           an evaluation error                                                *)
(*   <<"!", t>>        some value of type t - NOT an error - whose magnitude the finite   *)
(*                     model does not decide (float("0.1"), float("inf"), int("4294967296")) *)
(*   <<"?", t>>        some value of type t the finite model does not decide (inexact     *)
(*                     float quotient, Inf/NaN, sigma, ...): any value of type t, or an    *)
(*                     error, is accepted for it and it taints what is computed from it.  *)
(*                                                                                        *)
(* ASTs:  <<"L", value>> literal | <<"R", name>> reference | <<"U", op, n>> unary |       *)
(*        <<"B", op, l, r>> binary | <<"F", name, <<args>>>> call | <<"X", n>> nested      *)
(*        lambda (a lambda variable used inside a lambda; owns its function state).       *)
(* A scope is a function name -> value; a name outside its domain is undefined.           *)
EXTENDS Integers, Sequences, FiniteSets, TLC

Err == <<"E">>
IsErr(v) == v[1] = "E"
IsAny(v) == v[1] \in {"?", "!"}
Tag(v) == IF IsAny(v) THEN v[2] ELSE IF v[1] \in {"F", "G"} THEN "f" ELSE IF v[1] = "I" THEN "i" ELSE v[1]
AnyOf(t) == <<"?", t>>
NonErr(t) == <<"!", t>>
MkI(n) == <<"i", n>>
MkB(b) == <<"b", b>>
MkS(s) == <<"s", s>>
MkD(ms) == <<"d", ms>>
MissingV == <<"m">>
True == MkB(TRUE)
False == MkB(FALSE)

Abs(n) == IF n < 0 THEN -n ELSE n
RECURSIVE GCD(_, _)
GCD(a, b) == IF b = 0 THEN a ELSE GCD(b, a % b)
RECURSIVE IsPow2(_)
IsPow2(d) == d = 1 \/ (d > 1 /\ d % 2 = 0 /\ IsPow2(d \div 2))
(* Go's integer division truncates towards zero and % takes the sign of the dividend.    *)
TDiv(a, b) == LET q == Abs(a) \div Abs(b) IN IF (a < 0) # (b < 0) THEN -q ELSE q
TMod(a, b) == a - b * TDiv(a, b)

(* ---------------- floats as exact rationals ---------------- *)
MkF(n, d) ==
    IF n = 0 THEN <<"f", 0, 1>>
    ELSE LET s == IF d < 0 THEN -1 ELSE 1
             g == GCD(Abs(n), Abs(d))
         IN <<"f", (s * n) \div g, Abs(d) \div g>>
(* a quotient is decided only when it is a dyadic rational again (then float64 has it exactly) *)
MkFx(n, d) == LET r == MkF(n, d) IN IF IsPow2(r[3]) THEN r ELSE AnyOf("f")
Num(v) == IF v[1] = "i" THEN v[2] ELSE v[2]
Den(v) == IF v[1] = "i" THEN 1 ELSE v[3]
FNeg(a) == <<"f", -a[2], a[3]>>
FAbs(a) == <<"f", Abs(a[2]), a[3]>>
(* sign of a - b for ints and finite floats alike (an int compared with a float is converted exactly) *)
NumCmp(a, b) == LET x == IF Den(a) = Den(b) THEN Num(a) - Num(b) ELSE Num(a) * Den(b) - Num(b) * Den(a)
                IN IF x < 0 THEN -1 ELSE IF x > 0 THEN 1 ELSE 0
FFloor(a) == a[2] \div a[3]                        \* TLA+ \div floors
FTrunc(a) == TDiv(a[2], a[3])

(* ---------------- the whole of float64: NaN, infinities, signed zero (IEEE 754) ---------------- *)
NaN == <<"F", "nan">>
PInf == <<"F", "+inf">>
NInf == <<"F", "-inf">>
NZero == <<"F", "-0">>
PZero == <<"f", 0, 1>>
IsSp(v) == v[1] = "F"
IsNaN(v) == IsSp(v) /\ v[2] = "nan"
IsInf(v) == IsSp(v) /\ v[2] \in {"+inf", "-inf"}
IsZero(v) == IF IsSp(v) THEN v[2] = "-0" ELSE v[2] = 0                 \* for ints and floats
SBit(v) == IF IsSp(v) THEN v[2] \in {"-inf", "-0"} ELSE v[2] < 0        \* the sign bit (of an int: negative)
MkZ(neg) == IF neg THEN NZero ELSE PZero
MkInf(neg) == IF neg THEN NInf ELSE PInf
Fin(v) == IF v[1] = "i" THEN <<"f", v[2], 1>> ELSE IF IsSp(v) THEN PZero ELSE v    \* the rational of a finite value (-0 is 0)
ENeg(v) == IF IsNaN(v) THEN NaN ELSE IF IsInf(v) THEN MkInf(~SBit(v)) ELSE IF IsZero(v) THEN MkZ(~SBit(v)) ELSE FNeg(v)
ESmall(a) == IsSp(a) \/ (a[1] = "f" /\ Abs(a[2]) <= 23170 /\ a[3] <= 23170)
(* -1, 0, 1 for two values that are not NaN (ints, floats, infinities; the zeros are equal) *)
ECmp(a, b) ==
    IF IsInf(a) \/ IsInf(b)
    THEN (IF IsInf(a) /\ IsInf(b) /\ a[2] = b[2] THEN 0 ELSE IF (IsInf(a) /\ a[2] = "-inf") \/ (IsInf(b) /\ b[2] = "+inf") THEN -1 ELSE 1)
    ELSE NumCmp(Fin(a), Fin(b))
EAdd(a, b) ==
    IF IsNaN(a) \/ IsNaN(b) THEN NaN
    ELSE IF IsInf(a) /\ IsInf(b) THEN (IF a = b THEN a ELSE NaN)
    ELSE IF IsInf(a) THEN a ELSE IF IsInf(b) THEN b
    ELSE IF IsZero(a) /\ IsZero(b) THEN MkZ(SBit(a) /\ SBit(b))
    ELSE LET x == Fin(a)  y == Fin(b) IN MkF(x[2] * y[3] + y[2] * x[3], x[3] * y[3])       \* x + (-x) is +0
ESub(a, b) == EAdd(a, ENeg(b))
EMul(a, b) ==
    LET neg == SBit(a) # SBit(b) IN
    IF IsNaN(a) \/ IsNaN(b) THEN NaN
    ELSE IF IsInf(a) \/ IsInf(b) THEN (IF IsZero(a) \/ IsZero(b) THEN NaN ELSE MkInf(neg))
    ELSE IF IsZero(a) \/ IsZero(b) THEN MkZ(neg)
    ELSE LET x == Fin(a)  y == Fin(b) IN MkF(x[2] * y[2], x[3] * y[3])
EDiv(a, b) ==
    LET neg == SBit(a) # SBit(b) IN
    IF IsNaN(a) \/ IsNaN(b) THEN NaN
    ELSE IF IsInf(a) THEN (IF IsInf(b) THEN NaN ELSE MkInf(neg))
    ELSE IF IsInf(b) THEN MkZ(neg)
    ELSE IF IsZero(b) THEN (IF IsZero(a) THEN NaN ELSE MkInf(neg))
    ELSE IF IsZero(a) THEN MkZ(neg)
    ELSE LET x == Fin(a)  y == Fin(b)  q == MkF(x[2] * y[3], x[3] * y[2]) IN
         IF IsPow2(q[3]) THEN q ELSE NonErr("f")       \* an inexact quotient: some float (a division of floats is never an error)
(* ---------------- int64 and float64 values around +-2^53, +-2^62, +-2^63 ---------------- *)
IsBig(v) == v[1] \in {"I", "G"}
BaseRank == [n63 |-> -3, n62 |-> -2, n53 |-> -1, p53 |-> 1, p62 |-> 2, p63 |-> 3]
Mirror == [n63 |-> "p63", n62 |-> "p62", n53 |-> "p53", p53 |-> "n53", p62 |-> "n62", p63 |-> "n63"]
(* int64 wraps around: 2^63 + o is -2^63 + o, -2^63 - o is 2^63 - o; an offset beyond the neighbourhood is some int *)
BigI(b, o) == IF Abs(o) > 64 THEN NonErr("i")
              ELSE IF b = "p63" /\ o >= 0 THEN <<"I", "n63", o>> ELSE IF b = "n63" /\ o < 0 THEN <<"I", "p63", o>> ELSE <<"I", b, o>>
NegI(v) == IF v[1] = "I" THEN BigI(Mirror[v[2]], -v[3]) ELSE MkI(-v[2])
(* float64(int64): exact below 2^53, to the nearest even multiple of 2 up to 2^54 (ties to even), to 2^62 resp. 2^63 in their neighbourhood *)
HalfEven(o) == LET k == o \div 2 IN IF o % 2 = 0 THEN k ELSE IF k % 2 = 0 THEN k ELSE k + 1
IntToFloat(v) ==
    IF v[1] # "I" THEN <<"f", v[2], 1>>
    ELSE CASE v[2] = "p53" -> <<"G", "p53", IF v[3] <= 0 THEN v[3] ELSE 2 * HalfEven(v[3])>>
           [] v[2] = "n53" -> <<"G", "n53", IF v[3] >= 0 THEN v[3] ELSE -2 * HalfEven(-v[3])>>
           [] OTHER -> <<"G", v[2], 0>>
Rank(v) == IF IsBig(v) THEN BaseRank[v[2]] ELSE 0
(* -1, 0, 1 for two numbers that are not NaN; an int compared with a float is converted to float64 first (as the evaluator does), *)
(* two ints are compared as integers                                                                                             *)
NumCmpAll(a, b) ==
    LET x == IF Tag(a) = "i" /\ Tag(b) = "f" THEN IntToFloat(a) ELSE a
        y == IF Tag(b) = "i" /\ Tag(a) = "f" THEN IntToFloat(b) ELSE b
    IN IF IsInf(x) \/ IsInf(y) \/ (~IsBig(x) /\ ~IsBig(y)) THEN ECmp(x, y)
       ELSE IF Rank(x) # Rank(y) THEN (IF Rank(x) < Rank(y) THEN -1 ELSE 1)
       ELSE IF x[3] < y[3] THEN -1 ELSE IF x[3] > y[3] THEN 1 ELSE 0
(* int64 arithmetic with an operand beyond the exact integers: decided in the neighbourhood of the bases, else some int (it wraps, never an error) *)
BigArith(op, a, b) ==
    LET sa == ~IsBig(a)  sb == ~IsBig(b) IN
    CASE op = "+" -> IF sb THEN BigI(a[2], a[3] + b[2]) ELSE IF sa THEN BigI(b[2], b[3] + a[2])
                     ELSE IF Rank(a) = -Rank(b) THEN MkI(a[3] + b[3]) ELSE NonErr("i")
      [] op = "-" -> IF sb THEN BigI(a[2], a[3] - b[2])
                     ELSE LET nb == NegI(b) IN
                          IF IsAny(nb) THEN NonErr("i")
                          ELSE IF sa THEN BigI(nb[2], nb[3] + a[2])
                          ELSE IF a[2] = b[2] THEN MkI(a[3] - b[3]) ELSE NonErr("i")
      [] op = "*" -> IF sb /\ b[2] \in {0, 1, -1} THEN (IF b[2] = 0 THEN MkI(0) ELSE IF b[2] = 1 THEN a ELSE NegI(a))
                     ELSE IF sa /\ a[2] \in {0, 1, -1} THEN (IF a[2] = 0 THEN MkI(0) ELSE IF a[2] = 1 THEN b ELSE NegI(b))
                     ELSE NonErr("i")
      [] op = "/" -> IF sb THEN (IF b[2] = 0 THEN Err ELSE IF b[2] = 1 THEN a ELSE IF b[2] = -1 THEN NegI(a) ELSE NonErr("i"))
                     ELSE IF sa THEN MkI(0)
                     ELSE IF a[2] = b[2] THEN MkI(IF (BaseRank[a[2]] > 0) = (a[3] >= b[3]) \/ a[3] = b[3] THEN 1 ELSE 0)
                     ELSE NonErr("i")
      [] op = "%" -> IF sb THEN (IF b[2] = 0 THEN Err ELSE IF b[2] \in {1, -1} THEN MkI(0) ELSE NonErr("i"))
                     ELSE IF sa THEN a
                     ELSE IF a[2] = b[2] THEN (IF (BaseRank[a[2]] > 0) = (a[3] >= b[3]) \/ a[3] = b[3] THEN MkI(a[3] - b[3]) ELSE a)
                     ELSE NonErr("i")
ECmpHolds(op, a, b) ==       \* every comparison with NaN is false, except != which is true
    IF IsNaN(a) \/ IsNaN(b) THEN op = "!="
    ELSE LET c == NumCmpAll(a, b) IN
         CASE op = "==" -> c = 0 [] op = "!=" -> c # 0 [] op = "<" -> c < 0
           [] op = "<=" -> c <= 0 [] op = ">" -> c > 0 [] op = ">=" -> c >= 0
(* math.Floor/Ceil/Trunc/Abs/Sqrt/Log/Min/Max/Mod *)
RECURSIVE ISqrt(_, _)
ISqrt(n, k) == IF k * k >= n THEN k ELSE ISqrt(n, k + 1)
IsSquare(n) == n <= 1000000 /\ ISqrt(n, 0) * ISqrt(n, 0) = n
ERound(kind, a) ==       \* kind: "floor" | "ceil" | "trunc"; specials and zeros come back as they are, a zero result keeps the sign
    IF IsSp(a) THEN a
    ELSE LET k == CASE kind = "floor" -> FFloor(a) [] kind = "ceil" -> -FFloor(FNeg(a)) [] kind = "trunc" -> FTrunc(a) IN
         IF k = 0 THEN MkZ(SBit(a)) ELSE <<"f", k, 1>>
EAbs(a) == IF IsNaN(a) THEN NaN ELSE IF IsInf(a) THEN PInf ELSE IF IsZero(a) THEN PZero ELSE FAbs(a)
ESqrt(a) ==
    IF IsNaN(a) \/ a = NInf THEN NaN ELSE IF a = PInf \/ IsZero(a) THEN a
    ELSE IF a[2] < 0 THEN NaN
    ELSE IF IsSquare(a[2]) /\ IsSquare(a[3]) THEN <<"f", ISqrt(a[2], 0), ISqrt(a[3], 0)>> ELSE NonErr("f")
ELog(a) ==
    IF IsNaN(a) \/ a = NInf THEN NaN ELSE IF a = PInf THEN PInf ELSE IF IsZero(a) THEN NInf
    ELSE IF a[2] < 0 THEN NaN ELSE IF a = <<"f", 1, 1>> THEN PZero ELSE NonErr("f")
EMin(a, b) ==      \* math.Min: -Inf wins over NaN, NaN over the rest, -0 is below +0
    IF a = NInf \/ b = NInf THEN NInf ELSE IF IsNaN(a) \/ IsNaN(b) THEN NaN
    ELSE IF IsZero(a) /\ IsZero(b) THEN MkZ(SBit(a) \/ SBit(b))
    ELSE IF ECmp(a, b) < 0 THEN a ELSE b
EMax(a, b) ==
    IF a = PInf \/ b = PInf THEN PInf ELSE IF IsNaN(a) \/ IsNaN(b) THEN NaN
    ELSE IF IsZero(a) /\ IsZero(b) THEN MkZ(SBit(a) /\ SBit(b))
    ELSE IF ECmp(a, b) > 0 THEN a ELSE b
EMod(a, b) ==      \* math.Mod(x, y): NaN for x infinite, y zero or a NaN operand; x for y infinite; else x - y * trunc(x / y) with the sign of x
    IF IsNaN(a) \/ IsNaN(b) \/ IsInf(a) \/ IsZero(b) THEN NaN
    ELSE IF IsInf(b) THEN a
    ELSE LET x == Fin(a)  y == Fin(b)
             xn == Abs(x[2]) * y[3]
             yn == Abs(y[2]) * x[3]
             rn == xn % yn
         IN IF rn = 0 THEN MkZ(SBit(a)) ELSE MkF(IF SBit(a) THEN -rn ELSE rn, x[3] * y[3])

(* ---------------- strings as byte sequences ---------------- *)
RECURSIVE SeqCmp(_, _)
SeqCmp(a, b) ==
    IF a = <<>> THEN (IF b = <<>> THEN 0 ELSE -1)
    ELSE IF b = <<>> THEN 1
    ELSE IF a[1] < b[1] THEN -1
    ELSE IF a[1] > b[1] THEN 1
    ELSE SeqCmp(Tail(a), Tail(b))
HasPrefix(s, p) == Len(p) <= Len(s) /\ SubSeq(s, 1, Len(p)) = p
HasSuffix(s, p) == Len(p) <= Len(s) /\ SubSeq(s, Len(s) - Len(p) + 1, Len(s)) = p
OccursAt(s, p, i) == i + Len(p) - 1 <= Len(s) /\ SubSeq(s, i, i + Len(p) - 1) = p   \* 1-based
Occurrences(s, p) == { i \in 1..(Len(s) + 1) : OccursAt(s, p, i) }
Contains(s, p) == Occurrences(s, p) # {}
Min(S) == CHOOSE x \in S : \A y \in S : x <= y
Max(S) == CHOOSE x \in S : \A y \in S : x >= y
StrIndex(s, p) == IF Occurrences(s, p) = {} THEN -1 ELSE Min(Occurrences(s, p)) - 1
StrLastIndex(s, p) == IF Occurrences(s, p) = {} THEN -1 ELSE Max(Occurrences(s, p)) - 1
Upper(s) == [i \in DOMAIN s |-> IF s[i] >= 97 /\ s[i] <= 122 THEN s[i] - 32 ELSE s[i]]
Lower(s) == [i \in DOMAIN s |-> IF s[i] >= 65 /\ s[i] <= 90 THEN s[i] + 32 ELSE s[i]]
InSet(c, cs) == \E i \in DOMAIN cs : cs[i] = c
AnyPositions(s, cs) == { i \in DOMAIN s : InSet(s[i], cs) }
RECURSIVE TrimL(_, _), TrimR(_, _), CountFrom(_, _, _)
TrimL(s, cs) == IF s # <<>> /\ InSet(s[1], cs) THEN TrimL(Tail(s), cs) ELSE s
TrimR(s, cs) == IF s # <<>> /\ InSet(s[Len(s)], cs) THEN TrimR(SubSeq(s, 1, Len(s) - 1), cs) ELSE s
(* strings.Count: non-overlapping occurrences from the left; the empty string occurs Len+1 times *)
CountFrom(s, p, i) == IF i + Len(p) - 1 > Len(s) THEN 0
                      ELSE IF OccursAt(s, p, i) THEN 1 + CountFrom(s, p, i + Len(p)) ELSE CountFrom(s, p, i + 1)
StrCount(s, p) == IF p = <<>> THEN Len(s) + 1 ELSE CountFrom(s, p, 1)
Spaces == <<32, 9, 10, 11, 12, 13>>
(* Strings are BYTE sequences: length, substring bounds, indexes, prefixes/suffixes, counting and comparison are in bytes   *)
(* whatever the encoding (a 2-byte rune has length 2, invalid UTF-8 is just bytes).  The functions that work on runes        *)
(* (character sets of strTrim*/str*Any, upper/lower case, Unicode blanks, the empty pattern of strCount/strReplace) are       *)
(* decided here only on ASCII, where runes and bytes coincide: with a non-ASCII byte involved they give SOME string/int.      *)
Ascii(s) == \A i \in DOMAIN s : s[i] < 128
RECURSIVE ReplN(_, _, _, _), ReplEmpty(_, _, _, _)
ReplN(s, old, new, n) ==        \* the first n non-overlapping occurrences of a non-empty old, from the left
    IF n = 0 \/ Len(s) < Len(old) THEN s
    ELSE IF HasPrefix(s, old) THEN new \o ReplN(SubSeq(s, Len(old) + 1, Len(s)), old, new, n - 1)
    ELSE <<s[1]>> \o ReplN(Tail(s), old, new, n)
ReplEmpty(s, new, n, i) ==      \* an empty old matches before every byte and at the end (ASCII)
    IF n = 0 THEN SubSeq(s, i, Len(s))
    ELSE IF i > Len(s) THEN new
    ELSE new \o <<s[i]>> \o ReplEmpty(s, new, n - 1, i + 1)
RECURSIVE ReplByte(_, _, _)
ReplByte(s, c, new) == IF s = <<>> THEN <<>> ELSE (IF s[1] = c THEN new ELSE <<s[1]>>) \o ReplByte(Tail(s), c, new)
(* regexp.ReplaceAllString for the named patterns (the replacement must not hold a $ expansion) *)
RegexReplaceAll(name, s, new) ==
    CASE name = "a" -> ReplByte(s, 97, new)
      [] name = "1" -> ReplByte(s, 49, new)
      [] name = "^a" -> IF HasPrefix(s, <<97>>) THEN new \o Tail(s) ELSE s
      [] name = "b$" -> IF HasSuffix(s, <<98>>) THEN SubSeq(s, 1, Len(s) - 1) \o new ELSE s
      [] name = "^$" -> IF s = <<>> THEN new ELSE s
RECURSIVE Digits(_)
Digits(n) == IF n < 10 THEN <<48 + n>> ELSE Digits(n \div 10) \o <<48 + (n % 10)>>
IntToStr(n) == IF n < 0 THEN <<45>> \o Digits(-n) ELSE Digits(n)
IsDigit(c) == c >= 48 /\ c <= 57
AllDigits(s) == s # <<>> /\ \A i \in DOMAIN s : IsDigit(s[i])
RECURSIVE DigitsVal(_, _)
DigitsVal(s, acc) == IF s = <<>> THEN acc ELSE DigitsVal(Tail(s), acc * 10 + (s[1] - 48))
(* strconv.ParseInt(s, 10, 64) / ParseFloat on plain decimal integers; everything else in the  *)
(* modelled alphabet (letters a, b, t, ... without exponent/hex/inf/nan syntax) is rejected.   *)
IsSignedInt(s) == AllDigits(s) \/ (Len(s) > 1 /\ s[1] \in {43, 45} /\ AllDigits(Tail(s)))
SignedIntVal(s) == IF s[1] = 45 THEN -DigitsVal(Tail(s), 0) ELSE IF s[1] = 43 THEN DigitsVal(Tail(s), 0) ELSE DigitsVal(s, 0)
StrTrue == { <<49>>, <<116>>, <<84>>, <<84, 82, 85, 69>>, <<116, 114, 117, 101>>, <<84, 114, 117, 101>> }
StrFalse == { <<48>>, <<102>>, <<70>>, <<70, 65, 76, 83, 69>>, <<102, 97, 108, 115, 101>>, <<70, 97, 108, 115, 101>> }
FloatToStr(a) ==   \* strconv.FormatFloat(a, 'f', -1, 64) for halves and quarters
    LET sgn == IF a[2] < 0 THEN <<45>> ELSE <<>>
        ip == Digits(Abs(a[2]) \div a[3])
        r == Abs(a[2]) % a[3]
    IN CASE a[3] = 1 -> MkS(sgn \o ip)
         [] a[3] = 2 -> MkS(sgn \o ip \o <<46, 53>>)
         [] a[3] = 4 -> MkS(sgn \o ip \o (IF r = 1 THEN <<46, 50, 53>> ELSE <<46, 55, 53>>))
         [] a[3] = 8 -> MkS(sgn \o ip \o <<46>> \o Digits(r * 125))               \* .125 .375 .625 .875
         [] OTHER -> AnyOf("s")
DurToStr(ms) ==    \* influxql.FormatDuration: the largest unit that divides the value
    IF ms = 0 THEN <<48, 115>>
    ELSE IF ms % 604800000 = 0 THEN IntToStr(ms \div 604800000) \o <<119>>
    ELSE IF ms % 86400000 = 0 THEN IntToStr(ms \div 86400000) \o <<100>>
    ELSE IF ms % 3600000 = 0 THEN IntToStr(ms \div 3600000) \o <<104>>
    ELSE IF ms % 60000 = 0 THEN IntToStr(ms \div 60000) \o <<109>>
    ELSE IF ms % 1000 = 0 THEN IntToStr(ms \div 1000) \o <<115>>
    ELSE IntToStr(ms) \o <<109, 115>>

(* ---------------- the string grammars of the conversion functions (as HEAD has them) ---------------- *)
Lc(c) == IF c >= 65 /\ c <= 90 THEN c + 32 ELSE c
StripSign(s) == IF s # <<>> /\ s[1] \in {43, 45} THEN Tail(s) ELSE s
IsNeg(s) == s # <<>> /\ s[1] = 45
RECURSIVE StripZeros(_)
StripZeros(s) == IF Len(s) > 1 /\ s[1] = 48 THEN StripZeros(Tail(s)) ELSE s          \* keeps the last digit
RECURSIVE Pow(_, _)
Pow(b, k) == IF k = 0 THEN 1 ELSE b * Pow(b, k - 1)
MaxInt64Digits == <<57, 50, 50, 51, 51, 55, 50, 48, 51, 54, 56, 53, 52, 55, 55, 53, 56, 48, 55>>    \* 9223372036854775807
MinInt64Digits == <<57, 50, 50, 51, 51, 55, 50, 48, 51, 54, 56, 53, 52, 55, 55, 53, 56, 48, 56>>    \* 9223372036854775808
(* int(string) = strconv.ParseInt(s, 10, 64): an optional sign and decimal digits, nothing else - no base prefix  *)
(* (0x 0b 0o, a leading 0 is decimal), no underscores, no blanks, no exponent or fraction; out of int64 range is   *)
(* an error.  Numbers of more than 9 digits are outside the model's exact integers: some integer, not an error.   *)
ParseIntDec(s) ==
    LET d == StripSign(s) IN
    IF ~AllDigits(d) THEN Err
    ELSE LET z == StripZeros(d)  k == Len(z) IN
         IF k <= 9 THEN MkI(IF IsNeg(s) THEN -DigitsVal(z, 0) ELSE DigitsVal(z, 0))
         ELSE IF k > 19 \/ (k = 19 /\ SeqCmp(z, IF IsNeg(s) THEN MinInt64Digits ELSE MaxInt64Digits) > 0) THEN Err
         ELSE NonErr("i")
(* Underscores (strconv's underscoreOK): only between digits, or between a base prefix and a digit. *)
UnderscoreOK(s) ==
    LET r == StripSign(s)
        pre == Len(r) >= 2 /\ r[1] = 48 /\ Lc(r[2]) \in {98, 111, 120}
        hex == pre /\ Lc(r[2]) = 120
        b == IF pre THEN SubSeq(r, 3, Len(r)) ELSE r
        dig(c) == IsDigit(c) \/ (hex /\ Lc(c) >= 97 /\ Lc(c) <= 102)
    IN \A i \in DOMAIN b : b[i] = 95 =>
            /\ (IF i = 1 THEN pre ELSE dig(b[i - 1]))
            /\ i < Len(b) /\ dig(b[i + 1])
NotUnderscore(c) == c # 95
IsHexDigit(c) == IsDigit(c) \/ (Lc(c) >= 97 /\ Lc(c) <= 102)
RECURSIVE HexVal(_, _)
HexVal(s, acc) == IF s = <<>> THEN acc ELSE HexVal(Tail(s), acc * 16 + (IF IsDigit(s[1]) THEN s[1] - 48 ELSE Lc(s[1]) - 87))
SignF(neg, f) == IF neg THEN FNeg(f) ELSE f
(* mantissa "digits[.digits]" split at the first dot: <<ok, integer part, fraction part>> *)
SplitMant(m, isdig(_)) ==
    LET dots == { i \in DOMAIN m : m[i] = 46 }
        ip == IF dots = {} THEN m ELSE SubSeq(m, 1, Min(dots) - 1)
        fp == IF dots = {} THEN <<>> ELSE SubSeq(m, Min(dots) + 1, Len(m))
    IN <<Cardinality(dots) <= 1 /\ ip \o fp # <<>> /\ \A i \in DOMAIN (ip \o fp) : isdig((ip \o fp)[i]), ip, fp>>
(* exponent "[+-]digits": <<ok, value capped at +-99999>> *)
ExpVal(ex) == LET z == StripZeros(StripSign(ex)) IN
              IF Len(z) > 4 THEN (IF IsNeg(ex) THEN -99999 ELSE 99999)
              ELSE IF IsNeg(ex) THEN -DigitsVal(z, 0) ELSE DigitsVal(z, 0)
DecFloat(c, neg) ==           \* digits[.digits][(e|E)[+-]digits] | .digits[...]
    LET es == { i \in DOMAIN c : Lc(c[i]) = 101 }
        hasE == es # {}
        mant == IF hasE THEN SubSeq(c, 1, Min(es) - 1) ELSE c
        ex == IF hasE THEN SubSeq(c, Min(es) + 1, Len(c)) ELSE <<>>
        sm == SplitMant(mant, IsDigit)
    IN IF ~sm[1] \/ (hasE /\ ~IsSignedInt(ex)) THEN Err
       ELSE LET z == StripZeros(sm[2] \o sm[3])
                scale == (IF hasE THEN ExpVal(ex) ELSE 0) - Len(sm[3])
                mag == Len(z) + scale                      \* the value is in [10^(mag-1), 10^mag)
            IN IF z = <<48>> THEN MkZ(neg)
               ELSE IF mag > 309 THEN Err                   \* beyond the largest float64: an error (ErrRange)
               ELSE IF mag = 309 THEN AnyOf("f")
               ELSE IF Len(z) > 9 \/ mag > 9 \/ scale < -9 THEN NonErr("f")        \* (underflow gives 0 or a denormal, no error)
               ELSE IF scale >= 0 THEN SignF(neg, <<"f", DigitsVal(z, 0) * Pow(10, scale), 1>>)
               ELSE LET q == MkF(DigitsVal(z, 0), Pow(10, -scale)) IN
                    IF IsPow2(q[3]) THEN SignF(neg, q) ELSE NonErr("f")
HexFloat(h, neg) ==           \* after 0x: hexdigits[.hexdigits](p|P)[+-]digits, the exponent is mandatory
    LET ps == { i \in DOMAIN h : Lc(h[i]) = 112 }
        mant == IF ps = {} THEN h ELSE SubSeq(h, 1, Min(ps) - 1)
        ex == IF ps = {} THEN <<>> ELSE SubSeq(h, Min(ps) + 1, Len(h))
        sm == SplitMant(mant, IsHexDigit)
    IN IF ps = {} \/ ~sm[1] \/ ~IsSignedInt(ex) THEN Err
       ELSE LET z == StripZeros(sm[2] \o sm[3])
                shift == ExpVal(ex) - 4 * Len(sm[3])
                mag == 4 * Len(z) + shift                   \* the value is below 2^mag and at least 2^(mag-4)
            IN IF z = <<48>> THEN MkZ(neg)
               ELSE IF mag > 1028 THEN Err
               ELSE IF mag > 1020 THEN AnyOf("f")
               ELSE IF Len(z) > 6 \/ mag > 29 \/ shift < -29 THEN NonErr("f")
               ELSE IF shift >= 0 THEN SignF(neg, <<"f", HexVal(z, 0) * Pow(2, shift), 1>>)
               ELSE SignF(neg, MkF(HexVal(z, 0), Pow(2, -shift)))
(* float(string) = strconv.ParseFloat(s, 64): Go's floating-point literal syntax - decimal with optional fraction   *)
(* and exponent, hexadecimal with a mandatory p exponent, underscores between digits, [+-]inf/infinity and nan in   *)
(* any case; no blanks; a value beyond the float64 range is an error, underflow is not.                             *)
StrInf == { <<105, 110, 102>>, <<105, 110, 102, 105, 110, 105, 116, 121>> }
ParseFloatStr(s) ==
    LET r == StripSign(s) IN
    IF (<<>> \o Lower(r)) \in StrInf THEN MkInf(IsNeg(s))
    ELSE IF (<<>> \o Lower(s)) = <<110, 97, 110>> THEN NaN
    ELSE IF ~UnderscoreOK(s) THEN Err
    ELSE LET c == SelectSeq(r, NotUnderscore) IN
         IF Len(c) >= 2 /\ c[1] = 48 /\ Lc(c[2]) = 120 THEN HexFloat(SubSeq(c, 3, Len(c)), IsNeg(s))
         ELSE DecFloat(c, IsNeg(s))
(* duration(string, unit) = influxql.ParseDuration(s): [-] then one or more <decimal digits><unit> with the units  *)
(* ns u µ ms s m h d w, at least two characters, no blanks, no plus sign, no fraction; the unit argument is not    *)
(* used.  Result in ms: <<ok, ms>>, ms = -1 when a term is below a millisecond or beyond the model's integers.     *)
UnitMs(u) == CASE u = <<109, 115>> -> 1 [] u = <<115>> -> 1000 [] u = <<109>> -> 60000 [] u = <<104>> -> 3600000
               [] u = <<100>> -> 86400000 [] u = <<119>> -> 604800000 [] OTHER -> 0       \* ns, u, µ: below a ms
Small == 1073741824            \* the exact integers of the model (and of the driver's encoding) are below 2^30
RECURSIVE DurTerms(_, _, _, _)
DurTerms(s, acc, exact, first) ==   \* <<"ok" | "bad" (syntax) | "large" (one term beyond the model, no overflow) | "big" (may overflow), ms, exact>>
    IF s = <<>> THEN <<"ok", acc, exact>>
    ELSE LET nd == IF \E i \in DOMAIN s : ~IsDigit(s[i]) THEN Min({ i \in DOMAIN s : ~IsDigit(s[i]) }) - 1 ELSE Len(s)
             rest == SubSeq(s, nd + 1, Len(s))
             two == IF Len(rest) >= 2 THEN SubSeq(rest, 1, 2) ELSE <<>>
             u == IF two \in { <<109, 115>>, <<110, 115>>, <<194, 181>> } THEN two
                  ELSE IF rest # <<>> /\ rest[1] \in {117, 115, 109, 104, 100, 119} THEN <<rest[1]>> ELSE <<>>
             z == StripZeros(SubSeq(s, 1, nd))
             after == SubSeq(rest, Len(u) + 1, Len(rest))
         IN IF nd = 0 \/ u = <<>> THEN <<"bad", 0, FALSE>>
            ELSE IF Len(z) > 19 \/ (Len(z) = 19 /\ SeqCmp(z, MaxInt64Digits) > 0) THEN <<"bad", 0, FALSE>>     \* ParseInt of the digits fails
            ELSE IF Len(z) > 4 THEN (IF DurTerms(after, 0, FALSE, FALSE)[1] = "bad" THEN <<"bad", 0, FALSE>> ELSE <<"big", 0, FALSE>>)
            ELSE LET n == DigitsVal(z, 0)  ms == UnitMs(u) IN
                 IF ms # 0 /\ (n > (Small - 1) \div ms \/ acc + n * ms >= Small)
                 THEN (IF DurTerms(after, 0, FALSE, FALSE)[1] = "bad" THEN <<"bad", 0, FALSE>>
                       ELSE IF first /\ after = <<>> THEN <<"large", 0, FALSE>> ELSE <<"big", 0, FALSE>>)
                 ELSE DurTerms(after, acc + n * ms, exact /\ (ms # 0 \/ n = 0), FALSE)
ParseDurStr(s) ==
    LET b == IF IsNeg(s) THEN Tail(s) ELSE s
        t == DurTerms(b, 0, TRUE, TRUE)
    IN IF Len(s) < 2 \/ b = <<>> \/ t[1] = "bad" THEN Err
       ELSE IF t[1] = "big" THEN AnyOf("d")                   \* may overflow the int64 nanoseconds: an error then
       ELSE IF t[1] = "large" \/ ~t[3] THEN NonErr("d")
       ELSE MkD(IF IsNeg(s) THEN -t[2] ELSE t[2])

(* named regular expressions (regex engine semantics are out of scope; these decide typing/dispatch) *)
RegexNames == {"a", "^a", "b$", "^$", "1"}
RegexMatch(name, s) ==
    CASE name = "a" -> Contains(s, <<97>>)
      [] name = "1" -> Contains(s, <<49>>)
      [] name = "^a" -> HasPrefix(s, <<97>>)
      [] name = "b$" -> HasSuffix(s, <<98>>)
      [] name = "^$" -> s = <<>>

(* ---------------- the operator x type table ---------------- *)
Arith == {"+", "-", "*", "/", "%"}
EqOps == {"==", "!="}
OrdOps == {"<", "<=", ">", ">="}
Comp == EqOps \cup OrdOps \cup {"=~", "!~"}
Logic == {"AND", "OR"}
BinOps == Arith \cup Comp \cup Logic
NumT == {"i", "f"}
(* result type of  l op r, "inv" when the operator is not defined for the pair: no implicit  *)
(* int/float conversion in arithmetic; comparisons are defined between int and float.        *)
BinType(op, l, r) ==
    CASE op \in Logic -> IF l = "b" /\ r = "b" THEN "b" ELSE "inv"
      [] op \in EqOps -> IF (l \in NumT /\ r \in NumT) \/ (l = r /\ l \in {"s", "b", "d"}) THEN "b" ELSE "inv"
      [] op \in OrdOps -> IF (l \in NumT /\ r \in NumT) \/ (l = r /\ l \in {"s", "d"}) THEN "b" ELSE "inv"
      [] op \in {"=~", "!~"} -> IF l = "s" /\ r = "r" THEN "b" ELSE "inv"
      [] op = "+" -> IF l = r /\ l \in {"i", "f", "s", "d"} THEN l ELSE "inv"
      [] op = "-" -> IF l = r /\ l \in {"i", "f", "d"} THEN l ELSE "inv"
      [] op = "*" -> IF l = r /\ l \in NumT THEN l
                     ELSE IF (l = "d" /\ r \in NumT) \/ (l \in NumT /\ r = "d") THEN "d" ELSE "inv"
      [] op = "/" -> IF l = r /\ l \in NumT THEN l
                     ELSE IF l = "d" /\ r \in NumT THEN "d"
                     ELSE IF l = "d" /\ r = "d" THEN "i" ELSE "inv"
      [] op = "%" -> IF l = "i" /\ r = "i" THEN "i" ELSE "inv"

CmpHolds(op, c) ==
    CASE op = "==" -> c = 0 [] op = "!=" -> c # 0 [] op = "<" -> c < 0
      [] op = "<=" -> c <= 0 [] op = ">" -> c > 0 [] op = ">=" -> c >= 0

(* duration (ms) times/over a rational: decided when the result is a whole number of ms *)
FSmall(a, b) == Abs(a[2]) <= 23170 /\ a[3] <= 23170 /\ Abs(b[2]) <= 23170 /\ b[3] <= 23170
MulFits(a, b) == b = 0 \/ Abs(a) <= 1073741823 \div Abs(b)      \* the product stays inside the model's integers
DurScale(ms, n, d) ==
    IF d = 0 \/ ~MulFits(ms, n) THEN NonErr("d")
    ELSE LET x == IF d < 0 THEN -(ms * n) ELSE ms * n
             y == Abs(d)
         IN IF x % y = 0 THEN MkD(x \div y) ELSE NonErr("d")        \* not a whole number of ms: some duration

(* duration (ms) scaled by a float: time.Duration(float64(d) * f) / time.Duration(float64(d) / f); the conversion of NaN or an *)
(* infinity to int64 is not defined by Go: some duration, not an error                                                          *)
DurTimes(ms, f) == IF IsNaN(f) \/ IsInf(f) THEN NonErr("d") ELSE IF IsZero(f) THEN MkD(0) ELSE DurScale(ms, f[2], f[3])
DurOver(ms, f) == IF IsNaN(f) \/ IsZero(f) THEN NonErr("d") ELSE IF IsInf(f) THEN MkD(0) ELSE DurScale(ms, f[3], f[2])

(* a op b for two proper values (no error, not missing) *)
Bin(op, a, b) ==
    LET ta == Tag(a)
        tb == Tag(b)
        rt == BinType(op, ta, tb)
    IN IF rt = "inv" THEN Err
       ELSE IF IsAny(a) \/ IsAny(b) THEN AnyOf(rt)
       ELSE IF (IsBig(a) \/ IsBig(b)) /\ op \in Arith
            THEN (IF ta = "i" /\ tb = "i" THEN BigArith(op, a, b)
                  ELSE IF rt = "d" /\ op = "/" /\ tb = "i" /\ ~IsBig(b) /\ b[2] = 0 THEN Err ELSE NonErr(rt))
       ELSE IF ta = "f" /\ tb = "f" /\ op \in Arith /\ ~(ESmall(a) /\ ESmall(b)) THEN NonErr("f")     \* beyond the model's exact rationals
       ELSE CASE op \in Logic -> MkB(IF op = "AND" THEN a[2] /\ b[2] ELSE a[2] \/ b[2])
              [] op \in {"=~", "!~"} -> MkB(RegexMatch(b[2], a[2]) = (op = "=~"))
              [] op \in EqOps \cup OrdOps ->
                    IF ta \in NumT THEN MkB(ECmpHolds(op, a, b))
                    ELSE IF ta = "s" THEN MkB(CmpHolds(op, SeqCmp(a[2], b[2])))
                    ELSE IF ta = "d" THEN MkB(CmpHolds(op, IF a[2] < b[2] THEN -1 ELSE IF a[2] > b[2] THEN 1 ELSE 0))
                    ELSE MkB((a[2] = b[2]) = (op = "=="))
              [] op = "+" ->
                   (CASE ta = "i" -> MkI(a[2] + b[2])
                      [] ta = "f" -> EAdd(a, b)
                      [] ta = "s" -> MkS(a[2] \o b[2])
                      [] ta = "d" -> MkD(a[2] + b[2]))
              [] op = "-" ->
                   (CASE ta = "i" -> MkI(a[2] - b[2])
                      [] ta = "f" -> ESub(a, b)
                      [] ta = "d" -> MkD(a[2] - b[2]))
              [] op = "*" ->
                   (CASE ta = "i" /\ tb = "i" -> IF MulFits(a[2], b[2]) THEN MkI(a[2] * b[2]) ELSE AnyOf("i")
                      [] ta = "f" /\ tb = "f" -> EMul(a, b)
                      [] ta = "d" /\ tb = "i" -> IF MulFits(a[2], b[2]) THEN MkD(a[2] * b[2]) ELSE AnyOf("d")
                      [] ta = "i" /\ tb = "d" -> IF MulFits(a[2], b[2]) THEN MkD(a[2] * b[2]) ELSE AnyOf("d")
                      [] ta = "d" /\ tb = "f" -> DurTimes(a[2], b)
                      [] ta = "f" /\ tb = "d" -> DurTimes(b[2], a))
              [] op = "/" ->
                   (CASE ta = "i" /\ tb = "i" -> IF b[2] = 0 THEN Err ELSE MkI(TDiv(a[2], b[2]))
                      [] ta = "f" /\ tb = "f" -> EDiv(a, b)
                      [] ta = "d" /\ tb = "i" -> IF b[2] = 0 THEN Err
                                                 ELSE IF a[2] % Abs(b[2]) = 0 THEN MkD(TDiv(a[2], b[2])) ELSE NonErr("d")
                      [] ta = "d" /\ tb = "f" -> DurOver(a[2], b)
                      [] ta = "d" /\ tb = "d" -> IF b[2] = 0 THEN Err ELSE MkI(TDiv(a[2], b[2])))
              [] op = "%" -> IF b[2] = 0 THEN Err ELSE MkI(TMod(a[2], b[2]))

Un(op, v) ==
    IF IsErr(v) THEN Err
    ELSE IF op = "!" THEN (IF Tag(v) # "b" THEN Err ELSE IF IsAny(v) THEN v ELSE MkB(~v[2]))
    ELSE CASE Tag(v) \notin {"i", "f", "d"} -> Err
           [] IsAny(v) -> v
           [] v[1] = "i" -> MkI(-v[2])
           [] v[1] = "I" -> NegI(v)
           [] v[1] = "G" -> <<"G", Mirror[v[2]], -v[3]>>
           [] Tag(v) = "f" -> ENeg(v)
           [] v[1] = "d" -> MkD(-v[2])

(* ---------------- built-in functions ---------------- *)
(* state of the stateful functions of one expression instance (one group):                   *)
(*   c  = calls of count() so far, sp = <<>> or <<min, max>> of spread(), sg = arguments     *)
(*   sigma() has seen (its value is not decided by the model, only its dependence on sg).    *)
FS0 == [c |-> 0, sp |-> <<PInf, NInf>>, sg |-> <<>>]
StatefulFuncs == {"count", "spread", "sigma"}

ToInt(v) ==
    CASE IsAny(v) -> AnyOf("i")
      [] v[1] \in {"i", "I"} -> v
      [] v[1] = "G" -> IF v[2] = "p63" THEN NonErr("i") ELSE <<"I", v[2], v[3]>>       \* 2^63 is beyond int64: not defined by Go
      [] v[1] = "F" -> IF IsZero(v) THEN MkI(0) ELSE NonErr("i")     \* int64(NaN), int64(+-Inf) are not defined by Go: some int
      [] v[1] = "f" -> MkI(FTrunc(v))
      [] v[1] = "s" -> ParseIntDec(v[2])
      [] v[1] = "b" -> MkI(IF v[2] THEN 1 ELSE 0)
      [] v[1] = "d" -> IF v[2] = 0 THEN MkI(0) ELSE NonErr("i")       \* nanoseconds (beyond the model's integers)
      [] OTHER -> Err
ToFloat(v) ==
    CASE IsAny(v) -> AnyOf("f")
      [] v[1] \in {"i", "I"} -> IntToFloat(v)
      [] v[1] \in {"f", "F", "G"} -> v
      [] v[1] = "s" -> ParseFloatStr(v[2])
      [] v[1] = "b" -> <<"f", IF v[2] THEN 1 ELSE 0, 1>>
      [] OTHER -> Err
ToBool(v) ==
    CASE IsAny(v) -> AnyOf("b")
      [] v[1] = "b" -> v
      [] v[1] = "s" -> IF v[2] \in StrTrue THEN True ELSE IF v[2] \in StrFalse THEN False ELSE Err
      [] v[1] = "i" -> IF v[2] = 1 THEN True ELSE IF v[2] = 0 THEN False ELSE Err
      [] v[1] \in {"I", "G"} -> Err
      [] v[1] = "F" -> IF IsZero(v) THEN False ELSE Err                \* NaN and the infinities are neither 0 nor 1
      [] v[1] = "f" -> IF v = <<"f", 1, 1>> THEN True ELSE IF v[2] = 0 THEN False ELSE Err
      [] OTHER -> Err
ToStr(v) ==
    CASE IsAny(v) -> AnyOf("s")
      [] v[1] = "s" -> v
      [] v[1] = "i" -> MkS(IntToStr(v[2]))
      [] v[1] \in {"I", "G"} -> NonErr("s")                             \* (the decimal digits are not modelled)
      [] v[1] = "F" -> MkS(CASE v[2] = "nan" -> <<78, 97, 78>> [] v[2] = "+inf" -> <<43, 73, 110, 102>>
                             [] v[2] = "-inf" -> <<45, 73, 110, 102>> [] v[2] = "-0" -> <<45, 48>>)
      [] v[1] = "f" -> FloatToStr(v)
      [] v[1] = "b" -> MkS(IF v[2] THEN <<116, 114, 117, 101>> ELSE <<102, 97, 108, 115, 101>>)
      [] v[1] = "d" -> MkS(DurToStr(v[2]))
      [] OTHER -> Err

AllTags(a, tags) == Len(a) = Len(tags) /\ \A i \in DOMAIN a : Tag(a[i]) = tags[i]
SomeAny(a) == \E i \in DOMAIN a : IsAny(a[i])

(* A stateless function applied to argument values (Func.Call): what the function itself does with them.  Which   *)
(* argument types a call may have at all is a matter of its signature (SigType), checked by whoever types the call *)
(* first (Eval, EvalPredicate, an enclosing operator or call) - the functions themselves accept a little more:      *)
(* duration(1s, x) is 1s, duration("1s") parses, int(1s) gives nanoseconds, isPresent takes any value, count any     *)
(* arguments; that only shows in a typed call (EvalInt ..) made on a call node without asking Type first.            *)
Pure(name, a) ==
    CASE name = "int" -> IF Len(a) = 1 THEN ToInt(a[1]) ELSE Err
      [] name = "float" -> IF Len(a) = 1 THEN ToFloat(a[1]) ELSE Err
      [] name = "bool" -> IF Len(a) = 1 THEN ToBool(a[1]) ELSE Err
      [] name = "string" -> IF Len(a) = 1 THEN ToStr(a[1]) ELSE Err
      [] name = "duration" ->
            IF Len(a) \notin {1, 2} THEN Err
            ELSE IF IsAny(a[1]) THEN AnyOf("d")
            ELSE IF Tag(a[1]) = "d" THEN a[1]                                        \* whatever the second argument is
            ELSE IF Tag(a[1]) = "s" THEN ParseDurStr(a[1][2])                          \* a duration literal, the unit is not used
            ELSE IF Tag(a[1]) \notin {"i", "f"} \/ Len(a) # 2 \/ Tag(a[2]) # "d" THEN Err
            ELSE IF IsAny(a[2]) THEN AnyOf("d")
            ELSE IF IsBig(a[1]) THEN NonErr("d")
            ELSE IF Tag(a[1]) = "i" THEN (IF MulFits(a[1][2], a[2][2]) THEN MkD(a[1][2] * a[2][2]) ELSE NonErr("d"))
            ELSE DurTimes(a[2][2], a[1])
      [] name \in {"abs", "floor", "ceil", "trunc", "sqrt", "log"} ->
            IF ~AllTags(a, <<"f">>) THEN Err
            ELSE IF SomeAny(a) THEN AnyOf("f")
            ELSE IF ~ESmall(a[1]) THEN NonErr("f")
            ELSE (CASE name = "abs" -> EAbs(a[1])
                    [] name \in {"floor", "ceil", "trunc"} -> ERound(name, a[1])
                    [] name = "sqrt" -> ESqrt(a[1])
                    [] name = "log" -> ELog(a[1]))
      [] name \in {"min", "max", "mod"} ->
            IF ~AllTags(a, <<"f", "f">>) THEN Err
            ELSE IF SomeAny(a) THEN AnyOf("f")
            ELSE IF ~(ESmall(a[1]) /\ ESmall(a[2])) THEN NonErr("f")
            ELSE (CASE name = "min" -> EMin(a[1], a[2]) [] name = "max" -> EMax(a[1], a[2]) [] name = "mod" -> EMod(a[1], a[2]))
      [] name = "if" ->          \* strict in all three arguments; the branches must have the same type
            IF Len(a) # 3 \/ Tag(a[1]) # "b" \/ Tag(a[2]) # Tag(a[3]) THEN Err
            ELSE IF SomeAny(a) THEN AnyOf(Tag(a[2]))      \* (an undecided argument may also be an error)
            ELSE IF a[1][2] THEN a[2] ELSE a[3]
      [] name = "isPresent" -> IF Len(a) # 1 THEN Err ELSE IF IsAny(a[1]) THEN AnyOf("b") ELSE MkB(a[1] # MissingV)
      [] name = "strLength" -> IF ~AllTags(a, <<"s">>) THEN Err ELSE IF SomeAny(a) THEN AnyOf("i") ELSE MkI(Len(a[1][2]))
      [] name = "strSubstring" ->      \* str[start:stop]
            IF ~AllTags(a, <<"s", "i", "i">>) THEN Err
            ELSE IF SomeAny(a) THEN AnyOf("s")
            ELSE IF IsBig(a[2]) \/ IsBig(a[3]) THEN Err                    \* (no string is that long)
            ELSE IF 0 <= a[2][2] /\ a[2][2] <= a[3][2] /\ a[3][2] <= Len(a[1][2])
                 THEN MkS(SubSeq(a[1][2], a[2][2] + 1, a[3][2])) ELSE Err
      [] name \in {"strContains", "strHasPrefix", "strHasSuffix"} ->
            IF ~AllTags(a, <<"s", "s">>) THEN Err
            ELSE IF SomeAny(a) THEN AnyOf("b")
            ELSE MkB(CASE name = "strContains" -> Contains(a[1][2], a[2][2])
                       [] name = "strHasPrefix" -> HasPrefix(a[1][2], a[2][2])
                       [] name = "strHasSuffix" -> HasSuffix(a[1][2], a[2][2]))
      [] name \in {"strIndex", "strLastIndex"} ->
            IF ~AllTags(a, <<"s", "s">>) THEN Err
            ELSE IF SomeAny(a) THEN AnyOf("i")
            ELSE MkI(IF name = "strIndex" THEN StrIndex(a[1][2], a[2][2]) ELSE StrLastIndex(a[1][2], a[2][2]))
      [] name \in {"strToUpper", "strToLower"} ->
            IF ~AllTags(a, <<"s">>) THEN Err
            ELSE IF SomeAny(a) THEN AnyOf("s")
            ELSE IF ~Ascii(a[1][2]) THEN NonErr("s")                     \* Unicode case mapping is not modelled
            ELSE MkS(IF name = "strToUpper" THEN Upper(a[1][2]) ELSE Lower(a[1][2]))
      [] name \in {"strTrimPrefix", "strTrimSuffix"} ->
            IF ~AllTags(a, <<"s", "s">>) THEN Err
            ELSE IF SomeAny(a) THEN AnyOf("s")
            ELSE LET s == a[1][2]  p == a[2][2] IN
                 IF name = "strTrimPrefix" THEN (IF HasPrefix(s, p) THEN MkS(SubSeq(s, Len(p) + 1, Len(s))) ELSE a[1])
                 ELSE (IF HasSuffix(s, p) THEN MkS(SubSeq(s, 1, Len(s) - Len(p))) ELSE a[1])
      [] name \in {"strCount", "strIndexAny", "strLastIndexAny"} ->
            IF ~AllTags(a, <<"s", "s">>) THEN Err
            ELSE IF SomeAny(a) THEN AnyOf("i")
            ELSE IF (name = "strCount" /\ a[2][2] = <<>> /\ ~Ascii(a[1][2])) \/ (name # "strCount" /\ ~Ascii(a[2][2])) THEN NonErr("i")
            ELSE LET s == a[1][2]  p == a[2][2]  ps == AnyPositions(s, p) IN
                 MkI(CASE name = "strCount" -> StrCount(s, p)
                       [] name = "strIndexAny" -> IF ps = {} THEN -1 ELSE Min(ps) - 1
                       [] name = "strLastIndexAny" -> IF ps = {} THEN -1 ELSE Max(ps) - 1)
      [] name = "strContainsAny" ->
            IF ~AllTags(a, <<"s", "s">>) THEN Err
            ELSE IF SomeAny(a) THEN AnyOf("b") ELSE IF ~Ascii(a[2][2]) THEN NonErr("b") ELSE MkB(AnyPositions(a[1][2], a[2][2]) # {})
      [] name \in {"strTrim", "strTrimLeft", "strTrimRight"} ->
            IF ~AllTags(a, <<"s", "s">>) THEN Err
            ELSE IF SomeAny(a) THEN AnyOf("s")
            ELSE IF ~Ascii(a[2][2]) THEN NonErr("s")                     \* a non-ASCII character set is a set of runes
            ELSE MkS(CASE name = "strTrim" -> TrimR(TrimL(a[1][2], a[2][2]), a[2][2])
                       [] name = "strTrimLeft" -> TrimL(a[1][2], a[2][2])
                       [] name = "strTrimRight" -> TrimR(a[1][2], a[2][2]))
      [] name = "strTrimSpace" ->
            IF ~AllTags(a, <<"s">>) THEN Err ELSE IF SomeAny(a) THEN AnyOf("s")
            ELSE LET t == TrimR(TrimL(a[1][2], Spaces), Spaces) IN
                 IF t # <<>> /\ (t[1] >= 128 \/ t[Len(t)] >= 128) THEN NonErr("s") ELSE MkS(t)      \* (there are non-ASCII blanks)
      [] name = "strReplace" ->        \* strings.Replace(s, old, new, n): n < 0 = all
            IF ~AllTags(a, <<"s", "s", "s", "i">>) THEN Err
            ELSE IF SomeAny(a) THEN AnyOf("s")
            ELSE LET s == a[1][2]  old == a[2][2]  new == a[3][2]
                     n == IF IsBig(a[4]) \/ a[4][2] < 0 \/ a[4][2] > Len(s) + 1 THEN Len(s) + 1 ELSE a[4][2]
                 IN IF old = <<>> /\ ~Ascii(s) THEN NonErr("s")
                    ELSE IF old = <<>> THEN MkS(ReplEmpty(s, new, n, 1)) ELSE MkS(ReplN(s, old, new, n))
      [] name = "regexReplace" ->
            IF ~AllTags(a, <<"r", "s", "s">>) THEN Err
            ELSE IF SomeAny(a) THEN AnyOf("s")
            ELSE IF \E i \in DOMAIN a[3][2] : a[3][2][i] = 36 THEN NonErr("s")
            ELSE MkS(RegexReplaceAll(a[1][2], a[2][2], a[3][2]))
      [] name \in {"day", "month", "year", "weekday"} ->      \* model time 0 is Monday 2000-01-03 00:00 UTC
            IF ~AllTags(a, <<"t">>) THEN Err
            ELSE IF SomeAny(a) \/ a[1][2] \div 1440 > 27 THEN AnyOf("i")
            ELSE MkI(CASE name = "day" -> 3 + (a[1][2] \div 1440)
                       [] name = "month" -> 1
                       [] name = "year" -> 2000
                       [] name = "weekday" -> (1 + (a[1][2] \div 1440)) % 7)
      [] name \in {"minute", "hour"} ->
            IF ~AllTags(a, <<"t">>) THEN Err
            ELSE IF SomeAny(a) THEN AnyOf("i")
            ELSE MkI(IF name = "minute" THEN a[1][2] % 60 ELSE (a[1][2] \div 60) % 24)
      [] OTHER -> Err                         \* undefined function

(* call with the function state of the instance: <<value, state'>> *)
Call(name, a, fs) ==
    CASE name = "count" -> <<MkI(fs.c + 1), [fs EXCEPT !.c = @ + 1]>>                      \* (the function does not look at its arguments)
      [] name = "spread" ->      \* min starts at +Inf, max at -Inf; "if x < min" / "if x > max": a NaN argument changes neither; max - min
            IF ~AllTags(a, <<"f">>) THEN <<Err, fs>>
            ELSE IF IsAny(a[1]) \/ Len(fs.sp) = 1 \/ ~ESmall(a[1]) THEN <<AnyOf("f"), [fs EXCEPT !.sp = <<"?">>]>>
            ELSE LET x == a[1]
                     lo == IF ~IsNaN(x) /\ ECmp(x, fs.sp[1]) < 0 THEN x ELSE fs.sp[1]
                     hi == IF ~IsNaN(x) /\ ECmp(x, fs.sp[2]) > 0 THEN x ELSE fs.sp[2]
                 IN <<ESub(hi, lo), [fs EXCEPT !.sp = <<lo, hi>>]>>
      [] name = "sigma" ->       \* running mean/variance (Welford): 0 for the first value and while all values are equal; NaN from the
                                 \* second value on once a NaN or an infinity is in the history; else some float
            IF ~AllTags(a, <<"f">>) THEN <<Err, fs>>
            ELSE LET h == Append(fs.sg, a[1]) IN
                 <<IF \E i \in DOMAIN h : IsAny(h[i]) THEN AnyOf("f")
                   ELSE IF \E i \in DOMAIN h : h[i][1] = "G" THEN NonErr("f")
                   ELSE IF Len(h) = 1 THEN PZero
                   ELSE IF \E i \in DOMAIN h : IsNaN(h[i]) \/ IsInf(h[i]) THEN NaN
                   ELSE IF \A i \in DOMAIN h : ECmp(h[i], h[1]) = 0 THEN PZero
                   ELSE NonErr("f"), [fs EXCEPT !.sg = h]>>
      [] OTHER -> <<Pure(name, a), fs>>

(* ---------------- static typing ---------------- *)
(* Static typing as far as it is sound for every scope: the type every successful evaluation *)
(* of n has, "inv" when that depends on the scope.                                            *)
RECURSIVE ConstType(_)
ConstType(n) ==
    CASE n[1] = "L" -> Tag(n[2])
      [] n[1] = "U" -> IF n[2] = "!" THEN "b" ELSE ConstType(n[3])
      [] n[1] = "X" -> ConstType(n[2])
      [] n[1] = "B" -> IF n[2] \in Comp \cup Logic THEN "b"
                       ELSE LET l == ConstType(n[3])  r == ConstType(n[4]) IN
                            IF l = "inv" \/ r = "inv" THEN "inv" ELSE BinType(n[2], l, r)
      [] OTHER -> "inv"
(* n can never be evaluated successfully: it holds an operator applied to operands whose      *)
(* types are known and wrong.  Only such expressions may be refused at compile time.          *)
RECURSIVE MustErr(_)
MustErr(n) ==
    CASE n[1] \in {"L", "R"} -> FALSE
      [] n[1] = "U" -> MustErr(n[3]) \/ (LET t == ConstType(n[3]) IN
                           t # "inv" /\ (IF n[2] = "!" THEN t # "b" ELSE t \notin {"i", "f", "d"}))
      [] n[1] = "X" -> MustErr(n[2])
      [] n[1] = "B" -> MustErr(n[3]) \/ MustErr(n[4]) \/
                       (LET l == ConstType(n[3])  r == ConstType(n[4]) IN
                        l # "inv" /\ r # "inv" /\ BinType(n[2], l, r) = "inv")
      [] n[1] = "F" -> \E i \in DOMAIN n[3] : MustErr(n[3][i])

(* signature check of the modelled built-ins: result type or "err" *)
SigType(name, ts) ==
    LET one(S, t) == IF Len(ts) = 1 /\ ts[1] \in S THEN t ELSE "err" IN
    CASE name = "int" -> one({"b", "s", "i", "f"}, "i")
      [] name = "float" -> one({"b", "s", "i", "f"}, "f")
      [] name = "bool" -> one({"b", "s", "i", "f"}, "b")
      [] name = "string" -> one({"b", "s", "i", "f", "d"}, "s")
      [] name = "duration" -> IF ts = <<"d">> \/ (Len(ts) = 2 /\ ts[1] \in {"i", "f", "s"} /\ ts[2] = "d") THEN "d" ELSE "err"
      [] name \in {"abs", "floor", "ceil", "trunc", "sqrt", "log", "spread", "sigma"} -> IF ts = <<"f">> THEN "f" ELSE "err"
      [] name \in {"min", "max"} -> IF ts = <<"f", "f">> THEN "f" ELSE "err"
      [] name = "if" -> IF Len(ts) = 3 /\ ts[1] = "b" /\ ts[2] = ts[3] /\ ts[2] \in {"f", "i", "s", "b", "r", "t", "d"} THEN ts[2] ELSE "err"
      [] name = "isPresent" -> one({"m", "b", "s", "i", "f"}, "b")
      [] name = "strLength" -> IF ts = <<"s">> THEN "i" ELSE "err"
      [] name = "strSubstring" -> IF ts = <<"s", "i", "i">> THEN "s" ELSE "err"
      [] name \in {"strContains", "strHasPrefix", "strHasSuffix"} -> IF ts = <<"s", "s">> THEN "b" ELSE "err"
      [] name \in {"strIndex", "strLastIndex", "strCount", "strIndexAny", "strLastIndexAny"} -> IF ts = <<"s", "s">> THEN "i" ELSE "err"
      [] name = "strContainsAny" -> IF ts = <<"s", "s">> THEN "b" ELSE "err"
      [] name \in {"strTrim", "strTrimLeft", "strTrimRight"} -> IF ts = <<"s", "s">> THEN "s" ELSE "err"
      [] name = "strTrimSpace" -> IF ts = <<"s">> THEN "s" ELSE "err"
      [] name = "strReplace" -> IF ts = <<"s", "s", "s", "i">> THEN "s" ELSE "err"
      [] name = "regexReplace" -> IF ts = <<"r", "s", "s">> THEN "s" ELSE "err"
      [] name = "mod" -> IF ts = <<"f", "f">> THEN "f" ELSE "err"
      [] name \in {"day", "month", "year", "weekday"} -> IF ts = <<"t">> THEN "i" ELSE "err"
      [] name \in {"strToUpper", "strToLower"} -> IF ts = <<"s">> THEN "s" ELSE "err"
      [] name \in {"strTrimPrefix", "strTrimSuffix"} -> IF ts = <<"s", "s">> THEN "s" ELSE "err"
      [] name \in {"minute", "hour"} -> IF ts = <<"t">> THEN "i" ELSE "err"
      [] name = "count" -> IF ts = <<>> THEN "i" ELSE "err"
      [] OTHER -> "err"



(* Type(scope): the type of n under the types the scope gives its references, "err" when an     *)
(* operator or a call is applied to types it is not defined for.  Comparison and logical nodes  *)
(* are boolean whatever their operands are (those are checked when the node is evaluated).      *)
RECURSIVE NType(_, _)
NType(n, sc) ==
    CASE n[1] = "L" -> Tag(n[2])
      [] n[1] = "R" -> IF n[2] \in DOMAIN sc THEN Tag(sc[n[2]]) ELSE "err"
      [] n[1] = "X" -> IF ConstType(n) # "inv" THEN ConstType(n) ELSE NType(n[2], sc)
      [] n[1] = "U" -> IF ConstType(n) # "inv" THEN ConstType(n) ELSE NType(n[3], sc)
      [] n[1] = "B" -> IF ConstType(n) # "inv" THEN ConstType(n)
                       ELSE LET l == NType(n[3], sc) IN
                            IF l = "err" THEN "err"
                            ELSE LET rr == NType(n[4], sc) IN
                                 IF rr = "err" \/ BinType(n[2], l, rr) = "inv" THEN "err" ELSE BinType(n[2], l, rr)
      [] n[1] = "F" -> LET ts == [i \in DOMAIN n[3] |-> NType(n[3][i], sc)] IN
                       IF \E i \in DOMAIN ts : ts[i] = "err" THEN "err" ELSE SigType(n[2], <<>> \o ts)

(* ---------------- evaluation ---------------- *)
Lookup(sc, name) == IF name \in DOMAIN sc THEN sc[name] ELSE Err
(* value of a reference used as an operand: a missing or undefined name is an error *)
RefVal(sc, name) == LET v == Lookup(sc, name) IN IF v = MissingV THEN Err ELSE v

(* The order of evaluation is part of the semantics (it is observable through the stateful functions):     *)
(*  - a binary operator first checks the types of BOTH operands (no evaluation) and is an error for the    *)
(*    point when the operator is not defined for them (also when the left operand would have decided an    *)
(*    AND/OR); then the LEFT operand is evaluated, then - unless the left one was an error or decides an   *)
(*    AND/OR - the RIGHT one: for every operator and every pair of operand types;                          *)
(*  - a unary operator and a nested lambda check their type before evaluating their operand; a typed call  *)
(*    (EvalInt ..) on them for another type is an error without evaluating anything;                       *)
(*  - the arguments of a call are typed and evaluated one after the other from the left (a missing         *)
(*    reference is passed on as the missing value), the first error ends the call; then the function runs. *)
(* The function state st maps a bucket (<<>> = the expression itself, or path \o <<0>> for a nested lambda *)
(* at path) to the state of its stateful functions.  Eval returns <<value, st'>>; on an error st' holds    *)
(* exactly the effects of the calls made before the error was met.  want = the type a typed API call asks  *)
(* of the root ("*" = whatever it has).                                                                    *)
RECURSIVE Eval(_, _, _, _, _, _), EvalArgs(_, _, _, _, _, _, _)
Eval(n, p, sc, st, bk, want) ==
    CASE n[1] = "L" -> <<n[2], st>>
      [] n[1] = "R" -> <<RefVal(sc, n[2]), st>>
      [] n[1] \in {"U", "X"} ->
            LET t == NType(n, sc) IN
            IF t = "err" \/ (want # "*" /\ t # want) THEN <<Err, st>>
            ELSE IF n[1] = "U" /\ n[2] = "-" /\ t \notin {"i", "f", "d"} THEN <<Err, st>>     \* minus over another type: nothing is evaluated
            ELSE IF n[1] = "X" /\ t = "t" THEN <<Err, st>>                                 \* a nested lambda cannot yield a time
            ELSE IF n[1] = "X" THEN Eval(n[2], p \o <<1>>, sc, st, p \o <<0>>, "*")     \* its own bucket of function state
            ELSE LET r == Eval(n[3], p \o <<1>>, sc, st, bk, "*") IN <<Un(n[2], r[1]), r[2]>>
      [] n[1] = "B" ->
            LET lt == NType(n[3], sc)
                rt == NType(n[4], sc)
            IN IF lt = "err" \/ rt = "err" \/ BinType(n[2], lt, rt) = "inv" THEN <<Err, st>>
               ELSE LET l == Eval(n[3], p \o <<1>>, sc, st, bk, "*") IN
                    IF IsErr(l[1]) THEN l
                    ELSE IF n[2] \in Logic /\ Tag(l[1]) # "b" THEN <<Err, l[2]>>
                    ELSE IF n[2] \in Logic /\ IsAny(l[1])                   \* undecided left operand: it may or may not short-circuit
                         THEN <<AnyOf("b"), Eval(n[4], p \o <<2>>, sc, l[2], bk, "*")[2]>>
                    ELSE IF n[2] = "AND" /\ l[1] = False THEN l              \* short circuit: the right side is not evaluated
                    ELSE IF n[2] = "OR" /\ l[1] = True THEN l
                    ELSE LET r == Eval(n[4], p \o <<2>>, sc, l[2], bk, "*") IN
                         IF IsErr(r[1]) THEN r ELSE <<Bin(n[2], l[1], r[1]), r[2]>>
      [] n[1] = "F" ->
            LET a == EvalArgs(n[3], 1, p, sc, st, bk, <<>>) IN
            IF ~a.ok THEN <<Err, a.st>>
            ELSE LET c == Call(n[2], a.vs, a.st[bk]) IN <<c[1], [a.st EXCEPT ![bk] = c[2]]>>
EvalArgs(args, i, p, sc, st, bk, acc) ==
    IF i > Len(args) THEN [ok |-> TRUE, vs |-> acc, st |-> st]
    ELSE LET t == NType(args[i], sc) IN
         IF t \in {"err", "inv"} THEN [ok |-> FALSE, vs |-> acc, st |-> st]
         ELSE IF t = "m" THEN EvalArgs(args, i + 1, p, sc, st, bk, Append(acc, MissingV))
         ELSE LET r == Eval(args[i], p \o <<i>>, sc, st, bk, "*") IN
              IF IsErr(r[1]) THEN [ok |-> FALSE, vs |-> acc, st |-> r[2]]
              ELSE EvalArgs(args, i + 1, p, sc, r[2], bk, Append(acc, r[1]))

(* The same evaluation but not stopping at errors and without short circuit: the most calls of     *)
(* stateful functions an evaluation of n can make.  Nothing is promised about the function state   *)
(* after a point that was reported as an error beyond: every function was called at most as often  *)
(* as here (ErrStateOK).                                                                            *)
RECURSIVE EvalAll(_, _, _, _, _), EvalAllArgs(_, _, _, _, _, _, _)
EvalAll(n, p, sc, st, bk) ==
    CASE n[1] = "L" -> <<n[2], st>>
      [] n[1] = "R" -> <<RefVal(sc, n[2]), st>>
      [] n[1] = "U" -> LET r == EvalAll(n[3], p \o <<1>>, sc, st, bk) IN <<Un(n[2], r[1]), r[2]>>
      [] n[1] = "X" -> EvalAll(n[2], p \o <<1>>, sc, st, p \o <<0>>)
      [] n[1] = "B" ->
            LET l == EvalAll(n[3], p \o <<1>>, sc, st, bk)
                r == EvalAll(n[4], p \o <<2>>, sc, l[2], bk)
            IN <<IF IsErr(l[1]) \/ IsErr(r[1]) THEN Err ELSE Bin(n[2], l[1], r[1]), r[2]>>
      [] n[1] = "F" ->
            LET a == EvalAllArgs(n[3], 1, p, sc, st, bk, <<>>) IN
            IF n[2] = "isPresent" THEN <<AnyOf("b"), a.st>>
            ELSE IF \E i \in DOMAIN a.vs : IsErr(a.vs[i]) THEN <<Err, a.st>>
            ELSE LET c == Call(n[2], a.vs, a.st[bk]) IN <<c[1], [a.st EXCEPT ![bk] = c[2]]>>
EvalAllArgs(args, i, p, sc, st, bk, acc) ==
    IF i > Len(args) THEN [vs |-> acc, st |-> st]
    ELSE LET r == EvalAll(args[i], p \o <<i>>, sc, st, bk) IN
         EvalAllArgs(args, i + 1, p, sc, r[2], bk, Append(acc, r[1]))
FSBetween(pre, max, got) ==
    /\ got.c >= pre.c /\ got.c <= max.c
    /\ got.sp \in {pre.sp, max.sp}
    /\ got.sg \in {pre.sg, max.sg}
ErrStateOK(pre, max, got) == \A b \in DOMAIN pre : FSBetween(pre[b], max[b], got[b])
(* the set of such states (for the trace specification) *)
ErrStates(pre, max) ==
    LET per(b) == { [c |-> c, sp |-> sp, sg |-> sg] : c \in pre[b].c..max[b].c, sp \in {pre[b].sp, max[b].sp}, sg \in {pre[b].sg, max[b].sg} }
        ch == { b \in DOMAIN pre : pre[b] # max[b] }           \* only the buckets the evaluation could touch vary
    IN IF ch = {} THEN {pre}
       ELSE { [b \in DOMAIN pre |-> IF b \in ch THEN g[b] ELSE pre[b]] :
                g \in { h \in [ch -> UNION { per(b) : b \in ch }] : \A b \in ch : h[b] \in per(b) } }

(* buckets of function state an AST needs: <<>> for the expression, path \o <<0>> for a nested lambda at path *)
RECURSIVE LambdaPaths(_, _)
LambdaPaths(n, p) ==
    CASE n[1] \in {"L", "R"} -> {}
      [] n[1] = "U" -> LambdaPaths(n[3], p \o <<1>>)
      [] n[1] = "X" -> {p \o <<0>>} \cup LambdaPaths(n[2], p \o <<1>>)
      [] n[1] = "B" -> LambdaPaths(n[3], p \o <<1>>) \cup LambdaPaths(n[4], p \o <<2>>)
      [] n[1] = "F" -> UNION { LambdaPaths(n[3][i], p \o <<i>>) : i \in DOMAIN n[3] }
St0(ast) == [b \in {<<>>} \cup LambdaPaths(ast, <<>>) |-> FS0]

RECURSIVE HasStateful(_)
HasStateful(n) ==
    CASE n[1] \in {"L", "R"} -> FALSE
      [] n[1] = "U" -> HasStateful(n[3])
      [] n[1] = "X" -> HasStateful(n[2])
      [] n[1] = "B" -> HasStateful(n[3]) \/ HasStateful(n[4])
      [] n[1] = "F" -> n[2] \in StatefulFuncs \/ \E i \in DOMAIN n[3] : HasStateful(n[3][i])
RECURSIVE RefNames(_)
RefNames(n) ==
    CASE n[1] = "L" -> {}
      [] n[1] = "R" -> {n[2]}
      [] n[1] = "U" -> RefNames(n[3])
      [] n[1] = "X" -> RefNames(n[2])
      [] n[1] = "B" -> RefNames(n[3]) \cup RefNames(n[4])
      [] n[1] = "F" -> UNION { RefNames(n[3][i]) : i \in DOMAIN n[3] }

(* ---------------- what the API calls must return ---------------- *)
(* One API call on an expression instance whose function state is st: <<outcome, st'>>.                      *)
(* mode: "E" Eval | "T" Type | "I","F","S","B","D" typed Eval | "P" EvalPredicate.                            *)
(* outcome: a value, Err, or for Type <<"T", type>>.  Eval and EvalPredicate type the whole expression first  *)
(* (an ill-typed expression is an error before anything is evaluated); Eval cannot return a time, a regex or  *)
(* the missing value; the typed calls evaluate without asking Type and are an error when the value has        *)
(* another type (operators and calls have been evaluated by then, unary/lambda/reference/literal roots not).   *)
ModeTag == [I |-> "i", F |-> "f", S |-> "s", B |-> "b", D |-> "d", P |-> "b"]
RefApi(mode, ast, sc, st) ==
    LET t == NType(ast, sc) IN
    IF mode = "T" THEN <<IF t = "err" THEN Err ELSE <<"T", t>>, st>>
    ELSE IF mode \in {"E", "P"} /\ (t = "err" \/ (mode = "E" /\ t \notin {"i", "f", "s", "b", "d"})) THEN <<Err, st>>
    ELSE LET want == IF mode = "E" THEN t ELSE ModeTag[mode]
             r == Eval(ast, <<>>, sc, st, <<>>, want)
         IN IF ~IsErr(r[1]) /\ Tag(r[1]) # want THEN <<Err, r[2]>> ELSE r
(* does the logged outcome `got` (a value, <<"E", class>> or <<"T", tag>>) agree with the reference outcome o? *)
OutcomeAgrees(got, o) ==
    IF IsErr(o) THEN IsErr(got)
    ELSE IF o[1] = "T" THEN got[1] = "T" /\ got = o
    ELSE IF o[1] = "!" THEN ~IsErr(got) /\ got[1] # "T" /\ Tag(got) = o[2]      \* some value of the type, not an error
    ELSE IF o[1] = "?" THEN IsErr(got) \/ (got[1] # "T" /\ Tag(got) = o[2])     \* some value of the type, or an error
    ELSE got[1] = o[1] /\ got = o
=============================================================================
