------------------------------ MODULE LambdaMC ------------------------------
(* Model-checking instances of Lambda: the explored expressions and scope values.            *)
EXTENDS Lambda

Ra == <<"R", "a">>
Rb == <<"R", "b">>
LI == <<"L", <<"i", 1>>>>
LF == <<"L", <<"f", 1, 1>>>>
LB == <<"L", <<"b", TRUE>>>>
LS == <<"L", <<"s", <<97>>>>>>
LD == <<"L", <<"d", 1000>>>>
LR == <<"L", <<"r", "a">>>>
Cnt == <<"F", "count", <<>>>>

(* one or two operators per family *)
OpsQ == {"+", "*", "/", "<", "==", "AND", "=~"}
OpsT == {"+", "-", "*", "/", "%", "<", "==", "!=", "AND", "OR", "=~"}
Un1(L) == { <<"U", o, l>> : o \in {"-", "!"}, l \in L }
Bin1(O, L, R) == { <<"B", o, l, r>> : o \in O, l \in L, r \in R }
Fun1(F, L) == { <<"F", f, <<l>>>> : f \in F, l \in L }

LeavesQ == {Ra, Rb, LI, LF}
LeavesT == {Ra, Rb, LI, LF, LB, LS, LD, LR}
FunsQ == {"int", "float", "abs", "isPresent", "spread"}
FunsT == {"int", "float", "bool", "string", "abs", "isPresent", "strLength", "spread", "sigma"}

(* every AST of depth <= 1 over the leaves and operators, plus the zero-argument count() as a left operand *)
D1(O, L, F) == L \cup Un1(L) \cup Bin1(O, L, L) \cup Bin1(O, {Cnt}, {Rb, LI}) \cup Fun1(F, L) \cup {Cnt}
(* depth 2: an operator/function over one depth-1 node (either side) and a leaf, unary over it, if() over a       *)
(* condition, nested lambdas (a lambda variable used inside a lambda) over stateful expressions                   *)
D2(O, Inner, L) ==
    Bin1(O, Inner, L) \cup Bin1(O, L, Inner) \cup Un1(Inner) \cup Fun1({"abs", "int", "isPresent"}, Inner)
    \cup { <<"F", "if", <<c, x, y>>>> : c \in {Ra, <<"B", "<", Ra, LI>>}, x \in {Rb, Cnt}, y \in {LI, LF} }
    \cup { <<"B", o, <<"X", <<"B", "<", Cnt, LI>>>>, r>> : o \in {"AND", "OR", "=="}, r \in {Ra, LB} }
    \cup { <<"X", <<"B", "+", Cnt, Ra>>>> }
InnerQ == Bin1({"+", "*", "<"}, {Ra}, {Rb}) \cup Bin1({"*"}, {Cnt}, {Rb})
          \cup { <<"U", "-", Ra>>, <<"U", "!", Ra>>, <<"F", "spread", <<Ra>>>> }
InnerT == Bin1({"+", "-", "*", "/", "%", "<", "==", "AND", "OR"}, {Ra, Cnt}, {Rb})
          \cup { <<"U", "-", Ra>>, <<"U", "!", Ra>>, <<"F", "spread", <<Ra>>>>, <<"F", "float", <<Ra>>>> }

(* quick: one operand order per operator, and a hand-picked set of depth-2 shapes (two caches, cache under a   *)
(* unary/call/comparison, stateful operand, static node over a mistyped operand, nested lambda)                  *)
D1Quick == LeavesQ \cup Un1(LeavesQ) \cup Bin1(OpsQ, {Ra}, {Rb, LI, LF}) \cup Bin1(OpsQ, {LI, LF}, {Rb})
           \cup Bin1({"*", "<"}, {Cnt}, {Rb}) \cup Fun1(FunsQ, LeavesQ) \cup {Cnt}
AplusB == <<"B", "+", Ra, Rb>>
AtimesB == <<"B", "*", Ra, Rb>>
XCnt == <<"X", <<"B", "<", Cnt, LI>>>>
(* a nested lambda under unary operators, as a call argument, inside if(), on either side of an operator, two deep *)
XI == <<"X", Cnt>>
LambdaPositions == { <<"U", "!", XCnt>>, <<"U", "-", XI>>, <<"B", "+", <<"U", "-", XI>>, Ra>>, <<"F", "int", <<XI>>>>, <<"F", "if", <<XCnt, LI, LI>>>>,
                     <<"F", "if", <<Ra, XI, LI>>>>, <<"X", XI>>, <<"X", <<"B", "+", XI, Cnt>>>>, <<"B", "*", XI, LI>>, <<"B", "<", LI, XI>>, <<"B", "AND", XCnt, XCnt>> }
(* evaluation order: an operand that fails when it holds the first count() of the expression, a counting operand on the other side *)
FirstFails == <<"B", "/", LI, <<"B", "-", Cnt, LI>>>>
OrderASTs == { <<"B", "*", FirstFails, <<"F", "duration", <<Cnt, LD>>>>>>, <<"B", "*", <<"F", "duration", <<Cnt, LD>>>>, FirstFails>>, <<"B", "+", FirstFails, Cnt>>, <<"B", "<", FirstFails, Cnt>>, <<"B", "*", Cnt, FirstFails>>, <<"B", "*", <<"B", "+", Cnt, LI>>, Cnt>>,
               <<"F", "if", <<<<"B", "<", FirstFails, LI>>, Cnt, LI>>>> }
D2Quick == { <<"B", "+", AplusB, Rb>>, <<"B", "<", AtimesB, LI>>, <<"U", "-", AtimesB>>, <<"F", "int", <<AplusB>>>>,
             <<"B", "+", <<"B", "*", Cnt, Rb>>, LI>>, <<"B", "AND", <<"U", "!", Ra>>, Rb>>, <<"B", "AND", <<"U", "!", Ra>>, LB>>,
             <<"B", "AND", XCnt, Ra>>, <<"B", "==", XCnt, LB>>, <<"X", <<"B", "+", Cnt, Ra>>>>,
             <<"F", "if", <<Ra, Cnt, LI>>>>,
             <<"B", "AND", Ra, <<"B", "<", Cnt, LI>>>>, <<"B", "OR", Ra, <<"B", "<", Cnt, LI>>>> }     \* short circuit over a stateful operand
MCASTsQuick == D1Quick \cup D2Quick \cup LambdaPositions \cup OrderASTs
(* thorough: every depth <= 1 AST over the reduced operator set, and every depth-2 AST built from an inner     *)
(* binary/unary node over the references and an outer operator, unary, call, if() or nested lambda              *)
D2Thorough == D2({"+", "<", "AND"}, Bin1({"+", "*", "/", "<"}, {Ra}, {Rb}) \cup Bin1({"*", "<"}, {Cnt}, {Rb})
                                    \cup { <<"U", "!", Ra>>, <<"U", "-", Ra>>, <<"F", "float", <<Ra>>>> }, {Rb, LI})
MCASTsThorough == D1(OpsQ, LeavesQ, FunsQ) \cup D2Thorough \cup D2Quick \cup LambdaPositions \cup OrderASTs
(* the widest sets (not registered: hours) *)
MCASTsWide == D1(OpsT, LeavesT, FunsT) \cup D2(OpsT, InnerT, {Rb, LI, LF, LB, LD})

VI0 == <<"i", 0>>
VI2 == <<"i", 2>>
VF2 == <<"f", 2, 1>>
VFh == <<"f", 1, 2>>
VSa == <<"s", <<97>>>>
VBt == <<"b", TRUE>>
VBf == <<"b", FALSE>>
VD == <<"d", 1000>>
VM == <<"m">>
MCValsQuick == {VI2, VF2, VBt, VBf, VD, VM}
MCValsMid == {VI2, VF2, VSa, VBt, VBf, VD, VM}
MCValsThorough == {VI0, VI2, VF2, VFh, VSa, VBt, VBf, VD, VM, <<"t", 61>>}
=============================================================================
