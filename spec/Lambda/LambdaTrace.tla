---------------------------- MODULE LambdaTrace ----------------------------
(* Trace specification for C04: TLC re-evaluates every API call the driver c04 made on real    *)
(* stateful.Expression values with the reference semantics of LambdaRef and checks that the     *)
(* outcome is the reference outcome and does not depend on the history of the compiled node.    *)
(*                                                                                               *)
(* One NDJSON line = one expression:                                                             *)
(*   x    the AST (LambdaRef encoding)                                                            *)
(*   sc   table of inputs: {"v": scope} (name -> value, evaluated through the Scope API) or       *)
(*        {"f": fields, "g": tags, "t": minutes} (a point, evaluated through EvalPredicate)        *)
(*   nocompile present iff stateful.NewExpression refused the expression                               *)
(*   runs each run is a sequence of calls on ONE freshly compiled expression and its CopyReset    *)
(*        copies: <<k, mode, copy, outcome>>, k indexes sc, mode "E" Eval | "T" Type |            *)
(*        "I" "F" "S" "B" "D" EvalInt.. | "P" EvalPredicate | "Z" Reset(), outcome = value |      *)
(*        <<"E", class>> | <<"T", type>>                                                          *)
EXTENDS LambdaRef, TraceCommon

VARIABLE l
CopyIds == 0..2

NormOut(o) == IF o[1] = "E" THEN <<"E">> ELSE o

(* fillScope of expr.go: every referenced name is bound to the field, else the tag, else missing; *)
(* "time" is the point time; a name that is both a field and a tag is an error                     *)
Fill(refs, e) ==
    IF \E n \in refs \ {"time"} : n \in DOMAIN e.f /\ n \in DOMAIN e.g THEN [ok |-> FALSE, sc |-> <<>>]
    ELSE [ok |-> TRUE,
          sc |-> [n \in refs |-> IF n = "time" THEN <<"t", e.t>>
                                 ELSE IF n \in DOMAIN e.f THEN e.f[n]
                                 ELSE IF n \in DOMAIN e.g THEN e.g[n] ELSE MissingV]]
ScopeOf(ast, e) == IF "v" \in DOMAIN e THEN [ok |-> TRUE, sc |-> e.v] ELSE Fill(RefNames(ast), e)

(* ---- expressions without stateful functions: the outcome is a function of (input, mode) ---- *)
ApiModes == {"E", "T", "I", "F", "S", "B", "D", "P"}
StepOKPure(s, scs, base) ==
    \/ s[2] = "Z"
    \/ IF ~scs[s[1]].ok THEN IsErr(s[4]) ELSE OutcomeAgrees(s[4], base[s[1]][s[2]])
(* first step (1-based) of the run that the reference semantics cannot explain, 0 if none *)
FirstBadPure(run, scs, base) ==      \* no recursion: runs of this kind are long
    LET B == { i \in DOMAIN run : ~StepOKPure(run[i], scs, base) } IN
    IF B = {} THEN 0 ELSE CHOOSE i \in B : \A j \in B : i <= j

(* ---- expressions with stateful functions: follow the function state of every copy ---- *)
(* The copies are independent in the reference semantics, so the function states that can explain the  *)
(* observations so far are tracked per copy: cands[cp] is a set of states.  StepSet gives the states of  *)
(* the addressed copy after a step (empty: the step cannot be explained).  The reference semantics fixes  *)
(* the state after every call, also after an error; only an undecided outcome <<"?", t>> (which may hide  *)
(* an error) leaves a range of states.                                                                    *)
StepSet(ast, scs, s, S) ==
    LET k == s[1]  mode == s[2]  got == s[4] IN
    IF mode = "Z" THEN {St0(ast)}
    ELSE IF ~scs[k].ok THEN (IF IsErr(got) THEN S ELSE {})
    ELSE LET after(c) == LET r == RefApi(mode, ast, scs[k].sc, c) IN
                         IF ~OutcomeAgrees(got, r[1]) THEN {}
                         ELSE IF r[1][1] = "?" THEN ErrStates(c, EvalAll(ast, <<>>, scs[k].sc, c, <<>>)[2]) \cup {r[2]}
                         ELSE {r[2]}
         IN UNION { after(c) : c \in S }
RECURSIVE FirstBadStateful(_, _, _, _, _)
FirstBadStateful(ast, scs, run, i, cands) ==
    IF i > Len(run) THEN 0
    ELSE LET cp == run[i][3]
             nxt == StepSet(ast, scs, run[i], cands[cp])
         IN IF nxt = {} THEN i ELSE FirstBadStateful(ast, scs, run, i + 1, [cands EXCEPT ![cp] = nxt])

(* ---- history independence as such: equal own histories give equal outcomes ---- *)
(* own history of step i: the calls made on the same copy since the run began or the copy was Reset *)
RECURSIVE OwnHist(_, _, _, _)
OwnHist(run, i, cp, acc) ==
    IF i = 0 \/ (run[i][3] = cp /\ run[i][2] = "Z") THEN acc
    ELSE OwnHist(run, i - 1, cp, IF run[i][3] = cp THEN <<<<run[i][1], run[i][2]>>>> \o acc ELSE acc)
Functional(S) == Cardinality(S) = Cardinality({ p[1] : p \in S })
HistoryIndependent(runs, stateful) ==
    LET obs == UNION { { <<IF stateful THEN OwnHist(runs[r], i, runs[r][i][3], <<>>) ELSE <<runs[r][i][1], runs[r][i][2]>>,
                           NormOut(runs[r][i][4])>> : i \in { j \in DOMAIN runs[r] : runs[r][j][2] # "Z" } } : r \in DOMAIN runs }
    IN Functional(obs)

(* TLC re-evaluates a LET definition at every use when it depends on the state: the tables of a line are bound *)
(* once as values through a quantifier over a singleton set instead.                                         *)
LineOK(ln, lineNo) ==
    LET ast == ln.x IN
    IF "nocompile" \in DOMAIN ln
    THEN IF MustErr(ast) THEN TRUE     \* (no disjunction here: TLC would evaluate both disjuncts of an action)
         ELSE PrintT(<<"C04-REJECT", "line", lineNo, "compile error for an expression that can be evaluated">>) /\ FALSE
    ELSE \E stateful \in {HasStateful(ast)} :
         \E scs \in {<<>> \o [k \in DOMAIN ln.sc |-> ScopeOf(ast, ln.sc[k])]} :
         \E base \in {IF stateful THEN <<>>
                       ELSE <<>> \o [k \in DOMAIN ln.sc |->
                                     IF scs[k].ok THEN [m \in ApiModes |-> RefApi(m, ast, scs[k].sc, St0(ast))[1]] ELSE [m \in ApiModes |-> Err]]} :
         LET c0 == [cp \in CopyIds |-> {St0(ast)}]
             bad(r) == IF stateful THEN FirstBadStateful(ast, scs, ln.runs[r], 1, c0)
                       ELSE FirstBadPure(ln.runs[r], scs, base)
             opaque == stateful \/ \E k \in DOMAIN base : \E m \in ApiModes : IsAny(base[k][m])
         IN \E badRuns \in {{ r \in DOMAIN ln.runs : bad(r) # 0 }} :
            IF badRuns # {}
            THEN LET r == CHOOSE x \in badRuns : \A y \in badRuns : x <= y
                     i == bad(r)
                 IN PrintT(<<"C04-REJECT", "line", lineNo, "run", r, "step", i, ln.runs[r][i], "input", ln.sc[ln.runs[r][i][1]]>>) /\ FALSE
            ELSE IF opaque /\ ~HistoryIndependent(ln.runs, stateful)
            THEN PrintT(<<"C04-REJECT", "line", lineNo, "equal histories with different outcomes">>) /\ FALSE
            ELSE TRUE

TrInit == l = 1 /\ HWInit
(* triage aid: with env C04_SURVEY set every rejected line is printed and validation goes on (never used by the check) *)
Survey == "C04_SURVEY" \in DOMAIN IOEnv
TrNext == l <= Len(Trace) /\ (IF LineOK(Trace[l], l) THEN TRUE ELSE Survey) /\ l' = l + 1
TrSpec == TrInit /\ [][TrNext]_l

HW == HWMark(l)
Accepted == HWAccepted
=============================================================================
