---------------------------- MODULE LambdaTrace ----------------------------
(* Trace specification for C04: TLC re-evaluates every API call the driver c04 made on real    *)
(* stateful.Expression values with the reference semantics of LambdaRef and checks that the     *)
(* outcome is the reference outcome and does not depend on the history of the compiled node.    *)
(*                                                                                               *)
(* One NDJSON line = one expression:                                                             *)
(*   x    the AST (LambdaRef encoding)                                                            *)
(*   sc   table of inputs: {"v": scope} (name -> value, evaluated through the Scope API) or       *)
(*        {"f": fields, "g": tags, "t": minutes} (a point, evaluated through EvalPredicate)        *)
(*   nocompile present iff stateful.NewExpression refused the expression                               *)
(*   runs each run is a sequence of calls on ONE freshly compiled expression and its CopyReset    *)
(*        copies: <<k, mode, copy, outcome>>, k indexes sc, mode "E" Eval | "T" Type |            *)
(*        "I" "F" "S" "B" "D" EvalInt.. | "P" EvalPredicate | "Z" Reset(), outcome = value |      *)
(*        <<"E", class>> | <<"T", type>>                                                          *)
EXTENDS LambdaRef, TraceCommon

VARIABLE l
CopyIds == 0..2

NormOut(o) == IF o[1] = "E" THEN <<"E">> ELSE o

(* fillScope of expr.go: every referenced name is bound to the field, else the tag, else missing; *)
(* "time" is the point time; a name that is both a field and a tag is an error                     *)
Fill(refs, e) ==
    IF \E n \in refs \ {"time"} : n \in DOMAIN e.f /\ n \in DOMAIN e.g THEN [ok |-> FALSE, sc |-> <<>>]
    ELSE [ok |-> TRUE,
          sc |-> [n \in refs |-> IF n = "time" THEN <<"t", e.t>>
                                 ELSE IF n \in DOMAIN e.f THEN e.f[n]
                                 ELSE IF n \in DOMAIN e.g THEN e.g[n] ELSE MissingV]]
ScopeOf(ast, e) == IF "v" \in DOMAIN e THEN [ok |-> TRUE, sc |-> e.v] ELSE Fill(RefNames(ast), e)

(* ---- expressions without stateful functions: the outcome is a function of (input, mode) ---- *)
(* first step (1-based) of the run that the reference semantics cannot explain, 0 if none *)
RECURSIVE FirstBadPure(_, _, _, _, _)
FirstBadPure(run, i, scs, base, ill) ==
    IF i > Len(run) THEN 0
    ELSE LET s == run[i] IN
         IF s[2] = "Z" THEN FirstBadPure(run, i + 1, scs, base, ill)
         ELSE IF (IF ~scs[s[1]].ok THEN IsErr(s[4]) ELSE OutcomeAgrees(s[2], s[4], base[s[1]], ill[s[1]]))
              THEN FirstBadPure(run, i + 1, scs, base, ill)
              ELSE i

(* ---- expressions with stateful functions: follow the function state of every copy ---- *)
(* the set of copy-state assignments that explain a step, from one assignment c *)
StepCands(ast, scs, s, c) ==
    LET k == s[1]  mode == s[2]  cp == s[3]  got == s[4] IN
    IF mode = "Z" THEN {[c EXCEPT ![cp] = St0(ast)]}
    ELSE IF ~scs[k].ok THEN (IF IsErr(got) THEN {c} ELSE {})
    ELSE LET r == EvalTop(ast, scs[k].sc, c[cp])
             ill == TypeStrict(ast, scs[k].sc) = "err"
         IN IF ~OutcomeAgrees(mode, got, r[1], ill) THEN {}
            ELSE IF mode = "T" THEN {c}
            ELSE IF IsErr(got)
                 THEN { [c EXCEPT ![cp] = x] : x \in ErrStates(c[cp], EvalAll(ast, <<>>, scs[k].sc, c[cp], <<>>)[2]) }
                 ELSE {[c EXCEPT ![cp] = r[2]]}
RECURSIVE FirstBadStateful(_, _, _, _, _)
FirstBadStateful(ast, scs, run, i, cands) ==
    IF i > Len(run) THEN 0
    ELSE LET nxt == UNION { StepCands(ast, scs, run[i], c) : c \in cands } IN
         IF nxt = {} THEN i ELSE FirstBadStateful(ast, scs, run, i + 1, nxt)

(* ---- history independence as such: equal own histories give equal outcomes ---- *)
(* own history of step i: the calls made on the same copy since the run began or the copy was Reset *)
RECURSIVE OwnHist(_, _, _, _)
OwnHist(run, i, cp, acc) ==
    IF i = 0 \/ (run[i][3] = cp /\ run[i][2] = "Z") THEN acc
    ELSE OwnHist(run, i - 1, cp, IF run[i][3] = cp THEN <<<<run[i][1], run[i][2]>>>> \o acc ELSE acc)
Functional(S) == Cardinality(S) = Cardinality({ p[1] : p \in S })
HistoryIndependent(runs, stateful) ==
    LET obs == UNION { { <<IF stateful THEN OwnHist(runs[r], i, runs[r][i][3], <<>>) ELSE <<runs[r][i][1], runs[r][i][2]>>,
                           NormOut(runs[r][i][4])>> : i \in { j \in DOMAIN runs[r] : runs[r][j][2] # "Z" } } : r \in DOMAIN runs }
    IN Functional(obs)

LineOK(ln, lineNo) ==
    LET ast == ln.x IN
    IF "nocompile" \in DOMAIN ln
    THEN MustErr(ast) \/ (PrintT(<<"C04-REJECT", "line", lineNo, "compile error for an expression that can be evaluated">>) /\ FALSE)
    ELSE LET stateful == HasStateful(ast)
             scs == <<>> \o [k \in DOMAIN ln.sc |-> ScopeOf(ast, ln.sc[k])]
             base == <<>> \o [k \in DOMAIN ln.sc |-> IF scs[k].ok THEN EvalTop(ast, scs[k].sc, St0(ast))[1] ELSE Err]
             ill == [k \in DOMAIN ln.sc |-> scs[k].ok /\ TypeStrict(ast, scs[k].sc) = "err"]
             c0 == [cp \in CopyIds |-> St0(ast)]
             bad(r) == IF stateful THEN FirstBadStateful(ast, scs, ln.runs[r], 1, {c0})
                       ELSE FirstBadPure(ln.runs[r], 1, scs, base, ill)
             badRuns == { r \in DOMAIN ln.runs : bad(r) # 0 }
             opaque == stateful \/ \E k \in DOMAIN base : IsAny(base[k])
         IN IF badRuns # {}
            THEN LET r == CHOOSE x \in badRuns : \A y \in badRuns : x <= y IN
                 PrintT(<<"C04-REJECT", "line", lineNo, "run", r, "step", bad(r), ln.runs[r][bad(r)],
                          "input", ln.sc[ln.runs[r][bad(r)][1]]>>) /\ FALSE
            ELSE IF opaque /\ ~HistoryIndependent(ln.runs, stateful)
            THEN PrintT(<<"C04-REJECT", "line", lineNo, "equal histories with different outcomes">>) /\ FALSE
            ELSE TRUE

TrInit == l = 1 /\ HWInit
TrNext == l <= Len(Trace) /\ LineOK(Trace[l], l) /\ l' = l + 1
TrSpec == TrInit /\ [][TrNext]_l

HW == HWMark(l)
Accepted == HWAccepted
=============================================================================
