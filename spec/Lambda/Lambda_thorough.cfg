SPECIFICATION Spec
CONSTANTS
    Variant = "fixed"
    ASTs <- MCASTsThorough
    ScopeVals <- MCValsMid
    WithUndef = TRUE
    Modes = {"E", "T", "I", "F", "B", "D"}
    Copies = {1, 2}
    CopyAll = TRUE
    MaxCount = 2
CONSTRAINT Bounded
INVARIANTS
    CacheIrrelevant
    ErrorsAreErrors
    ShortCircuit
    RefinesRef
    CopiesIsolated
CHECK_DEADLOCK FALSE
