SPECIFICATION Spec
CONSTANTS
    Variant = "fixed"
    ASTs <- MCASTsQuick
    ScopeVals <- MCValsQuick
    WithUndef = FALSE
    Modes = {"E", "T", "I", "B"}
    Copies = {1, 2}
    CopyAll = FALSE
    MaxCount = 1
CONSTRAINT Bounded
INVARIANTS
    CacheIrrelevant
    ErrorsAreErrors
    ShortCircuit
    RefinesRef
    CopiesIsolated
CHECK_DEADLOCK FALSE
