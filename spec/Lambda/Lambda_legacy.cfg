\* The evaluator as it was before the C04 fixes: TLC is expected to find a counterexample (observation only).
SPECIFICATION Spec
CONSTANTS
    Variant = "legacy"
    ASTs <- MCASTsQuick
    ScopeVals <- MCValsQuick
    WithUndef = FALSE
    Modes = {"E", "T", "I", "B"}
    Copies = {1, 2}
    CopyAll = FALSE
    MaxCount = 1
CONSTRAINT Bounded
INVARIANTS
    CacheIrrelevant
    ErrorsAreErrors
    CopiesIsolated
CHECK_DEADLOCK FALSE
