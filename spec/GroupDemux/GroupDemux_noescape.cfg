SPECIFICATION Spec
CONSTANTS
    Escape = FALSE
    SharedState = FALSE
    Chars = {"x", ",", "=", "\\"}
    MaxLen = 2
    Names <- MCNames
    MaxSteps = 6
INVARIANTS Isolation IdInjectiveInv
CHECK_DEADLOCK FALSE
