--------------------------- MODULE GroupDemuxTrace ---------------------------
(* Trace validation for C06 (driver c06).  The per-group machine of a node   *)
(* is uninterpreted in GroupDemux; a Solo run of the real pipeline on one    *)
(* group's inputs DEFINES it (its outputs are a function of that group's     *)
(* inputs only, by construction), and every Mixed run - the same per-group   *)
(* input sequences interleaved - must give each group exactly those outputs  *)
(* (Isolation), attribute nothing to the wrong group, and keep the two       *)
(* groups apart even when their tag values contain the ID's delimiters.      *)
EXTENDS GroupDemux, TraceCommon

VARIABLES l, solo, have   \* solo[g]: outputs the pipeline produced for group g alone; have: groups whose solo run is known
tvars == <<vars, l, solo, have>>

Ln == Trace[l]
IsEv(e) == l <= Len(Trace) /\ Ln.ev = e /\ l' = l + 1
GName(i) == IF i = 0 THEN "g" ELSE "h"
NoSolo == [g \in Groups |-> <<>>]

TrInit == Init /\ l = 1 /\ solo = NoSolo /\ have = {} /\ HWInit
ResetVars == /\ hist' = [g \in Groups |-> <<>>] /\ state' = [g \in Groups |-> <<>>]
             /\ shared' = <<>> /\ out' = [g \in Groups |-> <<>>] /\ steps' = 0
TrReset == IsEv("Reset") /\ ResetVars /\ solo' = NoSolo /\ have' = {}

Attributed(o) == \A i \in DOMAIN o : "unattributed" \notin DOMAIN o[i] /\ "inconsistent" \notin DOMAIN o[i]
TrSolo ==
    /\ IsEv("Solo")
    /\ Ln.foreign = 0                         \* nothing may be attributed to a group that sent no data
    /\ Attributed(Ln.out)
    /\ solo' = [solo EXCEPT ![GName(Ln.grp)] = Ln.out]
    /\ have' = have \cup {GName(Ln.grp)}
    /\ UNCHANGED vars

TrMixed ==
    /\ IsEv("Mixed")
    /\ have = Groups
    /\ Attributed(Ln.out0) /\ Attributed(Ln.out1)
    /\ Len(Ln.out0) = Len(solo["g"]) /\ Len(Ln.out1) = Len(solo["h"])
    /\ Ln.out0 = solo["g"]                   \* Isolation: same outputs as alone ...
    /\ Ln.out1 = solo["h"]                   \* ... for both groups
    /\ ("leftover" \in DOMAIN Ln => Ln.leftover = 0)   \* output nodes: no row left behind for a deleted group, no nil row
    /\ UNCHANGED <<vars, solo, have>>

(* Delete-group: after a DeleteGroup message the group's machine is a fresh one, so *)
(* the outputs of one run  part1 ; delete ; part2  are  solo(part1) ++ solo(part2). *)
TrSoloPart ==
    /\ IsEv("SoloPart")
    /\ solo' = [solo EXCEPT ![GName(Ln.part - 1)] = Ln.out]
    /\ have' = have \cup {GName(Ln.part - 1)}
    /\ UNCHANGED vars
TrDeleteRun ==
    /\ IsEv("DeleteRun") /\ have = Groups
    /\ Len(Ln.out) = Len(solo["g"]) + Len(solo["h"])
    /\ Ln.out = solo["g"] \o solo["h"]
    /\ UNCHANGED <<vars, solo, have>>

TrNext == TrReset \/ TrSolo \/ TrMixed \/ TrSoloPart \/ TrDeleteRun
TrSpec == TrInit /\ [][TrNext]_tvars
HW == HWMark(l)
Accepted == HWAccepted
=============================================================================
