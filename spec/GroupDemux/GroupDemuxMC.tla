---------------------------- MODULE GroupDemuxMC ----------------------------
EXTENDS GroupDemux
MCNames == { <<"a">>, <<"b">>, <<"a", "=">> }
(* evaluated once (it does not depend on the state) *)
IdInjectiveInv == steps = 0 => GroupIdInjective
=============================================================================
