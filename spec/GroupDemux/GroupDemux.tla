----------------------------- MODULE GroupDemux -----------------------------
(* Group identity and per-group isolation (C06).                            *)
(* Code: models/point.go (ToGroupID), edge/grouped.go (groupedConsumer:      *)
(* GroupID -> per-group receiver created by NewGroup), and every grouping-   *)
(* aware node, whose per-group state must live in that receiver.             *)
(*                                                                          *)
(* (a) Identity: a group ID is the string  [name "\n"] d1=v1,d2=v2,...       *)
(*     over the point's group-by dimensions.  Tag names and values may       *)
(*     themselves contain ',' '=' '\'; Escape says whether those are         *)
(*     escaped (the original code did not: distinct tag sets collided).      *)
(* (b) Isolation: a node is a family of per-group machines.  The machine is  *)
(*     left uninterpreted: its state is the history of inputs it has been    *)
(*     given, its output is that history.  SharedState = TRUE models a node  *)
(*     that keeps (part of) its state outside the per-group receiver (the    *)
(*     original AlertNode level expressions).                                *)
EXTENDS Integers, Sequences, FiniteSets, TLC

CONSTANTS Escape, SharedState, Chars, MaxLen, Names, MaxSteps

(* ------------------------------ (a) identity ------------------------------ *)
RECURSIVE Strs(_)
Strs(n) == IF n = 0 THEN {<<>>} ELSE Strs(n - 1) \cup { Append(s, c) : s \in Strs(n - 1), c \in Chars }
Values == Strs(MaxLen)

Special == {",", "=", "\\"}
RECURSIVE Esc(_)
Esc(s) == IF s = <<>> THEN <<>>
          ELSE (IF Escape /\ Head(s) \in Special THEN <<"\\", Head(s)>> ELSE <<Head(s)>>) \o Esc(Tail(s))

(* a tag set: function from a subset of Names (sequences of chars) to Values;   *)
(* dims = its names in a fixed order (groupBy star takes all tags of the point)   *)
TagSets == UNION { [D -> Values] : D \in SUBSET Names }
RECURSIVE Join(_, _)
Join(ts, order) ==
    IF order = <<>> THEN <<>>
    ELSE LET d == Head(order) IN
         IF d \notin DOMAIN ts THEN Join(ts, Tail(order))
         ELSE LET rest == Join(ts, Tail(order))
              IN  Esc(d) \o <<"=">> \o Esc(ts[d]) \o (IF rest = <<>> THEN <<>> ELSE <<",">> \o rest)
GroupID(ts, order) == Join(ts, order)

NameOrder == CHOOSE o \in [1..Cardinality(Names) -> Names] : \A i, j \in DOMAIN o : i # j => o[i] # o[j]
(* injective <=> as many distinct IDs as tag sets (linear instead of pairwise) *)
GroupIdInjective ==
    Cardinality({ GroupID(ts, NameOrder) : ts \in TagSets }) = Cardinality(TagSets)

(* ------------------------------ (b) isolation ------------------------------ *)
Groups == {"g", "h"}
VARIABLES hist,     \* [Groups -> Seq(Nat)]  inputs of each group so far (ghost = what a solo run would have seen)
          state,    \* [Groups -> Seq(<<group, n>>)]  what the group's machine has actually been given
          shared,   \* the shared part (only used when SharedState)
          out,      \* [Groups -> Seq(...)]  outputs per group: one per input = the machine's state after it
          steps
vars == <<hist, state, shared, out, steps>>

Init == /\ hist = [g \in Groups |-> <<>>] /\ state = [g \in Groups |-> <<>>]
        /\ shared = <<>> /\ out = [g \in Groups |-> <<>>] /\ steps = 0

(* a point of group g arrives: the demux routes it to g's machine *)
Point(g) ==
    /\ steps < MaxSteps /\ steps' = steps + 1
    /\ hist' = [hist EXCEPT ![g] = Append(@, steps)]
    /\ IF SharedState
         THEN /\ shared' = Append(shared, steps)
              /\ state' = state
              /\ out' = [out EXCEPT ![g] = Append(@, shared')]
         ELSE /\ state' = [state EXCEPT ![g] = Append(@, steps)]
              /\ shared' = shared
              /\ out' = [out EXCEPT ![g] = Append(@, state'[g])]
Next == \E g \in Groups : Point(g)
Spec == Init /\ [][Next]_vars

(* the k-th output of a group is a function of the group's own first k inputs only *)
Isolation == \A g \in Groups : \A k \in DOMAIN out[g] : out[g][k] = SubSeq(hist[g], 1, k)
=============================================================================
