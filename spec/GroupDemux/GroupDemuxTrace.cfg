SPECIFICATION TrSpec
CONSTANTS
    Escape = TRUE
    SharedState = FALSE
    Chars = {"x"}
    MaxLen = 1
    Names <- MCNames
    MaxSteps = 0
CONSTRAINT HW
POSTCONDITION Accepted
CHECK_DEADLOCK FALSE
