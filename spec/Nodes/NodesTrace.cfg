SPECIFICATION TrSpec
CONSTANTS
    Scale = 1024
    None <- MCNone
    Pipes <- MCNoPipes
    MaxIn = 0
    InPlace = {}
CONSTRAINT HW
POSTCONDITION Accepted
CHECK_DEADLOCK FALSE
