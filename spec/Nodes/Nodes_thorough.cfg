SPECIFICATION Spec
CONSTANTS
    Scale = 1024
    None <- MCNone
    Pipes <- AllPipes
    MaxIn = 3
    InPlace = {}
INVARIANTS
    TypeOK
    OutputsWellFormed
    EdgeKindOK
    ImplMatchesRef
    NoSiblingInterference
CHECK_DEADLOCK FALSE
