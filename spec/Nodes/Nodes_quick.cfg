SPECIFICATION Spec
CONSTANTS
    Scale = 1024
    None <- MCNone
    Pipes <- QuickPipes
    MaxIn = 2
    InPlace = {}
INVARIANTS
    TypeOK
    OutputsWellFormed
    EdgeKindOK
    ImplMatchesRef
    NoSiblingInterference
CHECK_DEADLOCK FALSE
