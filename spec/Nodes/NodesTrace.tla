---------------------------- MODULE NodesTrace ----------------------------
(* Trace specification for Nodes (driver c10).  One trace = one run of a   *)
(* real task:                                                               *)
(*   Reset  pipeline (source + node descriptors), sorted tag-name universe  *)
(*   In     one input message (point or batch), as written to the task      *)
(*   End    what every log() sink under every node saw, in arrival order    *)
(* TLC recomputes the composed operators (Ref of Nodes) and compares every  *)
(* emitted message in name, tags, typed fields, time(s), dimensions and     *)
(* group, per group (the order across groups is not promised).              *)
EXTENDS Nodes, TraceCommon

VARIABLE l
tvars == <<vars, l>>

NoSrc == [batch |-> FALSE, dims |-> <<>>, byName |-> FALSE, trunc |-> 0, tzr |-> 0]
TrInit ==
    /\ l = 1 /\ HWInit /\ TLCSet(2, 0)
    /\ order = <<>> /\ src = NoSrc /\ nodes = <<>> /\ nst = <<>> /\ acc = <<>> /\ amb = <<>>
    /\ keeps = FALSE /\ kfhit = {} /\ nerrs = <<>>
    /\ fed = <<>> /\ queue = <<>> /\ ist = <<>> /\ store = <<>> /\ nextId = 1 /\ seen = <<>>

Ln == Trace[l]
IsEv(e) == l <= Len(Trace) /\ Ln.ev = e /\ l' = l + 1

(* The deviation is only worth a second branch where it can matter.         *)
CanKeep(ns) == \E i \in DOMAIN ns : ns[i].k = "groupBy" /\ ~ns[i].byName
TrReset ==
    /\ IsEv("Reset")
    /\ \E kp \in (IF CanKeep(Ln.nodes) THEN {FALSE, TRUE} ELSE {FALSE}) :
          RefStart(Ln.src, Ln.nodes, Ln.order, kp)
    /\ UNCHANGED ivars

TrIn == IsEv("In") /\ RefFeed(Ln.msg) /\ UNCHANGED ivars

Groups(s) == {s[k].group : k \in DOMAIN s}
SameByGroup(exp, got) ==
    \A g \in Groups(exp) \cup Groups(got) :
        SelectSeq(exp, LAMBDA m : m.group = g) = SelectSeq(got, LAMBDA m : m.group = g)

Count(s, x) == Cardinality({k \in DOMAIN s : s[k] = x})
SameBag(a, b) == Len(a) = Len(b) /\ \A k \in DOMAIN a : Count(a, a[k]) = Count(b, a[k])
(* Below a batch groupBy the groups of one flush arrive in no particular    *)
(* order (and a later node may merge them into one group): bags per group.  *)
SameBagByGroup(exp, got) ==
    \A g \in Groups(exp) \cup Groups(got) :
        SameBag(SelectSeq(exp, LAMBDA m : m.group = g), SelectSeq(got, LAMBDA m : m.group = g))
(* A bare node has no sink: nothing to compare (its children are checked).  *)
Bare(i) == i > 1 /\ "bare" \in DOMAIN nodes[i - 1]
SinkOK(i, got) ==
    IF HasBatchGroupByAbove(src, nodes, i - 1) THEN SameBagByGroup(acc[i], got) ELSE SameByGroup(acc[i], got)

(* Guards are written "(...) = TRUE": TLC then evaluates them as plain       *)
(* predicates instead of splitting every disjunction inside them into       *)
(* successor branches (2^n copies of the same successor state).             *)
ErrCounted == {"tap", "where", "eval", "default", "delete", "shift", "sample", "derivative", "changeDetect",
               "stateCount", "stateDuration", "flatten", "combine", "groupBy"}
TrEnd ==
    /\ IsEv("End")
    /\ (Ln.stopErr = "") = TRUE             \* no node gave up on this input
    /\ (Len(Ln.sinks) = Len(acc)) = TRUE
       (* shape of the reference outputs (acc only grows: checking it here  *)
       (* covers every earlier state of the trace)                          *)
    /\ (OutputsWellFormed /\ EdgeKindOK) = TRUE
    /\ (\A i \in DOMAIN acc : amb[i] \/ Bare(i) \/ SinkOK(i, Ln.sinks[i])) = TRUE
       (* NoSiblingInterference on the code: in a fork the sinks are read   *)
       (* after the drain, so a branch that changed shared data shows up    *)
       (* above; in a chain a later change of a delivered message is drift. *)
    /\ (Ln.fork => Ln.stable) = TRUE
       (* error reports: every documented error condition is reported once by *)
       (* its node (never by a quiet eval), nothing else is reported          *)
    /\ (\A i \in DOMAIN nodes : (nodes[i].k \in ErrCounted /\ ~amb[nodes[i].parent + 1]) => Ln.errs[i] = nerrs[i]) = TRUE
    /\ (IF Ln.stable THEN TRUE ELSE PrintT(<<"DRIFT", "message changed after delivery">>)) = TRUE
    /\ (\A k \in kfhit : PrintT(<<"KF-HIT", k>>)) = TRUE
    /\ TLCSet(2, TLCGet(2) + Cardinality({i \in DOMAIN amb : amb[i]}))
    /\ UNCHANGED vars

TrNext == TrReset \/ TrIn \/ TrEnd
TrSpec == TrInit /\ [][TrNext]_tvars

HW == HWMark(l)
Accepted == PrintT(<<"AMB-SKIPPED-SINKS", TLCGet(2)>>) /\ HWAccepted
=============================================================================
