SPECIFICATION Spec
CONSTANTS
    Scale = 1024
    None <- MCNone
    Pipes <- ForkPipes
    MaxIn = 2
    InPlace = {"default", "delete", "shift"}
INVARIANTS
    TypeOK
    OutputsWellFormed
    EdgeKindOK
    ImplMatchesRef
    NoSiblingInterference
CHECK_DEADLOCK FALSE
