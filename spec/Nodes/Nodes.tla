------------------------------- MODULE Nodes -------------------------------
(* C10: per-point and per-group nodes compute their documented             *)
(* transformation.                                                          *)
(*                                                                          *)
(* Part 1  values, lambda catalogue (fixed truth tables), messages          *)
(* Part 2  one operator per node kind: Op(n, st, m) = [st, out, amb]        *)
(*         for stream (m.mk = "p") and batch (m.mk = "b") messages          *)
(* Part 3  Ref: a pipeline (tree of node descriptors) as the composition    *)
(*         of the operators, one input message at a time                    *)
(* Part 4  Impl: the same tree as asynchronous node processes with input    *)
(*         queues and SHARED message objects (a store of message ids):      *)
(*         TLC checks Impl => Ref at quiescence, the shape invariants and   *)
(*         NoSiblingInterference                                            *)
(*                                                                          *)
(* Float values are fixed point: value * Scale.  Times are small integers.  *)
EXTENDS Integers, Sequences, FiniteSets, TLC, SequencesExt

CONSTANTS Scale,      \* fixed-point scale of float values (1024)
          None,       \* "no time yet": a model time that never occurs
          Pipes,      \* Impl: sequence of pipelines [src, nodes, order, alpha (input alphabet)]
          MaxIn,      \* Impl: inputs per behaviour
          InPlace     \* Impl: node kinds that (wrongly) update a received message in place

VARIABLES order,      \* all tag names that can occur, sorted (Go string order)
          src,        \* source descriptor [batch, dims, byName]
          nodes,      \* sequence of node descriptors, parents before children
          nst,        \* Ref: per-node state
          acc,        \* Ref: per-sink (index 1 = s0) sequence of messages emitted so far
          amb,        \* Ref: per-sink "reference not unique from here on"
          keeps,      \* Ref: deviation groupby-keeps-bymeasurement is in force
          kfhit,      \* Ref: known-finding keys this trace exercised
          nerrs,      \* Ref: per node, evaluation errors it must have reported (where/eval/state*)
          \* Impl only
          fed, queue, ist, store, nextId, seen

rvars == <<order, src, nodes, nst, acc, amb, keeps, kfhit, nerrs>>
ivars == <<fed, queue, ist, store, nextId, seen>>
vars == <<rvars, ivars>>

(***************************************************************************)
(* Part 1: values, lambdas, messages                                        *)
(***************************************************************************)
GetOr(f, k, d) == IF k \in DOMAIN f THEN f[k] ELSE d
DropKeys(f, S) == [k \in DOMAIN f \ S |-> f[k]]
Put(f, k, v) == [x \in DOMAIN f \cup {k} |-> IF x = k THEN v ELSE f[x]]
Over(f, g) == [x \in DOMAIN f \cup DOMAIN g |-> IF x \in DOMAIN g THEN g[x] ELSE f[x]]
SeqSet(s) == {s[i] : i \in DOMAIN s}

IntV(i)   == [t |-> "int", i |-> i, s |-> ""]
FloatV(i) == [t |-> "float", i |-> i, s |-> ""]
StrV(s)   == [t |-> "string", i |-> 0, s |-> s]
BoolV(b)  == [t |-> "bool", i |-> IF b THEN 1 ELSE 0, s |-> ""]
MissingV  == [t |-> "missing", i |-> 0, s |-> ""]
CollideV  == [t |-> "collide", i |-> 0, s |-> ""]
ErrV      == [t |-> "err", i |-> 0, s |-> ""]
NoneV     == [t |-> "none", i |-> 0, s |-> ""]
IsNum(v) == v.t \in {"int", "float"}
Scaled(v) == IF v.t = "int" THEN v.i * Scale ELSE v.i         \* numToFloat
FieldTypes == {"int", "float", "string", "bool"}

(* Exact division: inputs and parameters are chosen so that every float    *)
(* result is a multiple of 1/Scale.  Anything else is a broken check.       *)
ExactDiv(a, b) ==
    IF b # 0 /\ a % (IF b > 0 THEN b ELSE -b) = 0
    THEN (IF b > 0 THEN a \div b ELSE (-a) \div (-b))
    ELSE Assert(FALSE, <<"inexact division in the reference", a, b>>)

(* What a lambda sees for a reference: field, tag (a string), both (error). *)
Look(tags, fields, r) ==
    IF r \in DOMAIN fields /\ r \in DOMAIN tags THEN CollideV
    ELSE IF r \in DOMAIN fields THEN fields[r]
    ELSE IF r \in DOMAIN tags THEN StrV(tags[r])
    ELSE MissingV

(* Predicate catalogue: "T", "F" or "E" (evaluation error).                 *)
NumCmp(v, ok(_)) == IF IsNum(v) THEN (IF ok(Scaled(v)) THEN "T" ELSE "F") ELSE "E"
Pred(lam, tags, fields) ==
    CASE lam = "true"  -> "T"
      [] lam = "vgt1"  -> NumCmp(Look(tags, fields, "v"), LAMBDA x : x > Scale)
      [] lam = "wEq1"  -> NumCmp(Look(tags, fields, "w"), LAMBDA x : x = Scale)
      [] lam = "vne15" -> NumCmp(Look(tags, fields, "v"), LAMBDA x : 2 * x # 3 * Scale)
      [] lam = "pEqX"  -> LET v == Look(tags, fields, "p")
                          IN IF v.t = "string" THEN (IF v.s = "x" THEN "T" ELSE "F") ELSE "E"
Pass(lam, q) == Pred(lam, q.tags, q.fields) = "T"

(* Scalar catalogue over a scope (name -> value).                           *)
Refs(lam) ==
    CASE lam = "one" -> {} [] lam = "dbl" -> {"v"} [] lam = "half" -> {"v"} [] lam = "tp" -> {"p"}
      [] lam = "wv" -> {"w", "v"} [] lam = "aa" -> {"a"} [] lam = "vv" -> {"v"}
Add(a, b) ==
    IF a.t = b.t /\ IsNum(a) THEN [a EXCEPT !.i = a.i + b.i]
    ELSE IF a.t = "string" /\ b.t = "string" THEN StrV(a.s \o b.s)
    ELSE ErrV
Scalar(lam, sc) ==
    CASE lam = "one"  -> IntV(1)
      [] lam = "dbl"  -> Add(sc["v"], sc["v"])
      [] lam = "aa"   -> Add(sc["a"], sc["a"])
      [] lam = "wv"   -> Add(sc["w"], sc["v"])
      [] lam = "half" -> IF sc["v"].t = "float" THEN FloatV(ExactDiv(sc["v"].i, 2)) ELSE ErrV
      [] lam = "tp"   -> IF sc["p"].t = "string" THEN StrV("t" \o sc["p"].s) ELSE ErrV
      [] lam = "vv"   -> IF sc["v"].t \in FieldTypes THEN sc["v"] ELSE ErrV

(* Tag names in Go string order: the subsequence of `order`.                *)
SortNames(S) == SelectSeq(order, LAMBDA x : x \in S)

RECURSIVE JoinKV(_, _, _)
JoinKV(tags, dims, i) ==
    IF i > Len(dims) THEN ""
    ELSE (IF i > 1 THEN "," ELSE "") \o dims[i] \o "=" \o GetOr(tags, dims[i], "") \o JoinKV(tags, dims, i + 1)
(* models.ToGroupID ("|" stands for the newline after the measurement).     *)
GroupId(name, tags, dims, byName) ==
    IF Len(dims) = 0 THEN (IF byName THEN name ELSE "")
    ELSE (IF byName THEN name \o "|" ELSE "") \o JoinKV(tags, dims, 1)

MkPoint(name, tags, fields, t, dims, byName) ==
    [mk |-> "p", name |-> name, tags |-> tags, fields |-> fields, t |-> t, dims |-> dims,
     byName |-> byName, group |-> GroupId(name, tags, dims, byName)]
MkBatch(name, tags, dims, byName, tmax, pts) ==
    [mk |-> "b", name |-> name, tags |-> tags, dims |-> dims, byName |-> byName,
     group |-> GroupId(name, tags, dims, byName), tmax |-> tmax, pts |-> pts]
Regroup(m) == [m EXCEPT !.group = GroupId(m.name, m.tags, m.dims, m.byName)]
BP(tags, fields, t) == [tags |-> tags, fields |-> fields, t |-> t]
(* GroupInfo of a point: the dimension tags only (a missing one reads ""). *)
GroupTags(m) == IF m.mk = "b" THEN m.tags ELSE [d \in SeqSet(m.dims) |-> GetOr(m.tags, d, "")]

(* Time alignment.  Go's Time.Truncate(d) / Time.Round(d) work on the time   *)
(* elapsed since Go's ZERO time (January 1, year 1), not since the Unix       *)
(* epoch: "t is on the d grid" means t.Truncate(d) = t.  Model time k stands  *)
(* for epoch + k units, so a descriptor that aligns to d carries zr = (epoch  *)
(* - zero time) mod d, computed by the driver with Go's time package (0 for   *)
(* every d that divides the epoch offset, e.g. 1s, 2s, 7s; 8 for 13s).  The   *)
(* Unix epoch is on another grid for every d that does not divide             *)
(* 62135596800 s (7s, 11s, 13s, 7m, 1w ...).                                   *)
OnGrid(t, d, zr) == (t + zr) % d = 0
TruncT(t, d, zr) == IF d = 0 THEN t ELSE t - ((t + zr) % d)
(* time.Round rounds half up.                                               *)
RoundT(t, d, zr) == IF d = 0 THEN t ELSE ((2 * (t + zr) + d) \div (2 * d)) * d - zr

(* What the source hands to the first edge.                                 *)
FromSource(s, in) ==
    IF s.batch THEN MkBatch(in.name, in.tags, SortNames(DOMAIN in.tags), in.byName, in.tmax, in.pts)
    ELSE MkPoint(in.name, in.tags, in.fields, TruncT(in.t, s.trunc, s.tzr), s.dims, s.byName)   \* from().truncate(d)


R(st, out) == [st |-> st, out |-> out, amb |-> FALSE, kf |-> {}, err |-> 0]
RE(st, out, e) == [st |-> st, out |-> out, amb |-> FALSE, kf |-> {}, err |-> e]
CountIf(s, T(_)) == Len(SelectSeq(s, T))
(* FoldLeft with a state and concatenated outputs.                          *)
FoldPts(F(_, _), st0, s) ==
    FoldLeft(LAMBDA a, x : LET r == F(a.st, x) IN [st |-> r.st, out |-> a.out \o r.out, err |-> a.err + r.err],
             [st |-> st0, out |-> <<>>, err |-> 0], s)

(***************************************************************************)
(* Part 2: the node operators                                               *)
(***************************************************************************)

(* ---- where: keep the points whose predicate is true; an evaluation      *)
(* error drops the point.  A batch is always forwarded (possibly empty).    *)
WhereOp(n, st, m) ==
    IF m.mk = "p" THEN RE(st, IF Pass(n.lam, m) THEN <<m>> ELSE <<>>, IF Pred(n.lam, m.tags, m.fields) = "E" THEN 1 ELSE 0)
    ELSE RE(st, <<[m EXCEPT !.pts = SelectSeq(m.pts, LAMBDA q : Pass(n.lam, q))]>>,
            CountIf(m.pts, LAMBDA q : Pred(n.lam, q.tags, q.fields) = "E"))

(* ---- eval: expressions in order, results visible to later expressions    *)
(* under their as() name (a result shadows a field/tag of the same name);   *)
(* tags() moves string results to tags; keep()/keep(list)/no keep select    *)
(* the fields.  Any error drops the point.                                  *)
EvalRes(n, tags, fields) ==
    LET k == Len(n.lams)
        Sc[i \in 0..k] ==
            IF i = 0 THEN [bad |-> FALSE, v |-> <<>>]
            ELSE LET prev == Sc[i - 1] IN
                 IF prev.bad THEN prev
                 ELSE LET lam == n.lams[i]
                          earlier == {n.as[j] : j \in 1..(i - 1)}
                          refs == Refs(lam) \ earlier
                          coll == \E r \in refs : r \in DOMAIN fields /\ r \in DOMAIN tags
                          filled == [r \in DOMAIN prev.v \cup refs |->
                                       IF r \in refs
                                       THEN (IF r \in DOMAIN fields THEN fields[r]
                                             ELSE IF r \in DOMAIN tags THEN StrV(tags[r])
                                             ELSE IF r \in DOMAIN prev.v THEN prev.v[r]
                                             ELSE MissingV)
                                       ELSE prev.v[r]]
                          val == Scalar(lam, filled)
                      IN IF coll THEN [bad |-> TRUE, v |-> <<>>]
                         ELSE IF val.t = "err" THEN [bad |-> TRUE, v |-> <<>>]
                         ELSE [bad |-> FALSE, v |-> Put(filled, n.as[i], val)]
        final == Sc[k]
        tagset == SeqSet(n.tags)
        asset == SeqSet(n.as)
        Has(f) == f \in DOMAIN final.v /\ final.v[f].t \in FieldTypes
        tagsOK == \A tg \in tagset : final.v[tg].t = "string"
        keepOK == \A f \in SeqSet(n.keepList) : Has(f) \/ f \in DOMAIN fields
        newTags == [x \in DOMAIN tags \cup tagset |-> IF x \in tagset THEN final.v[x].s ELSE tags[x]]
        newFields ==
            IF n.keep
            THEN IF Len(n.keepList) > 0
                 THEN [f \in SeqSet(n.keepList) |-> IF Has(f) THEN final.v[f] ELSE fields[f]]
                 ELSE [f \in DOMAIN fields \cup asset |-> IF f \in asset THEN final.v[f] ELSE fields[f]]
            ELSE [f \in asset \ tagset |-> final.v[f]]
    IN IF final.bad THEN [ok |-> FALSE]
       ELSE IF ~tagsOK THEN [ok |-> FALSE]
       ELSE IF n.keep /\ Len(n.keepList) > 0 /\ ~keepOK THEN [ok |-> FALSE]
       ELSE [ok |-> TRUE, tags |-> newTags, fields |-> newFields]

EvalOp(n, st, m) ==
    IF m.mk = "p"
    THEN LET r == EvalRes(n, m.tags, m.fields)
         IN RE(st, IF r.ok THEN <<Regroup([m EXCEPT !.tags = r.tags, !.fields = r.fields])>> ELSE <<>>,
               IF r.ok \/ n.quiet THEN 0 ELSE 1)
    ELSE LET F(q) == LET r == EvalRes(n, q.tags, q.fields)
                     IN IF r.ok THEN <<BP(r.tags, r.fields, q.t)>> ELSE <<>>
         IN RE(st, <<[m EXCEPT !.pts = FlattenSeq([i \in DOMAIN m.pts |-> F(m.pts[i])])]>>,
               IF n.quiet THEN 0 ELSE CountIf(m.pts, LAMBDA q : ~EvalRes(n, q.tags, q.fields).ok))

(* ---- default: set missing fields, and tags that are missing or empty.    *)
(* On a batch the group tags are defaulted too and the dimensions follow    *)
(* the group tags (beginBatchMessage.SetTags).                              *)
DefFields(n, fields) == Over(n.fields, fields)
DefTags(n, tags) ==
    [x \in DOMAIN tags \cup DOMAIN n.tags |->
        IF x \in DOMAIN n.tags /\ GetOr(tags, x, "") = "" THEN n.tags[x] ELSE tags[x]]
DefaultOp(n, st, m) ==
    IF m.mk = "p"
    THEN R(st, <<Regroup([m EXCEPT !.tags = DefTags(n, m.tags), !.fields = DefFields(n, m.fields)])>>)
    ELSE LET gt == DefTags(n, m.tags)
         IN R(st, <<MkBatch(m.name, gt, SortNames(DOMAIN gt), m.byName, m.tmax,
                            [i \in DOMAIN m.pts |-> BP(DefTags(n, m.pts[i].tags), DefFields(n, m.pts[i].fields), m.pts[i].t)])>>)

(* ---- delete: remove fields and tags; a deleted tag stops being a         *)
(* dimension.                                                               *)
DeleteOp(n, st, m) ==
    LET ft == SeqSet(n.fields)  tt == SeqSet(n.tags) IN
    IF m.mk = "p"
    THEN R(st, <<Regroup([m EXCEPT !.tags = DropKeys(m.tags, tt), !.fields = DropKeys(m.fields, ft),
                                   !.dims = SelectSeq(m.dims, LAMBDA d : d \notin tt)])>>)
    ELSE LET gt == DropKeys(m.tags, tt)
         IN R(st, <<MkBatch(m.name, gt, SortNames(DOMAIN gt), m.byName, m.tmax,
                            [i \in DOMAIN m.pts |-> BP(DropKeys(m.pts[i].tags, tt), DropKeys(m.pts[i].fields, ft), m.pts[i].t)])>>)

(* ---- shift: move every time (and a batch's tmax) by d.                   *)
ShiftOp(n, st, m) ==
    IF m.mk = "p" THEN R(st, <<[m EXCEPT !.t = @ + n.d]>>)
    ELSE R(st, <<[m EXCEPT !.tmax = @ + n.d, !.pts = [i \in DOMAIN m.pts |-> [m.pts[i] EXCEPT !.t = @ + n.d]]]>>)

(* ---- sample: every n-th point of the group (stream), of the batch        *)
(* (batch), or the points on a multiple of the duration.                    *)
SampleOp(n, st, m) ==
    IF m.mk = "p"
    THEN LET c == GetOr(st, m.group, 0)
             keep == IF n.d # 0 THEN OnGrid(m.t, n.d, n.zr) ELSE c % n.n = 0
         IN R(Put(st, m.group, c + 1), IF keep THEN <<m>> ELSE <<>>)
    ELSE LET idx == SelectSeq([i \in DOMAIN m.pts |-> i],
                              LAMBDA i : IF n.d # 0 THEN OnGrid(m.pts[i].t, n.d, n.zr) ELSE (i - 1) % n.n = 0)
         IN R(st, <<[m EXCEPT !.pts = [j \in DOMAIN idx |-> m.pts[idx[j]]]]>>)

(* ---- derivative: (current - previous) / (elapsed / unit) per group; the  *)
(* first point has no previous; a missing / non-numeric field is skipped    *)
(* and not remembered; zero elapsed and (nonNegative) negative differences  *)
(* emit nothing but are remembered; no memory across batches.               *)
NoPrev == [has |-> FALSE, f |-> 0, t |-> 0]
DerivPt(n, prev, q) ==
    LET cur == GetOr(q.fields, n.field, MissingV) IN
    IF ~IsNum(cur) THEN [st |-> prev, out |-> <<>>, err |-> 1]            \* "field is the wrong type"
    ELSE LET f1 == Scaled(cur)
             new == [has |-> TRUE, f |-> f1, t |-> q.t]
         IN IF ~prev.has THEN [st |-> new, out |-> <<>>, err |-> 0]
            ELSE IF q.t = prev.t THEN [st |-> new, out |-> <<>>, err |-> 1]   \* "elapsed time was 0"
            ELSE IF n.nonNeg /\ f1 < prev.f THEN [st |-> new, out |-> <<>>, err |-> 0]
            ELSE [st |-> new, err |-> 0,
                  out |-> <<[q EXCEPT !.fields = Put(q.fields, n.as, FloatV(ExactDiv((f1 - prev.f) * n.unit, q.t - prev.t)))]>>]
DerivativeOp(n, st, m) ==
    IF m.mk = "p"
    THEN LET r == DerivPt(n, GetOr(st, m.group, NoPrev), m) IN RE(Put(st, m.group, r.st), r.out, r.err)
    ELSE LET r == FoldPts(LAMBDA s, q : DerivPt(n, s, q), NoPrev, m.pts) IN RE(st, <<[m EXCEPT !.pts = r.out]>>, r.err)

(* ---- changeDetect: emit a point when a listed field it carries differs   *)
(* from that field of the last emitted point of the group (typed            *)
(* comparison; the first point always differs); per batch for batches.      *)
ChangePt(n, prev, q) ==
    LET Diff(i) == n.fields[i] \in DOMAIN q.fields /\ GetOr(prev, n.fields[i], NoneV) # q.fields[n.fields[i]]
        ds == {i \in DOMAIN n.fields : Diff(i)}
        first == IF ds = {} THEN Len(n.fields) + 1 ELSE CHOOSE i \in ds : \A j \in ds : i <= j
        \* the fields are looked at in order up to the first change; a listed field the point lacks is reported
        e == Cardinality({i \in DOMAIN n.fields : i < first /\ n.fields[i] \notin DOMAIN q.fields})
    IN IF ds # {} THEN [st |-> q.fields, out |-> <<q>>, err |-> e]
       ELSE [st |-> prev, out |-> <<>>, err |-> e]
ChangeDetectOp(n, st, m) ==
    IF m.mk = "p"
    THEN LET r == ChangePt(n, GetOr(st, m.group, <<>>), m) IN RE(Put(st, m.group, r.st), r.out, r.err)
    ELSE LET r == FoldPts(LAMBDA s, q : ChangePt(n, s, q), <<>>, m.pts) IN RE(st, <<[m EXCEPT !.pts = r.out]>>, r.err)

(* ---- stateCount / stateDuration: consecutive points of the group for     *)
(* which the predicate holds; -1 when it does not; an evaluation error      *)
(* drops the point and leaves the state alone; reset per batch.             *)
CountPt(n, c, q) ==
    LET p == Pred(n.lam, q.tags, q.fields) IN
    IF p = "E" THEN [st |-> c, out |-> <<>>, err |-> 1]
    ELSE IF p = "F" THEN [st |-> 0, err |-> 0, out |-> <<[q EXCEPT !.fields = Put(q.fields, n.as, IntV(-1))]>>]
    ELSE [st |-> c + 1, err |-> 0, out |-> <<[q EXCEPT !.fields = Put(q.fields, n.as, IntV(c + 1))]>>]
StateCountOp(n, st, m) ==
    IF m.mk = "p"
    THEN LET r == CountPt(n, GetOr(st, m.group, 0), m) IN RE(Put(st, m.group, r.st), r.out, r.err)
    ELSE LET r == FoldPts(LAMBDA s, q : CountPt(n, s, q), 0, m.pts) IN RE(st, <<[m EXCEPT !.pts = r.out]>>, r.err)

NoStart == [has |-> FALSE, t |-> 0]
DurPt(n, s, q) ==
    LET p == Pred(n.lam, q.tags, q.fields) IN
    IF p = "E" THEN [st |-> s, out |-> <<>>, err |-> 1]
    ELSE IF p = "F" THEN [st |-> NoStart, err |-> 0, out |-> <<[q EXCEPT !.fields = Put(q.fields, n.as, FloatV(-Scale))]>>]
    ELSE LET start == IF s.has THEN s.t ELSE q.t
         IN [st |-> [has |-> TRUE, t |-> start], err |-> 0,
             out |-> <<[q EXCEPT !.fields = Put(q.fields, n.as, FloatV(ExactDiv((q.t - start) * Scale, n.unit)))]>>]
StateDurationOp(n, st, m) ==
    IF m.mk = "p"
    THEN LET r == DurPt(n, GetOr(st, m.group, NoStart), m) IN RE(Put(st, m.group, r.st), r.out, r.err)
    ELSE LET r == FoldPts(LAMBDA s, q : DurPt(n, s, q), NoStart, m.pts) IN RE(st, <<[m EXCEPT !.pts = r.out]>>, r.err)

(* ---- flatten: the points of a group with the same (rounded) time become  *)
(* one point whose fields are named <tag values joined>.<field>; a point    *)
(* without one of the tags is skipped.  The result carries the group's      *)
(* tags only.  A bucket is emitted when a point with another time arrives   *)
(* (stream) or at the end of the batch.                                     *)
RECURSIVE JoinVals(_, _, _, _)
JoinVals(tags, on, delim, i) ==
    IF i > Len(on) THEN ""
    ELSE (IF i > 1 THEN delim ELSE "") \o tags[on[i]] \o JoinVals(tags, on, delim, i + 1)
FlatFields(n, pts) ==
    FoldLeft(LAMBDA a, q :
        IF \E d \in SeqSet(n.on) : d \notin DOMAIN q.tags THEN [a EXCEPT !.err = @ + 1]
        ELSE LET prefix == JoinVals(q.tags, n.on, n.delim, 1)
                 Key(fn) == IF n.drop THEN prefix ELSE IF prefix = "" THEN fn ELSE prefix \o n.delim \o fn
                 new == [k \in {Key(fn) : fn \in DOMAIN q.fields} |->
                            q.fields[CHOOSE fn \in DOMAIN q.fields : Key(fn) = k]]
             IN [f |-> Over(a.f, new), amb |-> a.amb \/ (n.drop /\ Cardinality(DOMAIN q.fields) > 1), err |-> a.err],
        [f |-> <<>>, amb |-> FALSE, err |-> 0], pts)

FlattenOp(n, st, m) ==
    IF m.mk = "p"
    THEN LET t == RoundT(m.t, n.tol, n.zr)
             g == m.group
             b == IF g \in DOMAIN st THEN st[g]
                  ELSE [time |-> t, name |-> m.name, gtags |-> GroupTags(m), dims |-> m.dims, byName |-> m.byName, pts |-> <<>>]
             q == BP(m.tags, m.fields, t)
         IN IF t = b.time THEN R(Put(st, g, [b EXCEPT !.pts = Append(@, q)]), <<>>)
            ELSE IF Len(b.pts) = 0 THEN R(Put(st, g, [b EXCEPT !.time = t, !.pts = <<q>>]), <<>>)
            ELSE LET ff == FlatFields(n, b.pts) IN
                 IF DOMAIN ff.f = {} THEN RE(Put(st, g, [b EXCEPT !.time = t, !.pts = <<q>>]), <<>>, ff.err)
                 ELSE [R(Put(st, g, [b EXCEPT !.time = IF b.time > t THEN b.time ELSE t, !.pts = <<q>>]),
                         <<MkPoint(b.name, b.gtags, ff.f, b.time, b.dims, b.byName)>>) EXCEPT !.amb = ff.amb, !.err = ff.err]
    ELSE LET step(s, q0) ==
                 LET t == RoundT(q0.t, n.tol, n.zr)  q == BP(q0.tags, q0.fields, t) IN
                 IF t = s.time THEN [s EXCEPT !.pts = Append(@, q)]
                 ELSE IF Len(s.pts) = 0 THEN [s EXCEPT !.time = t, !.pts = <<q>>]
                 ELSE LET ff == FlatFields(n, s.pts)
                      IN [time |-> t, pts |-> <<q>>, amb |-> s.amb \/ ff.amb, err |-> s.err + ff.err,
                          out |-> IF DOMAIN ff.f = {} THEN s.out ELSE Append(s.out, BP(m.tags, ff.f, s.time))]
             z == FoldLeft(step, [time |-> None, pts |-> <<>>, out |-> <<>>, amb |-> FALSE, err |-> 0], m.pts)
             fin == FlatFields(n, z.pts)
             out == IF Len(z.pts) > 0 THEN Append(z.out, BP(m.tags, fin.f, z.time)) ELSE z.out
         IN [R(st, <<[m EXCEPT !.pts = out]>>) EXCEPT !.amb = z.amb \/ (Len(z.pts) > 0 /\ fin.amb),
                                                      !.err = z.err + (IF Len(z.pts) > 0 THEN fin.err ELSE 0)]

(* ---- combine: the points of a group with the same (rounded) time are     *)
(* combined: for every k-subset (k = number of expressions, in index        *)
(* order) expression s takes the first not yet taken point it matches; a    *)
(* complete assignment gives one point with fields/tags prefixed by the     *)
(* as() names (dimension tags keep their name).  Always emits stream points.*)
RECURSIVE Combs(_, _, _)
Combs(lo, hi, k) ==
    IF k = 0 THEN << <<>> >>
    ELSE IF lo > hi THEN <<>>
    ELSE LET with == Combs(lo + 1, hi, k - 1)
         IN [i \in DOMAIN with |-> <<lo>> \o with[i]] \o Combs(lo + 1, hi, k)
RECURSIVE Pick(_, _, _, _)
Pick(mt, idx, s, k) ==       \* 0 marks "no point for expression s"
    IF s > k THEN <<>>
    ELSE LET cand == SelectSeq(idx, LAMBDA i : mt[s][i]) IN
         IF Len(cand) = 0 THEN <<0>>
         ELSE <<cand[1]>> \o Pick(mt, SelectSeq(idx, LAMBDA i : i # cand[1]), s + 1, k)
CombineAll(n, b, pts) ==
    LET k == Len(n.lams)  N == Len(pts) IN
    LET predErrs == Cardinality({<<s, i>> \in (1..k) \X (1..N) : Pred(n.lams[s], pts[i].tags, pts[i].fields) = "E"}) IN
    IF N = 0 THEN [out |-> <<>>, err |-> 0]
    ELSE IF N < k THEN [out |-> <<>>, err |-> predErrs]
    ELSE LET cs == Combs(1, N, k) IN
         IF Len(cs) > n.max THEN [out |-> <<>>, err |-> 1]  \* "an error is logged and the combinations are not calculated"
         ELSE LET mt == [s \in 1..k |-> [i \in 1..N |-> Pass(n.lams[s], pts[i])]]
                  dimset == SeqSet(b.dims)
                  One(c) ==
                      LET pk == Pick(mt, c, 1, k) IN
                      IF 0 \in SeqSet(pk) THEN <<>>
                      ELSE LET fs == FoldLeft(LAMBDA a, s :
                                        LET pre == n.as[s] \o n.delim  f == pts[pk[s]].fields
                                        IN Over(a, [x \in {pre \o y : y \in DOMAIN f} |-> f[CHOOSE y \in DOMAIN f : pre \o y = x]]),
                                        <<>>, [s \in 1..k |-> s])
                               TK(s, y) == IF y \in dimset THEN y ELSE n.as[s] \o n.delim \o y
                               ts == FoldLeft(LAMBDA a, s :
                                        LET tg == pts[pk[s]].tags
                                        IN Over(a, [x \in {TK(s, y) : y \in DOMAIN tg} |-> tg[CHOOSE y \in DOMAIN tg : TK(s, y) = x]]),
                                        <<>>, [s \in 1..k |-> s])
                           IN <<MkPoint(b.name, ts, fs, pts[pk[1]].t, b.dims, b.byName)>>
              IN [out |-> FlattenSeq([i \in DOMAIN cs |-> One(cs[i])]), err |-> predErrs]

CombineOp(n, st, m) ==
    IF m.mk = "p"
    THEN LET t == RoundT(m.t, n.tol, n.zr)
             g == m.group
             b == IF g \in DOMAIN st THEN st[g]
                  ELSE [time |-> None, name |-> m.name, dims |-> m.dims, byName |-> m.byName, pts |-> <<>>]
             q == BP(m.tags, m.fields, t)
         IN IF t = b.time THEN R(Put(st, g, [b EXCEPT !.pts = Append(@, q)]), <<>>)
            ELSE LET c == CombineAll(n, b, b.pts)
                 IN RE(Put(st, g, [b EXCEPT !.time = t, !.pts = <<q>>]), c.out, c.err)
    ELSE LET b == [name |-> m.name, dims |-> m.dims, byName |-> m.byName]
             step(s, q0) ==
                 LET t == RoundT(q0.t, n.tol, n.zr)  q == BP(q0.tags, q0.fields, t) IN
                 IF t = s.time THEN [s EXCEPT !.pts = Append(@, q)]
                 ELSE LET c == CombineAll(n, b, s.pts)
                      IN [time |-> t, pts |-> <<q>>, out |-> s.out \o c.out, err |-> s.err + c.err]
             z == FoldLeft(step, [time |-> None, pts |-> <<>>, out |-> <<>>, err |-> 0], m.pts)
             fin == CombineAll(n, b, z.pts)
         IN RE(st, z.out \o fin.out, z.err + fin.err)

(* ---- groupBy: the dimensions become the listed tags, or with * all tags  *)
(* of the point minus the excluded ones; byMeasurement() adds the name.     *)
(* Documented: without byMeasurement() the measurement leaves the group;    *)
(* deviation "groupby-keeps-bymeasurement": it stays once it was there.     *)
(* Batches are regrouped point by point and emitted when a batch with a     *)
(* different time arrives (in no particular order across groups).           *)
GBDims(n, tags) ==
    IF n.star THEN SortNames(DOMAIN tags \ SeqSet(n.excl)) ELSE SortNames(SeqSet(n.dims))
GBByName(n, was, kp) == n.byName \/ (kp /\ was)
RECURSIVE InsertByT(_, _)
InsertByT(s, q) ==
    IF s = <<>> THEN <<q>>
    ELSE IF Last(s).t <= q.t THEN Append(s, q)
    ELSE Append(InsertByT(SubSeq(s, 1, Len(s) - 1), q), Last(s))
SortByT(s) == FoldLeft(InsertByT, <<>>, s)

GroupByOp(n, st, m, kp) ==
    LET bn == GBByName(n, m.byName, kp)
        hit == IF m.byName /\ ~n.byName /\ kp THEN {"groupby-keeps-bymeasurement"} ELSE {} IN
    IF m.mk = "p"
    THEN [R(st, <<Regroup([m EXCEPT !.dims = GBDims(n, m.tags), !.byName = bn])>>) EXCEPT !.kf = hit]
    ELSE LET s0 == IF st = <<>> THEN [last |-> None, groups |-> <<>>] ELSE st
             flush == m.tmax # s0.last
             out == IF flush THEN [i \in DOMAIN s0.groups |-> [s0.groups[i] EXCEPT !.pts = SortByT(@)]] ELSE <<>>
             g0 == IF flush THEN <<>> ELSE s0.groups
             add(gs, q) ==
                 LET dims == GBDims(n, q.tags)
                     gid == GroupId(m.name, q.tags, dims, bn)
                 IN IF \E i \in DOMAIN gs : gs[i].group = gid
                    THEN [i \in DOMAIN gs |-> IF gs[i].group = gid THEN [gs[i] EXCEPT !.pts = Append(@, q)] ELSE gs[i]]
                    ELSE Append(gs, MkBatch(m.name, [d \in SeqSet(dims) |-> GetOr(q.tags, d, "")], dims, bn, m.tmax, <<q>>))
         IN [R([last |-> m.tmax, groups |-> FoldLeft(add, g0, m.pts)], out)
               EXCEPT !.kf = IF Len(m.pts) > 0 THEN hit ELSE {}]

Op(n, st, m, kp) ==
    CASE n.k = "tap"           -> R(st, <<m>>)
      [] n.k = "where"         -> WhereOp(n, st, m)
      [] n.k = "eval"          -> EvalOp(n, st, m)
      [] n.k = "default"       -> DefaultOp(n, st, m)
      [] n.k = "delete"        -> DeleteOp(n, st, m)
      [] n.k = "shift"         -> ShiftOp(n, st, m)
      [] n.k = "sample"        -> SampleOp(n, st, m)
      [] n.k = "derivative"    -> DerivativeOp(n, st, m)
      [] n.k = "changeDetect"  -> ChangeDetectOp(n, st, m)
      [] n.k = "stateCount"    -> StateCountOp(n, st, m)
      [] n.k = "stateDuration" -> StateDurationOp(n, st, m)
      [] n.k = "flatten"       -> FlattenOp(n, st, m)
      [] n.k = "combine"       -> CombineOp(n, st, m)
      [] n.k = "groupBy"       -> GroupByOp(n, st, m, kp)

(***************************************************************************)
(* Part 3: Ref - a pipeline is the composition of its operators             *)
(***************************************************************************)
RECURSIVE OutBatch(_, _, _)
OutBatch(s, ns, i) ==        \* does node i (0 = source) emit batches?
    IF i = 0 THEN s.batch ELSE OutBatch(s, ns, ns[i].parent) /\ ns[i].k # "combine"
RECURSIVE HasBatchGroupByAbove(_, _, _)
HasBatchGroupByAbove(s, ns, i) ==
    IF i = 0 THEN FALSE
    ELSE (ns[i].k = "groupBy" /\ OutBatch(s, ns, ns[i].parent)) \/ HasBatchGroupByAbove(s, ns, ns[i].parent)
(* The order in which a batch groupBy emits its groups is unspecified, so   *)
(* the order of equal-time points inside the batches of a second batch      *)
(* groupBy below it is not unique: no reference from there on.              *)
Amb0(s, ns) ==
    LET A[i \in 0..Len(ns)] ==
          IF i = 0 THEN FALSE
          ELSE A[ns[i].parent] \/ (ns[i].k = "groupBy" /\ OutBatch(s, ns, ns[i].parent)
                                   /\ HasBatchGroupByAbove(s, ns, ns[i].parent))
    IN [i \in 1..(Len(ns) + 1) |-> A[i - 1]]

OpSeq(n, st, ms, kp) ==
    FoldLeft(LAMBDA a, m : LET r == Op(n, a.st, m, kp)
                           IN [st |-> r.st, out |-> a.out \o r.out, amb |-> a.amb \/ r.amb, kf |-> a.kf \cup r.kf, err |-> a.err + r.err],
             [st |-> st, out |-> <<>>, amb |-> FALSE, kf |-> {}, err |-> 0], ms)

(* One source message through the whole tree (parents before children).     *)
Through(in) ==
    LET N == Len(nodes)
        X[i \in 0..N] ==
          IF i = 0 THEN [nst |-> nst, outs |-> << <<FromSource(src, in)>> >>, amb |-> amb, kf |-> {}, errs |-> nerrs]
          ELSE LET p == X[i - 1]
                   par == nodes[i].parent + 1
                   r == OpSeq(nodes[i], p.nst[i], p.outs[par], keeps)
               IN [nst |-> [p.nst EXCEPT ![i] = r.st],
                   outs |-> Append(p.outs, r.out),
                   amb |-> [p.amb EXCEPT ![i + 1] = @ \/ p.amb[par] \/ r.amb],
                   kf |-> p.kf \cup r.kf,
                   errs |-> [p.errs EXCEPT ![i] = @ + r.err]]
    IN X[N]

RefStart(s, ns, ord, kp) ==
    /\ src' = s /\ nodes' = ns /\ order' = ord /\ keeps' = kp
    /\ nst' = [i \in 1..Len(ns) |-> <<>>]
    /\ acc' = [i \in 1..(Len(ns) + 1) |-> <<>>]
    /\ amb' = Amb0(s, ns)
    /\ kfhit' = {}
    /\ nerrs' = [i \in 1..Len(ns) |-> 0]
RefFeed(in) ==
    LET x == Through(in) IN
    /\ nst' = x.nst
    /\ acc' = [i \in DOMAIN acc |-> acc[i] \o x.outs[i]]
    /\ amb' = x.amb
    /\ kfhit' = kfhit \cup x.kf
    /\ nerrs' = x.errs
    /\ UNCHANGED <<order, src, nodes, keeps>>

(* Shape of everything a sink can see.                                      *)
ValOK(v) == v.t \in FieldTypes /\ (v.t = "string" \/ v.s = "") /\ (v.t # "string" \/ v.i = 0)
           /\ (v.t = "bool" => v.i \in {0, 1})
FieldsOK(f) == \A k \in DOMAIN f : ValOK(f[k])
ShapeOK(m) ==
    /\ m.group = GroupId(m.name, m.tags, m.dims, m.byName)
    /\ m.dims = SortNames(SeqSet(m.dims))
    /\ IF m.mk = "p" THEN FieldsOK(m.fields)
       ELSE /\ DOMAIN m.tags = SeqSet(m.dims)
            /\ \A i \in DOMAIN m.pts : FieldsOK(m.pts[i].fields)
OutputsWellFormed == \A i \in DOMAIN acc : \A k \in DOMAIN acc[i] : ShapeOK(acc[i][k])
(* Edge typing: a sink sees batches iff its node emits batches.             *)
EdgeKindOK == \A i \in DOMAIN acc : \A k \in DOMAIN acc[i] :
                 (acc[i][k].mk = "b") = OutBatch(src, nodes, i - 1)

(***************************************************************************)
(* Part 4: Impl - node processes, input queues, shared message objects      *)
(***************************************************************************)
Children(i) == {j \in DOMAIN nodes : nodes[j].parent = i}
Push(q, i, ids) == [j \in DOMAIN q |-> IF j \in Children(i) THEN q[j] \o ids ELSE q[j]]

Init ==
    \E pi \in DOMAIN Pipes :
        /\ src = Pipes[pi].src /\ nodes = Pipes[pi].nodes /\ order = Pipes[pi].order
        /\ keeps = FALSE /\ kfhit = {}
        /\ nerrs = [i \in 1..Len(Pipes[pi].nodes) |-> 0]
        /\ nst = [i \in 1..Len(Pipes[pi].nodes) |-> <<>>]
        /\ acc = [i \in 1..(Len(Pipes[pi].nodes) + 1) |-> <<>>]
        /\ amb = [i \in 1..(Len(Pipes[pi].nodes) + 1) |-> FALSE]
        /\ fed = <<pi>>
        /\ queue = [i \in 1..Len(Pipes[pi].nodes) |-> <<>>]
        /\ ist = [i \in 1..Len(Pipes[pi].nodes) |-> <<>>]
        /\ store = <<>> /\ nextId = 1
        /\ seen = [i \in 1..(Len(Pipes[pi].nodes) + 1) |-> <<>>]

Feed ==
    /\ Len(fed) <= MaxIn
    /\ \E a \in DOMAIN Pipes[fed[1]].alpha :
         LET in == Pipes[fed[1]].alpha[a]
             m0 == FromSource(src, in)
         IN /\ fed' = Append(fed, a)
            /\ store' = Append(store, m0)
            /\ nextId' = nextId + 1
            /\ seen' = [seen EXCEPT ![1] = Append(@, [id |-> nextId, snap |-> m0])]
            /\ queue' = Push(queue, 0, <<nextId>>)
            /\ RefFeed(in)
            /\ UNCHANGED ist

(* A node takes one message off its queue.  Copy discipline: an unchanged   *)
(* message is forwarded as the same object; a changed one is a new object,  *)
(* unless the node's kind is in InPlace (the seeded aliasing bug), in which *)
(* case a one-to-one transformation overwrites the received object.         *)
Step(i) ==
    /\ queue[i] # <<>>
    /\ LET id == Head(queue[i])
           m == store[id]
           r == Op(nodes[i], ist[i], m, keeps)
           inplace == nodes[i].k \in InPlace /\ Len(r.out) = 1
           Alloc[k \in 0..Len(r.out)] ==      \* [store, ids] after placing the first k outputs
               IF k = 0 THEN [store |-> store, ids |-> <<>>]
               ELSE LET p == Alloc[k - 1]  o == r.out[k] IN
                    IF o = m THEN [store |-> p.store, ids |-> Append(p.ids, id)]
                    ELSE IF inplace THEN [store |-> [p.store EXCEPT ![id] = o], ids |-> Append(p.ids, id)]
                    ELSE [store |-> Append(p.store, o), ids |-> Append(p.ids, Len(p.store) + 1)]
           a == Alloc[Len(r.out)]
       IN /\ ist' = [ist EXCEPT ![i] = r.st]
          /\ store' = a.store
          /\ nextId' = Len(a.store) + 1
          /\ seen' = [seen EXCEPT ![i + 1] = @ \o [k \in DOMAIN r.out |-> [id |-> a.ids[k], snap |-> r.out[k]]]]
          /\ queue' = Push([queue EXCEPT ![i] = Tail(@)], i, a.ids)
    /\ UNCHANGED <<fed, rvars>>

Next == Feed \/ \E i \in DOMAIN nodes : Step(i)
Spec == Init /\ [][Next]_vars

Quiescent == \A i \in DOMAIN queue : queue[i] = <<>>
(* Pipelined execution = composition of the operators.                      *)
ImplMatchesRef ==
    Quiescent => \A s \in DOMAIN seen : [k \in DOMAIN seen[s] |-> seen[s][k].snap] = acc[s]
(* What waits in a child's queue is still what its parent emitted: no       *)
(* sibling (and nobody else) has changed the shared message.                *)
LastSnap(s, id) == LET ks == {k \in DOMAIN seen[s] : seen[s][k].id = id}
                   IN seen[s][CHOOSE k \in ks : \A k2 \in ks : k2 <= k].snap
NoSiblingInterference ==
    \A j \in DOMAIN queue : \A k \in DOMAIN queue[j] :
        store[queue[j][k]] = LastSnap(nodes[j].parent + 1, queue[j][k])
TypeOK ==
    /\ nextId = Len(store) + 1
    /\ \A i \in DOMAIN queue : \A k \in DOMAIN queue[i] : queue[i][k] \in DOMAIN store
=============================================================================
