------------------------------ MODULE NodesMC ------------------------------
(* Small constants for the exhaustive check of Nodes: pipelines from the    *)
(* catalogue (chains, forks, stream and batch), tiny input alphabets.       *)
EXTENDS Nodes

MCNone == -1000000
I(i) == [t |-> "int", i |-> i, s |-> ""]
Fl(i) == [t |-> "float", i |-> i, s |-> ""]

SP(h, p, t, f) == [name |-> "m", tags |-> [h |-> h, p |-> p], fields |-> f, t |-> t]
StreamAlpha == <<
    SP("a", "x", 0, [v |-> I(1)]),
    SP("a", "y", 1, [v |-> I(3), w |-> I(1)]),
    SP("b", "x", 1, [v |-> Fl(1536)]),
    [name |-> "m", tags |-> [h |-> "a"], fields |-> [w |-> I(2)], t |-> 2] >>
BPt(h, p, t, f) == [tags |-> [h |-> h, p |-> p], fields |-> f, t |-> t]
BatchAlpha == <<
    [name |-> "m", tags |-> [h |-> "a"], byName |-> FALSE, tmax |-> 10,
     pts |-> <<BPt("a", "x", 0, [v |-> I(1)]), BPt("a", "y", 0, [v |-> I(2), w |-> I(1)]), BPt("a", "x", 2, [v |-> I(4)])>>],
    [name |-> "m", tags |-> [h |-> "b"], byName |-> FALSE, tmax |-> 10,
     pts |-> <<BPt("b", "x", 1, [v |-> Fl(512)])>>],
    [name |-> "m", tags |-> [h |-> "a"], byName |-> FALSE, tmax |-> 20,
     pts |-> <<BPt("a", "y", 11, [v |-> I(2)]), BPt("a", "x", 11, [v |-> I(1)])>>] >>

SrcS == [batch |-> FALSE, dims |-> <<"h">>, byName |-> FALSE, trunc |-> 0, tzr |-> 0]
SrcB == [batch |-> TRUE, dims |-> <<"h">>, byName |-> FALSE, trunc |-> 0, tzr |-> 0]
Ord == <<"g", "h", "l.p", "p", "r.p">>

Where(p, lam) == [k |-> "where", parent |-> p, lam |-> lam]
Eval(p, lams, as, tags, keep, kl) == [k |-> "eval", parent |-> p, lams |-> lams, as |-> as, tags |-> tags, keep |-> keep, keepList |-> kl, quiet |-> FALSE]
Default(p, f, t) == [k |-> "default", parent |-> p, fields |-> f, tags |-> t]
Delete(p, f, t) == [k |-> "delete", parent |-> p, fields |-> f, tags |-> t]
Shift(p, d) == [k |-> "shift", parent |-> p, d |-> d]
Sample(p, n, d) == [k |-> "sample", parent |-> p, n |-> n, d |-> d, zr |-> 0]
Deriv(p, as, unit, nn) == [k |-> "derivative", parent |-> p, field |-> "v", as |-> as, unit |-> unit, nonNeg |-> nn]
Change(p, fs) == [k |-> "changeDetect", parent |-> p, fields |-> fs]
SCount(p, lam, as) == [k |-> "stateCount", parent |-> p, lam |-> lam, as |-> as]
SDur(p, lam, as, unit) == [k |-> "stateDuration", parent |-> p, lam |-> lam, as |-> as, unit |-> unit]
Flat(p, on, tol, drop) == [k |-> "flatten", parent |-> p, on |-> on, delim |-> ".", tol |-> tol, zr |-> 0, drop |-> drop]
Comb(p, lams, tol, max) == [k |-> "combine", parent |-> p, lams |-> lams, as |-> <<"l", "r">>, delim |-> ".", tol |-> tol, zr |-> 0, max |-> max]
GroupBy(p, dims, star, excl, bn) == [k |-> "groupBy", parent |-> p, dims |-> dims, star |-> star, excl |-> excl, byName |-> bn]
Tap(p) == [k |-> "tap", parent |-> p]

Pipe(s, ns) == [src |-> s, nodes |-> ns, order |-> Ord, alpha |-> IF s.batch THEN BatchAlpha ELSE StreamAlpha]

AllPipes == <<
    \* chains
    Pipe(SrcS, <<Where(0, "vgt1"), Eval(1, <<"dbl", "aa">>, <<"a", "b">>, <<>>, TRUE, <<>>)>>),
    Pipe(SrcS, <<Deriv(0, "v", 1, FALSE), SCount(1, "vgt1", "sc")>>),
    Pipe(SrcS, <<Sample(0, 2, 0), Change(1, <<"v">>), SDur(2, "vne15", "sd", 1)>>),
    Pipe(SrcS, <<Comb(0, <<"pEqX", "true">>, 0, 10), GroupBy(1, <<>>, TRUE, <<"h">>, TRUE)>>),
    Pipe(SrcS, <<Flat(0, <<"p">>, 2, FALSE), Delete(1, <<"x.v">>, <<"h">>)>>),
    Pipe(SrcB, <<GroupBy(0, <<"p">>, FALSE, <<>>, FALSE), Deriv(1, "d", 2, TRUE)>>),
    Pipe(SrcB, <<Flat(0, <<"p">>, 0, FALSE), Default(1, [w |-> I(7)], [p |-> "z"])>>),
    Pipe(SrcB, <<Sample(0, 2, 0), Comb(1, <<"true", "true">>, 2, 2), Shift(2, 1)>>),
    \* forks: one shared message, two children
    Pipe(SrcS, <<Default(0, [w |-> I(7)], [p |-> "z"]), Tap(0)>>),
    Pipe(SrcS, <<Tap(0), Eval(0, <<"tp", "vv">>, <<"g", "v">>, <<"g">>, FALSE, <<>>)>>),
    Pipe(SrcS, <<Eval(0, <<"dbl">>, <<"v">>, <<>>, FALSE, <<>>), Shift(1, 1), Delete(1, <<"v">>, <<"h">>), Where(1, "vgt1")>>),
    Pipe(SrcB, <<Shift(0, -1), Delete(0, <<"w">>, <<"p">>), Tap(0)>>),
    Pipe(SrcB, <<Where(0, "pEqX"), Default(1, [v |-> Fl(1536)], [h |-> "c"]), SCount(1, "vgt1", "sc")>>)
>>
QuickPipes == <<AllPipes[1], AllPipes[2], AllPipes[4], AllPipes[6], AllPipes[7], AllPipes[9], AllPipes[11], AllPipes[12]>>
ForkPipes == <<AllPipes[9], AllPipes[12]>>
=============================================================================
