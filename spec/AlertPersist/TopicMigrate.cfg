SPECIFICATION MSpec
CONSTANTS
    Keys <- MCKeys
    RemoveStaleBackup = TRUE
INVARIANTS
    MTypeOK
    Restartable
    Durable
    Migrated
CHECK_DEADLOCK FALSE
