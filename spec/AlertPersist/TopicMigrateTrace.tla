------------------------- MODULE TopicMigrateTrace -------------------------
(* Verdict-level trace specification for driver c08mig: after a crash at any *)
(* commit boundary of Service.Open on a V1 store (database and backup file   *)
(* as they stood), a fresh service opens, and opens again, and reports        *)
(* exactly the V1 levels (an unknown ID counts as OK).                        *)
EXTENDS Integers, Sequences, FiniteSets, TLC, TraceCommon

VARIABLES l, v1
Ln == Trace[l]
IsEv(e) == l <= Len(Trace) /\ Ln.ev = e /\ l' = l + 1
LvlOf(s, id) == IF \E i \in DOMAIN s : s[i][1] = id THEN s[CHOOSE i \in DOMAIN s : s[i][1] = id][2] ELSE 0
V1Lvl(t, id) == IF \E i \in DOMAIN v1 : v1[i][1] = t /\ v1[i][2] = id
                THEN v1[CHOOSE i \in DOMAIN v1 : v1[i][1] = t /\ v1[i][2] = id][3] ELSE 0
MTopics == {"A", "AB"}
MIds == {"a", "ab"}
SameLevels(o) == \A t \in MTopics, id \in MIds : LvlOf(o[t], id) = V1Lvl(t, id)
OnlyKnown(o) == \A t \in MTopics : \A i \in DOMAIN o[t] : o[t][i][1] \in MIds /\ o[t][i][2] \in 0..3

TInit == l = 1 /\ v1 = <<>> /\ HWInit
TReset == IsEv("Reset") /\ v1' = Ln.v1
TOpen == IsEv("Open") /\ OnlyKnown(Ln.state) /\ SameLevels(Ln.state) /\ UNCHANGED v1
TCrashAt == IsEv("CrashAt") /\ UNCHANGED v1
TReopen == IsEv("Reopen") /\ Ln.ok /\ OnlyKnown(Ln.state) /\ SameLevels(Ln.state) /\ UNCHANGED v1
TNext == TReset \/ TOpen \/ TCrashAt \/ TReopen
TSpec == TInit /\ [][TNext]_<<l, v1>>
HW == HWMark(l)
Accepted == HWAccepted
=============================================================================
