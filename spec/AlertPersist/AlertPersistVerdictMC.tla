----------------------- MODULE AlertPersistVerdictMC -----------------------
EXTENDS AlertPersistVerdict
MCIds == {"a", "b"}
=============================================================================
