SPECIFICATION XSpec
CONSTANTS
    Ids <- MCIds
    SharedSlot = TRUE
INVARIANTS
    ReadOwnTopic
    WriteOwnTopic
CHECK_DEADLOCK FALSE
