--------------------------- MODULE AlertPersistMC ---------------------------
EXTENDS AlertPersist
MCIds == {"a", "b"}
MCModesAll == {"node", "svc"}
MCModesNode == {"node"}
=============================================================================
