--------------------------- MODULE AlertPersistMC ---------------------------
EXTENDS AlertPersist
MCIds == {"a", "ab"}   \* one ID is a proper prefix of the other (the store is key-ordered)
MCModesAll == {"node", "svc"}
MCModesNode == {"node"}
=============================================================================
