------------------------- MODULE TopicStoreTxTrace -------------------------
(* Trace specification for driver c08tx: the real storage.Bolt topic store,  *)
(* one shared instance, a restore (read-only tx) and a persist / clear        *)
(* (read-write tx) or a second restore stepped through one interleaving of    *)
(* their begin / bucket / access / end steps; then a fresh alert service is   *)
(* opened on the file (restart).  Every list result and the restarted state   *)
(* must be what TopicStoreTx's rule says.                                     *)
EXTENDS TopicStoreTx, TraceCommon

VARIABLE l
Ln == Trace[l]
IsEv(e) == l <= Len(Trace) /\ Ln.ev = e /\ l' = l + 1

SeedLvl(s, t, id) == IF \E i \in DOMAIN s : s[i][1] = t /\ s[i][2] = id
                     THEN s[CHOOSE i \in DOMAIN s : s[i][1] = t /\ s[i][2] = id][3] ELSE Absent
ProcOf(r) == [kind |-> r[1], topic |-> r[2], id |-> r[3], lvl |-> r[4]]
PairsOf(m) == { <<id, m[id]>> : id \in {i \in Ids : m[i] # Absent} }
SameAs(o, m) == (SeqToSet(o) = PairsOf(m) /\ Len(o) = Cardinality(PairsOf(m))) = TRUE

TInit ==
    /\ disk = [t \in TTopics |-> EmptyT] /\ disk0 = disk
    /\ p = [i \in Procs |-> NoProc]
    /\ pcs = [i \in Procs |-> 0] /\ bkt = [i \in Procs |-> ""]
    /\ snap = [i \in Procs |-> disk] /\ res = [i \in Procs |-> EmptyT] /\ pend = <<>>
    /\ l = 1 /\ HWInit

TReset ==
    /\ IsEv("Reset")
    /\ disk' = [t \in TTopics |-> [id \in Ids |-> SeedLvl(Ln.seed, t, id)]]
    /\ disk0' = disk' /\ snap' = [i \in Procs |-> disk']
    /\ p' = [i \in Procs |-> IF i = 1 THEN ProcOf(Ln.p1) ELSE ProcOf(Ln.p2)]
    /\ pcs' = [i \in Procs |-> 0] /\ bkt' = [i \in Procs |-> ""]
    /\ res' = [i \in Procs |-> EmptyT] /\ pend' = <<>>

TStep ==
    /\ IsEv("Step")
    /\ \/ Ln.step = "begin" /\ Begin(Ln.p)
       \/ Ln.step = "bucket" /\ Derive(Ln.p)
       \/ Ln.step = "access" /\ Access(Ln.p) /\ (IF Writer(Ln.p) THEN TRUE ELSE SameAs(Ln.res, res'[Ln.p]))
       \/ Ln.step = "end" /\ End(Ln.p)

TRestart ==
    /\ IsEv("Restart")
    /\ \A i \in Procs : pcs[i] = 4
    /\ \A t \in TTopics : SameAs(Ln.state[t], disk[t])
    /\ UNCHANGED xvars

TNext == TReset \/ TStep \/ TRestart
TSpec == TInit /\ [][TNext]_<<xvars, l>>
HW == HWMark(l)
Accepted == HWAccepted
=============================================================================
