SPECIFICATION TSpec
CONSTANTS
    Ids <- MCIds
    SharedSlot = FALSE
INVARIANTS
    ReadOwnTopic
    WriteOwnTopic
    NoOtherChange
CONSTRAINT HW
POSTCONDITION Accepted
CHECK_DEADLOCK FALSE
