SPECIFICATION Spec
CONSTANTS
    Ids <- MCIds
    Modes <- MCModesAll
    Times = {0}
    MaxPoints = 4
    MaxCrashes = 2
    MaxTaskRestarts = 1
    KnownDeviation = TRUE
INVARIANTS
    TypeOK
    ResumeLevel
    DiskNonOK
    NodeResume
    FinalStateEq
    NoSilentMiss
    SvcStateEq
CHECK_DEADLOCK FALSE
