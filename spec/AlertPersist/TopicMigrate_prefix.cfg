SPECIFICATION MSpec
CONSTANTS
    Keys <- MCKeys
    RemoveStaleBackup = FALSE
INVARIANTS
    Restartable
CHECK_DEADLOCK FALSE
