------------------------- MODULE AlertPersistTrace -------------------------
(* Drift-level trace specification for C08: the recorded two-run history of *)
(* the real alert service / AlertNode (driver c08) must be a behaviour of   *)
(* AlertPersist's code-shaped actions, with every logged observation (API   *)
(* state, handler events, committed transactions) equal to the model's.     *)
(* RestoreNode, Eval and MemCollect are silent steps between logged lines.  *)
(* A rejection here that AlertPersistVerdict accepts is model drift, not a  *)
(* violation (DESIGN.md 2.1).                                               *)
EXTENDS AlertPersist, TraceCommon

VARIABLE l
tvars == <<vars, l>>

Ln == Trace[l]
IsEv(e) == l <= Len(Trace) /\ Ln.ev = e /\ l' = l + 1

(* logged topic state: sequence of <<id, level>>; model: id -> level | Absent *)
StateOfTopic(m) == { <<id, m[id]>> : id \in {i \in Ids : m[i] # Absent} }
ObsStateIn(o, m) == \A t \in Active : SeqToSet(o[t]) = StateOfTopic(m[t]) /\ Len(o[t]) = Cardinality(StateOfTopic(m[t]))
ObsToldIn(o, tl) == \A t \in Active : o[t] = tl[t]
ObsAt(o) == ObsStateIn(o.state, mem) /\ (mode = "node" => ObsToldIn(o.told, told))
LvlOf(s, id) == IF \E i \in DOMAIN s : s[i][1] = id THEN s[CHOOSE i \in DOMAIN s : s[i][1] = id][2] ELSE 0
NormEq(o, m) == \A t \in Active, id \in Ids : LvlOf(o[t], id) = Norm(m[t][id])

CommitPending == {"per_anon", "per_named", "rpersist", "del_anon", "del_named"}

TrInit ==
    /\ mode = "node" /\ cfg = [anon |-> TRUE, named |-> TRUE, sco |-> FALSE]
    /\ mem = EmptyAll /\ closed = NoneClosed /\ disk = EmptyAll
    /\ told = NoSeqs /\ toldB = NoSeqs
    /\ node = EmptyTopic /\ pc = "idle" /\ cur = NoPoint /\ pend = NoPend /\ refeed = FALSE
    /\ n = 0 /\ crashes = 0 /\ trestarts = 0
    /\ refNode = [i \in Ids |-> 0] /\ refMem = EmptyAll
    /\ rec = EmptyAll /\ last = EmptyAll /\ kf = {}
    /\ l = 1 /\ HWInit

TrReset ==
    /\ IsEv("Reset")
    /\ mode' = IF Ln.kind = "svc" THEN "svc" ELSE "node"
    /\ cfg' = [anon |-> Ln.hasAnon, named |-> Ln.hasNamed, sco |-> Ln.sco]
    /\ mem' = EmptyAll /\ closed' = NoneClosed /\ disk' = EmptyAll
    /\ told' = NoSeqs /\ toldB' = NoSeqs
    /\ node' = EmptyTopic /\ pc' = "idle" /\ cur' = NoPoint /\ pend' = NoPend /\ refeed' = FALSE
    /\ n' = 0 /\ crashes' = 0 /\ trestarts' = 0
    /\ refNode' = [i \in Ids |-> 0] /\ refMem' = EmptyAll
    /\ rec' = EmptyAll /\ last' = EmptyAll /\ kf' = {}

TrStart == IsEv("Start") /\ pc = "idle" /\ ObsStateIn(Ln.state, mem) /\ UNCHANGED vars

TrPoint ==
    /\ IsEv("Point")
    /\ \/ refeed /\ Refeed /\ cur.id = Ln.id /\ cur.lvl = Ln.lvl /\ cur.k = Ln.k /\ cur.tm = Ln.t
       \/ ~refeed /\ Feed(Ln.id, Ln.lvl, Ln.t) /\ n = Ln.k

TrOp ==
    /\ IsEv("Op")
    /\ \/ Ln.op = "collect" /\ SCollect(Ln.topic, Ln.id, Ln.lvl, Ln.t)
       \/ Ln.op = "close" /\ SClose(Ln.topic)
       \/ Ln.op = "delete" /\ SDelete(Ln.topic)

(* A committed transaction of the topic store, with what was observable when it was about to start. *)
TrTx ==
    /\ IsEv("Tx")
    /\ ObsAt(Ln)
    /\ \/ /\ pc = "per_" \o Ln.topic /\ Ln.src = "collect"
          /\ Ln.id = cur.id
          /\ IF cur.lvl = 0 THEN Ln.op = "del" ELSE Ln.op = "put" /\ Ln.lvl = cur.lvl
          /\ Persist(Ln.topic)
       \/ /\ pc = "rpersist" /\ Ln.src = "update"
          /\ Ln.topic = pend.t /\ Ln.id = pend.id /\ Ln.op = "put" /\ Ln.lvl = pend.lvl
          /\ RestorePersist
       \/ /\ pc = "del_" \o Ln.topic /\ Ln.op = "delbucket"
          /\ DeleteCommit(Ln.topic)

TrPre == IsEv("Pre") /\ pc \in CommitPending /\ ObsAt(Ln) /\ UNCHANGED vars

TrDone == IsEv("Done") /\ pc = "idle" /\ ~refeed /\ ObsAt(Ln) /\ UNCHANGED vars

TrCrash ==
    /\ IsEv("Crash")
    /\ Ln.at = "before" => pc \in CommitPending
    /\ Ln.at = "after" => pc \notin CommitPending
    /\ Ln.at = "idle" => pc = "idle"
    /\ Crash
    /\ mode = "node" => Ln.resume = (IF refeed' THEN cur.k ELSE n)

TrRestart == IsEv("Restart") /\ Restart /\ ObsStateIn(Ln.state, mem')

TrTaskRestart ==
    /\ IsEv("TaskRestart")
    /\ cfg.anon => Ln.stopped["anon"] = <<>>                     \* CloseTopic: the service forgets the anonymous topic
    /\ cfg.named => SeqToSet(Ln.stopped["named"]) = StateOfTopic(mem["named"])
    /\ TaskRestart
    /\ ObsStateIn(Ln.state, mem') /\ ObsToldIn(Ln.told, told')

TrEnd ==
    /\ IsEv("End")
    /\ pc = "idle" /\ ~refeed
    /\ ObsStateIn(Ln.final2, mem)
    /\ mode = "node" => ObsToldIn(Ln.told2, told) /\ NormEq(Ln.final1, refMem)
    /\ UNCHANGED vars

TrSilent == (RestoreNode \/ Eval \/ \E t \in Topics : MemCollect(t)) /\ UNCHANGED l

TrNext == TrReset \/ TrStart \/ TrPoint \/ TrOp \/ TrTx \/ TrPre \/ TrDone \/ TrCrash \/ TrRestart
          \/ TrTaskRestart \/ TrEnd \/ TrSilent
TrSpec == TrInit /\ [][TrNext]_tvars

HW == HWMark(l)
Accepted == HWAccepted
=============================================================================
