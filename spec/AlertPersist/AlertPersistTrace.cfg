SPECIFICATION TrSpec
CONSTANTS
    Ids <- MCIds
    Modes <- MCModesAll
    Times = {0}
    MaxPoints = 1000000
    MaxCrashes = 1000000
    MaxTaskRestarts = 1000000
    KnownDeviation = TRUE
INVARIANTS
    TypeOK
    ResumeLevel
    DiskNonOK
    NodeResume
    FinalStateEq
    NoSilentMiss
    SvcStateEq
CONSTRAINT HW
POSTCONDITION Accepted
CHECK_DEADLOCK FALSE
