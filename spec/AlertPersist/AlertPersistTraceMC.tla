------------------------ MODULE AlertPersistTraceMC ------------------------
EXTENDS AlertPersistTrace
MCIds == {"a", "b"}
MCModesAll == {"node", "svc"}
=============================================================================
