SPECIFICATION XSpec
CONSTANTS
    Ids <- MCIds
    SharedSlot = FALSE
INVARIANTS
    ReadOwnTopic
    WriteOwnTopic
    NoOtherChange
CHECK_DEADLOCK FALSE
