---------------------------- MODULE TopicMigrate ----------------------------
(* C08, neighbouring behaviour: the one-time V1 -> V2 topic store migration   *)
(* in Service.Open (services/alert/migrate_topic_store.go) under crashes.     *)
(*   backup := copy of the database (exclusive create)                        *)
(*   tx1: copy every V1 topic state into the V2 store                         *)
(*   tx2: delete the V1 topic states        (+ index rebuild)                 *)
(*   tx3: set topic_store_version = 2                                         *)
(*   remove the backup                                                        *)
(* A crash keeps the database as committed so far *and the backup file*.      *)
(* RemoveStaleBackup = FALSE is the code before fix 504e8c9: a start that     *)
(* finds a backup fails ("cannot backup v1 topic store ... file exists").     *)
EXTENDS Integers, FiniteSets, TLC

CONSTANTS Keys,              \* (topic, id) pairs
          RemoveStaleBackup  \* BOOLEAN

Absent == -1
Cell == 0..3 \cup {Absent}
Empty == [k \in Keys |-> Absent]

VARIABLES orig, v1, v2, ver, bak, pc, crashes
mvars == <<orig, v1, v2, ver, bak, pc, crashes>>

Norm(x) == IF x = Absent THEN 0 ELSE x

MInit ==
    /\ orig \in [Keys -> Cell] /\ v1 = orig /\ v2 = Empty
    /\ ver = "" /\ bak = FALSE /\ pc = "start" /\ crashes = 0

Start ==
    /\ pc = "start"
    /\ IF ver = "2" THEN pc' = "up" /\ UNCHANGED bak
       ELSE IF bak /\ ~RemoveStaleBackup THEN pc' = "failed" /\ UNCHANGED bak
       ELSE pc' = "copy" /\ bak' = TRUE
    /\ UNCHANGED <<orig, v1, v2, ver, crashes>>
Copy ==
    /\ pc = "copy"
    /\ v2' = [k \in Keys |-> IF v1[k] # Absent THEN v1[k] ELSE v2[k]]
    /\ pc' = "delete" /\ UNCHANGED <<orig, v1, ver, bak, crashes>>
Delete ==
    /\ pc = "delete" /\ v1' = Empty
    /\ pc' = "setver" /\ UNCHANGED <<orig, v2, ver, bak, crashes>>
SetVer ==
    /\ pc = "setver" /\ ver' = "2"
    /\ pc' = "rmbak" /\ UNCHANGED <<orig, v1, v2, bak, crashes>>
RmBak ==
    /\ pc = "rmbak" /\ bak' = FALSE
    /\ pc' = "up" /\ UNCHANGED <<orig, v1, v2, ver, crashes>>
Crash ==
    /\ pc \notin {"start", "failed"} /\ crashes < 3
    /\ crashes' = crashes + 1 /\ pc' = "start"
    /\ UNCHANGED <<orig, v1, v2, ver, bak>>

MNext == Start \/ Copy \/ Delete \/ SetVer \/ RmBak \/ Crash
MSpec == MInit /\ [][MNext]_mvars

MTypeOK == v1 \in [Keys -> Cell] /\ v2 \in [Keys -> Cell] /\ ver \in {"", "2"} /\ bak \in BOOLEAN
(* the service can always be opened again *)
Restartable == pc # "failed"
(* nothing is lost on the way, nothing appears *)
Durable == \A k \in Keys : Norm(IF v1[k] # Absent THEN v1[k] ELSE v2[k]) = Norm(orig[k])
(* once up, the V2 store holds exactly the V1 levels *)
Migrated == pc = "up" => \A k \in Keys : Norm(v2[k]) = Norm(orig[k])
=============================================================================
