------------------------ MODULE AlertPersistVerdict ------------------------
(* Verdict-level trace specification for C08 (DESIGN.md 2.1).  It looks     *)
(* only at what the property talks about, through API-level observables of  *)
(* the recorded two-run history, and is independent of AlertPersist's       *)
(* code-shaped actions:                                                      *)
(*                                                                          *)
(*  ResumeLevel   after a restart on the storage as it stood at the crash,  *)
(*                every topic reports, for every ID, the level written by   *)
(*                the last commit for that topic/ID that completed (OK if   *)
(*                none, if that commit removed the ID, or if the topic was  *)
(*                deleted);                                                  *)
(*  FinalStateEq  after the remaining data, every topic reports the same    *)
(*                levels as the uninterrupted run (an ID the topic does not *)
(*                know counts as OK);                                        *)
(*  NoSilentMiss  if the final level of an ID differs from the last level   *)
(*                the topic's handlers were told before the crash, the last *)
(*                level they were told over both runs is the final level;   *)
(*  Truthful      handlers are only told levels the data had at that point  *)
(*                (no phantom level, no recovery that never happened);      *)
(*  TaskRestart   stopping and starting the task in the same process keeps  *)
(*                every level;                                               *)
(*  svc           the API reports the last collected level across           *)
(*                CloseTopic / restore / DeleteTopic / crash + restart.      *)
(*                                                                          *)
(* Known deviation c08-named-topic-missed: alert with an anonymous and a    *)
(* named topic and stateChangesOnly, crash after the anonymous topic's      *)
(* commit and before the named topic's commit of the same event: FinalStateEq*)
(* / NoSilentMiss may fail for that ID on the named topic only.              *)
EXTENDS Integers, Sequences, FiniteSets, TLC, TraceCommon

CONSTANTS Ids

Topics == {"anon", "named"}
Zero == [t \in Topics |-> [i \in Ids |-> 0]]
NoneClosed == [t \in Topics |-> FALSE]
NoTold == [t \in Topics |-> <<>>]

VARIABLES
    l,
    kind, cfg, hist,
    crashed,
    recd,     \* topic -> id -> level written by the last completed commit for it (0: none / removed)
    tolds,    \* handler events as of the last observation: topic -> seq of <<id, lvl, k>>
    toldB,    \* the same at the crash / task restart
    sDone,    \* API levels at the last completed point: topic -> id -> level
    curId, segTx,  \* ID of the point in progress; topics whose collect of it has been committed
    kfIds,    \* IDs hit by a crash of the known-deviation class and not yet healed by a later event on the named topic
    lastV, closedV, pendOp   \* svc
vvars == <<l, kind, cfg, hist, crashed, recd, tolds, toldB, sDone, curId, segTx, kfIds, lastV, closedV, pendOp>>

Ln == Trace[l]
IsEv(e) == l <= Len(Trace) /\ Ln.ev = e /\ l' = l + 1

Act == {t \in Topics : IF kind = "svc" THEN TRUE ELSE IF t = "anon" THEN cfg.anon ELSE cfg.named}
LvlOf(s, id) == IF \E i \in DOMAIN s : s[i][1] = id THEN s[CHOOSE i \in DOMAIN s : s[i][1] = id][2] ELSE 0
KnownIds(s) == \A i \in DOMAIN s : s[i][1] \in Ids /\ s[i][2] \in 0..3   \* no anomaly markers, no foreign IDs
Levels(o) == [t \in Topics |-> [id \in Ids |-> IF t \in Act THEN LvlOf(o[t], id) ELSE 0]]
WellFormed(o) == \A t \in Act : KnownIds(o[t])
ToldOf(o) == [t \in Topics |-> IF t \in Act THEN o[t] ELSE <<>>]
LastTold(s, id) ==
    LET idx == {i \in DOMAIN s : s[i][1] = id}
    IN IF idx = {} THEN 0 ELSE s[CHOOSE i \in idx : \A j \in idx : j <= i][2]
(* every event handed to a handler carries a level the data had at that point *)
Truthful(s) == \A i \in DOMAIN s : s[i][3] + 1 \in DOMAIN hist /\ hist[s[i][3] + 1] = <<s[i][1], s[i][2]>>

VInit ==
    /\ l = 1 /\ HWInit
    /\ kind = "" /\ cfg = [anon |-> TRUE, named |-> TRUE, sco |-> FALSE] /\ hist = <<>>
    /\ crashed = FALSE /\ recd = Zero /\ tolds = NoTold /\ toldB = NoTold /\ sDone = Zero
    /\ curId = "" /\ segTx = {} /\ kfIds = {}
    /\ lastV = Zero /\ closedV = NoneClosed /\ pendOp = <<>>

VReset ==
    /\ IsEv("Reset")
    /\ kind' = Ln.kind /\ cfg' = [anon |-> Ln.hasAnon, named |-> Ln.hasNamed, sco |-> Ln.sco] /\ hist' = Ln.hist
    /\ crashed' = FALSE /\ recd' = Zero /\ tolds' = NoTold /\ toldB' = NoTold /\ sDone' = Zero
    /\ curId' = "" /\ segTx' = {} /\ kfIds' = {}
    /\ lastV' = Zero /\ closedV' = NoneClosed /\ pendOp' = <<>>

VStart ==
    /\ IsEv("Start")
    /\ Levels(Ln.state) = Zero
    /\ UNCHANGED <<kind, cfg, hist, crashed, recd, tolds, toldB, sDone, curId, segTx, kfIds, lastV, closedV, pendOp>>

VPoint ==
    /\ IsEv("Point")
    /\ hist[Ln.k + 1] = <<Ln.id, Ln.lvl>>
    /\ curId' = Ln.id /\ segTx' = {}
    /\ UNCHANGED <<kind, cfg, hist, crashed, recd, tolds, toldB, sDone, kfIds, lastV, closedV, pendOp>>

VOp ==
    /\ IsEv("Op")
    /\ pendOp' = <<Ln.op, Ln.topic, Ln.id, Ln.lvl>>
    /\ UNCHANGED <<kind, cfg, hist, crashed, recd, tolds, toldB, sDone, curId, segTx, kfIds, lastV, closedV>>

(* a commit of the topic store completed: what it wrote is now the recorded level of that topic/ID *)
VTx ==
    /\ IsEv("Tx")
    /\ WellFormed(Ln.state)
    /\ recd' = IF Ln.op = "none" THEN recd              \* a transaction that wrote nothing records nothing
               ELSE IF Ln.op = "delbucket"
               THEN [recd EXCEPT ![Ln.topic] = [i \in Ids |-> 0]]
               ELSE [recd EXCEPT ![Ln.topic][Ln.id] = IF Ln.op = "put" THEN Ln.lvl ELSE 0]
    /\ segTx' = IF Ln.src = "collect" THEN segTx \cup {Ln.topic} ELSE segTx
    /\ tolds' = IF kind = "svc" THEN tolds ELSE ToldOf(Ln.told)
    /\ kfIds' = IF Ln.src = "collect" /\ Ln.topic = "named" THEN kfIds \ {Ln.id} ELSE kfIds
    /\ UNCHANGED <<kind, cfg, hist, crashed, toldB, sDone, curId, lastV, closedV, pendOp>>

VPre ==
    /\ IsEv("Pre")
    /\ tolds' = IF kind = "svc" THEN tolds ELSE ToldOf(Ln.told)
    /\ UNCHANGED <<kind, cfg, hist, crashed, recd, toldB, sDone, curId, segTx, kfIds, lastV, closedV, pendOp>>

(* the level map after operation op (a tuple <<op, topic, id, lvl>>) has taken effect *)
SvcAfter(op, lv) ==
    CASE op[1] = "collect" -> [lv EXCEPT ![op[2]][op[3]] = op[4]]
      [] op[1] = "close"   -> lv
      [] op[1] = "delete"  -> [lv EXCEPT ![op[2]] = [i \in Ids |-> 0]]
SvcApply(op) ==
    /\ lastV' = SvcAfter(op, lastV)
    /\ closedV' = [closedV EXCEPT ![op[2]] = (op[1] = "close")]

SvcStateOK(o) == WellFormed(o) /\ \A t \in Topics : closedV'[t] \/ Levels(o)[t] = lastV'[t]

VDone ==
    /\ IsEv("Done")
    /\ IF kind = "svc"
       THEN /\ SvcApply(pendOp) /\ pendOp' = <<>>
            /\ SvcStateOK(Ln.state)
            /\ UNCHANGED <<tolds, sDone>>
       ELSE /\ WellFormed(Ln.state)
            /\ tolds' = ToldOf(Ln.told) /\ sDone' = Levels(Ln.state)
            /\ \A t \in Act : Truthful(Ln.told[t])
            /\ UNCHANGED <<lastV, closedV, pendOp>>
    /\ UNCHANGED <<kind, cfg, hist, crashed, recd, toldB, curId, segTx, kfIds>>

VCrash ==
    /\ IsEv("Crash")
    /\ crashed' = TRUE /\ toldB' = [t \in Topics |-> toldB[t] \o tolds[t]]
    /\ kfIds' = IF kind = "crash" /\ cfg.anon /\ cfg.named /\ cfg.sco /\ Ln.resume = Ln.k
                    /\ "anon" \in segTx /\ "named" \notin segTx
                 THEN kfIds \cup {curId} ELSE kfIds
    /\ UNCHANGED <<kind, cfg, hist, recd, tolds, sDone, curId, segTx, lastV, closedV, pendOp>>

VRestart ==
    /\ IsEv("Restart")
    /\ WellFormed(Ln.state)
    /\ Levels(Ln.state) = recd                                  \* ResumeLevel
    (* svc: every operation that returned before the crash is durable; the one cut short *)
    (* by the crash (if any) has taken effect completely or not at all                    *)
    /\ (kind = "svc") =>
         (Levels(Ln.state) = lastV \/ (pendOp # <<>> /\ Levels(Ln.state) = SvcAfter(pendOp, lastV)))
    /\ lastV' = Levels(Ln.state) /\ closedV' = NoneClosed /\ pendOp' = <<>>
    /\ tolds' = NoTold
    /\ UNCHANGED <<kind, cfg, hist, crashed, recd, toldB, sDone, curId, segTx, kfIds>>

VTaskRestart ==
    /\ IsEv("TaskRestart")
    /\ WellFormed(Ln.state)
    /\ Levels(Ln.state) = sDone                                 \* every level survives the task restart
    /\ toldB' = ToldOf(Ln.told) /\ tolds' = ToldOf(Ln.told)
    /\ UNCHANGED <<kind, cfg, hist, crashed, recd, sDone, curId, segTx, kfIds, lastV, closedV, pendOp>>

(* parameterised so that TLC does not pre-evaluate it as a constant *)
KFHit(id) == PrintT(<<"KF-HIT", "c08-named-topic-missed", id>>)

VEnd ==
    /\ IsEv("End")
    /\ IF kind = "svc"
       THEN WellFormed(Ln.final2) /\ \A t \in Topics : closedV[t] \/ Levels(Ln.final2)[t] = lastV[t]
       ELSE /\ WellFormed(Ln.final1) /\ WellFormed(Ln.final2)
            /\ \A t \in Act : Truthful(Ln.told1[t]) /\ Truthful(Ln.told2[t])
            /\ \A t \in Act, id \in Ids :
                 LET F == LvlOf(Ln.final1[t], id)
                     B == LastTold(toldB[t], id)
                     all == IF kind = "crash" THEN toldB[t] \o Ln.told2[t] ELSE Ln.told2[t]
                     A == LastTold(all, id)
                 IN \/ /\ LvlOf(Ln.final2[t], id) = F            \* FinalStateEq
                       /\ (F # B => A = F)                       \* NoSilentMiss
                    \/ /\ t = "named" /\ id \in kfIds             \* the known deviation, and only it
                       /\ KFHit(id)
    /\ UNCHANGED <<kind, cfg, hist, crashed, recd, tolds, toldB, sDone, curId, segTx, kfIds, lastV, closedV, pendOp>>

VNext == VReset \/ VStart \/ VPoint \/ VOp \/ VTx \/ VPre \/ VDone \/ VCrash \/ VRestart \/ VTaskRestart \/ VEnd
VSpec == VInit /\ [][VNext]_vvars

HW == HWMark(l)
Accepted == HWAccepted
=============================================================================
