---------------------------- MODULE TopicStoreTx ----------------------------
(* C08: CONCURRENT transactions on the one topic store the alert service     *)
(* shares among all task goroutines (Service.topicsStore, a storage.Bolt).   *)
(*   reader  = restore of a topic (restoreTopic / loadSavedTopicStates):     *)
(*             begin a read-only tx; derive the topic's bucket handle;       *)
(*             list it; end.                                                 *)
(*   writer  = persistEventState / clearHistory: begin a read-write tx;      *)
(*             derive the topic's bucket handle; put / delete one ID; commit.*)
(* Two processes are interleaved step by step, every interleaving of their   *)
(* begin / bucket-derivation / access / end steps (a second writer cannot    *)
(* begin while one is open: Bolt has one writer).                            *)
(* THE RULE: a transaction on topic T only ever touches bucket T - a bucket  *)
(* handle derived by one transaction is its own.  A reader sees the store as *)
(* of its begin (MVCC snapshot).  Afterwards a restart loads the store, so a *)
(* wrong bucket is a lost level in one topic and a phantom level in another. *)
(* SharedSlot = TRUE is the defect class "derived handles share the slot the *)
(* bucket name is written to" (observation configuration, must fail).        *)
EXTENDS Integers, Sequences, FiniteSets, TLC

CONSTANTS Ids, SharedSlot

TTopics == {"anon", "named"}        \* the two topic names of the svc mode of AlertPersist
Absent == -1
Procs == {1, 2}
EmptyT == [i \in Ids |-> Absent]
NoProc == [kind |-> "read", topic |-> "anon", id |-> "", lvl |-> 0]

VARIABLES disk,   \* committed store: topic -> id -> level | Absent
          disk0,  \* the store before the two processes
          p,      \* the two processes: [kind : read|put|del, topic, id, lvl]
          pcs,    \* 0 not begun, 1 begun, 2 bucket derived, 3 accessed, 4 ended / committed
          bkt,    \* bucket each process's handle points at
          snap,   \* reader: the store as of its begin
          res,    \* reader: what the list returned
          pend    \* writer: the uncommitted change <<topic, id, value>>
xvars == <<disk, disk0, p, pcs, bkt, snap, res, pend>>

Writer(i) == p[i].kind # "read"
ProcSet == [kind : {"read"}, topic : TTopics, id : {""}, lvl : {0}]
           \cup [kind : {"put"}, topic : TTopics, id : Ids, lvl : {1, 3}]
           \cup [kind : {"del"}, topic : TTopics, id : Ids, lvl : {0}]

XInit ==
    /\ disk \in [TTopics -> [Ids -> {Absent, 2}]] /\ disk0 = disk
    /\ p \in [Procs -> ProcSet] /\ ~(p[1].kind # "read" /\ p[2].kind # "read")
    /\ pcs = [i \in Procs |-> 0] /\ bkt = [i \in Procs |-> ""]
    /\ snap = [i \in Procs |-> disk] /\ res = [i \in Procs |-> EmptyT]
    /\ pend = <<>>

Begin(i) ==
    /\ pcs[i] = 0
    /\ snap' = [snap EXCEPT ![i] = disk]
    /\ pcs' = [pcs EXCEPT ![i] = 1]
    /\ UNCHANGED <<disk, disk0, p, bkt, res, pend>>

Derive(i) ==
    /\ pcs[i] = 1
    /\ bkt' = IF SharedSlot THEN [j \in Procs |-> IF j = i \/ pcs[j] \in {2} THEN p[i].topic ELSE bkt[j]]
              ELSE [bkt EXCEPT ![i] = p[i].topic]
    /\ pcs' = [pcs EXCEPT ![i] = 2]
    /\ UNCHANGED <<disk, disk0, p, snap, res, pend>>

Access(i) ==
    /\ pcs[i] = 2
    /\ IF Writer(i)
       THEN /\ pend' = <<bkt[i], p[i].id, IF p[i].kind = "put" THEN p[i].lvl ELSE Absent>>
            /\ UNCHANGED res
       ELSE /\ res' = [res EXCEPT ![i] = snap[i][bkt[i]]]
            /\ UNCHANGED pend
    /\ pcs' = [pcs EXCEPT ![i] = 3]
    /\ UNCHANGED <<disk, disk0, p, bkt, snap>>

End(i) ==
    /\ pcs[i] = 3
    /\ disk' = IF Writer(i) THEN [disk EXCEPT ![pend[1]][pend[2]] = pend[3]] ELSE disk
    /\ pcs' = [pcs EXCEPT ![i] = 4]
    /\ UNCHANGED <<disk0, p, bkt, snap, res, pend>>

Step(i) == Begin(i) \/ Derive(i) \/ Access(i) \/ End(i)
XNext == \E i \in Procs : Step(i)
XSpec == XInit /\ [][XNext]_xvars

(* a restore reads its own topic, as of its begin *)
ReadOwnTopic == \A i \in Procs : (~Writer(i) /\ pcs[i] >= 3) => res[i] = snap[i][p[i].topic]
(* an event is recorded in its own topic and nowhere else *)
WriteOwnTopic ==
    \A i \in Procs : (Writer(i) /\ pcs[i] = 4) =>
        disk = [disk0 EXCEPT ![p[i].topic][p[i].id] = IF p[i].kind = "put" THEN p[i].lvl ELSE Absent]
(* nobody else changes the store *)
NoOtherChange == (\A i \in Procs : ~(Writer(i) /\ pcs[i] = 4)) => disk = disk0
=============================================================================
