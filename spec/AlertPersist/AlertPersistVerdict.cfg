SPECIFICATION VSpec
CONSTANTS
    Ids <- MCIds
CONSTRAINT HW
POSTCONDITION Accepted
CHECK_DEADLOCK FALSE
