SPECIFICATION Spec
CONSTANTS
    Ids <- MCIds
    Modes <- MCModesAll
    Times = {0, 1}
    MaxPoints = 3
    MaxCrashes = 1
    MaxTaskRestarts = 1
    KnownDeviation = TRUE
INVARIANTS
    TypeOK
    ResumeLevel
    DiskNonOK
    NodeResume
    FinalStateEq
    NoSilentMiss
    SvcStateEq
CHECK_DEADLOCK FALSE
