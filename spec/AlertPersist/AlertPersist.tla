---------------------------- MODULE AlertPersist ----------------------------
(* C08 - alert state survives restart.                                      *)
(*                                                                          *)
(* Impl layer: the code's own sequence for one alert event                  *)
(*   AlertNode.handleEvent:  Collect(anon) ; Collect(named)                 *)
(*   Service.Collect:        topics.Collect (memory + handlers) ; then      *)
(*                           persistEventState (put, non-OK) or             *)
(*                           clearHistory (delete, OK) - one Bolt commit    *)
(* with a Crash enabled between any two steps, Restart = load the disk,     *)
(* RestoreNode = AlertNode.restoreEvent exactly as written (alert.go), the  *)
(* in-process task restart (CloseTopic / RestoreTopic / restoreClosedTopic) *)
(* and, in mode "svc", the service-level operations Collect / CloseTopic /  *)
(* DeleteTopic on two topics.                                                *)
(*                                                                          *)
(* Ref layer: a shadow copy of the uninterrupted run (refNode, refMem),     *)
(* advanced once per distinct data point, and `rec`, the level of the last  *)
(* event per topic and ID whose commit completed.                           *)
(*                                                                          *)
(* After a crash the point whose processing had not completed all its       *)
(* commits is fed again (DESIGN.md C08).                                    *)
EXTENDS Integers, Sequences, FiniteSets, TLC

CONSTANTS
    Ids,             \* alert IDs
    MaxPoints,       \* bound on the number of distinct data points / service operations
    MaxCrashes,      \* crash budget
    MaxTaskRestarts, \* in-process task restart budget (mode "node")
    Modes,           \* subset of {"node", "svc"}
    Times,           \* time stamps an event may carry (part of the event alphabet, see Feed)
    KnownDeviation   \* TRUE: tolerate the recorded deviation c08-named-topic-missed in the properties

Levels == 0..3
Absent == -1
Topics == {"anon", "named"}
Cell == Levels \cup {Absent}
EmptyTopic == [i \in Ids |-> Absent]
EmptyAll == [t \in Topics |-> EmptyTopic]
NoSeqs == [t \in Topics |-> <<>>]
NoneClosed == [t \in Topics |-> FALSE]
NoPoint == [id |-> "", lvl |-> 0, k |-> -1, tm |-> 0]
NoPend == [t |-> "", id |-> "", lvl |-> 0]

VARIABLES
    mode,     \* "node" | "svc"
    cfg,      \* [anon, named, sco : BOOLEAN]  the alert node's configuration
    mem,      \* in-memory topic state: topic -> id -> level | Absent
    closed,   \* Service.closedTopics
    disk,     \* bucket <topic> / key <id> of namespace topic_states_store
    told,     \* events handed to the handlers of each topic since the last (re)start: <<id, lvl, k>>
    toldB,    \* the same, accumulated over the process lifetimes that crashed
    node,     \* AlertNode group state: id -> current level | Absent (no group state yet)
    pc,       \* program counter through the handling of one point / operation
    cur,      \* the point being processed
    pend,     \* pending persist of an UpdateEvent (restoreEvent)
    refeed,   \* the point `cur` did not complete all its commits before the crash: feed it again
    n,        \* number of distinct points / operations so far
    crashes, trestarts,
    refNode, refMem,  \* the uninterrupted run
    rec,      \* level of the last event per topic/id whose commit completed (Absent: none or deleted topic)
    last,     \* mode svc: level the API should report (last collected since delete / restored)
    kf        \* IDs currently affected by the known deviation (crash between the two collects)

vars == <<mode, cfg, mem, closed, disk, told, toldB, node, pc, cur, pend, refeed, n, crashes, trestarts,
          refNode, refMem, rec, last, kf>>

Norm(x) == IF x = Absent THEN 0 ELSE x
Active == {t \in Topics : IF mode = "svc" THEN TRUE ELSE IF t = "anon" THEN cfg.anon ELSE cfg.named}
LastTold(s, id) ==
    LET idx == {i \in DOMAIN s : s[i][1] = id}
    IN IF idx = {} THEN 0 ELSE s[CHOOSE i \in idx : \A j \in idx : j <= i][2]

Cfgs == {c \in [anon : BOOLEAN, named : BOOLEAN, sco : BOOLEAN] : c.anon \/ c.named}

Init ==
    /\ mode \in Modes
    /\ cfg \in (IF mode = "node" THEN Cfgs ELSE {[anon |-> TRUE, named |-> TRUE, sco |-> FALSE]})
    /\ mem = EmptyAll /\ closed = NoneClosed /\ disk = EmptyAll
    /\ told = NoSeqs /\ toldB = NoSeqs
    /\ node = EmptyTopic /\ pc = "idle" /\ cur = NoPoint /\ pend = NoPend /\ refeed = FALSE
    /\ n = 0 /\ crashes = 0 /\ trestarts = 0
    /\ refNode = [i \in Ids |-> 0] /\ refMem = EmptyAll
    /\ rec = EmptyAll /\ last = EmptyAll /\ kf = {}

(* ---------------- the uninterrupted run (Ref) ---------------- *)
(* AlertNode stream semantics without flapping: with stateChangesOnly an event is  *)
(* emitted iff the level changed; otherwise iff the level is not OK or it changed. *)
Emits(sco, prev, l) == IF sco THEN prev # l ELSE (l # 0 \/ prev # l)

RefStep(id, l) ==
    /\ refNode' = [refNode EXCEPT ![id] = l]
    /\ refMem' = IF Emits(cfg.sco, refNode[id], l)
                 THEN [t \in Topics |-> IF t \in Active THEN [refMem[t] EXCEPT ![id] = l] ELSE refMem[t]]
                 ELSE refMem

(* ---------------- mode node: one data point ---------------- *)
AfterFeed(id) == IF node[id] = Absent THEN "restore" ELSE "eval"

(* Every event carries a time stamp tm.  Times need not be monotone per ID (late and    *)
(* out-of-order points, overlapping batch windows, replays, two publishers): tm is      *)
(* deliberately read by NO action - in memory and on disk the state of an ID is that of *)
(* the LAST event collected, whatever its time, and that is what a restart resumes at.  *)
(* (tm is dropped from `cur` when the point completes; it only widens the alphabet.)    *)
Done(c) == [c EXCEPT !.tm = 0]

Feed(id, l, tm) ==
    /\ mode = "node" /\ pc = "idle" /\ ~refeed /\ n < MaxPoints
    /\ cur' = [id |-> id, lvl |-> l, k |-> n, tm |-> tm]
    /\ n' = n + 1
    /\ RefStep(id, l)
    /\ pc' = AfterFeed(id)
    /\ UNCHANGED <<mode, cfg, mem, closed, disk, told, toldB, node, pend, refeed, crashes, trestarts, rec, last, kf>>

Refeed ==
    /\ mode = "node" /\ pc = "idle" /\ refeed
    /\ refeed' = FALSE
    /\ pc' = AfterFeed(cur.id)
    /\ UNCHANGED <<mode, cfg, mem, closed, disk, told, toldB, node, cur, pend, n, crashes, trestarts, refNode, refMem, rec, last, kf>>

(* AlertNode.restoreEvent (alert.go), called from NewGroup for the first point of an ID *)
(* after a task start.                                                                  *)
RestoreNode ==
    /\ pc = "restore"
    /\ LET id == cur.id
           aF == cfg.anon /\ mem["anon"][id] # Absent
           tF == cfg.named /\ mem["named"][id] # Absent
           aL == IF aF THEN mem["anon"][id] ELSE 0
           tL == IF tF THEN mem["named"][id] ELSE 0
           upd == IF aL # tL
                  THEN IF aF /\ tF THEN [t |-> "named", id |-> id, lvl |-> aL]    \* anon topic takes precedence
                       ELSE IF tF /\ cfg.anon THEN [t |-> "anon", id |-> id, lvl |-> tL]
                       ELSE NoPend                                                \* "nothing was found, nothing to do"
                  ELSE NoPend
       IN /\ node' = [node EXCEPT ![id] = IF aF THEN aL ELSE tL]
          /\ IF upd # NoPend
             THEN /\ mem' = [mem EXCEPT ![upd.t][id] = upd.lvl]   \* Service.UpdateEvent: memory first ...
                  /\ pend' = upd /\ pc' = "rpersist"
             ELSE /\ UNCHANGED <<mem, pend>> /\ pc' = "eval"
    /\ UNCHANGED <<mode, cfg, closed, disk, told, toldB, cur, refeed, n, crashes, trestarts, refNode, refMem, rec, last, kf>>

RestorePersist ==                                                 \* ... then persistEventState (always a put)
    /\ pc = "rpersist"
    /\ disk' = [disk EXCEPT ![pend.t][pend.id] = pend.lvl]
    /\ rec' = [rec EXCEPT ![pend.t][pend.id] = pend.lvl]
    /\ pend' = NoPend /\ pc' = "eval"
    /\ UNCHANGED <<mode, cfg, mem, closed, told, toldB, node, cur, refeed, n, crashes, trestarts, refNode, refMem, last, kf>>

FirstCollect == IF cfg.anon THEN "mem_anon" ELSE "mem_named"

Eval ==
    /\ pc = "eval"
    /\ node' = [node EXCEPT ![cur.id] = cur.lvl]
    /\ pc' = IF Emits(cfg.sco, node[cur.id], cur.lvl) THEN FirstCollect ELSE "idle"
    /\ cur' = IF Emits(cfg.sco, node[cur.id], cur.lvl) THEN cur ELSE Done(cur)
    /\ UNCHANGED <<mode, cfg, mem, closed, disk, told, toldB, pend, refeed, n, crashes, trestarts, refNode, refMem, rec, last, kf>>

(* Service.Collect, first half: restoreClosedTopic if needed, then topics.Collect  *)
(* (update the event state under the topic lock, hand the event to the handlers).  *)
MemCollect(t) ==
    /\ pc = "mem_" \o t
    /\ LET m0 == IF closed[t] THEN disk[t] ELSE mem[t]
       IN mem' = [mem EXCEPT ![t] = [m0 EXCEPT ![cur.id] = cur.lvl]]
    /\ closed' = [closed EXCEPT ![t] = FALSE]
    /\ told' = IF mode = "node" THEN [told EXCEPT ![t] = Append(@, <<cur.id, cur.lvl, cur.k>>)] ELSE told
    /\ last' = IF mode = "svc" THEN [last EXCEPT ![t][cur.id] = cur.lvl] ELSE last
    /\ kf' = IF t = "named" THEN kf \ {cur.id} ELSE kf
    /\ pc' = "per_" \o t
    /\ UNCHANGED <<mode, cfg, disk, toldB, node, cur, pend, refeed, n, crashes, trestarts, refNode, refMem, rec>>

(* Service.Collect, second half: one Bolt commit.  `disk` is a function, so the put /   *)
(* delete of (t, id) touches exactly that key; the code's Bolt.delete works on a        *)
(* key-ordered bucket with a cursor seek, which is why the drivers use IDs and topic    *)
(* names that are proper prefixes of each other (a / ab, S / S_high, main:t1 /          *)
(* main:t1:alert2) and collect OK for IDs that have no stored state.                    *)
Persist(t) ==
    /\ pc = "per_" \o t
    /\ disk' = [disk EXCEPT ![t][cur.id] = IF cur.lvl = 0 THEN Absent ELSE cur.lvl]
    /\ rec' = [rec EXCEPT ![t][cur.id] = cur.lvl]
    /\ pc' = IF mode = "node" /\ t = "anon" /\ cfg.named THEN "mem_named" ELSE "idle"
    /\ cur' = IF mode = "node" /\ t = "anon" /\ cfg.named THEN cur ELSE Done(cur)
    /\ UNCHANGED <<mode, cfg, mem, closed, told, toldB, node, pend, refeed, n, crashes, trestarts, refNode, refMem, last, kf>>

(* StopTask ; StartTask in the same process: runAlert ends with CloseTopic(anon),   *)
(* starts with RegisterAnonHandler + RestoreTopic(anon); group states are new.       *)
TaskRestart ==
    /\ mode = "node" /\ pc = "idle" /\ ~refeed /\ trestarts < MaxTaskRestarts
    /\ trestarts' = trestarts + 1
    /\ closed' = [closed EXCEPT !["anon"] = TRUE]
    /\ mem' = IF cfg.anon THEN [mem EXCEPT !["anon"] = disk["anon"]] ELSE mem
    /\ node' = EmptyTopic
    /\ UNCHANGED <<mode, cfg, disk, told, toldB, pc, cur, pend, refeed, n, crashes, refNode, refMem, rec, last, kf>>

(* ---------------- mode svc: operations on the service ---------------- *)
SCollect(t, id, l, tm) ==
    /\ mode = "svc" /\ pc = "idle" /\ n < MaxPoints
    /\ cur' = [id |-> id, lvl |-> l, k |-> n, tm |-> tm] /\ n' = n + 1
    /\ pc' = "mem_" \o t
    /\ UNCHANGED <<mode, cfg, mem, closed, disk, told, toldB, node, pend, refeed, crashes, trestarts, refNode, refMem, rec, last, kf>>

SClose(t) ==
    /\ mode = "svc" /\ pc = "idle" /\ n < MaxPoints
    /\ n' = n + 1
    /\ mem' = [mem EXCEPT ![t] = EmptyTopic]
    /\ closed' = [closed EXCEPT ![t] = TRUE]
    /\ UNCHANGED <<mode, cfg, disk, told, toldB, node, pc, cur, pend, refeed, crashes, trestarts, refNode, refMem, rec, last, kf>>

SDelete(t) ==                            \* Service.DeleteTopic: memory first ...
    /\ mode = "svc" /\ pc = "idle" /\ n < MaxPoints
    /\ n' = n + 1
    /\ mem' = [mem EXCEPT ![t] = EmptyTopic]
    /\ closed' = [closed EXCEPT ![t] = FALSE]
    /\ last' = [last EXCEPT ![t] = EmptyTopic]
    /\ pc' = "del_" \o t
    /\ UNCHANGED <<mode, cfg, disk, told, toldB, node, cur, pend, refeed, crashes, trestarts, refNode, refMem, rec, kf>>

DeleteCommit(t) ==                       \* ... then one commit removing the bucket
    /\ pc = "del_" \o t
    /\ disk' = [disk EXCEPT ![t] = EmptyTopic]
    /\ rec' = [rec EXCEPT ![t] = EmptyTopic]
    /\ pc' = "idle"
    /\ UNCHANGED <<mode, cfg, mem, closed, told, toldB, node, cur, pend, refeed, n, crashes, trestarts, refNode, refMem, last, kf>>

(* ---------------- crash and restart ---------------- *)
(* The known deviation: both topics, stateChangesOnly, the crash falls after the   *)
(* anonymous topic's commit and before the named topic's.                          *)
KFClass == mode = "node" /\ cfg.anon /\ cfg.named /\ cfg.sco /\ pc \in {"mem_named", "per_named"}

Crash ==
    /\ pc # "down" /\ crashes < MaxCrashes
    /\ crashes' = crashes + 1
    /\ refeed' = (mode = "node" /\ (refeed \/ pc # "idle"))
    /\ kf' = IF KFClass THEN kf \cup {cur.id} ELSE kf
    /\ toldB' = [t \in Topics |-> toldB[t] \o told[t]]
    /\ told' = NoSeqs
    /\ mem' = EmptyAll /\ closed' = NoneClosed /\ node' = EmptyTopic /\ pend' = NoPend
    /\ pc' = "down"
    /\ UNCHANGED <<mode, cfg, disk, cur, n, trestarts, refNode, refMem, rec, last>>

Restart ==                               \* Service.Open: loadSavedTopicStates; then the task starts
    /\ pc = "down"
    /\ mem' = disk
    /\ last' = IF mode = "svc" THEN rec ELSE last
    /\ pc' = "idle"
    /\ UNCHANGED <<mode, cfg, closed, disk, told, toldB, node, cur, pend, refeed, n, crashes, trestarts, refNode, refMem, rec, kf>>

Next ==
    \/ \E id \in Ids, l \in Levels, tm \in Times : Feed(id, l, tm)
    \/ Refeed \/ RestoreNode \/ RestorePersist \/ Eval
    \/ \E t \in Topics : MemCollect(t) \/ Persist(t) \/ DeleteCommit(t)
    \/ TaskRestart
    \/ \E t \in Topics : (\E id \in Ids, l \in Levels, tm \in Times : SCollect(t, id, l, tm)) \/ SClose(t) \/ SDelete(t)
    \/ Crash \/ Restart

Spec == Init /\ [][Next]_vars

(* ---------------- properties ---------------- *)
TypeOK ==
    /\ mode \in {"node", "svc"}
    /\ mem \in [Topics -> [Ids -> Cell]] /\ disk \in [Topics -> [Ids -> Cell]]
    /\ node \in [Ids -> Cell] /\ rec \in [Topics -> [Ids -> Cell]]
    /\ pc \in {"idle", "restore", "rpersist", "eval", "mem_anon", "per_anon", "mem_named", "per_named",
               "del_anon", "del_named", "down"}
    /\ kf \subseteq Ids

(* The deviation only ever excuses the named topic, for an ID hit by a crash between *)
(* the two collects, until the next event of that ID reaches the named topic.         *)
Dev(t, id) == KnownDeviation /\ t = "named" /\ id \in kf

CaughtUp == pc = "idle" /\ ~refeed

(* What is on disk is exactly what was recorded: a restart (mem' = disk) therefore    *)
(* resumes every ID of every topic at its last recorded non-OK level, else OK.         *)
ResumeLevel == \A t \in Topics, id \in Ids : Norm(disk[t][id]) = Norm(rec[t][id])

(* Only non-OK levels are ever stored (layout, drift level). *)
DiskNonOK == \A t \in Topics, id \in Ids : disk[t][id] # 0

(* A resumed alert ID continues from a level that was recorded for it. *)
NodeResume ==
    \A id \in Ids : (mode = "node" /\ pc = "eval" /\ crashes > 0 /\ id = cur.id) =>
        node[id] \in {Norm(rec[t][id]) : t \in Active}

(* Processing the remaining data yields the same final topic state as the uninterrupted run. *)
FinalStateEq ==
    (mode = "node" /\ CaughtUp) =>
        \A t \in Active, id \in Ids : Norm(mem[t][id]) = Norm(refMem[t][id]) \/ Dev(t, id)

(* Handlers are told of every level an ID ends up in that differs from the last level *)
(* they were told before the crash (a repeat is fine, a silent miss is not).           *)
NoSilentMiss ==
    (mode = "node" /\ CaughtUp) =>
        \A t \in Active, id \in Ids :
            LET F == Norm(refMem[t][id])
                B == LastTold(toldB[t], id)
                A == LastTold(toldB[t] \o told[t], id)
            IN (F # B => A = F) \/ Dev(t, id)

(* Handlers are never told a level the data did not have at that point. *)
(* (Holds by construction here; asserted on logged events in the trace specs.) *)

(* mode svc: the API reports the last collected level of every ID of every open topic *)
(* (an ID the topic does not know counts as OK), across close / restore / delete /    *)
(* crash + restart.                                                                    *)
SvcStateEq ==
    (mode = "svc" /\ pc = "idle") =>
        \A t \in Topics, id \in Ids : closed[t] \/ Norm(mem[t][id]) = Norm(last[t][id])

(* Observation only (expected to fail): the same without tolerating the deviation. *)
StrictFinalStateEq ==
    (mode = "node" /\ CaughtUp) => \A t \in Active, id \in Ids : Norm(mem[t][id]) = Norm(refMem[t][id])
StrictNoSilentMiss ==
    (mode = "node" /\ CaughtUp) =>
        \A t \in Active, id \in Ids :
            LET F == Norm(refMem[t][id])
                B == LastTold(toldB[t], id)
                A == LastTold(toldB[t] \o told[t], id)
            IN F # B => A = F
=============================================================================
