SPECIFICATION TSpec
CONSTRAINT HW
POSTCONDITION Accepted
CHECK_DEADLOCK FALSE
