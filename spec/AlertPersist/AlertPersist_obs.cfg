SPECIFICATION Spec
CONSTANTS
    Ids <- MCIds
    Modes <- MCModesNode
    Times = {0}
    MaxPoints = 3
    MaxCrashes = 1
    MaxTaskRestarts = 0
    KnownDeviation = FALSE
INVARIANTS
    StrictFinalStateEq
CHECK_DEADLOCK FALSE
