--------------------------- MODULE TraceCommon ---------------------------
(* Shared plumbing for trace specifications (DESIGN.md §3.4).             *)
(* The NDJSON file named by env TRACE_FILE is read once; traces of one    *)
(* run are concatenated, each starting with an {"ev":"Reset"} line.       *)
EXTENDS Integers, Sequences, TLC, Json, IOUtils

Trace == ndJsonDeserialize(IOEnv.TRACE_FILE)

Has(r, k) == k \in DOMAIN r
Get(r, k, d) == IF k \in DOMAIN r THEN r[k] ELSE d

(* High-water mark of the trace position reached, kept in TLC register 1. *)
(* Needs -workers 1.  HWInit goes into Init, HWMark(l) into a CONSTRAINT.  *)
HWInit == TLCSet(1, 0)
HWMark(l) == IF l > TLCGet(1) THEN TLCSet(1, l) ELSE TRUE
(* All lines consumed <=> some state reached l = Len(Trace)+1.             *)
HWAccepted == 
    IF TLCGet(1) = Len(Trace) + 1 THEN TRUE
    ELSE /\ PrintT(<<"TRACE-REJECTED at line", TLCGet(1), "of", Len(Trace)>>)
         /\ FALSE

(* JSON arrays arrive as sequences; handy conversions.                     *)
SeqToSet(s) == { s[i] : i \in DOMAIN s }
=============================================================================
