\* the code as it was: the alert node takes tm.mu when it starts, StopTask holds tm.mu while it waits for the node.
\* Expected: deadlock.
SPECIFICATION Spec
CONSTANTS
    MaxPts = 2
    K = 1
    BufSize = 1
    Topos <- MCAlertOnly
    StopKinds <- BothKinds
    AllowFail = FALSE
    MaxN = 3
    MaxE = 4
    InfluxStopF = FALSE
    ReaderDone = TRUE
    AlertCloseOnErr = TRUE
    UdfStopAborts = FALSE
    ForkHoldsRLock = TRUE
    NWaiters = 0
    WaitHoldsMu = TRUE
    HookNeedsTmLock = TRUE
INVARIANTS
    TypeOK
CHECK_DEADLOCK TRUE
