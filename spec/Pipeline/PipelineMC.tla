----------------------------- MODULE PipelineMC -----------------------------
EXTENDS Pipeline

\* edge 1 is always the task's source edge (from 0 = TaskMaster fork) into node 1
Src == [from |-> 0, to |-> 1, f |-> "all"]
Ed(a, b) == [from |-> a, to |-> b, f |-> "all"]
EdF(a, b, flt) == [from |-> a, to |-> b, f |-> flt]

\* stream0/from -> influxDBOut
TInflux == [name |-> "influx", kinds |-> <<"pass", "influx">>, edges |-> <<Src, Ed(1, 2)>>,
            outf |-> <<"all", "all">>]
\* chain of three: from -> where -> influxDBOut
TChain == [name |-> "chain", kinds |-> <<"pass", "pass", "influx">>, edges |-> <<Src, Ed(1, 2), Ed(2, 3)>>,
           outf |-> <<"all", "all", "all">>]
\* from -> alert (own handler)
TAlert == [name |-> "alert", kinds |-> <<"pass", "alert">>, edges |-> <<Src, Ed(1, 2)>>,
           outf |-> <<"all", "all">>]
\* from -> alert -> log  (alert in the middle: the alert node forwards its input)
TAlertMid == [name |-> "alertmid", kinds |-> <<"pass", "alert", "sync">>, edges |-> <<Src, Ed(1, 2), Ed(2, 3)>>,
              outf |-> <<"all", "all", "all">>]
\* from -> log / httpPost
TSync == [name |-> "sync", kinds |-> <<"pass", "sync">>, edges |-> <<Src, Ed(1, 2)>>,
          outf |-> <<"all", "all">>]
\* fork: from -> log, from -> influxDBOut
TFork == [name |-> "fork", kinds |-> <<"pass", "sync", "influx">>, edges |-> <<Src, Ed(1, 2), Ed(1, 3)>>,
          outf |-> <<"all", "all", "all">>]
\* union of two filtered branches -> log
TUnion == [name |-> "union", kinds |-> <<"pass", "union", "sync">>,
           edges |-> <<Src, EdF(1, 2, "odd"), EdF(1, 2, "even"), Ed(2, 3)>>,
           outf |-> <<"all", "all", "all">>]
\* from -> kapacitorLoopback
TLoop == [name |-> "loop", kinds |-> <<"pass", "loop">>, edges |-> <<Src, Ed(1, 2)>>,
          outf |-> <<"all", "all">>]

\* from -> UDF -> log
TUdf == [name |-> "udf", kinds |-> <<"pass", "udf", "sync">>, edges |-> <<Src, Ed(1, 2), Ed(2, 3)>>,
         outf |-> <<"all", "all", "all">>]

MCTopos == {TInflux, TChain, TAlert, TAlertMid, TSync, TFork, TUnion, TUdf}
MCToposSmall == {TInflux, TAlert, TSync, TUnion}
MCInfluxOnly == {TInflux, TChain, TFork}
MCUnionOnly == {TUnion}
MCAlertOnly == {TAlert, TAlertMid}
MCLoopOnly == {TLoop}
MCUdfOnly == {TUdf}
BothKinds == {"task", "close"}
TaskOnly == {"task"}
=============================================================================
