SPECIFICATION Spec
CONSTANTS
    MaxPts = 3
    K = 1
    BufSize = 2
    Topos <- MCTopos
    StopKinds <- BothKinds
    AllowFail = TRUE
    MaxN = 3
    MaxE = 4
    InfluxStopF = FALSE
    ReaderDone = TRUE
    AlertCloseOnErr = TRUE
    UdfStopAborts = FALSE
    ForkHoldsRLock = TRUE
    NWaiters = 1
    WaitHoldsMu = TRUE
    HookNeedsTmLock = FALSE
INVARIANTS
    TypeOK
    WaitersAgree
    OneShotErrCh
    NoAcceptedLoss
    AckedAllForked
    NoSilentDrop
    NoDuplicate
    NothingInvented
    NoCollectOnClosed
    StoppedMeansQuiet
CHECK_DEADLOCK TRUE
