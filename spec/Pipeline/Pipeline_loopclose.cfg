\* kapacitorLoopback under TaskMaster.Close: terminates; looped-back points are delivered or refused with an error.
SPECIFICATION Spec
CONSTANTS
    MaxPts = 3
    K = 1
    BufSize = 1
    Topos <- MCLoopOnly
    StopKinds = {"close"}
    AllowFail = TRUE
    MaxN = 3
    MaxE = 4
    InfluxStopF = FALSE
    ReaderDone = TRUE
    AlertCloseOnErr = TRUE
    UdfStopAborts = FALSE
    ForkHoldsRLock = TRUE
    NWaiters = 0
    WaitHoldsMu = TRUE
    HookNeedsTmLock = FALSE
INVARIANTS
    TypeOK
    WaitersAgree
    OneShotErrCh
    NoAcceptedLoss
    AckedAllForked
    NoCollectOnClosed
CHECK_DEADLOCK TRUE
