\* the code as it was: stopUDF aborts the UDF on every graceful stop (stopF runs before Wait).
\* Expected: NoAcceptedLoss is violated.
SPECIFICATION Spec
CONSTANTS
    MaxPts = 2
    K = 1
    BufSize = 1
    Topos <- MCUdfOnly
    StopKinds <- BothKinds
    AllowFail = FALSE
    MaxN = 3
    MaxE = 4
    InfluxStopF = FALSE
    ReaderDone = TRUE
    AlertCloseOnErr = TRUE
    UdfStopAborts = TRUE
    ForkHoldsRLock = TRUE
    NWaiters = 0
    WaitHoldsMu = TRUE
    HookNeedsTmLock = FALSE
INVARIANTS
    TypeOK
    NoAcceptedLoss
CHECK_DEADLOCK TRUE
