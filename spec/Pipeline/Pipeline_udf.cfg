\* UDF node: stopUDF aborts the UDF on every graceful stop.
\* Expected: NoAcceptedLoss is violated (KNOWN FINDING udf-stop-aborts, not repaired).
SPECIFICATION Spec
CONSTANTS
    MaxPts = 2
    K = 1
    BufSize = 1
    Topos <- MCUdfOnly
    StopKinds <- BothKinds
    AllowFail = FALSE
    MaxN = 3
    MaxE = 4
    InfluxStopF = FALSE
    ReaderDone = TRUE
    AlertCloseOnErr = TRUE
    HookNeedsTmLock = FALSE
INVARIANTS
    TypeOK
    NoAcceptedLoss
CHECK_DEADLOCK TRUE
