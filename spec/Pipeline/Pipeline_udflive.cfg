\* UDF node: apart from the loss (Pipeline_udf.cfg) the stop still terminates and nothing is left behind.
SPECIFICATION Spec
CONSTANTS
    MaxPts = 3
    K = 1
    BufSize = 1
    Topos <- MCUdfOnly
    StopKinds <- BothKinds
    AllowFail = TRUE
    MaxN = 3
    MaxE = 4
    InfluxStopF = FALSE
    ReaderDone = TRUE
    AlertCloseOnErr = TRUE
    HookNeedsTmLock = FALSE
INVARIANTS
    TypeOK
    NothingInvented
    NoCollectOnClosed
CHECK_DEADLOCK TRUE
