\* kapacitorLoopback with more backlog than the ingest edge holds, stopped with StopTask:
\* the node blocks writing into wp, the forking goroutine waits for tm.mu, StopTask holds tm.mu.
\* Expected: deadlock (known finding loopback-stop-deadlock).
SPECIFICATION Spec
CONSTANTS
    MaxPts = 3
    K = 1
    BufSize = 1
    Topos <- MCLoopOnly
    StopKinds <- TaskOnly
    AllowFail = FALSE
    MaxN = 3
    MaxE = 4
    InfluxStopF = FALSE
    ReaderDone = TRUE
    AlertCloseOnErr = TRUE
    UdfStopAborts = FALSE
    ForkHoldsRLock = TRUE
    NWaiters = 0
    WaitHoldsMu = TRUE
    HookNeedsTmLock = FALSE
INVARIANTS
    TypeOK
    NoAcceptedLoss
CHECK_DEADLOCK TRUE
