\* the code as it was: multiConsumer readers block forever on their send after Consume returned with an error.
\* Expected: deadlock (a reader and the collector goroutine never exit).
SPECIFICATION Spec
CONSTANTS
    MaxPts = 3
    K = 1
    BufSize = 1
    Topos <- MCUnionOnly
    StopKinds <- TaskOnly
    AllowFail = TRUE
    MaxN = 3
    MaxE = 4
    InfluxStopF = FALSE
    ReaderDone = FALSE
    AlertCloseOnErr = TRUE
    UdfStopAborts = FALSE
    ForkHoldsRLock = TRUE
    NWaiters = 0
    WaitHoldsMu = TRUE
    HookNeedsTmLock = FALSE
INVARIANTS
    TypeOK
CHECK_DEADLOCK TRUE
