-------------------------------- MODULE Edge --------------------------------
(* The channel edge of kapacitor (edge/edge.go: channelEdge), as operators   *)
(* over a record  [buf, closed, aborted].                                    *)
(*   buf      contents of the buffered channel `messages` (capacity Cap)     *)
(*   closed   close(messages) happened  (Close; only from state open)        *)
(*   aborted  close(aborting) happened  (Abort; from open or closed)         *)
(* Go semantics that matter for graceful stop:                               *)
(*   Collect = select { messages <- m ; <-aborting -> ErrAborted }           *)
(*   Emit    = select { m, ok = <-messages ; <-aborting -> (nil,false) }     *)
(*   a closed channel still hands out its buffered messages, then ok=false;  *)
(*   when both select cases are ready Go picks one at random: an aborted     *)
(*   edge may still deliver some of its backlog or none of it.               *)
EXTENDS Integers, Sequences

EdgeNew == [buf |-> <<>>, closed |-> FALSE, aborted |-> FALSE]

\* Collect(m) can complete by buffering the message.
CanBuffer(e, Cap) == ~e.closed /\ Len(e.buf) < Cap
Buffered(e, m) == [e EXCEPT !.buf = Append(@, m)]
\* Collect(m) can complete with ErrAborted.
CollectAborts(e) == e.aborted
\* Collect on a closed (not aborted) edge is a send on a closed channel: panic.
CollectPanics(e) == e.closed /\ ~e.aborted

\* Emit can complete with a message ...
CanEmitMsg(e) == e.buf # <<>>
EmitMsg(e) == Head(e.buf)
AfterEmit(e) == [e EXCEPT !.buf = Tail(@)]
\* ... or with ok = false (end of stream: drained and closed, or aborted).
CanEmitEOF(e) == (e.buf = <<>> /\ e.closed) \/ e.aborted

\* Close: only an open edge is closed ("edge not open cannot close" otherwise).
Closed(e) == IF ~e.closed /\ ~e.aborted THEN [e EXCEPT !.closed = TRUE] ELSE e
\* Abort: idempotent, allowed after Close.
Aborted(e) == [e EXCEPT !.aborted = TRUE]
=============================================================================
