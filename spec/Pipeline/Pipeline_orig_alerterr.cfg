\* the code as it was: an alert node that fails does not close its topic; the handler goroutine stays.
\* Expected: deadlock (handler goroutine never exits).
SPECIFICATION Spec
CONSTANTS
    MaxPts = 2
    K = 1
    BufSize = 1
    Topos <- MCAlertOnly
    StopKinds <- TaskOnly
    AllowFail = TRUE
    MaxN = 3
    MaxE = 4
    InfluxStopF = FALSE
    ReaderDone = TRUE
    AlertCloseOnErr = FALSE
    UdfStopAborts = FALSE
    ForkHoldsRLock = TRUE
    NWaiters = 0
    WaitHoldsMu = TRUE
    HookNeedsTmLock = FALSE
INVARIANTS
    TypeOK
CHECK_DEADLOCK TRUE
