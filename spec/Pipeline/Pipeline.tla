------------------------------ MODULE Pipeline ------------------------------
(* Graceful stop of a kapacitor task (property C07).                         *)
(*                                                                            *)
(* One stream task: WritePoints -> TaskMaster ingest edge (wp) -> forking     *)
(* goroutine -> the task's source edge -> a small DAG of node goroutines      *)
(* connected by bounded channel edges (Edge.tla) -> outputs.  Code-shaped:    *)
(* one action per blocking operation / critical section of task_master.go,    *)
(* task.go, node.go, edge/edge.go, edge/consumer.go, influxdb_out.go,         *)
(* alert.go + alert/topics.go, kapacitor_loopback.go.                         *)
(*                                                                            *)
(* Node kinds                                                                 *)
(*   pass    stream0 / from / where / eval ...: take a message, forward it    *)
(*   sync    log, httpPost: deliver synchronously in the node goroutine,      *)
(*           then forward                                                      *)
(*   influx  influxDBOut: node goroutine -> unbuffered queue -> write-buffer  *)
(*           goroutine (run loop: queue / flushing / stopping) -> sink        *)
(*   alert   alert node: event -> handler queue -> handler goroutine -> sink; *)
(*           the node closes its anonymous topic when it ends (Close drains)  *)
(*   union   join/union: multiConsumer, one reader goroutine per parent edge  *)
(*           sending on an unbuffered channel to the consumer, a collector    *)
(*           goroutine closing that channel when all readers are done         *)
(*   loop    kapacitorLoopback: deliver = WriteKapacitorPoint into wp         *)
(*   udf     UDF node: forwards like pass (the round trip through the UDF     *)
(*           process is an internal delay); in the original code its stopF    *)
(*           was stopUDF = Abort: whatever it held was dropped, it returned   *)
(*           "node aborted" and aborted its parent edges (UdfStopAborts)      *)
(*                                                                            *)
(* Stop = the real protocol.  StopTask/DeleteTask: take tm.mu, delFork (close *)
(* the source edge), et.stop: for every node in topological order stopF then  *)
(* Wait; release tm.mu.  TaskMaster.Close: Drain (refuse further writes,      *)
(* close wp, wait for the forking goroutine, delFork) and then stop as above. *)
(* The stop may be requested in ANY state.                                    *)
(*                                                                            *)
(* Flags select between the code as it was and as repaired (see notes):       *)
(*   InfluxStopF      stopOut (flush; abort) is the node's stopF, run by      *)
(*                    et.stop BEFORE Wait (original) / the node goroutine     *)
(*                    flushes and stops its write buffer after its consumer   *)
(*                    returned (repaired)                                     *)
(*   ReaderDone       multiConsumer readers select on a done channel          *)
(*   AlertCloseOnErr  alert node closes its topic also when it failed         *)
(*   HookNeedsTmLock  alert node start takes tm.mu (registerDeleteHook)       *)
(*   UdfStopAborts    stopUDF aborts the UDF (original) / does nothing        *)
(*                                                                            *)
(* The fork edge.  The task's source edge is the first edge of the pipeline   *)
(* and the TaskMaster's forking goroutine is its sender process: forkPoint    *)
(* looks the edge up in tm.forks and calls Collect on it, both under          *)
(* tm.mu.RLock - Collect blocks while the edge is full, so a StopTask /       *)
(* DeleteTask (tm.mu.Lock) waits for the Collect in progress, and delFork     *)
(* closes the edge only when no sender is inside it.  What the code           *)
(* guarantees for StopTask/DeleteTask is therefore: every point whose Collect *)
(* completed is the task's and is processed (accepted, NoAcceptedLoss) - that *)
(* includes the one Collect the stop had to wait for; points still in the     *)
(* ingest edge are not the task's any more (ForkCollect after sdel drops      *)
(* them); nobody ever sends on the closed edge (NoCollectOnClosed: a send on  *)
(* a closed channel kills the process).  ForkHoldsRLock = FALSE models a      *)
(* forkPoint that copies the edge under the lock and collects without it.     *)
(*                                                                            *)
(* Waiters.  services/task_store runs `et.Wait()` in a goroutine for every    *)
(* task it starts, so a stop ALWAYS races with a concurrent waiter.           *)
(* ExecutingTask.Wait walks the nodes in reverse order calling node.Wait and  *)
(* returns the first error; the stop walks forwards.  node.Wait is            *)
(* `finishedMu.Lock; if !finished { finished = true; err = <-errCh }; Unlock` *)
(* - the node goroutine sends exactly ONE value on errCh, `finished`/`err`    *)
(* are sticky, and the mutex is held across the receive so that any number of *)
(* concurrent callers all return once the node has finished.  WaitHoldsMu =   *)
(* FALSE models a Wait that releases the mutex before it receives (two        *)
(* callers both receive, one blocks for ever).                                *)
EXTENDS Integers, Sequences, FiniteSets, TLC, Edge

CONSTANTS
    MaxPts,          \* points offered: 1..MaxPts
    K,               \* capacity of every edge (stands for 1000)
    BufSize,         \* influxDBOut .buffer(n)
    Topos,           \* set of topology records (see PipelineMC)
    StopKinds,       \* subset of {"task", "close"}
    AllowFail,       \* BOOLEAN: one node may return an error at any time
    MaxN, MaxE,      \* array sizes (>= nodes / edges of every topology)
    InfluxStopF, ReaderDone, AlertCloseOnErr, HookNeedsTmLock, UdfStopAborts,
    ForkHoldsRLock,  \* forkPoint keeps tm.mu.RLock across edge.Collect (the code)
    NWaiters,        \* goroutines blocked in ExecutingTask.Wait() (task_store has one per task)
    WaitHoldsMu      \* node.Wait holds finishedMu while it receives from errCh (the code)

VARIABLES
    topo, kind,      \* chosen at Init, constant afterwards
    next,            \* next point WritePoints will offer (acknowledged = 1..next-1)
    wp, wclosed,     \* ingest edge, writesClosed
    fk,              \* forking goroutine [pc, m]
    lock,            \* tm.mu: "free" | "S" (held by the stopper)
    sdel,            \* delFork done: the task's edge is no longer in tm.forks
    E,               \* edge index -> edge record; edge 1 is the source edge
    pc, cur, fi, nerr, \* per node: control state, message in hand, next out-edge, failing
    wb,              \* per node: write buffer goroutine [pc, buf, stopping]
    hq,              \* per node: handler [q, closed, pc]
    rd,              \* per edge: reader goroutine of a multiConsumer [pc, m]
    mclosed, udone,  \* per node: multiConsumer messages channel closed / done closed
    sp,              \* stopper [pc, i]
    accepted,        \* points forked into the task's source edge
    delivered,       \* per node: sequence of points handed to the sink
    refused,         \* loopback writes refused with a reported error (TaskMaster closed)
    dropped,         \* points dropped by influxDBOut.enqueue's `stopping` branch
    failed, panicked,
    errch,           \* per node: 1 = the node goroutine's one value sits in errCh (buffer 1), 0 = empty / taken
    fin,             \* per node: node.finished (sticky; node.err is nerr, sticky as well)
    wmu,             \* per node: holder of finishedMu (0 = free, -1 = the stopper, w = waiter w)
    wt               \* per waiter: [at, i, res]  ExecutingTask.Wait: reverse walk, res = node whose error is returned

wvars == <<errch, fin, wmu, wt>>
vars == <<topo, kind, next, wp, wclosed, fk, lock, sdel, E, pc, cur, fi, nerr, wb, hq, rd,
          mclosed, udone, sp, accepted, delivered, refused, dropped, failed, panicked, errch, fin, wmu, wt>>

Waiters == 1..NWaiters

-----------------------------------------------------------------------------
Nodes == 1..Len(topo.kinds)
NK(n) == topo.kinds[n]
EIdx == 1..Len(topo.edges)
InE(n) == {e \in EIdx : topo.edges[e].to = n}
OutSeq(n) == SelectSeq([i \in EIdx |-> i], LAMBDA i : topo.edges[i].from = n)
TheIn(n) == CHOOSE e \in InE(n) : TRUE
\* "none": an output that is not judged point by point (join drops unmatched points by design)
Pass(f, p) == f = "all" \/ (f = "odd" /\ p % 2 = 1) \/ (f = "even" /\ p % 2 = 0)

\* first index j' >= j of OutSeq(n) whose filter lets m through, Len+1 if none
NextOut(n, m, j) ==
    LET os == OutSeq(n)
        ok == {i \in j..Len(os) : Pass(topo.edges[os[i]].f, m)}
    IN IF ok = {} THEN Len(os) + 1 ELSE CHOOSE i \in ok : \A i2 \in ok : i <= i2

NoWb == [at |-> "none", buf |-> <<>>, stopping |-> FALSE]
NoHq == [q |-> <<>>, closed |-> FALSE, at |-> "none"]
NoRd == [at |-> "none", m |-> 0]

Init ==
    /\ topo \in Topos
    /\ kind \in StopKinds
    /\ next = 1 /\ wp = EdgeNew /\ wclosed = FALSE
    /\ fk = [at |-> "idle", m |-> 0, e |-> FALSE]
    /\ lock = "free" /\ sdel = FALSE
    /\ E = [e \in 1..MaxE |-> EdgeNew]
    /\ pc = [n \in 1..MaxN |->
               IF n > Len(topo.kinds) THEN "done"
               ELSE IF topo.kinds[n] \in {"influx", "alert"} THEN "start" ELSE "run"]
    /\ cur = [n \in 1..MaxN |-> 0]
    /\ fi = [n \in 1..MaxN |-> 1]
    /\ nerr = [n \in 1..MaxN |-> FALSE]
    /\ wb = [n \in 1..MaxN |-> IF n <= Len(topo.kinds) /\ topo.kinds[n] = "influx"
                                 THEN [at |-> "unstarted", buf |-> <<>>, stopping |-> FALSE] ELSE NoWb]
    /\ hq = [n \in 1..MaxN |-> IF n <= Len(topo.kinds) /\ topo.kinds[n] = "alert"
                                 THEN [q |-> <<>>, closed |-> FALSE, at |-> "run"] ELSE NoHq]
    /\ rd = [e \in 1..MaxE |-> IF e <= Len(topo.edges) /\ topo.kinds[topo.edges[e].to] = "union"
                                 THEN [at |-> "emit", m |-> 0] ELSE NoRd]
    /\ mclosed = [n \in 1..MaxN |-> FALSE]
    /\ udone = [n \in 1..MaxN |-> FALSE]
    /\ sp = [at |-> "idle", i |-> 0]
    /\ accepted = {}
    /\ delivered = [n \in 1..MaxN |-> <<>>]
    /\ refused = 0 /\ dropped = {}
    /\ failed = FALSE /\ panicked = FALSE
    /\ errch = [n \in 1..MaxN |-> 0]
    /\ fin = [n \in 1..MaxN |-> FALSE]
    /\ wmu = [n \in 1..MaxN |-> 0]
    /\ wt = [w \in Waiters |-> [at |-> "wait", i |-> Len(topo.kinds), res |-> 0]]

-----------------------------------------------------------------------------
(* WritePoints and the TaskMaster's forking goroutine                        *)

\* WritePoints: refused once writes are closed; blocks while wp is full.
Write ==
    /\ next <= MaxPts /\ ~wclosed /\ CanBuffer(wp, K)
    /\ wp' = Buffered(wp, next) /\ next' = next + 1
    /\ UNCHANGED <<topo, kind, wclosed, fk, lock, sdel, E, pc, cur, fi, nerr, wb, hq, rd, mclosed, udone,
                   sp, accepted, delivered, refused, dropped, failed, panicked>>

\* runForking: EmitPoint ...
ForkTake ==
    /\ fk.at = "idle"
    /\ \/ /\ CanEmitMsg(wp)
          /\ fk' = [at |-> "want", m |-> EmitMsg(wp), e |-> FALSE] /\ wp' = AfterEmit(wp)
       \/ /\ CanEmitEOF(wp) /\ ~CanEmitMsg(wp)
          /\ fk' = [at |-> "done", m |-> 0, e |-> FALSE] /\ wp' = wp
    /\ UNCHANGED <<topo, kind, next, wclosed, lock, sdel, E, pc, cur, fi, nerr, wb, hq, rd, mclosed, udone,
                   sp, accepted, delivered, refused, dropped, failed, panicked>>
\* ... forkPoint: tm.mu.RLock (waits while a stop holds tm.mu) ...
ForkRLock ==
    /\ fk.at = "want" /\ lock = "free"
    /\ fk' = [fk EXCEPT !.at = "in", !.e = (fk.m > 0 /\ ~sdel)]     \* the edge found in tm.forks, if any
    /\ UNCHANGED <<topo, kind, next, wp, wclosed, lock, sdel, E, pc, cur, fi, nerr, wb, hq, rd, mclosed, udone,
                   sp, accepted, delivered, refused, dropped, failed, panicked>>
\* ... Collect into the task's edge (blocks while the edge is full) - while holding the read lock in the code,
\* so that delFork cannot close the edge under the sender; points of another db/rp (loopback output, negative)
\* and points looked up after delFork are not for this task.
ForkCollect ==
    /\ fk.at = "in"
    /\ \/ /\ ~fk.e
          /\ UNCHANGED <<E, accepted, panicked>>
       \/ /\ fk.e /\ CanBuffer(E[1], K)
          /\ E' = [E EXCEPT ![1] = Buffered(@, fk.m)]
          /\ accepted' = accepted \cup {fk.m}
          /\ UNCHANGED panicked
       \/ /\ fk.e /\ CollectAborts(E[1])      \* `_ = edge.Collect(p)`
          /\ UNCHANGED <<E, accepted, panicked>>
       \/ /\ fk.e /\ CollectPanics(E[1])      \* send on a closed channel: the process dies
          /\ panicked' = TRUE
          /\ UNCHANGED <<E, accepted>>
    /\ fk' = [at |-> "idle", m |-> 0, e |-> FALSE]
    /\ UNCHANGED <<topo, kind, next, wp, wclosed, lock, sdel, pc, cur, fi, nerr, wb, hq, rd, mclosed, udone,
                   sp, delivered, refused, dropped, failed>>

-----------------------------------------------------------------------------
(* Node goroutines                                                            *)

\* state after a node is done with the message in hand: forward it or go back to receive
AfterMsg(n, m) == IF NextOut(n, m, 1) > Len(OutSeq(n)) THEN "run" ELSE "fwd"

\* where a node goes when its consumer returned (err = failing)
\*   influx (repaired): deferred wb.stop() in the node goroutine, also on error
\*   alert: CloseTopic + Deregister on the normal path; on error only when repaired
EndState(n, failing) ==
    CASE NK(n) = "influx" /\ ~InfluxStopF -> "fl1"
      [] NK(n) = "alert" /\ (~failing \/ AlertCloseOnErr) -> "fin"
      [] OTHER -> "exit"

UnchangedAux == UNCHANGED <<topo, kind, next, wp, wclosed, fk, lock, sdel, sp, accepted, refused, failed>>

\* node start: influxDBOut starts its write buffer goroutine
StartInflux(n) ==
    /\ NK(n) = "influx" /\ pc[n] = "start"
    /\ wb' = [wb EXCEPT ![n].at = "idle"]
    /\ pc' = [pc EXCEPT ![n] = "run"]
    /\ UnchangedAux
    /\ UNCHANGED <<E, cur, fi, nerr, hq, rd, mclosed, udone, delivered, dropped, panicked>>
\* node start: the alert node registers its delete hook (tm.mu in the original code)
StartAlert(n) ==
    /\ NK(n) = "alert" /\ pc[n] = "start"
    /\ HookNeedsTmLock => (lock = "free" /\ fk.at # "in")
    /\ pc' = [pc EXCEPT ![n] = "run"]
    /\ UnchangedAux
    /\ UNCHANGED <<E, cur, fi, nerr, wb, hq, rd, mclosed, udone, delivered, dropped, panicked>>

\* single-input nodes: consumer.Consume -> edge.Emit
Receive(n) ==
    /\ NK(n) # "union" /\ pc[n] = "run"
    /\ LET e == TheIn(n) IN
       \/ /\ CanEmitMsg(E[e])
          /\ E' = [E EXCEPT ![e] = AfterEmit(@)]
          /\ cur' = [cur EXCEPT ![n] = EmitMsg(E[e])]
          /\ pc' = [pc EXCEPT ![n] =
                      CASE NK(n) \in {"pass", "udf"} -> AfterMsg(n, EmitMsg(E[e]))
                        [] NK(n) = "influx" -> "enq"
                        [] OTHER -> "out"]
          /\ fi' = [fi EXCEPT ![n] = NextOut(n, EmitMsg(E[e]), 1)]
       \/ /\ CanEmitEOF(E[e])            \* ok = false: the consumer returns nil (also on abort)
          /\ pc' = [pc EXCEPT ![n] = EndState(n, FALSE)]
          /\ UNCHANGED <<E, cur, fi>>
    /\ UnchangedAux
    /\ UNCHANGED <<nerr, wb, hq, rd, mclosed, udone, delivered, dropped, panicked>>

\* edge.Forward: Collect into the next child edge
Forward(n) ==
    /\ pc[n] = "fwd"
    /\ LET e == OutSeq(n)[fi[n]]
           j == NextOut(n, cur[n], fi[n] + 1) IN
       \/ /\ CanBuffer(E[e], K)
          /\ E' = [E EXCEPT ![e] = Buffered(@, cur[n])]
          /\ fi' = [fi EXCEPT ![n] = j]
          /\ pc' = [pc EXCEPT ![n] = IF j > Len(OutSeq(n)) THEN "run" ELSE "fwd"]
          /\ UNCHANGED <<nerr, panicked>>
       \/ /\ CollectAborts(E[e])          \* ErrAborted: the node fails
          /\ nerr' = [nerr EXCEPT ![n] = TRUE]
          /\ pc' = [pc EXCEPT ![n] = EndState(n, TRUE)]
          /\ UNCHANGED <<E, fi, panicked>>
       \/ /\ CollectPanics(E[e])
          /\ panicked' = TRUE
          /\ UNCHANGED <<E, fi, pc, nerr>>
    /\ UnchangedAux
    /\ UNCHANGED <<cur, wb, hq, rd, mclosed, udone, delivered, dropped>>

\* log / httpPost: the sink is called in the node goroutine
DeliverSync(n) ==
    /\ NK(n) = "sync" /\ pc[n] = "out"
    /\ delivered' = [delivered EXCEPT ![n] = Append(@, cur[n])]
    /\ pc' = [pc EXCEPT ![n] = AfterMsg(n, cur[n])]
    /\ UnchangedAux
    /\ UNCHANGED <<E, cur, fi, nerr, wb, hq, rd, mclosed, udone, dropped, panicked>>

\* kapacitorLoopback: WriteKapacitorPoint = Collect into wp, or a reported error once writes are closed
DeliverLoop(n) ==
    /\ NK(n) = "loop" /\ pc[n] = "out"
    /\ \/ /\ wclosed /\ refused' = refused + 1 /\ UNCHANGED <<wp, delivered>>
       \/ /\ ~wclosed /\ CanBuffer(wp, K)
          /\ wp' = Buffered(wp, 0 - cur[n])
          /\ delivered' = [delivered EXCEPT ![n] = Append(@, cur[n])]
          /\ UNCHANGED refused
    /\ pc' = [pc EXCEPT ![n] = AfterMsg(n, cur[n])]
    /\ UNCHANGED <<topo, kind, next, wclosed, fk, lock, sdel, sp, accepted, failed>>
    /\ UNCHANGED <<E, cur, fi, nerr, wb, hq, rd, mclosed, udone, dropped, panicked>>

\* alert node: handleEvent -> bufHandler.Handle (buffered channel; assumed never full)
DeliverAlert(n) ==
    /\ NK(n) = "alert" /\ pc[n] = "out"
    /\ hq' = [hq EXCEPT ![n].q = Append(@, cur[n])]
    /\ pc' = [pc EXCEPT ![n] = AfterMsg(n, cur[n])]
    /\ UnchangedAux
    /\ UNCHANGED <<E, cur, fi, nerr, wb, rd, mclosed, udone, delivered, dropped, panicked>>
\* bufHandler.run: handle one queued event; exit when the channel is closed and drained
Handle(n) ==
    /\ hq[n].at = "run" /\ hq[n].q # <<>>
    /\ delivered' = [delivered EXCEPT ![n] = Append(@, Head(hq[n].q))]
    /\ hq' = [hq EXCEPT ![n].q = Tail(@)]
    /\ UnchangedAux
    /\ UNCHANGED <<E, pc, cur, fi, nerr, wb, rd, mclosed, udone, dropped, panicked>>
HandlerExit(n) ==
    /\ hq[n].at = "run" /\ hq[n].q = <<>> /\ hq[n].closed
    /\ hq' = [hq EXCEPT ![n].at = "done"]
    /\ UnchangedAux
    /\ UNCHANGED <<E, pc, cur, fi, nerr, wb, rd, mclosed, udone, delivered, dropped, panicked>>
\* alert node end: CloseTopic -> bufHandler.Close = close(events); wg.Wait()
AlertClose(n) ==
    /\ NK(n) = "alert" /\ pc[n] = "fin"
    /\ hq' = [hq EXCEPT ![n].closed = TRUE]
    /\ pc' = [pc EXCEPT ![n] = "finw"]
    /\ UnchangedAux
    /\ UNCHANGED <<E, cur, fi, nerr, wb, rd, mclosed, udone, delivered, dropped, panicked>>
AlertClosed(n) ==
    /\ NK(n) = "alert" /\ pc[n] = "finw" /\ hq[n].at = "done"
    /\ pc' = [pc EXCEPT ![n] = "exit"]
    /\ UnchangedAux
    /\ UNCHANGED <<E, cur, fi, nerr, wb, hq, rd, mclosed, udone, delivered, dropped, panicked>>

\* influxDBOut: writeBuffer.enqueue = select { queue <- qe ; <-stopping }
Enqueue(n) ==
    /\ NK(n) = "influx" /\ pc[n] = "enq"
    /\ \/ /\ wb[n].at = "idle"                               \* rendezvous with run()'s `case qe := <-w.queue`
          /\ LET b == Append(wb[n].buf, cur[n]) IN
             wb' = [wb EXCEPT ![n].buf = b, ![n].at = IF Len(b) >= BufSize THEN "write" ELSE "idle"]
          /\ UNCHANGED dropped
       \/ /\ wb[n].stopping                                  \* the point is silently dropped
          /\ dropped' = dropped \cup {cur[n]}
          /\ UNCHANGED wb
    /\ pc' = [pc EXCEPT ![n] = AfterMsg(n, cur[n])]
    /\ UnchangedAux
    /\ UNCHANGED <<E, cur, fi, nerr, hq, rd, mclosed, udone, delivered, panicked>>
\* writeBuffer.run: buffer reached its size -> write (the sink may be arbitrarily slow: a step of its own)
WbWrite(n) ==
    /\ wb[n].at = "write"
    /\ delivered' = [delivered EXCEPT ![n] = @ \o wb[n].buf]
    /\ wb' = [wb EXCEPT ![n].buf = <<>>, ![n].at = "idle"]
    /\ UnchangedAux
    /\ UNCHANGED <<E, pc, cur, fi, nerr, hq, rd, mclosed, udone, dropped, panicked>>
\* writeBuffer.run: `case <-w.stopping: return`
WbStop(n) ==
    /\ wb[n].at = "idle" /\ wb[n].stopping
    /\ wb' = [wb EXCEPT ![n].at = "stopped"]
    /\ UnchangedAux
    /\ UNCHANGED <<E, pc, cur, fi, nerr, hq, rd, mclosed, udone, delivered, dropped, panicked>>
\* flush(); abort() as executed by the node goroutine after its consumer returned (repaired code).
\* flush = rendezvous on `flushing`, writeAll, rendezvous on `flushed` (one step: nobody else can interfere)
NodeFlush(n) ==
    /\ pc[n] = "fl1" /\ wb[n].at = "idle"
    /\ delivered' = [delivered EXCEPT ![n] = @ \o wb[n].buf]
    /\ wb' = [wb EXCEPT ![n].buf = <<>>]
    /\ pc' = [pc EXCEPT ![n] = "ab"]
    /\ UnchangedAux
    /\ UNCHANGED <<E, cur, fi, nerr, hq, rd, mclosed, udone, dropped, panicked>>
NodeAbort(n) ==
    /\ pc[n] = "ab"
    /\ wb' = [wb EXCEPT ![n].stopping = TRUE]
    /\ pc' = [pc EXCEPT ![n] = "abw"]
    /\ UnchangedAux
    /\ UNCHANGED <<E, cur, fi, nerr, hq, rd, mclosed, udone, delivered, dropped, panicked>>
NodeAbortWait(n) ==
    /\ pc[n] = "abw" /\ wb[n].at = "stopped"
    /\ pc' = [pc EXCEPT ![n] = "exit"]
    /\ UnchangedAux
    /\ UNCHANGED <<E, cur, fi, nerr, wb, hq, rd, mclosed, udone, delivered, dropped, panicked>>

\* multiConsumer: reader goroutine of edge e
ReaderEmit(e) ==
    /\ rd[e].at = "emit"
    /\ \/ /\ CanEmitMsg(E[e])
          /\ rd' = [rd EXCEPT ![e] = [at |-> "send", m |-> EmitMsg(E[e])]]
          /\ E' = [E EXCEPT ![e] = AfterEmit(@)]
       \/ /\ CanEmitEOF(E[e])
          /\ rd' = [rd EXCEPT ![e] = [at |-> "done", m |-> 0]]
          /\ UNCHANGED E
    /\ UnchangedAux
    /\ UNCHANGED <<pc, cur, fi, nerr, wb, hq, mclosed, udone, delivered, dropped, panicked>>
\* `c.messages <- m` meets the consumer's select: rendezvous
ReaderSend(e) ==
    /\ rd[e].at = "send"
    /\ LET n == topo.edges[e].to IN
       /\ pc[n] = "run"
       /\ cur' = [cur EXCEPT ![n] = rd[e].m]
       /\ fi' = [fi EXCEPT ![n] = NextOut(n, rd[e].m, 1)]
       /\ pc' = [pc EXCEPT ![n] = AfterMsg(n, rd[e].m)]
    /\ rd' = [rd EXCEPT ![e] = [at |-> "emit", m |-> 0]]
    /\ UnchangedAux
    /\ UNCHANGED <<E, nerr, wb, hq, mclosed, udone, delivered, dropped, panicked>>
\* repaired code only: a reader blocked on its send is released when Consume has returned
ReaderRelease(e) ==
    /\ ReaderDone /\ rd[e].at = "send" /\ udone[topo.edges[e].to]
    /\ rd' = [rd EXCEPT ![e] = [at |-> "done", m |-> 0]]
    /\ UnchangedAux
    /\ UNCHANGED <<E, pc, cur, fi, nerr, wb, hq, mclosed, udone, delivered, dropped, panicked>>
\* the collector goroutine closes `messages` when every reader has returned
CollectorClose(n) ==
    /\ NK(n) = "union" /\ ~mclosed[n]
    /\ \A e \in InE(n) : rd[e].at = "done"
    /\ mclosed' = [mclosed EXCEPT ![n] = TRUE]
    /\ UnchangedAux
    /\ UNCHANGED <<E, pc, cur, fi, nerr, wb, hq, rd, udone, delivered, dropped, panicked>>
\* the consumer sees the closed channel and finishes normally
UnionEnd(n) ==
    /\ NK(n) = "union" /\ pc[n] = "run" /\ mclosed[n]
    /\ pc' = [pc EXCEPT ![n] = "exit"]
    /\ UnchangedAux
    /\ UNCHANGED <<E, cur, fi, nerr, wb, hq, rd, mclosed, udone, delivered, dropped, panicked>>

\* a node returns an error between two messages (UDF process died, template error, injected panic ...)
NodeFail(n) ==
    /\ AllowFail /\ ~failed /\ pc[n] = "run"
    /\ failed' = TRUE
    /\ nerr' = [nerr EXCEPT ![n] = TRUE]
    /\ pc' = [pc EXCEPT ![n] = EndState(n, TRUE)]
    /\ UNCHANGED <<topo, kind, next, wp, wclosed, fk, lock, sdel, sp, accepted, refused>>
    /\ UNCHANGED <<E, cur, fi, wb, hq, rd, mclosed, udone, delivered, dropped, panicked>>

\* node.start's deferred function: close children edges; on error abort parent edges; errCh <- err
Exit(n) ==
    /\ pc[n] = "exit"
    /\ E' = [e \in 1..MaxE |->
               IF e \in EIdx /\ topo.edges[e].from = n THEN Closed(E[e])
               ELSE IF e \in EIdx /\ topo.edges[e].to = n /\ nerr[n] THEN Aborted(E[e])
               ELSE E[e]]
    /\ udone' = [udone EXCEPT ![n] = TRUE]       \* multiConsumer: deferred close(done) ran before
    /\ pc' = [pc EXCEPT ![n] = "done"]
    /\ UnchangedAux
    /\ UNCHANGED <<cur, fi, nerr, wb, hq, rd, mclosed, delivered, dropped, panicked>>

-----------------------------------------------------------------------------
(* The stopper: StopTask / DeleteTask / TaskMaster.Close                      *)

UnchangedNodes == UNCHANGED <<pc, cur, fi, nerr, hq, rd, mclosed, udone, dropped, panicked>>

\* first thing et.stop does for node i: stopF.  Only the original influxDBOut has one that matters here.
StopFState(i) == CASE NK(i) = "influx" /\ InfluxStopF -> "fl1"
                   [] NK(i) = "udf" /\ UdfStopAborts -> "uab"
                   [] OTHER -> "wait"

\* StopTask: tm.mu.Lock (waits for a forkPoint in progress), delFork = close the source edge
StopTaskBegin ==
    /\ sp.at = "idle" /\ kind = "task"
    /\ lock = "free" /\ (ForkHoldsRLock => fk.at # "in")
    /\ lock' = "S" /\ sdel' = TRUE
    /\ E' = [E EXCEPT ![1] = Closed(@)]
    /\ sp' = [at |-> StopFState(1), i |-> 1]
    /\ UNCHANGED <<topo, kind, next, wp, wclosed, fk, wb, accepted, delivered, refused, failed>>
    /\ UnchangedNodes
\* TaskMaster.Close -> Drain -> waitForForks: refuse writes, close wp ...
CloseBegin ==
    /\ sp.at = "idle" /\ kind = "close"
    /\ wclosed' = TRUE /\ wp' = Closed(wp)
    /\ sp' = [at |-> "drainw", i |-> 0]
    /\ UNCHANGED <<topo, kind, next, fk, lock, sdel, E, wb, accepted, delivered, refused, failed>>
    /\ UnchangedNodes
\* ... tm.wg.Wait() for the forking goroutine (tm.mu NOT held), then delFork all, then stopTask all
DrainDone ==
    /\ sp.at = "drainw" /\ fk.at = "done"
    /\ lock = "free"
    /\ lock' = "S" /\ sdel' = TRUE
    /\ E' = [E EXCEPT ![1] = Closed(@)]
    /\ sp' = [at |-> StopFState(1), i |-> 1]
    /\ UNCHANGED <<topo, kind, next, wp, wclosed, fk, wb, accepted, delivered, refused, failed>>
    /\ UnchangedNodes
\* original influxDBOut.stopOut executed by the stopper: flush ...
StopFlush ==
    /\ sp.at = "fl1" /\ wb[sp.i].at = "idle"
    /\ delivered' = [delivered EXCEPT ![sp.i] = @ \o wb[sp.i].buf]
    /\ wb' = [wb EXCEPT ![sp.i].buf = <<>>]
    /\ sp' = [sp EXCEPT !.at = "ab"]
    /\ UNCHANGED <<topo, kind, next, wp, wclosed, fk, lock, sdel, E, accepted, refused, failed>>
    /\ UnchangedNodes
\* ... abort: close(stopping) ...
StopAbort ==
    /\ sp.at = "ab"
    /\ wb' = [wb EXCEPT ![sp.i].stopping = TRUE]
    /\ sp' = [sp EXCEPT !.at = "abw"]
    /\ UNCHANGED <<topo, kind, next, wp, wclosed, fk, lock, sdel, E, accepted, delivered, refused, failed>>
    /\ UnchangedNodes
\* ... wg.Wait()
StopAbortWait ==
    /\ sp.at = "abw" /\ wb[sp.i].at = "stopped"
    /\ sp' = [sp EXCEPT !.at = "wait"]
    /\ UNCHANGED <<topo, kind, next, wp, wclosed, fk, lock, sdel, E, wb, accepted, delivered, refused, failed>>
    /\ UnchangedNodes
\* stopUDF = udf.Abort(errNodeAborted): the node drops what it holds and returns an error
StopUdfAbort ==
    /\ sp.at = "uab"
    /\ IF pc[sp.i] \in {"exit", "done"}
         THEN UNCHANGED <<pc, nerr>>
         ELSE /\ pc' = [pc EXCEPT ![sp.i] = "exit"]
              /\ nerr' = [nerr EXCEPT ![sp.i] = TRUE]
    /\ sp' = [sp EXCEPT !.at = "wait"]
    /\ UNCHANGED <<topo, kind, next, wp, wclosed, fk, lock, sdel, E, wb, accepted, delivered, refused, failed>>
    /\ UNCHANGED <<cur, fi, hq, rd, mclosed, udone, dropped, panicked>>
\* ---- node.Wait(), executed by the stopper ("S") and by every waiter ----
\* what the stopper does once n.Wait() has returned: next node, or done: release tm.mu
StopAdvance ==
    IF sp.i < Len(topo.kinds)
      THEN /\ sp' = [at |-> StopFState(sp.i + 1), i |-> sp.i + 1] /\ UNCHANGED lock
      ELSE /\ sp' = [at |-> "stopped", i |-> 0] /\ lock' = "free"
\* finishedMu.Lock(); already finished -> return the sticky error; otherwise go and receive
StopWaitLock ==
    /\ sp.at = "wait" /\ wmu[sp.i] = 0
    /\ IF fin[sp.i]
         THEN StopAdvance /\ UNCHANGED wmu
         ELSE /\ sp' = [sp EXCEPT !.at = IF WaitHoldsMu THEN "wlocked" ELSE "wrecv"]
              /\ wmu' = [wmu EXCEPT ![sp.i] = IF WaitHoldsMu THEN 0 - 1 ELSE 0]
              /\ UNCHANGED lock
    /\ UNCHANGED <<errch, fin, wt>>
\* err = <-errCh; finished = true; Unlock
StopWaitRecv ==
    /\ sp.at \in {"wlocked", "wrecv"} /\ errch[sp.i] = 1
    /\ sp.at = "wrecv" => wmu[sp.i] = 0
    /\ errch' = [errch EXCEPT ![sp.i] = 0]
    /\ fin' = [fin EXCEPT ![sp.i] = TRUE]
    /\ wmu' = [wmu EXCEPT ![sp.i] = 0]
    /\ StopAdvance
    /\ UNCHANGED wt

\* ExecutingTask.Wait = rwalk(n.Wait): a node with an error ends the walk with that error
WaiterAdvance(w) ==
    LET n == wt[w].i IN
    wt' = [wt EXCEPT ![w] = IF nerr[n] THEN [at |-> "done", i |-> 0, res |-> n]
                             ELSE IF n = 1 THEN [at |-> "done", i |-> 0, res |-> 0]
                             ELSE [at |-> "wait", i |-> n - 1, res |-> 0]]
WaiterLock(w) ==
    /\ wt[w].at = "wait" /\ wmu[wt[w].i] = 0
    /\ IF fin[wt[w].i]
         THEN WaiterAdvance(w) /\ UNCHANGED wmu
         ELSE /\ wt' = [wt EXCEPT ![w].at = IF WaitHoldsMu THEN "wlocked" ELSE "wrecv"]
              /\ wmu' = [wmu EXCEPT ![wt[w].i] = IF WaitHoldsMu THEN w ELSE 0]
    /\ UNCHANGED <<errch, fin, sp, lock>>
WaiterRecv(w) ==
    /\ wt[w].at \in {"wlocked", "wrecv"} /\ errch[wt[w].i] = 1
    /\ wt[w].at = "wrecv" => wmu[wt[w].i] = 0
    /\ errch' = [errch EXCEPT ![wt[w].i] = 0]
    /\ fin' = [fin EXCEPT ![wt[w].i] = TRUE]
    /\ wmu' = [wmu EXCEPT ![wt[w].i] = 0]
    /\ WaiterAdvance(w)
    /\ UNCHANGED <<sp, lock>>

OldVarsButStop == <<topo, kind, next, wp, wclosed, fk, sdel, E, wb, accepted, delivered, refused, failed,
                    pc, cur, fi, nerr, hq, rd, mclosed, udone, dropped, panicked>>
WaitStep ==
    /\ \/ StopWaitLock \/ StopWaitRecv
       \/ \E w \in Waiters : WaiterLock(w) \/ WaiterRecv(w)
    /\ UNCHANGED OldVarsButStop

-----------------------------------------------------------------------------
AllDone ==
    /\ \A n \in Nodes : pc[n] = "done"
    /\ \A n \in Nodes : wb[n].at \in {"none", "stopped"}
    /\ \A n \in Nodes : hq[n].at \in {"none", "done"}
    /\ \A e \in EIdx : rd[e].at \in {"none", "done"}
    /\ \A n \in Nodes : NK(n) = "union" => mclosed[n]
    /\ \A w \in Waiters : wt[w].at = "done"
\* the task's own goroutines (a waiter is a caller: it may still be on its way back when the stop returns)
TaskQuiet ==
    /\ \A n \in Nodes : pc[n] = "done"
    /\ \A n \in Nodes : wb[n].at \in {"none", "stopped"}
    /\ \A n \in Nodes : hq[n].at \in {"none", "done"}
    /\ \A e \in EIdx : rd[e].at \in {"none", "done"}
    /\ \A n \in Nodes : NK(n) = "union" => mclosed[n]

\* everything that can still happen after a completed stop: the producer is refused or its
\* points are not for this task any more; nothing else moves.  Terminal stuttering.
Terminated == sp.at = "stopped" /\ AllDone /\ UNCHANGED vars

NodeStep(n) ==
    \/ StartInflux(n) \/ StartAlert(n) \/ Receive(n) \/ Forward(n)
    \/ DeliverSync(n) \/ DeliverLoop(n) \/ DeliverAlert(n) \/ Handle(n) \/ HandlerExit(n)
    \/ AlertClose(n) \/ AlertClosed(n)
    \/ Enqueue(n) \/ WbWrite(n) \/ WbStop(n) \/ NodeFlush(n) \/ NodeAbort(n) \/ NodeAbortWait(n)
    \/ CollectorClose(n) \/ UnionEnd(n) \/ NodeFail(n) \/ Exit(n)

NodeStepNoExit(n) ==
    \/ StartInflux(n) \/ StartAlert(n) \/ Receive(n) \/ Forward(n)
    \/ DeliverSync(n) \/ DeliverLoop(n) \/ DeliverAlert(n) \/ Handle(n) \/ HandlerExit(n)
    \/ AlertClose(n) \/ AlertClosed(n)
    \/ Enqueue(n) \/ WbWrite(n) \/ WbStop(n) \/ NodeFlush(n) \/ NodeAbort(n) \/ NodeAbortWait(n)
    \/ CollectorClose(n) \/ UnionEnd(n) \/ NodeFail(n)

Next ==
    \/ /\ \/ Write \/ ForkTake \/ ForkRLock \/ ForkCollect
          \/ \E n \in Nodes : NodeStepNoExit(n)
          \/ \E e \in EIdx : ReaderEmit(e) \/ ReaderSend(e) \/ ReaderRelease(e)
          \/ StopTaskBegin \/ CloseBegin \/ DrainDone \/ StopFlush \/ StopAbort \/ StopAbortWait \/ StopUdfAbort
       /\ UNCHANGED wvars
    \/ \E n \in Nodes : Exit(n) /\ errch' = [errch EXCEPT ![n] = 1] /\ UNCHANGED <<fin, wmu, wt>>   \* errCh <- err
    \/ WaitStep
    \/ Terminated

\* Every enabled step is eventually taken (each process is a goroutine that the Go scheduler runs;
\* sinks are slow, not dead).  The stop is requested eventually because StopTaskBegin/CloseBegin are
\* steps like any other.  The state graph is acyclic apart from the terminal stutter, so weak
\* fairness on Next is as strong as weak fairness per process.
Spec == Init /\ [][Next]_vars /\ WF_vars(Next)

-----------------------------------------------------------------------------
(* Properties                                                                 *)

Kinds == {"pass", "sync", "influx", "alert", "union", "loop", "udf"}
TypeOK ==
    /\ next \in 1..(MaxPts + 1)
    /\ Len(wp.buf) <= K
    /\ \A e \in EIdx : Len(E[e].buf) <= K
    /\ lock \in {"free", "S"}
    /\ sp.at \in {"idle", "drainw", "fl1", "ab", "abw", "uab", "wait", "wlocked", "wrecv", "stopped"}
    /\ \A w \in Waiters : wt[w].at \in {"wait", "wlocked", "wrecv", "done"}
    /\ \A n \in Nodes : /\ NK(n) \in Kinds
                        /\ pc[n] \in {"start", "run", "fwd", "out", "enq", "fin", "finw", "fl1", "ab", "abw", "exit", "done"}
    /\ accepted \subseteq 1..MaxPts

Outputs == {n \in Nodes : NK(n) \in {"sync", "influx", "alert", "loop"}}
SeqSet(s) == {s[i] : i \in DOMAIN s}
Expected(o) == {p \in accepted : Pass(topo.outf[o], p)}

\* C07 safety: when the stop call has returned (and no node failed), every point the task accepted
\* has been handed to every output it was routed to - or was refused with a reported error (loopback
\* during daemon shutdown).  Nothing is silently dropped.
NoAcceptedLoss ==
    (sp.at = "stopped" /\ ~failed) =>
        \A o \in Outputs :
            IF NK(o) = "loop" THEN Cardinality(Expected(o) \ SeqSet(delivered[o])) <= refused
            ELSE Expected(o) \subseteq SeqSet(delivered[o])
\* Drain: everything WritePoints acknowledged was forked into the task before its edge was closed
AckedAllForked == (sp.at = "stopped" /\ kind = "close" /\ ~failed) => accepted = 1..(next - 1)
NoSilentDrop == ~failed => dropped = {}
NoDuplicate == \A o \in Outputs : Cardinality(SeqSet(delivered[o])) = Len(delivered[o])
NothingInvented == \A o \in Outputs : SeqSet(delivered[o]) \subseteq accepted
NoCollectOnClosed == ~panicked
\* when the stop call returns no goroutine of the task is left in the no-failure case
StoppedMeansQuiet == (sp.at = "stopped" /\ ~failed) => TaskQuiet

\* every caller of ExecutingTask.Wait gets the same answer (finished/err are sticky)
WaitersAgree == \A w1, w2 \in Waiters : (wt[w1].at = "done" /\ wt[w2].at = "done") => wt[w1].res = wt[w2].res
\* errCh carries one value per node: it is consumed exactly once, by whoever records `finished`
OneShotErrCh == \A n \in Nodes : errch[n] = 1 => ~fin[n]

\* C07 liveness (also after NodeFail): the stop call returns, every goroutine of the task exits
StopCompletes == <>(sp.at = "stopped")
AllGoroutinesExit == <>[]AllDone
=============================================================================
