\* a node.Wait that releases finishedMu before it receives from errCh (seeded change C07-r2m1): the stopper and
\* the task store's waiter both receive from the one-shot errCh of the same node, one of them blocks for ever.
\* Expected: deadlock (either the stop call or the waiter never returns).
SPECIFICATION Spec
CONSTANTS
    MaxPts = 2
    K = 1
    BufSize = 2
    Topos <- MCToposSmall
    StopKinds <- BothKinds
    AllowFail = FALSE
    MaxN = 3
    MaxE = 4
    InfluxStopF = FALSE
    ReaderDone = TRUE
    AlertCloseOnErr = TRUE
    UdfStopAborts = FALSE
    NWaiters = 1
    WaitHoldsMu = FALSE
    HookNeedsTmLock = FALSE
INVARIANTS
    TypeOK
    WaitersAgree
    OneShotErrCh
    NoAcceptedLoss
    AckedAllForked
    NoSilentDrop
    NoDuplicate
    NothingInvented
    NoCollectOnClosed
    StoppedMeansQuiet
CHECK_DEADLOCK TRUE
