\* a forkPoint that looks the task's edge up under tm.mu.RLock but calls Collect WITHOUT the lock (seeded C07-r3m1):
\* StopTask/DeleteTask can close the edge while the forking goroutine is inside Collect on it.
\* Expected: NoCollectOnClosed is violated (send on a closed channel - the process dies).
SPECIFICATION Spec
CONSTANTS
    MaxPts = 3
    K = 1
    BufSize = 2
    Topos <- MCToposSmall
    StopKinds <- BothKinds
    AllowFail = FALSE
    MaxN = 3
    MaxE = 4
    InfluxStopF = FALSE
    ReaderDone = TRUE
    AlertCloseOnErr = TRUE
    UdfStopAborts = FALSE
    ForkHoldsRLock = FALSE
    NWaiters = 0
    WaitHoldsMu = TRUE
    HookNeedsTmLock = FALSE
INVARIANTS
    TypeOK
    WaitersAgree
    OneShotErrCh
    NoAcceptedLoss
    AckedAllForked
    NoSilentDrop
    NoDuplicate
    NothingInvented
    NoCollectOnClosed
    StoppedMeansQuiet
CHECK_DEADLOCK TRUE
