SPECIFICATION TrSpec
CONSTANTS
    MaxPts = 1000000
    K = 1000
    BufSize = 1
    Topos <- MCNoTopos
    StopKinds <- MCNoKinds
    AllowFail = TRUE
    MaxN = 8
    MaxE = 10
    InfluxStopF = FALSE
    ReaderDone = TRUE
    AlertCloseOnErr = TRUE
    UdfStopAborts = FALSE
    ForkHoldsRLock = TRUE
    NWaiters = 2
    WaitHoldsMu = TRUE
    HookNeedsTmLock = FALSE
INVARIANTS
    TrNoLoss
    NothingInvented
    QuietAfterCensus
CONSTRAINT HW
POSTCONDITION Accepted
CHECK_DEADLOCK FALSE
