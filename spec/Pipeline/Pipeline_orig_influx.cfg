\* the code as it was: influxDBOut.stopOut (flush; abort) is run by et.stop before Wait.
\* Expected: NoAcceptedLoss is violated (observation; reproduced on the real code, see notes).
SPECIFICATION Spec
CONSTANTS
    MaxPts = 2
    K = 1
    BufSize = 1
    Topos <- MCInfluxOnly
    StopKinds <- TaskOnly
    AllowFail = FALSE
    MaxN = 3
    MaxE = 4
    InfluxStopF = TRUE
    ReaderDone = TRUE
    AlertCloseOnErr = TRUE
    UdfStopAborts = FALSE
    ForkHoldsRLock = TRUE
    NWaiters = 0
    WaitHoldsMu = TRUE
    HookNeedsTmLock = FALSE
INVARIANTS
    NoAcceptedLoss
CHECK_DEADLOCK TRUE
