--------------------------- MODULE PipelineTrace ---------------------------
(* Verdict-level trace specification for C07: validates every recorded stop  *)
(* of a real task (driver c07) against Pipeline's observable state and its   *)
(* property definitions.                                                      *)
(*                                                                            *)
(* The interleaving of the goroutines inside the task is not observable       *)
(* without instrumenting every channel operation; it is decided exhaustively  *)
(* on the model (Pipeline_*.cfg) and FORCED on the real code by the driver's  *)
(* gates (sink stalled / node not started / node parked after its k-th        *)
(* message, stop requested, gate opened).  What is observable - and all the   *)
(* property talks about - is recorded and checked here, one event per         *)
(* observable action:                                                         *)
(*   Accept      points acknowledged by WritePoints and forked into the task  *)
(*               (Pipeline: Write .. ForkCollect)                             *)
(*   NodeFailed  a node returned an error (Pipeline: NodeFail / Forward err)  *)
(*   StopCall    StopTask | DeleteTask | Close | Drain+StopTasks was called   *)
(*   StopReturn  the call returned; what every output had been handed by then *)
(*               (Pipeline: StopWait reaching "stopped") -> NoAcceptedLoss    *)
(*   StopHung    the call is parked for ever (StopCompletes violated)         *)
(*   StopPanicked the call panicked in the caller's goroutine (no action:     *)
(*               always rejected)                                             *)
(*   Waiters     the goroutines that were blocked in ExecutingTask.Wait()     *)
(*               when the stop was requested (Pipeline: WaiterLock/Recv):     *)
(*               each must have returned, all with the same error             *)
(*   Census      goroutines of the task still alive after the stop           *)
(*               (AllGoroutinesExit) mapped onto Pipeline's process states    *)
(* The property checks are conjuncts of the actions, so an execution that     *)
(* violates C07 stops being a behaviour at exactly the offending line.        *)
EXTENDS Pipeline, TraceCommon, SequencesExt

VARIABLES l, cfg, census, dev,     \* dev: known deviations taken in the current attempt
          maybe                    \* acknowledged points that were still on the ingest side when StopTask was requested
tvars == <<vars, l, cfg, census, dev, maybe>>

Ln == Trace[l]
IsEv(e) == l <= Len(Trace) /\ Ln.ev = e /\ l' = l + 1

RangeSet(rs) == UNION { (rs[i][1])..(rs[i][2]) : i \in DOMAIN rs }
\* delivered[o] is a sequence in Pipeline; order is not part of C07, any enumeration of the set will do
RangesSeq(rs) == SetToSeq(RangeSet(rs))

TopoOf(r) == [name |-> r.pipe, kinds |-> r.topo.kinds, edges |-> r.topo.edges, outf |-> r.topo.outf]

\* every variable of Pipeline at the start of a recorded attempt
BlankPc(t) == [n \in 1..MaxN |-> IF n > Len(t.kinds) THEN "done" ELSE "run"]
BlankWb(t) == [n \in 1..MaxN |-> IF n <= Len(t.kinds) /\ t.kinds[n] = "influx"
                                   THEN [at |-> "idle", buf |-> <<>>, stopping |-> FALSE] ELSE NoWb]
BlankHq(t) == [n \in 1..MaxN |-> IF n <= Len(t.kinds) /\ t.kinds[n] = "alert"
                                   THEN [q |-> <<>>, closed |-> FALSE, at |-> "run"] ELSE NoHq]
BlankRd(t) == [e \in 1..MaxE |-> IF e <= Len(t.edges) /\ t.kinds[t.edges[e].to] = "union"
                                   THEN [at |-> "emit", m |-> 0] ELSE NoRd]

\* the recorded attempt's callers of ExecutingTask.Wait (at most NWaiters; the others count as returned)
BlankWt(r) == [w \in Waiters |-> IF w <= r.waiters THEN [at |-> "wait", i |-> Len(r.topo.kinds), res |-> 0]
                                  ELSE [at |-> "done", i |-> 0, res |-> 0]]

TrInit ==
    /\ Len(Trace) >= 1 /\ Trace[1].ev = "Reset"
    /\ l = 2 /\ HWInit /\ cfg = Trace[1] /\ census = "none" /\ dev = {} /\ maybe = {}
    /\ topo = TopoOf(Trace[1]) /\ kind = Trace[1].kind
    /\ next = 1 /\ wp = EdgeNew /\ wclosed = FALSE /\ fk = [at |-> "idle", m |-> 0, e |-> FALSE]
    /\ lock = "free" /\ sdel = FALSE /\ E = [e \in 1..MaxE |-> EdgeNew]
    /\ pc = BlankPc(TopoOf(Trace[1]))
    /\ cur = [n \in 1..MaxN |-> 0] /\ fi = [n \in 1..MaxN |-> 1] /\ nerr = [n \in 1..MaxN |-> FALSE]
    /\ wb = BlankWb(TopoOf(Trace[1])) /\ hq = BlankHq(TopoOf(Trace[1])) /\ rd = BlankRd(TopoOf(Trace[1]))
    /\ mclosed = [n \in 1..MaxN |-> FALSE] /\ udone = [n \in 1..MaxN |-> FALSE]
    /\ sp = [at |-> "idle", i |-> 0]
    /\ accepted = {} /\ delivered = [n \in 1..MaxN |-> <<>>]
    /\ refused = 0 /\ dropped = {} /\ failed = FALSE /\ panicked = FALSE
    /\ errch = [n \in 1..MaxN |-> 0] /\ fin = [n \in 1..MaxN |-> FALSE] /\ wmu = [n \in 1..MaxN |-> 0]
    /\ wt = BlankWt(Trace[1])

TrReset ==
    /\ IsEv("Reset")
    /\ cfg' = Ln /\ census' = "none" /\ dev' = {} /\ maybe' = {}
    /\ topo' = TopoOf(Ln) /\ kind' = Ln.kind
    /\ next' = 1 /\ wp' = EdgeNew /\ wclosed' = FALSE /\ fk' = [at |-> "idle", m |-> 0, e |-> FALSE]
    /\ lock' = "free" /\ sdel' = FALSE /\ E' = [e \in 1..MaxE |-> EdgeNew]
    /\ pc' = BlankPc(TopoOf(Ln))
    /\ cur' = [n \in 1..MaxN |-> 0] /\ fi' = [n \in 1..MaxN |-> 1] /\ nerr' = [n \in 1..MaxN |-> FALSE]
    /\ wb' = BlankWb(TopoOf(Ln)) /\ hq' = BlankHq(TopoOf(Ln)) /\ rd' = BlankRd(TopoOf(Ln))
    /\ mclosed' = [n \in 1..MaxN |-> FALSE] /\ udone' = [n \in 1..MaxN |-> FALSE]
    /\ sp' = [at |-> "idle", i |-> 0]
    /\ accepted' = {} /\ delivered' = [n \in 1..MaxN |-> <<>>]
    /\ refused' = 0 /\ dropped' = {} /\ failed' = FALSE /\ panicked' = FALSE
    /\ errch' = [n \in 1..MaxN |-> 0] /\ fin' = [n \in 1..MaxN |-> FALSE] /\ wmu' = [n \in 1..MaxN |-> 0]
    /\ wt' = BlankWt(Ln)

Internal == <<next, wp, wclosed, fk, lock, sdel, E, cur, fi, nerr, udone, dropped, panicked, errch, fin, wmu>>

\* points acknowledged (nil error) and forked into the task; after the stop was requested only a
\* daemon shutdown still owes delivery (Drain forks everything acknowledged; StopTask stops feeding)
TrAccept ==
    /\ IsEv("Accept")
    /\ sp.at = "idle" \/ (sp.at = "wait" /\ kind = "close")
    /\ accepted' = accepted \cup RangeSet(Ln.seqs)
    \* Overflow scenarios (the forking goroutine parked in forkPoint -> Collect on the task's full source edge when
    \* StopTask/DeleteTask is requested): `seqs` = Collect had completed (Pipeline: ForkCollect done, accepted);
    \* `maybe` = acknowledged but still in the forking goroutine's hand / the ingest edge (Pipeline: fk.m, wp)
    /\ maybe' = maybe \cup (IF Has(Ln, "maybe") THEN RangeSet(Ln.maybe) ELSE {})
    /\ UNCHANGED <<topo, kind, Internal, pc, wb, hq, rd, mclosed, sp, delivered, refused, failed, cfg, census, dev, wt>>

\* a node returned an error because the driver made it (poison point / injected panic): from here on
\* only termination is promised
TrNodeFailed ==
    /\ IsEv("NodeFailed") /\ Ln.injected
    /\ failed' = TRUE
    /\ UNCHANGED <<topo, kind, Internal, pc, wb, hq, rd, mclosed, sp, accepted, delivered, refused, cfg, census, dev, wt, maybe>>

\* A node that fails although nothing was injected failed BECAUSE of the stop: there is no action for
\* that (a graceful stop must not make nodes fail), the line is rejected.
HasKind(k) == \E n \in Nodes : NK(n) = k

TrStopCall ==
    /\ IsEv("StopCall")
    /\ sp.at = "idle"
    /\ sp' = [at |-> "wait", i |-> 0]
    /\ UNCHANGED <<topo, kind, Internal, pc, wb, hq, rd, mclosed, accepted, delivered, refused, failed, cfg, census, dev, wt, maybe>>

OutName(n) == CHOOSE o \in DOMAIN cfg.topo.outs : cfg.topo.outs[o] = n
IsOut(n) == \E o \in DOMAIN cfg.topo.outs : cfg.topo.outs[o] = n

\* the stop call returned: what each output had been handed at that moment.  C07 safety.
TrStopReturn ==
    /\ IsEv("StopReturn")
    /\ sp.at = "wait"
    /\ sp' = [at |-> "stopped", i |-> 0]
    /\ delivered' = [n \in 1..MaxN |-> IF IsOut(n) THEN RangesSeq(Ln.delivered[OutName(n)]) ELSE <<>>]
    /\ refused' = Ln.refused
    \* what the task was still handed of the points that were on the ingest side when the stop was requested
    \* (the Collect the stop had to wait for) is the task's as well: a prefix of them, in every output
    /\ LET got == UNION { RangeSet(Ln.delivered[o]) : o \in DOMAIN Ln.delivered } \cap maybe IN
       /\ accepted' = accepted \cup got
       /\ \A p \in got : \A q \in maybe : q < p => q \in got
    /\ UNCHANGED <<topo, kind, Internal, pc, wb, hq, rd, mclosed, failed, cfg, census, dev, wt, maybe>>
    /\ NothingInvented'
    /\ NoAcceptedLoss'

\* KNOWN FINDING loopback-stop-deadlock: StopTask/DeleteTask of a task whose kapacitorLoopback node
\* still has more points to write back than the TaskMaster's ingest edge can hold never returns
\* (the node blocks in WriteKapacitorPoint, the forking goroutine waits for tm.mu, the stop holds
\* tm.mu).  Pipeline_loop.cfg is the model-level counterexample.  Any other hung stop has no action
\* here and is rejected.
TrStopHungLoopback ==
    /\ IsEv("StopHung")
    /\ sp.at = "wait" /\ kind = "task"
    /\ \E n \in Nodes : NK(n) = "loop"
    /\ cfg.n > cfg.slots
    /\ PrintT(<<"KF-HIT", "loopback-stop-deadlock">>)
    /\ sp' = [at |-> "hung", i |-> 0]
    /\ dev' = dev \cup {"loopback-stop-deadlock"}
    /\ UNCHANGED <<topo, kind, Internal, pc, wb, hq, rd, mclosed, accepted, delivered, refused, failed, cfg, census, wt, maybe>>

\* The goroutines that were already blocked in ExecutingTask.Wait() when the stop was requested (the task
\* store keeps one per task): once the task has stopped each of them has returned - node.finished/err are
\* sticky, any number of concurrent callers get the answer - and they all got the same error.
TrWaiters ==
    /\ IsEv("Waiters")
    /\ sp.at = "stopped" /\ census = "none"
    /\ wt' = [w \in Waiters |-> IF w <= cfg.waiters
                                  THEN IF Ln.returned[w] THEN [at |-> "done", i |-> 0, res |-> Ln.errIds[w]]
                                       ELSE [at |-> "wrecv", i |-> Len(topo.kinds), res |-> 0]
                                  ELSE [at |-> "done", i |-> 0, res |-> Ln.errIds[1]]]
    /\ UNCHANGED <<topo, kind, Internal, pc, wb, hq, rd, mclosed, sp, accepted, delivered, refused, failed, cfg, census, dev, maybe>>
    /\ \A w \in Waiters : wt'[w].at = "done"
    /\ WaitersAgree'

\* goroutines of the task that are still alive (parked, motionless) after the stop returned, mapped
\* onto the model's processes; AllGoroutinesExit = none.
SigWb == "(*writeBuffer).run"
SigHandler == "alert.(*bufHandler).run"
SigReader == "edge.(*multiConsumer).readEdge"
SigCollector == "edge.(*multiConsumer).Consume.func2"
Attributed(s) == \/ s = SigWb /\ HasKind("influx")
                 \/ s = SigHandler /\ HasKind("alert")
                 \/ s \in {SigReader, SigCollector} /\ HasKind("union")
TrCensus ==
    /\ IsEv("Census")
    /\ sp.at = "stopped"
    /\ LET L == SeqToSet(Ln.leaked) IN
       /\ pc' = [n \in 1..MaxN |-> IF n \in Nodes /\ (\E s \in L : ~Attributed(s)) THEN "run" ELSE "done"]
       /\ wb' = [n \in 1..MaxN |-> IF n \in Nodes /\ NK(n) = "influx"
                                     THEN [at |-> IF SigWb \in L THEN "idle" ELSE "stopped", buf |-> <<>>, stopping |-> FALSE]
                                     ELSE NoWb]
       /\ hq' = [n \in 1..MaxN |-> IF n \in Nodes /\ NK(n) = "alert"
                                     THEN [q |-> <<>>, closed |-> FALSE, at |-> IF SigHandler \in L THEN "run" ELSE "done"]
                                     ELSE NoHq]
       /\ rd' = [e \in 1..MaxE |-> IF e \in EIdx /\ NK(topo.edges[e].to) = "union"
                                     THEN [at |-> IF SigReader \in L THEN "send" ELSE "done", m |-> 0]
                                     ELSE NoRd]
       /\ mclosed' = [n \in 1..MaxN |-> n \in Nodes /\ NK(n) = "union" /\ SigCollector \notin L]
    /\ census' = "done"
    /\ UNCHANGED <<topo, kind, Internal, sp, accepted, delivered, refused, failed, cfg, dev, wt, maybe>>
    /\ AllDone'

\* The task next door (same db/rp, never stopped before the environment was closed gracefully) was offered the
\* same points: stopping ONE task while the ingest side was blocked on it must not cost the neighbour anything.
TrEnd ==
    /\ IsEv("End")
    /\ sp.at \in {"stopped", "hung"}
    /\ Has(Ln, "neighbour") => RangeSet(Ln.acked) \subseteq RangeSet(Ln.neighbour)
    /\ UNCHANGED <<vars, cfg, census, dev, maybe>>

TrNext == TrReset \/ TrAccept \/ TrNodeFailed \/ TrStopCall \/ TrStopReturn \/ TrStopHungLoopback \/ TrWaiters
          \/ TrCensus \/ TrEnd
TrSpec == TrInit /\ [][TrNext]_tvars

QuietAfterCensus == census = "done" => AllDone
TrNoLoss == NoAcceptedLoss
HW == HWMark(l)
Accepted == HWAccepted
=============================================================================
