SPECIFICATION Spec
CONSTANTS
    MaxPts = 4
    K = 1
    BufSize = 3
    Topos <- MCInfluxOnly
    StopKinds <- BothKinds
    AllowFail = TRUE
    MaxN = 3
    MaxE = 4
    InfluxStopF = FALSE
    ReaderDone = TRUE
    AlertCloseOnErr = TRUE
    UdfStopAborts = FALSE
    HookNeedsTmLock = FALSE
INVARIANTS
    TypeOK
    NoAcceptedLoss
    AckedAllForked
    NoSilentDrop
    NoDuplicate
    NothingInvented
    NoCollectOnClosed
    StoppedMeansQuiet
CHECK_DEADLOCK TRUE
PROPERTIES
    StopCompletes
    AllGoroutinesExit
