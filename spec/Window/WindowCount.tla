----------------------------- MODULE WindowCount -----------------------------
(* Count windows of the `window` node (periodCount / everyCount), per group. *)
(* Code: window.go windowByCount (newWindowByCount, Point, batch, points):   *)
(* a fixed array of periodCount cells with start/stop/size, a point counter  *)
(* and the counter value nextEmit at which the next batch is due.            *)
(*                                                                           *)
(* CountWindow: a batch is emitted after the k-th point of the group exactly *)
(* when k = first + j*everyCount (first = everyCount, or periodCount with    *)
(* fillPeriod); it holds the last min(k, periodCount) points in arrival      *)
(* order and its end time is the time of the k-th point.  Times are          *)
(* irrelevant to a count window (no ordering assumption).                    *)
(* As for time windows, fillPeriod delays the first batch to a full period   *)
(* (first = periodCount) whatever everyCount is (property text; the code).   *)
EXTENDS Integers, Sequences, FiniteSets, TLC

CONSTANTS
    Groups,
    PeriodCounts,   \* set of periodCount values (>= 1)
    EveryCounts,    \* set of everyCount values (>= 1, enforced by WindowNode.validate)
    Fills,
    Times,          \* times a point may carry
    MaxPoints

VARIABLES
    ccfg,   \* [period, every, fill]
    cst,    \* [Groups -> [started, buf, start, stop, size, count, nextEmit]]
    crecv,  \* ghost: [Groups -> Seq(point)]
    cout,   \* ghost: [Groups -> Seq([tmax, pts, trig])]
    cn

wcvars == <<ccfg, cst, crecv, cout, cn>>

PT(p) == p[1]
Nil == <<-1, -1>>
CConfigs == [period : PeriodCounts, every : EveryCounts, fill : Fills]
CGroup0 == [started |-> FALSE, buf |-> <<>>, start |-> 0, stop |-> 0, size |-> 0, count |-> 0, nextEmit |-> 0]

FirstEmitCode(c) == IF c.fill THEN c.period ELSE c.every
FirstEmit(c) == {FirstEmitCode(c)}

(* points() *)
CPoints(s) ==
    IF s.size = 0 THEN <<>>
    ELSE IF s.stop > s.start THEN SubSeq(s.buf, s.start + 1, s.stop)
    ELSE SubSeq(s.buf, s.start + 1, Len(s.buf)) \o SubSeq(s.buf, 1, s.stop)

(* windowByCount.Point *)
CStep(c, s, p) ==
    LET b1 == [s.buf EXCEPT ![s.stop + 1] = p]
        s1 == [s EXCEPT !.buf = b1,
                        !.stop = (s.stop + 1) % c.period,
                        !.start = IF s.size = c.period THEN (s.start + 1) % c.period ELSE s.start,
                        !.size = IF s.size = c.period THEN s.size ELSE s.size + 1,
                        !.count = s.count + 1]
    IN IF s1.count = s1.nextEmit
       THEN LET pts == CPoints(s1)
            IN [s |-> [s1 EXCEPT !.nextEmit = @ + c.every],
                em |-> <<[tmax |-> PT(pts[Len(pts)]), pts |-> pts]>>]
       ELSE [s |-> s1, em |-> <<>>]

CInit ==
    /\ ccfg \in CConfigs
    /\ cst = [g \in Groups |-> CGroup0]
    /\ crecv = [g \in Groups |-> <<>>]
    /\ cout = [g \in Groups |-> <<>>]
    /\ cn = 0

CFirstChoices(g) == IF cst[g].started THEN {cst[g].nextEmit} ELSE FirstEmit(ccfg)

CPointD(g, t, id, d) ==
    /\ cn < MaxPoints
    /\ LET s0 == IF cst[g].started THEN cst[g]
                 ELSE [CGroup0 EXCEPT !.started = TRUE, !.buf = [i \in 1..ccfg.period |-> Nil], !.nextEmit = d]
           r == CStep(ccfg, s0, <<t, id>>)
           k == Len(crecv[g]) + 1
       IN /\ cst' = [cst EXCEPT ![g] = r.s]
          /\ cout' = [cout EXCEPT ![g] = @ \o [i \in 1..Len(r.em) |->
                          [tmax |-> r.em[i].tmax, pts |-> r.em[i].pts, trig |-> k]]]
    /\ crecv' = [crecv EXCEPT ![g] = Append(@, <<t, id>>)]
    /\ cn' = cn + 1
    /\ UNCHANGED ccfg

CPoint(g, t, id) == \E d \in CFirstChoices(g) : CPointD(g, t, id, d)

(* DeleteGroup for g: the group's ring, counter and schedule are dropped; if *)
(* the group comes back it counts from one again.  (A barrier message does   *)
(* nothing to a count window.)  Counted in cn to keep the model finite; ids  *)
(* stay unique.                                                               *)
CDelete(g) ==
    /\ cn < MaxPoints
    /\ cst[g].started
    /\ cst' = [cst EXCEPT ![g] = CGroup0]
    /\ crecv' = [crecv EXCEPT ![g] = <<>>]
    /\ cout' = [cout EXCEPT ![g] = <<>>]
    /\ cn' = cn + 1
    /\ UNCHANGED ccfg

CNext == \/ \E g \in Groups, t \in Times : CPoint(g, t, cn + 1)
         \/ \E g \in Groups : CDelete(g)
CSpec == CInit /\ [][CNext]_wcvars

-----------------------------------------------------------------------------
CTypeOK ==
    /\ ccfg \in CConfigs
    /\ \A g \in Groups :
         LET s == cst[g] IN
         s.started => /\ Len(s.buf) = ccfg.period
                      /\ s.start \in 0..(ccfg.period - 1) /\ s.stop \in 0..(ccfg.period - 1)
                      /\ s.size \in 1..ccfg.period
                      /\ s.count = Len(crecv[g])

LastK(s, k) == SubSeq(s, Len(s) - k + 1, Len(s))
Min2(a, b) == IF a < b THEN a ELSE b

CountWindow ==
    \A g \in Groups :
      LET R == crecv[g]  O == cout[g] IN
      \* contents and end time of every batch
      /\ \A j \in 1..Len(O) :
           LET k == O[j].trig IN
           /\ O[j].pts = LastK(SubSeq(R, 1, k), Min2(k, ccfg.period))
           /\ O[j].tmax = PT(R[k])
      \* schedule: exactly the counts first, first+every, ...
      /\ \E f \in FirstEmit(ccfg) :
           { O[j].trig : j \in 1..Len(O) } = { k \in 1..Len(R) : k >= f /\ (k - f) % ccfg.every = 0 }
      /\ \A j \in 1..(Len(O) - 1) : O[j].trig < O[j+1].trig

(* the ring always holds the last min(count, period) points *)
CountRingHoldsLast ==
    \A g \in Groups :
      cst[g].started => CPoints(cst[g]) = LastK(crecv[g], Min2(Len(crecv[g]), ccfg.period))
=============================================================================
