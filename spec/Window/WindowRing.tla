----------------------------- MODULE WindowRing -----------------------------
(* The code's ring buffer behind a time window (window.go,                  *)
(* windowTimeBuffer: insert / purge / points), run in lock step with the    *)
(* abstract window of WindowTime.  Layout as in the code: the slice         *)
(* `window` (here win, with len = Len(win) and a separate cap), 0-based     *)
(* start/stop, size.  Cells that are not live keep their stale content,     *)
(* because purge reads window[len-1] without knowing whether it is live.    *)
(*                                                                          *)
(*   insert : [grow when size = cap  (empty | contiguous | wrapped copy)]   *)
(*            [wrap: len = cap /\ stop = len -> stop = 0]                   *)
(*            append (stop = len) | overwrite window[stop]                  *)
(*   purge  : nothing (len = 0) | contiguous (start < stop)                 *)
(*            | wrapped, tail still valid | wrapped, tail expired           *)
(*                                                                          *)
(* RingRefinesSeq: in every reachable state the read-out points() equals    *)
(* the abstract buffer.  `hit` records the branches taken by the last step  *)
(* (transition cover, branch statistics of validated traces).               *)
(*                                                                          *)
(* PurgeGuard = TRUE is the code after commit "fix: window ring ..." (the   *)
(* tail test is skipped when start = len, i.e. there is no tail segment);   *)
(* PurgeGuard = FALSE is the code before it, kept to show that TLC finds    *)
(* the drain-then-wrap counterexample (WindowRing_prefix.cfg).              *)
EXTENDS WindowTime, IOUtils

CONSTANTS PurgeGuard

VARIABLES
    ring,   \* [Groups -> [win, cap, start, stop, size, fault]]
    hit,    \* [Groups -> SUBSET Branches]  branches taken by the group's last step
    remit   \* [Groups -> Seq(Seq(point))]  what batch() read from the ring in the group's last step (<<>> or <<pts>>)

wrvars == <<cfg, st, recv, out, n, ring, hit, remit>>

Branches == {"grow_empty", "grow_contig", "grow_wrapped", "wrap", "wrap_after_drain", "append", "overwrite",
             "purge_nil", "purge_contig", "purge_tail_valid", "purge_tail_expired",
             "purge_start_eq_len", "purge_guard_decides", "purge_tail_stale", "purge_drain", "purge_drain_at_end", "purge_none"}

Nil == <<-1, -1>>       \* a freshly made, never written cell (nil interface in Go)
Ring0 == [win |-> <<>>, cap |-> 0, start |-> 0, stop |-> 0, size |-> 0, fault |-> FALSE]

MinOf(S) == CHOOSE x \in S : \A y \in S : x <= y

(* 0-based access as in the code *)
At(r, i) == r.win[i + 1]
Slice(r, a, b) == SubSeq(r.win, a + 1, b)        \* window[a:b]

(* points(): the read-out handed to batch() *)
RingPoints(r) ==
    IF r.size = 0 THEN <<>>
    ELSE IF r.stop > r.start THEN Slice(r, r.start, r.stop)
    ELSE Slice(r, r.start, Len(r.win)) \o Slice(r, 0, r.stop)

(* insert(p) *)
RGrow(r) ==
    LET sz == r.size
        l == Len(r.win)
        copied == IF sz = 0 THEN <<>>
                  ELSE IF r.stop > r.start THEN Slice(r, r.start, r.stop)
                  ELSE Slice(r, r.start, l) \o Slice(r, 0, r.stop)
        \* the code panics when the copy count differs from size; the second copy of the
        \* wrapped case lands at offset size-start, which is only right when size = len
        bad == Len(copied) # sz \/ (sz > 0 /\ r.stop <= r.start /\ sz # l)
        w == [i \in 1..(sz + 1) |-> IF i <= Len(copied) THEN copied[i] ELSE Nil]
    IN [r |-> [win |-> w, cap |-> 2 * (sz + 1), start |-> 0, stop |-> sz, size |-> sz,
               fault |-> r.fault \/ bad],
        h |-> IF sz = 0 THEN {"grow_empty"} ELSE IF r.stop > r.start THEN {"grow_contig"} ELSE {"grow_wrapped"}]

RInsert(r, p) ==
    LET g1 == IF r.size = r.cap THEN RGrow(r) ELSE [r |-> r, h |-> {}]
        r1 == g1.r
        wrapNow == Len(r1.win) = r1.cap /\ r1.stop = Len(r1.win)
        r2 == IF wrapNow THEN [r1 EXCEPT !.stop = 0] ELSE r1
        h2 == IF wrapNow
              THEN {"wrap"} \cup (IF r1.size = 0 /\ r1.start = Len(r1.win) THEN {"wrap_after_drain"} ELSE {})
              ELSE {}
        app == r2.stop = Len(r2.win)
        r3 == IF app
              THEN [r2 EXCEPT !.win = Append(@, p), !.fault = @ \/ Len(r2.win) >= r2.cap]  \* append must not reallocate
              ELSE [r2 EXCEPT !.win[r2.stop + 1] = p]
    IN [r |-> [r3 EXCEPT !.size = @ + 1, !.stop = @ + 1],
        h |-> g1.h \cup h2 \cup (IF app THEN {"append"} ELSE {"overwrite"})]

(* purge(oldest, inclusive) *)
RPurge(r, oldest, incl) ==
    LET Inc(q) == IF incl THEN PT(q) >= oldest ELSE PT(q) > oldest
        l == Len(r.win)
        FirstInc(a, b) == MinOf({i \in a..(b - 1) : Inc(At(r, i))} \cup {b})   \* the for loops
        live(i) == \* is cell i live?  (only for the statistics)
            IF r.size = 0 THEN FALSE
            ELSE IF r.stop > r.start THEN i >= r.start /\ i < r.stop
            ELSE i >= r.start \/ i < r.stop
        res(r2, hs) == [r |-> r2,
                        h |-> hs \cup (IF r2.size = 0 /\ r.size > 0 THEN {"purge_drain"} ELSE {})
                                 \cup (IF r2.size = 0 /\ r.size > 0 /\ r2.start = l /\ r2.stop = l THEN {"purge_drain_at_end"} ELSE {})
                                 \cup (IF r2.size = r.size THEN {"purge_none"} ELSE {})]
    IN IF l = 0 THEN [r |-> r, h |-> {"purge_nil"}]
       ELSE IF r.start < r.stop
       THEN LET ns == FirstInc(r.start, r.stop)
            IN res([r EXCEPT !.start = ns, !.size = r.stop - ns], {"purge_contig"})
       ELSE LET hs0 == (IF r.start = l THEN {"purge_start_eq_len"} ELSE {})
                        \* start = len and window[len-1] (then the NEWEST point) is in range: only the guard
                        \* keeps purge from taking it for a valid tail (the defect fixed in the code)
                        \cup (IF r.start = l /\ Inc(At(r, l - 1)) THEN {"purge_guard_decides"} ELSE {})
                        \cup (IF ~live(l - 1) THEN {"purge_tail_stale"} ELSE {})
            IN IF (PurgeGuard => r.start < l) /\ Inc(At(r, l - 1))
               THEN LET ns == FirstInc(r.start, l)
                    IN res([r EXCEPT !.start = ns, !.size = l - ns + r.stop], hs0 \cup {"purge_tail_valid"})
               ELSE LET ns == FirstInc(0, r.stop)
                    IN res([r EXCEPT !.start = ns, !.size = r.stop - ns], hs0 \cup {"purge_tail_expired"})

(* windowByTime.Point on the ring: same order of purge/insert as Step.   *)
(* `due` is the group's due time before the point (after FirstDue).       *)
RStep(c, r, due, p) ==
    LET t == PT(p) IN
    IF c.every = 0
    THEN LET i1 == RInsert(r, p) IN
         IF t >= due
         THEN LET p1 == RPurge(i1.r, t - c.period, FALSE)
              IN [r |-> p1.r, h |-> i1.h \cup p1.h, em |-> <<RingPoints(p1.r)>>]
         ELSE [r |-> i1.r, h |-> i1.h, em |-> <<>>]
    ELSE IF t >= due
         THEN LET p1 == RPurge(r, due - c.period, TRUE)
                  i1 == RInsert(p1.r, p)
              IN [r |-> i1.r, h |-> p1.h \cup i1.h, em |-> <<RingPoints(p1.r)>>]
         ELSE LET i1 == RInsert(r, p) IN [r |-> i1.r, h |-> i1.h, em |-> <<>>]

RInit ==
    /\ Init
    /\ ring = [g \in Groups |-> Ring0]
    /\ hit = [g \in Groups |-> {}]
    /\ remit = [g \in Groups |-> <<>>]

(* The abstract step and the ring step for the same point and the same due time. *)
RPoint(g, t, id) ==
    \E d \in DueChoices(g, t) :
      /\ PointD(g, t, id, d)
      /\ LET rs == RStep(cfg, ring[g], d, <<t, id>>)
         IN /\ ring' = [ring EXCEPT ![g] = rs.r]
            /\ hit' = [hit EXCEPT ![g] = rs.h]
            /\ remit' = [remit EXCEPT ![g] = rs.em]

RNext == \E g \in Groups, t \in 0..MaxTime : RPoint(g, t, n + 1)
RSpec == RInit /\ [][RNext]_wrvars

-----------------------------------------------------------------------------
RingRefinesSeq == \A g \in Groups : RingPoints(ring[g]) = st[g].buf

(* The batch the code emits is what batch() reads from the ring at that     *)
(* moment; it must be the batch of the abstract window: the buffer after    *)
(* the purge, i.e. the new buffer (every = 0) or the new buffer without the *)
(* point inserted afterwards (every > 0).  remit[g] is reset by every step  *)
(* of g that does not emit.                                                 *)
RingEmitsBuf ==
    \A g \in Groups :
      remit[g] # <<>> =>
        LET b == st[g].buf IN
        /\ remit[g][1] = IF cfg.every = 0 THEN b ELSE SubSeq(b, 1, Len(b) - 1)
        /\ out[g] # <<>> /\ remit[g][1] = out[g][Len(out[g])].pts
(* The same without the ghost history (for the deep configuration, which    *)
(* hides recv/out with a VIEW: the step relation does not read them).       *)
RingEmitsBufNoHist ==
    \A g \in Groups :
      remit[g] # <<>> =>
        LET b == st[g].buf IN remit[g][1] = IF cfg.every = 0 THEN b ELSE SubSeq(b, 1, Len(b) - 1)
RingView == <<cfg, st, n, ring, hit, remit>>

(* Transition cover: with C03_COVER=<branch> in the environment a violation *)
(* of CoverNotHit is a (breadth-first, hence short) input reaching it.      *)
CoverNotHit == \A g \in Groups : IOEnv.C03_COVER \notin hit[g]

RingWellFormed ==
    \A g \in Groups :
      LET r == ring[g]  l == Len(r.win) IN
      /\ ~r.fault
      /\ l <= r.cap
      /\ r.start \in 0..l /\ r.stop \in 0..l /\ r.size \in 0..l
      /\ r.start < r.stop => r.size = r.stop - r.start
      /\ r.start >= r.stop => r.size \in {0, l - r.start + r.stop}
      /\ \A i \in 1..l : r.win[i] # Nil
=============================================================================
