--------------------------- MODULE WindowCountTrace ---------------------------
(* Trace specification for count windows (periodCount/everyCount), one group *)
(* per trace, same line format as WindowTrace:                               *)
(*   Reset {period, every, fill, sink}   Point {t, seq}   Quiet   End        *)
EXTENDS WindowCount, TraceCommon

VARIABLES l, obs
ctrvars == <<ccfg, cst, crecv, cout, cn, l, obs>>

G == CHOOSE g \in Groups : TRUE

TrInit ==
    /\ ccfg = [period |-> 1, every |-> 1, fill |-> FALSE]
    /\ cst = [g \in Groups |-> CGroup0]
    /\ crecv = [g \in Groups |-> <<>>]
    /\ cout = [g \in Groups |-> <<>>]
    /\ cn = 0
    /\ l = 1
    /\ obs = <<>>
    /\ HWInit

Ln == Trace[l]
IsEv(e) == l <= Len(Trace) /\ Ln.ev = e /\ l' = l + 1

TrReset ==
    /\ IsEv("Reset")
    /\ ccfg' = [period |-> Ln.period, every |-> Ln.every, fill |-> Ln.fill]
    /\ cst' = [g \in Groups |-> CGroup0]
    /\ crecv' = [g \in Groups |-> <<>>]
    /\ cout' = [g \in Groups |-> <<>>]
    /\ cn' = 0
    /\ obs' = Ln.sink

TrPoint ==
    /\ IsEv("Point")
    /\ CPoint(G, Ln.t, Ln.seq)
    /\ IF Len(cout'[G]) = Len(cout[G])
       THEN obs' = obs
       ELSE LET b == cout'[G][Len(cout'[G])] IN
            /\ obs # <<>>
            /\ Head(obs).tmax = b.tmax
            /\ Head(obs).pts = b.pts
            /\ obs' = Tail(obs)

(* Quiet: the window node holds no group any more (see WindowTrace): the    *)
(* group, if it existed, was deleted; a barrier does nothing to a count     *)
(* window.  The come-back counts from one again.                             *)
TrQuiet ==
    /\ IsEv("Quiet")
    /\ cst' = [cst EXCEPT ![G] = CGroup0]
    /\ crecv' = [crecv EXCEPT ![G] = <<>>]
    /\ cout' = [cout EXCEPT ![G] = <<>>]
    /\ UNCHANGED <<ccfg, cn, obs>>

(* Holds {groups, phase_groups}: when the node had processed the points of  *)
(* a phase (and before any idle barrier could fire) its working_cardinality *)
(* was `groups`; every group of earlier phases had been deleted, so it must *)
(* hold exactly one window per group it was given points for in this phase. *)
TrHolds ==
    /\ IsEv("Holds")
    /\ Ln.groups = Ln.phase_groups
    /\ UNCHANGED <<ccfg, cst, crecv, cout, cn, obs>>

TrEnd ==
    /\ IsEv("End")
    /\ Ln.failed = FALSE      \* no node of the task died
    /\ obs = <<>>            \* the sink saw nothing the window should not have emitted
    /\ UNCHANGED <<ccfg, cst, crecv, cout, cn, obs>>

TrNext == TrReset \/ TrPoint \/ TrQuiet \/ TrHolds \/ TrEnd
TrSpec == TrInit /\ [][TrNext]_ctrvars

HW == HWMark(l)
Accepted == HWAccepted
=============================================================================
