--------------------------- MODULE WindowCountTrace ---------------------------
(* Trace specification for count windows (periodCount/everyCount), one group *)
(* per trace, same line format as WindowTrace:                               *)
(*   Reset {period, every, fill, sink}   Point {t, seq}   End                *)
EXTENDS WindowCount, TraceCommon

VARIABLES l, obs
ctrvars == <<ccfg, cst, crecv, cout, cn, l, obs>>

G == CHOOSE g \in Groups : TRUE

TrInit ==
    /\ ccfg = [period |-> 1, every |-> 1, fill |-> FALSE]
    /\ cst = [g \in Groups |-> CGroup0]
    /\ crecv = [g \in Groups |-> <<>>]
    /\ cout = [g \in Groups |-> <<>>]
    /\ cn = 0
    /\ l = 1
    /\ obs = <<>>
    /\ HWInit

Ln == Trace[l]
IsEv(e) == l <= Len(Trace) /\ Ln.ev = e /\ l' = l + 1

TrReset ==
    /\ IsEv("Reset")
    /\ ccfg' = [period |-> Ln.period, every |-> Ln.every, fill |-> Ln.fill]
    /\ cst' = [g \in Groups |-> CGroup0]
    /\ crecv' = [g \in Groups |-> <<>>]
    /\ cout' = [g \in Groups |-> <<>>]
    /\ cn' = 0
    /\ obs' = Ln.sink

TrPoint ==
    /\ IsEv("Point")
    /\ CPoint(G, Ln.t, Ln.seq)
    /\ IF Len(cout'[G]) = Len(cout[G])
       THEN obs' = obs
       ELSE LET b == cout'[G][Len(cout'[G])] IN
            /\ obs # <<>>
            /\ Head(obs).tmax = b.tmax
            /\ Head(obs).pts = b.pts
            /\ obs' = Tail(obs)

TrEnd ==
    /\ IsEv("End")
    /\ Ln.failed = FALSE      \* no node of the task died
    /\ obs = <<>>            \* the sink saw nothing the window should not have emitted
    /\ UNCHANGED <<ccfg, cst, crecv, cout, cn, obs>>

TrNext == TrReset \/ TrPoint \/ TrEnd
TrSpec == TrInit /\ [][TrNext]_ctrvars

HW == HWMark(l)
Accepted == HWAccepted
=============================================================================
