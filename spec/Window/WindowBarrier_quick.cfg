\* barrier messages and group deletion into a time window, small bound for the quick tier
SPECIFICATION BSpec
CONSTANTS
    Groups = {"a"}
    Periods = {1, 2, 3, 4}
    Everys = {0, 1, 2, 3, 4, 5}
    Aligns = {FALSE, TRUE}
    Fills = {FALSE, TRUE}
    MaxTime = 4
    MaxPoints = 3
    MaxBarriers = 2
    PurgeGuard = TRUE
INVARIANTS
    BTypeOK
    WindowContents
    BufIsSuffix
    RingRefinesSeq
    BRingEmitsBuf
    RingWellFormed
    BarrierSchedule
CHECK_DEADLOCK FALSE
