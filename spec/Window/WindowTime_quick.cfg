\* abstract window, two interleaved groups
SPECIFICATION Spec
CONSTANTS
    Groups = {"a", "b"}
    Periods = {1, 2, 3}
    Everys = {0, 1, 2, 3}
    Aligns = {FALSE, TRUE}
    Fills = {FALSE, TRUE}
    MaxTime = 5
    MaxPoints = 4
INVARIANTS
    TypeOK
    WindowContents
    EmitSchedule
    BufIsSuffix
CHECK_DEADLOCK FALSE
