---------------------------- MODULE WindowBarrier ----------------------------
(* Growth beyond C03's text: barrier messages into a time window            *)
(* (windowByTime.Barrier in window.go; emitted by the barrier node, which   *)
(* also drops every later point older than its last barrier, so the times   *)
(* of points AND barriers seen by a group's window do not decrease).        *)
(*                                                                          *)
(*   every = 0 : if t >= due: purge (t-period, t], emit the buffer with end *)
(*               t, due' = t                                                *)
(*   every > 0 : if t >= due: purge [due-period, due), emit with end due,   *)
(*               due' = t + every (truncated with align)                    *)
(* A barrier inserts nothing.  A group can be created by a barrier (the     *)
(* grouped consumer creates the receiver for the first message of a group,  *)
(* newWindowByTime takes its time as the first time).                       *)
(*                                                                          *)
(* Group deletion (DeleteGroup message, sent by barrier().delete(TRUE) right *)
(* after the barrier): the group's window state is dropped; if the group    *)
(* comes back it starts an empty window with the first due time computed    *)
(* from its next point, and from then on holds exactly the points of its    *)
(* period received since (the ghost histories restart with the group).      *)
(*                                                                          *)
(* Binding: barrier times of the real barrier node are data times (last     *)
(* point time + idle) but WHEN it fires is wall-clock idleness, so the      *)
(* driver works in phases (write, await deletion of every group through the *)
(* window node's working_cardinality, write again) and WindowTrace applies  *)
(* BStep/RBStep + deletion at its Quiet line.  Checked here: the batch a    *)
(* barrier emits holds exactly the received points of its interval          *)
(* (WindowContents as for points), the ring still refines the sequence      *)
(* (purge on an empty, never used ring becomes reachable), the barrier      *)
(* schedule (BarrierSchedule), all of it across deletions and come-backs.   *)
EXTENDS WindowRing

VARIABLE nb     \* number of barriers so far
wbvars == <<cfg, st, recv, out, n, ring, hit, remit, nb>>

CONSTANT MaxBarriers

BStep(c, s, t) ==
    IF t < s.due THEN [s |-> [s EXCEPT !.last = t], em |-> <<>>]
    ELSE IF c.every = 0
    THEN LET b == SelectSeq(s.buf, LAMBDA q : PT(q) > t - c.period)
         IN [s |-> [s EXCEPT !.buf = b, !.due = t, !.last = t], em |-> <<[tmax |-> t, pts |-> b]>>]
    ELSE LET b == SelectSeq(s.buf, LAMBDA q : PT(q) >= s.due - c.period)
         IN [s |-> [s EXCEPT !.buf = b, !.due = Trunc(c, t + c.every), !.last = t],
             em |-> <<[tmax |-> s.due, pts |-> b]>>]

RBStep(c, r, due, t) ==
    IF t < due THEN [r |-> r, h |-> {}, em |-> <<>>]
    ELSE LET p1 == IF c.every = 0 THEN RPurge(r, t - c.period, FALSE) ELSE RPurge(r, due - c.period, TRUE)
         IN [r |-> p1.r, h |-> p1.h, em |-> <<RingPoints(p1.r)>>]

Barrier(g, t) ==
    /\ nb < MaxBarriers
    /\ t \in 0..MaxTime
    /\ st[g].started => t >= st[g].last
    /\ \E d \in DueChoices(g, t) :
         LET s0 == [st[g] EXCEPT !.started = TRUE, !.due = d]
             r  == BStep(cfg, s0, t)
             rs == RBStep(cfg, ring[g], d, t)
         IN /\ st' = [st EXCEPT ![g] = r.s]
            /\ out' = [out EXCEPT ![g] = @ \o [i \in 1..Len(r.em) |->
                            [tmax |-> r.em[i].tmax, pts |-> r.em[i].pts, trig |-> Len(recv[g]), bar |-> t]]]
            /\ ring' = [ring EXCEPT ![g] = rs.r]
            /\ hit' = [hit EXCEPT ![g] = rs.h]
            /\ remit' = [remit EXCEPT ![g] = rs.em]
    /\ nb' = nb + 1
    /\ UNCHANGED <<cfg, recv, n>>

(* DeleteGroup for g (counted in nb to keep the model finite).  The group's *)
(* next point or barrier creates it again: DueChoices sees started = FALSE  *)
(* and takes the first due time from that message; any time is acceptable   *)
(* (the barrier node forgets its last barrier with the group).               *)
Delete(g) ==
    /\ nb < MaxBarriers
    /\ st[g].started
    /\ st' = [st EXCEPT ![g] = Group0]
    /\ recv' = [recv EXCEPT ![g] = <<>>]
    /\ out' = [out EXCEPT ![g] = <<>>]
    /\ ring' = [ring EXCEPT ![g] = Ring0]
    /\ hit' = [hit EXCEPT ![g] = {}]
    /\ remit' = [remit EXCEPT ![g] = <<>>]
    /\ nb' = nb + 1
    /\ UNCHANGED <<cfg, n>>

BInit == RInit /\ nb = 0
BNext == \/ (\E g \in Groups, t \in 0..MaxTime : RPoint(g, t, n + 1)) /\ UNCHANGED nb
         \/ \E g \in Groups, t \in 0..MaxTime : Barrier(g, t)
         \/ \E g \in Groups : Delete(g)
BSpec == BInit /\ [][BNext]_wbvars

-----------------------------------------------------------------------------
(* TypeOK of WindowTime ties `started` to having received a point; a group  *)
(* can now be started by a barrier.                                         *)
BTypeOK ==
    /\ cfg \in Configs
    /\ \A g \in Groups : recv[g] # <<>> => st[g].started

(* The batch read from the ring at a barrier is the abstract buffer (no     *)
(* trailing insert, whatever `every` is).                                   *)
BRingEmitsBuf ==
    \A g \in Groups :
      remit[g] # <<>> /\ out[g] # <<>> => remit[g][1] = out[g][Len(out[g])].pts

(* A barrier-triggered batch: due at the barrier's time, end time as for    *)
(* points, aligned when align is set.                                       *)
IsBar(b) == "bar" \in DOMAIN b
BarrierSchedule ==
    \A g \in Groups : \A j \in DOMAIN out[g] :
      LET b == out[g][j] IN
      IsBar(b) => /\ b.tmax <= b.bar
                  /\ cfg.every = 0 => b.tmax = b.bar
                  /\ cfg.every > 0 /\ cfg.align => b.tmax % cfg.every = 0
=============================================================================
