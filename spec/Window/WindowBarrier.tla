---------------------------- MODULE WindowBarrier ----------------------------
(* Growth beyond C03's text: barrier messages into a time window            *)
(* (windowByTime.Barrier in window.go; emitted by the barrier node, which   *)
(* also drops every later point older than its last barrier, so the times   *)
(* of points AND barriers seen by a group's window do not decrease).        *)
(*                                                                          *)
(*   every = 0 : if t >= due: purge (t-period, t], emit the buffer with end *)
(*               t, due' = t                                                *)
(*   every > 0 : if t >= due: purge [due-period, due), emit with end due,   *)
(*               due' = t + every (truncated with align)                    *)
(* A barrier inserts nothing.  A group can be created by a barrier (the     *)
(* grouped consumer creates the receiver for the first message of a group,  *)
(* newWindowByTime takes its time as the first time).                       *)
(*                                                                          *)
(* Design level only: barrier times come from the system clock              *)
(* (idle/period timers of the barrier node), so no deterministic binding to *)
(* the real node exists without a clock hook.  Checked: the batch a barrier *)
(* emits holds exactly the received points of its interval                  *)
(* (WindowContents as for points), the ring still refines the sequence      *)
(* (purge on an empty, never used ring becomes reachable), and the barrier  *)
(* schedule (BarrierSchedule).                                               *)
EXTENDS WindowRing

VARIABLE nb     \* number of barriers so far
wbvars == <<cfg, st, recv, out, n, ring, hit, remit, nb>>

CONSTANT MaxBarriers

BStep(c, s, t) ==
    IF t < s.due THEN [s |-> [s EXCEPT !.last = t], em |-> <<>>]
    ELSE IF c.every = 0
    THEN LET b == SelectSeq(s.buf, LAMBDA q : PT(q) > t - c.period)
         IN [s |-> [s EXCEPT !.buf = b, !.due = t, !.last = t], em |-> <<[tmax |-> t, pts |-> b]>>]
    ELSE LET b == SelectSeq(s.buf, LAMBDA q : PT(q) >= s.due - c.period)
         IN [s |-> [s EXCEPT !.buf = b, !.due = Trunc(c, t + c.every), !.last = t],
             em |-> <<[tmax |-> s.due, pts |-> b]>>]

RBStep(c, r, due, t) ==
    IF t < due THEN [r |-> r, h |-> {}, em |-> <<>>]
    ELSE LET p1 == IF c.every = 0 THEN RPurge(r, t - c.period, FALSE) ELSE RPurge(r, due - c.period, TRUE)
         IN [r |-> p1.r, h |-> p1.h, em |-> <<RingPoints(p1.r)>>]

Barrier(g, t) ==
    /\ nb < MaxBarriers
    /\ t \in 0..MaxTime
    /\ st[g].started => t >= st[g].last
    /\ \E d \in DueChoices(g, t) :
         LET s0 == [st[g] EXCEPT !.started = TRUE, !.due = d]
             r  == BStep(cfg, s0, t)
             rs == RBStep(cfg, ring[g], d, t)
         IN /\ st' = [st EXCEPT ![g] = r.s]
            /\ out' = [out EXCEPT ![g] = @ \o [i \in 1..Len(r.em) |->
                            [tmax |-> r.em[i].tmax, pts |-> r.em[i].pts, trig |-> Len(recv[g]), bar |-> t]]]
            /\ ring' = [ring EXCEPT ![g] = rs.r]
            /\ hit' = [hit EXCEPT ![g] = rs.h]
            /\ remit' = [remit EXCEPT ![g] = rs.em]
    /\ nb' = nb + 1
    /\ UNCHANGED <<cfg, recv, n>>

BInit == RInit /\ nb = 0
BNext == \/ (\E g \in Groups, t \in 0..MaxTime : RPoint(g, t, n + 1)) /\ UNCHANGED nb
         \/ \E g \in Groups, t \in 0..MaxTime : Barrier(g, t)
BSpec == BInit /\ [][BNext]_wbvars

-----------------------------------------------------------------------------
(* TypeOK of WindowTime ties `started` to having received a point; a group  *)
(* can now be started by a barrier.                                         *)
BTypeOK ==
    /\ cfg \in Configs
    /\ \A g \in Groups : recv[g] # <<>> => st[g].started

(* The batch read from the ring at a barrier is the abstract buffer (no     *)
(* trailing insert, whatever `every` is).                                   *)
BRingEmitsBuf ==
    \A g \in Groups :
      remit[g] # <<>> /\ out[g] # <<>> => remit[g][1] = out[g][Len(out[g])].pts

(* A barrier-triggered batch: due at the barrier's time, end time as for    *)
(* points, aligned when align is set.                                       *)
IsBar(b) == "bar" \in DOMAIN b
BarrierSchedule ==
    \A g \in Groups : \A j \in DOMAIN out[g] :
      LET b == out[g][j] IN
      IsBar(b) => /\ b.tmax <= b.bar
                  /\ cfg.every = 0 => b.tmax = b.bar
                  /\ cfg.every > 0 /\ cfg.align => b.tmax % cfg.every = 0
=============================================================================
