---------------------------- MODULE WindowTimeMC ----------------------------
EXTENDS WindowTime
ASSUME FirstDueMeaning(MaxTime)
=============================================================================
