SPECIFICATION CSpec
CONSTANTS
    Groups = {"a", "b"}
    PeriodCounts = {1, 2, 3, 4}
    EveryCounts = {1, 2, 3, 4, 5}
    Fills = {FALSE, TRUE}
    Times = {0, 1}
    MaxPoints = 8
INVARIANTS
    CTypeOK
    CountWindow
    CountRingHoldsLast
CHECK_DEADLOCK FALSE
