--------------------------- MODULE WindowBarrierMC ---------------------------
EXTENDS WindowBarrier
ASSUME FirstDueMeaning(MaxTime)
=============================================================================
