\* growth: barrier messages into a time window (design level only)
SPECIFICATION BSpec
CONSTANTS
    Groups = {"a"}
    Periods = {1, 2, 3, 4}
    Everys = {0, 1, 2, 3, 4, 5}
    Aligns = {FALSE, TRUE}
    Fills = {FALSE, TRUE}
    MaxTime = 5
    MaxPoints = 4
    MaxBarriers = 2
    PurgeGuard = TRUE
INVARIANTS
    BTypeOK
    WindowContents
    BufIsSuffix
    RingRefinesSeq
    BRingEmitsBuf
    RingWellFormed
    BarrierSchedule
CHECK_DEADLOCK FALSE
