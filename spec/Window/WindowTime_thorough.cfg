\* abstract window, two interleaved groups, every configuration
SPECIFICATION Spec
CONSTANTS
    Groups = {"a", "b"}
    Periods = {1, 2, 3, 4}
    Everys = {0, 1, 2, 3, 4, 5}
    Aligns = {FALSE, TRUE}
    Fills = {FALSE, TRUE}
    MaxTime = 5
    MaxPoints = 5
INVARIANTS
    TypeOK
    WindowContents
    EmitSchedule
    BufIsSuffix
CHECK_DEADLOCK FALSE
