\* the ring as it was before the fix: TLC must find the drain-then-wrap counterexample
SPECIFICATION RSpec
CONSTANTS
    Groups = {"a"}
    Periods = {1, 2, 3, 4}
    Everys = {0, 1, 2, 3, 4, 5}
    Aligns = {FALSE, TRUE}
    Fills = {FALSE, TRUE}
    MaxTime = 7
    MaxPoints = 6
    PurgeGuard = FALSE
INVARIANTS
    TypeOK
    WindowContents
    EmitSchedule
    BufIsSuffix
    RingRefinesSeq
    RingEmitsBuf
    RingWellFormed
CHECK_DEADLOCK FALSE
