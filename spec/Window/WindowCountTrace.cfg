SPECIFICATION TrSpec
CONSTANTS
    Groups = {"g"}
    PeriodCounts = {1, 2, 3, 4, 5, 6, 7, 8, 9, 10, 11, 12}
    EveryCounts = {1, 2, 3, 4, 5, 6, 7, 8, 9, 10, 11, 12}
    Fills = {FALSE, TRUE}
    Times = {0}
    MaxPoints = 100000000
INVARIANTS
    CTypeOK
    CountWindow
    CountRingHoldsLast
CONSTRAINT HW
POSTCONDITION Accepted
CHECK_DEADLOCK FALSE
