---------------------------- MODULE WindowRingMC ----------------------------
EXTENDS WindowRing
ASSUME FirstDueMeaning(MaxTime)
=============================================================================
