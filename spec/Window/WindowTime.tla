----------------------------- MODULE WindowTime -----------------------------
(* Time windows of the `window` node, per group (C03).                      *)
(* Code: window.go windowByTime (newWindowByTime, Point, batch);            *)
(* documentation: pipeline/window.go.                                       *)
(*                                                                          *)
(* Abstract state per group: the buffered points `buf` and the data time    *)
(* `due` (the code's nextEmit) at which the next batch is due.  One action, *)
(* Point(g,t,id): the group's receiver handles one point.  The property is  *)
(* stated over the ghost histories `recv` (everything the group received)   *)
(* and `out` (everything it emitted), i.e. independently of `buf`:          *)
(*   WindowContents  an emitted batch with end T holds exactly the received *)
(*                   points with time in [T-period,T), in arrival order     *)
(*                   (every = 0: (t-period,t] of the triggering point)      *)
(*   EmitSchedule    batches are emitted when due and only then; the first  *)
(*                   due time follows fillPeriod/align, the following ones  *)
(*                   are trigger time + every (truncated with align)        *)
(* Nothing is flushed when the task stops (windowByTime.Done is empty).      *)
(*                                                                          *)
(* fillPeriod: the property says, without qualification, "first one delayed *)
(* to a full period with fillPeriod", and the code delays for every         *)
(* period/every combination; the sentence in pipeline/window.go ("only      *)
(* applies if the period is greater than the every value") is NOT taken as  *)
(* a licence to emit a partial first window.  FirstDue is therefore the     *)
(* single value newWindowByTime computes (kept as a set so that a reading   *)
(* the text really leaves open could be added as a second element).         *)
EXTENDS Integers, Sequences, FiniteSets, TLC

CONSTANTS
    Groups,      \* set of group names
    Periods,     \* set of periods to choose the node configuration from
    Everys,      \* set of every values (0 = emit on every point)
    Aligns,      \* subset of BOOLEAN
    Fills,       \* subset of BOOLEAN
    MaxTime,     \* points carry times 0..MaxTime
    MaxPoints    \* bound on the number of points (all groups)

VARIABLES
    cfg,    \* [period, every, align, fill]  the node's configuration (one node, all groups)
    st,     \* [Groups -> [started, buf, due, last]]
    recv,   \* ghost: [Groups -> Seq(point)]   every point the group received, in arrival order
    out,    \* ghost: [Groups -> Seq(batch)]   every batch the group emitted; batch = [tmax, pts, trig]
    n       \* number of points so far

wtvars == <<cfg, st, recv, out, n>>

(* A point is <<time, id>>; ids are unique (arrival number / the driver's seq field). *)
PT(p) == p[1]

Configs == [period : Periods, every : Everys, align : Aligns, fill : Fills]

Group0 == [started |-> FALSE, buf |-> <<>>, due |-> 0, last |-> 0]

Trunc(c, x) == IF c.align /\ c.every > 0 THEN x - (x % c.every) ELSE x

(* newWindowByTime: the first due time, from the time of the group's first point. *)
FirstDueCode(c, t0) ==
    IF c.fill
    THEN IF c.align /\ c.every > 0
         THEN Trunc(c, t0 + c.period) + c.every   \* smallest multiple of every > t0+period
         ELSE t0 + c.period
    ELSE Trunc(c, t0 + c.every)
FirstDue(c, t0) == {FirstDueCode(c, t0)}

(* What the first due time means (documentation of fillPeriod/align and the *)
(* comment in newWindowByTime: "aligned with Every and greater than         *)
(* now+Period"), stated without the formula.  Checked as an ASSUME by the   *)
(* MC modules for every configuration and first time in the bound.  (It has *)
(* a parameter so that TLC does not pre-evaluate it as a constant in the    *)
(* trace configuration, where MaxTime is huge.)                             *)
FirstDueMeaning(maxT) ==
    \A c \in Configs, t0 \in 0..maxT :
      LET d == FirstDueCode(c, t0) IN
      /\ c.every > 0 => d > t0                                  \* the first point never emits
      /\ c.align /\ c.every > 0 => d % c.every = 0
      /\ ~c.fill => IF c.every = 0 THEN d = t0
                    ELSE IF c.align THEN d > t0 /\ d <= t0 + c.every   \* the multiple of every in (t0, t0+every]
                    ELSE d = t0 + c.every
      /\ c.fill => IF c.align /\ c.every > 0
                   THEN d > t0 + c.period /\ d - c.every <= t0 + c.period  \* first multiple after a full period
                   ELSE d = t0 + c.period

(* windowByTime.Point as a function: state x point -> state, emitted batches (0 or 1). *)
Step(c, s, p) ==
    LET t == PT(p) IN
    IF c.every = 0
    THEN \* insert first, right-aligned window (t-period, t]
         LET b1 == Append(s.buf, p) IN
         IF t >= s.due
         THEN LET b2 == SelectSeq(b1, LAMBDA q : PT(q) > t - c.period)
              IN [s |-> [s EXCEPT !.buf = b2, !.due = t, !.last = t],
                  em |-> <<[tmax |-> t, pts |-> b2]>>]
         ELSE [s |-> [s EXCEPT !.buf = b1, !.last = t], em |-> <<>>]
    ELSE \* left-aligned window [due-period, due), the point is inserted afterwards
         IF t >= s.due
         THEN LET b1 == SelectSeq(s.buf, LAMBDA q : PT(q) >= s.due - c.period)
              IN [s |-> [s EXCEPT !.buf = Append(b1, p), !.due = Trunc(c, t + c.every), !.last = t],
                  em |-> <<[tmax |-> s.due, pts |-> b1]>>]
         ELSE [s |-> [s EXCEPT !.buf = Append(s.buf, p), !.last = t], em |-> <<>>]

Init ==
    /\ cfg \in Configs
    /\ st = [g \in Groups |-> Group0]
    /\ recv = [g \in Groups |-> <<>>]
    /\ out = [g \in Groups |-> <<>>]
    /\ n = 0

(* The receiver of group g handles a point with time t and identity id.   *)
(* Per group, times do not decrease (the property's quantifier).           *)
DueChoices(g, t) == IF st[g].started THEN {st[g].due} ELSE FirstDue(cfg, t)

PointD(g, t, id, d) ==
    /\ n < MaxPoints
    /\ t \in 0..MaxTime
    /\ st[g].started => t >= st[g].last
    /\ LET s0 == [st[g] EXCEPT !.started = TRUE, !.due = d]
           r  == Step(cfg, s0, <<t, id>>)
           k  == Len(recv[g]) + 1
       IN /\ st' = [st EXCEPT ![g] = r.s]
          /\ out' = [out EXCEPT ![g] = @ \o [i \in 1..Len(r.em) |->
                          [tmax |-> r.em[i].tmax, pts |-> r.em[i].pts, trig |-> k]]]
    /\ recv' = [recv EXCEPT ![g] = Append(@, <<t, id>>)]
    /\ n' = n + 1
    /\ UNCHANGED cfg

Point(g, t, id) == \E d \in DueChoices(g, t) : PointD(g, t, id, d)

Next == \E g \in Groups, t \in 0..MaxTime : Point(g, t, n + 1)
Spec == Init /\ [][Next]_wtvars

-----------------------------------------------------------------------------
TypeOK ==
    /\ cfg \in Configs
    /\ n \in 0..MaxPoints
    /\ \A g \in Groups :
         /\ st[g].started \in BOOLEAN
         /\ st[g].started <=> recv[g] # <<>>
         /\ \A i \in DOMAIN st[g].buf : st[g].buf[i] \in (0..MaxTime) \X (1..MaxPoints)

(* The property, on the most recent batch of each group (every reachable  *)
(* state is checked, so every batch is checked when it is the most recent). *)
WindowContents ==
    \A g \in Groups :
      out[g] # <<>> =>
        LET b == out[g][Len(out[g])]
            sofar == SubSeq(recv[g], 1, b.trig)
            T == b.tmax
        IN b.pts = IF cfg.every = 0
                   THEN SelectSeq(sofar, LAMBDA q : PT(q) > T - cfg.period /\ PT(q) <= T)
                   ELSE SelectSeq(sofar, LAMBDA q : PT(q) >= T - cfg.period /\ PT(q) < T)

RT(g, i) == PT(recv[g][i])

EmitSchedule ==
    \A g \in Groups :
      LET R == recv[g]  O == out[g]  k == Len(O) IN
      IF R = <<>> THEN O = <<>>
      ELSE IF cfg.every = 0
      THEN \* from the first point at or after the first due time on, every point emits a batch ending at its time
           /\ \A j \in 1..k : O[j].tmax = RT(g, O[j].trig)
           /\ \A j \in 1..(k-1) : O[j+1].trig = O[j].trig + 1
           /\ k > 0 => O[k].trig = Len(R)
           /\ \E d \in FirstDue(cfg, RT(g, 1)) :
                /\ k > 0 => RT(g, O[1].trig) >= d /\ \A i \in 1..(O[1].trig - 1) : RT(g, i) < d
                /\ k = 0 => \A i \in 1..Len(R) : RT(g, i) < d
      ELSE /\ \A j \in 1..k :
                /\ O[j].tmax <= RT(g, O[j].trig)                    \* emitted only when due ...
                /\ \A i \in (IF j = 1 THEN 1 ELSE O[j-1].trig)..(O[j].trig - 1) :
                        RT(g, i) < O[j].tmax                          \* ... by the first point that reaches the due time
                /\ cfg.align => O[j].tmax % cfg.every = 0
                /\ j > 1 => /\ O[j].trig > O[j-1].trig
                            /\ O[j].tmax = Trunc(cfg, RT(g, O[j-1].trig) + cfg.every)
           /\ k > 0 => /\ O[1].tmax \in FirstDue(cfg, RT(g, 1))
                       /\ \A i \in (O[k].trig)..Len(R) :           \* nothing is overdue
                            RT(g, i) < Trunc(cfg, RT(g, O[k].trig) + cfg.every)
           /\ k = 0 => \E d \in FirstDue(cfg, RT(g, 1)) : \A i \in 1..Len(R) : RT(g, i) < d

(* Everything buffered is newer than everything already expired: the buffer *)
(* is a suffix of the received points (used by the ring refinement).       *)
BufIsSuffix ==
    \A g \in Groups :
      LET b == st[g].buf  R == recv[g] IN
      /\ Len(b) <= Len(R)
      /\ b = SubSeq(R, Len(R) - Len(b) + 1, Len(R))
=============================================================================
