----------------------------- MODULE WindowTrace -----------------------------
(* Trace specification for time windows: validates what the real task       *)
(*   stream|from().groupBy('g')|window().period(P).every(E)[.align()][.fillPeriod()]|log().prefix('w') *)
(* did for ONE group (the driver c03 demultiplexes the sink by group; the   *)
(* groups of a task are interleaved on the real node).  Lines:              *)
(*   Reset {period, every, use_align, fill, sink}   sink = the batches the  *)
(*          log sink saw for this group, in order: [{tmax, pts: [[t,seq],..]}] *)
(*   Point {t, seq}     the group received this point                       *)
(*   End                the task was stopped (StopTask drains; the window   *)
(*                      node flushes nothing)                               *)
(* Verdict level: every batch the abstract window (WindowTime) emits must   *)
(* be the next batch the sink saw, with the same end time and the same      *)
(* points in the same order, and at End nothing may be left over; the       *)
(* property invariants are evaluated on every step.  With fillPeriod the    *)
(* first batch must be delayed to a full period for every period/every      *)
(* combination (FirstDue is a single value).                                *)
(* Drift level: the ring model (WindowRing) runs in lock step; a step after *)
(* which it no longer refines the abstract buffer is reported ("RING-DRIFT") *)
(* but is not a verdict.  Branches taken by the ring model are counted in   *)
(* TLC registers and printed at the end ("RING-HITS").                      *)
EXTENDS WindowRing, TraceCommon

VARIABLES l, obs
trvars == <<cfg, st, recv, out, n, ring, hit, remit, l, obs>>

G == CHOOSE g \in Groups : TRUE

BranchSeq == <<"grow_empty", "grow_contig", "grow_wrapped", "wrap", "wrap_after_drain", "append", "overwrite",
               "purge_nil", "purge_contig", "purge_tail_valid", "purge_tail_expired",
               "purge_start_eq_len", "purge_guard_decides", "purge_tail_stale", "purge_drain", "purge_drain_at_end", "purge_none">>
BIdx(b) == 10 + (CHOOSE i \in DOMAIN BranchSeq : BranchSeq[i] = b)
CountHits(S) == \A b \in S : TLCSet(BIdx(b), TLCGet(BIdx(b)) + 1)

TrInit ==
    /\ cfg = [period |-> 1, every |-> 0, align |-> FALSE, fill |-> FALSE]
    /\ st = [g \in Groups |-> Group0]
    /\ recv = [g \in Groups |-> <<>>]
    /\ out = [g \in Groups |-> <<>>]
    /\ n = 0
    /\ ring = [g \in Groups |-> Ring0]
    /\ hit = [g \in Groups |-> {}]
    /\ remit = [g \in Groups |-> <<>>]
    /\ l = 1
    /\ obs = <<>>
    /\ HWInit
    /\ \A i \in DOMAIN BranchSeq : TLCSet(10 + i, 0)

Ln == Trace[l]
IsEv(e) == l <= Len(Trace) /\ Ln.ev = e /\ l' = l + 1

TrReset ==
    /\ IsEv("Reset")
    /\ cfg' = [period |-> Ln.period, every |-> Ln.every, align |-> Ln.use_align, fill |-> Ln.fill]
    /\ st' = [g \in Groups |-> Group0]
    /\ recv' = [g \in Groups |-> <<>>]
    /\ out' = [g \in Groups |-> <<>>]
    /\ n' = 0
    /\ ring' = [g \in Groups |-> Ring0]
    /\ hit' = [g \in Groups |-> {}]
    /\ remit' = [g \in Groups |-> <<>>]
    /\ obs' = Ln.sink

RingOK == RingRefinesSeq /\ RingEmitsBuf /\ RingWellFormed

TrPoint ==
    /\ IsEv("Point")
    /\ RPoint(G, Ln.t, Ln.seq)
    /\ IF Len(out'[G]) = Len(out[G])
       THEN obs' = obs
       ELSE LET b == out'[G][Len(out'[G])] IN
            /\ obs # <<>>
            /\ Head(obs).tmax = b.tmax
            /\ Head(obs).pts = b.pts
            /\ obs' = Tail(obs)
    /\ CountHits(hit'[G])
    /\ (RingOK' \/ PrintT(<<"RING-DRIFT at line", l>>))

TrEnd ==
    /\ IsEv("End")
    /\ Ln.failed = FALSE      \* no node of the task died
    /\ obs = <<>>            \* the sink saw nothing the window should not have emitted
    /\ UNCHANGED <<cfg, st, recv, out, n, ring, hit, remit, obs>>

TrNext == TrReset \/ TrPoint \/ TrEnd
TrSpec == TrInit /\ [][TrNext]_trvars

HW == HWMark(l)
Accepted ==
    /\ PrintT(<<"RING-HITS", [i \in DOMAIN BranchSeq |-> TLCGet(10 + i)]>>)
    /\ HWAccepted
=============================================================================
