----------------------------- MODULE WindowTrace -----------------------------
(* Trace specification for time windows: validates what the real task       *)
(*   stream|from().groupBy('g')|window().period(P).every(E)[.align()][.fillPeriod()]|log().prefix('w') *)
(* did for ONE group (the driver c03 demultiplexes the sink by group; the   *)
(* groups of a task are interleaved on the real node).  Lines:              *)
(*   Reset {period, every, use_align, fill, sink}   sink = the batches the  *)
(*          log sink saw for this group, in order: [{tmax, pts: [[t,seq],..]}] *)
(*   Point {t, seq}     the group received this point                       *)
(*   Quiet {idle}       every group of the task has been deleted (see below) *)
(*   End                the task was stopped (StopTask drains; the window   *)
(*                      node flushes nothing)                               *)
(* Verdict level: every batch the abstract window (WindowTime) emits must   *)
(* be the next batch the sink saw, with the same end time and the same      *)
(* points in the same order, and at End nothing may be left over; the       *)
(* property invariants are evaluated on every step.  With fillPeriod the    *)
(* first batch must be delayed to a full period for every period/every      *)
(* combination (FirstDue is a single value).                                *)
(* Drift level: the ring model (WindowRing) runs in lock step; a step after *)
(* which it no longer refines the abstract buffer is reported ("RING-DRIFT") *)
(* but is not a verdict.  Branches taken by the ring model are counted in   *)
(* TLC registers and printed at the end ("RING-HITS").                      *)
EXTENDS WindowBarrier, TraceCommon

VARIABLES l, obs
trvars == <<cfg, st, recv, out, n, ring, hit, remit, nb, l, obs>>

G == CHOOSE g \in Groups : TRUE

BranchSeq == <<"grow_empty", "grow_contig", "grow_wrapped", "wrap", "wrap_after_drain", "append", "overwrite",
               "purge_nil", "purge_contig", "purge_tail_valid", "purge_tail_expired",
               "purge_start_eq_len", "purge_guard_decides", "purge_tail_stale", "purge_drain", "purge_drain_at_end", "purge_none">>
BIdx(b) == 10 + (CHOOSE i \in DOMAIN BranchSeq : BranchSeq[i] = b)
CountHits(S) == \A b \in S : TLCSet(BIdx(b), TLCGet(BIdx(b)) + 1)

TrInit ==
    /\ cfg = [period |-> 1, every |-> 0, align |-> FALSE, fill |-> FALSE]
    /\ st = [g \in Groups |-> Group0]
    /\ recv = [g \in Groups |-> <<>>]
    /\ out = [g \in Groups |-> <<>>]
    /\ n = 0
    /\ ring = [g \in Groups |-> Ring0]
    /\ hit = [g \in Groups |-> {}]
    /\ remit = [g \in Groups |-> <<>>]
    /\ nb = 0
    /\ l = 1
    /\ obs = <<>>
    /\ HWInit
    /\ \A i \in DOMAIN BranchSeq : TLCSet(10 + i, 0)

Ln == Trace[l]
IsEv(e) == l <= Len(Trace) /\ Ln.ev = e /\ l' = l + 1

TrReset ==
    /\ IsEv("Reset")
    /\ cfg' = [period |-> Ln.period, every |-> Ln.every, align |-> Ln.use_align, fill |-> Ln.fill]
    /\ st' = [g \in Groups |-> Group0]
    /\ recv' = [g \in Groups |-> <<>>]
    /\ out' = [g \in Groups |-> <<>>]
    /\ n' = 0
    /\ ring' = [g \in Groups |-> Ring0]
    /\ hit' = [g \in Groups |-> {}]
    /\ remit' = [g \in Groups |-> <<>>]
    /\ obs' = Ln.sink
    /\ UNCHANGED nb

RingOK == RingRefinesSeq /\ RingEmitsBuf /\ RingWellFormed

TrPoint ==
    /\ IsEv("Point")
    /\ RPoint(G, Ln.t, Ln.seq)
    /\ IF Len(out'[G]) = Len(out[G])
       THEN obs' = obs
       ELSE LET b == out'[G][Len(out'[G])] IN
            /\ obs # <<>>
            /\ Head(obs).tmax = b.tmax
            /\ Head(obs).pts = b.pts
            /\ obs' = Tail(obs)
    /\ CountHits(hit'[G])
    /\ UNCHANGED nb
    \* IF, not a disjunction: TLC would split "A \/ PrintT" into two successor branches and always print
    /\ IF RingOK' THEN TRUE ELSE PrintT(<<"RING-DRIFT at line", l>>)

(* Quiet {idle}: the driver observed that the window node holds no group any *)
(* more (working_cardinality 0 after every point written so far had been    *)
(* taken by the node, and no barrier can have fired before that).  For a    *)
(* group that exists this means: the idle barrier fired with time = last    *)
(* point time + idle - the window handles it like WindowBarrier.Barrier, a  *)
(* batch it emits must be the next one the sink saw and must hold exactly   *)
(* the received points of its interval - and then the group was deleted:    *)
(* its state is dropped, the come-back starts an empty window.              *)
TrQuiet ==
    /\ IsEv("Quiet")
    /\ IF ~st[G].started
       THEN UNCHANGED <<cfg, st, recv, out, n, ring, hit, remit, nb, obs>>
       ELSE LET t  == st[G].last + Ln.idle
                r  == BStep(cfg, st[G], t)
                rs == RBStep(cfg, ring[G], st[G].due, t)
            IN /\ IF r.em = <<>>
                  THEN obs' = obs
                  ELSE LET b == r.em[1]  T == b.tmax IN
                       /\ obs # <<>>
                       /\ Head(obs).tmax = T
                       /\ Head(obs).pts = b.pts
                       /\ obs' = Tail(obs)
                       \* the property, for a barrier-triggered batch
                       /\ b.pts = IF cfg.every = 0
                                  THEN SelectSeq(recv[G], LAMBDA q : PT(q) > T - cfg.period /\ PT(q) <= T)
                                  ELSE SelectSeq(recv[G], LAMBDA q : PT(q) >= T - cfg.period /\ PT(q) < T)
               /\ CountHits(rs.h)
               /\ IF rs.em = [i \in DOMAIN r.em |-> r.em[i].pts] /\ RingPoints(rs.r) = r.s.buf
                  THEN TRUE ELSE PrintT(<<"RING-DRIFT at line", l>>)
               /\ st' = [st EXCEPT ![G] = Group0]
               /\ recv' = [recv EXCEPT ![G] = <<>>]
               /\ out' = [out EXCEPT ![G] = <<>>]
               /\ ring' = [ring EXCEPT ![G] = Ring0]
               /\ hit' = [hit EXCEPT ![G] = {}]
               /\ remit' = [remit EXCEPT ![G] = <<>>]
               /\ UNCHANGED <<cfg, n, nb>>

(* Holds {groups, phase_groups}: when the node had processed the points of  *)
(* a phase (and before any idle barrier could fire) its working_cardinality *)
(* was `groups`; every group of earlier phases had been deleted, so it must *)
(* hold exactly one window per group it was given points for in this phase. *)
TrHolds ==
    /\ IsEv("Holds")
    /\ Ln.groups = Ln.phase_groups
    /\ UNCHANGED <<cfg, st, recv, out, n, ring, hit, remit, nb, obs>>

TrEnd ==
    /\ IsEv("End")
    /\ Ln.failed = FALSE      \* no node of the task died
    /\ obs = <<>>            \* the sink saw nothing the window should not have emitted
    /\ UNCHANGED <<cfg, st, recv, out, n, ring, hit, remit, nb, obs>>

TrNext == TrReset \/ TrPoint \/ TrQuiet \/ TrHolds \/ TrEnd
TrSpec == TrInit /\ [][TrNext]_trvars

HW == HWMark(l)
Accepted ==
    /\ PrintT(<<"RING-HITS", [i \in DOMAIN BranchSeq |-> TLCGet(10 + i)]>>)
    /\ HWAccepted
=============================================================================
