SPECIFICATION TrSpec
CONSTANTS
    Groups = {"g"}
    Periods = {1, 2, 3, 4, 5, 6, 7, 8, 9, 10, 11, 12}
    Everys = {0, 1, 2, 3, 4, 5, 6, 7, 8, 9, 10, 11, 12}
    Aligns = {FALSE, TRUE}
    Fills = {FALSE, TRUE}
    MaxTime = 100000000
    MaxPoints = 100000000
    PurgeGuard = TRUE
    MaxBarriers = 0
INVARIANTS
    TypeOK
    WindowContents
    EmitSchedule
    BufIsSuffix
CONSTRAINT HW
POSTCONDITION Accepted
CHECK_DEADLOCK FALSE
