\* ring buffer in lock step with the abstract window: every configuration, one group
SPECIFICATION RSpec
CONSTANTS
    Groups = {"a"}
    Periods = {1, 2, 3, 4}
    Everys = {0, 1, 2, 3, 4, 5}
    Aligns = {FALSE, TRUE}
    Fills = {FALSE, TRUE}
    MaxTime = 10
    MaxPoints = 7
    PurgeGuard = TRUE
INVARIANTS
    TypeOK
    WindowContents
    EmitSchedule
    BufIsSuffix
    RingRefinesSeq
    RingEmitsBuf
    RingWellFormed
CHECK_DEADLOCK FALSE
