\* transition cover of the ring branches (see CoverNotHit); checks/c03.py runs it once per branch
SPECIFICATION RSpec
CONSTANTS
    Groups = {"a"}
    Periods = {1, 2, 3, 4}
    Everys = {0, 1, 2, 3, 4, 5}
    Aligns = {FALSE, TRUE}
    Fills = {FALSE, TRUE}
    MaxTime = 5
    MaxPoints = 5
    PurgeGuard = TRUE
INVARIANTS
    CoverNotHit
CHECK_DEADLOCK FALSE
