\* ring refinement only, ghost histories hidden (sound: no action reads recv/out): more points
SPECIFICATION RSpec
CONSTANTS
    Groups = {"a"}
    Periods = {1, 2, 3, 4}
    Everys = {0, 1, 2, 3, 4, 5}
    Aligns = {FALSE, TRUE}
    Fills = {FALSE, TRUE}
    MaxTime = 10
    MaxPoints = 9
    PurgeGuard = TRUE
VIEW RingView
INVARIANTS
    RingRefinesSeq
    RingEmitsBufNoHist
    RingWellFormed
CHECK_DEADLOCK FALSE
