SPECIFICATION BSpec
CONSTANTS
    NParents = 3
    MaxPts = 3
INVARIANTS
    BatchPairing
    BatchOrdered
CHECK_DEADLOCK FALSE
