------------------------------ MODULE UnionMC ------------------------------
EXTENDS Union
T3 == 1..3
G1 == {"x"}
UCfg(n) == [kind |-> "union", edge |-> "stream", n |-> n, fill |-> "none", tol |-> 0, on |-> FALSE]
MCConfigs2 == { UCfg(2) }
MCConfigs3 == { UCfg(3) }
MCInputs2x3 == InputsOf(2, T3, G1, 3)
MCInputs3x2 == InputsOf(3, T3, G1, 2)
MCInputs3x3 == InputsOf(3, T3, G1, 3)
\* one run for both arities: UInit keeps the pairs with Len(parents) = cfg.n
MCConfigsBoth == MCConfigs2 \cup MCConfigs3
MCInputsQuick == MCInputs2x3 \cup MCInputs3x2
MCInputsThorough == MCInputs2x3 \cup MCInputs3x3
=============================================================================
