SPECIFICATION MSpec
CONSTANTS
    MCInputs <- MCInAll
INVARIANTS
    ReassemblyPerParent
    FinishAfterAll
CHECK_DEADLOCK FALSE
