--------------------------- MODULE CircularQueue ---------------------------
(* The generic ring queue of circularqueue.go with the code's own layout:   *)
(* data (a slice whose length is the capacity), head, tail, Len.            *)
(* It is the buffer under the union sources, the join sets and the join.on  *)
(* match/specific buffers.  `ref` is the abstract FIFO the layout must      *)
(* implement (QueueIsFifo), which justifies modelling those buffers as      *)
(* plain sequences in Union.tla / Join.tla.                                 *)
EXTENDS Integers, Sequences, FiniteSets, TLC

CONSTANTS
    InitSizes,   \* numbers of items NewCircularQueue(buf...) may be created with
    MaxOps,      \* bound on the number of operations (model checking only)
    DeqArgs      \* arguments tried for Dequeue(n)

VARIABLES
    data,   \* [0..cap-1 -> Nat]   0 = zero value of T
    head, tail, len,
    ref,    \* abstract contents, oldest first
    nextv,  \* next fresh value to enqueue (values are 1,2,3,...)
    ops

qvars == <<data, head, tail, len, ref, nextv, ops>>

Cap == Cardinality(DOMAIN data)

(* NewCircularQueue(buf...): a slice with fewer than 4 slots is replaced by  *)
(* one with 4; data = buf[:cap(buf)], tail = Len = len(buf).                  *)
NewRec(k) ==
    LET c == IF k < 4 THEN 4 ELSE k
    IN [data |-> [i \in 0..c-1 |-> IF i < k THEN i + 1 ELSE 0],
        head |-> 0, tail |-> k, len |-> k, ref |-> [i \in 1..k |-> i], nextv |-> k + 1]
New(k) ==
    LET r == NewRec(k)
    IN /\ data = r.data /\ head = r.head /\ tail = r.tail /\ len = r.len
       /\ ref = r.ref /\ nextv = r.nextv

QInit == (\E k \in InitSizes : New(k)) /\ ops = 0

(* Enqueue: in place (wrapping tail at the end of the slice) or grow to 2x. *)
Enqueue ==
    /\ IF Cap > len
       THEN LET tl == IF tail = Cap THEN 0 ELSE tail
            IN /\ data' = [data EXCEPT ![tl] = nextv]
               /\ tail' = tl + 1
               /\ head' = head
       ELSE LET c == Cap
                \* copy(buf, data[head:tail]) or the two-part copy of the wrapped case
                src(i) == IF head < tail
                          THEN (IF i < tail - head THEN data[head + i] ELSE 0)
                          ELSE (IF i < c - head THEN data[head + i]
                                ELSE IF i - (c - head) < tail THEN data[i - (c - head)] ELSE 0)
            IN /\ data' = [i \in 0..2*c-1 |-> IF i = c THEN nextv ELSE IF i < c THEN src(i) ELSE 0]
               /\ head' = 0
               /\ tail' = c + 1
    /\ len' = len + 1
    /\ ref' = Append(ref, nextv)
    /\ nextv' = nextv + 1

(* Dequeue(n): zero the removed slots (two loops when head > tail), advance  *)
(* head (wrapping only when it EXCEEDS the slice length), reset when empty.   *)
Dequeue(n0) ==
    IF n0 <= 0 THEN UNCHANGED <<data, head, tail, len, ref, nextv>>
    ELSE
    LET n == IF len <= n0 THEN len ELSE n0
        c == Cap
        \* the slots the two/one zeroing loops visit, in order
        visit == IF head > tail
                 THEN [i \in 1..((c - head) + tail) |-> IF i <= c - head THEN head + i - 1 ELSE i - (c - head) - 1]
                 ELSE [i \in 1..(tail - head) |-> head + i - 1]
        zeroed == { visit[i] : i \in { j \in DOMAIN visit : j <= n } }
        h1 == head + n
        h2 == IF h1 > c THEN h1 - c ELSE h1
    IN /\ data' = [i \in DOMAIN data |-> IF i \in zeroed THEN 0 ELSE data[i]]
       /\ len' = len - n
       /\ IF len - n = 0 THEN head' = 0 /\ tail' = 0 ELSE head' = h2 /\ tail' = tail
       /\ ref' = SubSeq(ref, n + 1, Len(ref))
       /\ nextv' = nextv

(* Peek(i) for 0 <= i < Len (outside that range the code panics by contract). *)
Peek(i) ==
    LET p == head + i
    IN data[IF p >= Cap THEN p - Cap ELSE p]

QNext ==
    /\ ops < MaxOps
    /\ ops' = ops + 1
    /\ (Enqueue \/ \E n \in DeqArgs : Dequeue(n))

QSpec == QInit /\ [][QNext]_qvars

---------------------------------------------------------------------------
TypeOK ==
    /\ head \in 0..Cap /\ tail \in 0..Cap /\ len \in 0..Cap
    /\ (len = 0 => head = 0 /\ tail = 0)
    /\ len > 0 => (tail - head) % Cap = len % Cap

(* The observable behaviour: Len and Peek(0..Len-1) are exactly the FIFO.   *)
QueueIsFifo ==
    /\ len = Len(ref)
    /\ \A i \in 0..len-1 : Peek(i) = ref[i + 1]

(* Not promised by the API, only hygiene of the layout (GC): dead slots are  *)
(* zeroed.  Known exception in the code: Dequeue on a full wrapped ring       *)
(* (head = tail > 0) zeroes nothing.  Evaluated as an observation only.       *)
DeadSlotsZero ==
    \A i \in DOMAIN data :
        (\A k \in 0..len-1 : (IF head + k >= Cap THEN head + k - Cap ELSE head + k) # i) => data[i] = 0
=============================================================================
