SPECIFICATION MSpec
CONSTANTS
    MCInputs <- MCInThorough
INVARIANTS
    ReassemblyPerParent
    FinishAfterAll
CHECK_DEADLOCK FALSE
