SPECIFICATION USpec
CONSTANTS
    Inputs <- MCInputsThorough
    Configs <- MCConfigsBoth
INVARIANTS
    UnionExactlyOnceOrdered
    UnionFlushOnClose
    UnionCausal
CHECK_DEADLOCK FALSE
