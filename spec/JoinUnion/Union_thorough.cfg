SPECIFICATION USpec
CONSTANTS
    Inputs <- MCInputs3x3
    Configs <- MCConfigs3
INVARIANTS
    UnionExactlyOnceOrdered
    UnionFlushOnClose
    UnionCausal
CHECK_DEADLOCK FALSE
