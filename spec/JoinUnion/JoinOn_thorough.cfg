SPECIFICATION JSpec
CONSTANTS
    MaxBarriers = 0
    Inputs <- MCInputsOn3
    Configs <- MCConfigsOn
INVARIANTS
    JoinPairing
    Confluence
    FlushOnClose
    FlushOnCloseOn
    OldestIsKey
    JoinCausal
CHECK_DEADLOCK FALSE
