SPECIFICATION JSpec
CONSTANTS
    Inputs <- MCInputsOn3
    Configs <- MCConfigsOn
INVARIANTS
    JoinPairing
    Confluence
    FlushOnClose
    FlushOnCloseOn
    OldestIsKey
    JoinCausal
CHECK_DEADLOCK FALSE
