SPECIFICATION JSpec
CONSTANTS
    Inputs <- MCInputsOn2
    Configs <- MCConfigsOnQ
INVARIANTS
    JoinPairing
    Confluence
    FlushOnClose
    FlushOnCloseOn
    OldestIsKey
    JoinCausal
CHECK_DEADLOCK FALSE
