------------------------- MODULE MultiConsumerTrace -------------------------
(* Trace specification for the exported edge.NewMultiConsumer (driver c12mc): *)
(* scheduled parent edges hand out begin/point/end messages one at a time in  *)
(* a forced order (the next edge gets its turn when the previous edge's       *)
(* reader asks for its following message, i.e. has handled the previous one   *)
(* completely); a recording MultiReceiver logs every BufferedBatch(src, b)    *)
(* call and Finish.  Trace:  Reset{parents}  Take{src}*  Finish{recv, ...}.   *)
EXTENDS MultiConsumer, TraceCommon

VARIABLE l
tvars == <<mvars, l>>

Ln == Trace[l]
IsEv(e) == l <= Len(Trace) /\ Ln.ev = e /\ l' = l + 1

TrInit ==
    /\ l = 1 /\ HWInit
    /\ mparents = <<>> /\ mpos = <<>> /\ rbuf = <<>> /\ recv = <<>> /\ mclosed = <<>> /\ mfinished = TRUE

TrReset ==
    /\ IsEv("Reset")
    /\ mparents' = Ln.parents
    /\ mpos' = [s \in DOMAIN Ln.parents |-> 0]
    /\ rbuf' = [s \in DOMAIN Ln.parents |-> NoBuf]
    /\ recv' = <<>>
    /\ mclosed' = [s \in DOMAIN Ln.parents |-> FALSE]
    /\ mfinished' = FALSE

TrTake == IsEv("Take") /\ ~mfinished /\ Take(Ln.src + 1)

Dec(c) == [src |-> c.src + 1, name |-> c.name, t |-> c.t, g |-> c.g, pts |-> c.pts]
(* end of every parent.  Verdict: per parent the receiver got exactly that     *)
(* parent's batches, unchanged and in order, under its own index, and Finish    *)
(* once, without error.  The order across parents is the order of the end       *)
(* messages in the schedule - what the model computed.                          *)
TrFinish ==
    /\ IsEv("Finish") /\ ~mfinished
    /\ \A s \in MSrcs : mpos[s] = Len(FlatMsgs(mparents[s]))
    /\ LET r == [i \in DOMAIN Ln.recv |-> Dec(Ln.recv[i])]
       IN /\ PerParentOK(mparents, r)
          /\ AllDelivered(mparents, r)
          /\ r = recv
    /\ Ln.finishes = 1 /\ Ln.err = ""
    /\ mfinished' = TRUE
    /\ mclosed' = [s \in MSrcs |-> TRUE]
    /\ UNCHANGED <<mparents, mpos, rbuf, recv>>

TrNext == TrReset \/ TrTake \/ TrFinish
TrSpec == TrInit /\ [][TrNext]_tvars

HW == HWMark(l)
Accepted == HWAccepted
=============================================================================
