SPECIFICATION JSpec
CONSTANTS
    MaxBarriers = 2
    Inputs <- MCInputs2x2
    Configs <- MCConfigsBar
INVARIANTS
    JoinPairing
    Confluence
    FlushOnClose
    OldestIsKey
    JoinCausal
CHECK_DEADLOCK FALSE
