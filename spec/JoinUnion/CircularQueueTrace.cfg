SPECIFICATION TrSpec
CONSTANTS
    InitSizes = {0}
    MaxOps = 1000000
    DeqArgs = {0}
INVARIANTS
    TypeOK
    QueueIsFifo
CONSTRAINT HW
POSTCONDITION Accepted
CHECK_DEADLOCK FALSE
