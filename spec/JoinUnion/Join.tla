-------------------------------- MODULE Join --------------------------------
(* JoinNode (join.go) under the multi-consumer (edge/consumer.go).  One      *)
(* reader goroutine per parent hands messages to the single receiver, so     *)
(* the arrival order is a scheduling choice: JDeliver(s) for any parent s    *)
(* that still has messages.  State and steps are the code's:                 *)
(*   joinGroup.sets / head / oldestTime, Collect, emit, checkOnlyReadSets,   *)
(*   emitAll; JoinNode.matchPoints with matchGroupsBuffer /                  *)
(*   specificGroupsBuffer / lowMarks / reported for join.on(); Finish.       *)
(* CircularQueues are sequences (see CircularQueue.tla), time 0 is the zero  *)
(* time.Time.  The properties compare the outputs with the schedule-free     *)
(* reference pairing of JURef.                                               *)
EXTENDS JoinBatch

CONSTANTS
    Inputs,     \* set of parent tuples to explore (model checking)
    Configs,    \* set of configurations [kind, edge, n, fill, tol, on, onof]
    MaxBarriers \* bound on barrier messages (model checking)

VARIABLES
    cfg, parents, idx, closed, finished, out,    \* as in Union.tla
    jg,       \* JoinNode.groups: group id -> [sets, head, oldest]
    jlow,     \* JoinNode.lowMarks: <<src, on-group>> -> rounded time
    jmatch,   \* JoinNode.matchGroupsBuffer: on-group -> queue of less specific points
    jspec,    \* JoinNode.specificGroupsBuffer: on-group -> queue of specific points
    jrep,     \* JoinNode.reported (allReported == jrep = Srcs)
    nbar      \* barrier messages so far

shared == <<cfg, parents, idx, closed, finished, out>>
jvars == <<shared, jg, jlow, jmatch, jspec, jrep, nbar>>

N == Len(parents)
Srcs == 1..N

RECURSIVE Flat(_, _)
Flat(f, n) == IF n = 0 THEN <<>> ELSE Flat(f, n - 1) \o f[n]

MsgOf(v) == CHOOSE m \in AllMsgs(parents) : m.v = v
RT(t) == Round(t, cfg.tol)

EmptySet == [s \in Srcs |-> 0]                       \* newJoinset: no values yet
NewGroup == [sets |-> [t \in {} |-> <<>>], head |-> [s \in Srcs |-> 0], oldest |-> 0]
Ready(js) == \A s \in Srcs : js[s] # 0               \* joinset.Ready

(* checkOnlyReadSets: some head is not after oldestTime *)
OnlyReady(g) == \E s \in Srcs : ~(g.head[s] > g.oldest)

(* emitJoinedSet: JoinIntoPoint returns nothing for an incomplete inner set;  *)
(* JoinIntoBatch always returns a batch (possibly without points).            *)
JoinedOut(gid, rt, js) ==
    IF cfg.edge = "batch"
    THEN LET sq == JoinIntoBatch([s \in Srcs |-> IF js[s] = 0 THEN [v |-> 0] ELSE MsgOf(js[s])], cfg)   \* JoinBatch.tla: the code's loop
         IN << [t |-> rt, g |-> gid, pts |-> Range(sq), seq |-> sq] >>
    ELSE IF cfg.fill = "none" /\ ~Ready(js) THEN <<>>
    ELSE << [t |-> rt, g |-> gid, vals |-> [s \in Srcs |-> IF js[s] = 0 THEN FillVal(cfg) ELSE js[s]]] >>

(* joinGroup.emit(onlyReadySets): emit the leading (ready | all) sets of the  *)
(* oldest time, recompute oldestTime, and recurse while nothing holds back.   *)
RECURSIVE Emit(_, _, _)
Emit(gid, g, onlyReady) ==
    IF DOMAIN g.sets = {} THEN [g |-> g, outs |-> <<>>]
    ELSE LET sets == g.sets[g.oldest]
             notReady == { k \in DOMAIN sets : ~Ready(sets[k]) }
             i == IF ~onlyReady \/ notReady = {} THEN Len(sets) ELSE MinOf(notReady) - 1
             outs == Flat([k \in 1..i |-> JoinedOut(gid, g.oldest, sets[k])], i)
             sets2 == IF i = Len(sets)
                      THEN [t \in DOMAIN g.sets \ {g.oldest} |-> g.sets[t]]
                      ELSE [g.sets EXCEPT ![g.oldest] = SubSeq(sets, i + 1, Len(sets))]
             g2 == [g EXCEPT !.sets = sets2,
                             !.oldest = IF DOMAIN sets2 = {} THEN 0 ELSE MinOf(DOMAIN sets2)]
         IN IF ~onlyReady
            THEN LET r == Emit(gid, g2, OnlyReady(g2)) IN [g |-> r.g, outs |-> outs \o r.outs]
            ELSE [g |-> g2, outs |-> outs]

(* joinGroup.Collect(src, p) *)
Collect(gid, g, s, v, rt) ==
    LET old == IF g.oldest = 0 \/ rt < g.oldest THEN rt ELSE g.oldest
        cur == IF rt \in DOMAIN g.sets THEN g.sets[rt] ELSE << EmptySet >>
        free == { k \in DOMAIN cur : cur[k][s] = 0 }
        cur2 == IF free = {} THEN Append(cur, [EmptySet EXCEPT ![s] = v])
                ELSE [cur EXCEPT ![MinOf(free)][s] = v]
        g1 == [sets |-> [t \in DOMAIN g.sets \cup {rt} |-> IF t = rt THEN cur2 ELSE g.sets[t]],
               head |-> [g.head EXCEPT ![s] = rt],
               oldest |-> old]
    IN Emit(gid, g1, OnlyReady(g1))

(* joinGroup.emitAll *)
RECURSIVE EmitAll(_, _)
EmitAll(gid, g) ==
    IF DOMAIN g.sets = {} THEN [g |-> g, outs |-> <<>>]
    ELSE LET r == Emit(gid, g, FALSE)
             r2 == EmitAll(gid, r.g)
         IN [g |-> r2.g, outs |-> r.outs \o r2.outs]

(* apply a list of Collect calls <<[gid, s, v, rt], ...>> to the group map *)
RECURSIVE Apply(_, _)
Apply(groups, calls) ==
    IF calls = <<>> THEN [groups |-> groups, outs |-> <<>>]
    ELSE LET c == Head(calls)
             g == IF c.gid \in DOMAIN groups THEN groups[c.gid] ELSE NewGroup
             r == Collect(c.gid, g, c.s, c.v, c.rt)
             gs == [x \in DOMAIN groups \cup {c.gid} |-> IF x = c.gid THEN r.g ELSE groups[x]]
             rest == Apply(gs, Tail(calls))
         IN [groups |-> rest.groups, outs |-> r.outs \o rest.outs]

---------------------------------------------------------------------------
(* join.on(): JoinNode.matchPoints.  p = [src, t, g, v].                      *)
Specific(g) == cfg.onof[g] # g
SendSpecific(sp) == << [gid |-> sp.g, s |-> sp.src, v |-> sp.v, rt |-> RT(sp.t)] >>
SendMatch(sp, mt) == << [gid |-> sp.g, s |-> sp.src, v |-> sp.v, rt |-> RT(sp.t)],
                        [gid |-> sp.g, s |-> mt.src, v |-> mt.v, rt |-> RT(mt.t)] >>
Buf(b, og) == IF og \in DOMAIN b THEN b[og] ELSE <<>>
SetBuf(b, og, q) == [x \in DOMAIN b \cup {og} |-> IF x = og THEN q ELSE b[x]]

(* "Determine lowMark, the oldest time per parent per group": the minimum of   *)
(* the parents' low marks for this on-group, or zero (= no bound yet, nothing  *)
(* is purged or sent alone) while some parent has not reported for the group.  *)
(* Before the fix (KNOWN_FINDINGS.txt, fixed: C12 lowmark) a zero entry was     *)
(* taken for "not set yet" and skipped unless it was the last parent's, so a    *)
(* specific point could be sent alone although its partner was still to come.   *)
LowMark(low, og) ==
    IF \A s \in Srcs : <<s, og>> \in DOMAIN low
    THEN MinOf({ low[<<s, og>>] : s \in Srcs }) ELSE 0

MatchPoints(p) ==   \* returns [low, match, spec, rep, calls]
    LET rep1 == jrep \cup {p.src}
        allRep == rep1 = Srcs
        t == RT(p.t)
        og == cfg.onof[p.g]
        low1 == [k \in DOMAIN jlow \cup {<<p.src, og>>} |-> IF k = <<p.src, og>> THEN t ELSE jlow[k]]
        lowMark == IF allRep THEN LowMark(low1, og) ELSE 0
        \* cached specific points that cannot match any more are sent alone
        sb0 == Buf(jspec, og)
        late == { k \in DOMAIN sb0 : ~(RT(sb0[k].t) < lowMark) }
        na == IF ~allRep THEN 0 ELSE IF late = {} THEN Len(sb0) ELSE MinOf(late) - 1
        callsA == Flat([k \in 1..na |-> SendSpecific(sb0[k])], na)
        sb1 == SubSeq(sb0, na + 1, Len(sb0))
        mb0 == Buf(jmatch, og)
    IN IF Specific(p.g)
       THEN LET stop == { k \in DOMAIN mb0 : ~(RT(mb0[k].t) < lowMark) }   \* the scan breaks AFTER looking at the first such entry
                b == IF stop = {} THEN Len(mb0) ELSE MinOf(stop)
                hits == { k \in 1..b : RT(mb0[k].t) = t }
                callsB == Flat([k \in 1..b |-> IF k \in hits THEN SendMatch(p, mb0[k]) ELSE <<>>], b)
                ndeq == IF stop = {} THEN Len(mb0) ELSE MinOf(stop) - 1
                mb1 == IF allRep THEN SubSeq(mb0, ndeq + 1, Len(mb0)) ELSE mb0
                alone == hits = {} /\ allRep /\ t < lowMark
                sb2 == IF hits = {} /\ ~alone THEN Append(sb1, p) ELSE sb1
            IN [low |-> low1, rep |-> rep1,
                match |-> IF og \in DOMAIN jmatch THEN SetBuf(jmatch, og, mb1) ELSE jmatch,
                spec |-> IF og \in DOMAIN jspec \/ sb2 # <<>> THEN SetBuf(jspec, og, sb2) ELSE jspec,
                calls |-> callsA \o callsB \o (IF alone THEN SendSpecific(p) ELSE <<>>)]
       ELSE LET differ == { k \in DOMAIN sb1 : RT(sb1[k].t) # t }
                ne == IF differ = {} THEN Len(sb1) ELSE MinOf(differ) - 1
                callsB == Flat([k \in 1..ne |-> SendMatch(sb1[k], p)], ne)
            IN [low |-> low1, rep |-> rep1,
                match |-> SetBuf(jmatch, og, Append(mb0, p)),
                spec |-> IF og \in DOMAIN jspec THEN SetBuf(jspec, og, SubSeq(sb1, ne + 1, Len(sb1))) ELSE jspec,
                calls |-> callsA \o callsB]

---------------------------------------------------------------------------
JInit ==
    /\ cfg \in Configs /\ parents \in Inputs
    /\ Len(parents) = cfg.n
    /\ (cfg.on => OnInputOK(parents, cfg))
    /\ idx = [s \in 1..cfg.n |-> 0]
    /\ closed = [s \in 1..cfg.n |-> FALSE]
    /\ finished = FALSE /\ out = <<>>
    /\ jg = [x \in {} |-> NewGroup]
    /\ jlow = [x \in {} |-> 0]
    /\ jmatch = [x \in {} |-> <<>>] /\ jspec = [x \in {} |-> <<>>]
    /\ jrep = {} /\ nbar = 0

(* JoinNode.Point / BufferedBatch(src, m) = doMessage *)
JDeliver(s) ==
    /\ ~closed[s] /\ idx[s] < Len(parents[s])
    /\ LET m == parents[s][idx[s] + 1]
       IN IF cfg.on
          THEN LET r == MatchPoints([src |-> s, t |-> m.t, g |-> m.g, v |-> m.v])
                   a == Apply(jg, r.calls)
               IN /\ jlow' = r.low /\ jmatch' = r.match /\ jspec' = r.spec /\ jrep' = r.rep
                  /\ jg' = a.groups /\ out' = out \o a.outs
          ELSE LET a == Apply(jg, << [gid |-> m.g, s |-> s, v |-> m.v, rt |-> RT(m.t)] >>)
               IN /\ jg' = a.groups /\ out' = out \o a.outs
                  /\ UNCHANGED <<jlow, jmatch, jspec, jrep>>
    /\ idx' = [idx EXCEPT ![s] = @ + 1]
    /\ UNCHANGED <<cfg, parents, closed, finished, nbar>>

JClose(s) ==
    /\ ~closed[s] /\ idx[s] = Len(parents[s])
    /\ closed' = [closed EXCEPT ![s] = TRUE]
    /\ UNCHANGED <<cfg, parents, idx, finished, out, jg, jlow, jmatch, jspec, jrep, nbar>>

(* JoinNode.Finish: every group emits all its sets (Go map order: any order;   *)
(* the model takes one, the properties below do not depend on it).             *)
RECURSIVE FinishGroups(_, _)
FinishGroups(groups, todo) ==
    IF todo = {} THEN [groups |-> groups, outs |-> <<>>]
    ELSE LET gid == CHOOSE x \in todo : TRUE
             r == EmitAll(gid, groups[gid])
             rest == FinishGroups([groups EXCEPT ![gid] = r.g], todo \ {gid})
         IN [groups |-> rest.groups, outs |-> r.outs \o rest.outs]

(* Specific points still waiting in specificGroupsBuffer are first sent to     *)
(* their groups alone (before the fix - KNOWN_FINDINGS.txt, fixed: C12 flush -  *)
(* they were dropped, so an outer join.on lost its trailing unmatched points).  *)
RECURSIVE FlushSpec(_)
FlushSpec(todo) ==
    IF todo = {} THEN <<>>
    ELSE LET og == CHOOSE x \in todo : TRUE
         IN Flat([k \in DOMAIN jspec[og] |-> SendSpecific(jspec[og][k])], Len(jspec[og])) \o FlushSpec(todo \ {og})

JFinish ==
    /\ ~finished /\ \A s \in Srcs : closed[s]
    /\ LET a == Apply(jg, IF cfg.on THEN FlushSpec(DOMAIN jspec) ELSE <<>>)
           r == FinishGroups(a.groups, DOMAIN a.groups)
       IN /\ jg' = r.groups /\ out' = out \o a.outs \o r.outs
          /\ jspec' = [og \in DOMAIN jspec |-> <<>>]
    /\ finished' = TRUE
    /\ UNCHANGED <<cfg, parents, idx, closed, jlow, jmatch, jrep, nbar>>

(* JoinNode.Barrier(src, b) -> joinGroup.Barrier: parent s promises that it    *)
(* will send nothing older than tb in group gid any more (a barrier node        *)
(* upstream, e.g. barrier().idle()).  head[s] moves to the rounded barrier      *)
(* time and the group emits what that releases; oldestTime is NOT touched       *)
(* (before the fix - KNOWN_FINDINGS.txt, fixed: C12 barrier - it was set to     *)
(* the barrier time, no key of sets: nil dereference on the next emit).         *)
(* Truthful barriers only: tb lies between what s has sent and will send.       *)
JBarrier(s, gid, tb) ==
    /\ ~cfg.on /\ ~closed[s] /\ nbar < MaxBarriers
    /\ \A k \in DOMAIN parents[s] : parents[s][k].g = gid =>
            IF k <= idx[s] THEN parents[s][k].t <= tb ELSE tb <= parents[s][k].t
    /\ LET g == IF gid \in DOMAIN jg THEN jg[gid] ELSE NewGroup
           g1 == [g EXCEPT !.head[s] = RT(tb)]
           r == Emit(gid, g1, OnlyReady(g1))
       IN /\ jg' = [x \in DOMAIN jg \cup {gid} |-> IF x = gid THEN r.g ELSE jg[x]]
          /\ out' = out \o r.outs
    /\ nbar' = nbar + 1
    /\ UNCHANGED <<cfg, parents, idx, closed, finished, jlow, jmatch, jspec, jrep>>

JNext == \/ \E s \in Srcs : JDeliver(s) \/ JClose(s)
         \/ JFinish
         \/ \E s \in Srcs, gid \in GroupsOf(parents), tb \in 1..4 : JBarrier(s, gid, tb)
JSpec == JInit /\ [][JNext]_jvars

---------------------------------------------------------------------------
Ref == IF cfg.on THEN RefJoinOn(parents, cfg, cfg.onof) ELSE RefJoinStream(parents, cfg)

(* one joined point per k-th occurrence: at every moment everything emitted is *)
(* a reference pairing, and none is emitted twice                              *)
JoinPairing == NoDup(out) /\ Range(out) \subseteq Ref
(* the outputs at Finished are the same in every terminal state, namely the    *)
(* schedule-free reference; in particular everything buffered was flushed      *)
Confluence == finished => Range(out) = Ref
FlushOnClose == finished => \A gid \in DOMAIN jg : DOMAIN jg[gid].sets = {}
(* join.on only: the specific buffer holds nothing that still owes an output *)
FlushOnCloseOn == (finished /\ cfg.on) => \A og \in DOMAIN jspec : jspec[og] = <<>>
(* the code dereferences sets[oldestTime] unconditionally *)
OldestIsKey == \A gid \in DOMAIN jg :
    LET g == jg[gid] IN IF DOMAIN g.sets = {} THEN g.oldest = 0 ELSE g.oldest = MinOf(DOMAIN g.sets)
(* nothing is emitted before it was delivered *)
JoinCausal ==
    \A i \in DOMAIN out : \A s \in Srcs :
        out[i].vals[s] > 0 => \E k \in 1..idx[s] : parents[s][k].v = out[i].vals[s]
=============================================================================
