------------------------ MODULE CircularQueueTrace ------------------------
(* Trace specification for the exported kapacitor.CircularQueue (driver     *)
(* c12cq): every operation sequence is replayed through CircularQueue.tla   *)
(* and the API-level observables - Len and Peek(0..Len-1) after every       *)
(* operation - must be what the model computes.  head/tail are unexported,  *)
(* so verdict and drift level coincide here.                                *)
EXTENDS CircularQueue, TraceCommon

VARIABLE l
tvars == <<qvars, l>>

Ln == Trace[l]
IsEv(e) == l <= Len(Trace) /\ Ln.ev = e /\ l' = l + 1

TrInit == l = 1 /\ HWInit /\ New(0) /\ ops = 0

ObsOK == /\ Ln.len = len'
         /\ ~Ln.panic
         /\ Ln.items = [i \in 1..len' |-> Peek(i - 1)']

TrReset ==
    /\ IsEv("Reset")
    /\ LET r == NewRec(Ln.init)
       IN /\ data' = r.data /\ head' = r.head /\ tail' = r.tail /\ len' = r.len
          /\ ref' = r.ref /\ nextv' = r.nextv
    /\ ops' = 0
    /\ ObsOK

TrEnq == IsEv("Enq") /\ Ln.v = nextv /\ Enqueue /\ ops' = ops + 1 /\ ObsOK
TrDeq == IsEv("Deq") /\ Dequeue(Ln.n) /\ ops' = ops + 1 /\ ObsOK

TrNext == TrReset \/ TrEnq \/ TrDeq
TrSpec == TrInit /\ [][TrNext]_tvars

HW == HWMark(l)
Accepted == HWAccepted
=============================================================================
