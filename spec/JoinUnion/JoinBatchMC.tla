----------------------------- MODULE JoinBatchMC -----------------------------
(* JoinIntoBatch against the reference pairing, for EVERY assignment of point  *)
(* times to the member batches of one join set: per parent no batch, or a      *)
(* time-ordered sequence of at most MaxPts point times over 1..3 (gaps: a      *)
(* parent later than the others, a later parent earlier than an earlier one,   *)
(* duplicates), inner and outer, tolerance 0 and 2.                            *)
EXTENDS JoinBatch
CONSTANTS NParents, MaxPts
VARIABLES mem, bcfg

PSeqs == UNION { { s \in [1..k -> 1..3] : NonDecreasing(s) } : k \in 0..MaxPts }
Members == { [v |-> 0] } \cup { [v |-> 1, p |-> s] : s \in PSeqs }
BCfgs == { [fill |-> f, tol |-> t] : f \in {"none", "null", "num"}, t \in {0, 2} }

BInit == /\ mem \in [1..NParents -> Members]
         /\ bcfg \in BCfgs
BNext == UNCHANGED <<mem, bcfg>>
BSpec == BInit /\ [][BNext]_<<mem, bcfg>>

\* ids must differ per parent: v = parent index
Mem == [i \in 1..NParents |-> IF mem[i].v = 0 THEN mem[i] ELSE [v |-> i, p |-> mem[i].p]]
Out == JoinIntoBatch(Mem, bcfg)

(* one joined point per k-th occurrence per rounded point time, nothing else, nothing twice *)
BatchPairing == NoDup(Out) /\ Range(Out) = RefBatchPoints(Mem, bcfg)
(* and in time order *)
BatchOrdered == NonDecreasing([i \in DOMAIN Out |-> Out[i].t])
=============================================================================
