SPECIFICATION JSpec
CONSTANTS
    Inputs <- MCInputs2x3
    Configs <- MCConfigs2
INVARIANTS
    JoinPairing
    Confluence
    FlushOnClose
    OldestIsKey
    JoinCausal
CHECK_DEADLOCK FALSE
