SPECIFICATION JSpec
CONSTANTS
    Inputs <- MCInputsQuick
    Configs <- MCConfigsQuick
INVARIANTS
    JoinPairing
    Confluence
    FlushOnClose
    OldestIsKey
    JoinCausal
CHECK_DEADLOCK FALSE
