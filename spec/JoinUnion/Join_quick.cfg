SPECIFICATION JSpec
CONSTANTS
    MaxBarriers = 0
    Inputs <- MCInputsQuick
    Configs <- MCConfigsQuick
INVARIANTS
    JoinPairing
    Confluence
    FlushOnClose
    OldestIsKey
    JoinCausal
CHECK_DEADLOCK FALSE
