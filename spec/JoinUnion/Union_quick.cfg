SPECIFICATION USpec
CONSTANTS
    Inputs <- MCInputsQuick
    Configs <- MCConfigsBoth
INVARIANTS
    UnionExactlyOnceOrdered
    UnionFlushOnClose
    UnionCausal
CHECK_DEADLOCK FALSE
