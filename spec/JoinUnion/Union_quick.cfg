SPECIFICATION USpec
CONSTANTS
    Inputs <- MCInputs2x3
    Configs <- MCConfigs2
INVARIANTS
    UnionExactlyOnceOrdered
    UnionFlushOnClose
    UnionCausal
CHECK_DEADLOCK FALSE
