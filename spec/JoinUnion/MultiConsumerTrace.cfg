SPECIFICATION TrSpec
CONSTANTS
    MCInputs = {}
INVARIANTS
    ReassemblyPerParent
CONSTRAINT HW
POSTCONDITION Accepted
CHECK_DEADLOCK FALSE
