SPECIFICATION BSpec
CONSTANTS
    NParents = 3
    MaxPts = 2
INVARIANTS
    BatchPairing
    BatchOrdered
CHECK_DEADLOCK FALSE
