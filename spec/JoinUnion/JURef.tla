------------------------------- MODULE JURef -------------------------------
(* Schedule-free reference semantics of join and union (property C12):      *)
(* what the outputs must be, as a function of the parents' sequences and    *)
(* the node configuration only.  No arrival order appears anywhere here.    *)
(*                                                                          *)
(* A parent message is a record [t, g, v] (+ p for batches): time, group,   *)
(* unique positive id.  A configuration is [kind, edge, n, fill, tol, on].   *)
EXTENDS Integers, Sequences, FiniteSets, TLC

Range(s) == { s[i] : i \in DOMAIN s }
NoDup(s) == \A i, j \in DOMAIN s : i # j => s[i] # s[j]
MaxOf(S) == CHOOSE x \in S : \A y \in S : y <= x
MinOf(S) == CHOOSE x \in S : \A y \in S : x <= y
NonDecreasing(s) == \A i \in 1..Len(s)-1 : s[i] <= s[i+1]

(* time.Time.Round(tolerance): nearest multiple, halfway values round up;   *)
(* tolerance 0 leaves the time unchanged.  Model time k <-> epoch + k*unit   *)
(* with an epoch that is a multiple of every tolerance used.                 *)
Round(t, tol) == IF tol = 0 THEN t ELSE ((2 * t + tol) \div (2 * tol)) * tol

MaxLen(P) == MaxOf({ Len(P[s]) : s \in DOMAIN P })
AllMsgs(P) == UNION { Range(P[s]) : s \in DOMAIN P }
GroupsOf(P) == { m.g : m \in AllMsgs(P) }
RTimesOf(P, tol) == { Round(m.t, tol) : m \in AllMsgs(P) }

(* Value of a missing parent in an outer join: null is logged as -1, the    *)
(* numeric fill used by the drivers is 0 (ids are >= 1).                     *)
FillVal(cfg) == IF cfg.fill = "null" THEN -1 ELSE 0

(* ---------------- plain join: k-th occurrence pairing ------------------- *)
(* Occurrences of parent s in group g at rounded time rt, in parent order.   *)
Occ(P, s, g, rt, tol) == SelectSeq(P[s], LAMBDA m : m.g = g /\ Round(m.t, tol) = rt)

(* The k-th join set of (g, rt): per parent the k-th occurrence or nothing.  *)
NSets(P, g, rt, tol) == MaxOf({ Len(Occ(P, s, g, rt, tol)) : s \in DOMAIN P })
Complete(P, g, rt, tol, k) == \A s \in DOMAIN P : k <= Len(Occ(P, s, g, rt, tol))
ValsOf(P, cfg, g, rt, k) ==
    [s \in DOMAIN P |->
        LET o == Occ(P, s, g, rt, cfg.tol) IN IF k <= Len(o) THEN o[k].v ELSE FillVal(cfg)]

(* Set of joined points a stream join must have produced once all parents    *)
(* have ended: inner (fill none) = complete sets only, outer = every set.    *)
(* Every element is distinct because every set holds at least one unique id. *)
RefJoinStream(P, cfg) ==
    { [t |-> rt, g |-> g, vals |-> ValsOf(P, cfg, g, rt, k)] :
        <<g, rt, k>> \in { x \in GroupsOf(P) \X RTimesOf(P, cfg.tol) \X (1..MaxLen(P)) :
                            /\ x[3] <= NSets(P, x[1], x[2], cfg.tol)
                            /\ (cfg.fill = "none" => Complete(P, x[1], x[2], cfg.tol, x[3])) } }

(* ---------------- join.on(dim): one less specific parent (1) ------------- *)
(* onof maps a group to its on-group; a group is specific iff onof[g] # g.   *)
(* Documented use (pipeline/join.go, On): each point of the specific parent  *)
(* is joined with the point of the less specific parent that has the same    *)
(* on-dimensions and rounded time; with an outer fill a specific point       *)
(* without such a partner is emitted filled; a less specific point alone is  *)
(* never emitted (it has no specific group to belong to).  Inputs of this    *)
(* class have at most one message per (parent, group, rounded time).         *)
RefJoinOn(P, cfg, onof) ==
    LET matchAt(og, rt) == { m \in Range(P[1]) : m.g = og /\ Round(m.t, cfg.tol) = rt }
    IN { [t |-> Round(sp.t, cfg.tol), g |-> sp.g,
          vals |-> [s \in 1..2 |->
                      IF s = 2 THEN sp.v
                      ELSE LET ms == matchAt(onof[sp.g], Round(sp.t, cfg.tol))
                           IN IF ms = {} THEN FillVal(cfg) ELSE (CHOOSE m \in ms : TRUE).v]] :
         sp \in { m \in Range(P[2]) :
                    cfg.fill = "none" => matchAt(onof[m.g], Round(m.t, cfg.tol)) # {} } }

OnInputOK(P, cfg) ==
    \A s \in DOMAIN P : \A i, j \in DOMAIN P[s] :
        i # j => ~(P[s][i].g = P[s][j].g /\ Round(P[s][i].t, cfg.tol) = Round(P[s][j].t, cfg.tol))

(* ---------------- batch join: the same pairing, twice --------------------- *)
(* A batch WITHOUT points is still a message: it takes its parent's k-th slot   *)
(* at its tmax (so it pairs with the other parents' k-th batches), but it has   *)
(* no point to contribute - every joined point of that set lacks that parent,   *)
(* which an outer join fills (null / the number, one field per field name of    *)
(* the points that ARE there) and an inner join answers by emitting no point.   *)
(* Batches are paired like points (time = tmax); inside a joined batch the   *)
(* points of the member batches are paired by k-th occurrence per rounded    *)
(* point time.  Point ids are v*10+i.                                         *)
BPts(m) == [i \in DOMAIN m.p |-> [t |-> m.p[i], v |-> m.v * 10 + i]]
RefBatchPoints(members, cfg) ==   \* members: [1..n -> message or [v |-> 0]]
    LET n == Len(members)
        pts(s) == IF members[s].v = 0 THEN <<>> ELSE BPts(members[s])
        rts == { Round(pts(s)[i].t, cfg.tol) : <<s, i>> \in { x \in (1..n) \X (1..4) : x[2] <= Len(pts(x[1])) } }
        occ(s, rt) == SelectSeq(pts(s), LAMBDA q : Round(q.t, cfg.tol) = rt)
        ns(rt) == MaxOf({ Len(occ(s, rt)) : s \in 1..n })
    IN { [t |-> rt, vals |-> [s \in 1..n |-> IF k <= Len(occ(s, rt)) THEN occ(s, rt)[k].v ELSE FillVal(cfg)]] :
           <<rt, k>> \in { x \in rts \X (1..4) :
                            /\ x[2] <= ns(x[1])
                            /\ (cfg.fill = "none" => \A s \in 1..n : x[2] <= Len(occ(s, x[1]))) } }

RefJoinBatch(P, cfg) ==
    { [t |-> rt, g |-> g,
       pts |-> RefBatchPoints([s \in DOMAIN P |->
                    LET o == Occ(P, s, g, rt, cfg.tol) IN IF k <= Len(o) THEN o[k] ELSE [v |-> 0]], cfg)] :
        <<g, rt, k>> \in { x \in GroupsOf(P) \X RTimesOf(P, cfg.tol) \X (1..MaxLen(P)) :
                            x[3] <= NSets(P, x[1], x[2], cfg.tol) } }

(* ---------------- input alphabets for model checking ---------------------- *)
(* Every time-ordered sequence of at most maxLen messages over times T and     *)
(* groups G (duplicates and gaps included); ids are 10*parent + position.      *)
NonDecSeqs(T, n) == { s \in [1..n -> T] : NonDecreasing(s) }
TimeSeqs(T, maxLen) == UNION { NonDecSeqs(T, n) : n \in 0..maxLen }
MkParent(s, ts, gs) == [i \in DOMAIN ts |-> [t |-> ts[i], g |-> gs[i], v |-> s * 10 + i]]
ParentSeqs(s, T, G, maxLen) ==
    UNION { { MkParent(s, ts, gs) : gs \in [DOMAIN ts -> G] } : ts \in TimeSeqs(T, maxLen) }
InputsOf(n, T, G, maxLen) ==
    IF n = 2 THEN { <<a, b>> : a \in ParentSeqs(1, T, G, maxLen), b \in ParentSeqs(2, T, G, maxLen) }
    ELSE { <<a, b, c>> : a \in ParentSeqs(1, T, G, maxLen), b \in ParentSeqs(2, T, G, maxLen),
                         c \in ParentSeqs(3, T, G, maxLen) }

(* ---------------- union --------------------------------------------------- *)
(* out: sequence of parent messages (records with src).  Promises: every      *)
(* output is a parent message, none twice, each parent's messages in that      *)
(* parent's order (so the outputs of parent s are a PREFIX of its sequence),   *)
(* non-decreasing time overall.                                                *)
OutOfParent(out, s) == SelectSeq(out, LAMBDA m : m.src = s)
UnionSafe(P, out) ==
    /\ NonDecreasing([i \in DOMAIN out |-> out[i].t])
    /\ \A s \in DOMAIN P :
         LET o == OutOfParent(out, s)
         IN /\ Len(o) <= Len(P[s])
            /\ \A i \in DOMAIN o : o[i].v = P[s][i].v /\ o[i].t = P[s][i].t /\ o[i].g = P[s][i].g
    /\ \A i \in DOMAIN out : out[i].src \in DOMAIN P
UnionComplete(P, out) ==
    \A s \in DOMAIN P : Len(OutOfParent(out, s)) = Len(P[s])
=============================================================================
