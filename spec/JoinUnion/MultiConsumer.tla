---------------------------- MODULE MultiConsumer ----------------------------
(* edge/consumer.go multiConsumer at MESSAGE granularity.  Every parent edge  *)
(* has its own reader goroutine (readEdge); a batch parent may send a batch   *)
(* either whole (BufferedBatchMessage) or as the unbuffered sequence          *)
(* begin, point*, end (what where/eval/shift/... nodes forward).  The reader  *)
(* reassembles such a sequence in ITS OWN BatchBuffer and hands the buffered  *)
(* batch to the single receiver (the join/union node) at the end message, so  *)
(* the sequences of different parents may interleave message by message -     *)
(* Take(s) for any parent s - without ever mixing.                            *)
(*                                                                            *)
(* A batch is [name, t, g, pts] with pts a sequence of [t, v].                *)
EXTENDS Integers, Sequences, FiniteSets, TLC

CONSTANTS MCInputs    \* set of parent tuples (each parent: a sequence of batches) to explore

VARIABLES
    mparents,   \* chosen once
    mpos,       \* mpos[s]: messages of parent s taken off its edge so far
    rbuf,       \* rbuf[s]: the BatchBuffer of reader s ([open |-> FALSE] when no batch is open)
    recv,       \* calls the receiver has got: <<[src, name, t, g, pts], ...>>
    mclosed, mfinished

mvars == <<mparents, mpos, rbuf, recv, mclosed, mfinished>>

MSrcs == DOMAIN mparents

RECURSIVE FlatMsgs(_)
(* the unbuffered message sequence of a sequence of batches *)
FlatMsgs(bs) ==
    IF bs = <<>> THEN <<>>
    ELSE LET b == Head(bs)
         IN << [k |-> "begin", name |-> b.name, t |-> b.t, g |-> b.g] >>
            \o [i \in DOMAIN b.pts |-> [k |-> "point", t |-> b.pts[i].t, v |-> b.pts[i].v]]
            \o << [k |-> "end"] >>
            \o FlatMsgs(Tail(bs))

NoBuf == [open |-> FALSE]

MInit ==
    /\ mparents \in MCInputs
    /\ mpos = [s \in DOMAIN mparents |-> 0]
    /\ rbuf = [s \in DOMAIN mparents |-> NoBuf]
    /\ recv = <<>>
    /\ mclosed = [s \in DOMAIN mparents |-> FALSE]
    /\ mfinished = FALSE

(* reader s takes its next message off edge s and handles it completely:     *)
(* BatchBuffer.BeginBatch / BatchPoint, or - at the end message - the          *)
(* rendezvous with the consumer loop and the receiver's BufferedBatch(s, b)    *)
Take(s) ==
    /\ ~mclosed[s]
    /\ mpos[s] < Len(FlatMsgs(mparents[s]))
    /\ LET m == FlatMsgs(mparents[s])[mpos[s] + 1]
       IN CASE m.k = "begin" ->
                 /\ rbuf' = [rbuf EXCEPT ![s] = [open |-> TRUE, name |-> m.name, t |-> m.t, g |-> m.g, pts |-> <<>>]]
                 /\ recv' = recv
            [] m.k = "point" ->
                 /\ rbuf' = [rbuf EXCEPT ![s].pts = Append(@, [t |-> m.t, v |-> m.v])]
                 /\ recv' = recv
            [] m.k = "end" ->
                 /\ recv' = Append(recv, [src |-> s, name |-> rbuf[s].name, t |-> rbuf[s].t, g |-> rbuf[s].g, pts |-> rbuf[s].pts])
                 /\ rbuf' = [rbuf EXCEPT ![s] = NoBuf]
    /\ mpos' = [mpos EXCEPT ![s] = @ + 1]
    /\ UNCHANGED <<mparents, mclosed, mfinished>>

MClose(s) ==
    /\ ~mclosed[s] /\ mpos[s] = Len(FlatMsgs(mparents[s]))
    /\ mclosed' = [mclosed EXCEPT ![s] = TRUE]
    /\ UNCHANGED <<mparents, mpos, rbuf, recv, mfinished>>

(* every reader has returned: the consumer calls Finish() exactly once *)
MFinish ==
    /\ ~mfinished /\ \A s \in MSrcs : mclosed[s]
    /\ mfinished' = TRUE
    /\ UNCHANGED <<mparents, mpos, rbuf, recv, mclosed>>

MNext == (\E s \in MSrcs : Take(s) \/ MClose(s)) \/ MFinish
MSpec == MInit /\ [][MNext]_mvars

---------------------------------------------------------------------------
RecvOf(r, s) == SelectSeq(r, LAMBDA c : c.src = s)
Strip(c) == [name |-> c.name, t |-> c.t, g |-> c.g, pts |-> c.pts]
(* what the receiver got from parent s is a prefix of parent s's batches,     *)
(* unchanged, in order, attributed to s - whatever the interleaving            *)
PerParentOK(P, r) ==
    /\ \A i \in DOMAIN r : r[i].src \in DOMAIN P
    /\ \A s \in DOMAIN P :
         LET o == RecvOf(r, s)
         IN /\ Len(o) <= Len(P[s])
            /\ \A i \in DOMAIN o : Strip(o[i]) = P[s][i]
AllDelivered(P, r) == \A s \in DOMAIN P : Len(RecvOf(r, s)) = Len(P[s])

ReassemblyPerParent == PerParentOK(mparents, recv)
FinishAfterAll == mfinished => AllDelivered(mparents, recv)
=============================================================================
