------------------------------ MODULE JoinBatch ------------------------------
(* joinset.JoinIntoBatch (join.go) with the code's own loop: per member batch  *)
(* a cursor (indexes[i]) and an exhausted flag (empty[i]); every round builds   *)
(* one joined point from the members whose next point has the smallest rounded   *)
(* time seen so far in parent order - when a later parent turns out to be        *)
(* EARLIER than the time the round started with, the round "backs up": the       *)
(* parents that already contributed (and only those) are rewound and the round    *)
(* restarts at the earlier time.  Parents whose next point is later than the      *)
(* round's time are skipped without being consumed.                               *)
(* A member batch may be PRESENT BUT EMPTY (p = <<>>: begin/end without points,  *)
(* e.g. an upstream where dropped everything): it is exhausted at once and its     *)
(* parent is missing from every joined point exactly like a parent without a batch *)
(* - filled in an outer join, fatal for the point in an inner join.                *)
(* Field names for filling (fieldNames): copied from the FIRST POINT MATCHED, i.e.  *)
(* the first point of the lowest-index member that has a point at all - not from    *)
(* js.First(), which may be an empty batch.  fn = 0 while no names are known; a     *)
(* point joined then would lack the filled fields (logged as -2).  The first point  *)
(* a round looks at always takes the "equal" branch, so names are known before      *)
(* anything is emitted (BatchPairing proves it).                                    *)
(* members: [1..n -> batch message [v, p] or [v |-> 0] (no batch from that parent)] *)
(* Result: the sequence of joined points [t, vals] in emission order.             *)
EXTENDS JURef

BNil == [v |-> 0]     \* set[i] == nil

(* one pass "for i, batch := range js.values" starting at parent i; st = [idx, empty, set, setTime, count] *)
RECURSIVE BRound(_, _, _, _)
BRound(members, cfg, i, st) ==
    IF i > Len(members) THEN st
    ELSE
    LET pts == IF members[i].v = 0 THEN <<>> ELSE BPts(members[i])
    IN IF st.empty[i] THEN BRound(members, cfg, i + 1, st)
       ELSE IF members[i].v = 0 \/ st.idx[i] = Len(pts)
       THEN BRound(members, cfg, i + 1, [st EXCEPT !.empty[i] = TRUE])
       ELSE
       LET bp == pts[st.idx[i] + 1]
           t == Round(bp.t, cfg.tol)
           st0 == IF st.setTime = 0 THEN [st EXCEPT !.setTime = t] ELSE st
       IN IF t < st0.setTime
          THEN \* back up: rewind exactly the parents that are in the set
               BRound(members, cfg, i + 1,
                      [st0 EXCEPT !.setTime = t,
                                  !.idx = [j \in DOMAIN st0.idx |->
                                             IF j = i THEN st0.idx[j] + 1
                                             ELSE IF st0.set[j] # BNil THEN st0.idx[j] - 1 ELSE st0.idx[j]],
                                  !.set = [j \in DOMAIN st0.set |-> IF j = i THEN bp ELSE BNil],
                                  !.count = 1])
          ELSE IF t = st0.setTime
          THEN BRound(members, cfg, i + 1,
                      [st0 EXCEPT !.idx[i] = @ + 1, !.set[i] = bp, !.count = @ + 1,
                                  !.fn = IF @ = 0 THEN i ELSE @])
          ELSE BRound(members, cfg, i + 1, st0)      \* later than this round's time: not consumed

NoNames == -2     \* a filled field that is not there at all

RECURSIVE BLoop(_, _, _, _, _, _)
BLoop(members, cfg, idx, empty, fn, fuel) ==
    LET n == Len(members)
    IN IF Cardinality({ i \in 1..n : empty[i] }) = n \/ fuel = 0 THEN <<>>
       ELSE LET st == BRound(members, cfg, 1,
                             [idx |-> idx, empty |-> empty, set |-> [i \in 1..n |-> BNil], setTime |-> 0, count |-> 0, fn |-> fn])
                complete == \A i \in 1..n : st.set[i] # BNil
                point == [t |-> st.setTime,
                          vals |-> [i \in 1..n |-> IF st.set[i] # BNil THEN st.set[i].v
                                                   ELSE IF st.fn = 0 THEN NoNames ELSE FillVal(cfg)]]
                here == IF st.count = 0 \/ (cfg.fill = "none" /\ ~complete) THEN <<>> ELSE << point >>
            IN here \o BLoop(members, cfg, st.idx, st.empty, st.fn, fuel - 1)

JoinIntoBatch(members, cfg) ==
    LET n == Len(members)
        total == Len(members) + Cardinality({ <<i, k>> \in (1..n) \X (1..8) : members[i].v # 0 /\ k <= Len(members[i].p) })
    IN BLoop(members, cfg, [i \in 1..n |-> 0], [i \in 1..n |-> FALSE], 0, 2 * total + 2)
=============================================================================
