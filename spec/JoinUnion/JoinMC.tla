------------------------------- MODULE JoinMC -------------------------------
EXTENDS Join
T3 == 1..3
G1 == {"x"}
G2 == {"x", "y"}
Id1 == [x |-> "x", y |-> "y"]
JCfg(n, fill, tol) == [kind |-> "join", edge |-> "stream", n |-> n, fill |-> fill, tol |-> tol, on |-> FALSE, onof |-> Id1]
Fills == {"none", "null", "num"}
Tols == {0, 2}
MCConfigs2 == { JCfg(2, f, t) : f \in Fills, t \in Tols }
MCConfigs3 == { JCfg(3, f, t) : f \in Fills, t \in Tols }
MCConfigs3q == { JCfg(3, f, 0) : f \in {"none", "null"} }
MCInputs2x3 == InputsOf(2, T3, G1, 3)
MCInputs2x2g == InputsOf(2, T3, G2, 2)
MCInputs3x2 == InputsOf(3, T3, G1, 2)
MCInputs3x3 == InputsOf(3, T3, G1, 3)
\* one run for both arities: JInit keeps the pairs with Len(parents) = cfg.n
MCConfigsQuick == MCConfigs2 \cup MCConfigs3q
MCInputsQuick == MCInputs2x3 \cup MCInputs3x2
MCConfigs3t == { JCfg(3, f, t) : f \in {"none", "null"}, t \in Tols }
MCConfigsThorough == MCConfigs2 \cup MCConfigs3t
MCInputsThorough == MCInputs2x3 \cup MCInputs3x3 \cup MCInputs2x2g

MCInputs2x2 == InputsOf(2, T3, G1, 2)
MCConfigsBar == { JCfg(2, f, t) : f \in {"none", "null"}, t \in Tols }

\* join.on('b'): parent 1 grouped by b (groups x, y), parent 2 by b,f (x1, x2, y1)
OnOf == [x |-> "x", y |-> "y", x1 |-> "x", x2 |-> "x", y1 |-> "y"]
OCfg(fill, tol) == [kind |-> "join", edge |-> "stream", n |-> 2, fill |-> fill, tol |-> tol, on |-> TRUE, onof |-> OnOf]
MCConfigsOn == { OCfg(f, t) : f \in Fills, t \in Tols }
MCConfigsOnQ == { OCfg(f, t) : f \in {"none", "null"}, t \in Tols }
MCInputsOn(k) == { <<a, b>> : a \in ParentSeqs(1, T3, {"x", "y"}, k), b \in ParentSeqs(2, T3, {"x1", "x2", "y1"}, k) }
MCInputsOn2 == MCInputsOn(2)
MCInputsOn3 == MCInputsOn(3)
=============================================================================
