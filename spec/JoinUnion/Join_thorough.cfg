SPECIFICATION JSpec
CONSTANTS
    MaxBarriers = 0
    Inputs <- MCInputsThorough
    Configs <- MCConfigsThorough
INVARIANTS
    JoinPairing
    Confluence
    FlushOnClose
    OldestIsKey
    JoinCausal
CHECK_DEADLOCK FALSE
