SPECIFICATION JSpec
CONSTANTS
    Inputs <- MCInputs3x3
    Configs <- MCConfigs3
INVARIANTS
    JoinPairing
    Confluence
    FlushOnClose
    OldestIsKey
    JoinCausal
CHECK_DEADLOCK FALSE
