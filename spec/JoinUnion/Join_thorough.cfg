SPECIFICATION JSpec
CONSTANTS
    Inputs <- MCInputsThorough
    Configs <- MCConfigsThorough
INVARIANTS
    JoinPairing
    Confluence
    FlushOnClose
    OldestIsKey
    JoinCausal
CHECK_DEADLOCK FALSE
