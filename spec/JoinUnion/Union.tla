------------------------------- MODULE Union -------------------------------
(* UnionNode (union.go) under the multi-consumer (edge/consumer.go): one    *)
(* reader per parent hands messages to a single receiver, so the arrival     *)
(* order is a scheduling choice - here: which parent Deliver picks next.     *)
(* State = the code's: per-source queues (CircularQueue, abstracted to a     *)
(* sequence - see CircularQueue.tla) and lowMarks; emitReady(drain) is the   *)
(* code's loop.  Time 0 plays the zero time.Time.                            *)
EXTENDS JURef

CONSTANTS
    Inputs,     \* set of parent tuples to explore (model checking)
    Configs     \* set of configurations [kind, edge, n, fill, tol, on]

VARIABLES
    cfg, parents,   \* chosen once
    idx,            \* idx[s]: messages of parent s delivered so far
    closed,         \* closed[s]: parent s has ended
    finished,       \* Finish() has run
    out,            \* everything forwarded to the child, in order
    uq, ulow        \* UnionNode.sources / UnionNode.lowMarks

shared == <<cfg, parents, idx, closed, finished, out>>
uvars == <<shared, uq, ulow>>

N == Len(parents)
Srcs == 1..N

RECURSIVE Flat(_, _)
Flat(f, n) == IF n = 0 THEN <<>> ELSE Flat(f, n - 1) \o f[n]

(* number of leading elements of q with time <= mark (the code breaks at the first later one) *)
LeadLE(q, mark) ==
    LET bad == { j \in DOMAIN q : q[j].t > mark }
    IN IF bad = {} THEN Len(q) ELSE MinOf(bad) - 1

(* emitReady(drain): returns the new queues, lowMarks and the emitted messages *)
RECURSIVE EmitReady(_, _, _)
EmitReady(q, lm, drain) ==
    LET n == Len(q)
        lm1 == [i \in 1..n |-> IF Len(q[i]) > 0 THEN q[i][1].t ELSE lm[i]]
        cand == IF drain THEN { q[i][1].t : i \in { j \in 1..n : Len(q[j]) > 0 } }
                ELSE { lm1[i] : i \in { j \in 1..n : lm1[j] # 0 } }
        mark == IF cand = {} THEN 0 ELSE MinOf(cand)
        valid == Cardinality({ i \in 1..n : lm1[i] # 0 })
        cnt == [i \in 1..n |-> LeadLE(q[i], mark)]
        outs == Flat([i \in 1..n |-> SubSeq(q[i], 1, cnt[i])], n)
        q1 == [i \in 1..n |-> SubSeq(q[i], cnt[i] + 1, Len(q[i]))]
    IN IF (~drain /\ valid # n) \/ outs = <<>>
       THEN [q |-> q, lm |-> lm1, outs |-> <<>>]
       ELSE LET r == EmitReady(q1, lm1, drain)
            IN [q |-> r.q, lm |-> r.lm, outs |-> outs \o r.outs]

UInit ==
    /\ cfg \in Configs /\ parents \in Inputs
    /\ Len(parents) = cfg.n
    /\ idx = [s \in 1..cfg.n |-> 0]
    /\ closed = [s \in 1..cfg.n |-> FALSE]
    /\ finished = FALSE /\ out = <<>>
    /\ uq = [s \in 1..cfg.n |-> <<>>]
    /\ ulow = [s \in 1..cfg.n |-> 0]

(* UnionNode.Point / BufferedBatch(src, m): enqueue, emitReady(false) *)
UDeliver(s) ==
    /\ ~closed[s] /\ idx[s] < Len(parents[s])
    /\ LET m == parents[s][idx[s] + 1]
           e == [src |-> s, t |-> m.t, g |-> m.g, v |-> m.v]
           r == EmitReady([uq EXCEPT ![s] = Append(@, e)], ulow, FALSE)
       IN /\ uq' = r.q /\ ulow' = r.lm /\ out' = out \o r.outs
    /\ idx' = [idx EXCEPT ![s] = @ + 1]
    /\ UNCHANGED <<cfg, parents, closed, finished>>

(* a parent edge closes: its reader goroutine exits; nothing reaches the receiver *)
UClose(s) ==
    /\ ~closed[s] /\ idx[s] = Len(parents[s])
    /\ closed' = [closed EXCEPT ![s] = TRUE]
    /\ UNCHANGED <<cfg, parents, idx, finished, out, uq, ulow>>

(* all readers done: multiConsumer calls Finish() = emitReady(true) *)
UFinish ==
    /\ ~finished /\ \A s \in Srcs : closed[s]
    /\ LET r == EmitReady(uq, ulow, TRUE)
       IN /\ uq' = r.q /\ ulow' = r.lm /\ out' = out \o r.outs
    /\ finished' = TRUE
    /\ UNCHANGED <<cfg, parents, idx, closed>>

UNext == (\E s \in Srcs : UDeliver(s) \/ UClose(s)) \/ UFinish
USpec == UInit /\ [][UNext]_uvars

---------------------------------------------------------------------------
(* every parent message exactly once, each parent's order kept, non-decreasing time overall *)
UnionExactlyOnceOrdered == UnionSafe(parents, out)
(* when the parents have ended everything still buffered has been flushed *)
UnionFlushOnClose == finished => UnionComplete(parents, out) /\ \A s \in Srcs : uq[s] = <<>>
(* nothing is emitted that was not delivered *)
UnionCausal == \A s \in Srcs : Len(OutOfParent(out, s)) + Len(uq[s]) = idx[s]
=============================================================================
