SPECIFICATION JSpec
CONSTANTS
    MaxBarriers = 3
    Inputs <- MCInputs2x3
    Configs <- MCConfigsBar
INVARIANTS
    JoinPairing
    Confluence
    FlushOnClose
    OldestIsKey
    JoinCausal
CHECK_DEADLOCK FALSE
