--------------------------- MODULE JoinUnionTrace ---------------------------
(* Trace specification for real join/union tasks (driver c12).  A trace is   *)
(*   Reset{cfg, parents}  Deliver{src, k, out}*  Close{src}*  Finish{out}    *)
(* where the driver forced the arrival order: it delivered message k of      *)
(* parent src to the real node, waited until the node had finished it, and   *)
(* logged what reached the sink below the node during that step.             *)
(*                                                                           *)
(* Two levels (DESIGN.md 2.1):                                               *)
(*   VSpec  verdict level - the outputs against the schedule-free reference  *)
(*          of JURef (multiset of joined points; union exactly-once, parent   *)
(*          order, non-decreasing time; nothing before it was delivered;      *)
(*          everything flushed at Finish).  A rejection is a violation.       *)
(*   ISpec  drift level - the same trace stepped through the code-shaped      *)
(*          models Join.tla / Union.tla, comparing the outputs of every step. *)
(*          A rejection means the models no longer mirror the code.           *)
EXTENDS JURef, TraceCommon

VARIABLES cfg, parents, idx, closed, finished, out,
          jg, jlow, jmatch, jspec, jrep, nbar, uq, ulow, l

J == INSTANCE Join WITH Inputs <- {}, Configs <- {}, MaxBarriers <- 0
U == INSTANCE Union WITH Inputs <- {}, Configs <- {}

implvars == <<jg, jlow, jmatch, jspec, jrep, nbar, uq, ulow>>
tvars == <<cfg, parents, idx, closed, finished, out, implvars, l>>

Ln == Trace[l]
IsEv(e) == l <= Len(Trace) /\ Ln.ev = e /\ l' = l + 1

ParentName == <<"a", "b", "c">>

(* ---------- decoding of logged sink messages ---------- *)
GidInv(rg) == IF \E g \in DOMAIN cfg.gid : cfg.gid[g] = rg
              THEN CHOOSE g \in DOMAIN cfg.gid : cfg.gid[g] = rg ELSE "?"
SrcOfId(P, v) == IF \E s \in DOMAIN P : \E k \in DOMAIN P[s] : P[s][k].v = v
                 THEN CHOOSE s \in DOMAIN P : \E k \in DOMAIN P[s] : P[s][k].v = v ELSE 0
DecJoinS(o) == [t |-> o.t, g |-> GidInv(o.g), vals |-> o.vals]
DecJoinB(o) == [t |-> o.t, g |-> GidInv(o.g), pts |-> { [t |-> q.t, vals |-> q.vals] : q \in Range(o.pts) }]
(* drift level: also the order of the points inside the joined batch (JoinBatch.tla) *)
DecJoinBI(o) == [t |-> o.t, g |-> GidInv(o.g), pts |-> { [t |-> q.t, vals |-> q.vals] : q \in Range(o.pts) },
                 seq |-> [i \in DOMAIN o.pts |-> [t |-> o.pts[i].t, vals |-> o.pts[i].vals]]]
DecUnion(P, o) == [src |-> SrcOfId(P, o.v), t |-> o.t, g |-> GidInv(o.g), v |-> o.v]
Dec(P, o) == IF cfg.kind = "union" THEN DecUnion(P, o)
             ELSE IF cfg.edge = "batch" THEN DecJoinB(o) ELSE DecJoinS(o)
DecAll(P, os) == [i \in DOMAIN os |-> Dec(P, os[i])]

(* what the log line itself must satisfy, beyond the decoded value *)
LineOK(P, o) ==
    IF cfg.kind = "union"
    THEN LET s == SrcOfId(P, o.v)
         IN IF s = 0 THEN TRUE    \* rejected by UnionSafe
            ELSE /\ o.name = ParentName[s]          \* a union passes messages through unmodified
                 /\ (cfg.edge = "batch" =>
                       LET m == CHOOSE x \in Range(P[s]) : x.v = o.v
                       IN [i \in DOMAIN o.pts |-> <<o.pts[i].t, o.pts[i].v>>] = [i \in DOMAIN m.p |-> <<m.p[i], m.v * 10 + i>>])
    ELSE /\ (cfg.edge = "stream" => (o.vals[1] > 0 => o.name = "a") /\ o.nf = cfg.n)   \* name of the left parent; one field per parent
         /\ (cfg.edge = "batch" => /\ NoDup(o.pts)
                                    /\ \A i \in DOMAIN o.pts : o.pts[i].nf = cfg.n)   \* every joined point: one field per parent, filled or not

(* ---------- the reference and the verdict predicates ---------- *)
NonEmptyB(S) == { b \in S : b.pts # {} }
RefSet(P) ==
    IF cfg.edge = "batch" THEN NonEmptyB(RefJoinBatch(P, cfg))
    ELSE IF cfg.on THEN RefJoinOn(P, cfg, cfg.onof) ELSE RefJoinStream(P, cfg)

Delivered(P, ix, s) == { P[s][k].v : k \in 1..ix[s] }
IdsOf(o) == IF cfg.edge = "batch"
            THEN { <<s, q.vals[s] \div 10>> : <<s, q>> \in { x \in (1..cfg.n) \X o.pts : x[2].vals[x[1]] > 0 } }
            ELSE { <<s, o.vals[s]>> : s \in { x \in 1..cfg.n : o.vals[x] > 0 } }
JoinOuts(os) == IF cfg.edge = "batch" THEN SelectSeq(os, LAMBDA b : b.pts # {}) ELSE os

VSafe(P, ix, os) ==
    IF cfg.kind = "union"
    THEN /\ UnionSafe(P, os)
         /\ \A s \in DOMAIN P : Len(OutOfParent(os, s)) <= ix[s]
    ELSE /\ NoDup(JoinOuts(os))
         /\ Range(JoinOuts(os)) \subseteq RefSet(P)
         /\ \A i \in DOMAIN os : \A sv \in IdsOf(os[i]) : sv[2] \in Delivered(P, ix, sv[1])
VComplete(P, os) ==
    IF cfg.kind = "union" THEN UnionComplete(P, os)
    ELSE Range(JoinOuts(os)) = RefSet(P)

(* ---------- common steps ---------- *)
CfgOf(r) == [kind |-> r.kind, edge |-> r.flow, n |-> r.n, fill |-> r.fill, tol |-> r.tol, on |-> r.on,
             onof |-> r.onof, gid |-> r.gid]
Zero(n) == [s \in 1..n |-> 0]

ResetShared(P) ==
    /\ cfg' = CfgOf(Ln) /\ parents' = P
    /\ idx' = Zero(Ln.n) /\ closed' = [s \in 1..Ln.n |-> FALSE]
    /\ finished' = FALSE /\ out' = <<>>
ResetImpl ==
    /\ jg' = [x \in {} |-> 0] /\ jlow' = [x \in {} |-> 0]
    /\ jmatch' = [x \in {} |-> <<>>] /\ jspec' = [x \in {} |-> <<>>] /\ jrep' = {} /\ nbar' = 0
    /\ uq' = [s \in 1..Ln.n |-> <<>>] /\ ulow' = Zero(Ln.n)

TrInit ==
    /\ l = 1 /\ HWInit
    /\ cfg = [kind |-> "none"] /\ parents = <<>> /\ idx = <<>> /\ closed = <<>>
    /\ finished = TRUE /\ out = <<>>
    /\ jg = <<>> /\ jlow = <<>> /\ jmatch = <<>> /\ jspec = <<>> /\ jrep = {} /\ nbar = 0
    /\ uq = <<>> /\ ulow = <<>>

(* ================= verdict level ================= *)
VReset == IsEv("Reset") /\ ResetShared(Ln.parents) /\ ResetImpl

VDeliver ==
    /\ IsEv("Deliver") /\ ~finished
    /\ LET s == Ln.src + 1
           ix == [idx EXCEPT ![s] = @ + 1]
           os == out \o DecAll(parents, Ln.out)
       IN /\ Ln.k = idx[s] + 1 /\ Ln.k <= Len(parents[s])
          /\ \A i \in DOMAIN Ln.out : LineOK(parents, Ln.out[i])
          /\ VSafe(parents, ix, os)
          /\ idx' = ix /\ out' = os
    /\ UNCHANGED <<cfg, parents, closed, finished, implvars>>

VClose ==
    /\ IsEv("Close") /\ ~finished
    /\ closed' = [closed EXCEPT ![Ln.src + 1] = TRUE]
    /\ UNCHANGED <<cfg, parents, idx, finished, out, implvars>>

(* end of every parent: all messages were delivered, the node did not fail,  *)
(* and with what the stop flushed the outputs are exactly the reference      *)
VFinish ==
    /\ IsEv("Finish") /\ ~finished
    /\ ~Ln.failed
    /\ \A s \in DOMAIN parents : idx[s] = Len(parents[s])
    /\ LET os == out \o DecAll(parents, Ln.out)
       IN /\ \A i \in DOMAIN Ln.out : LineOK(parents, Ln.out[i])
          /\ VSafe(parents, idx, os)
          /\ VComplete(parents, os)
          /\ out' = os
    /\ finished' = TRUE
    /\ UNCHANGED <<cfg, parents, idx, closed, implvars>>

(* a pause of the driver during which wall-clock driven barrier nodes upstream  *)
(* (barrier().idle) may have sent barriers: whatever that released must still   *)
(* be a reference pairing                                                        *)
VSleep ==
    /\ IsEv("Sleep") /\ ~finished
    /\ LET os == out \o DecAll(parents, Ln.out)
       IN /\ \A i \in DOMAIN Ln.out : LineOK(parents, Ln.out[i])
          /\ VSafe(parents, idx, os)
          /\ out' = os
    /\ UNCHANGED <<cfg, parents, idx, closed, finished, implvars>>

(* gated streamed batch parents (driver: gate.go): the reader of parent src has  *)
(* handled one begin/point message of a batch it is reassembling - nothing can   *)
(* reach the node, so nothing may come out of it (reader-side reassembly itself   *)
(* is modelled in MultiConsumer.tla)                                              *)
VPart ==
    /\ IsEv("Part") /\ ~finished
    /\ Ln.out = <<>>
    /\ UNCHANGED <<cfg, parents, idx, closed, finished, out, implvars>>

(* Dropped{src, k, evidence}: the driver found message k of parent src taken off *)
(* its edge, nothing in flight anywhere, and the node never handed it (driver:    *)
(* dropped.go).  NO action accepts that line: every parent message - an empty     *)
(* batch too, it takes its parent's slot (JURef) - reaches the node exactly once. *)
VNext == VReset \/ VDeliver \/ VClose \/ VSleep \/ VPart \/ VFinish
VSpec == TrInit /\ [][VNext]_tvars

(* ================= drift level ================= *)
(* a|union(b, c) links its parents in the order b, c, a (pipeline/node.go)    *)
ImplSrc(n, s) == IF cfg.kind = "union" THEN ((s + n - 2) % n) + 1 ELSE s
ImplSrcR(r, s) == IF r.kind = "union" THEN ((s + r.n - 2) % r.n) + 1 ELSE s
ImplParents(r) == [i \in 1..r.n |-> r.parents[CHOOSE s \in 1..r.n : ImplSrcR(r, s) = i]]

IReset == IsEv("Reset") /\ ResetShared(ImplParents(Ln)) /\ ResetImpl

NewOuts == SubSeq(out', Len(out) + 1, Len(out'))
(* join: the outputs of one step as a set (the order across groups at Finish is Go map order); *)
(* union: as a sequence of ids (the order is what the union is about)                          *)
SameOuts(logged) ==
    IF cfg.kind = "union"
    THEN [i \in DOMAIN NewOuts |-> NewOuts[i].v] = [i \in DOMAIN logged |-> logged[i].v]
    ELSE /\ Len(NewOuts) = Len(logged)
         /\ Range(NewOuts) = IF cfg.edge = "batch" THEN { DecJoinBI(logged[i]) : i \in DOMAIN logged }
                              ELSE Range(DecAll(parents, logged))

IDeliver ==
    /\ IsEv("Deliver")
    /\ LET s == ImplSrc(cfg.n, Ln.src + 1)
       IN /\ Ln.k = idx[s] + 1
          /\ IF cfg.kind = "union" THEN U!UDeliver(s) /\ UNCHANGED <<jg, jlow, jmatch, jspec, jrep, nbar>>
             ELSE J!JDeliver(s) /\ UNCHANGED <<uq, ulow>>
    /\ SameOuts(Ln.out)

IClose ==
    /\ IsEv("Close")
    /\ closed' = [closed EXCEPT ![ImplSrc(cfg.n, Ln.src + 1)] = TRUE]
    /\ UNCHANGED <<cfg, parents, idx, finished, out, implvars>>

IFinish ==
    /\ IsEv("Finish") /\ ~Ln.failed /\ ~finished
    /\ closed' = [s \in DOMAIN closed |-> TRUE]
    /\ finished' = TRUE
    /\ IF cfg.kind = "union"
       THEN LET r == U!EmitReady(uq, ulow, TRUE)
            IN uq' = r.q /\ ulow' = r.lm /\ out' = out \o r.outs /\ UNCHANGED <<jg, jlow, jmatch, jspec, jrep, nbar>>
       ELSE LET a == J!Apply(jg, IF cfg.on THEN J!FlushSpec(DOMAIN jspec) ELSE <<>>)
                r == J!FinishGroups(a.groups, DOMAIN a.groups)
            IN jg' = r.groups /\ out' = out \o a.outs \o r.outs /\ UNCHANGED <<jlow, jmatch, jspec, jrep, nbar, uq, ulow>>
    /\ SameOuts(Ln.out)
    /\ UNCHANGED <<cfg, parents, idx>>

IPart == IsEv("Part") /\ Ln.out = <<>> /\ UNCHANGED <<cfg, parents, idx, closed, finished, out, implvars>>

INext == IReset \/ IDeliver \/ IClose \/ IPart \/ IFinish
ISpec == TrInit /\ [][INext]_tvars

HW == HWMark(l)
Accepted == HWAccepted
=============================================================================
