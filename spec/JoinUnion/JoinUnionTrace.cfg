SPECIFICATION VSpec
CONSTRAINT HW
POSTCONDITION Accepted
CHECK_DEADLOCK FALSE
