--------------------------- MODULE MultiConsumerMC ---------------------------
EXTENDS MultiConsumer
\* batches of parent s: name = its letter, ids 100*s + 10*batch + point
Nm == <<"a", "b", "c">>
Mk(s, shape) == [j \in DOMAIN shape |->
    [name |-> Nm[s], t |-> j, g |-> "x", pts |-> [i \in 1..shape[j] |-> [t |-> j, v |-> 100 * s + 10 * j + i]]]]
Shapes2 == { <<1>>, <<2>>, <<0, 1>>, <<>> }     \* points per batch
Shapes3 == { <<1>>, <<0>>, <<>> }
MCIn2 == { <<Mk(1, x), Mk(2, y)>> : x \in Shapes2, y \in Shapes2 }
MCIn3 == { <<Mk(1, x), Mk(2, y), Mk(3, z)>> : x \in Shapes3, y \in Shapes3, z \in Shapes3 }
MCInAll == MCIn2 \cup MCIn3
ShapesT == { <<1>>, <<2>>, <<0, 1>>, <<1, 1>>, <<2, 1>>, <<1, 0, 1>>, <<>> }   \* the driver stops at <<2, 1>>
ShapesT3 == { <<1>>, <<0>>, <<2>>, <<0, 1>>, <<>> }
MCInThorough == { <<Mk(1, x), Mk(2, y)>> : x \in ShapesT, y \in ShapesT }
                \cup { <<Mk(1, x), Mk(2, y), Mk(3, z)>> : x \in ShapesT3, y \in ShapesT3, z \in ShapesT3 }
=============================================================================
