SPECIFICATION QSpec
CONSTANTS
    InitSizes = {0, 1, 3, 4, 5, 7}
    MaxOps = 14
    DeqArgs = {0, 1, 2, 3, 5, 100}
INVARIANTS
    TypeOK
    QueueIsFifo
CHECK_DEADLOCK FALSE
