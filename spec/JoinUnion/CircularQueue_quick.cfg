SPECIFICATION QSpec
CONSTANTS
    InitSizes = {0, 1, 4, 5}
    MaxOps = 9
    DeqArgs = {0, 1, 2, 3, 100}
INVARIANTS
    TypeOK
    QueueIsFifo
CHECK_DEADLOCK FALSE
