SPECIFICATION ISpec
CONSTRAINT HW
POSTCONDITION Accepted
CHECK_DEADLOCK FALSE
