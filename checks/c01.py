"""C01 - alert events follow the documented level/recovery state machine (spec/AlertNode)."""
import concurrent.futures
import json
import os
import re
import time

import verifylib as V

ASSUME = [
    "per alert ID the times of the points (stream) / batches are non-decreasing; overlapping batch windows (period > every) are not explored",
    "outside the errs family every point carries every field the lambdas read (there: a failing level condition does not hold, a failing reset condition does not hold the level - as the code has it); errors the task reports are recorded (nerr/nerrc on the Reset lines, node_errors_reported) and the outputs are judged as usual; a missing field is C04/C05 territory",
    "task restarts (same daemon, topic kept in memory) are explored only where the topic's memory is the true state: no flapping, recoveries delivered; restart from persisted storage / crash points is C08; no inhibitors; restore from PERSISTED event states only as a task restart of an alert with an inline handler (anonymous topic closed and restored from Bolt with all IDs of the chunk in it)",
    "several alert IDs rendered within one group: accepted if every ID follows the documented machine on its own points, or - listed known finding several-ids-per-group-share-state - if the group's single state machine explains it; the label and previous level of every event are judged per ID either way",
    "with flapping() the documentation fixes the hysteresis on a percentage of state changes but not the weighting: at verdict level the suppression of a NON-OK event is left open unless the recorded history (last `history` levels) contains no state change; a return to OK is always due (a withheld recovery is never made up for) - the stream form's deviation from that is the listed known finding stream-flapping-recovery-withheld",
    "stateful reset conditions are explored as count() >= k in stream form without filters; 'for each point an expression may or may not be evaluated' (docs): the ID's count is judged within [times the reset had to be consulted, number of the ID's own points], never anything of another ID",
    "delivery: the named topic's own handler queue never fills (stuck-handler scenario: rounds with exact waits on the alert package's enq/done hooks); a full queue of an INLINE handler is the explored fault",
    "batch event time: the documentation says 'time of the point that triggered the event'; accepted = a point of the batch that has the event's level, or the batch time for all() and for recoveries",
    "outside the stuck-handler scenario handler buffers (65536 events) never fill: a chunk offers fewer steps than that and any collect error aborts the check (exit 2)",
    "message/details templates are the defaults; their rendering is not compared",
    "TLC fingerprint collisions are negligible; the libflux link stub is never executed",
]

# many trace validations run side by side (and next to other checks): keep each JVM small
JVM_SMALL = {"JAVA_TOOL_OPTIONS": "-Xmx1500m -XX:ParallelGCThreads=2"}
JVM_MC = {"JAVA_TOOL_OPTIONS": "-Xmx4g -XX:ParallelGCThreads=4"}

# (cfg, invariant that must be violated, the named deviation of Impl it runs with)
OBSERVATIONS = [
    ("AlertNode_prefix.cfg", "EventCarries", "code before fix c143191: duration after a flapping-suppressed entry into non-OK"),
    ("AlertNode_prerestore.cfg", "EventCarries", "code before fix 06befa5: durations restart from the last event after a task restart"),
    ("AlertNode_obs_batchflap.cfg", "EmitIff", "the batch form shares the stream's emission test: a recovery during flapping is never reported"),
    ("AlertNode_obs_sharedreset.cfg", "LevelRule", "reset expressions evaluated on the node's shared copy: one ID's level depends on other IDs' points"),
    ("AlertNode_obs_collecterr.cfg", "NamedDelivery", "an error collecting for the anonymous topic keeps the event from the named topic"),
    ("AlertNode_obs_errreset.cfg", "LevelRule", "a reset condition that fails to evaluate holds the level"),
]


def model_check(sc, cfg, workers=16, timeout=2400, expect_violation=None):
    """V.model_check with a bounded JVM (the state spaces here are small; the default heap of a
    quarter of the machine per JVM gets checks OOM-killed when many run side by side)."""
    res = V.run_tlc(sc, "AlertNode", "AlertNodeMC.tla", cfg, workers=workers, timeout=timeout, env_extra=JVM_MC)
    if res["violated"]:
        if expect_violation and res["violated"] in expect_violation:
            V.log("model AlertNode/%s: expected counterexample for %s (observation only)" % (cfg, res["violated"]))
        else:
            raise V.Broken("model AlertNode/%s violates %s - the specification itself is inconsistent:\n%s" %
                           (cfg, res["violated"], "\n".join(res["out"].splitlines()[-60:])))
    elif not res["completed"]:
        raise V.Broken("model AlertNode/%s did not complete:\n%s" % (cfg, "\n".join(res["out"].splitlines()[-20:])))
    V.log("model AlertNode/%s: %d states, %d distinct, %.1fs" % (cfg, res["states"], res["distinct"], res["wall"]))
    return res

_RE_DRIFT = re.compile(r'<<\s*"IMPL-DRIFT",\s*(\d+),.*?>>', re.S)
_RE_REJECT = re.compile(r'<<\s*"C01-REJECT".*?>>', re.S)


def validate(sc, files, parallel=12, timeout=1800):
    """V.validate_traces plus the IMPL-DRIFT lines of every part (drift level, never a verdict)."""
    parts = []
    for f in files:
        parts += V.split_trace(f, parallel, sc)
    rej, kf, states, drift = [], set(), 0, []

    def one(fp):
        ee = {"TRACE_FILE": fp}
        ee.update(JVM_SMALL)
        return fp, V.run_tlc(sc, "AlertNode", "AlertNodeTraceMC.tla", "AlertNodeTrace.cfg", workers=1,
                             timeout=timeout, env_extra=ee)

    t = time.time()
    with concurrent.futures.ThreadPoolExecutor(max_workers=parallel) as ex:
        for fp, res in ex.map(one, parts):
            states += res["distinct"]
            kf.update(res["kf"])
            for k, m in enumerate(_RE_DRIFT.finditer(res["out"])):
                d = {"tlc": re.sub(r"\s+", " ", m.group(0))[:400]}
                if k < 2 and len(drift) < 6:   # a few worked-out examples are enough, the count is what matters
                    seg, _ = V.segment_of(fp, int(m.group(1)))
                    d["trace"] = [json.loads(x) for x in seg[-8:]]
                drift.append(d)
            if res["rejected_at"] is not None:
                rej.append((fp, res["rejected_at"], res))
            elif res["violated"]:
                rej.append((fp, None, res))
            elif "Postcondition" in res["out"] and "is false" in res["out"]:
                rej.append((fp, None, res))
    V.log("trace validation AlertNode/AlertNodeTrace.cfg: %d file(s), %d spec states, %d rejection(s), %d drift, %.1fs" %
          (len(parts), states, len(rej), len(drift), time.time() - t))
    return {"accepted": not rej, "rejections": rej, "kf": kf, "states": states, "drift": drift}


def _first_interesting_trace(path):
    """The first recorded trace whose last step carries a non-OK event with a non-zero duration."""
    cur = []
    with open(path) as f:
        for ln in f:
            if ln.startswith('{"ev":"Reset"'):
                cur = [ln]
                continue
            cur.append(ln)
            d = json.loads(ln)
            if len(cur) >= 4 and d.get("o") and d["o"][0][0] > 0 and d["o"][0][2] > 0 and len(d["pts"]) == 1:
                return cur
    return None


def corruption_selftest(sc, trace_file):
    """Binding self-test on this run's own data: a recorded trace with ONE corrupted field must be
    rejected by the trace specification (duration, level, a dropped event, an invented event)."""
    tr = _first_interesting_trace(trace_file)
    if tr is None:
        raise V.Broken("no recorded trace with a non-OK event of non-zero duration: the driver output is degenerate")
    last = json.loads(tr[-1])
    variants = {}
    v = json.loads(tr[-1]); v["o"][0][2] += 1; v["f"][0][1] += 1; variants["duration+1"] = v
    v = json.loads(tr[-1]); v["o"][0][0] = v["o"][0][0] % 3 + 1; v["f"][0][0] = v["f"][0][2] = v["o"][0][0]; variants["level"] = v
    v = json.loads(tr[-1]); v["o"], v["oid"], v["f"], v["fid"], v["ftid"], v["nf"] = [], [], [], [], [], 0; variants["event-dropped"] = v
    v = json.loads(tr[-1]); v["o"][0][1] += 1; variants["time+1"] = v
    v = json.loads(tr[-1]); v["f"], v["fid"], v["ftid"], v["nf"] = [], [], [], 0; variants["not-forwarded"] = v
    v = json.loads(tr[-1]); v["o"][0][4] = (v["o"][0][4] + 1) % 4; variants["previous-level"] = v
    d = sc.sub("selftest")
    files = {}
    for name, line in variants.items():
        fp = os.path.join(d, name.replace("+", "p") + ".ndjson")
        with open(fp, "w") as f:
            f.write("".join(tr[:-1]) + json.dumps(line, separators=(",", ":")) + "\n")
        files[name] = fp
    ok = os.path.join(d, "unmodified.ndjson")
    with open(ok, "w") as f:
        f.write("".join(tr))
    res = {}

    def one(item):
        name, fp = item
        ee = {"TRACE_FILE": fp}
        ee.update(JVM_SMALL)
        r = V.run_tlc(sc, "AlertNode", "AlertNodeTraceMC.tla", "AlertNodeTrace.cfg", workers=1, timeout=300, env_extra=ee)
        return name, r["rejected_at"]

    with concurrent.futures.ThreadPoolExecutor(max_workers=6) as ex:
        for name, rej in ex.map(one, list(files.items()) + [("unmodified", ok)]):
            res[name] = rej
    if res.pop("unmodified") is not None:
        raise V.Broken("self-test: the unmodified sample trace is rejected on its own")
    missed = [n for n, r in res.items() if r != len(tr)]
    if missed:
        raise V.Broken("self-test: corrupted field(s) %s not rejected at the corrupted line - the trace specification does not bind" % missed)
    V.log("binding self-test: %d single-field corruptions of a recorded trace all rejected at the corrupted line" % len(res))
    return {"corruptions_rejected": len(res), "corrupted_fields": sorted(res), "sample_last_line": last}


def run(sc, tier, seed):
    R = V.Result("C01", tier, seed)
    # design level: Impl (code-shaped) against Ref (documented machine) for every input sequence within the bounds
    cfg = "AlertNode_quick.cfg" if tier == "quick" else "AlertNode_thorough.cfg"
    R.add_model(model_check(sc, cfg))
    # observations: named deviations of Impl (constant Variant) must each break "their" invariant on every
    # run - no invariant is vacuous, and the model can express each of the seeded / repaired defects
    with concurrent.futures.ThreadPoolExecutor(max_workers=3) as ex:
        results = list(ex.map(lambda o: (o, model_check(sc, o[0], workers=2, timeout=600, expect_violation={o[1]})), OBSERVATIONS))
    for (ocfg, inv, what), res in results:
        if res["violated"] != inv:
            raise V.Broken("%s no longer yields the %s counterexample (%s): the invariant has become vacuous" % (ocfg, inv, what))
    # B1: systematic + seeded random sequences through real tasks, every step validated by TLC
    out, meta = V.run_driver(sc, "c01", tier, seed, timeout=3000)
    R.add_meta(meta)
    ne = meta.get("extra", {}).get("node_errors_reported", 0)
    if ne:
        # behaviour of the code under test, not a harness failure: recorded (Reset lines: nerr/nerrc), TLC judges the outputs
        V.log("the tasks reported %d error(s) through their diagnostics, e.g. %s" %
              (ne, "; ".join(meta["extra"].get("node_error_classes", [])[:2])[:300]))
    val = validate(sc, meta["trace_files"])
    R.states += val["states"]
    R.handle_validation(val)
    extra = {"impl_drift": [d for d in val["drift"] if "trace" in d][:5], "impl_drift_count": len(val["drift"])}
    for dft in val["drift"][:3]:
        V.log("impl drift (not a violation): the code-shaped model predicts another output:", dft["tlc"][:300])
    if val["accepted"]:
        extra["binding_selftest"] = corruption_selftest(sc, meta["trace_files"][0])
    return R.finish("model_checking", ASSUME, extra)


def replay(sc, path):
    """Re-validate the saved execution and re-execute its inputs on the real code of the tree under test."""
    seg = os.path.join(path, "segment.ndjson")
    val = validate(sc, [seg], parallel=1)
    print("replay: the recorded execution is %s by the current specification" % ("accepted" if val["accepted"] else "REJECTED"))
    for fp, ln, res in val["rejections"]:
        for m in _RE_REJECT.findall(res["out"])[:1]:
            print("replay:  ", re.sub(r"\s+", " ", m))
    out, meta = V.run_driver(sc, "c01", "quick", 1, args=["replay", seg], outname="drv-replay")
    val2 = validate(sc, meta["trace_files"], parallel=1)
    if val2["accepted"]:
        print("replay: re-executing the inputs on %s gives an execution the specification accepts (no violation on this tree)" % V.REPO)
        return 0
    for fp, ln, res in val2["rejections"]:
        segl, _ = V.segment_of(fp, ln)
        print("replay: re-execution on %s rejected at: %s" % (V.REPO, segl[-1][:300] if segl else "?"))
    print("VIOLATION property=C01 replay=%s" % path)
    return 1
