"""C06 - groups are processed independently and identified by their tag values (spec/GroupDemux)."""
import os
import verifylib as V

ASSUME = [
    "the per-group machine of every node is left uninterpreted in the spec: a solo run of the real pipeline defines it, mixed runs must reproduce it (what each node computes is C10/C11/C01/C03)",
    "outputs are attributed to groups by their group-by tag values and measurement; the ID string itself is covered by GroupIdInjective (TLC) over tag names/values containing ',', '=', '\\\\'",
    "tag values ending in a backslash cannot be written through the influxdb line-protocol point type used by the ingest path (library limitation) and are not explored",
    "two groups, time-ordered interleavings with all tie orders up to a limit",
]


def run(sc, tier, seed):
    R = V.Result("C06", tier, seed)
    # design level: identity is injective with escaping; isolation holds when all state lives in the per-group receiver
    R.add_model(V.model_check(sc, "GroupDemux", "GroupDemuxMC.tla", "GroupDemux_fixed.cfg", workers=4, timeout=900))
    # observations: the original ToGroupID (no escaping) collides; a node with shared state breaks isolation
    V.model_check(sc, "GroupDemux", "GroupDemuxMC.tla", "GroupDemux_noescape.cfg", workers=2, timeout=900,
                  expect_violation={"IdInjectiveInv"})
    V.model_check(sc, "GroupDemux", "GroupDemuxMC.tla", "GroupDemux_shared.cfg", workers=2, timeout=900,
                  expect_violation={"Isolation"})
    out, meta = V.run_driver(sc, "c06", tier, seed, timeout=3000)
    R.add_meta(meta)
    val = V.validate_traces(sc, "GroupDemux", "GroupDemuxTraceMC.tla", "GroupDemuxTrace.cfg", meta["trace_files"], parallel=4)
    R.states += val["states"]
    R.handle_validation(val, "a group's output depends on another group's data (or was attributed to the wrong group)")
    return R.finish("model_checking", ASSUME)


def replay(sc, path):
    seg = os.path.join(path, "segment.ndjson")
    val = V.validate_traces(sc, "GroupDemux", "GroupDemuxTraceMC.tla", "GroupDemuxTrace.cfg", [seg], parallel=1)
    if val["accepted"]:
        print("replay: segment is accepted by the current specification")
        return 0
    print("VIOLATION property=C06 replay=%s" % path)
    return 1
