"""C17 - scheduled task runs happen in order, exactly once, only while scheduled (spec/Scheduler).

1. design level: Scheduler.tla (Impl = lock regions of TreeScheduler, Ref = per-epoch ghost) model checked
   exhaustively: safety, the code's bookkeeping invariants, NeverStranded; liveness (ApiReturns, EventuallyRuns)
   under fairness in a smaller configuration; two stronger readings evaluated as observations (expected to fail).
2. binding (B2/B3): `tlc -simulate` on SchedulerSim.tla writes behaviours (quiescent schedules of the Impl model);
   driver c17 replays each on a real TreeScheduler with a mock clock, a gated recording executor and a recording
   checkpointer; every recorded execution is validated by TLC against SchedulerTrace.tla (verdict level).
"""
import concurrent.futures
import glob
import json
import os
import shutil
import subprocess
import tempfile
import time

import verifylib as V

ASSUME = [
    "schedules are '@every Ns' and cron '*/N * * * * * *' with N in 1..3, offsets 0..1 s, 2 task ids on 2 workers (sharing one or not); whole-second times",
    "the replayer drives quiescent schedules only (the scheduler's internal steps finish before the environment's next move); all other interleavings of API calls, timer, loop and workers are covered by the exhaustive model only",
    "mock clock benbjohnson/clock v1.1.0: jumps are made while holding the scheduler's lock (as the package's own tests do) and the environment never fires the timer on top of an untaken tick (the mock would block where a real timer drops the tick)",
    "within one pass of the loop the clock is read once (the code reads it up to three times; a later reading only makes more items due)",
    "a wait that misses its 40 s deadline (an expected execution or checkpoint never shows up, an API call or the clock does not return) is reported as a broken check (exit 2), not as a violation",
    "TLC fingerprint collisions are negligible; the libflux link stub is never executed",
]

TIERS = {
    #            safety cfg               sim traces  lanes  sim procs  environment moves of the systematic part
    "quick":    ("Scheduler_quick.cfg",    1600,       8,     2,         3),
    "thorough": ("Scheduler_thorough.cfg", 16000,      16,    6,         4),
}


def enumerate_all(sc, moves):
    """TLC breadth-first over SchedulerEnum: every behaviour with `moves` environment moves, one JSON file each."""
    out = sc.sub("enumerated")
    d = V._spec_copy(sc, "Scheduler")
    cfg = open(os.path.join(d, "SchedulerEnum.cfg")).read().replace("MaxMoves = 3", "MaxMoves = %d" % moves)
    with open(os.path.join(d, "SchedulerEnumK.cfg"), "w") as f:
        f.write(cfg)
    meta = tempfile.mkdtemp(prefix="meta-", dir=sc.dir)
    env = dict(os.environ)
    env.setdefault("JAVA_TOOL_OPTIONS", "-Xmx3g -XX:ParallelGCThreads=2")
    env["OUT_DIR"] = out
    t = time.time()
    with V.tlc_slots(1):
        r = subprocess.run(["timeout", "1500", "tlc", "-workers", "1", "-metadir", meta, "-config", "SchedulerEnumK.cfg", "SchedulerEnum.tla"],
                           cwd=d, env=env, capture_output=True, text=True)
    shutil.rmtree(meta, ignore_errors=True)
    txt = r.stdout + r.stderr
    if r.returncode == 137 or "OutOfMemoryError" in txt:
        raise V.Broken("TLC enumeration ran out of memory / was killed")
    if r.returncode == 124 or "Error:" in txt or "Model checking completed" not in txt:
        raise V.Broken("TLC enumeration of SchedulerEnum failed:\n" + V._tail(txt, 60))
    m = None
    for m in V._RE_STATES.finditer(txt):
        pass
    got = len(glob.glob(os.path.join(out, "*.json")))
    if got == 0:
        raise V.Broken("TLC enumeration produced no behaviours")
    V.log("enumeration: %d behaviours with %d environment moves in %.1fs" % (got, moves, time.time() - t))
    return out, got, (int(m.group(1)), int(m.group(2))) if m else (0, 0)


def replay_real(sc, R, tier, seed, beh, lanes, outname, extra_args):
    out, meta = V.run_driver(sc, "c17", tier, seed, args=["beh=" + beh, "lanes=%d" % lanes] + extra_args, timeout=2400, outname=outname)
    ex = meta.get("extra", {})
    part = "systematic" if "systematic" in extra_args else "random"
    meta["extra"] = {part + "_part": ex}
    R.add_meta(meta)
    return meta, ex


def validate(sc, R, metas, selftest_from):
    # one file: validate_traces splits it at Reset lines into one part per JVM (not one set of parts per lane)
    allfp = os.path.join(sc.sub("alltraces"), "all.ndjson")
    with open(allfp, "wb") as out:
        for meta, _ in metas:
            for f in meta["trace_files"]:
                with open(f, "rb") as src:
                    shutil.copyfileobj(src, out)
    anystuck = any(ex.get("stuck") for _, ex in metas)
    bad = corrupted_copy(sc, selftest_from)
    if bad is None and not anystuck:
        raise V.Broken("self-test: no recorded trace file starts with complete traces containing two executions")
    val = V.validate_traces(sc, "Scheduler", "SchedulerTraceMC.tla", "SchedulerTrace.cfg", [allfp] + ([bad[0]] if bad else []), timeout=2400)
    if bad:
        bad_fp, bad_line = bad
        mine = [r for r in val["rejections"] if r[0] == bad_fp]
        val["rejections"] = [r for r in val["rejections"] if r[0] != bad_fp]
        lines_rej = [r[1] for r in mine]
        if lines_rej == [bad_line]:
            V.log("self-test: corrupted occurrence at line %d rejected" % bad_line)
        elif len(lines_rej) == 1 and lines_rej[0] is not None and lines_rej[0] < bad_line and val["rejections"]:
            # the recorded trace is itself rejected before the corrupted line (a genuine rejection, reported below)
            V.log("self-test: the trace is already rejected at line %d, before the corrupted line %d" % (lines_rej[0], bad_line))
        else:
            raise V.Broken("self-test: a trace with a corrupted occurrence (line %d) was not rejected there (%s)" % (bad_line, lines_rej))
    val["accepted"] = not val["rejections"]
    R.states += val["states"]
    R.handle_validation(val)
    for _, ex in metas:
        if ex.get("stuck"):
            # a scheduler instance stopped responding within the harness' deadlines.  What it did before is recorded
            # and judged above; if none of it is wrong the check cannot tell a slow machine, a harness problem or a
            # scheduler that only runs things late (never a verdict under a mock clock) apart: broken, exit 2.
            if val["accepted"]:
                raise V.Broken("the scheduler under test got stuck and no recorded trace is rejected: " + "; ".join(ex["stuck"][:3]))
            V.log("note: a scheduler instance also got stuck: " + ex["stuck"][0])
        if ex.get("behaviours_skipped_after_too_many_cut_short", 0) and val["accepted"]:
            # the replayer lost step with the code again and again, yet nothing it recorded is wrong: the Impl model
            # (timer, s.when, worker hand-over) or the harness no longer matches the code.  Not a verdict.
            raise V.Broken("replayer lost step with the scheduler in %d behaviours (%s) without any rejected trace: Impl model / harness drift"
                           % (ex.get("behaviours_cut_short_by_a_benign_race_or_deviation", 0), ex.get("cut_short_at")))


def simulate(sc, n, seed, procs):
    """Run `tlc -simulate` on SchedulerSim in `procs` processes; returns the directory with b*.json behaviours."""
    out = sc.sub("behaviours")
    per = (n + procs - 1) // procs

    def one(k):
        d = V._spec_copy(sc, "Scheduler")
        meta = tempfile.mkdtemp(prefix="meta-", dir=sc.dir)
        o = os.path.join(out, "p%d" % k)
        os.makedirs(o)
        env = dict(os.environ)
        env.setdefault("JAVA_TOOL_OPTIONS", "-Xmx2g -XX:ParallelGCThreads=2")
        env["OUT_DIR"] = o
        # every other process generates behaviours with 3 ids (all ways of sharing 2 workers)
        cmd = ["timeout", "1500", "tlc", "-workers", "1", "-metadir", meta, "-config", "SchedulerSim.cfg" if k % 2 == 0 else "SchedulerSim3.cfg",
               "-simulate", "num=%d" % per, "-depth", "400", "-seed", str(seed * 1000 + k), "SchedulerSim.tla"]
        with V.tlc_slots(1):
            r = subprocess.run(cmd, cwd=d, env=env, capture_output=True, text=True)
        shutil.rmtree(meta, ignore_errors=True)
        txt = r.stdout + r.stderr
        if r.returncode == 137 or "OutOfMemoryError" in txt:
            raise V.Broken("TLC simulation ran out of memory / was killed")
        if r.returncode == 124:
            raise V.Broken("TLC simulation timed out")
        if "Error:" in txt or "is violated" in txt:
            raise V.Broken("TLC simulation of SchedulerSim failed (a model-level violation is not a verdict):\n" + V._tail(txt, 60))
        # flatten with unique names
        for f in glob.glob(os.path.join(o, "*.json")):
            os.rename(f, os.path.join(out, "p%d_%s" % (k, os.path.basename(f))))
        os.rmdir(o)

    t = time.time()
    with concurrent.futures.ThreadPoolExecutor(max_workers=procs) as ex:
        list(ex.map(one, range(procs)))
    got = len(glob.glob(os.path.join(out, "*.json")))
    if got < per:
        raise V.Broken("TLC simulation produced only %d behaviours" % got)
    V.log("simulation: %d behaviours in %.1fs" % (got, time.time() - t))
    return out, got


def corrupted_copy(sc, trace_files):
    """The binding must bite: one recorded field of a real trace is corrupted (an execution claims the occurrence
    after the one that was due); the trace specification has to reject exactly that line.  Returns (file, line),
    or None if no recorded file starts with complete traces containing two executions."""
    for trace_file in trace_files:
        lines = open(trace_file).read().splitlines()[:400]
        ends = [i for i, ln in enumerate(lines) if '"ev":"End"' in ln]
        starts = [i for i, ln in enumerate(lines) if '"ev":"ExecStart"' in ln and (not ends or i < ends[-1])]
        if not ends or len(starts) < 2:
            continue
        lines = lines[:ends[-1] + 1]
        k = starts[1]
        ev = json.loads(lines[k])
        ev["occ"] += 1
        lines[k] = json.dumps(ev, separators=(",", ":"))
        fp = os.path.join(sc.sub("selftest"), "corrupted.ndjson")
        with open(fp, "w") as f:
            f.write("\n".join(lines) + "\n")
        return fp, k + 1
    return None


def held_variant(sc):
    """Expected counterexample: HeldNoFinishSpec (one Lock with a deferred Unlock around the loop's inner for)
    violates ApiNeverWaitsForExecution.  (verifylib's parser does not know this TLC's wording for a violated
    temporal property, hence the small runner.)"""
    d = V._spec_copy(sc, "Scheduler")
    meta = tempfile.mkdtemp(prefix="meta-", dir=sc.dir)
    env = dict(os.environ)
    env.setdefault("JAVA_TOOL_OPTIONS", "-Xmx3g -XX:ParallelGCThreads=2")
    with V.tlc_slots(1):
        r = subprocess.run(["timeout", "900", "tlc", "-workers", "2", "-metadir", meta, "-config", "Scheduler_obs_holdlock.cfg", "SchedulerMC.tla"],
                           cwd=d, env=env, capture_output=True, text=True)
    shutil.rmtree(meta, ignore_errors=True)
    txt = r.stdout + r.stderr
    if r.returncode == 137 or "OutOfMemoryError" in txt:
        raise V.Broken("TLC ran out of memory / was killed (Scheduler_obs_holdlock.cfg)")
    if "Temporal property ApiNeverWaitsForExecution was violated" in txt or "Temporal properties were violated" in txt:
        V.log("model Scheduler/Scheduler_obs_holdlock.cfg: expected counterexample for ApiNeverWaitsForExecution (the variant that keeps the lock)")
        return "fails, as it must (expected counterexample)"
    raise V.Broken("the lock-holding variant of the model does not violate ApiNeverWaitsForExecution:\n" + V._tail(txt, 40))


def run(sc, tier, seed):
    R = V.Result("C17", tier, seed)
    V.build_harness()
    cfg, ntraces, lanes, procs, moves = TIERS[tier]
    # ---- design level ----
    R.add_model(V.model_check(sc, "Scheduler", "SchedulerMC.tla", cfg, workers=8 if tier == "quick" else 16, timeout=1700))
    live = "Scheduler_live.cfg" if tier == "quick" else "Scheduler_live_thorough.cfg"
    R.add_model(V.model_check(sc, "Scheduler", "SchedulerMC.tla", live, workers=4 if tier == "quick" else 8, timeout=2400))
    obs = {}
    # Schedule/Release never wait for an execution: they return even if Execute never does (no fairness on WorkerFinish)
    R.add_model(V.model_check(sc, "Scheduler", "SchedulerMC.tla", "Scheduler_live_nofinish.cfg", workers=4, timeout=900))
    # ... and the variant that keeps the lock while it waits for a busy worker must NOT have that property
    obs["ApiNeverWaitsForExecution in the variant that holds s.mu across the hand-off wait"] = held_variant(sc)
    # ... and the variant whose Release stops the timer on an empty queue (leaving s.when stale) must strand a later Schedule
    res = V.model_check(sc, "Scheduler", "SchedulerMC.tla", "Scheduler_obs_relstop.cfg", workers=2, timeout=600, expect_violation=["NeverStranded"])
    if not res["violated"]:
        raise V.Broken("the variant whose Release stops the timer does not violate NeverStranded")
    obs["NeverStranded in the variant whose Release stops the timer on an empty queue"] = "fails, as it must (expected counterexample)"
    readings = [("Scheduler_obs_rerun.cfg", "NeverRerunAcrossEpochs")]
    if tier == "thorough":
        readings.append(("Scheduler_obs_ckpt.cfg", "CheckpointNeverGoesBack"))
    for name, inv in readings:
        res = V.model_check(sc, "Scheduler", "SchedulerMC.tla", name, workers=4, timeout=600, expect_violation=[inv])
        obs[inv] = "fails in the model (stronger than the per-epoch reading; observation only)" if res["violated"] else "holds within the bounds"
    # ---- binding 1: every behaviour with `moves` environment moves over the small alphabet ----
    ebeh, nenum, (egen, edist) = enumerate_all(sc, moves)
    R.states += edist
    R.transitions += egen
    m1 = replay_real(sc, R, tier, seed, ebeh, 4 if tier == "quick" else 12, "drv-c17-enum", ["systematic", "race=0"])
    # ---- binding 2: seeded random longer behaviours (tlc -simulate), a quarter of them replayed in race mode ----
    beh, nbeh = simulate(sc, ntraces, seed, procs)
    m2 = replay_real(sc, R, tier, seed, beh, lanes, "drv-c17-sim", [])
    meta = m2[0]
    # ---- TLC decides every recorded execution ----
    validate(sc, R, [m1, m2], meta["trace_files"] + m1[0]["trace_files"])
    reruns = meta["extra"]["random_part"].get("observation_occurrence_reruns_across_epochs", 0)
    if reruns:
        V.log("OBSERVATION property=C17: %d occurrence(s) were executed again after a re-Schedule (allowed by the per-epoch reading)" % reruns)
    return R.finish("model_checking", ASSUME, extra_cov={"stronger_readings": obs, "behaviours_generated_by_simulation": nbeh,
                                                          "behaviours_enumerated_systematically": nenum, "systematic_environment_moves": moves})


def replay(sc, path):
    seg = os.path.join(path, "segment.ndjson")
    val = V.validate_traces(sc, "Scheduler", "SchedulerTraceMC.tla", "SchedulerTrace.cfg", [seg])
    if val["accepted"]:
        print("replay: segment is accepted by the current specification")
        return 0
    print("VIOLATION property=C17 replay=%s" % path)
    return 1
