"""C14 - task definitions and their running state persist and stay in step (spec/TaskStore).

1. TaskStore.tla is model checked exhaustively: every history of API requests up to the bound, a crash
   after any transaction of any request, clean restarts; Impl (handlers as sequences of DAO transactions)
   against Ref (the accepted catalogue) - CatalogueIsAccepted, AnswerMatches, ExecutingIffEnabledStarted,
   RestartRestoresExecuting, NoOrphanAssociation, TemplateAllOrNone, CrashAtomicOrKnown.
2. Driver c14 runs a real task_store.Service + TaskMaster on a real Bolt file, issues the requests through
   the HTTP handlers the service registers, reads the catalogue back through the API after every request,
   copies the store after every committed transaction and restarts a fresh stack on every copy.
3. TaskStoreTrace.tla validates every logged answer and catalogue; the two crash deviations that are
   recorded as known findings print KF-HIT; internal-layout differences print DRIFT (reported, exit 0).
"""
import concurrent.futures
import os
import re
import time

import verifylib as V

ASSUME = [
    "requests are issued one at a time (the handlers take no lock against each other; concurrent requests on the same task are out of scope)",
    "a crash loses exactly the volatile state; Bolt commits are atomic and durable (copies are taken through a read transaction after a commit returned)",
    "scripts are abstracted to 9 representatives (plain, needs-var, does-not-compile, needs-an-unreachable-cluster-at-start; 4 template scripts), dbrps to 2, vars to {none, v=x, v=y}; 2 task ids, 2 template ids",
    "no periodic task snapshots (snapshot-interval 0), no migration directory; batch tasks and implicit dbrp statements are not in the alphabet",
    "after a crash that left a named third state (known findings) the accepted catalogue is re-based on what is visible",
    "TLC fingerprint collisions are negligible; the libflux link stub is never executed",
]

MOD = "TaskStore"
_RE_DRIFT = re.compile(r'"DRIFT", "([^"]+)"')


def _validate(sc, files, parallel=4, timeout=1500):
    parts = []
    for f in files:
        parts += V.split_trace(f, parallel, sc)
    rej, kf, states, drift = [], set(), 0, {}

    def one(fp):
        return fp, V.run_tlc(sc, MOD, "TaskStoreTraceMC.tla", "TaskStoreTrace.cfg", workers=1, timeout=timeout,
                             env_extra={"TRACE_FILE": fp})

    t = time.time()
    with concurrent.futures.ThreadPoolExecutor(max_workers=parallel) as ex:
        for fp, res in ex.map(one, parts):
            states += res["distinct"]
            kf.update(res["kf"])
            for d in _RE_DRIFT.findall(res["out"]):
                drift[d] = drift.get(d, 0) + 1
            if res["violated"]:
                # an invariant of the specification failed on the state reached after line `diameter - 1`
                # (TLC then also evaluates the postcondition, whose high-water mark points one line further)
                m = re.search(r"The depth of the complete state graph search is (\d+)", res["out"])
                rej.append((fp, int(m.group(1)) - 1 if m else None, res))
            elif res["rejected_at"] is not None:
                rej.append((fp, res["rejected_at"], res))
            elif "Postcondition" in res["out"] and "is false" in res["out"]:
                rej.append((fp, None, res))
            elif not res.get("completed"):
                raise V.Broken("TLC did not complete on %s:\n%s" % (fp, V._tail(res["out"])))
    V.log("trace validation %s: %d file(s), %d spec states, %d rejection(s), drift %s, %.1fs" %
          (MOD, len(parts), states, len(rej), drift or "none", time.time() - t))
    return {"accepted": not rej, "rejections": rej, "kf": kf, "states": states, "drift": drift}


def run(sc, tier, seed):
    R = V.Result("C14", tier, seed)
    if tier == "quick":
        # reduced request alphabet, histories <= 4, one crash
        R.add_model(V.model_check(sc, MOD, "TaskStoreMC.tla", "TaskStore_quick.cfg", workers=8, timeout=1500))
    else:
        # full alphabet (start failures, batch task, environment changes), histories <= 4, two crashes ...
        R.add_model(V.model_check(sc, MOD, "TaskStoreMC.tla", "TaskStore_thorough.cfg", workers=8, timeout=2400))
        # ... and the reduced alphabet with histories <= 5, one crash
        R.add_model(V.model_check(sc, MOD, "TaskStoreMC.tla", "TaskStore_thorough5.cfg", workers=8, timeout=2400))
    obs = V.model_check(sc, MOD, "TaskStoreMC.tla", "TaskStore_obs.cfg", workers=2, timeout=600,
                        expect_violation=["CrashAtomic"])
    R.notes["model_counterexample_without_named_crash_classes"] = obs["violated"] or "none"
    asf = V.model_check(sc, MOD, "TaskStoreMC.tla", "TaskStore_asfound.cfg", workers=2, timeout=600,
                        expect_violation=["CatalogueIsAccepted", "NoOrphanAssociation", "TemplateAllOrNone"])
    R.notes["model_counterexample_handlers_before_fixes"] = asf["violated"] or "none"
    out, meta = V.run_driver(sc, "c14", tier, seed, timeout=2400)
    R.add_meta(meta)
    val = _validate(sc, meta["trace_files"], parallel=4 if tier == "quick" else 6)
    R.states += val["states"]
    R.handle_validation(val, what="history of the real task store is not a behaviour of TaskStore / violates C14")
    R.notes["impl_drift"] = val["drift"]
    rc = R.finish("model_checking", ASSUME)
    hangs = (meta.get("extra") or {}).get("shutdown_hangs", 0)
    if hangs and rc == 0:
        # the stop sequence of the real stack did not return: what was recorded before is valid evidence
        # (a violation in it stands), but a run cut short cannot certify anything
        raise V.Broken("%d stop sequence(s) of the real service stack never returned (TaskMaster.StopTasks/Close hung); "
                       "the run was cut short and no violation was recorded before" % hangs)
    return rc


def replay(sc, path):
    """Re-execute the history of a saved violation on the real code (all crash points again) and validate it."""
    seg = os.path.join(path, "segment.ndjson")
    out, meta = V.run_driver(sc, "c14replay", "quick", 1, timeout=600, args=["replay=" + seg], outname="drv-replay")
    val = _validate(sc, meta["trace_files"], parallel=2)
    kfs = V.known_findings("C14")
    unlisted = [k for k in val["kf"] if k not in kfs]
    if val["accepted"] and not unlisted:
        print("replay: the history no longer violates C14 on this tree (%d events re-executed)" % meta["events"])
        return 0
    for fp, line_no, res in val["rejections"][:3]:
        s, _ = V.segment_of(fp, line_no)
        V.log("rejected: " + (s[-1][:300] if s else "?"))
    print("VIOLATION property=C14 replay=%s" % path)
    return 1
