"""C19 - data crosses the UDF boundary unchanged and the protocol is framed safely (spec/UDFProto)."""
import json
import os
import tempfile

import verifylib as V

ASSUME = [
    "finite payload classes only (every field type incl. ints beyond 2^53, -0/NaN/Inf/denormal floats, strings with quotes/commas/spaces/newlines/NUL/unicode, empty tag sets, 9 group shapes, times at the edges of the int64 nanosecond range, batches of 0..3 points): protobuf encoding of arbitrary values is not decided",
    "times outside the int64 nanosecond range (e.g. the zero time.Time) are outside the domain: Time.UnixNano is undefined for them",
    "the in-memory pipes are unbounded (an OS pipe holds 64 KB): a peer that stops reading while more than that is in flight can still block udf.Server.abort/Stop for ever (docs/notes/C07.md)",
    "keepalive sessions use a 400 ms timeout and wait for round trips counted on the wire; a watchdog that fires because the machine is busy repeats the session with a longer timeout (5 attempts, then exit 2) and never yields a verdict",
    "process sessions use a real os/exec child (the harness binary re-executed) and OS pipes; the backlog stays below the 64 KB an OS pipe holds",
    "fault scenarios run one child process each; a hang is declared after 60 s (the scenarios need milliseconds), a dead child is a line no action of the specification explains",
    "the model's pipes carry whole messages; the byte level is UDFFraming (radix 2 in the exhaustive instances, radix 128 against the real reader, sizes above 2^30 treated as too large because TLC integers are 32 bit)",
    "TLC fingerprint collisions are negligible; the libflux link stub is never executed",
]

MOD = "UDFProto"


def split_by_reset(path, parts, sc):
    """Split a trace file at Reset lines into <= parts files of similar size (whatever its length)."""
    lines = open(path).read().split("\n")
    if lines and lines[-1] == "":
        lines.pop()
    starts = [i for i, ln in enumerate(lines) if ln.startswith('{"ev":"Reset"')]
    if parts <= 1 or len(starts) < 2:
        return [path]
    target = len(lines) / float(parts)
    bounds, cur, nxt = [], 0, target
    for s in starts[1:]:
        if s >= nxt:
            bounds.append((cur, s))
            cur = s
            nxt = s + target
    bounds.append((cur, len(lines)))
    d = tempfile.mkdtemp(prefix="c19split-", dir=sc.dir)
    out = []
    for k, (a, b) in enumerate(bounds):
        fp = os.path.join(d, "%s.part%02d.ndjson" % (os.path.basename(path)[:-7], k))
        with open(fp, "w") as f:
            f.write("\n".join(lines[a:b]) + "\n")
        out.append(fp)
    return out


def validate(sc, R, files, module, cfg, what, parts):
    fs = []
    for f in files:
        n = sum(1 for _ in open(f))
        # long files are split by verifylib itself (>= 2000 lines); shorter ones here, so that no part is split twice
        fs += [f] if n >= 2000 * parts else split_by_reset(f, min(parts, max(1, n // 150)), sc)
    val = V.validate_traces(sc, MOD, module, cfg, fs, parallel=parts, timeout=1500)
    R.states += val["states"]
    R.handle_validation(val, what)
    return val


PEER_FAULT_WHAT = "a peer/data fault had an outcome the protocol model does not allow (process died, hang, lost or invented output)"


def peer_fault_stage(sc, tier, seed):
    """The peer-fault stage on its own, for checks that share it (C05: "every message from a UDF process ... an error for
    that peer at most; the process and all other tasks are unaffected").

    Runs driver `c19fault` (one child process per scenario: the misbehaving-peer alphabet incl. wrong-kind / duplicate /
    unsolicited responses, data faults, Stop racing with the death of the peer, the task-snapshotter path) against the
    tree under test and validates the recorded trace `fault.ndjson` with spec/UDFProto/UDFProtoTraceMC.tla under
    UDFProtoFaultTrace.cfg.  No Result handling: returns (meta, val); val is what V.validate_traces returns
    (accepted, rejections [(file, line, res)], kf, states) - hand it to R.handle_validation(val, what) of the calling
    check.  A child that dies / a Stop that hangs is a ProcessDied / StopHang line that no action explains."""
    V.build_harness()
    out, meta = V.run_driver(sc, "c19fault", tier, seed, timeout=2400)
    fs = []
    for f in meta["trace_files"]:
        n = sum(1 for _ in open(f))
        fs += split_by_reset(f, min(8, max(1, n // 150)), sc)
    val = V.validate_traces(sc, MOD, "UDFProtoTraceMC.tla", "UDFProtoFaultTrace.cfg", fs, parallel=8, timeout=1500)
    return meta, val


def run(sc, tier, seed):
    R = V.Result("C19", tier, seed)
    V.build_harness()
    thorough = tier == "thorough"
    # ---- design level ----
    # byte level: every stream x every way of cutting and reading it
    R.add_model(V.model_check(sc, MOD, "UDFFramingMC.tla", "UDFFraming_%s.cfg" % tier, workers=8, timeout=1500))
    # message level, well-behaved peer: echo identity, wire identity, snapshot/restore, stop drains, no deadlock under
    # 1-slot pipes with keepalive and requests competing with data
    cfgs = ["UDFProto_quick.cfg", "UDFProto_bad_quick.cfg", "UDFProto_stray_quick.cfg", "UDFProto_faults_quick.cfg", "UDFProto_reqfaults_quick.cfg",
            "UDFProto_abort_quick.cfg", "UDFProto_abortcall_quick.cfg"]
    if thorough:
        cfgs += ["UDFProto_thorough.cfg", "UDFProto_batches_thorough.cfg", "UDFProto_faults_thorough.cfg", "UDFProto_reqfaults_thorough.cfg",
                 "UDFProto_abort_thorough.cfg", "UDFProto_abortoa_thorough.cfg"]
    for cfg in cfgs:
        R.add_model(V.model_check(sc, MOD, "UDFProtoMC.tla", cfg, workers=8, timeout=1500))
    # the code before the fixes, as observations: the same model with the switches off must show the defects
    for cfg, exp in (("UDFProto_orig.cfg", "NoProcessCrash"), ("UDFProto_origbad.cfg", "NoProcessCrash"), ("UDFProto_hang.cfg", "Deadlock reached"),
                     ("UDFProto_hangreq.cfg", "Deadlock reached")):
        res = V.model_check(sc, MOD, "UDFProtoMC.tla", cfg, workers=2, timeout=300, expect_violation={exp})
        if res["violated"] != exp:
            raise V.Broken("model %s no longer shows the defect it is there to show (%s): the fault alphabet of the configuration is dead" % (cfg, exp))

    parts = 8
    stages = [
        # B1, byte level: real WriteMessage/ReadMessage under every split
        ("c19frame", "UDFFramingTrace.tla", "UDFFramingTrace.cfg",
         "agent.ReadMessage did not return what the stream contains under this fragmentation"),
        # peer faults / data faults, one child process each (ties into C05)
        ("c19fault", "UDFProtoTraceMC.tla", "UDFProtoFaultTrace.cfg", PEER_FAULT_WHAT),
        # B1/B3, message level: sessions on the real udf.Server
        ("c19", "UDFProtoTraceMC.tla", "UDFProtoTrace.cfg",
         "session on the real udf.Server not explained by the protocol model (echo / wire / snapshot / stop)"),
        # the same below a real UDFNode in real tasks
        ("c19task", "UDFProtoTraceMC.tla", "UDFProtoTrace.cfg", "task with a UDF node not explained by the protocol model"),
        # kapacitor.UDFProcess over the real exec commander and a real child process (this binary as `kvh c19child`):
        # the child exits with its responses unread in the stdout pipe, then the consumer starts
        ("c19proc", "UDFProtoTraceMC.tla", "UDFProtoTrace.cfg",
         "UDF process session not explained by the protocol model (responses written before the process exited were lost / Close failed)"),
    ]
    for drv, module, cfg, what in stages:
        try:
            if drv == "c19fault":
                meta, val = peer_fault_stage(sc, tier, seed)
                R.add_meta(meta)
                R.states += val["states"]
                R.handle_validation(val, what)
                continue
            out, meta = V.run_driver(sc, drv, tier, seed, timeout=2400)
            R.add_meta(meta)
            # the c19 driver also records the complete agent -> server byte stream of every session (wire.ndjson):
            # that one is validated at the byte level (whole frames, one writer)
            wire = [f for f in meta["trace_files"] if os.path.basename(f) == "wire.ndjson"]
            validate(sc, R, [f for f in meta["trace_files"] if f not in wire], module, cfg, what, parts)
            if wire:
                validate(sc, R, wire, "UDFFramingTrace.tla", "UDFFramingTrace.cfg",
                         "the byte stream the agent wrote during a session is not a sequence of whole frames (or not as many as responses were handed to its writer)", 2)
        except V.Broken as e:
            # a stage that cannot run after an earlier stage has already reproduced a violation on the real code
            # (a seeded change usually breaks more than one thing) must not turn the verdict into "check broken"
            if not R.violations:
                raise
            V.log("stage %s could not be completed (%s); reporting the violations found before it" % (drv, str(e).splitlines()[0][:200]))
            R.notes["stage_not_completed"] = drv
            break
    return R.finish("model_checking", ASSUME)


def replay(sc, path):
    seg = os.path.join(path, "segment.ndjson")
    first = {}
    with open(seg) as f:
        ln = f.readline()
        try:
            first = json.loads(ln)
        except ValueError:
            pass
    mode = first.get("mode", "proto")
    if mode == "frame":
        module, cfg = "UDFFramingTrace.tla", "UDFFramingTrace.cfg"
    elif mode == "fault":
        module, cfg = "UDFProtoTraceMC.tla", "UDFProtoFaultTrace.cfg"
    else:
        module, cfg = "UDFProtoTraceMC.tla", "UDFProtoTrace.cfg"
    val = V.validate_traces(sc, MOD, module, cfg, [seg], parallel=1)
    if val["accepted"]:
        print("replay: segment is accepted by the current specification")
        return 0
    print("VIOLATION property=C19 replay=%s" % path)
    return 1
