"""C02 - each stream task receives its selected points exactly once, in order (spec/Routing)."""
import verifylib as V

ASSUME = [
    "edge buffers (1000 messages) never fill in the explored histories, so forkPoint never blocks on a slow task",
    "one TaskMaster is reused for many traces; every trace ends with a fence, StopTask of every task and an empty fork table",
    "StartTask is never called for a task that is already executing (the task store stops it first); tasks consist of from()|log() chains",
    "concurrent histories depend on the Go scheduler: an observed loss/duplicate is real, absence is a pass (one-sided)",
    "TLC fingerprint collisions are negligible; the libflux link stub is never executed",
]

# many trace validations run side by side (and next to other checks): keep each JVM small
JVM_SMALL = {"JAVA_TOOL_OPTIONS": "-Xmx1500m -XX:ParallelGCThreads=2"}
JVM_MED = {"JAVA_TOOL_OPTIONS": "-Xmx3g -XX:ParallelGCThreads=2"}


def run(sc, tier, seed):
    R = V.Result("C02", tier, seed)
    V.build_harness()
    # design level: every interleaving of writes, forkPoint, task consumption and lifecycle calls
    cfg = "Routing_quick.cfg" if tier == "quick" else "Routing_thorough.cfg"
    R.add_model(V.model_check(sc, "Routing", "RoutingMC.tla", cfg, timeout=1500))
    # observation: without per-point de-duplication in forkPoint the model must show the double delivery
    obs = V.model_check(sc, "Routing", "RoutingMC.tla", "Routing_nodedup.cfg", workers=4, timeout=600,
                        expect_violation={"ExactlyOnce"})
    if obs["violated"] != "ExactlyOnce":
        raise V.Broken("Routing_nodedup.cfg no longer yields the ExactlyOnce counterexample: the invariant has become vacuous")
    # B1/B3: systematic, random and concurrent histories on the real TaskMaster
    out, meta = V.run_driver(sc, "c02", tier, seed, timeout=3000)
    R.add_meta(meta)
    files = meta["trace_files"]
    # verdict level: every recorded line against what the property promises
    val = V.validate_traces(sc, "Routing", "RoutingTraceMC.tla", "RoutingTrace.cfg", files, env_extra=JVM_SMALL)
    R.states += val["states"]
    R.handle_validation(val)
    # impl level (drift only, never a verdict): the sequential traces against the code-shaped model
    drift = []
    if val["accepted"]:
        seq = [f for f in files if f.endswith("seq.ndjson")]
        val2 = V.validate_traces(sc, "Routing", "RoutingTraceMC.tla", "RoutingImplTrace.cfg", seq, env_extra=JVM_MED)
        R.states += val2["states"]
        for fp, line_no, res in val2["rejections"]:
            seg, _ = V.segment_of(fp, line_no)
            drift.append({"line": seg[-1][:300] if seg else "?", "trace_len": len(seg)})
            V.log("impl drift (not a violation): code-shaped model cannot explain", seg[-1][:200] if seg else "?")
    return R.finish("model_checking", ASSUME, {"impl_drift": drift, "impl_level_validated": bool(val["accepted"])})


def replay(sc, path):
    import os
    seg = os.path.join(path, "segment.ndjson")
    val = V.validate_traces(sc, "Routing", "RoutingTraceMC.tla", "RoutingTrace.cfg", [seg])
    if val["accepted"]:
        print("replay: segment is accepted by the current specification")
        return 0
    print("VIOLATION property=C02 replay=%s" % path)
    return 1
